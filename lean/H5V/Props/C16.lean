import H5V.Model.XmlTB
import H5V.Spec.XmlNs
import H5V.Lemmas.XmlTB
import H5V.Lemmas.XmlNs
/-!
C16 — XML namespaces resolve by lexical scope and lose no attribute.
-/
namespace H5V.Props.C16
open H5V.Model.XmlTB H5V.Spec.XmlNs H5V.Lemmas.XmlTB H5V.Lemmas.XmlNs

/-! ## 1. balance of the namespace stack, panic freedom -/

/-- one namespace map per open element plus the bottom (default) map -/
def Bal (s : State) : Prop := s.nsStack.length = s.opened.length + 1

/-- The exact balance invariant.  The only reachable unbalanced states are in the End phase, after
an *empty* `<script/>` root (mod.rs:361 pushes its map, mod.rs:647-650 never pops it) — there the
stack is never consulted again. -/
def Inv (s : State) : Prop :=
  match s.phase with
  | .start => s.opened = [] ∧ s.nsStack.length = 1
  | .main => s.opened ≠ [] ∧ Bal s
  | .end_ => Bal s ∨ (s.opened = [] ∧ s.nsStack.length = 2)

theorem inv_init : Inv State.init := by simp [Inv, State.init]

theorem appendCur_ok (s : State) (upd : List Node → List Node) (h : s.opened ≠ []) :
    ∃ s', appendCur s upd = .ok s' ∧ s'.phase = s.phase ∧ s'.nsStack = s.nsStack ∧
      names s' = names s ∧ s'.created = s.created := by
  unfold appendCur
  match hs : s.opened with
  | [] => exact absurd hs h
  | f :: rest => exact ⟨_, rfl, rfl, rfl, by simp [names, hs], rfl⟩

theorem names_length (s : State) : (names s).length = s.opened.length := by simp [names]

theorem opened_ne_of_names {s s' : State} (h : names s' = names s) (hne : s.opened ≠ []) :
    s'.opened ≠ [] := by
  intro h0
  have := congrArg List.length h
  simp [names_length, h0] at this
  exact hne (List.eq_nil_of_length_eq_zero this.symm)

theorem setEndIfEmpty_inv (s : State) (hp : s.phase = .main) (hb : Bal s) : Inv (setEndIfEmpty s) := by
  unfold setEndIfEmpty
  split
  · rename_i h
    simp only [Inv]
    left; exact hb
  · rename_i h
    simp only [Inv, hp]
    exact ⟨by intro h0; simp [h0] at h, hb⟩

/-- every step of the builder succeeds (no `expect` fires) and preserves the invariant -/
theorem step_inv (cfg : TbCfg) (s : State) (tok : Token) (h : Inv s) :
    ∃ s', step cfg s tok = .ok s' ∧ Inv s' := by
  unfold step
  match hp : s.phase with
  | .start =>
    simp only [Inv, hp] at h
    obtain ⟨ho, hl⟩ := h
    match tok with
    | .tag ⟨.start, n, as⟩ =>
      refine ⟨_, rfl, ?_⟩
      simp [Inv, Bal, pushesMap, ho, hl]
    | .tag ⟨.empty, n, as⟩ =>
      refine ⟨_, rfl, ?_⟩
      simp only [Inv, Bal, applyNs_nsStack]
      split <;> simp [hl, ho]
    | .tag ⟨.end_, n, as⟩ => exact ⟨_, rfl, by simp [Inv, hp, ho, hl]⟩
    | .tag ⟨.short, n, as⟩ => exact ⟨_, rfl, by simp [Inv, hp, ho, hl]⟩
    | .comment c => exact ⟨_, rfl, by unfold State.appendDoc; split <;> simp [Inv, hp, ho, hl]⟩
    | .pi t d => exact ⟨_, rfl, by unfold State.appendDoc; split <;> simp [Inv, hp, ho, hl]⟩
    | .chars cs => simp only []; split <;> exact ⟨_, rfl, by simp [Inv, hp, ho, hl]⟩
    | .eof => exact ⟨_, rfl, by simp [Inv, Bal, ho, hl]⟩
    | .doctype n p sy =>
      simp only []
      split
      · exact ⟨_, rfl, by simp [Inv, hp, ho, hl]⟩
      · exact ⟨_, rfl, by unfold State.appendDoc; split <;> simp [Inv, hp, ho, hl]⟩
    | .nullChar => exact ⟨_, rfl, by simp [Inv, hp, ho, hl]⟩
  | .main =>
    simp only [Inv, hp] at h
    obtain ⟨ho, hb⟩ := h
    match tok with
    | .chars cs =>
      obtain ⟨s', he, hph, hns, hnm, _⟩ := appendCur_ok s (fun k => appendText k cs) ho
      refine ⟨s', he, ?_⟩
      simp only [Inv, hph, hp]
      exact ⟨opened_ne_of_names hnm ho, by simp [Bal, hns, ← names_length s', hnm, names_length s]; exact hb⟩
    | .comment c =>
      obtain ⟨s', he, hph, hns, hnm, _⟩ := appendCur_ok s (fun k => .comment c :: k) ho
      refine ⟨s', he, ?_⟩
      simp only [Inv, hph, hp]
      exact ⟨opened_ne_of_names hnm ho, by simp [Bal, hns, ← names_length s', hnm, names_length s]; exact hb⟩
    | .pi t d =>
      obtain ⟨s', he, hph, hns, hnm, _⟩ := appendCur_ok s (fun k => .pi t d :: k) ho
      refine ⟨s', he, ?_⟩
      simp only [Inv, hph, hp]
      exact ⟨opened_ne_of_names hnm ho, by simp [Bal, hns, ← names_length s', hnm, names_length s]; exact hb⟩
    | .eof => exact ⟨_, rfl, by simp only [Inv]; left; exact hb⟩
    | .nullChar => exact ⟨_, rfl, by simp only [Inv]; left; exact hb⟩
    | .doctype _ _ _ => exact ⟨_, rfl, by simp [Inv, hp, ho]; exact hb⟩
    | .tag ⟨.start, n, as⟩ =>
      simp only []
      unfold insertTag
      match hs : (applyNs cfg s ⟨.start, n, as⟩).1.opened with
      | [] => simp at hs; exact absurd hs ho
      | f :: rest =>
        refine ⟨_, rfl, ?_⟩
        simp at hs
        simp [Inv, Bal, hp, applyNs_nsStack, pushesMap]
        simpa [Bal, hs] using hb
    | .tag ⟨.short, n, as⟩ =>
      obtain ⟨s', he, hnm, hns, hsr⟩ := pop_spec s ho
      refine ⟨setEndIfEmpty s', by simp [he, Except.map], ?_⟩
      apply setEndIfEmpty_inv s' (by rw [hsr.phase, hp])
      have h1 := congrArg List.length hnm
      simp [names_length] at h1
      simp [Bal, hns, h1]
      have : s.opened.length ≠ 0 := by intro h0; exact ho (List.eq_nil_of_length_eq_zero h0)
      unfold Bal at hb; omega
    | .tag ⟨.end_, n, as⟩ =>
      simp only []
      have ho' : (applyNs cfg s ⟨.end_, n, as⟩).1.opened ≠ [] := by simpa using ho
      obtain ⟨s', he, hph, _, hm⟩ := closeTag_spec (applyNs cfg s ⟨.end_, n, as⟩).1
        (processNamespaces cfg s.nsStack ⟨.end_, n, as⟩).name ho'
      refine ⟨setEndIfEmpty s', by simp [he, Except.map], ?_⟩
      apply setEndIfEmpty_inv s' (by rw [hph]; simpa using hp)
      have hns0 : (applyNs cfg s ⟨.end_, n, as⟩).1.nsStack = s.nsStack := by
        simp [applyNs_nsStack, pushesMap]
      revert hm
      split
      · rename_i k hk
        rintro ⟨hn, hns⟩
        have hlt := firstMatch_lt _ _ _ hk
        have h1 := congrArg List.length hn
        simp [names_length] at h1 hlt
        simp [Bal, hns, hns0, h1]
        unfold Bal at hb; omega
      · rintro ⟨hn, hns⟩
        have h1 := congrArg List.length hn
        simp [names_length] at h1
        simp [Bal, hns, hns0, h1]; exact hb
    | .tag ⟨.empty, n, as⟩ =>
      simp only []
      split
      · -- `<script/>`: pushed, inserted, closed again
        rename_i hscript
        unfold insertTag
        match hs : (applyNs cfg s ⟨.empty, n, as⟩).1.opened with
        | [] => simp at hs; exact absurd hs ho
        | f :: rest =>
          simp only [Except.bind]
          generalize hs1 : ({ (applyNs cfg s ⟨.empty, n, as⟩).1 with
            opened := ⟨(applyNs cfg s ⟨.empty, n, as⟩).2.name, (applyNs cfg s ⟨.empty, n, as⟩).2.attrs, []⟩ :: f :: rest,
            created := ⟨(applyNs cfg s ⟨.empty, n, as⟩).2.name, (applyNs cfg s ⟨.empty, n, as⟩).2.attrs⟩ ::
              (applyNs cfg s ⟨.empty, n, as⟩).1.created } : State) = s1
          have hn1 : names s1 = (applyNs cfg s ⟨.empty, n, as⟩).2.name :: names s := by
            subst hs1; simp [names] at hs ⊢; simp [hs]
          have hns1 : s1.nsStack = (processNamespaces cfg s.nsStack ⟨.empty, n, as⟩).map :: s.nsStack := by
            have hscript' : (processNamespaces cfg s.nsStack ⟨.empty, n, as⟩).name.loc = sScript := by
              simpa using hscript
            subst hs1; simp [applyNs_nsStack, pushesMap, hscript']
          have hph1 : s1.phase = .main := by subst hs1; simpa using hp
          have ho1 : s1.opened ≠ [] := by subst hs1; simp
          obtain ⟨s', he, hph, _, hm⟩ := closeTag_spec s1 (applyNs cfg s ⟨.empty, n, as⟩).2.name ho1
          refine ⟨s', he, ?_⟩
          have hfm : firstMatch (applyNs cfg s ⟨.empty, n, as⟩).2.name (names s1) = some 0 := by
            rw [hn1]; simp [firstMatch, sameExpanded]
          rw [hfm] at hm
          obtain ⟨hn, hns⟩ := hm
          simp only [Inv, hph, hph1]
          rw [hn1] at hn; simp at hn
          rw [hns1] at hns; simp at hns
          refine ⟨opened_ne_of_names hn ho, ?_⟩
          have h1 := congrArg List.length hn
          simp [names_length] at h1
          simp [Bal, hns, h1]; exact hb
      · rename_i hscript
        have ho' : (applyNs cfg s ⟨.empty, n, as⟩).1.opened ≠ [] := by simpa using ho
        obtain ⟨s', he, hph, hns, hnm, _⟩ := appendCur_ok (applyNs cfg s ⟨.empty, n, as⟩).1
          (fun k => .elem (applyNs cfg s ⟨.empty, n, as⟩).2.name (applyNs cfg s ⟨.empty, n, as⟩).2.attrs [] :: k) ho'
        refine ⟨_, by simp only [he, Except.map]; rfl, ?_⟩
        have hns0 : (applyNs cfg s ⟨.empty, n, as⟩).1.nsStack = s.nsStack := by
          simp [applyNs_nsStack, pushesMap]
          intro h1; exact absurd h1 (by simpa using hscript)
        simp at hnm hph
        simp only [Inv, hph, hp]
        refine ⟨opened_ne_of_names hnm ho, ?_⟩
        have h1 := congrArg List.length hnm
        simp [names_length] at h1
        simp [Bal, hns, hns0, h1]; exact hb
  | .end_ =>
    simp only [Inv, hp] at h
    match tok with
    | .comment c => exact ⟨_, rfl, by unfold State.appendDoc; split <;> simpa [Inv, hp, Bal] using h⟩
    | .pi t d => exact ⟨_, rfl, by unfold State.appendDoc; split <;> simpa [Inv, hp, Bal] using h⟩
    | .chars cs => simp only []; split <;> exact ⟨_, rfl, by simpa [Inv, hp, Bal] using h⟩
    | .eof => exact ⟨_, rfl, by simpa [Inv, hp] using h⟩
    | .tag _ => exact ⟨_, rfl, by simpa [Inv, hp, Bal] using h⟩
    | .doctype _ _ _ => exact ⟨_, rfl, by simpa [Inv, hp, Bal] using h⟩
    | .nullChar => exact ⟨_, rfl, by simpa [Inv, hp, Bal] using h⟩

theorem run_inv (cfg : TbCfg) (toks : List Token) (s : State) (h : Inv s) :
    ∃ s', run cfg s toks = .ok s' ∧ Inv s' := by
  induction toks generalizing s with
  | nil => exact ⟨s, rfl, h⟩
  | cons t rest ih =>
    obtain ⟨s1, h1, hi1⟩ := step_inv cfg s t h
    obtain ⟨s2, h2, hi2⟩ := ih s1 hi1
    exact ⟨s2, by simp [run, h1, Except.bind, h2], hi2⟩

/-- **C16 (balance)**: for every token list — any mixture of start, empty, end (also popping several
elements), short tags, `<script/>`, text, comments, PIs, doctypes, NUL, EOF anywhere — the builder
never hits an `expect`, and after every token the namespace stack holds exactly one map per open
element plus the default map (`Inv`; the single exception, an empty `<script/>` root, is part of
`Inv` and shown reachable by `C16_script_root_unbalanced`). -/
theorem C16_balance (cfg : TbCfg) (toks : List Token) :
    ∃ s, run cfg State.init toks = .ok s ∧ Inv s :=
  run_inv cfg toks State.init inv_init

/-- no run panics -/
theorem C16_no_panic (cfg : TbCfg) (toks : List Token) : ∃ s, run cfg State.init toks = .ok s :=
  let ⟨s, h, _⟩ := C16_balance cfg toks; ⟨s, h⟩

/-- the unbalanced End-phase state is reachable: `<script/>` as the root element leaves two maps and
no open element (harmless: the End phase never resolves a name) -/
theorem C16_script_root_unbalanced :
    ∃ s, run TbCfg.code State.init [.tag ⟨.empty, ⟨none, sScript⟩, []⟩] = .ok s ∧
      s.opened = [] ∧ s.nsStack.length = 2 ∧ s.phase = .end_ := ⟨_, rfl, rfl, rfl, rfl⟩

-- non-vacuity: a multi-pop end tag
example : ∃ s, run TbCfg.code State.init
    [.tag ⟨.start, ⟨none, ['a']⟩, []⟩, .tag ⟨.start, ⟨none, ['b']⟩, []⟩, .tag ⟨.start, ⟨none, ['c']⟩, []⟩,
     .tag ⟨.end_, ⟨none, ['b']⟩, []⟩] = .ok s ∧ s.opened.length = 1 ∧ s.nsStack.length = 2 :=
  ⟨_, rfl, rfl, rfl⟩

/-! ## 2. the created elements are exactly what lexical scoping prescribes -/

/-- the model state `s` stands at the Spec position `w` -/
def Sim (s : State) : Where → Prop
  | .prolog => s.phase = .start ∧ s.opened = [] ∧ s.nsStack = [defaultMap]
  | .content scopes => s.phase = .main ∧ scopes ≠ [] ∧
      (names s).map (fun q => (q.ns, q.loc)) = scopes.map (fun sc => (sc.ns, sc.loc)) ∧
      StackAgree s.nsStack (envOf scopes) ∧ (∀ f ∈ envOf scopes, Clean f)
  | .epilog => s.phase = .end_

/-- tokens outside the two deviations (see `TagOK`) -/
def TokOK (cfg : TbCfg) : Token → Prop
  | .tag t => TagOK cfg t
  | _ => True

theorem closeScopes_firstMatch (nm : QName) (scopes : List Scope) (nms : List QName)
    (h : nms.map (fun q => (q.ns, q.loc)) = scopes.map (fun sc => (sc.ns, sc.loc))) :
    closeScopes nm.ns nm.loc scopes = (firstMatch nm nms).map (fun k => scopes.drop (k + 1)) := by
  induction scopes generalizing nms with
  | nil =>
    cases nms with
    | nil => rfl
    | cons _ _ => simp at h
  | cons sc rest ih =>
    cases nms with
    | nil => simp at h
    | cons q qs =>
      simp only [List.map_cons, List.cons.injEq, Prod.mk.injEq] at h
      obtain ⟨⟨h1, h2⟩, h3⟩ := h
      simp only [closeScopes, firstMatch, sameExpanded]
      by_cases hm : sc.ns = nm.ns ∧ sc.loc = nm.loc
      · simp [hm, h1, h2]
      · have : (q.ns == nm.ns && q.loc == nm.loc) = false := by
          rw [h1, h2]; simpa using hm
        simp only [hm, this, ↓reduceIte, Bool.false_eq_true]
        rw [ih qs h3]
        cases firstMatch nm qs <;> simp

theorem created_eq {b : Bound} {c : Created} (hn : b.name = c.name) (ha : b.attrs = c.attrs) :
    (⟨b.name, b.attrs⟩ : Created) = c := by
  cases c; simp_all

theorem sim_content_opened {s : State} {scopes : List Scope} (h : Sim s (.content scopes)) :
    s.opened ≠ [] := by
  obtain ⟨_, hne, hn, _⟩ := h
  intro h0
  simp [names, h0] at hn
  exact hne hn

theorem step_sim (cfg : TbCfg) (s : State) (w : Where) (tok : Token) (hs : Sim s w)
    (hok : TokOK cfg tok) :
    ∃ s1 w1 cs, step cfg s tok = .ok s1 ∧ Sim s1 w1 ∧ s1.created = cs.reverse ++ s.created ∧
      ∀ rest, resolve w (tok :: rest) = cs ++ resolve w1 rest := by
  match w with
  | .prolog =>
    obtain ⟨hp, ho, hns⟩ := hs
    have hst : StackAgree s.nsStack (envOf []) := by rw [hns]; rfl
    have hcl : ∀ f ∈ envOf [], Clean f := by intro f hf; simp [envOf] at hf
    unfold step
    simp only [hp]
    match tok with
    | .tag ⟨.start, n, as⟩ =>
      obtain ⟨hn, ha, hm⟩ := processNamespaces_eq cfg s.nsStack [] ⟨.start, n, as⟩ hok hst hcl
      refine ⟨_, .content [scopeOf (resolveTag [] ⟨.start, n, as⟩) ⟨.start, n, as⟩],
        [resolveTag [] ⟨.start, n, as⟩], rfl, ?_, ?_, ?_⟩
      · refine ⟨rfl, by simp, ?_, ?_, ?_⟩
        · simp [names, ho, scopeOf, hn]
        · simp only [applyNs_nsStack, pushesMap, envOf, List.map_cons, scopeOf]
          simp only [beq_self_eq_true, Bool.true_or, ↓reduceIte, List.map_nil]
          rw [stackAgree_cons]; exact ⟨hm, hst⟩
        · intro f hf; simp [envOf, scopeOf] at hf; subst hf; exact frameOf_clean as
      · simp [created_eq hn ha]
      · intro rest; simp [resolve]
    | .tag ⟨.empty, n, as⟩ =>
      obtain ⟨hn, ha, hm⟩ := processNamespaces_eq cfg s.nsStack [] ⟨.empty, n, as⟩ hok hst hcl
      refine ⟨_, .epilog, [resolveTag [] ⟨.empty, n, as⟩], rfl, rfl, ?_, ?_⟩
      · simp [created_eq hn ha]
      · intro rest; simp [resolve]
    | .tag ⟨.end_, n, as⟩ =>
      exact ⟨_, .prolog, [], rfl, ⟨hp, ho, hns⟩, by simp, by intro rest; simp [resolve]⟩
    | .tag ⟨.short, n, as⟩ =>
      exact ⟨_, .prolog, [], rfl, ⟨hp, ho, hns⟩, by simp, by intro rest; simp [resolve]⟩
    | .comment c =>
      exact ⟨_, .prolog, [], rfl, by unfold State.appendDoc; split <;> exact ⟨hp, ho, hns⟩,
        by unfold State.appendDoc; split <;> simp, by intro rest; simp [resolve]⟩
    | .pi t d =>
      exact ⟨_, .prolog, [], rfl, by unfold State.appendDoc; split <;> exact ⟨hp, ho, hns⟩,
        by unfold State.appendDoc; split <;> simp, by intro rest; simp [resolve]⟩
    | .doctype a b c =>
      simp only []
      split
      · exact ⟨_, .prolog, [], rfl, ⟨hp, ho, hns⟩, by simp, by intro rest; simp [resolve]⟩
      · exact ⟨_, .prolog, [], rfl, by unfold State.appendDoc; split <;> exact ⟨rfl, ho, hns⟩,
          by unfold State.appendDoc; split <;> simp, by intro rest; simp [resolve]⟩
    | .chars cs =>
      simp only []
      split
      · exact ⟨_, .prolog, [], rfl, ⟨hp, ho, hns⟩, by simp, by intro rest; simp [resolve]⟩
      · exact ⟨_, .prolog, [], rfl, ⟨hp, ho, hns⟩, by simp, by intro rest; simp [resolve]⟩
    | .nullChar =>
      exact ⟨_, .prolog, [], rfl, ⟨hp, ho, hns⟩, by simp, by intro rest; simp [resolve]⟩
    | .eof =>
      exact ⟨_, .epilog, [], rfl, rfl, by simp, by intro rest; simp [resolve]⟩
  | .epilog =>
    have hp : s.phase = .end_ := hs
    unfold step
    simp only [hp]
    match tok with
    | .comment c =>
      exact ⟨_, .epilog, [], rfl, by unfold State.appendDoc; split <;> exact hp,
        by unfold State.appendDoc; split <;> simp, by intro rest; simp [resolve]⟩
    | .pi t d =>
      exact ⟨_, .epilog, [], rfl, by unfold State.appendDoc; split <;> exact hp,
        by unfold State.appendDoc; split <;> simp, by intro rest; simp [resolve]⟩
    | .chars cs =>
      simp only []
      split
      · exact ⟨_, .epilog, [], rfl, hp, by simp, by intro rest; simp [resolve]⟩
      · exact ⟨_, .epilog, [], rfl, hp, by simp, by intro rest; simp [resolve]⟩
    | .eof => exact ⟨_, .epilog, [], rfl, hp, by simp, by intro rest; simp [resolve]⟩
    | .tag _ => exact ⟨_, .epilog, [], rfl, hp, by simp, by intro rest; simp [resolve]⟩
    | .doctype _ _ _ => exact ⟨_, .epilog, [], rfl, hp, by simp, by intro rest; simp [resolve]⟩
    | .nullChar => exact ⟨_, .epilog, [], rfl, hp, by simp, by intro rest; simp [resolve]⟩
  | .content scopes =>
    have ho := sim_content_opened hs
    obtain ⟨hp, hne, hnm, hst, hcl⟩ := hs
    unfold step
    simp only [hp]
    match tok with
    | .chars cs =>
      obtain ⟨s', he, hph, hns, hn', hcr⟩ := appendCur_ok s (fun k => appendText k cs) ho
      exact ⟨s', .content scopes, [], he, ⟨by rw [hph, hp], hne, by rw [hn']; exact hnm, by rw [hns]; exact hst, hcl⟩,
        by simp [hcr], by intro rest; simp [resolve]⟩
    | .comment c =>
      obtain ⟨s', he, hph, hns, hn', hcr⟩ := appendCur_ok s (fun k => .comment c :: k) ho
      exact ⟨s', .content scopes, [], he, ⟨by rw [hph, hp], hne, by rw [hn']; exact hnm, by rw [hns]; exact hst, hcl⟩,
        by simp [hcr], by intro rest; simp [resolve]⟩
    | .pi t d =>
      obtain ⟨s', he, hph, hns, hn', hcr⟩ := appendCur_ok s (fun k => .pi t d :: k) ho
      exact ⟨s', .content scopes, [], he, ⟨by rw [hph, hp], hne, by rw [hn']; exact hnm, by rw [hns]; exact hst, hcl⟩,
        by simp [hcr], by intro rest; simp [resolve]⟩
    | .eof => exact ⟨_, .epilog, [], rfl, rfl, by simp, by intro rest; simp [resolve]⟩
    | .nullChar => exact ⟨_, .epilog, [], rfl, rfl, by simp, by intro rest; simp [resolve]⟩
    | .doctype _ _ _ =>
      exact ⟨_, .content scopes, [], rfl, ⟨hp, hne, hnm, hst, hcl⟩, by simp, by intro rest; simp [resolve]⟩
    | .tag ⟨.start, n, as⟩ =>
      obtain ⟨hn, ha, hm⟩ := processNamespaces_eq cfg s.nsStack scopes ⟨.start, n, as⟩ hok hst hcl
      simp only []
      unfold insertTag
      match hs' : (applyNs cfg s ⟨.start, n, as⟩).1.opened with
      | [] => simp at hs'; exact absurd hs' ho
      | f :: rest' =>
        simp at hs'
        refine ⟨_, .content (scopeOf (resolveTag scopes ⟨.start, n, as⟩) ⟨.start, n, as⟩ :: scopes),
          [resolveTag scopes ⟨.start, n, as⟩], rfl, ?_, ?_, ?_⟩
        · refine ⟨by simpa using hp, by simp, ?_, ?_, ?_⟩
          · simp only [names, List.map_cons, scopeOf] at hnm ⊢
            rw [hs'] at hnm
            simp only [List.map_cons] at hnm
            rw [hnm]; simp [hn]
          · simp only [applyNs_nsStack, pushesMap, envOf, List.map_cons, scopeOf]
            simp only [beq_self_eq_true, Bool.true_or, ↓reduceIte]
            rw [stackAgree_cons]; exact ⟨hm, hst⟩
          · intro f hf
            simp only [envOf, List.map_cons, List.mem_cons, scopeOf] at hf
            rcases hf with rfl | hf
            · exact frameOf_clean as
            · exact hcl f hf
        · simp [created_eq hn ha]
        · intro rest; simp [resolve]
    | .tag ⟨.short, n, as⟩ =>
      obtain ⟨s', he, hn', hns', hsr⟩ := pop_spec s ho
      refine ⟨setEndIfEmpty s', afterClose scopes.tail, [], by simp [he, Except.map], ?_, ?_, ?_⟩
      · match scopes, hne with
        | sc :: rest', _ =>
          simp only [List.tail_cons]
          have hnm' : (names s').map (fun q => (q.ns, q.loc)) = rest'.map (fun sc => (sc.ns, sc.loc)) := by
            rw [hn']
            have := congrArg List.tail hnm
            simpa using this
          unfold setEndIfEmpty
          cases rest' with
          | nil =>
            have : s'.opened = [] := by simpa [names] using hnm'
            simp [this, afterClose, Sim]
          | cons sc2 rest'' =>
            have : s'.opened.isEmpty = false := by
              cases hso : s'.opened with
              | nil => simp [names, hso] at hnm'
              | cons _ _ => rfl
            simp only [this, Bool.false_eq_true, ↓reduceIte, afterClose]
            refine ⟨by rw [hsr.phase, hp], by simp, hnm', ?_, ?_⟩
            · rw [hns']
              have := hst.drop 1 (by simp [envOf])
              simpa [envOf] using this
            · intro f hf; exact hcl f (by simp [envOf] at hf ⊢; right; exact hf)
      · unfold setEndIfEmpty; split <;> simp [hsr.created]
      · intro rest; simp [resolve]
    | .tag ⟨.end_, n, as⟩ =>
      obtain ⟨hn, _, _⟩ := processNamespaces_eq cfg s.nsStack scopes ⟨.end_, n, as⟩ hok hst hcl
      simp only []
      have ho' : (applyNs cfg s ⟨.end_, n, as⟩).1.opened ≠ [] := by simpa using ho
      obtain ⟨s', he, hph, hcr, hm⟩ := closeTag_spec (applyNs cfg s ⟨.end_, n, as⟩).1
        (processNamespaces cfg s.nsStack ⟨.end_, n, as⟩).name ho'
      have hns0 : (applyNs cfg s ⟨.end_, n, as⟩).1.nsStack = s.nsStack := by
        simp [applyNs_nsStack, pushesMap]
      have hcs := closeScopes_firstMatch (processNamespaces cfg s.nsStack ⟨.end_, n, as⟩).name scopes (names s) hnm
      have hres : resolveElemName (frameOf as :: envOf scopes) n = (processNamespaces cfg s.nsStack ⟨.end_, n, as⟩).name := by
        rw [hn]; rfl
      simp only [applyNs_names, applyNs_snd] at hm he ⊢
      match hfm : firstMatch (processNamespaces cfg s.nsStack ⟨.end_, n, as⟩).name (names s) with
      | none =>
        rw [hfm] at hm hcs
        obtain ⟨hn', hns'⟩ := hm
        have hne' : s'.opened.isEmpty = false := by
          have := opened_ne_of_names hn' ho
          cases hso : s'.opened with
          | nil => exact absurd hso this
          | cons _ _ => rfl
        refine ⟨setEndIfEmpty s', .content scopes, [], by simp [he, Except.map], ?_, ?_, ?_⟩
        · unfold setEndIfEmpty
          simp only [hne', Bool.false_eq_true, ↓reduceIte]
          exact ⟨by rw [hph]; simpa using hp, hne, by rw [hn']; exact hnm, by rw [hns', hns0]; exact hst, hcl⟩
        · unfold setEndIfEmpty; split <;> simp [hcr]
        · intro rest
          simp only [resolve, hres]
          simp only [Option.map_none] at hcs
          rw [hcs]; simp
      | some k =>
        rw [hfm] at hm hcs
        obtain ⟨hn', hns'⟩ := hm
        have hlt := firstMatch_lt _ _ _ hfm
        have hlen : (names s).length = scopes.length := by
          have := congrArg List.length hnm; simpa using this
        have hnm' : (names s').map (fun q => (q.ns, q.loc)) = (scopes.drop (k + 1)).map (fun sc => (sc.ns, sc.loc)) := by
          rw [hn', List.map_drop, hnm, List.map_drop]
        refine ⟨setEndIfEmpty s', afterClose (scopes.drop (k + 1)), [], by simp [he, Except.map], ?_, ?_, ?_⟩
        · unfold setEndIfEmpty
          match hd : scopes.drop (k + 1) with
          | [] =>
            rw [hd] at hnm'
            have : s'.opened = [] := by simpa [names] using hnm'
            simp [this, afterClose, Sim]
          | sc2 :: rest'' =>
            rw [hd] at hnm'
            have : s'.opened.isEmpty = false := by
              cases hso : s'.opened with
              | nil => simp [names, hso] at hnm'
              | cons _ _ => rfl
            simp only [this, Bool.false_eq_true, ↓reduceIte, afterClose]
            refine ⟨by rw [hph]; simpa using hp, by simp, hnm', ?_, ?_⟩
            · rw [hns', hns0, ← hd]
              have := hst.drop (k + 1) (by simp [envOf]; omega)
              simpa [envOf, List.map_drop] using this
            · intro f hf
              apply hcl f
              have : f ∈ envOf (scopes.drop (k + 1)) := by rw [hd]; exact hf
              obtain ⟨sc, hsc, rfl⟩ := List.mem_map.mp this
              exact List.mem_map.mpr ⟨sc, List.mem_of_mem_drop hsc, rfl⟩
        · unfold setEndIfEmpty; split <;> simp [hcr]
        · intro rest
          simp only [resolve, hres]
          simp only [Option.map_some] at hcs
          rw [hcs]; simp
    | .tag ⟨.empty, n, as⟩ =>
      obtain ⟨hn, ha, hm⟩ := processNamespaces_eq cfg s.nsStack scopes ⟨.empty, n, as⟩ hok hst hcl
      simp only []
      split
      · rename_i hscript
        have hscript' : (processNamespaces cfg s.nsStack ⟨.empty, n, as⟩).name.loc = sScript := by
          simpa using hscript
        unfold insertTag
        match hs' : (applyNs cfg s ⟨.empty, n, as⟩).1.opened with
        | [] => simp at hs'; exact absurd hs' ho
        | f :: rest' =>
          simp only [Except.bind]
          generalize hs1 : ({ (applyNs cfg s ⟨.empty, n, as⟩).1 with
            opened := ⟨(applyNs cfg s ⟨.empty, n, as⟩).2.name, (applyNs cfg s ⟨.empty, n, as⟩).2.attrs, []⟩ :: f :: rest',
            created := ⟨(applyNs cfg s ⟨.empty, n, as⟩).2.name, (applyNs cfg s ⟨.empty, n, as⟩).2.attrs⟩ ::
              (applyNs cfg s ⟨.empty, n, as⟩).1.created } : State) = s1
          have hn1 : names s1 = (processNamespaces cfg s.nsStack ⟨.empty, n, as⟩).name :: names s := by
            subst hs1; simp [names] at hs' ⊢; simp [hs']
          have hns1 : s1.nsStack = (processNamespaces cfg s.nsStack ⟨.empty, n, as⟩).map :: s.nsStack := by
            subst hs1; simp [applyNs_nsStack, pushesMap, hscript']
          have hph1 : s1.phase = .main := by subst hs1; simpa using hp
          have hcr1 : s1.created = ⟨(processNamespaces cfg s.nsStack ⟨.empty, n, as⟩).name,
              (processNamespaces cfg s.nsStack ⟨.empty, n, as⟩).attrs⟩ :: s.created := by
            subst hs1; simp
          have ho1 : s1.opened ≠ [] := by subst hs1; simp
          obtain ⟨s', he, hph, hcr, hmm⟩ := closeTag_spec s1 (applyNs cfg s ⟨.empty, n, as⟩).2.name ho1
          simp only [applyNs_snd] at he hmm
          have hfm : firstMatch (processNamespaces cfg s.nsStack ⟨.empty, n, as⟩).name (names s1) = some 0 := by
            rw [hn1]; simp [firstMatch, sameExpanded]
          rw [hfm] at hmm
          obtain ⟨hn', hns'⟩ := hmm
          rw [hn1] at hn'; simp at hn'
          rw [hns1] at hns'; simp at hns'
          refine ⟨s', .content scopes, [resolveTag scopes ⟨.empty, n, as⟩], by simpa using he, ?_, ?_, ?_⟩
          · exact ⟨by rw [hph, hph1], hne, by rw [hn']; exact hnm, by rw [hns']; exact hst, hcl⟩
          · rw [hcr, hcr1]; simp [created_eq hn ha]
          · intro rest; simp [resolve]
      · rename_i hscript
        have ho' : (applyNs cfg s ⟨.empty, n, as⟩).1.opened ≠ [] := by simpa using ho
        obtain ⟨s', he, hph, hns', hn', hcr⟩ := appendCur_ok (applyNs cfg s ⟨.empty, n, as⟩).1
          (fun k => .elem (applyNs cfg s ⟨.empty, n, as⟩).2.name (applyNs cfg s ⟨.empty, n, as⟩).2.attrs [] :: k) ho'
        have hns0 : (applyNs cfg s ⟨.empty, n, as⟩).1.nsStack = s.nsStack := by
          simp [applyNs_nsStack, pushesMap]
          intro h1; exact absurd h1 (by simpa using hscript)
        refine ⟨_, .content scopes, [resolveTag scopes ⟨.empty, n, as⟩], by simp only [he, Except.map]; rfl, ?_, ?_, ?_⟩
        · simp at hn' hph
          exact ⟨by simpa [hph] using hp, hne, by simp only [names] at hn' ⊢; rw [hn']; exact hnm,
            by simp only [hns', hns0]; exact hst, hcl⟩
        · simp at hcr; simp [hcr, created_eq hn ha]
        · intro rest; simp [resolve]

theorem run_sim (cfg : TbCfg) (toks : List Token) (s : State) (w : Where) (hs : Sim s w)
    (hok : ∀ t ∈ toks, TokOK cfg t) :
    ∃ s', run cfg s toks = .ok s' ∧ s'.created.reverse = s.created.reverse ++ resolve w toks := by
  induction toks generalizing s w with
  | nil => exact ⟨s, rfl, by simp [resolve]⟩
  | cons t rest ih =>
    obtain ⟨s1, w1, cs, h1, hs1, hc1, hr1⟩ := step_sim cfg s w t hs (hok t (by simp))
    obtain ⟨s2, h2, hc2⟩ := ih s1 w1 hs1 (fun t' ht' => hok t' (by simp [ht']))
    refine ⟨s2, by simp [run, h1, Except.bind, h2], ?_⟩
    rw [hc2, hc1, hr1]; simp

/-- **C16 (resolution)**, `_partial`: for every token list whose tags carry no attribute `p:xmlns`
(prefixed, local name `xmlns`) and declare no prefix twice, the builder never panics and the
elements it creates — in creation order, with prefix, namespace URI, local name and the attribute
list with its namespaces, order and values — are exactly those of the lexical-scope resolver
`S.resolve`.

Full statement (what the property demands): the same without the hypothesis.  It fails on the
pinned tree: `C16_witness_prefixed_xmlns`, `C16_witness_dup_decl`.  With `TbCfg.fixed` the first
exclusion disappears (`C16_resolve_fixed`); the second one is unreachable through a tokenizer that
removes attributes with equal qualified names (`TokCfg.fixed`, `C16_tok_no_dup_qname_fixed`). -/
theorem C16_resolve_partial (toks : List Token) (hok : ∀ t ∈ toks, TokOK TbCfg.code t) :
    ∃ s, run TbCfg.code State.init toks = .ok s ∧ s.createdList = resolve .prolog toks := by
  obtain ⟨s, h, hc⟩ := run_sim TbCfg.code toks State.init .prolog ⟨rfl, rfl, rfl⟩ hok
  exact ⟨s, h, by simpa [State.createdList, State.init] using hc⟩

/-- with the proposed one-line fix of `process_namespaces` only duplicate declarations are excluded -/
theorem C16_resolve_fixed (toks : List Token)
    (hok : ∀ t ∈ toks, ∀ tg, t = .tag tg → NoDupDecl tg.attrs) :
    ∃ s, run TbCfg.fixed State.init toks = .ok s ∧ s.createdList = resolve .prolog toks := by
  have hok' : ∀ t ∈ toks, TokOK TbCfg.fixed t := by
    intro t ht
    match t with
    | .tag tg => exact ⟨Or.inl rfl, hok _ ht tg rfl⟩
    | .doctype .. | .comment _ | .chars _ | .pi .. | .nullChar | .eof => trivial
  obtain ⟨s, h, hc⟩ := run_sim TbCfg.fixed toks State.init .prolog ⟨rfl, rfl, rfl⟩ hok'
  exact ⟨s, h, by simpa [State.createdList, State.init] using hc⟩

/-- witness (tree builder): `<a q:xmlns="8"/>` — the attribute `q:xmlns` is taken for a namespace
declaration and lost; lexical scoping keeps it as an ordinary attribute -/
theorem C16_witness_prefixed_xmlns :
    ∃ s, run TbCfg.code State.init [.tag ⟨.empty, ⟨none, ['a']⟩, [⟨⟨some ['q'], sXmlns⟩, ['8']⟩]⟩] = .ok s ∧
      s.createdList = [⟨⟨none, [], ['a']⟩, []⟩] ∧
      resolve .prolog [.tag ⟨.empty, ⟨none, ['a']⟩, [⟨⟨some ['q'], sXmlns⟩, ['8']⟩]⟩] =
        [⟨⟨none, [], ['a']⟩, [⟨⟨some ['q'], [], sXmlns⟩, ['8']⟩]⟩] :=
  ⟨_, rfl, by decide, by decide⟩

/-- witness (tree builder): two declarations of the default namespace in one tag,
`xmlns="u" xmlns=""` — upstream lets the later un-declaration win, the Spec the first -/
theorem C16_witness_dup_decl :
    ∃ s, run TbCfg.code State.init
        [.tag ⟨.empty, ⟨none, ['a']⟩, [⟨⟨none, sXmlns⟩, ['u']⟩, ⟨⟨none, sXmlns⟩, []⟩]⟩] = .ok s ∧
      s.createdList = [⟨⟨none, [], ['a']⟩, []⟩] ∧
      resolve .prolog [.tag ⟨.empty, ⟨none, ['a']⟩, [⟨⟨none, sXmlns⟩, ['u']⟩, ⟨⟨none, sXmlns⟩, []⟩]⟩] =
        [⟨⟨none, ['u'], ['a']⟩, []⟩] :=
  ⟨_, rfl, by decide, by decide⟩

-- non-vacuity of `C16_resolve_partial`: shadowing, un-declaration; the end tag `</a>` is written where
-- the default namespace is un-declared, so it names `{}a`, matches nothing and is ignored
example : ∃ s, run TbCfg.code State.init
    [.tag ⟨.start, ⟨none, ['a']⟩, [⟨⟨none, sXmlns⟩, ['u']⟩, ⟨⟨some sXmlns, ['p']⟩, ['v']⟩]⟩,
     .tag ⟨.start, ⟨some ['p'], ['b']⟩, [⟨⟨none, sXmlns⟩, []⟩, ⟨⟨some ['p'], ['x']⟩, ['1']⟩, ⟨⟨none, ['x']⟩, ['2']⟩]⟩,
     .tag ⟨.empty, ⟨none, ['c']⟩, [⟨⟨some sXmlns, ['p']⟩, []⟩, ⟨⟨some ['p'], ['y']⟩, ['3']⟩]⟩,
     .tag ⟨.end_, ⟨none, ['a']⟩, []⟩,
     .tag ⟨.empty, ⟨some ['p'], ['d']⟩, []⟩] = .ok s ∧
    s.createdList =
      [⟨⟨none, ['u'], ['a']⟩, []⟩,
       ⟨⟨some ['p'], ['v'], ['b']⟩, [⟨⟨some ['p'], ['v'], ['x']⟩, ['1']⟩, ⟨⟨none, [], ['x']⟩, ['2']⟩]⟩,
       ⟨⟨none, [], ['c']⟩, [⟨⟨some ['p'], [], ['y']⟩, ['3']⟩]⟩,
       ⟨⟨some ['p'], ['v'], ['d']⟩, []⟩] :=
  ⟨_, rfl, by decide⟩

/-! ## 3. no attribute is lost

### 3a. tree builder -/

theorem codeResolveAttr_pfx (stack : List NsMap) (cur : NsMap) (a : RAttr) :
    (codeResolveAttr stack cur a).name.pfx = a.name.pfx ∧
    (codeResolveAttr stack cur a).name.loc = a.name.loc ∧
    (codeResolveAttr stack cur a).value = a.value := by
  unfold codeResolveAttr
  match hp : a.name.pfx with
  | none => simp
  | some q =>
    have := bindQName_pfx stack cur a.name
    simp [this.1, this.2, hp]

theorem processNamespaces_attrs (cfg : TbCfg) (stack : List NsMap) (t : Tag) :
    (processNamespaces cfg stack t).attrs =
      dedupPrefixed [] ((t.attrs.filter (fun a => !isDeclLike cfg a)).map
        (codeResolveAttr stack (processNamespaces cfg stack t).map)) := by
  unfold processNamespaces
  generalize declareAll [] [] (t.attrs.filter (isDeclLike cfg)) = r
  obtain ⟨cur, derrs⟩ := r
  simp only []
  exact bindAttrs_eq_code stack cur _ []

/-- **C16 (attributes, tree builder)**: the created element's attribute list is a sub-list, in source
order, of the tag's non-declaration attributes, each carrying its resolved name and its value … -/
theorem C16_attrs_sublist (cfg : TbCfg) (stack : List NsMap) (t : Tag) :
    (processNamespaces cfg stack t).attrs.Sublist
      ((t.attrs.filter (fun a => !isDeclLike cfg a)).map
        (codeResolveAttr stack (processNamespaces cfg stack t).map)) := by
  rw [processNamespaces_attrs]; exact dedup_sublist _ _

/-- … and an attribute that is not a declaration is missing from the element **only if** it is
prefixed and an earlier non-declaration attribute of the same tag is prefixed and has the same
expanded name (same resolved namespace, same local name).  Holds for every tag, every stack, both
configurations — the tree builder by itself never loses an attribute otherwise.  (`isDeclLike` is
the code's notion of a declaration; `C16_isDeclLike_is_decl` relates it to the Spec's.) -/
theorem C16_attr_dropped_only_if (cfg : TbCfg) (stack : List NsMap) (t : Tag)
    (l1 : List RAttr) (a : RAttr) (l2 : List RAttr) (ht : t.attrs = l1 ++ a :: l2)
    (hnd : isDeclLike cfg a = false) :
    codeResolveAttr stack (processNamespaces cfg stack t).map a ∈ (processNamespaces cfg stack t).attrs ∨
    (a.name.pfx.isSome = true ∧ ∃ a' ∈ l1, isDeclLike cfg a' = false ∧ a'.name.pfx.isSome = true ∧
      (codeResolveAttr stack (processNamespaces cfg stack t).map a').name.ns =
        (codeResolveAttr stack (processNamespaces cfg stack t).map a).name.ns ∧
      a'.name.loc = a.name.loc) := by
  rw [processNamespaces_attrs cfg stack t]
  generalize (processNamespaces cfg stack t).map = cur
  have hsplit : (t.attrs.filter (fun a => !isDeclLike cfg a)).map (codeResolveAttr stack cur) =
      (l1.filter (fun a => !isDeclLike cfg a)).map (codeResolveAttr stack cur) ++
        codeResolveAttr stack cur a :: (l2.filter (fun a => !isDeclLike cfg a)).map (codeResolveAttr stack cur) := by
    rw [ht]; simp [List.filter_append, List.filter_cons, hnd]
  rw [hsplit]
  rcases dedup_only_if [] _ (codeResolveAttr stack cur a) _ with h | ⟨hp, h | ⟨b, hb, hbp, hbn, hbl⟩⟩
  · exact Or.inl h
  · simp at h
  · right
    obtain ⟨a', ha', rfl⟩ := List.mem_map.mp hb
    have hm := List.mem_filter.mp ha'
    have e1 := codeResolveAttr_pfx stack cur a
    have e2 := codeResolveAttr_pfx stack cur a'
    refine ⟨by rw [← e1.1]; exact hp, a', hm.1, by simpa using hm.2, by rw [← e2.1]; exact hbp, hbn, ?_⟩
    rw [← e2.2.1, ← e1.2.1]; exact hbl

/-- outside `p:xmlns` the code's notion of "declaration" is the Spec's -/
theorem C16_isDeclLike_is_decl (a : RAttr)
    (h : a.name.loc = sXmlns → a.name.pfx = none ∨ a.name.pfx = some sXmlns) :
    isDeclLike TbCfg.code a = isDecl a.name := isDeclLike_eq TbCfg.code a (Or.inr h)

theorem C16_isDeclLike_fixed (a : RAttr) : isDeclLike TbCfg.fixed a = isDecl a.name :=
  isDeclLike_eq TbCfg.fixed a (Or.inl rfl)

/-! ### 3b. tokenizer: qualified names, the duplicate-attribute step -/

/-- `process_qname` splits a name iff it contains exactly one colon, neither first nor last -/
theorem C16_splitQName_split (p l : Str) (hp : p ≠ []) (hpc : ':' ∉ p) (hl : l ≠ []) (hlc : ':' ∉ l) :
    splitQName (p ++ ':' :: l) = ⟨some p, l⟩ := by
  unfold splitQName
  have hlen : ¬ utf8Len (p ++ ':' :: l) < 3 := by
    have := utf8Len_ge (p ++ ':' :: l)
    have h1 : 0 < p.length := by cases p <;> simp_all
    have h2 : 0 < l.length := by cases l <;> simp_all
    simp at this; omega
  simp only [hlen, ↓reduceIte]
  match p, hp, hpc with
  | c :: p', _, hpc =>
    have hc : c ≠ ':' := by intro e; subst e; simp at hpc
    have hr : ':' ∉ p' := by intro e; exact hpc (by simp [e])
    simp only [List.cons_append, qnameRun, hc, ↓reduceIte]
    rw [inName_app 1 p' l hr hl, afterColon_noColon _ _ hlc]
    simp only []
    have e1 : (c :: (p' ++ ':' :: l)).take (1 + p'.length) = c :: p' := by
      rw [Nat.add_comm]; simp only [List.take_succ_cons]; rw [take_app]
    have e2 : (c :: (p' ++ ':' :: l)).drop (1 + p'.length + 1) = l := by
      have : 1 + p'.length + 1 = (p'.length + 1) + 1 := by omega
      rw [this]; simp only [List.drop_succ_cons]; rw [drop_app]
    rw [e1, e2]

theorem C16_splitQName_some (raw p l : Str) (h : splitQName raw = ⟨some p, l⟩) :
    raw = p ++ ':' :: l ∧ p ≠ [] ∧ ':' ∉ p ∧ l ≠ [] ∧ ':' ∉ l := by
  unfold splitQName at h
  split at h
  · simp at h
  · rename_i col hcol
    split at hcol
    · simp at hcol
    · match raw, hcol with
      | [], hcol => simp [qnameRun] at hcol
      | c :: rest, hcol =>
        simp only [qnameRun] at hcol
        split at hcol
        · simp at hcol
        · rename_i hc
          obtain ⟨pre, post, rfl, h1, h2, h3, h4⟩ := inName_some 1 col rest hcol
          simp only [RName.mk.injEq, Option.some.injEq] at h
          obtain ⟨hp, hl⟩ := h
          subst h4
          have e1 : (c :: (pre ++ ':' :: post)).take (1 + pre.length) = c :: pre := by
            rw [Nat.add_comm]; simp only [List.take_succ_cons]; rw [take_app]
          have e2 : (c :: (pre ++ ':' :: post)).drop (1 + pre.length + 1) = post := by
            have : 1 + pre.length + 1 = (pre.length + 1) + 1 := by omega
            rw [this]; simp only [List.drop_succ_cons]; rw [drop_app]
          rw [e1] at hp; rw [e2] at hl
          subst hp; subst hl
          exact ⟨by simp, by simp, by simp [h1, Ne.symm hc], h2, h3⟩

theorem C16_splitQName_none (raw : Str) (h : (splitQName raw).pfx = none) : splitQName raw = ⟨none, raw⟩ := by
  unfold splitQName at h ⊢
  split
  · rfl
  · rename_i col hcol; simp [hcol] at h

/-- a name the tokenizer does not split keeps its raw text as local part (`:a`, `a:`, `a:b:c`, …) -/
-- (see `C16_splitQName_none`)


theorem mem_pushAttr (cfg : TokCfg) (attrs : List RAttr) (t x : RAttr) :
    x ∈ pushAttr cfg attrs t ↔ x = t ∨ x ∈ attrs := by
  unfold pushAttr; split <;> simp [or_comm]

theorem finishAttribute_mono (cfg : TokCfg) (acc : List RAttr) (a : RawAttr) (x : RAttr) (hx : x ∈ acc) :
    x ∈ finishAttribute cfg acc a := by
  unfold finishAttribute
  split
  · exact hx
  · split
    · exact hx
    · exact (mem_pushAttr _ _ _ _).mpr (Or.inr hx)

theorem tagAttrs_mono (cfg : TokCfg) (l : List RawAttr) (acc : List RAttr) (x : RAttr) (hx : x ∈ acc) :
    x ∈ l.foldl (finishAttribute cfg) acc := by
  induction l generalizing acc with
  | nil => exact hx
  | cons a rest ih => exact ih _ (finishAttribute_mono cfg acc a x hx)

theorem foldl_origin (cfg : TokCfg) (l : List RawAttr) (acc : List RAttr) (pre : List RawAttr)
    (hacc : ∀ y ∈ acc, ∃ b ∈ pre, y = ⟨splitQName b.name, b.value⟩) (x : RAttr)
    (hx : x ∈ l.foldl (finishAttribute cfg) acc) :
    ∃ b ∈ pre ++ l, x = ⟨splitQName b.name, b.value⟩ := by
  induction l generalizing acc pre with
  | nil => simpa using hacc x hx
  | cons a rest ih =>
    have := ih (finishAttribute cfg acc a) (pre ++ [a]) (by
      intro y hy
      unfold finishAttribute at hy
      split at hy
      · obtain ⟨b, hb, e⟩ := hacc y hy; exact ⟨b, by simp [hb], e⟩
      · split at hy
        · obtain ⟨b, hb, e⟩ := hacc y hy; exact ⟨b, by simp [hb], e⟩
        · rcases (mem_pushAttr _ _ _ _).mp hy with rfl | hy
          · exact ⟨a, by simp, rfl⟩
          · obtain ⟨b, hb, e⟩ := hacc y hy; exact ⟨b, by simp [hb], e⟩) hx
    simpa using this

/-- every attribute collected so far comes from an earlier raw attribute -/
theorem tagAttrs_origin (cfg : TokCfg) (l : List RawAttr) (x : RAttr)
    (hx : x ∈ l.foldl (finishAttribute cfg) []) :
    ∃ b ∈ l, x = ⟨splitQName b.name, b.value⟩ := by
  simpa using foldl_origin cfg l [] [] (by simp) x hx

/-- **C16 (attributes, tokenizer), with the fix of item 14**: an attribute (non-empty name) is
missing from the tag handed to the tree builder **only if** an earlier attribute of the tag has the
same qualified name — hence the same expanded name in every scope. -/
theorem C16_tok_dropped_only_if_fixed (l1 : List RawAttr) (a : RawAttr) (l2 : List RawAttr)
    (hne : a.name ≠ []) :
    (⟨splitQName a.name, a.value⟩ : RAttr) ∈ tagAttrs TokCfg.fixed (l1 ++ a :: l2) ∨
    ∃ b ∈ l1, splitQName b.name = splitQName a.name := by
  unfold tagAttrs
  rw [List.foldl_append, List.foldl_cons]
  by_cases hdup : isDup TokCfg.fixed (l1.foldl (finishAttribute TokCfg.fixed) []) a.name = true
  · right
    simp only [isDup, TokCfg.fixed, ↓reduceIte] at hdup
    obtain ⟨x, hx, hxe⟩ := List.any_eq_true.mp hdup
    obtain ⟨b, hb, rfl⟩ := tagAttrs_origin TokCfg.fixed l1 x hx
    exact ⟨b, hb, by simpa using hxe⟩
  · left
    apply tagAttrs_mono
    generalize List.foldl (finishAttribute _) [] l1 = acc at hdup ⊢
    unfold finishAttribute
    simp only [hne, ↓reduceIte, hdup, Bool.false_eq_true]
    exact (mem_pushAttr _ _ _ _).mpr (Or.inl rfl)

/-- **C16 (attributes, tokenizer)**, `_partial` for the pinned tree: the same conclusion provided no
earlier attribute's *local part* equals the new attribute's raw name unless the whole names agree
(`finish_attribute` compares `a.name.local` with the raw name).
Full statement: `C16_tok_dropped_only_if_fixed` for `TokCfg.code`; false: `C16_witness_item14`. -/
theorem C16_tok_dropped_only_if_partial (l1 : List RawAttr) (a : RawAttr) (l2 : List RawAttr)
    (hne : a.name ≠ [])
    (hclash : ∀ b ∈ l1, (splitQName b.name).loc = a.name → splitQName b.name = splitQName a.name) :
    (⟨splitQName a.name, a.value⟩ : RAttr) ∈ tagAttrs TokCfg.code (l1 ++ a :: l2) ∨
    ∃ b ∈ l1, splitQName b.name = splitQName a.name := by
  unfold tagAttrs
  rw [List.foldl_append, List.foldl_cons]
  by_cases hdup : isDup TokCfg.code (l1.foldl (finishAttribute TokCfg.code) []) a.name = true
  · right
    simp only [isDup, TokCfg.code, Bool.false_eq_true, ↓reduceIte] at hdup
    obtain ⟨x, hx, hxe⟩ := List.any_eq_true.mp hdup
    obtain ⟨b, hb, rfl⟩ := tagAttrs_origin TokCfg.code l1 x hx
    exact ⟨b, hb, hclash b hb (by simpa using hxe)⟩
  · left
    apply tagAttrs_mono
    generalize List.foldl (finishAttribute _) [] l1 = acc at hdup ⊢
    unfold finishAttribute
    simp only [hne, ↓reduceIte, hdup, Bool.false_eq_true]
    exact (mem_pushAttr _ _ _ _).mpr (Or.inl rfl)

/-- with the fix, no two attributes of the emitted tag have the same qualified name (so the tree
builder never sees a prefix declared twice) -/
theorem C16_tok_no_dup_qname_fixed (raw : List RawAttr) :
    ((tagAttrs TokCfg.fixed raw).map (·.name)).Nodup := by
  unfold tagAttrs
  suffices ∀ acc : List RAttr, (acc.map (·.name)).Nodup →
      ((raw.foldl (finishAttribute TokCfg.fixed) acc).map (·.name)).Nodup from this [] (by simp)
  induction raw with
  | nil => intro acc h; exact h
  | cons a rest ih =>
    intro acc h
    apply ih
    unfold finishAttribute
    split
    · exact h
    · split
      · exact h
      · rename_i hnd
        simp only [isDup, TokCfg.fixed, ↓reduceIte] at hnd
        have hnot : splitQName a.name ∉ acc.map (·.name) := by
          intro hm
          obtain ⟨x, hx, hxe⟩ := List.mem_map.mp hm
          exact hnd (List.any_eq_true.mpr ⟨x, hx, by simpa using hxe⟩)
        unfold pushAttr
        split
        · simp [List.nodup_cons, hnot, h]
        · rw [List.map_append, List.nodup_append]
          refine ⟨h, by simp, ?_⟩
          intro x hx y hy
          simp at hy; subst hy
          intro e; subst e; exact hnot hx

/-- **witness of item 14** (pinned tree): `<a p:x="1" x="2">` loses `x` although no earlier attribute
has its name (its expanded name differs from `p:x`'s whenever `p` is bound); with the attributes in
the other order both survive — the drop depends on attribute order.  A declaration is hit the same
way: `<a xmlns:p="u" p="1">` loses `p`, and `<a q:xmlns="1" xmlns="u">` loses the *declaration*. -/
theorem C16_witness_item14 :
    tagAttrs TokCfg.code [⟨['p', ':', 'x'], ['1']⟩, ⟨['x'], ['2']⟩] = [⟨⟨some ['p'], ['x']⟩, ['1']⟩] ∧
    tagAttrs TokCfg.code [⟨['x'], ['2']⟩, ⟨['p', ':', 'x'], ['1']⟩] =
      [⟨⟨none, ['x']⟩, ['2']⟩, ⟨⟨some ['p'], ['x']⟩, ['1']⟩] ∧
    tagAttrs TokCfg.code [⟨"xmlns:p".toList, ['u']⟩, ⟨['p'], ['1']⟩] = [⟨⟨some sXmlns, ['p']⟩, ['u']⟩] ∧
    tagAttrs TokCfg.code [⟨"q:xmlns".toList, ['1']⟩, ⟨sXmlns, ['u']⟩] = [⟨⟨some ['q'], sXmlns⟩, ['1']⟩] ∧
    tagAttrs TokCfg.fixed [⟨['p', ':', 'x'], ['1']⟩, ⟨['x'], ['2']⟩] =
      [⟨⟨some ['p'], ['x']⟩, ['1']⟩, ⟨⟨none, ['x']⟩, ['2']⟩] := by
  refine ⟨by decide, by decide, by decide, by decide, by decide⟩

/-- second consequence of item 14 on the pinned tree: `xmlns:p` twice is not recognised as a
duplicate (raw `xmlns:p` ≠ local `p`), both reach the builder — in reversed order, because
declarations are inserted at the front — so the *later* declaration wins -/
theorem C16_witness_dup_decl_reversed :
    tagAttrs TokCfg.code [⟨"xmlns:p".toList, ['u']⟩, ⟨"xmlns:p".toList, ['v']⟩] =
      [⟨⟨some sXmlns, ['p']⟩, ['v']⟩, ⟨⟨some sXmlns, ['p']⟩, ['u']⟩] ∧
    tagAttrs TokCfg.fixed [⟨"xmlns:p".toList, ['u']⟩, ⟨"xmlns:p".toList, ['v']⟩] =
      [⟨⟨some sXmlns, ['p']⟩, ['u']⟩] := by
  refine ⟨by decide, by decide⟩

/-! ## 4. tokenizer step and tree builder together, with the proposed fixes: no side condition left -/

/-- the declared prefix determines the declaration attribute's name -/
def declNameOf : Option Str → RName
  | none => ⟨none, sXmlns⟩
  | some l => ⟨some sXmlns, l⟩

theorem declOf_name (a : RAttr) (k u : Option Str) (h : declOf a = some (k, u)) : a.name = declNameOf k := by
  unfold declOf at h
  split at h
  · simp at h
  · rename_i hd
    split at h
    · simp at h
    · split at h
      · rename_i hp
        split at h
        · simp at h
        · simp at h
          obtain ⟨rfl, _⟩ := h
          cases hn : a.name with
          | mk pfx loc => simp [hn] at hp; simp [declNameOf, hp]
      · rename_i hp
        simp at h
        obtain ⟨rfl, _⟩ := h
        have hd' : isDecl a.name = true := by simpa using hd
        unfold isDecl at hd'
        cases hn : a.name with
        | mk pfx loc =>
          simp [hn] at hp hd'
          simp [hp] at hd'
          simp [declNameOf, hd'.1, hd'.2]

theorem noDupDecl_of_nodup_names (attrs : List RAttr) (h : (attrs.map (·.name)).Nodup) : NoDupDecl attrs := by
  unfold NoDupDecl frameOf
  induction attrs with
  | nil => simp
  | cons a rest ih =>
    simp only [List.map_cons, List.nodup_cons] at h
    simp only [List.filterMap_cons]
    match hd : declOf a with
    | none => exact ih h.2
    | some (k, u) =>
      simp only [List.map_cons, List.nodup_cons]
      refine ⟨?_, ih h.2⟩
      intro hk
      obtain ⟨⟨k', u'⟩, hm, hk'⟩ := List.mem_map.mp hk
      simp only at hk'; subst hk'
      obtain ⟨b, hb, hbd⟩ := List.mem_filterMap.mp hm
      have h1 := declOf_name a k' u hd
      have h2 := declOf_name b k' u' hbd
      exact h.1 (List.mem_map.mpr ⟨b, hb, by rw [h2, h1]⟩)

/-- what the tokenizer has lexed before its attribute step: tags with raw names, or any other token -/
inductive RawToken where
  | tag (t : RawTag)
  | other (t : Token)

def finishToken (cfg : TokCfg) : RawToken → Token
  | .tag t => .tag (finishTag cfg t)
  | .other t => t

/-- **C16 with the proposed fixes (tokenizer duplicate test on qualified names; `p:xmlns` an
ordinary attribute)**: for EVERY sequence of lexed tags and other tokens — no hypothesis — the builder
does not panic and the created elements are exactly those of the lexical-scope resolver. -/
theorem C16_resolve_source_fixed (raws : List RawToken)
    (hother : ∀ r ∈ raws, ∀ t, r = .other t → ∀ tg, t ≠ .tag tg) :
    ∃ s, run TbCfg.fixed State.init (raws.map (finishToken TokCfg.fixed)) = .ok s ∧
      s.createdList = resolve .prolog (raws.map (finishToken TokCfg.fixed)) := by
  apply C16_resolve_fixed
  intro t ht tg htg
  obtain ⟨r, hr, rfl⟩ := List.mem_map.mp ht
  match r, hr with
  | .tag rt, _ =>
    simp only [finishToken, Token.tag.injEq] at htg
    subst htg
    exact noDupDecl_of_nodup_names _ (C16_tok_no_dup_qname_fixed rt.attrs)
  | .other t', hr' =>
    simp only [finishToken] at htg
    exact absurd htg (hother _ hr' t' rfl tg)

end H5V.Props.C16
