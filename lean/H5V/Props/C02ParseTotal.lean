import H5V.Props.C02Parse
import H5V.Lemmas.HtmlParseSpecEmptyProto
/-!
# C02 capstone, final form: `C02_parse_eq_spec_total`

`C02_parse_eq_spec_facts` (Props/C02Parse.lean) with its last run-dependent hypothesis `EmptyOk` PROVED
(`H5V.Lemmas.HtmlParseSpecEmptyProto.parse_hist_empty`): the tokenizer delivers an EMPTY character token only out of
the CDATA-section family of states (`H5V.Lemmas.HtmlParseSpecCdataFam`), that family is only entered when the sink
answered "CDATA allowed", and while the tree builder's `ignore_lf` flag is set the sink answers "no"
(`H5V.Lemmas.HtmlParseSpecIgnoreLf`: the adjusted current node is the `pre` / `listing` / `textarea` element just
inserted).  So the model's clearing of `ignore_lf` by an empty character token — a token the standard does not
have — is never observable.

Remaining hypotheses: the joint run succeeds; `opts.quirksMode = .noQuirks`; `opts.dropDoctype = false`; no tag of
the delivered stream carries a `shadowrootmode` attribute (declarative shadow roots are outside `Spec.TreeModes`);
scripts do not touch the tree or the input (pauses are resumed at once).
-/
namespace H5V.Props.C02
open H5V.Model.HtmlTB
open H5V.Lemmas.HtmlTBModes
open H5V.Props.C04TB (docStart)
open H5V.Model.HtmlTB.Joint (JState)
open H5V.Lemmas.JointChunk
open H5V.Lemmas.ParseSpec
open H5V.Props.C03 (parseChunks)

/-- **C02, whole documents: the model of html5ever's parser = the WHATWG pipeline.**  As `C02_parse_eq_spec_facts`,
with `EmptyOk` PROVED (`parse_hist_empty`: an empty character token only comes out of the CDATA-section family of
tokenizer states, which is only entered while the tree builder's `ignore_lf` flag is clear).  What remains are the
two restrictions of scope of the specification `Spec.TreeModes`: `drop_doctype` is off, and no tag carries a
`shadowrootmode` attribute (declarative shadow roots are not modelled). -/
theorem C02_parse_eq_spec_total (o : TOpts) (opts : Opts) (hq : opts.quirksMode = .noQuirks)
    (hdd : opts.dropDoctype = false) (bom : Bool) (N : Nat) (s : Chs) (jf : JState)
    (hrun : parseChunks o N (tok0 bom) (j0Of opts) [s] = .ok jf)
    (ts : List (TokToken × Nat)) (hts : modelStream o opts bom s = some ts)
    (hshadow : ∀ p ∈ ts, ∀ t, p.1 = .tag t → ∀ a ∈ t.attrs, a.name.loc ≠ "shadowrootmode".toList) :
    ∃ ids, ∀ rest, ∃ F, ∀ fuel, F ≤ fuel →
      ParseAgreesX opts ⟨docCfg opts, fuel, ids ++ rest⟩ (H5V.Props.C01.stripBom bom s) ts jf := by
  have hign : IgnQ (docStart opts) := by
    intro h
    cases h
  have hI : EInv (tok0 bom) (j0Of opts) := by
    refine ⟨tmpInv_fresh .data none bom ?_, ⟨hign⟩, ?_⟩
    · intro k h; cases h
    · intro h; cases h
  obtain ⟨Hf, j3, ph, hempty⟩ := parse_hist_empty (start_tok0 bom) hrun hI
  have hstream := stream_of_hist ph hts
  subst hstream
  exact C02_parse_eq_spec_facts o opts hq hdd bom N s jf hrun _ hts hshadow hempty

/-- the same for any chunking of the input -/
theorem C02_parse_eq_spec_total_chunked (o : TOpts) (opts : Opts) (hq : opts.quirksMode = .noQuirks)
    (hdd : opts.dropDoctype = false) (bom : Bool) (N : Nat) (chunks : List Chs) (jf : JState)
    (hrun : parseChunks o N (tok0 bom) (j0Of opts) chunks = .ok jf)
    (ts : List (TokToken × Nat)) (hts : modelStream o opts bom chunks.flatten = some ts)
    (hshadow : ∀ p ∈ ts, ∀ t, p.1 = .tag t → ∀ a ∈ t.attrs, a.name.loc ≠ "shadowrootmode".toList) :
    ∃ ids, ∀ rest, ∃ F, ∀ fuel, F ≤ fuel →
      ParseAgreesX opts ⟨docCfg opts, fuel, ids ++ rest⟩ (H5V.Props.C01.stripBom bom chunks.flatten) ts jf := by
  obtain ⟨N0, h0⟩ := H5V.Props.C03.C03_joint_chunk_independence o N _ _ chunks jf (start_tok0 bom) hrun
  exact C02_parse_eq_spec_total o opts hq hdd bom N0 chunks.flatten jf (h0 N0 (Nat.le_refl _)) ts hts hshadow


/-! ## non-vacuity -/
namespace ExParse

/-- the hypotheses of `C02_parse_eq_spec_total` for `doc3` (empty CDATA section, multi-character token) -/
def check4 : Bool :=
  match run3, modelStream ⟨false⟩ {} true doc3 with
  | .ok _, some ts => noShadowB ts
  | _, _ => false

theorem check4_true : check4 = true := by decide +kernel

theorem doc3_total : ∃ jf ts, run3 = .ok jf ∧ modelStream ⟨false⟩ {} true doc3 = some ts ∧
    ∃ ids, ∀ rest, ∃ F, ∀ fuel, F ≤ fuel →
      ParseAgreesX {} ⟨docCfg {}, fuel, ids ++ rest⟩ (H5V.Props.C01.stripBom true doc3) ts jf := by
  have h := check4_true
  unfold check4 at h
  cases hr : run3 with
  | error e => rw [hr] at h; cases h
  | ok jf =>
    rw [hr] at h
    cases hm : modelStream ⟨false⟩ {} true doc3 with
    | none => rw [hm] at h; cases h
    | some ts =>
      rw [hm] at h
      exact ⟨jf, ts, rfl, rfl, C02_parse_eq_spec_total ⟨false⟩ {} rfl rfl true 50 doc3 jf hr ts hm (noShadow_of_B h)⟩

end ExParse

end H5V.Props.C02

#print axioms H5V.Props.C02.C02_parse_eq_spec_total
#print axioms H5V.Props.C02.C02_parse_eq_spec_total_chunked
#print axioms H5V.Props.C02.ExParse.doc3_total
#print axioms H5V.Lemmas.ParseSpec.parse_hist_empty
