import H5V.Lemmas.XmlRTCheck
import H5V.Props.C17
import H5V.Props.C15Run
/-!
C17 — the round trip with the XML tokenizer MODEL in the loop (no abstract lexer left).

`C17_roundtrip_fixed` (Props/C17.lean) goes serializer model → event stream → `lexEv` (an abstract
lexer of serializer output) → tree-builder model.  Here the text the serializer model writes
(`XmlSer.render SerCfg.fixed`) is fed to the XML tokenizer model `H5V.Model.XmlTok` (fresh machine,
either `discard_bom`, either `exact_errors`, one piece or any chunking) and ended (`finish`); its
token log, seen by the tree builder (`cvOut`: `ParseError` tokens dropped, tags field by field) and
with adjacent character tokens merged (`mergeChars`, the model delivers text one character per token),
is EXACTLY the token list `lexAll` that `C17_roundtrip_fixed` consumes (`C17_tok_events`); composing,
tokenizer model ∘ serializer model, then the tree-builder model, reproduces the tree
(`C17_roundtrip_tok`).

Hypotheses: those of `C17_roundtrip_fixed` plus the LEXICAL side conditions `nodesLex` — what makes a
name / value / comment / PI / doctype name re-lexable at all.  Trees built through a DOM API can
violate them (`C17_witness_lexical`); trees built by the PARSER satisfy them except in three corners,
each a genuine round-trip failure of xml5ever exhibited below on the models (section 4):
an attribute name starting with `:` (`C17_witness_attr_leading_colon`), a prefix starting with `=`
(`C17_witness_prefix_eq`), PI data starting with a blank (`C17_witness_pi_blank`).
* element names: first character none of TAB LF SPACE `/` `>` CR NUL `!` `?` `:` `<`, the others none of
  TAB LF SPACE `/` `>` CR NUL; attribute names: first character none of TAB LF SPACE `/` `>` CR NUL `:`,
  the others none of TAB LF SPACE `/` `>` CR NUL `=`; prefixes without `=` (they are written as
  `xmlns:p`);
* no U+0000 in text, attribute values, namespace URIs (the tokenizer replaces it by U+FFFD);
* comments: `CommentLex` — no CR / NUL, and no `>` at the start, after a single leading `-`, after `--` or
  after `--!` (the XML tokenizer ends the comment there);
* PIs: `PiLex` — non-empty target without blanks and (after its first character) `?`; data without `?`,
  not starting with a blank; no CR / NUL;
* doctype name: no blank, `>`, CR, NUL, ASCII capital (the tokenizer lower-cases doctype names).

Parse-error tokens that do occur (and are dropped by `cvOut`, the tree builder ignores them):
"Invalid numeric character reference" for every `&#13;`, "Bad character" for `<!DOCTYPE >` (empty
name) and for `<!--` + non-`>` inside a comment; with `exact_errors` additionally the per-character
"Bad character" of input preprocessing.
-/
namespace H5V.Props.C17
open H5V.Model.XmlTB H5V.Model.XmlSer H5V.Lemmas.XmlTB H5V.Lemmas.XmlSer H5V.Lemmas.XmlSerFixed
open H5V.Lemmas.XmlRT

/-- the tokenizer model's token log as the token list the tree builder processes: parse errors
dropped, adjacent character tokens merged -/
def tbTokens (out : Model.XmlTok.Out) : List Token := mergeChars (cvOut out)

/-! ### shape of the document: adjacency, first and last event -/

theorem isTextN_eq (n : Node) : (match n with | .text _ => true | _ => false) = isTextN n := by
  cases n <;> rfl

mutual
theorem adjT_of_nodesOK : ∀ (ns : List Node) (prev : Bool), nodesOK SerCfg.fixed prev ns → adjT prev ns
  | [], _, _ => trivial
  | n :: rest, prev, h => by
    simp only [nodesOK] at h
    simp only [adjT]
    refine ⟨adjN_of_nodeOK n prev h.1, ?_⟩
    cases n <;> exact adjT_of_nodesOK rest _ h.2
theorem adjN_of_nodeOK : ∀ (n : Node) (prev : Bool), nodeOK SerCfg.fixed prev n → adjN prev n
  | .text s, prev, h => by simp only [nodeOK] at h; exact ⟨h.1, h.2.1⟩
  | .elem _ _ ks, prev, h => by simp only [nodeOK] at h; simp only [adjN]; exact adjT_of_nodesOK ks false h
  | .comment _, _, _ => trivial
  | .pi _ _, _, _ => trivial
  | .doctype _ _ _, _, _ => trivial
end

theorem adjT_append (a b : List Node) (p : Bool) (ha : adjT p a) (hb : adjT (lastT p a) b) : adjT p (a ++ b) := by
  induction a generalizing p with
  | nil => simpa [lastT] using hb
  | cons x xs ih =>
    simp only [adjT] at ha
    simp only [List.cons_append, adjT]
    exact ⟨ha.1, ih _ ha.2 (by simpa [lastT] using hb)⟩

theorem lastT_append (a b : List Node) (p : Bool) : lastT p (a ++ b) = lastT (lastT p a) b := by
  induction a generalizing p with
  | nil => rfl
  | cons x xs ih => simp only [List.cons_append, lastT]; exact ih _

/-- a list without text and element nodes: comments, PIs, doctypes -/
theorem misc_facts (l : List Node) (h : ∀ x ∈ l, isPre x = true) (p : Bool) :
    adjT p l ∧ lastT false l = false := by
  induction l generalizing p with
  | nil => exact ⟨trivial, rfl⟩
  | cons x xs ih =>
    have hx := h x (by simp)
    have hr : ∀ y ∈ xs, isPre y = true := fun y hy => h y (by simp [hy])
    cases x with
    | text s => simp [isPre] at hx
    | elem n as ks => simp [isPre] at hx
    | comment s => exact ⟨⟨trivial, (ih hr _).1⟩, (ih hr false).2⟩
    | pi t d => exact ⟨⟨trivial, (ih hr _).1⟩, (ih hr false).2⟩
    | doctype n p' s => exact ⟨⟨trivial, (ih hr _).1⟩, (ih hr false).2⟩

theorem doc_adj (pre post ks : List Node) (n : QName) (as : List Attr)
    (hpre : preOK false pre) (hpost : ∀ x ∈ post, isMisc x = true) (hks : nodesOK SerCfg.fixed false ks) :
    adjT false (pre ++ .elem n as ks :: post) ∧ lastT false (pre ++ .elem n as ks :: post) = false := by
  have h1 := misc_facts pre (preOK_isPre false pre hpre)
  have hpost' : ∀ x ∈ post, isPre x = true := fun x hx => by
    have := hpost x hx; cases x <;> simp_all [isMisc, isPre]
  have h2 := misc_facts post hpost'
  constructor
  · apply adjT_append _ _ _ (h1 false).1
    rw [(h1 false).2]
    exact ⟨adjT_of_nodesOK ks false hks, (h2 _).1⟩
  · rw [lastT_append, (h1 false).2]
    exact (h2 false).2

/-- does the event list end in a text event (`prev` for the empty list)? -/
def endsT : Bool → List Ev → Bool
  | p, [] => p
  | _, e :: r => endsT (isTextEv e) r

theorem endsInText_eq (evs : List Ev) : endsInText evs = endsT false evs := by
  induction evs with
  | nil => rfl
  | cons e r ih =>
    cases r with
    | nil => rfl
    | cons e2 r2 =>
      have : endsInText (e :: e2 :: r2) = endsInText (e2 :: r2) := rfl
      rw [this, ih]; rfl

theorem endsT_append (a b : List Ev) (p : Bool) : endsT p (a ++ b) = endsT (endsT p a) b := by
  induction a generalizing p with
  | nil => rfl
  | cons x xs ih => simp only [List.cons_append, endsT]; exact ih _

mutual
theorem serNode_ends : ∀ (nd : Node) (sst : List SMap) (p : Bool),
    endsT p (serNode SerCfg.fixed sst nd).1 = isTextN nd
  | .elem n as ks, sst, p => by
    simp only [serNode, startElem_fixed, endElem_fixed]
    rw [endsT_append]; rfl
  | .text s, sst, p => rfl
  | .comment s, sst, p => rfl
  | .pi t d, sst, p => rfl
  | .doctype n a b, sst, p => rfl
theorem serNodes_ends : ∀ (ns : List Node) (sst : List SMap) (p : Bool),
    endsT p (serNodes SerCfg.fixed sst ns).1 = lastT p ns
  | [], sst, p => rfl
  | nd :: rest, sst, p => by
    simp only [serNodes, lastT]
    rw [endsT_append, serNode_ends, serNodes_ends]
end

/-- the output of a document whose first node is not a text node starts with `<` -/
theorem render_starts_lt (doc : List Node) (sst : List SMap) (hne : doc ≠ [])
    (h : ∀ x, doc.head? = some x → isTextN x = false) :
    ∃ t, render SerCfg.fixed (serNodes SerCfg.fixed sst doc).1 = '<' :: t := by
  cases doc with
  | nil => exact absurd rfl hne
  | cons nd rest =>
    have hx := h nd rfl
    simp only [serNodes, render, List.map_append, List.flatten_append]
    cases nd with
    | text s => simp [isTextN] at hx
    | elem n as ks =>
      simp only [serNode, startElem_fixed, List.cons_append, List.map_cons, List.flatten_cons, render_start]
      exact ⟨_, rfl⟩
    | comment s => simp only [serNode, List.map_cons, List.flatten_cons, render_comment]; exact ⟨_, rfl⟩
    | pi t d => simp only [serNode, List.map_cons, List.flatten_cons, render_pi]; exact ⟨_, rfl⟩
    | doctype n a b => simp only [serNode, List.map_cons, List.flatten_cons, render_doctype]; exact ⟨_, rfl⟩

theorem doc_head (pre post ks : List Node) (n : QName) (as : List Attr) (hpre : preOK false pre) :
    ∀ x, (pre ++ .elem n as ks :: post).head? = some x → isTextN x = false := by
  intro x hx
  cases pre with
  | nil => simp at hx; subst hx; rfl
  | cons y ys =>
    simp at hx; subst hx
    have := preOK_isPre false _ hpre y (by simp)
    cases y <;> simp_all [isPre, isTextN]

/-! ### 1. the tokenizer model delivers the events -/

/-- the text the (fixed) serializer model writes for a document -/
def serText (doc : List Node) : Str := render SerCfg.fixed (serDoc SerCfg.fixed doc)

/-- `exact_errors` off, one piece -/
theorem tok_events_plain (o : Model.XmlTok.Opts) (ho : o.exactErrors = false) (bom : Bool)
    (pre post ks : List Node) (n : QName) (as : List Attr)
    (hpre : preOK false pre) (hpost : ∀ x ∈ post, isMisc x = true)
    (hks : nodesOK SerCfg.fixed false ks) (hlex : nodesLex (pre ++ .elem n as ks :: post)) :
    ∃ m1 m2, Model.XmlTok.feed o { discardBom := bom } [] (serText (pre ++ .elem n as ks :: post)) = .done m1 [] ∧
      Model.XmlTok.finish o m1 = .ok m2 ∧
      tbTokens m2.out = lexAll SerCfg.fixed LexCfg.fixed (serDoc SerCfg.fixed (pre ++ .elem n as ks :: post)) := by
  obtain ⟨hadj, hlast⟩ := doc_adj pre post ks n as hpre hpost hks
  obtain ⟨hev, hadjE⟩ := serNodes_facts (pre ++ .elem n as ks :: post) [] false [] hlex hadj trivial
  rw [List.append_nil] at hadjE
  have hends : endsInText (serDoc SerCfg.fixed (pre ++ .elem n as ks :: post)) = false := by
    rw [endsInText_eq]; unfold serDoc; rw [serNodes_ends, hlast]
  obtain ⟨t, ht⟩ := render_starts_lt (pre ++ .elem n as ks :: post) [] (by simp) (doc_head pre post ks n as hpre)
  have hrun : ∀ m : Model.XmlTok.Mach, Ctl m .data → Clean m →
      ∃ m', Reach o m ('<' :: t) m' [] ∧ Ctl m' .data ∧ Clean m' ∧
        cvOut m'.out = cvOut m.out ++ ((serDoc SerCfg.fixed (pre ++ .elem n as ks :: post)).map evToks).flatten := by
    intro m hc hn
    obtain ⟨m', r, c, cl, ot⟩ := evs_run o ho [] _ m hev
      (fun h => by have h' := hends; unfold serDoc at h'; rw [h'] at h; cases h) hc hn
    rw [List.append_nil] at r
    refine ⟨m', ?_, c, cl, ot⟩
    rw [← ht]; exact r
  obtain ⟨m1, hf, hc1, ho1⟩ := feed_of_reach o ho bom t _ hrun
  obtain ⟨m2, hf2, ho2⟩ := finish_data o ho m1 hc1
  refine ⟨m1, m2, ?_, hf2, ?_⟩
  · unfold serText serDoc; rw [ht]; exact hf
  · unfold tbTokens
    rw [ho2, ho1]
    exact (merge_evToks _ false hadjE).2

/-- the tree builder's view of the log does not depend on the parse-error entries -/
theorem cvOut_noErr (out : Model.XmlTok.Out) : cvOut (Model.XmlTok.noErr out) = cvOut out := by
  induction out with
  | nil => rfl
  | cons t r ih =>
    rw [Model.XmlTok.noErr_cons]
    cases t with
    | error e => simp only [Model.XmlTok.isErr, if_true]; rw [ih, cvOut_err]
    | _ => simp only [Model.XmlTok.isErr, Bool.false_eq_true, if_false]; rw [cvOut_cons, cvOut_cons, ih]

theorem feedAll_total (o : Model.XmlTok.Opts) (cs : List Str) :
    ∀ (m : Model.XmlTok.Mach), Model.XmlTok.TInv m → ∃ mf, C15.feedAll o m cs = some mf := by
  induction cs with
  | nil => intro m _; exact ⟨m, rfl⟩
  | cons c cs ih =>
    intro m hi
    obtain ⟨m1, hf, hi1⟩ := C04X.C04_xml_feed_total o m [] c hi
    obtain ⟨mf, hmf⟩ := ih m1 hi1
    exact ⟨mf, by simp only [C15.feedAll, hf]; exact hmf⟩

/-- **C17 (tokenizer model on serializer output).**  For every document in the class of
`C17_roundtrip_fixed` that satisfies the lexical side conditions `nodesLex` (module header): a fresh XML
tokenizer model (`discard_bom` either way, `exact_errors` either way), fed the text the fixed serializer
model writes — in ONE piece or in ANY chunking `cs` — and ended, delivers a token log whose
tree-builder view (`tbTokens`: parse errors dropped, character tokens merged) is exactly the event
token list `lexAll` that `C17_roundtrip_fixed` consumes: start / end tags with split names, declarations
and attributes through `finish_attribute`, references decoded (`&amp; &lt; &gt; &quot; &apos; &#13;`),
text, comments, PIs, the doctype, EOF. -/
theorem C17_tok_events (o : Model.XmlTok.Opts) (bom : Bool)
    (pre post ks : List Node) (n : QName) (as : List Attr)
    (hpre : preOK false pre) (hpost : ∀ x ∈ post, isMisc x = true)
    (hks : nodesOK SerCfg.fixed false ks) (hlex : nodesLex (pre ++ .elem n as ks :: post))
    (cs : List Str) (hcs : cs.flatten = serText (pre ++ .elem n as ks :: post)) :
    ∃ mf m2, C15.feedAll o { discardBom := bom } cs = some mf ∧ Model.XmlTok.finish o mf = .ok m2 ∧
      tbTokens m2.out = lexAll SerCfg.fixed LexCfg.fixed (serDoc SerCfg.fixed (pre ++ .elem n as ks :: post)) := by
  -- the one-piece run without `exact_errors`
  obtain ⟨a1, a2, hfa, hfin, htok⟩ := tok_events_plain ⟨false⟩ rfl bom pre post ks n as hpre hpost hks hlex
  generalize hT : serText (pre ++ .elem n as ks :: post) = text at hcs hfa
  have hne : text ≠ [] := by
    intro e
    rw [e] at hfa
    obtain ⟨t, ht⟩ := render_starts_lt (pre ++ .elem n as ks :: post) [] (by simp) (doc_head pre post ks n as hpre)
    unfold serText serDoc at hT
    rw [ht] at hT; rw [e] at hT; cases hT
  -- any chunking, same option
  have hi := C04X.C04_xml_initial_inv .data bom
  obtain ⟨b1, hb1⟩ := feedAll_total ⟨false⟩ cs _ hi
  obtain ⟨fuel, b1', hrun, hsim, _⟩ := C15.C15_feedAll ⟨false⟩ _ cs b1 (C15.good_initial .data bom) rfl hb1
    (by rw [hcs]; exact hne)
  rw [hcs] at hrun
  have hr1 := C15.run_done_runsTo _ _ _ _ _ hrun
  have hr2 : Model.XmlTok.RunsTo ⟨false⟩ (Model.XmlTok.feedBom { discardBom := bom } text).1
      (Model.XmlTok.feedBom { discardBom := bom } text).2 a1 := by
    rcases C15.feed_done _ _ _ _ hfa with ⟨e, _⟩ | ⟨_, h⟩
    · exact absurd e hne
    · exact h
  have e1 : b1' = a1 := runsTo_det hr1 hr2
  subst e1
  have hfs := C15.C15_finish_sim ⟨false⟩ b1' b1 hsim
  rw [hfin] at hfs
  obtain ⟨b2, hb2, hb2o⟩ : ∃ b2, Model.XmlTok.finish ⟨false⟩ b1 = .ok b2 ∧ b2.out = a2.out := by
    cases hq : Model.XmlTok.finish ⟨false⟩ b1 with
    | error e => rw [hq] at hfs; cases hfs
    | ok b2 => rw [hq] at hfs; simp only [Except.map] at hfs; injection hfs with h; exact ⟨b2, rfl, h.symm⟩
  -- either option
  have hopt := C15.C15_exact_errors_tokens o ⟨false⟩ { discardBom := bom } cs
  obtain ⟨c1, hc1⟩ := feedAll_total o cs _ hi
  obtain ⟨_, hfo⟩ := hopt.2 c1 b1 hc1 hb1
  rw [hb2] at hfo
  obtain ⟨c2, hc2, hc2o⟩ : ∃ c2, Model.XmlTok.finish o c1 = .ok c2 ∧
      Model.XmlTok.noErr c2.out = Model.XmlTok.noErr b2.out := by
    cases hq : Model.XmlTok.finish o c1 with
    | error e => rw [hq] at hfo; cases hfo
    | ok c2 => rw [hq] at hfo; simp only [Except.map] at hfo; injection hfo with h; exact ⟨c2, rfl, h⟩
  refine ⟨c1, c2, hc1, hc2, ?_⟩
  unfold tbTokens at htok ⊢
  rw [← cvOut_noErr, hc2o, cvOut_noErr, hb2o]
  exact htok

/-! ### 2. the round trip through tokenizer model and tree-builder model -/

/-- **C17 (round trip, models only).**  serializer model (`SerCfg.fixed`) → text → XML tokenizer
model (fresh, any `discard_bom` / `exact_errors`, any chunking) → `finish` → tree-builder model
(`TbCfg.fixed`): the document built has exactly the children of the original (doctype ids dropped) —
element and attribute prefixes, namespace URIs, local names, attribute order and values, text (U+000D
included), comments, PIs, nesting.  Hypotheses: those of `C17_roundtrip_fixed` plus `nodesLex`. -/
theorem C17_roundtrip_tok (o : Model.XmlTok.Opts) (bom : Bool)
    (pre post ks : List Node) (n : QName) (as : List Attr)
    (hpre : preOK false pre) (hpost : ∀ x ∈ post, isMisc x = true)
    (hks : nodesOK SerCfg.fixed false ks) (htags : treesOK (pre ++ .elem n as ks :: post))
    (hlex : nodesLex (pre ++ .elem n as ks :: post))
    (cs : List Str) (hcs : cs.flatten = serText (pre ++ .elem n as ks :: post)) :
    ∃ mf m2 s, C15.feedAll o { discardBom := bom } cs = some mf ∧ Model.XmlTok.finish o mf = .ok m2 ∧
      run TbCfg.fixed State.init (tbTokens m2.out) = .ok s ∧
      s.document = pre.map stripId ++ .elem n as ks :: post := by
  obtain ⟨mf, m2, h1, h2, h3⟩ := C17_tok_events o bom pre post ks n as hpre hpost hks hlex cs hcs
  obtain ⟨s, hs, hd⟩ := C17_roundtrip_fixed pre post ks n as hpre hpost hks htags
  refine ⟨mf, m2, s, h1, h2, ?_, hd⟩
  rw [h3]; exact hs

/-- corollary: one piece -/
theorem C17_roundtrip_tok_one_piece (o : Model.XmlTok.Opts) (bom : Bool)
    (pre post ks : List Node) (n : QName) (as : List Attr)
    (hpre : preOK false pre) (hpost : ∀ x ∈ post, isMisc x = true)
    (hks : nodesOK SerCfg.fixed false ks) (htags : treesOK (pre ++ .elem n as ks :: post))
    (hlex : nodesLex (pre ++ .elem n as ks :: post)) :
    ∃ m1 m2 s, Model.XmlTok.feed o { discardBom := bom } [] (serText (pre ++ .elem n as ks :: post)) = .done m1 [] ∧
      Model.XmlTok.finish o m1 = .ok m2 ∧
      run TbCfg.fixed State.init (tbTokens m2.out) = .ok s ∧
      s.document = pre.map stripId ++ .elem n as ks :: post := by
  obtain ⟨mf, m2, s, h1, h2, h3, h4⟩ := C17_roundtrip_tok o bom pre post ks n as hpre hpost hks htags hlex
    [serText (pre ++ .elem n as ks :: post)] (by simp)
  refine ⟨mf, m2, s, ?_, h2, h3, h4⟩
  simp only [C15.feedAll] at h1
  split at h1
  · rename_i m' hf
    simp only [Option.some.injEq] at h1; subst h1; exact hf
  · cases h1

/-! ### 3. evaluated examples: non-vacuity, and why the lexical side conditions are needed -/

/-- text → tokenizer model (one piece) → `finish` → tree-builder model -/
def parseTok (o : Model.XmlTok.Opts) (bom : Bool) (text : Str) : Option (List Node) :=
  match Model.XmlTok.feed o { discardBom := bom } [] text with
  | .done m1 [] =>
    match Model.XmlTok.finish o m1 with
    | .ok m2 =>
      match run TbCfg.fixed State.init (tbTokens m2.out) with
      | .ok s => some s.document
      | .error _ => none
    | .error _ => none
  | _ => none

/-- serializer model → text → tokenizer model → tree-builder model -/
def reparseTok (o : Model.XmlTok.Opts) (bom : Bool) (doc : List Node) : Option (List Node) :=
  parseTok o bom (serText doc)

def checkParse (o : Model.XmlTok.Opts) (bom : Bool) (text : Str) (expected : List Node) : Bool :=
  match parseTok o bom text with
  | some d => nodesBeq d expected
  | none => false

theorem checkParse_sound (o : Model.XmlTok.Opts) (bom : Bool) (text : Str) (expected : List Node)
    (h : checkParse o bom text expected = true) : parseTok o bom text = some expected := by
  unfold checkParse at h
  split at h
  · rename_i d hd; rw [hd, nodesBeq_eq d expected h]
  · cases h

def checkRT (o : Model.XmlTok.Opts) (bom : Bool) (doc expected : List Node) : Bool :=
  match reparseTok o bom doc with
  | some d => nodesBeq d expected
  | none => false

theorem checkRT_sound (o : Model.XmlTok.Opts) (bom : Bool) (doc expected : List Node)
    (h : checkRT o bom doc expected = true) : reparseTok o bom doc = some expected := by
  unfold checkRT at h
  split at h
  · rename_i d hd; rw [hd, nodesBeq_eq d expected h]
  · cases h

/-- `<!DOCTYPE r><!--c--><p:r xmlns:p="u" k="a<b&amp;&quot;c&quot;&#13;&apos;">x&lt;y&amp;z&gt;&#13;`
`<a xmlns="v" p:w="1"><b xmlns=""></b></a><?pi d?><!-- - --></p:r><?end ?>` -/
def exRoot : QName := qn (some "p") "u" "r"
def exAttrs : List Attr := [at' none "" "k" "a<b&\"c\"\r'"]
def exKids : List Node :=
  [.text "x<y&z>\r".toList,
   el none "v" "a" [at' (some "p") "u" "w" "1"] [el none "" "b" [] []],
   .pi "pi".toList "d".toList, .comment " - ".toList]
def exPre : List Node := [.doctype "r".toList [] [], .comment "c".toList]
def exPost : List Node := [.pi "end".toList []]
def docEx : List Node := exPre ++ .elem exRoot exAttrs exKids :: exPost

example : String.ofList (serText docEx) =
    "<!DOCTYPE r><!--c--><p:r xmlns:p=\"u\" k=\"a<b&amp;&quot;c&quot;&#13;&apos;\">x&lt;y&amp;z&gt;&#13;" ++
    "<a xmlns=\"v\" p:w=\"1\"><b xmlns=\"\"></b></a><?pi d?><!-- - --></p:r><?end ?>" := by decide +kernel

/-- the model pipeline, evaluated: the tree comes back (both option values, both BOM settings) -/
example : checkRT ⟨false⟩ true docEx docEx = true ∧ checkRT ⟨true⟩ false docEx docEx = true := by
  constructor <;> decide +kernel

/-- the hypotheses of `C17_roundtrip_tok` hold for `docEx`: the theorem applies -/
example : ∃ m1 m2 s, Model.XmlTok.feed ⟨true⟩ { discardBom := true } [] (serText docEx) = .done m1 [] ∧
    Model.XmlTok.finish ⟨true⟩ m1 = .ok m2 ∧ run TbCfg.fixed State.init (tbTokens m2.out) = .ok s ∧
    s.document = exPre.map stripId ++ .elem exRoot exAttrs exKids :: exPost := by
  apply C17_roundtrip_tok_one_piece
  · exact ⟨rfl, trivial⟩
  · intro x hx; simp [exPost] at hx; subst hx; rfl
  · simp [exKids, nodesOK, nodeOK, el, SerCfg.fixed]
  · simp only [exPre, exPost, exKids, exAttrs, exRoot, List.cons_append, List.nil_append, treesOK, treeOK, el, and_true,
      true_and]
    refine ⟨⟨⟨⟨by decide, by decide⟩, by decide, by decide, by decide⟩, ?_, by decide, by decide, by decide⟩,
      ⟨⟨⟨by decide, by decide⟩, by decide, by decide, by decide⟩, ?_, by decide, by decide, by decide⟩,
      ⟨⟨⟨by decide, by decide⟩, by decide, by decide, by decide⟩, by simp, by decide, by decide, by decide⟩⟩
    · intro a ha
      simp at ha; subst ha
      exact ⟨⟨by decide, by decide⟩, by decide, by decide, by decide, by decide⟩
    · intro a ha
      simp at ha; subst ha
      exact ⟨⟨by decide, by decide⟩, by decide, by decide, by decide, by decide⟩
  · exact nodesLex_of _ (by decide)

/-- why `nodesLex` is needed — trees in the class of `C17_roundtrip_fixed` (its hypotheses hold; its
abstract lexer `lexEv` hands them back) that the tokenizer model does NOT read back; none of them can be
produced by the parser: a comment containing `-->`, U+0000 in text, U+000D in a comment, a blank in
an element name, a capital in the doctype name. -/
def docBadComment : List Node := [el none "" "r" [] [.comment "a-->b".toList]]
def docBadNul : List Node := [el none "" "r" [] [.text ['\x00']]]
def docBadCommentCR : List Node := [el none "" "r" [] [.comment ['\r']]]
def docBadName : List Node := [el none "" "a b" [] []]
def docBadDoctype : List Node := [.doctype ['R'] [] [], el none "" "r" [] []]

theorem C17_witness_lexical :
    reparseTok ⟨false⟩ true docBadComment = some [el none "" "r" [] [.comment ['a'], .text "b-->".toList]] ∧
    reparseTok ⟨false⟩ true docBadNul = some [el none "" "r" [] [.text ['�']]] ∧
    reparseTok ⟨false⟩ true docBadCommentCR = some [el none "" "r" [] [.comment ['\n']]] ∧
    reparseTok ⟨false⟩ true docBadName = some [el none "" "a" [at' none "" "b" ""] []] ∧
    reparseTok ⟨false⟩ true docBadDoctype = some [.doctype ['r'] [] [], el none "" "r" [] []] := by
  refine ⟨checkRT_sound _ _ _ _ ?_, checkRT_sound _ _ _ _ ?_, checkRT_sound _ _ _ _ ?_, checkRT_sound _ _ _ _ ?_,
    checkRT_sound _ _ _ _ ?_⟩ <;> decide +kernel

/-- … while `C17_roundtrip_fixed` applies to e.g. the first of them: the gap was in `lexEv` -/
example : ∃ s, reparse SerCfg.fixed LexCfg.fixed TbCfg.fixed docBadComment = .ok s ∧ s.document = docBadComment :=
  ⟨_, rfl, rfl⟩

/-! ### 4. genuine round-trip failures of parser-produced trees -/

/-- `<r a :b='1'/>`: the tag-attribute-name-AFTER state (tokenizer/mod.rs, `TagAttrNameAfter`) starts a
new attribute name with ANY character, the tag-attribute-name-BEFORE state drops a `:` with a parse error
(`TagAttrNameBefore`: `':' => error`).  So the parser builds an attribute named `:b`, the serializer
writes ` :b="1"` directly after the quote of the previous attribute, and the re-parse — now in the BEFORE
state — reads `b`. -/
def docColonAttr : List Node := [el none "" "r" [at' none "" "a" "", at' none "" ":b" "1"] []]

/-- **finding (C17-attr-leading-colon)**: `docColonAttr` is what the parser models build from
`<r a :b='1'/>`; it satisfies every hypothesis of `C17_roundtrip_fixed` (so the abstract lexer hands it
back); it is written as `<r a="" :b="1"></r>`; and the tokenizer + tree-builder models read that back
with the attribute renamed to `b`.  (`nodesLex` excludes it: attribute names must not start with `:`.) -/
theorem C17_witness_attr_leading_colon :
    parseTok ⟨false⟩ true "<r a :b='1'/>".toList = some docColonAttr ∧
    (preOK false [] ∧ nodesOK SerCfg.fixed false [] ∧ treesOK docColonAttr) ∧
    (∃ s, reparse SerCfg.fixed LexCfg.fixed TbCfg.fixed docColonAttr = .ok s ∧ s.document = docColonAttr) ∧
    serText docColonAttr = "<r a=\"\" :b=\"1\"></r>".toList ∧
    reparseTok ⟨false⟩ true docColonAttr = some [el none "" "r" [at' none "" "a" "", at' none "" "b" "1"] []] ∧
    ¬ nodesLex docColonAttr := by
  refine ⟨checkParse_sound _ _ _ _ (by decide +kernel), ⟨trivial, trivial, ?_⟩, ⟨_, rfl, rfl⟩, by decide +kernel,
    checkParse_sound _ _ _ _ (by decide +kernel), ?_⟩
  · simp only [docColonAttr, treesOK, treeOK, el, and_true]
    refine ⟨⟨⟨by decide, by decide⟩, by decide, by decide, by decide⟩, ?_, by decide, by decide, by decide⟩
    intro a ha
    simp at ha
    rcases ha with rfl | rfl <;> exact ⟨⟨by decide, by decide⟩, by decide, by decide, by decide, by decide⟩
  · intro h
    have h1 : ElemLex (qn none "" "r") [at' none "" "a" "", at' none "" ":b" "1"] := h.1.1
    obtain ⟨c, t, e, _, hc, _⟩ := (h1.2.2.2 (at' none "" ":b" "1") (by simp)).1
    have : c = ':' := by
      have e' : rawName (at' none "" ":b" "1").name = [':', 'b'] := by decide
      rw [e'] at e; injection e with e1 _; exact e1.symm
    exact hc this

/-- **finding (C17-prefix-eq)**: `<=a:b/>` — `=` is an ordinary name character in the tag-name state, so
the parser builds an element with the (unbound) prefix `=a`; the fixed serializer declares it,
`xmlns:=a=""`, which the tokenizer reads as an attribute named `xmlns:` (the name ends at the first `=`)
with the unquoted value `a=""`: the re-parsed element has an attribute more. -/
def docPrefixEq : List Node := [el (some "=a") "" "b" [] []]

theorem C17_witness_prefix_eq :
    parseTok ⟨false⟩ true "<=a:b/>".toList = some docPrefixEq ∧
    (preOK false [] ∧ nodesOK SerCfg.fixed false [] ∧ treesOK docPrefixEq) ∧
    (∃ s, reparse SerCfg.fixed LexCfg.fixed TbCfg.fixed docPrefixEq = .ok s ∧ s.document = docPrefixEq) ∧
    serText docPrefixEq = "<=a:b xmlns:=a=\"\"></=a:b>".toList ∧
    reparseTok ⟨false⟩ true docPrefixEq = some [el (some "=a") "" "b" [at' none "" "xmlns:" "a=\"\""] []] := by
  refine ⟨checkParse_sound _ _ _ _ (by decide +kernel), ⟨trivial, trivial, ?_⟩, ⟨_, rfl, rfl⟩, by decide +kernel,
    checkParse_sound _ _ _ _ (by decide +kernel)⟩
  simp only [docPrefixEq, treesOK, treeOK, el, and_true]
  exact ⟨⟨⟨by decide, by decide⟩, by decide, by decide, by decide⟩, by simp, by decide, by decide, by decide⟩

/-- **finding (C17-pi-blank)**: `<?t? x?><r/>` — after the target, `?` enters the PI-after state, where
any character but `>` / `?` is appended to the data (the `?` itself is dropped): the parser builds the PI
`t` with data `" x"`; written `<?t  x?>`, the blanks after the target are skipped on the way back. -/
def docPiBlank : List Node := [.pi ['t'] [' ', 'x'], el none "" "r" [] []]

theorem C17_witness_pi_blank :
    parseTok ⟨false⟩ true "<?t? x?><r/>".toList = some docPiBlank ∧
    (preOK false [.pi ['t'] [' ', 'x']] ∧ nodesOK SerCfg.fixed false [] ∧ treesOK docPiBlank) ∧
    (∃ s, reparse SerCfg.fixed LexCfg.fixed TbCfg.fixed docPiBlank = .ok s ∧ s.document = docPiBlank) ∧
    serText docPiBlank = "<?t  x?><r></r>".toList ∧
    reparseTok ⟨false⟩ true docPiBlank = some [.pi ['t'] ['x'], el none "" "r" [] []] := by
  refine ⟨checkParse_sound _ _ _ _ (by decide +kernel), ⟨trivial, trivial, ?_⟩, ⟨_, rfl, rfl⟩, by decide +kernel,
    checkParse_sound _ _ _ _ (by decide +kernel)⟩
  simp only [docPiBlank, treesOK, treeOK, el, and_true, true_and]
  exact ⟨⟨⟨by decide, by decide⟩, by decide, by decide, by decide⟩, by simp, by decide, by decide, by decide⟩

/-- side finding while proving the `Clean` invariant (registers empty between two tags): an attribute
VALUE read without an attribute name (`<t/x>`: the tag-empty state reconsumes in the
attribute-value-before state) is never cleared — `finish_attribute` returns early on an empty name —
and is prepended to the value of the next attribute of a LATER tag: `<r><t/x><s a='1'/></r>` gives
`a="x1"`.  (Not a round-trip matter: the serializer never writes such text.) -/
theorem C17_side_finding_stale_attr_value :
    parseTok ⟨false⟩ true "<r><t/x><s a='1'/></r>".toList =
      some [el none "" "r" [] [el none "" "t" [] [], el none "" "s" [at' none "" "a" "x1"] []]] :=
  checkParse_sound _ _ _ _ (by decide +kernel)

/-! ### remark: merging character tokens is invisible to the tree builder inside the root element -/

theorem appendText_append (k : List Node) (a b : Str) : appendText (appendText k a) b = appendText k (a ++ b) := by
  unfold appendText
  cases k with
  | nil => simp
  | cons x xs => cases x <;> simp

/-- In the main phase (the only place where the streams above carry text) two character tokens in a
row act on the tree-builder model exactly like the merged token: RcDom's `append` merges text into a
preceding text sibling.  So `mergeChars` in `tbTokens` only undoes the tokenizer model's
one-character-per-token delivery. -/
theorem C17_chars_split_main (cfg : TbCfg) (s : State) (a b : Str) (hp : s.phase = .main) :
    (step cfg s (.chars a)).bind (fun s' => step cfg s' (.chars b)) = step cfg s (.chars (a ++ b)) := by
  unfold step
  simp only [hp]
  unfold appendCur
  cases ho : s.opened with
  | nil => rfl
  | cons f rest =>
    simp only [Except.bind, hp, appendText_append]

end H5V.Props.C17
