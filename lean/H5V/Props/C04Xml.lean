import H5V.Lemmas.XmlTokSafe
/-!
C04 (XML tokenizer part) — parsing is total: no panic, all input consumed, EOF last.

Proved for the model `H5V.Model.XmlTok` of `xml5ever/src/tokenizer/mod.rs` + `char_ref/mod.rs` (every
`assert!`, `unwrap`, `expect`, `panic!`, slice index and `from_u32(..).unwrap()` of those files is an
explicit `.panic`/`.error` branch of the model):

* `C04_xml_no_panic`: from any machine satisfying `Safe` (every freshly created tokenizer does,
  `C04_xml_initial_safe`) no step takes a panic branch, and `Safe` is preserved.  This covers
  `discard_char`'s `assert!(c.is_some())`, `process_char_ref`'s state panic, the `name_buf`
  `expect`/`unwrap`s (`unconsume_name`, `finish_named`, the named states), `name_len > 0`, the slice
  indices of `finish_named`, `from_u32(c).unwrap()` (via the kernel-checked fact that every table value
  is a scalar value), `conv` and the `C1_REPLACEMENTS` index in `finish_numeric`, and the model's
  "table called in a state of the wrong reading kind" branches.
* `C04_xml_run_no_panic`, `C04_xml_runsTo_safe`, `C04_xml_feed_no_panic`, `C04_xml_session_no_panic`:
  the lift along the executable loop `run`, the relational runs, one `feed`, any sequence of `feed`s.
* `C04_xml_feed_drains`, `C04_xml_run_drains`, `C04_xml_feed_fn_drains`: an answer "need more input"
  comes with an empty queue.
* `C04_xml_finish_no_panic_partial`: `end()` from a `Safe` machine reports no error other than the
  exhaustion of the model's fuel for the `run` loop (all panic branches of `end_of_file`,
  `process_char_ref`, the loop and `eof_step` are excluded, and the `eof_step` loop's fuel is shown
  sufficient: `C04_xml_eof_loop_total`).
* `C04_xml_eof_is_last`, `C04_xml_finish_eof_is_last`: when `end()` finishes, the last token delivered
  is EOF.

**Partial** (NOT proved): a fuel bound for `run` (the driver uses `fuelFor`; "run out of fuel" is the
one outcome `C04_xml_finish_no_panic_partial` leaves aside, and `run … = .outOfFuel` is not excluded
for `feed` either); real stack depth, allocation failure and wall-clock time, which no model can
exhibit.
-/
namespace H5V.Props.C04X
open H5V.Model.XmlTok

/-- every freshly created tokenizer (`XmlTokenizer::new`: any initial state, any `discard_bom`)
satisfies the invariant -/
theorem C04_xml_initial_safe (st : State) (bom : Bool) : Safe { state := st, discardBom := bom } :=
  Safe.of_none rfl

/-- **no step panics, and the invariant that guarantees it is preserved** -/
theorem C04_xml_no_panic (o : Opts) (m : Mach) (inp : Str) (hs : Safe m) :
    (∀ e, step o m inp ≠ .panic e) ∧
    (∀ m' inp', step o m inp = .cont m' inp' ∨ step o m inp = .suspend m' inp' → Safe m') :=
  step_safe' o m inp hs

/-- the executable loop `XmlTokenizer::run` never returns a panic from a `Safe` machine, and the
machine it suspends in is `Safe` again (so the next `feed` is covered) -/
theorem C04_xml_run_no_panic (o : Opts) (fuel : Nat) (m : Mach) (inp : Str) (hs : Safe m) :
    (∀ e, run o fuel m inp ≠ .panic e) ∧ (∀ m' inp', run o fuel m inp = .done m' inp' → Safe m') :=
  run_safe o fuel m inp hs

/-- along every relational run to suspension the invariant holds at the end -/
theorem C04_xml_runsTo_safe (o : Opts) {m : Mach} {inp : Str} {m' : Mach}
    (h : RunsTo o m inp m') : Safe m → Safe m' := by
  induction h with
  | susp hs => intro h0; exact (step_safe o _ _ h0).2 _ (by rw [hs]; rfl)
  | cont hs _ ih => intro h0; exact ih ((step_safe o _ _ h0).2 _ (by rw [hs]; rfl))

/-- `XmlTokenizer::feed` (BOM prologue + `run`) -/
theorem C04_xml_feed_no_panic (o : Opts) (m : Mach) (inp chunk : Str) (hs : Safe m) :
    (∀ e, feed o m inp chunk ≠ .panic e) ∧ (∀ m' inp', feed o m inp chunk = .done m' inp' → Safe m') :=
  feed_safe o m inp chunk hs

/-- feed the chunks one after the other, handing the queue left by a feed to the next one -/
def feedMany (o : Opts) : Mach → Str → List Str → RunRes
  | m, inp, [] => .done m inp
  | m, inp, c :: cs =>
    match feed o m inp c with
    | .done m' inp' => feedMany o m' inp' cs
    | r => r

/-- no sequence of `feed`s panics, and it leaves a `Safe` machine -/
theorem C04_xml_session_no_panic (o : Opts) (m : Mach) (inp : Str) (cs : List Str) (hs : Safe m) :
    (∀ e, feedMany o m inp cs ≠ .panic e) ∧ (∀ m' inp', feedMany o m inp cs = .done m' inp' → Safe m') := by
  induction cs generalizing m inp with
  | nil =>
    refine ⟨fun e => by simp [feedMany], fun m' inp' h => ?_⟩
    simp only [feedMany, RunRes.done.injEq] at h
    rw [← h.1]; exact hs
  | cons c cs ih =>
    obtain ⟨h1, h2⟩ := feed_safe o m inp c hs
    simp only [feedMany]
    cases hf : feed o m inp c with
    | done m1 i1 => exact ih m1 i1 (h2 m1 i1 hf)
    | panic e => exact absurd hf (h1 e)
    | outOfFuel => exact ⟨fun e => by simp, fun m' inp' h => by simp at h⟩

/-- a step that asks for more input has consumed everything available -/
theorem C04_xml_feed_drains (o : Opts) (m m' : Mach) (inp inp' : Str) (hg : Good m)
    (hat : m.atEof = false) (h : step o m inp = .suspend m' inp') : inp' = [] :=
  (step_resume o m m' inp inp' [] hg hat h).1

/-- … and so has the loop: `run` returns `Done` only with an empty queue (the look-ahead invariant
`Good` and `at_eof = false` hold again, so the statement applies to the next `feed`) -/
theorem C04_xml_run_drains (o : Opts) (fuel : Nat) (m m' : Mach) (inp inp' : Str) (hg : Good m)
    (hat : m.atEof = false) (h : run o fuel m inp = .done m' inp') :
    inp' = [] ∧ Good m' ∧ m'.atEof = false :=
  run_drains o fuel m m' inp inp' hg hat h

theorem C04_xml_feed_fn_drains (o : Opts) (m m' : Mach) (inp chunk inp' : Str) (hg : Good m)
    (hat : m.atEof = false) (h : feed o m inp chunk = .done m' inp') :
    inp' = [] ∧ Good m' ∧ m'.atEof = false :=
  feed_drains o m m' inp chunk inp' hg hat h

/-- every freshly created tokenizer satisfies the hypotheses of the `…_drains` theorems -/
theorem C04_xml_initial_good (st : State) (bom : Bool) :
    Good { state := st, discardBom := bom } ∧ ({ state := st, discardBom := bom } : Mach).atEof = false :=
  ⟨Or.inl rfl, rfl⟩

/-- the `eof_step` loop of `end()` is total: it neither panics nor exhausts the model's fuel -/
theorem C04_xml_eof_loop_total (o : Opts) (m : Mach) : ∃ m', eofLoop o 8 m = .ok m' :=
  eofLoop_ok o 8 m (by have := eofRank_le m.state; omega)

/-- **`end()` takes no panic branch** from a `Safe` machine.  Partial: the model reports exhaustion of
the fuel of the `run` loop inside `end()` as the error `"run out of fuel"`; that outcome is not
excluded here (no fuel bound is proved).  Every other error — `end_of_file`'s panics, `process_char_ref`,
a panic inside the loop, `eof_step`, the `eof_step` loop's fuel — is. -/
theorem C04_xml_finish_no_panic_partial (o : Opts) (m : Mach) (hs : Safe m) (e : String)
    (h : finish o m = .error e) : e = "run out of fuel" :=
  finish_safe_partial o m hs e h

/-- the `eof_step` loop ends by delivering EOF -/
theorem C04_xml_eof_is_last (o : Opts) (fuel : Nat) (m m' : Mach) (h : eofLoop o fuel m = .ok m') :
    ∃ rest, m'.out = Token.eof :: rest :=
  eofLoop_eof_last o fuel m m' h

/-- when `end()` succeeds, the last token delivered is EOF -/
theorem C04_xml_finish_eof_is_last (o : Opts) (m m' : Mach) (h : finish o m = .ok m') :
    ∃ rest, m'.out = Token.eof :: rest :=
  finish_eof_last o m m' h

/-! ### non-vacuity -/

/-- a fresh tokenizer reading `<` -/
example : step ⟨false⟩ {} ['<'] = .cont { state := .tagState, currentChar := '<' } [] := by rfl

/-- a `Safe` machine with a named character reference in progress (`&am` read so far, inside a
double-quoted attribute value) takes a `.cont` step on `p`: the walk finds `amp` in the table -/
def mAmp : Mach :=
  { state := .tagAttrValue .doubleQuoted,
    charRef := some { state := .named, addnlAllowed := some '"', nameBuf := some ['a', 'm'] } }

theorem mAmp_safe : Safe mAmp :=
  ⟨fun _ _ => Or.inr ⟨_, rfl⟩, fun cr h => by
    simp only [mAmp, Option.some.injEq] at h
    subst h
    exact CRSafe.of_nomatch rfl (fun _ => by simp)⟩

example : step ⟨false⟩ mAmp ['p', ';'] =
    .cont { mAmp with
      currentChar := 'p',
      charRef := some { state := .named, addnlAllowed := some '"', nameBuf := some ['a', 'm', 'p'],
                        nameMatch := some (38, 0), nameLen := 3 } } [';'] := by rfl

/-- `end()` with that reference pending: `&am` is flushed into the attribute value, the tag is emitted
with an EOF error, then EOF -/
example : (match finish ⟨false⟩ mAmp with | .ok m => m.out.head? | .error _ => none) = some Token.eof := by
  rfl

end H5V.Props.C04X
