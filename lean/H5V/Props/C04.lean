import H5V.Lemmas.HtmlTokSafe
import H5V.Props.C03
/-!
C04 — parsing is total: no panic, no hang, all input consumed, one EOF (HTML tokenizer part).

Proved for the model of `tokenizer/mod.rs` + `char_ref/mod.rs` (every `assert!`, `unwrap`,
`expect`, `panic!`, slice index and `from_u32(..).unwrap()` of those files is an explicit panic
branch of the model):

* `C04_tok_no_panic`: from any machine satisfying `Safe` (every freshly created tokenizer does,
  `C04_tok_initial_safe`) no step ever takes a panic branch, and `Safe` is preserved — hence no
  reachable step panics (`C04_tok_run_no_panic` lifts it along every run). This covers the
  nested-character-reference assertion, `process_char_ref`'s state panic, the `name_buf` `expect`s,
  `name_len > 0`, the slice indices of `finish_named`, `from_u32(c).unwrap()` (via the kernel-checked
  fact that every table value is a scalar value) and `conv`'s `expect` in `finish_numeric`.
* `C04_tok_feed_drains`: a step that answers "need more input" has consumed all input that was
  available (so `feed()` returns `Done` only with an empty queue).
* `C04_tok_eof_is_last`: when the `eof_step` loop of `end()` finishes, the last token delivered is EOF
  (that it is the only one is counted by the harness on every case).

Continued in `Props/C04Term.lean` (**termination**: a measure `mu m inp` — 16 per unread or stashed
character, plus the characters that can still travel through a named reference's `name_buf`, plus
small ranks for pending reconsume / look-ahead / character-reference sub-states — strictly decreases on
every step that answers Continue and is below `fuelFor m inp`, so `run`, `feed` never run out of fuel;
`end()` is total for every sink — from every machine in which `feed` can have stopped it never
delivers a tag, so the sink is never consulted — and delivers EOF last) and `Props/C04Xml.lean` (the no-panic invariant, feed-drains
and EOF-last theorems ported to the XML tokenizer model).

Further parts: `Props/C04XmlTerm.lean` (termination of the XML tokenizer loop, `end()` total),
`Props/C16.lean` (`C16_no_panic`: the XML tree-builder model completes on every token list) and
`Props/C04TB.lean` (the HTML tree-builder model: invariant `TI` through all 21 insertion modes; none of
the 49 panic sites of `tree_builder/mod.rs` / `rules.rs` is reachable for any token list, option set,
document or fragment start).

`C04_partial`: NOT proved — that the HTML tree builder's tree-moving sink calls stay inside the
TreeSink contract (RcDom's own asserts) and the fuel of the model's reprocess loop; real stack depth,
allocation failure and wall-clock time, which no model can exhibit. Those are exercised by the harness
(`catch_unwind`, per-case watchdog with bisection, 10^5-deep nesting families, queue-drained and
single-EOF counters).
-/
namespace H5V.Props.C04
open H5V.Model.HtmlTok

theorem C04_tok_initial_safe (st : State) (last : Option Str) (bom : Bool) :
    Safe { state := st, lastStartTag := last, discardBom := bom } :=
  Safe.of_none rfl

/-- **no step panics, and the invariant that guarantees it is preserved** -/
theorem C04_tok_no_panic (o : Opts) (pol : Pol) (m : Mach) (inp : Str) (hs : Safe m) :
    (∀ e, step o pol m inp ≠ .panic e) ∧ (∀ m', (step o pol m inp).mach? = some m' → Safe m') :=
  step_safe o pol m inp hs

/-- along every run to suspension the invariant holds at the end -/
theorem C04_tok_run_no_panic (o : Opts) (pol : Pol) {m : Mach} {inp : Str} {m' : Mach}
    (h : RunsTo o pol m inp m') : Safe m → Safe m' := by
  induction h with
  | susp hs => intro h0; exact (step_safe o pol _ _ h0).2 _ (by rw [hs]; rfl)
  | cont hs _ ih => intro h0; exact ih ((step_safe o pol _ _ h0).2 _ (by rw [hs]; rfl))
  | script hs _ ih => intro h0; exact ih ((step_safe o pol _ _ h0).2 _ (by rw [hs]; rfl))
  | indicator hs _ ih => intro h0; exact ih ((step_safe o pol _ _ h0).2 _ (by rw [hs]; rfl))

/-- the executable loop never stops for a panic: with enough fuel it either keeps going or suspends -/
theorem C04_tok_runP_no_panic (o : Opts) (pol : Pol) (m : Mach) (inp : Str) (hs : Safe m) :
    ∀ e, step o pol m inp ≠ .panic e := (step_safe o pol m inp hs).1

/-- a step that asks for more input has consumed everything available -/
theorem C04_tok_feed_drains (o : Opts) (pol : Pol) (m m' : Mach) (inp inp' : Str) (hg : Good m)
    (hat : m.atEof = false) (h : step o pol m inp = .suspend m' inp') : inp' = [] :=
  (step_resume o pol m m' inp inp' [] hg hat h).1

/-- the `eof_step` loop ends by delivering EOF -/
theorem C04_tok_eof_is_last (o : Opts) (fuel : Nat) (m m' : Mach) (h : eofLoop o fuel m = .ok m') :
    ∃ l rest, m'.out = (Token.eof, l) :: rest := by
  induction fuel generalizing m with
  | zero => simp [eofLoop] at h
  | succ n ih =>
    unfold eofLoop at h
    cases ht : transEof o m with
    | mk m1 sig =>
      rw [ht] at h
      cases sig with
      | cont => exact ih m1 h
      | panic e => simp at h
      | done =>
        simp only [Except.ok.injEq] at h
        subst h
        unfold transEof at ht
        repeat' split at ht
        all_goals
          first
            | (simp only [Prod.mk.injEq] at ht
               obtain ⟨h1, h2⟩ := ht
               first
                 | (simp at h2; done)
                 | (subst h1; exact ⟨_, _, rfl⟩))

example : eofLoop ⟨false⟩ 8 { state := .tagOpen } =
    .ok (emit (to .data (emitChar (badEof ⟨false⟩ { state := .tagOpen }) '<')) .eof) := by rfl

end H5V.Props.C04
