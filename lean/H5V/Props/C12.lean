import H5V.Props.C11
/-!
C12 — tendril buffers are freed exactly once and never accessed out of bounds.

Over the same heap model as C11.  Every raw access of `tendril.rs` is a checked primitive of the
model (`Fault.ub` on a wild pointer, use after free, double free, dealloc with a wrong layout, read
of uninitialised bytes, write beyond the capacity, refcount underflow), and every allocation /
release / write / refcount update is logged in `Heap.trace`.

* `C12_step_safe` / `C12_reachable`: every operation, from every reachable state, for all five
  formats, preserves the invariant `WF` and never returns `Fault.ub` — bounds and liveness of every
  modelled access (`C12_bounds`).
* `C12_ledger`: an independent monitor (`Mon.run`) that replays the trace accepts it, and its
  ledger is the heap's; `mon_free_once`, `mon_dead_forever`: in an accepted trace a buffer id is
  allocated at most once, freed at most once, with the capacity it was allocated with, and no event
  refers to it after its release.
* `C12_live_iff_referenced`: a buffer is live iff some tendril of the pool refers to it, and its
  reference count is the number of tendrils referring to it (so it is released exactly when the
  last reference goes — `WF.dead`: nothing refers to a released buffer).
* `C12_empty_at_end`: dropping every tendril succeeds and leaves no live buffer.
* `C12_atomic_interleaving`: for any interleaving of the `fetch_add` / `fetch_sub` events of
  threads that only touch the counter through references they hold, exactly one `fetch_sub`
  observes 1 and it is the last event on the counter.  (The Acquire/Release fences that make the
  linearisation meaningful for the buffer contents are assumed — trusted base.)

Partial: the theorems are about the model's arithmetic, not about pointer provenance or the
`transmute`s; the model is tied to the code by the `tendril` correspondence including the
allocation events observed through a global-allocator ledger.
-/
namespace H5V.Props.C12
open H5V.Model.Tendril H5V.Lemmas.Tendril H5V.Props.C11

/-! ## safety needs less from a format than refinement -/

/-- what memory safety needs from a format: the fix-up stays inside its operands, and the indices
`char_indices` yields are inside the string, whatever the bytes are -/
structure SafeLaws (F : Format) : Prop where
  fixupOK : FixupOK F
  chars_total : (F.charIndices []).isSome → ∀ a, (F.charIndices a).isSome
  chars_bound : ∀ a cs, F.charIndices a = some cs → ∀ p ∈ cs, p.1 ≤ a.length

theorem safe_bytes : SafeLaws Format.bytes where
  fixupOK _ _ := ⟨Nat.zero_le _, Nat.zero_le _⟩
  chars_total h := by simp [Format.bytes] at h
  chars_bound _ _ h := by simp [Format.bytes] at h

theorem safe_ascii : SafeLaws Format.ascii where
  fixupOK _ _ := ⟨Nat.zero_le _, Nat.zero_le _⟩
  chars_total _ _ := rfl
  chars_bound a cs h p hp := by
    simp only [Format.ascii, Option.some.injEq] at h; subst h
    exact Nat.le_of_lt (mem_singleByteIndices hp)

theorem safe_latin1 : SafeLaws Format.latin1 where
  fixupOK _ _ := ⟨Nat.zero_le _, Nat.zero_le _⟩
  chars_total _ _ := rfl
  chars_bound a cs h p hp := by
    simp only [Format.latin1, Option.some.injEq] at h; subst h
    exact Nat.le_of_lt (mem_singleByteIndices hp)

theorem wtf8Fixup_ok (a b : List UInt8) :
    (wtf8Fixup a b).dropLeft ≤ a.length ∧ (wtf8Fixup a b).dropRight ≤ b.length := by
  unfold wtf8Fixup
  split
  · rename_i h
    split
    · simp only []
      split
      · exact ⟨h.1, h.2⟩
      · exact ⟨Nat.zero_le _, Nat.zero_le _⟩
    · exact ⟨Nat.zero_le _, Nat.zero_le _⟩
  · exact ⟨Nat.zero_le _, Nat.zero_le _⟩

theorem safe_wtf8 : SafeLaws Format.wtf8 where
  fixupOK := wtf8Fixup_ok
  chars_total h := by simp [Format.wtf8] at h
  chars_bound _ _ h := by simp [Format.wtf8] at h

/-- one operation preserves the invariant and is free of undefined behaviour (possibly a panic) -/
theorem stepM_safe (F : Format) (S : SafeLaws F) (st : St) (op : Op) (hwf : StWF st) :
    match stepM F st op with
    | none => True
    | some m => Sat m (fun r => StWF r.1) := by
  have two : ∀ {i : Nat} {t t1 s : T} {h1 : Heap} {j : Nat} {o : Out}, st.pool[i]? = some (some t) →
      j < st.pool.length → WF h1 (t1 :: s :: others st.pool i) →
      Sat (store ⟨h1, st.pool.set i (some t1)⟩ j s >>= fun st => (.ok (st, o) : M (St × Out)))
        (fun r => StWF r.1) := by
    intro i t t1 s h1 j o hp hj w1
    apply (store_spec (by simpa using hj) (extraWF hp w1)).sat.bind
    rintro st2 ⟨w2, _⟩
    exact Sat.ok w2
  cases op with
  | new i =>
    by_cases hi : i < st.pool.length
    · simp only [stepM, hi, ↓reduceIte]
      apply (store_spec hi (hwf.cons_inline (by simp))).sat.bind
      rintro st' ⟨w, _⟩
      exact Sat.ok w
    · simp only [stepM, hi, ↓reduceIte]
  | fromBytes i bs =>
    by_cases hi : i < st.pool.length
    · simp only [stepM, hi, ↓reduceIte]
      split
      · apply (fromBytesUnchecked_spec bs hwf).bind
        rintro ⟨h1, t1⟩ ⟨w1, _, _⟩
        apply (store_spec (st := ⟨h1, st.pool⟩) hi w1).sat.bind
        rintro st' ⟨w, _⟩
        exact Sat.ok w
      · exact Sat.ok hwf
    · simp only [stepM, hi, ↓reduceIte]
  | pushBytes i bs =>
    cases hp : st.pool[i]? with
    | none => simp only [stepM, hp]
    | some o => cases o with
      | none => simp only [stepM, hp]
      | some t =>
        simp only [stepM, hp]
        have wt := focusWF hwf hp
        split
        · apply (pushBytesUnchecked_spec S.fixupOK bs wt).bind
          rintro ⟨h1, t1⟩ ⟨w1, hab, _⟩
          exact Sat.ok (slot_update hp w1 hab).1
        · exact Sat.ok hwf
  | pushChar i c =>
    cases hp : st.pool[i]? with
    | none => simp only [stepM, hp]
    | some o => cases o with
      | none => simp only [stepM, hp]
      | some t =>
        simp only [stepM, hp]
        have wt := focusWF hwf hp
        split
        · apply (pushBytesUnchecked_spec S.fixupOK _ wt).bind
          rintro ⟨h1, t1⟩ ⟨w1, hab, _⟩
          exact Sat.ok (slot_update hp w1 hab).1
        · exact Sat.ok hwf
  | pushTendril i j =>
    cases hp : st.pool[i]? with
    | none => simp only [stepM, hp]
    | some o => cases o with
      | none => simp only [stepM, hp]
      | some t =>
        cases hq : st.pool[j]? with
        | none => simp only [stepM, hp, hq]
        | some o2 => cases o2 with
          | none => simp only [stepM, hp, hq]
          | some o =>
            simp only [stepM, hp, hq]
            by_cases hij : i = j
            · simp only [hij, ↓reduceIte]
            · simp only [hij, ↓reduceIte]
              have wt := focusWF hwf hp
              apply (pushTendril_spec S.fixupOK wt (others_mem (Ne.symm hij) hq)).bind
              rintro ⟨h1, t1⟩ ⟨w1, hab, _⟩
              exact Sat.ok (slot_update hp w1 hab).1
  | tryPopFront i n =>
    cases hp : st.pool[i]? with
    | none => simp only [stepM, hp]
    | some o => cases o with
      | none => simp only [stepM, hp]
      | some t =>
        simp only [stepM, hp]
        apply (tryPopFront_spec F n (focusWF hwf hp)).sat.bind
        rintro ⟨h1, t1, e⟩ ⟨w1, hab, _⟩
        exact Sat.ok (slot_update hp w1 hab).1
  | tryPopBack i n =>
    cases hp : st.pool[i]? with
    | none => simp only [stepM, hp]
    | some o => cases o with
      | none => simp only [stepM, hp]
      | some t =>
        simp only [stepM, hp]
        apply (tryPopBack_spec F n (focusWF hwf hp)).sat.bind
        rintro ⟨h1, t1, e⟩ ⟨w1, hab, _⟩
        exact Sat.ok (slot_update hp w1 hab).1
  | popFront i n =>
    cases hp : st.pool[i]? with
    | none => simp only [stepM, hp]
    | some o => cases o with
      | none => simp only [stepM, hp]
      | some t =>
        simp only [stepM, hp]
        apply (tryPopFront_spec F n (focusWF hwf hp)).sat.bind
        rintro ⟨h1, t1, e⟩ ⟨w1, hab, _⟩
        cases e with
        | none => exact Sat.ok (slot_update hp w1 hab).1
        | some e => exact Sat.panic
  | popBack i n =>
    cases hp : st.pool[i]? with
    | none => simp only [stepM, hp]
    | some o => cases o with
      | none => simp only [stepM, hp]
      | some t =>
        simp only [stepM, hp]
        apply (tryPopBack_spec F n (focusWF hwf hp)).sat.bind
        rintro ⟨h1, t1, e⟩ ⟨w1, hab, _⟩
        cases e with
        | none => exact Sat.ok (slot_update hp w1 hab).1
        | some e => exact Sat.panic
  | trySubtendril i j off len =>
    cases hp : st.pool[i]? with
    | none => simp only [stepM, hp]
    | some o => cases o with
      | none => simp only [stepM, hp]
      | some t =>
        by_cases hj : j < st.pool.length
        · simp only [stepM, hp, hj, ↓reduceIte]
          apply (trySubtendril_spec F off len (focusWF hwf hp)).sat.bind
          rintro ⟨h1, t1, r⟩ ⟨hab, _, hr⟩
          cases r with
          | inl e => exact Sat.ok (slot_update hp hr.1 hab).1
          | inr s => exact two hp hj hr.1
        · simp only [stepM, hp, hj, ↓reduceIte]
  | subtendril i j off len =>
    cases hp : st.pool[i]? with
    | none => simp only [stepM, hp]
    | some o => cases o with
      | none => simp only [stepM, hp]
      | some t =>
        by_cases hj : j < st.pool.length
        · simp only [stepM, hp, hj, ↓reduceIte]
          apply (trySubtendril_spec F off len (focusWF hwf hp)).sat.bind
          rintro ⟨h1, t1, r⟩ ⟨hab, _, hr⟩
          cases r with
          | inl e => exact Sat.panic
          | inr s => exact two hp hj hr.1
        · simp only [stepM, hp, hj, ↓reduceIte]
  | clone i j =>
    cases hp : st.pool[i]? with
    | none => simp only [stepM, hp]
    | some o => cases o with
      | none => simp only [stepM, hp]
      | some t =>
        by_cases hj : j < st.pool.length
        · simp only [stepM, hp, hj, ↓reduceIte]
          apply (cloneT_spec (focusWF hwf hp)).sat.bind
          rintro ⟨h1, t1, c⟩ ⟨w1, _, _, _⟩
          exact two hp hj w1
        · simp only [stepM, hp, hj, ↓reduceIte]
  | clear i =>
    cases hp : st.pool[i]? with
    | none => simp only [stepM, hp]
    | some o => cases o with
      | none => simp only [stepM, hp]
      | some t =>
        simp only [stepM, hp]
        apply (clearT_spec (focusWF hwf hp)).sat.bind
        rintro ⟨h1, t1⟩ ⟨w1, hab, _⟩
        exact Sat.ok (slot_update hp w1 hab).1
  | drop i =>
    cases hp : st.pool[i]? with
    | none => simp only [stepM, hp]
    | some o => cases o with
      | none => simp only [stepM, hp]
      | some t =>
        simp only [stepM, hp]
        apply (dropT_spec (focusWF hwf hp)).sat.bind
        rintro h1 ⟨w1, _⟩
        refine Sat.ok ?_
        show WF h1 (liveTs (st.pool.set i none))
        rw [liveTs_set_none (lt_of_lookup hp)]; exact w1
  | popFrontChar i =>
    cases hp : st.pool[i]? with
    | none => simp only [stepM, hp]
    | some o => cases o with
      | none => simp only [stepM, hp]
      | some t =>
        by_cases hc : (F.charIndices []).isSome = true
        · simp only [stepM, hp, hc, ↓reduceIte]
          obtain ⟨cs, hcs⟩ := Option.isSome_iff_exists.mp (S.chars_total hc (abs st.heap t))
          apply (popFrontChar_spec F (focusWF hwf hp) hcs (S.chars_bound _ cs hcs)).sat.bind
          rintro ⟨h1, t1, c⟩ ⟨w1, hab, _⟩
          exact Sat.ok (slot_update hp w1 hab).1
        · simp only [stepM, hp, hc, ↓reduceIte, Bool.false_eq_true]
  | popFrontCharRun i j k =>
    cases hp : st.pool[i]? with
    | none => simp only [stepM, hp]
    | some o => cases o with
      | none => simp only [stepM, hp]
      | some t =>
        by_cases hc : (F.charIndices []).isSome = true ∧ j < st.pool.length ∧ i ≠ j
        · obtain ⟨hc1, hc2, hc3⟩ := hc
          simp only [stepM, hp, hc1, hc2, hc3, ne_eq, not_false_eq_true, and_self, ↓reduceIte]
          obtain ⟨cs, hcs⟩ := Option.isSome_iff_exists.mp (S.chars_total hc1 (abs st.heap t))
          apply (popFrontCharRun_spec F (classifier k) (focusWF hwf hp) hcs
            (S.chars_bound _ cs hcs)).sat.bind
          rintro ⟨h1, t1, r⟩ ⟨hab, hr⟩
          cases r with
          | none => exact Sat.ok (slot_update hp hr.1 hab).1
          | some sc => obtain ⟨s, cls⟩ := sc; exact two hp hc2 hr.1
        · simp only [stepM, hp, hc, ↓reduceIte]
  | sendRoundTrip i =>
    cases hp : st.pool[i]? with
    | none => simp only [stepM, hp]
    | some o => cases o with
      | none => simp only [stepM, hp]
      | some t =>
        simp only [stepM, hp]
        apply (makeOwned_spec (focusWF hwf hp)).bind
        rintro ⟨h1, t1⟩ ⟨w1, hab, _⟩
        exact Sat.ok (slot_update hp w1 hab).1
  | reserve i n =>
    cases hp : st.pool[i]? with
    | none => simp only [stepM, hp]
    | some o => cases o with
      | none => simp only [stepM, hp]
      | some t =>
        simp only [stepM, hp]
        apply (reserveT_spec n (focusWF hwf hp)).bind
        rintro ⟨h1, t1⟩ ⟨w1, hab, _⟩
        exact Sat.ok (slot_update hp w1 hab).1
  | withCapacity i n =>
    by_cases hi : i < st.pool.length
    · simp only [stepM, hi, ↓reduceIte]
      apply (withCapacity_spec n hwf).bind
      rintro ⟨h1, t1⟩ ⟨w1, _, _⟩
      apply (store_spec (st := ⟨h1, st.pool⟩) hi w1).sat.bind
      rintro st' ⟨w, _⟩
      exact Sat.ok w
    · simp only [stepM, hi, ↓reduceIte]
  | setByte i k v =>
    cases hp : st.pool[i]? with
    | none => simp only [stepM, hp]
    | some o => cases o with
      | none => simp only [stepM, hp]
      | some t =>
        simp only [stepM, hp]
        apply (derefMut_spec (focusWF hwf hp)).bind
        rintro ⟨h1, t1⟩ ⟨w1, hab, _, _, hns⟩
        simp only at w1 hab hns
        obtain ⟨a, _⟩ := slot_update hp w1 hab
        by_cases hk : k < t1.len32
        · simp only [hk, ↓reduceIte]
          apply (storeByte_spec k v w1 hns hk).sat.bind
          rintro ⟨h2, t2⟩ ⟨w2, hab2, _⟩
          simp only at w2 hab2
          have hp1 : (St.mk h1 (st.pool.set i (some t1))).pool[i]? = some (some t1) := by
            simp [lt_of_lookup hp]
          have w2' : WF h2 (t2 :: others (St.mk h1 (st.pool.set i (some t1))).pool i) := by
            simp only [others_set]; exact w2
          have hab2' : ∀ u ∈ others (St.mk h1 (st.pool.set i (some t1))).pool i,
              abs h2 u = abs (St.mk h1 (st.pool.set i (some t1))).heap u := by
            simp only [others_set]; exact hab2
          exact Sat.ok (slot_update hp1 w2' hab2').1
        · simp only [hk, ↓reduceIte]
          exact Sat.ok a


/-! ## safety of every step, all reachable states -/

/-- **Bounds and liveness, one step.**  From a well-formed state every operation keeps the
invariant and none of the modelled raw accesses is undefined behaviour (`stepM` never returns
`Fault.ub`): reads lie in the initialised part of a live buffer, writes inside its capacity, every
release is of a live buffer with its allocation size, no reference count underflows. -/
theorem C12_step_safe (F : Format) (S : SafeLaws F) (st : St) (op : Op) (hwf : StWF st) :
    StWF (step F st op).1 ∧ ∀ m, stepM F st op = some m → ∀ s, m ≠ .error (.ub s) := by
  have h := stepM_safe F S st op hwf
  unfold step
  cases hm : stepM F st op with
  | none => exact ⟨hwf, by simp⟩
  | some m =>
    rw [hm] at h
    refine ⟨?_, ?_⟩
    · cases m with
      | ok r => exact h
      | error e =>
        cases e with
        | panic s => exact hwf
        | ub s => exact h.elim
    · intro m' hm' s hs
      cases hm'
      subst hs
      exact h

/-- **All histories.**  Every state reachable from the empty pool satisfies the invariant — for
the formats with `SafeLaws` (Bytes, ASCII, Latin1, WTF8), whatever bytes they hold … -/
theorem C12_reachable (F : Format) (S : SafeLaws F) (slots : Nat) (ops : List Op) :
    StWF (run F (St.init slots) ops) := by
  suffices ∀ st, StWF st → StWF (run F st ops) from this _ (init_wf slots)
  induction ops with
  | nil => intro st h; exact h
  | cons op ops ih =>
    intro st h
    simp only [run, List.foldl_cons]
    exact ih _ (C12_step_safe F S st op h).1

/-- … and for the formats with `Laws` (UTF8 among them), whose safety rests on the contents staying
valid (`char_indices` is only meaningful on valid text). -/
theorem C12_reachable_valid (F : Format) (L : Laws F) (slots : Nat) (ops : List Op) (hs : StoresOK F ops) :
    StWF (run F (St.init slots) ops) :=
  (C11_reachable_wf F L slots ops hs).1

/-! ## the ledger -/

/-- **Ledger.**  In every well-formed (hence every reachable) state the independent monitor accepts
the whole allocation trace — no double free, no release with a wrong size, no write / refcount
access to a released or unknown buffer, no write beyond the capacity, no id reused — and the
monitor's ledger (capacity, liveness per buffer) is exactly the heap's. -/
theorem C12_ledger (st : St) (hwf : StWF st) : Mon.run st.heap.trace = some (proj st.heap) :=
  hwf.ledger

def isFree (id : Nat) : Event → Bool
  | .free i _ => i == id
  | _ => false

def isAlloc (id : Nat) : Event → Bool
  | .alloc i _ => i == id
  | _ => false

def touches (id : Nat) : Event → Bool
  | .alloc i _ | .free i _ | .write i _ _ | .incref i _ | .decref i _ => i == id

theorem mon_getElem?_step {m m' : Mon} {e : Event} {id : Nat} (h : m.step e = some m')
    (hn : touches id e = false) (hlt : id < m.length) : m'[id]? = m[id]? := by
  cases e with
  | alloc i c =>
    simp only [Mon.step] at h
    split at h
    · cases h; rw [List.getElem?_append_left hlt]
    · cases h
  | free i c =>
    simp only [touches, beq_eq_false_iff_ne] at hn
    simp only [Mon.step] at h
    split at h
    · split at h
      · cases h; rw [List.getElem?_set_ne hn]
      · cases h
    · cases h
  | write i lo hi =>
    simp only [Mon.step] at h
    split at h
    · split at h
      · cases h; rfl
      · cases h
    · cases h
  | incref i o =>
    simp only [Mon.step] at h
    split at h
    · cases h; rfl
    · cases h
  | decref i o =>
    simp only [Mon.step] at h
    split at h
    · cases h; rfl
    · cases h

theorem mon_length_step {m m' : Mon} {e : Event} (h : m.step e = some m') : m.length ≤ m'.length := by
  cases e <;> simp only [Mon.step] at h <;> (repeat' split at h) <;>
    first
    | (cases h; simp)
    | cases h

/-- an event on a released (or never allocated but in-range) buffer is rejected -/
theorem mon_dead_rejects {m m' : Mon} {e : Event} {id c : Nat} (h : m.step e = some m')
    (hd : m[id]? = some (c, false)) : touches id e = false := by
  have hlt : id < m.length := (List.getElem?_eq_some_iff.mp hd).1
  cases e with
  | alloc i c' =>
    simp only [Mon.step] at h
    split at h
    · rename_i hi; simp only [touches, beq_eq_false_iff_ne]; omega
    · cases h
  | free i c' =>
    simp only [touches, beq_eq_false_iff_ne]
    rintro rfl
    simp only [Mon.step, hd] at h
    cases h
  | write i lo hi =>
    simp only [touches, beq_eq_false_iff_ne]
    rintro rfl
    simp only [Mon.step, hd] at h
    cases h
  | incref i o =>
    simp only [touches, beq_eq_false_iff_ne]
    rintro rfl
    simp only [Mon.step, hd] at h
    cases h
  | decref i o =>
    simp only [touches, beq_eq_false_iff_ne]
    rintro rfl
    simp only [Mon.step, hd] at h
    cases h

theorem run_append_some {post tr : List Event} {m : Mon} (h : Mon.run (post ++ tr) = some m) :
    ∃ m0, Mon.run tr = some m0 := by
  induction post generalizing m with
  | nil => exact ⟨m, h⟩
  | cons e post ih =>
    simp only [List.cons_append, Mon.run] at h
    cases hr : Mon.run (post ++ tr) with
    | none => rw [hr] at h; cases h
    | some m1 => exact ih hr

/-- **Nothing after the release.**  In an accepted trace (newest event first) no event that
follows the release of a buffer mentions that buffer — no access after free, no second free, no
re-allocation of the id. -/
theorem mon_dead_forever {post pre : List Event} {m : Mon} {id c : Nat}
    (h : Mon.run (post ++ .free id c :: pre) = some m) :
    (∀ e ∈ post, touches id e = false) ∧ ∃ c', m[id]? = some (c', false) := by
  induction post generalizing m with
  | nil =>
    refine ⟨by simp, ?_⟩
    simp only [List.nil_append, Mon.run] at h
    cases hr : Mon.run pre with
    | none => rw [hr] at h; cases h
    | some m0 =>
      rw [hr] at h
      simp only [Option.bind, Mon.step] at h
      split at h
      · rename_i c0 hc
        split at h
        · cases h
          exact ⟨c0, by rw [List.getElem?_set_self (List.getElem?_eq_some_iff.mp hc).1]⟩
        · cases h
      · cases h
  | cons e post ih =>
    simp only [List.cons_append, Mon.run] at h
    cases hr : Mon.run (post ++ .free id c :: pre) with
    | none => rw [hr] at h; cases h
    | some m1 =>
      rw [hr] at h
      simp only [Option.bind] at h
      obtain ⟨hpost, c', hd⟩ := ih hr
      have hne := mon_dead_rejects h hd
      refine ⟨?_, c', ?_⟩
      · intro e' he'
        rcases List.mem_cons.mp he' with rfl | he'
        · exact hne
        · exact hpost e' he'
      · rw [mon_getElem?_step h hne (List.getElem?_eq_some_iff.mp hd).1]; exact hd

/-- **Allocated once, freed at most once.**  In an accepted trace every id below the ledger size
has exactly one `alloc` event, ids beyond it none, and an id has one `free` event if the ledger
says released and none otherwise. -/
theorem mon_free_once {tr : List Event} {m : Mon} (h : Mon.run tr = some m) (id : Nat) :
    tr.countP (isAlloc id) = (if id < m.length then 1 else 0) ∧
    tr.countP (isFree id) = (match m[id]? with | some (_, false) => 1 | _ => 0) := by
  induction tr generalizing m with
  | nil => cases h; simp
  | cons e tr ih =>
    simp only [Mon.run] at h
    cases hr : Mon.run tr with
    | none => rw [hr] at h; cases h
    | some m0 =>
      rw [hr] at h
      simp only [Option.bind] at h
      obtain ⟨ia, if_⟩ := ih hr
      rw [List.countP_cons, List.countP_cons, ia, if_]
      cases e with
      | alloc i c =>
        simp only [Mon.step] at h
        split at h
        · rename_i hi
          cases h
          subst hi
          simp only [isAlloc, isFree, List.length_append, List.length_cons, List.length_nil]
          by_cases h1 : id < m0.length
          · have : ¬ (m0.length = id) := by omega
            simp [h1, this, List.getElem?_append_left h1]; omega
          · by_cases h2 : m0.length = id
            · subst h2
              simp [List.getElem?_eq_none]
            · have h3 : ¬ id < m0.length + 1 := by omega
              have h4 : (m0 ++ [(c, true)])[id]? = none := by
                rw [List.getElem?_eq_none]; simp; omega
              simp [h1, h2, h3, h4, List.getElem?_eq_none (Nat.le_of_not_lt h1)]
        · cases h
      | free i c =>
        simp only [Mon.step] at h
        split at h
        · rename_i c0 hc
          split at h
          · cases h
            simp only [isAlloc, isFree, List.length_set]
            by_cases hi : i = id
            · subst hi
              simp [hc, List.getElem?_set_self (List.getElem?_eq_some_iff.mp hc).1]
            · have : (i == id) = false := by simpa using hi
              simp [this, List.getElem?_set_ne hi]
          · cases h
        · cases h
      | write i lo hi =>
        simp only [Mon.step] at h
        split at h
        · split at h
          · cases h; simp [isAlloc, isFree]
          · cases h
        · cases h
      | incref i o =>
        simp only [Mon.step] at h
        split at h
        · cases h; simp [isAlloc, isFree]
        · cases h
      | decref i o =>
        simp only [Mon.step] at h
        split at h
        · cases h; simp [isAlloc, isFree]
        · cases h

/-! ## live exactly while referenced -/

/-- **Freed when, and only when, the last reference goes.**  In every well-formed state a buffer is
live iff some tendril of the pool refers to it; while live its reference count is the number of
tendrils referring to it (1 for an owned buffer); nothing refers to a released buffer. -/
theorem C12_live_iff_referenced (st : St) (hwf : StWF st) (id : Nat) (b : Buf)
    (hb : st.heap.bufs[id]? = some b) :
    (b.live = true ↔ ∃ (i : Nat) (t : T), st.pool[i]? = some (some t) ∧ t.bufId? = some id) ∧
    (b.live = true → b.refcount = refs (liveTs st.pool) id) := by
  refine ⟨⟨?_, ?_⟩, fun hl => (hwf.live id b hb hl).1⟩
  · intro hl
    have := (hwf.live id b hb hl).2
    unfold refs at this
    obtain ⟨t, ht, hid⟩ := List.countP_pos_iff.mp this
    obtain ⟨i, hi⟩ := mem_liveTs.mp ht
    exact ⟨i, t, hi, by simpa using hid⟩
  · rintro ⟨i, t, hi, hid⟩
    cases hl : b.live with
    | true => rfl
    | false =>
      have := hwf.dead id b hb hl
      have hp := refs_pos_of_mem (mem_liveTs.mpr ⟨i, hi⟩) hid
      omega

/-! ## dropping everything leaves nothing -/

theorem liveTs_eq_nil {pool : List (Option T)} (h : ∀ (i : Nat) (t : T), pool[i]? ≠ some (some t)) :
    liveTs pool = [] := by
  cases hl : liveTs pool with
  | nil => rfl
  | cons t r =>
    have : t ∈ liveTs pool := by rw [hl]; exact List.mem_cons_self ..
    obtain ⟨i, hi⟩ := mem_liveTs.mp this
    exact (h i t hi).elim

/-- the body of `dropAll`, over an arbitrary list of slot indices -/
theorem dropList_spec (is : List Nat) (st : St) (hwf : StWF st) :
    SatT (is.foldlM (fun (st : St) i =>
        match st.pool[i]? with
        | some (some t) => do
          let h ← dropT st.heap t
          (.ok ⟨h, st.pool.set i none⟩ : M St)
        | _ => .ok st) st)
      (fun st' => StWF st' ∧ st'.pool.length = st.pool.length ∧
        ∀ (j : Nat) (t : T), st'.pool[j]? = some (some t) → st.pool[j]? = some (some t) ∧ j ∉ is) := by
  induction is generalizing st with
  | nil => exact SatT.ok ⟨hwf, rfl, fun j t h => ⟨h, by simp⟩⟩
  | cons i is ih =>
    simp only [List.foldlM_cons]
    have hstep : SatT (match st.pool[i]? with
        | some (some t) => do
          let h ← dropT st.heap t
          (.ok ⟨h, st.pool.set i none⟩ : M St)
        | _ => .ok st)
        (fun st1 => StWF st1 ∧ st1.pool.length = st.pool.length ∧
          ∀ (j : Nat) (t : T), st1.pool[j]? = some (some t) → st.pool[j]? = some (some t) ∧ j ≠ i) := by
      cases hp : st.pool[i]? with
      | none =>
        refine SatT.ok ⟨hwf, rfl, fun j t h => ⟨h, ?_⟩⟩
        rintro rfl; rw [hp] at h; cases h
      | some o =>
        cases o with
        | none =>
          refine SatT.ok ⟨hwf, rfl, fun j t h => ⟨h, ?_⟩⟩
          rintro rfl; rw [hp] at h; cases h
        | some t =>
          simp only []
          apply (dropT_spec (focusWF hwf hp)).bind
          rintro h1 ⟨w1, _⟩
          refine SatT.ok ⟨?_, by simp, ?_⟩
          · show WF h1 (liveTs (st.pool.set i none))
            rw [liveTs_set_none (lt_of_lookup hp)]; exact w1
          · intro j t' hj
            simp only at hj
            by_cases hji : j = i
            · subst hji
              rw [List.getElem?_set_self (lt_of_lookup hp)] at hj; cases hj
            · rw [List.getElem?_set_ne (Ne.symm hji)] at hj
              exact ⟨hj, hji⟩
    apply hstep.bind
    rintro st1 ⟨w1, hl1, hr1⟩
    apply (ih st1 w1).mono
    rintro st2 ⟨w2, hl2, hr2⟩
    refine ⟨w2, by omega, ?_⟩
    intro j t hj
    obtain ⟨h1, h2⟩ := hr2 j t hj
    obtain ⟨h3, h4⟩ := hr1 j t h1
    exact ⟨h3, by simp [h2, h4]⟩

/-- **Empty at the end.**  Dropping every tendril of a well-formed pool succeeds (no double free, no
undefined behaviour), and afterwards no buffer is live: every buffer that was ever allocated has
been released (exactly once, by `mon_free_once`), and the monitor still accepts the trace. -/
theorem C12_empty_at_end (st : St) (hwf : StWF st) :
    ∃ st', dropAll st = .ok st' ∧ StWF st' ∧ (∀ b ∈ st'.heap.bufs, b.live = false) ∧
      st'.heap.liveCount = 0 ∧
      (∀ id, id < st'.heap.bufs.length →
        st'.heap.trace.countP (isAlloc id) = 1 ∧ st'.heap.trace.countP (isFree id) = 1) := by
  obtain ⟨st', he, w', hl, hr⟩ := dropList_spec (List.range st.pool.length) st hwf
  have hnone : ∀ (i : Nat) (t : T), st'.pool[i]? ≠ some (some t) := by
    intro i t hi
    obtain ⟨h1, h2⟩ := hr i t hi
    have := lt_of_lookup h1
    exact h2 (List.mem_range.mpr this)
  have hnil := liveTs_eq_nil hnone
  have hdead : ∀ b ∈ st'.heap.bufs, b.live = false := by
    intro b hb
    obtain ⟨id, hlt, hid⟩ := List.getElem_of_mem hb
    have hb' : st'.heap.bufs[id]? = some b := by rw [List.getElem?_eq_getElem hlt, hid]
    cases hlv : b.live with
    | false => rfl
    | true =>
      have := (w'.live id b hb' hlv).2
      unfold StWF at w'
      rw [hnil] at this
      simp at this
  refine ⟨st', he, w', hdead, ?_, ?_⟩
  · unfold Heap.liveCount
    rw [List.countP_eq_zero]
    intro b hb
    simp [hdead b hb]
  · intro id hid
    have hm := mon_free_once w'.ledger id
    have hb : st'.heap.bufs[id]? = some st'.heap.bufs[id] := List.getElem?_eq_getElem hid
    have hd := hdead _ (List.getElem_mem hid)
    rw [proj_length, if_pos hid, proj_getElem?, hb] at hm
    simp only [Option.map, hd] at hm
    exact hm

/-! ## the atomic reference count under every interleaving

`Atomic::increment` is `fetch_add(1, Relaxed)`, `Atomic::decrement` is `fetch_sub(1, Release)`
followed, when it observed 1, by an Acquire fence and `destroy`.  Threads are modelled by the number
of references (tendrils viewing the buffer) each of them holds; a thread can clone (`inc`), drop
(`dec`) or send away (`xfer`) only a reference it holds.  An execution is any sequence of such
events — any interleaving of the threads' programs — applied atomically to the counter
(linearisability of `fetch_add` / `fetch_sub` is the trusted base).  -/

inductive AEv where
  | inc (t : Nat)          -- thread `t` clones a tendril it holds: `fetch_add`
  | dec (t : Nat)          -- thread `t` drops a tendril it holds: `fetch_sub`
  | xfer (a b : Nat)       -- thread `a` sends a tendril it holds to thread `b`
deriving Repr, DecidableEq

structure AState where
  counter : Nat
  hold : List Nat          -- references held per thread
deriving Repr, DecidableEq

/-- one atomic event; `none` = the thread does not hold a reference (not a behaviour of safe code);
the second component is the value a `fetch_sub` observed -/
def AState.step (s : AState) : AEv → Option (AState × Option Nat)
  | .inc t => match s.hold[t]? with
    | some (k + 1) => some (⟨s.counter + 1, s.hold.set t (k + 2)⟩, none)
    | _ => none
  | .dec t => match s.hold[t]? with
    | some (k + 1) => some (⟨s.counter - 1, s.hold.set t k⟩, some s.counter)
    | _ => none
  | .xfer a b => match s.hold[a]?, s.hold[b]? with
    | some (k + 1), some _ =>
      let h1 := s.hold.set a k
      some (⟨s.counter, h1.set b (h1[b]?.getD 0 + 1)⟩, none)
    | _, _ => none

/-- run a whole schedule; the observations are aligned with the events -/
def AState.run (s : AState) : List AEv → Option (AState × List (Option Nat))
  | [] => some (s, [])
  | e :: es => match s.step e with
    | none => none
    | some (s1, o) => match AState.run s1 es with
      | none => none
      | some (s', obs) => some (s', o :: obs)

/-- the counter is the number of references in existence -/
def AState.WFa (s : AState) : Prop := s.counter = s.hold.sum

theorem sum_set (l : List Nat) (i v : Nat) (h : i < l.length) : (l.set i v).sum + l[i] = l.sum + v := by
  induction l generalizing i with
  | nil => simp at h
  | cons x xs ih =>
    cases i with
    | zero => simp; omega
    | succ k =>
      simp only [List.length_cons, Nat.add_lt_add_iff_right] at h
      simp only [List.set_cons_succ, List.sum_cons, List.getElem_cons_succ]
      have := ih k h
      omega

theorem le_sum (l : List Nat) (i : Nat) (h : i < l.length) : l[i] ≤ l.sum := by
  have := sum_set l i 0 h
  omega

theorem step_wfa {s s1 : AState} {e : AEv} {o : Option Nat} (w : s.WFa) (h : s.step e = some (s1, o)) :
    s1.WFa ∧ 1 ≤ s.counter ∧ (∀ v, o = some v → v = s.counter ∧ s1.counter + 1 = s.counter) ∧
      (o = none → s.counter ≤ s1.counter) := by
  unfold AState.WFa at w ⊢
  cases e with
  | inc t =>
    simp only [AState.step] at h
    split at h
    · rename_i k hk
      cases h
      obtain ⟨hlt, hv⟩ := List.getElem?_eq_some_iff.mp hk
      have := sum_set s.hold t (k + 2) hlt
      have := le_sum s.hold t hlt
      refine ⟨by simp only; omega, by omega, (by intro v hv'; cases hv'), by intro; simp only; omega⟩
    · cases h
  | dec t =>
    simp only [AState.step] at h
    split at h
    · rename_i k hk
      cases h
      obtain ⟨hlt, hv⟩ := List.getElem?_eq_some_iff.mp hk
      have := sum_set s.hold t k hlt
      have := le_sum s.hold t hlt
      refine ⟨by simp only; omega, by omega, (by intro v hv'; cases hv'; exact ⟨rfl, by simp only; omega⟩),
        (by intro h; cases h)⟩
    · cases h
  | xfer a b =>
    simp only [AState.step] at h
    split at h
    · rename_i k x hk hb
      cases h
      obtain ⟨hlt, hv⟩ := List.getElem?_eq_some_iff.mp hk
      obtain ⟨hltb, hvb⟩ := List.getElem?_eq_some_iff.mp hb
      have h1 := sum_set s.hold a k hlt
      have hltb' : b < (s.hold.set a k).length := by simpa using hltb
      have h2 := sum_set (s.hold.set a k) b ((s.hold.set a k)[b]?.getD 0 + 1) hltb'
      have h3 : (s.hold.set a k)[b]?.getD 0 = (s.hold.set a k)[b] := by
        rw [List.getElem?_eq_getElem hltb']; rfl
      have := le_sum s.hold a hlt
      refine ⟨by simp only; omega, by omega, (by intro v hv'; cases hv'), by intro; exact Nat.le_refl _⟩
    · cases h

/-- once the counter is 0 nobody holds a reference, so no further event can happen -/
theorem step_zero {s : AState} (w : s.WFa) (h0 : s.counter = 0) (e : AEv) : s.step e = none := by
  cases hs : s.step e with
  | none => rfl
  | some r =>
    obtain ⟨s1, o⟩ := r
    have := (step_wfa w hs).2.1
    omega

theorem run_zero {s : AState} (w : s.WFa) (h0 : s.counter = 0) {es : List AEv} {r} (h : s.run es = some r) :
    es = [] := by
  cases es with
  | nil => rfl
  | cons e es => simp only [AState.run, step_zero w h0 e] at h; cases h

/-- **Atomic reference count, every interleaving.**  Start with a counter that equals the number of
references held (≥ 1) and apply any schedule of clone / drop / send events in which every thread
only uses references it holds.  Then
 * every event finds the counter ≥ 1 (the buffer is alive whenever anybody touches it),
 * a `fetch_sub` that observes 1 is the last event of the schedule — nothing touches the counter
   (or the buffer) after the thread that will destroy it — hence at most one does,
 * if at the end all references are gone, the last event is a `fetch_sub` that observed 1: the
   buffer is destroyed exactly once, by the last user. -/
theorem C12_atomic_interleaving (s : AState) (es : List AEv) (s' : AState) (obs : List (Option Nat))
    (w : s.WFa) (h1 : 1 ≤ s.counter) (hr : s.run es = some (s', obs)) :
    obs.length = es.length ∧ s'.WFa ∧
    (∀ (k v : Nat), obs[k]? = some (some v) → 1 ≤ v) ∧
    (∀ k : Nat, obs[k]? = some (some 1) → k + 1 = es.length) ∧
    (s'.counter = 0 → ∃ k : Nat, k + 1 = es.length ∧ obs[k]? = some (some 1)) := by
  induction es generalizing s obs with
  | nil =>
    simp only [AState.run, Option.some.injEq, Prod.mk.injEq] at hr
    obtain ⟨rfl, rfl⟩ := hr
    exact ⟨rfl, w, by simp, by simp, by intro h; omega⟩
  | cons e es ih =>
    simp only [AState.run] at hr
    cases hs : s.step e with
    | none => rw [hs] at hr; cases hr
    | some r1 =>
      obtain ⟨s1, o⟩ := r1
      rw [hs] at hr
      simp only [] at hr
      cases hr1 : s1.run es with
      | none => rw [hr1] at hr; cases hr
      | some r2 =>
        obtain ⟨s2, obs2⟩ := r2
        rw [hr1] at hr
        simp only [Option.some.injEq, Prod.mk.injEq] at hr
        obtain ⟨rfl, rfl⟩ := hr
        obtain ⟨w1, hc, hobs, hnone⟩ := step_wfa w hs
        by_cases hz : s1.counter = 0
        · -- the event took the last reference: nothing can follow
          have hes := run_zero w1 hz hr1
          subst hes
          simp only [AState.run, Option.some.injEq, Prod.mk.injEq] at hr1
          obtain ⟨rfl, rfl⟩ := hr1
          cases o with
          | none => have := hnone rfl; omega
          | some v =>
            obtain ⟨hv, hv2⟩ := hobs v rfl
            have hv1 : v = 1 := by omega
            subst hv1
            refine ⟨rfl, w1, ?_, ?_, ?_⟩
            · intro k v' hk
              cases k with
              | zero => simp at hk; omega
              | succ k => simp at hk
            · intro k hk
              cases k with
              | zero => rfl
              | succ k => simp at hk
            · intro _; exact ⟨0, rfl, rfl⟩
        · obtain ⟨hl, w2, ha, hb, hc2⟩ := ih s1 obs2 w1 (by omega) hr1
          refine ⟨by simp [hl], w2, ?_, ?_, ?_⟩
          · intro k v hk
            cases k with
            | zero =>
              simp only [List.getElem?_cons_zero, Option.some.injEq] at hk
              obtain ⟨hv, _⟩ := hobs v hk
              omega
            | succ k => exact ha k v (by simpa using hk)
          · intro k hk
            cases k with
            | zero =>
              simp only [List.getElem?_cons_zero, Option.some.injEq] at hk
              obtain ⟨hv, hv2⟩ := hobs 1 hk
              rw [← hv] at hv2
              exact absurd (Nat.succ.inj hv2) hz
            | succ k =>
              have := hb k (by simpa using hk)
              simp only [List.length_cons]; omega
          · intro h0
            obtain ⟨k, hk1, hk2⟩ := hc2 h0
            refine ⟨k + 1, ?_, ?_⟩
            · simp only [List.length_cons]; omega
            · simpa using hk2

/-! ## non-vacuity -/

/-- three threads, clones and drops interleaved: the only `fetch_sub` observing 1 is the last event -/
example : (AState.mk 1 [1, 0, 0]).run [.inc 0, .xfer 0 1, .inc 1, .xfer 1 2, .dec 0, .dec 2, .dec 1]
    = some (⟨0, [0, 0, 0]⟩, [none, none, none, none, some 3, some 2, some 1]) := by decide

/-- a thread that holds nothing cannot touch the counter -/
example : (AState.mk 1 [1, 0]).run [.dec 0, .dec 1] = none := by decide

/-- a double free is rejected by the monitor, a correct trace is accepted -/
example : Mon.run [.free 0 16, .free 0 16, .alloc 0 16] = none := by decide
example : Mon.run [.free 0 16, .write 0 0 9, .alloc 0 16] = some [(16, false)] := by decide
example : Mon.run [.write 0 0 9, .free 0 16, .alloc 0 16] = none := by decide
example : Mon.run [.write 0 0 17, .alloc 0 16] = none := by decide

/-- a history after which dropping the pool releases both buffers -/
example : ((run Format.bytes (St.init 4)
    [.fromBytes 0 [1,2,3,4,5,6,7,8,9,10], .clone 0 1, .pushBytes 1 [0xff], .drop 0, .drop 1]).heap.bufs.map
      (·.live)) = [false, false] := by decide

end H5V.Props.C12
