import H5V.Gen.TraceFields
import H5V.Props.C20
import H5V.Lemmas.DomReach
/-!
C18 — `trace_handles` reports every node the tree builder still needs.

(a) **Every `Handle`-bearing field is traced** (`C18_fields_html`, `C18_fields_xml`): the field lists
of `struct TreeBuilder` / `struct XmlTreeBuilder` and the fields reported inside `trace_handles`
are regenerated from /repo on every run (`tools/extract.py` → `H5V.Gen.TraceFields`); adding a
field whose type mentions `Handle` without tracing it, or deleting a `trace_handle` call, makes the
`decide` below fail and names the field.

(b) **On the DOM model**: `Reach d roots x` — `x` is connected to a traced root by parent / children /
template-contents links, i.e. survives a collection.  Every sink call that cannot detach a node
keeps every link, so what was reachable stays reachable (`C18_reach_step`, lifted to call sequences
`C18_reach_run`); `remove_from_parent` and `reparent_children` keep it reachable once the two ends of
the cut are roots (`C18_reach_remove`, `C18_reach_reparent`) — in the tree builders both are handles
on the stack of open elements; a freshly created node is a root by itself.

That every handle the tree builders *later pass to the sink* is, at each suspension point, connected
to a traced root is decided by the GC-simulating sink on the real parsers (`tools/props/C18.py`); the
proof of that statement needs the tree-builder models (separate package).
-/
namespace H5V.Props.C18
open H5V.Model.Dom H5V.Lemmas.Dom H5V.Props.C20 H5V.Gen.TraceFields

/-- every field of html5ever's `TreeBuilder` whose type mentions `Handle` is reported by `trace_handles` -/
theorem C18_fields_html : ∀ f ∈ htmlHandleFields, f ∈ htmlTraced := by decide

/-- every field of xml5ever's `XmlTreeBuilder` whose type mentions `Handle` is reported by `trace_handles` -/
theorem C18_fields_xml : ∀ f ∈ xmlHandleFields, f ∈ xmlTraced := by decide

/-- … and `trace_handles` reports nothing but fields of the struct, each at most once -/
theorem C18_traced_are_fields : (∀ f ∈ htmlTraced, f ∈ htmlFields) ∧ (∀ f ∈ xmlTraced, f ∈ xmlFields) ∧
    htmlTraced.Nodup ∧ xmlTraced.Nodup := by decide

-- non-vacuity: the lists are the ones of the source
example : htmlHandleFields.length = 6 ∧ xmlHandleFields.length = 3 ∧ "doc_handle" ∈ htmlHandleFields := by decide

/-- **a call that cannot detach a node keeps everything reachable** -/
theorem C18_reach_step {d d' : Dom} {op : SinkOp} {out : Output} (hc : Contract d op)
    (h : d.apply op = .ok (d', out)) (hop : NeverDetaches d op) {roots : List Id} {x : Id}
    (hx : Reach d roots x) : Reach d' roots x := by
  rw [apply_eq] at h
  exact hx.of_links (LinksKept.applyV hc h hop)

/-- a run of non-detaching contract-abiding calls -/
inductive QuietRun : Dom → List SinkOp → Dom → Prop
  | nil {d : Dom} : QuietRun d [] d
  | cons {d d1 d2 : Dom} {op : SinkOp} {ops : List SinkOp} {out : Output} :
      Contract d op → NeverDetaches d op → d.apply op = .ok (d1, out) → QuietRun d1 ops d2 →
      QuietRun d (op :: ops) d2

theorem C18_reach_run {d d' : Dom} {ops : List SinkOp} (hr : QuietRun d ops d') {roots : List Id} {x : Id}
    (hx : Reach d roots x) : Reach d' roots x := by
  induction hr with
  | nil => exact hx
  | cons hc hn ha _ ih => exact ih (C18_reach_step hc ha hn hx)

/-- `remove_from_parent(t)` cuts one link: with `t` and its old parent as additional roots nothing
becomes unreachable -/
theorem C18_reach_remove {d d' : Dom} (hi : Inv d) {t : Id} (h : d.removeFromParent t = .ok d')
    {roots : List Id} {x : Id} (hx : Reach d roots x) :
    Reach d' (t :: ((d.parentOf t).toList ++ roots)) x := hx.removeFromParent hi.wf h

/-- `reparent_children(n, np)`: with `n` and `np` as additional roots nothing becomes unreachable -/
theorem C18_reach_reparent {d d' : Dom} (hi : Inv d) {n np : Id} (h : d.reparentChildren n np = .ok d')
    {roots : List Id} {x : Id} (hx : Reach d roots x) : Reach d' (n :: np :: roots) x :=
  hx.reparentChildren hi.wf h

/-- roots that are themselves reachable add nothing; more roots never hurt -/
theorem C18_reach_roots {d : Dom} {r1 r2 : List Id} (h : ∀ x ∈ r1, Reach d r2 x) {x : Id}
    (hx : Reach d r1 x) : Reach d r2 x := hx.trans_roots h

/-- template contents are connected to their template element (a handle obtained by
`get_template_contents` of a reachable element is reachable) -/
theorem C18_reach_template {d : Dom} {roots : List Id} {x t : Id} (hx : Reach d roots x)
    (h : d.getTemplateContents x = .ok t) : Reach d roots t := by
  refine Reach.template hx ?_
  unfold Dom.getTemplateContents at h
  simp only [bind, Except.bind] at h
  cases hg : d.get x with
  | error e => simp [hg] at h
  | ok n =>
    have hn := get_ok.mp hg
    simp only [hg] at h
    unfold Dom.templateContentsOf
    rw [dataOf_of_node hn]
    cases hd : n.data with
    | element nm a tc ip =>
      cases tc with
      | none => simp [hd, throw, throwThe, MonadExceptOf.throw] at h
      | some tc => simp [hd] at h; simp [h]
    | document | doctype _ _ _ | comment _ | text _ | pi _ _ =>
      simp [hd, throw, throwThe, MonadExceptOf.throw] at h

-- non-vacuity: in `exDom` (C20) everything attached to the document is reachable from the document,
-- the detached element 2 is not
example : Reach exDom [0] 4 :=
  Reach.child (x := 5) (Reach.child (x := 1) (Reach.child (x := 0) (Reach.root (by simp)) (by decide)) (by decide)) (by decide)

end H5V.Props.C18
