import H5V.Props.C05
import H5V.Lemmas.DomCloneDeep
/-!
C20 — "clone an option into a selectedcontent" makes **deep** copies.  Closes the `_partial` of
`C20_clone_option_partial` (`Props/C20.lean`): "*not proved* is that the copies are deep copies
below the first level (each copy's subtree is isomorphic to the original child's subtree, with fresh
ids, template contents cloned recursively, the originals untouched)".

* `Tree`, `treeAux d n x` (`Lemmas/DomCloneDeep.lean`): the subtree below `x` with the arena ids
  forgotten — node data with the template link erased, the tree of the template contents, the trees
  of the children in order — cut at depth `n`.  "The subtrees below `k` in `d'` and below `x` in `d`
  are isomorphic" is `∀ n, treeAux d' n k = treeAux d n x`.
* `TcValid d`: template-contents links name nodes of the arena.  It holds of `Dom.new` and is
  preserved by *every* sink call (`C20_tcValid_step`, no contract needed), hence holds of every
  reachable arena (`C20_reachable_tcValid`); it is a separate hypothesis of the theorems below, not
  part of `Inv`.  Without it a dangling link of the original could come to name a node allocated
  during the copy.
* `NewClosed n d'`: the nodes `≥ n` link — by child lists and template links — only to nodes `≥ n`.
  With `n = d.size` this is "the copies consist of fresh nodes only and share nothing with the
  originals, template contents included" (`C20_copy_ids_fresh`).

Theorems: `C20_clone_subtree_deep` (`clone_with_subtree`), `C20_clone_option` (the restated
`C20_clone_option_partial`, without `_partial`), `C20_copy_ids_fresh`,
`C20_clone_template_not_shared`, and `C05_mirror_inv_preserved` (the invariant is re-established by
`maybe_clone_an_option_into_selectedcontent` too — this was already part of `C05_inv_preserved`;
what C05 excludes with `NotMirror` is *panic-freedom* of the mirror call, see the note there).
-/
namespace H5V.Props.C20
open H5V.Model.Dom H5V.Lemmas.Dom

/-- all ids of the subtree below `x` — the node, its template contents, its children, recursively —
to depth `n` -/
def idsAux (d : Dom) : Nat → Id → List Id
  | 0, _ => []
  | n + 1, x => x :: (((d.templateContentsOf x).toList ++ d.childrenOf x).flatMap (idsAux d n))

/-- **every node of a subtree hanging off a fresh node is fresh** when the new part of the arena is
closed -/
theorem C20_copy_ids_fresh {n0 : Nat} {d' : Dom} (hc : NewClosed n0 d') :
    ∀ n k, n0 ≤ k → ∀ y ∈ idsAux d' n k, n0 ≤ y := by
  intro n
  induction n with
  | zero => intro k _ y hy; cases hy
  | succ n ih =>
    intro k hk y hy
    simp only [idsAux, List.mem_cons, List.mem_flatMap, List.mem_append, Option.mem_toList] at hy
    rcases hy with e | ⟨z, hz, hyz⟩
    · rw [e]; exact hk
    · rcases hz with hz | hz
      · exact ih z ((hc k hk).2 z hz) y hyz
      · exact ih z ((hc k hk).1 z hz) y hyz

/-- **`clone_with_subtree` (repaired) makes a deep copy.**  On a well-formed arena with valid
template links, whenever the call returns:
* the invariant and link validity hold again;
* the copy `k` is a fresh, parentless node, and the subtree below it is isomorphic to the subtree
  below `x` (data, children in order, template contents recursively) — at every depth;
* the new nodes link only to new nodes: nothing of the copy is shared with an old node;
* no old node changed: parent, data, child list — hence the tree below every old node — are as before. -/
theorem C20_clone_subtree_deep {d d' : Dom} {x k : Id} {fuel : Nat} (hi : Inv d) (ht : TcValid d)
    (h : d.cloneFixed fuel x = .ok (d', k)) :
    Inv d' ∧ TcValid d' ∧
    (∀ n, treeAux d' n k = treeAux d n x) ∧
    d.size ≤ k ∧ k < d'.size ∧ d'.parentOf k = none ∧
    NewClosed d.size d' ∧
    (∀ y, y < d.size → d'.parentOf y = d.parentOf y ∧ d'.dataOf y = d.dataOf y ∧
      d'.childrenOf y = d.childrenOf y) ∧
    (∀ n y, y < d.size → treeAux d' n y = treeAux d n y) := by
  have ds := cloneFixed_deep fuel d x d' k hi.wf hi.kinds ht h
  have sp := ds.spec
  exact ⟨⟨sp.wf, sp.kinds⟩, ds.tcv, ds.iso, sp.fresh, sp.valid, sp.root, ds.closed,
    fun y hy => ⟨sp.frame.parent y hy, sp.frame.data y hy, sp.frame.children y hy (by simp)⟩,
    tree_frame sp.frame hi.wf ht⟩

/-- template contents are **cloned, not shared**: a template element inside the copy links to a
fresh contents node, while every old template element keeps its old one -/
theorem C20_clone_template_not_shared {d d' : Dom} {x k : Id} {fuel : Nat} (hi : Inv d) (ht : TcValid d)
    (h : d.cloneFixed fuel x = .ok (d', k)) :
    (∀ n, ∀ y ∈ idsAux d' n k, ∀ t, d'.templateContentsOf y = some t → d.size ≤ t) ∧
    (∀ y t, y < d.size → d'.templateContentsOf y = some t → t < d.size) := by
  obtain ⟨_, _, _, hk, _, _, hc, hold, _⟩ := C20_clone_subtree_deep hi ht h
  refine ⟨fun n y hy t htc => (hc y (C20_copy_ids_fresh hc n k hk y hy)).2 t htc, fun y t hy htc => ?_⟩
  rw [tc_congr (hold y hy).2.1] at htc
  exact ht y t htc

/-- **"Clone an option into a selectedcontent" (repaired, `.fixed`), complete.**  Whenever
`maybe_clone_an_option_into_selectedcontent` finds a `selectedcontent` `sc` to mirror into and
returns:
* the invariant (`Inv`: consistent parent links, acyclic, node kinds) and link validity hold again;
* the children of `sc` are, in order, **deep copies** of the option's children: the list of trees
  below them equals the list of trees below the option's children as they were before the call, at
  every depth (data, children in order, template contents recursively);
* the copies are fresh nodes pointing to `sc`, and the whole new part of the arena links only to new
  nodes (no sharing with the originals, template contents included);
* the old children of `sc` are detached; every other node that existed keeps data, children and
  parent (the only old child list that changes is that of `sc`). -/
theorem C20_clone_option {d d' : Dom} {o sc : Id} (hi : Inv d) (htv : TcValid d)
    (ht : d.cloneTarget .fixed o = .ok (some sc)) (h : d.maybeCloneOption .fixed o = .ok d') :
    Inv d' ∧ TcValid d' ∧
    (∀ n, (d'.childrenOf sc).map (treeAux d' n) = (d.childrenOf o).map (treeAux d n)) ∧
    (∀ k ∈ d'.childrenOf sc, d.size ≤ k ∧ d'.parentOf k = some sc) ∧
    NewClosed d.size d' ∧
    (∀ c ∈ d.childrenOf sc, d'.parentOf c = none) ∧
    (∀ y, y < d.size → d'.dataOf y = d.dataOf y) ∧
    (∀ y, y < d.size → y ≠ sc → d'.childrenOf y = d.childrenOf y) ∧
    (∀ y, y < d.size → y ∉ d.childrenOf sc → d'.parentOf y = d.parentOf y) := by
  obtain ⟨a, _, b, c, e, f, g⟩ := C20_clone_option_partial hi ht h
  simp only [Dom.maybeCloneOption, bind, Except.bind, ht] at h
  obtain ⟨t1, t2, t3⟩ := cloneOptionInto_fixed_deep hi.wf hi.kinds htv (cloneTarget_fixed_element ht) h
  exact ⟨a, t1, t3, b, t2, c, e, f, g⟩

/-- every node of every copy is fresh (`≥` the old arena size), to any depth, template contents
included -/
theorem C20_clone_option_ids_fresh {d d' : Dom} {o sc : Id} (hi : Inv d) (htv : TcValid d)
    (ht : d.cloneTarget .fixed o = .ok (some sc)) (h : d.maybeCloneOption .fixed o = .ok d') :
    ∀ k ∈ d'.childrenOf sc, ∀ n, ∀ y ∈ idsAux d' n k, d.size ≤ y := by
  obtain ⟨_, _, _, hk, hc, _⟩ := C20_clone_option hi htv ht h
  exact fun k hkm n y hy => C20_copy_ids_fresh hc n k (hk k hkm).1 y hy

/-- link validity is re-established by the mirror call in every case -/
theorem C20_clone_option_tcValid {d d' : Dom} {o : Id} (hi : Inv d) (htv : TcValid d)
    (h : d.maybeCloneOption .fixed o = .ok d') : TcValid d' := by
  cases ht : d.cloneTarget .fixed o with
  | error e => simp [Dom.maybeCloneOption, bind, Except.bind, ht] at h
  | ok r =>
    cases r with
    | none =>
      rw [C20_clone_option_nothing ht] at h
      cases h; exact htv
    | some sc => exact (C20_clone_option hi htv ht h).2.1

theorem C20_tcValid_new : TcValid Dom.new := tcValid_new

/-- `create_element` keeps template links valid (the contents node is allocated first) -/
theorem C20_tcValid_createElement {d : Dom} (ht : TcValid d) (name : QualName) (attrs : List Attr)
    (flags : ElementFlags) : TcValid (d.createElement name attrs flags).1 := ht.createElement name attrs flags

/-- **`TcValid` is an invariant of the sink**: every call that returns — within the contract or not —
keeps template links valid -/
theorem C20_tcValid_step {d d' : Dom} {op : SinkOp} {out : Output} (hi : Inv d) (ht : TcValid d)
    (h : d.apply op = .ok (d', out)) : TcValid d' := by
  rw [apply_eq] at h
  exact ht.applyV hi.wf hi.kinds h

/-- every DOM reachable from `RcDom::default()` by contract-abiding calls has valid template links —
so the hypothesis `TcValid d` of `C20_clone_option` / `C20_clone_subtree_deep` holds wherever `Inv d`
is known from `C20_reachable_inv` -/
theorem C20_reachable_tcValid {d : Dom} {ops : List SinkOp} (hr : Run Dom.new ops d) : TcValid d := by
  have : ∀ {d0 d1 : Dom} {ops : List SinkOp}, Run d0 ops d1 → Inv d0 → TcValid d0 → TcValid d1 := by
    intro d0 d1 ops hr
    induction hr with
    | nil => exact fun _ ht => ht
    | cons hc ha _ ih => exact fun hi ht => ih (C20_parent_links_step hi hc ha) (C20_tcValid_step hi ht ha)
  exact this hr inv_new tcValid_new

/-- `C20_clone_option` for reachable arenas: no hypothesis beyond reachability -/
theorem C20_clone_option_reachable {d d' : Dom} {ops : List SinkOp} {o sc : Id} (hr : Run Dom.new ops d)
    (ht : d.cloneTarget .fixed o = .ok (some sc)) (h : d.maybeCloneOption .fixed o = .ok d') :
    Inv d' ∧ TcValid d' ∧
    (∀ n, (d'.childrenOf sc).map (treeAux d' n) = (d.childrenOf o).map (treeAux d n)) ∧
    (∀ k ∈ d'.childrenOf sc, d.size ≤ k ∧ d'.parentOf k = some sc) ∧
    NewClosed d.size d' :=
  let r := C20_clone_option (C20_reachable_inv hr) (C20_reachable_tcValid hr) ht h
  ⟨r.1, r.2.1, r.2.2.1, r.2.2.2.1, r.2.2.2.2.1⟩

/-- **C05 corollary**: the invariant is re-established by
`maybe_clone_an_option_into_selectedcontent` like by every other contract-abiding call
(`C05_inv_preserved` has no `NotMirror` hypothesis; restated here for the mirror call alone, from
`Inv` and nothing else — not even the contract).  What `C05_no_panic_partial` / `C05_run` exclude with
`NotMirror` is *panic-freedom* of the mirror call (fuel adequacy of its three bounded loops), which is
not a consequence of `Inv` and the contract alone: the contract allows appending a template element
into its own template contents, on which `clone_with_subtree` does not terminate. -/
theorem C05_mirror_inv_preserved {d d' : Dom} {o : Id} {out : Output} (hi : Inv d)
    (h : d.apply (.maybeCloneAnOptionIntoSelectedcontent o) = .ok (d', out)) : Inv d' := by
  simp only [Dom.apply, Dom.applyV, Dom.cloneVariant, bind, Except.bind] at h
  cases hm : d.maybeCloneOption .fixed o with
  | error e => simp [hm] at h
  | ok d1 =>
    simp only [hm, Except.ok.injEq, Prod.mk.injEq] at h
    obtain ⟨e1, _⟩ := h; subst e1
    obtain ⟨a, b⟩ := maybeCloneOption_fixed_inv hi.wf hi.kinds hm
    exact ⟨a, b⟩

/-! ### non-vacuity -/

/-- `exSelect` (`Props/C20.lean`): `<select><button><selectedcontent>old</selectedcontent></button>
<option selected>A<b>B</b>` — reachable, hence `Inv`; no template, hence `TcValid` -/
def exSelectOps : List SinkOp :=
  [ .createElement (qn sSelect) [] {}, .append 0 (.node 1), .createElement (qn ['b','u','t','t','o','n']) [] {},
    .append 1 (.node 2), .createElement (qn sSelectedcontent) [] {}, .append 2 (.node 3),
    .append 3 (.text ['o','l','d']), .createElement (qn sOption) [at' sSelected []] {}, .append 1 (.node 5),
    .append 5 (.text ['A']), .createElement (qn ['b']) [] {}, .append 5 (.node 7), .append 7 (.text ['B']) ]

theorem exSelect_inv : Inv exSelect :=
  C20_reachable_inv (ops := exSelectOps) (run_of_check (by decide))

theorem exSelect_tcValid : TcValid exSelect :=
  C20_reachable_tcValid (ops := exSelectOps) (run_of_check (by decide))

/-- the hypotheses of `C20_clone_option` are satisfiable and the call returns -/
example : (exSelect.maybeCloneOption .fixed 5).toOption.isSome = true ∧
    exSelect.cloneTarget .fixed 5 = .ok (some 3) := ⟨by decide, by decide⟩

/-- … and the conclusion is not vacuous: two copies (of the text `A` and of `<b>B</b>`), the second
with a copied child -/
example : (match exSelect.maybeCloneOption .fixed 5 with
    | .ok d' => ((d'.childrenOf 3).length, (d'.childrenOf 3).map d'.childrenOf, d'.size)
    | .error _ => (0, [], 0)) = (2, [[], [11]], 12) := by decide

/-- a template element with contents: `clone_with_subtree` copies the contents (fresh node 4 for the
contents 0-based: arena `doc, tc, template, text-in-contents`) -/
def exTemplate : Dom := (runCheck Dom.new
  [ .createElement (qn ['t','e','m','p','l','a','t','e']) [] { template := true },
    .append 1 (.text ['x']) ]).getD Dom.new

example : (match exTemplate.cloneFixed 5 2 with
    | .ok (d', k) => (k, d'.templateContentsOf k, d'.templateContentsOf 2,
        (d'.templateContentsOf k).map d'.childrenOf, d'.size)
    | .error _ => (0, none, none, none, 0)) = (6, some 4, some 1, some [5], 7) := by decide

/-- `C20_clone_option` instantiated on the witness (its premises hold: see the two examples above) -/
example : ∀ d', exSelect.maybeCloneOption .fixed 5 = .ok d' →
    ∀ n, (d'.childrenOf 3).map (treeAux d' n) = (exSelect.childrenOf 5).map (treeAux exSelect n) :=
  fun _ h => (C20_clone_option exSelect_inv exSelect_tcValid (by decide) h).2.2.1

def exTemplateOps : List SinkOp :=
  [ .createElement (qn ['t','e','m','p','l','a','t','e']) [] { template := true },
    .append 1 (.text ['x']) ]

theorem exTemplate_inv : Inv exTemplate :=
  C20_reachable_inv (ops := exTemplateOps) (run_of_check (by decide))

theorem exTemplate_tcValid : TcValid exTemplate :=
  C20_reachable_tcValid (ops := exTemplateOps) (run_of_check (by decide))

/-- `C20_clone_subtree_deep` instantiated on a template with contents: the copy's template contents
are a fresh node (`≥ 4`), the original keeps node 1 -/
example : ∀ d' k, exTemplate.cloneFixed 5 2 = .ok (d', k) →
    (∀ n, treeAux d' n k = treeAux exTemplate n 2) ∧
    (∀ t, d'.templateContentsOf k = some t → 4 ≤ t) ∧ d'.templateContentsOf 2 = some 1 := by
  intro d' k h
  obtain ⟨_, _, iso, hk, _, _, hc, hold, _⟩ := C20_clone_subtree_deep exTemplate_inv exTemplate_tcValid h
  refine ⟨iso, fun t ht => (hc k hk).2 t ht, ?_⟩
  rw [tc_congr (hold 2 (by decide)).2.1]
  decide


/-! ### why `NotMirror` cannot simply be dropped from `C05_no_panic_partial` -/

/-- a template element (2, contents 1) placed — through `select` 3 › `option` 5 — inside its own
template contents; every call is within the contract -/
def exLoopOps : List SinkOp :=
  [ .createElement (qn ['t','e','m','p','l','a','t','e']) [] { template := true },
    .createElement (qn sSelect) [] {}, .append 1 (.node 3),
    .createElement (qn sSelectedcontent) [] {}, .append 3 (.node 4),
    .createElement (qn sOption) [at' sSelected []] {}, .append 3 (.node 5),
    .append 5 (.node 2) ]

def exLoop : Dom := (runCheck Dom.new exLoopOps).getD Dom.new

/-- **`Inv`, `TcValid` and the contract do not make the mirror call total**: all calls of `exLoopOps`
satisfy the contract (`firstViolation = none`), the arena reached satisfies `Inv` and `TcValid`, the
mirror call on the option satisfies the contract — and `clone_with_subtree` does not terminate on it
(the model runs out of fuel; the Rust recursion overflows the stack).  The tree builders never
produce this shape (a template's contents are only filled while the template is the current node),
but that is a property of the builders, not of `Contract`. -/
theorem C05_mirror_needs_more_than_contract :
    H5V.Props.C05.firstViolation Dom.new exLoopOps = none ∧ Inv exLoop ∧
    Contract exLoop (.maybeCloneAnOptionIntoSelectedcontent 5) ∧
    exLoop.templateContentsOf 2 = some 1 ∧
    (exLoop.maybeCloneOption .fixed 5).toOption = none := by
  refine ⟨by decide, C20_reachable_inv (ops := exLoopOps) (run_of_check (by decide)), by decide, by decide, ?_⟩
  decide


end H5V.Props.C20
