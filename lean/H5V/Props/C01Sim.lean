import H5V.Lemmas.HtmlTokSpecRun
import H5V.Props.C01
import H5V.Props.C04Term
import H5V.Props.C08Run
import H5V.Props.C03End
/-!
# C01 — the model of html5ever's HTML tokenizer computes the WHATWG tokenization algorithm

**`C01_model_eq_spec`**: for every start state (all of html5ever's states except the two without a
counterpart in the standard and the six attribute states that presuppose a current attribute — see
`StartOk`), every last-start-tag name, both values of `discard_bom`, every sink policy / tree
construction feedback that agree (`PolTree`: the same tokenizer-state switch after a tag and the same CDATA answer on
corresponding token histories — the policy may depend on everything delivered so far, in canonical
form —, no script / encoding pauses) and EVERY input text `s`:
feeding `s` in one piece to the model (`feed`, `exact_errors` off) and calling `end()` (`finish`)
succeeds, and the tokens delivered to the sink — in the canonical form of the comparison `./check C01`
makes: parse errors, pause markers and line numbers dropped, character tokens exploded into single
characters — are exactly the tokens of `Spec.HtmlTokenizer.tokenize`, the transcription of HTML
Standard §13.2.5, run on the newline-normalised text (after the optional BOM).

The proof is a simulation (`H5V.Lemmas.HtmlTokSpec`): relation `Rel` (file `HtmlTokSpecDefs.lean`),
step theorem `step_sim` (one `Tokenizer::step` = `k ≥ 0` steps of the specification; table lemmas per
state group, reader lemmas for CR/LF and `reconsume`, look-ahead states with the stash, character
references through the model's sub-tokenizer), run theorem `run_sim`, `finish_sim` for `end()`.

Corollaries: `C01_model_eq_spec_exact` (the other value of `exact_errors`, through `C08_feed_optE` /
`C08_finish_optE`) and `C01_model_eq_spec_chunked` (any partition into chunks, through
`C03_chunk_independence` / `C03_finish_sim`).
-/
set_option linter.unusedSimpArgs false
set_option linter.unusedVariables false
namespace H5V.Props.C01
open H5V.Model.HtmlTok H5V.Lemmas.HtmlTokSpec
open H5V.Spec.HtmlTokenizer (St Tok Emit Tree Switch Ctl ReturnSt normalizeNewlinesFrom normalizeNewlines)

/-! ## statement -/

/-- the start states covered: html5ever's states with a counterpart in the standard (`Std`: all but
`RawEndTagOpen/RawEndTagName(ScriptDataEscaped(DoubleEscaped))`) that do not presuppose a current
attribute (`needsCur`: attribute name, after attribute name, before attribute value, attribute
value — started there html5ever keeps an orphan value, the standard defines nothing) -/
def StartOk (st : State) : Prop := Std st ∧ needsCur st = false

instance (st : State) : Decidable (StartOk st) := by unfold StartOk; infer_instance

/-- a tokenizer as created by `Tokenizer::new` -/
def initMach (st : State) (last : Option Str) (bom : Bool) : Mach :=
  { state := st, lastStartTag := last, discardBom := bom }

/-- "one leading U+FEFF BYTE ORDER MARK is ignored" when `discard_bom` is set -/
def stripBom (bom : Bool) (s : Str) : Str :=
  match s with
  | [] => []
  | c :: rest => if bom = true ∧ c = '﻿' then rest else c :: rest

/-- a token of the model in the canonical form of the comparison: parse errors, pause markers and
the end-of-file token dropped, character tokens exploded into single characters -/
def explode : Token → List Token
  | .chars s => s.map fun c => .chars [c]
  | .error _ => []
  | .pause _ => []
  | .eof => []
  | t => [t]

/-- the tokens delivered to the sink, oldest first, in canonical form (line numbers dropped) -/
def canon (out : Out) : List Token := (out.reverse.map (·.1)).flatMap explode

theorem explode_eq (tok : Token) : explode tok = (flatTok tok).map Emit.toToken := by
  cases tok <;> simp [explode, flatTok, Emit.toToken, Function.comp_def]

theorem canon_eq_flat (out : Out) : canon out = (flat out).reverse.map Emit.toToken := by
  unfold canon
  induction out with
  | nil => rfl
  | cons p out ih =>
    obtain ⟨tok, l⟩ := p
    simp only [List.reverse_cons, List.map_append, List.flatMap_append, List.map_cons, List.map_nil,
      List.flatMap_cons, List.flatMap_nil, List.append_nil, flat_cons, List.reverse_append,
      List.reverse_reverse, ih, explode_eq]

/-! ## the start configuration -/

theorem rel_initial (st : State) (last : Option Str) (bom : Bool) (hst : StartOk st) (s : Str) :
    RelCore (initMach st last bom) s (Tok.initial (stOf st) last) (normalizeNewlines s) := by
  have hti : TInv (initMach st last bom) := tinv_fresh _ rfl rfl rfl
  refine ⟨⟨hst.1, ?_, ?_, ?_, ?_⟩, hti, fun cr hc => by simp [initMach] at hc⟩
  · unfold StRelD; simp [initMach, Tok.initial]
  · have hn := hst.2
    simp only [RegRel, initMach, Tok.initial, AttrRel, hn, attrR_nil, Bool.false_eq_true, false_imp_iff,
      and_true, true_and, and_self, implies_true]
  · have hcb : cdataBuf (initMach st last bom) = [] := by
      unfold cdataBuf
      show (if isCdata st = true then ([] : Str) else []) = []
      exact ite_self _
    unfold OutRel
    rw [hcb]
    rfl
  · unfold InpRel
    have hstash : stash (initMach st last bom) = [] := stash_nil_of rfl (fun _ => rfl)
    rw [hstash]
    simp [rc, initMach, normalizeNewlines]

/-- the relation does not look at `discard_bom` -/
theorem relCore_setDiscardBom {m : Mach} {inp : Str} {t : Tok} {rest : Str} (h : RelCore m inp t rest)
    (b : Bool) : RelCore (m.setDiscardBom b) inp t rest := by
  obtain ⟨⟨h1, h2, h3, h4, h5⟩, ht, hg⟩ := h
  refine ⟨⟨h1, h2, h3, h4, ?_⟩, ht.setDiscardBom b, hg⟩
  unfold InpRel at h5 ⊢
  rw [stash_congr (m := m) (m' := m.setDiscardBom b) rfl rfl rfl]
  exact h5

/-- the BOM prologue of `feed` on a fresh tokenizer -/
theorem feedBom_init (st : State) (last : Option Str) (bom : Bool) (s : Str) (hne : s ≠ []) :
    ∃ b, feedBom (initMach st last bom) s = ((initMach st last bom).setDiscardBom b, stripBom bom s) := by
  cases s with
  | nil => exact absurd rfl hne
  | cons c rest =>
    cases bom with
    | true =>
      refine ⟨false, ?_⟩
      by_cases hc : c = '﻿' <;> simp [feedBom, initMach, stripBom, hc]
    | false =>
      refine ⟨false, ?_⟩
      simp [feedBom, initMach, stripBom, Mach.setDiscardBom]

/-! ## the headline -/

/-- **C01: the model of html5ever's tokenizer computes the WHATWG tokenization algorithm.**
`feed` of the whole text and `end()` succeed, and the tokens delivered to the sink, in canonical
form, followed by the end-of-file token are the tokens of the specification. -/
theorem C01_model_eq_spec (pol : Pol) (tree : Tree) (hpt : PolTree pol tree) (st : State) (last : Option Str)
    (bom : Bool) (hst : StartOk st) (s : Str) :
    ∃ m1 mf, feed ⟨false⟩ pol (initMach st last bom) [] s = .done m1 [] ∧
      finish ⟨false⟩ pol m1 = .ok mf ∧
      H5V.Spec.HtmlTokenizer.tokenize tree (stOf st) last (normalizeNewlines (stripBom bom s)) =
        some (canon mf.out ++ [Token.eof]) := by
  have ho : (⟨false⟩ : Opts).exactErrors = false := rfl
  have hq0 : Quiet (initMach st last bom) := quiet_fresh _ rfl rfl rfl
  -- the run of `feed`
  have hfeed : ∃ m1, feed ⟨false⟩ pol (initMach st last bom) [] s = .done m1 [] ∧
      Reach tree (Tok.initial (stOf st) last) (normalizeNewlines (stripBom bom s))
        (fun t' r' => Rel m1 [] t' r') := by
    by_cases hs : s = []
    · subst hs
      refine ⟨initMach st last bom, by simp [feed], Reach.done ?_⟩
      exact (rel_initial st last bom hst []).toRel
    · obtain ⟨b, hfb⟩ := feedBom_init st last bom s hs
      have hrel : Rel ((initMach st last bom).setDiscardBom b) (stripBom bom s)
          (Tok.initial (stOf st) last) (normalizeNewlines (stripBom bom s)) :=
        (relCore_setDiscardBom (rel_initial st last bom hst (stripBom bom s)) b).toRel
      have hti : TInv ((initMach st last bom).setDiscardBom b) := hq0.tinv.setDiscardBom b
      have hfe : feed ⟨false⟩ pol (initMach st last bom) [] s =
          run ⟨false⟩ pol (fuelFor ((initMach st last bom).setDiscardBom b) (stripBom bom s))
            ((initMach st last bom).setDiscardBom b) (stripBom bom s) := by
        unfold feed
        simp only [List.nil_append, hfb]
        have : s.isEmpty = false := by cases s <;> simp_all
        simp [this]
      have hrun := run_sim ⟨false⟩ ho pol tree hpt
        (fuelFor ((initMach st last bom).setDiscardBom b) (stripBom bom s)) _ _ _ _ hrel
      rw [hfe]
      cases hr : run ⟨false⟩ pol (fuelFor ((initMach st last bom).setDiscardBom b) (stripBom bom s))
          ((initMach st last bom).setDiscardBom b) (stripBom bom s) with
      | done m1 i1 =>
        rw [hr] at hrun
        have hi1 : i1 = [] := run_done_nil _ pol _ _ _ hti m1 i1 hr
        subst hi1
        exact ⟨m1, rfl, hrun⟩
      | outOfFuel => exact absurd hr (run_terminates _ pol _ _ _ hti (mu_lt_fuelFor _ _))
      | script a c => rw [hr] at hrun; exact hrun.elim
      | indicator a c => rw [hr] at hrun; exact hrun.elim
      | panic e => rw [hr] at hrun; exact hrun.elim
  obtain ⟨m1, hf1, hreach⟩ := hfeed
  have hq1 : Quiet m1 := feed_stops_quiet ⟨false⟩ pol _ [] s hq0 m1 [] (by rw [hf1]; rfl)
  obtain ⟨mf, hfin⟩ := finish_end_total ⟨false⟩ pol m1 hq1
  refine ⟨m1, mf, hf1, hfin, ?_⟩
  -- `end()`
  have hstop : StopsFrom tree (Tok.initial (stOf st) last) (normalizeNewlines (stripBom bom s)) (flat mf.out) :=
    StopsFrom.of_reach hreach fun t' r' hrel => finish_sim ⟨false⟩ ho pol tree hpt m1 t' r' hrel hq1 mf hfin
  obtain ⟨t1, r1, t2, hsteps, hst2, hout⟩ := hstop
  have hsome := C01_spec_total tree (stOf st) last (normalizeNewlines (stripBom bom s))
  unfold H5V.Spec.HtmlTokenizer.tokenize at hsome ⊢
  rw [Option.isSome_map] at hsome
  have hrunEq := srun_of_steps tree hsteps hst2 _ hsome
  unfold srun at hrunEq
  rw [hrunEq, hout, canon_eq_flat]
  rfl

/-! ## the canonical form used by `./check C01`: adjacent character tokens merged -/

/-- merge adjacent character tokens -/
def mergeChars : List Token → List Token
  | .chars a :: rest =>
    match mergeChars rest with
    | .chars b :: rest' => .chars (a ++ b) :: rest'
    | rest' => .chars a :: rest'
  | t :: rest => t :: mergeChars rest
  | [] => []

/-- the same in the form in which the differential check compares the two sides (character tokens
merged): immediate from `C01_model_eq_spec` -/
theorem C01_model_eq_spec_merged (pol : Pol) (tree : Tree) (hpt : PolTree pol tree) (st : State)
    (last : Option Str) (bom : Bool) (hst : StartOk st) (s : Str) :
    ∃ m1 mf, feed ⟨false⟩ pol (initMach st last bom) [] s = .done m1 [] ∧
      finish ⟨false⟩ pol m1 = .ok mf ∧
      (H5V.Spec.HtmlTokenizer.tokenize tree (stOf st) last (normalizeNewlines (stripBom bom s))).map mergeChars =
        some (mergeChars (canon mf.out ++ [Token.eof])) := by
  obtain ⟨m1, mf, h1, h2, h3⟩ := C01_model_eq_spec pol tree hpt st last bom hst s
  exact ⟨m1, mf, h1, h2, by rw [h3]; rfl⟩

/-! ## the other value of `exact_errors` (through C08) -/

theorem switchOf_inj {a b : SinkRes} (ha : a ≠ .script ∧ a ≠ .indicator) (hb : b ≠ .script ∧ b ≠ .indicator)
    (h : switchOf a = switchOf b) : a = b := by
  have key : ∀ x : SinkRes, x ≠ .script ∧ x ≠ .indicator →
      x = (match switchOf x with
        | .none => SinkRes.continue_
        | .plaintext => .plaintext
        | .rcdata => .rawData .rcdata
        | .rawtext => .rawData .rawtext
        | .scriptData => .rawData .scriptData
        | .scriptDataEscaped => .rawData (.scriptDataEscaped .escaped)
        | .scriptDataDoubleEscaped => .rawData (.scriptDataEscaped .doubleEscaped)
        | .data => .continue_) := by
    intro x hx
    cases x with
    | continue_ => rfl
    | plaintext => rfl
    | rawData k => rcases k with _ | _ | _ | (_ | _) <;> rfl
    | script => exact absurd rfl hx.1
    | indicator => exact absurd rfl hx.2
  rw [key a ha, key b hb, h]

theorem flat_noErr (out : Out) : flat (noErr out) = flat out := by
  induction out with
  | nil => rfl
  | cons p out ih =>
    rw [noErr_cons]
    obtain ⟨tok, l⟩ := p
    cases tok <;> simp [isErr, ih]

/-- a policy linked to a tree-construction feedback does not look at parse-error tokens -/
theorem polE_of_polTree {pol : Pol} {tree : Tree} (hpt : PolTree pol tree) : PolE pol := by
  refine ⟨fun a b tag hab => ?_, fun a b hab => ?_⟩
  · have hf : flat a = flat b := by rw [← flat_noErr a, hab, flat_noErr]
    apply switchOf_inj (hpt.noPause a tag) (hpt.noPause b tag)
    rw [← hpt.onTag a tag, ← hpt.onTag b tag, hf]
  · have hf : flat a = flat b := by rw [← flat_noErr a, hab, flat_noErr]
    rw [← hpt.cdata a, ← hpt.cdata b, hf]

theorem explode_err (p : Token × Nat) (h : isErr p = true) : explode p.1 = [] := by
  obtain ⟨tok, l⟩ := p
  cases tok <;> simp [isErr] at h ⊢
  rfl

theorem canon_noErr (out : Out) : canon (noErr out) = canon out := by
  rw [canon_eq_flat, canon_eq_flat, flat_noErr]

/-- **C01 for both values of `exact_errors`**: the option only adds parse-error tokens
(`C08_feed_optE`, `C08_finish_optE`) -/
theorem C01_model_eq_spec_exact (o : Opts) (pol : Pol) (tree : Tree) (hpt : PolTree pol tree) (st : State)
    (last : Option Str) (bom : Bool) (hst : StartOk st) (s : Str) :
    ∃ m1 mf, feed o pol (initMach st last bom) [] s = .done m1 [] ∧
      finish o pol m1 = .ok mf ∧
      H5V.Spec.HtmlTokenizer.tokenize tree (stOf st) last (normalizeNewlines (stripBom bom s)) =
        some (canon mf.out ++ [Token.eof]) := by
  obtain ⟨m1, mf, h1, h2, h3⟩ := C01_model_eq_spec pol tree hpt st last bom hst s
  have hp := polE_of_polTree hpt
  have hfe := H5V.Props.C08.C08_feed_optE o ⟨false⟩ pol hp (E.refl (initMach st last bom)) [] s
  rw [h1] at hfe
  cases hf : feed o pol (initMach st last bom) [] s with
  | done a i =>
    rw [hf] at hfe
    obtain ⟨hE, hi⟩ := hfe
    subst hi
    have hfi := H5V.Props.C08.C08_finish_optE o ⟨false⟩ pol hp hE
    rw [h2] at hfi
    cases hfa : finish o pol a with
    | error e => rw [hfa] at hfi; simp [Except.map] at hfi
    | ok mfa =>
      rw [hfa] at hfi
      simp only [Except.map, Except.ok.injEq] at hfi
      refine ⟨a, mfa, rfl, hfa, ?_⟩
      rw [h3, ← canon_noErr mfa.out, hfi, canon_noErr]
  | script a i => rw [hf] at hfe; exact hfe.elim
  | indicator a i => rw [hf] at hfe; exact hfe.elim
  | panic e => rw [hf] at hfe; exact hfe.elim
  | outOfFuel => rw [hf] at hfe; exact hfe.elim

/-! ## any partition of the input into chunks (through C03) -/

theorem stripBom_false (s : Str) : stripBom false s = s := by
  cases s <;> simp [stripBom]

/-- without pauses the resumed loop `runP` of C03 is `Tokenizer::run` -/
theorem runP_run (o : Opts) (pol : Pol) (hp : NoPause pol) (f : Nat) : ∀ (m : Mach) (inp : Str) (m' : Mach),
    H5V.Props.C03.runP o pol f m inp = some m' → run o pol f m inp = .done m' [] := by
  induction f with
  | zero => intro m inp m' h; simp [H5V.Props.C03.runP] at h
  | succ n ih =>
    intro m inp m' h
    have hnp := step_noPause o pol hp m inp
    unfold H5V.Props.C03.runP at h
    unfold run
    cases hs : step o pol m inp with
    | cont m1 i1 => rw [hs] at h; exact ih m1 i1 m' h
    | suspend m1 i1 =>
      rw [hs] at h
      cases i1 with
      | nil => simp only [Option.some.injEq] at h; subst h; rfl
      | cons c r => simp at h
    | script a b => rw [hs] at hnp; simp [R.isPause] at hnp
    | indicator a b => rw [hs] at hnp; simp [R.isPause] at hnp
    | panic e => rw [hs] at h; simp at h

/-- **C01 for every chunking of the input**: feeding the text in any number of pieces (each run to
suspension, `feedAll` of C03) and then calling `end()` delivers the tokens of the specification on
the concatenated text (`C03_chunk_independence`, `C03_finish_sim`) -/
theorem C01_model_eq_spec_chunked (pol : Pol) (tree : Tree) (hpt : PolTree pol tree) (st : State)
    (last : Option Str) (hst : StartOk st) (chunks : List Str) (hne : chunks.flatten ≠ []) (fuel : Nat)
    (mf : Mach) (h : H5V.Props.C03.feedAll ⟨false⟩ pol fuel (initMach st last false) chunks = some mf) :
    ∃ me, finish ⟨false⟩ pol mf = .ok me ∧
      H5V.Spec.HtmlTokenizer.tokenize tree (stOf st) last (normalizeNewlines chunks.flatten) =
        some (canon me.out ++ [Token.eof]) := by
  have hcne : chunks ≠ [] := by rintro rfl; exact hne rfl
  obtain ⟨hg, hat⟩ := H5V.Props.C03.good_initial st last false
  obtain ⟨mf', fuel', hr, _, hsim⟩ :=
    H5V.Props.C03.C03_chunk_independence ⟨false⟩ pol fuel (initMach st last false) chunks mf hg hat hcne h
  have hp : NoPause pol := hpt.noPause
  have hrun := runP_run ⟨false⟩ pol hp fuel' _ _ _ hr
  -- `feed` of the whole text is that run
  have hfeed : feed ⟨false⟩ pol (initMach st last false) [] chunks.flatten = .done mf' [] := by
    have hfb : feedBom (initMach st last false) chunks.flatten = (initMach st last false, chunks.flatten) :=
      H5V.Props.C03.feedBom_id _ _ rfl
    have hemp : chunks.flatten.isEmpty = false := by
      cases hc : chunks.flatten with
      | nil => exact absurd hc hne
      | cons _ _ => rfl
    unfold feed
    simp only [List.nil_append, hemp, Bool.false_eq_true, if_false, hfb]
    have hti : TInv (initMach st last false) := tinv_fresh _ rfl rfl rfl
    have h1 : run ⟨false⟩ pol fuel' (initMach st last false) chunks.flatten ≠ .outOfFuel := by
      rw [hrun]; simp
    have h2 := run_terminates ⟨false⟩ pol _ _ _ hti (mu_lt_fuelFor (initMach st last false) chunks.flatten)
    have e1 := run_fuel_mono ⟨false⟩ pol fuel' (max fuel' (fuelFor (initMach st last false) chunks.flatten)) _ _ h1
      (Nat.le_max_left _ _)
    have e2 := run_fuel_mono ⟨false⟩ pol _ (max fuel' (fuelFor (initMach st last false) chunks.flatten)) _ _ h2
      (Nat.le_max_right _ _)
    rw [← e2, e1, hrun]
  obtain ⟨m1, mfh, h1, h2, h3⟩ := C01_model_eq_spec pol tree hpt st last false hst chunks.flatten
  rw [hfeed] at h1
  simp only [RunRes.done.injEq, and_true] at h1
  subst h1
  have hfs := H5V.Props.C03.C03_finish_sim ⟨false⟩ pol mf' mf hsim
  rw [h2] at hfs
  cases hfm : finish ⟨false⟩ pol mf with
  | error e => rw [hfm] at hfs; simp [Except.map] at hfs
  | ok me =>
    rw [hfm] at hfs
    simp only [Except.map, Except.ok.injEq] at hfs
    refine ⟨me, rfl, ?_⟩
    rw [stripBom_false] at h3
    rw [h3, hfs]

/-! ## the layers of the proof, restated -/

/-- **L1–L3: one step.** One `Tokenizer::step` of the model from a configuration in the relation `Rel`
is matched by `k ≥ 0` steps of the specification (`StepOk`: Continue ⇒ a related configuration is
reached, Suspend ⇒ still related; the model neither pauses nor panics). All states: the table
states (`tab_getChar`, `set_from`, `set_notFrom`), the look-ahead states (`stepMdo_sim`,
`stepAdn_sim`, `stepBav_sim`), character references (`stepCharRef_sim_num`, `stepCharRef_sim_named`),
re-reading of un-consumed text (`step_lag_sim`). -/
theorem C01_sim_step (o : Opts) (ho : o.exactErrors = false) (pol : Pol) (tree : Tree) (hpt : PolTree pol tree)
    (m : Mach) (inp : Str) (t : Tok) (rest : Str) (h : Rel m inp t rest) :
    StepOk tree t rest (step o pol m inp) :=
  step_sim o ho pol tree hpt m inp t rest h

/-- **the loop of `Tokenizer::run`** -/
theorem C01_sim_run (o : Opts) (ho : o.exactErrors = false) (pol : Pol) (tree : Tree) (hpt : PolTree pol tree)
    (fuel : Nat) (m : Mach) (inp : Str) (t : Tok) (rest : Str) (h : Rel m inp t rest) :
    RunOk tree t rest (run o pol fuel m inp) :=
  run_sim o ho pol tree hpt fuel m inp t rest h

/-- **L4: `Tokenizer::end`** from any machine in which the loop can have stopped (`Quiet`) -/
theorem C01_sim_finish (o : Opts) (ho : o.exactErrors = false) (pol : Pol) (tree : Tree) (hpt : PolTree pol tree)
    (m : Mach) (t : Tok) (rest : Str) (h : Rel m [] t rest) (hq : Quiet m) (mf : Mach)
    (hf : finish o pol m = .ok mf) : StopsFrom tree t rest (flat mf.out) :=
  finish_sim o ho pol tree hpt m t rest h hq mf hf

/-- the start configuration is in the relation -/
theorem C01_sim_initial (st : State) (last : Option Str) (bom : Bool) (hst : StartOk st) (s : Str) :
    Rel (initMach st last bom) s (Tok.initial (stOf st) last) (normalizeNewlines s) :=
  (rel_initial st last bom hst s).toRel

/-! ## non-vacuity -/

/-- a sink policy: `title` switches to RCDATA, `script` to script data; no CDATA sections -/
def exPol : Pol :=
  { cdataOk := fun _ => false
    onTag := fun _ t =>
      if t.kind = .startTag ∧ t.name = ['t', 'i', 't', 'l', 'e'] then .rawData .rcdata
      else if t.kind = .startTag ∧ t.name = ['s', 'c', 'r', 'i', 'p', 't'] then .rawData .scriptData
      else .continue_ }

/-- the same feedback for the specification -/
def exTree : Tree :=
  { foreign := fun _ => false
    onTag := fun _ t => switchOf (exPol.onTag [] t) }

/-- the hypothesis `PolTree` is satisfiable -/
theorem exPolTree : PolTree exPol exTree := by
  refine ⟨fun out tag => ?_, fun out tag => rfl, fun out => rfl⟩
  unfold exPol
  dsimp only
  split
  · exact ⟨by simp, by simp⟩
  · split
    · exact ⟨by simp, by simp⟩
    · exact ⟨by simp, by simp⟩

/-- the model's side of `C01_model_eq_spec` as a function -/
def modelTokens (pol : Pol) (st : State) (last : Option Str) (bom : Bool) (s : Str) : Option (List Token) :=
  match feed ⟨false⟩ pol (initMach st last bom) [] s with
  | .done m1 [] =>
    match finish ⟨false⟩ pol m1 with
    | .ok mf => some (canon mf.out ++ [Token.eof])
    | .error _ => none
  | _ => none

theorem modelTokens_eq_spec (pol : Pol) (tree : Tree) (hpt : PolTree pol tree) (st : State) (last : Option Str)
    (bom : Bool) (hst : StartOk st) (s : Str) :
    modelTokens pol st last bom s =
      H5V.Spec.HtmlTokenizer.tokenize tree (stOf st) last (normalizeNewlines (stripBom bom s)) := by
  obtain ⟨m1, mf, h1, h2, h3⟩ := C01_model_eq_spec pol tree hpt st last bom hst s
  unfold modelTokens
  rw [h1]
  simp only [h2, h3]

/-- start tag with a duplicate attribute and character references in attribute values (among them the
"historical" `&notit;` exception), numeric references (one from the C1 table), CR LF, a comment, RCDATA
with an end tag that is not appropriate, a DOCTYPE with public identifier, a reference without `;` -/
def exInput : Str :=
  "﻿<a B='&amp;x' b=y c=&notit;>t&#65;&#x80;\r\n<!--c-\r--><title>&lt;</b></TITLE ><!DOCTYPE html PUBLIC \"p\">&notit; &amp".toList

/-- both sides, evaluated by the kernel, on a concrete input: the same 21 tokens -/
example : modelTokens exPol .data none true exInput =
    H5V.Spec.HtmlTokenizer.tokenize exTree .data none (normalizeNewlines (stripBom true exInput)) ∧
    (modelTokens exPol .data none true exInput).map List.length = some 21 := by decide +kernel

/-- the theorem instantiated -/
example : modelTokens exPol .data none true exInput =
    H5V.Spec.HtmlTokenizer.tokenize exTree .data none (normalizeNewlines (stripBom true exInput)) :=
  modelTokens_eq_spec exPol exTree exPolTree .data none true (by decide) exInput

/-- a history-dependent feedback: CDATA sections are allowed once an `svg` start tag has been seen
(a caricature of "the adjusted current node is not in the HTML namespace") -/
def svgSeen (es : List Emit) : Bool :=
  es.any fun e => match e with
    | .tag t => t.kind == .startTag && t.name == ['s', 'v', 'g']
    | _ => false

def histPol : Pol := { cdataOk := fun out => svgSeen (flat out), onTag := fun _ _ => .continue_ }
def histTree : Tree := { foreign := svgSeen, onTag := fun _ _ => .none }

theorem histPolTree : PolTree histPol histTree :=
  ⟨fun _ _ => ⟨by simp [histPol], by simp [histPol]⟩, fun _ _ => rfl, fun _ => rfl⟩

/-- the same markup declaration is a bogus comment before and a CDATA section after `<svg>` — on
both sides -/
example :
    modelTokens histPol .data none true "<![CDATA[a]]><svg><![CDATA[b]]>c".toList =
      H5V.Spec.HtmlTokenizer.tokenize histTree .data none
        (normalizeNewlines (stripBom true "<![CDATA[a]]><svg><![CDATA[b]]>c".toList)) ∧
    (modelTokens histPol .data none true "<![CDATA[a]]><svg><![CDATA[b]]>c".toList).map mergeChars =
      some [.comment "[CDATA[a]]".toList,
            .tag ⟨.startTag, ['s', 'v', 'g'], false, [], false⟩, .chars ['b', 'c'], .eof] := by
  decide +kernel

/-- 65 of html5ever's 73 tokenizer states (parameters counted) are start states covered by the theorem -/
example : StartOk .data ∧ StartOk (.rawData .rcdata) ∧ StartOk (.rawData (.scriptDataEscaped .doubleEscaped)) ∧
    StartOk .plaintext ∧ StartOk .cdataSection ∧ StartOk .markupDeclarationOpen ∧ StartOk .tagName ∧
    ¬ StartOk (.attributeValue .unquoted) ∧ ¬ StartOk (.rawEndTagName (.scriptDataEscaped .doubleEscaped)) := by
  decide

end H5V.Props.C01
