import H5V.Lemmas.HtmlTBSafeInit
import H5V.Lemmas.HtmlTBSafeMsgs
import H5V.Lemmas.HtmlTBSafeAA
import H5V.Lemmas.HtmlTBSafeHead
import H5V.Lemmas.HtmlTBSafeBody
import H5V.Lemmas.HtmlTBSafeTable
import H5V.Lemmas.HtmlTBSafeSimple
/-!
C04 (tree builder part) — **tree construction is total in the model of html5ever's HTML tree
builder**: no `unwrap`/`expect`/index/`assert!`/arithmetic panic site of
`html5ever/src/tree_builder/{mod.rs,rules.rs}` (every `panicAt` of `H5V.Model.HtmlTB`) is reachable,
for every token sequence, every option set, and a document or fragment start — with ONE exception
that is real: the `unreachable!("impossible case in Text mode")` of rules.rs:1037 is reached when
the token source sends a start tag / comment / null character while the builder is in the Text
insertion mode (the html5ever tokenizer never does; an arbitrary `TokenSink` client can).  For token
sequences that keep this protocol (`Respects`) that site is unreachable too
(`C04_tb_no_panic_protocol`, `C04_tb_total_protocol`).

What is proved (`Lemmas/HtmlTBSafe*.lean`, ≈ 11 900 lines):
* **Layer A** — the invariant `TI s = HInv s ∧ SInv s.mode s` (`HtmlTBSafeInsert`, `HtmlTBSafeInv`):
  every handle the builder holds is an element of the sink with a name that never changes
  (`apply_ext`: every successful sink call, inside the `TreeSink` contract or not, extends the
  arena); the stack of open elements is empty before the root exists and afterwards has an HTML
  `html` element at the bottom that is never popped; `Text`/`InTableText` ⇒ `orig_mode` is set;
  the per-mode stack requirements; #`template` elements ≤ #template insertion modes; … It holds
  initially (`C04_tb_inv_new`, `sat_newForFragment`) and is preserved by every rule
  (`C04_tb_no_panic_step`), by `process_token` and by any token list.
* **Layer B** — `C04_tb_no_panic_step`, `C04_tb_no_panic_token`, `C04_tb_no_panic` (documents),
  `C04_tb_no_panic_fragment`, `C04_tb_no_panic_protocol(_fragment)`: the only possible failures are
  `Benign` (below), none of which is a panic site (`C04_tb_benign_not_panic`,
  `C04_tb_protocol_not_text`).
* **Layer C (part)** — every *query* sink call (`elem_name`, `same_node`, `get_template_contents`,
  `is_mathml_annotation_xml_integration_point`, `add_attrs_if_missing`, and the total ones) succeeds
  on the DOM model, i.e. is made with handles of the right kind; NOT proved: that the
  tree-*mutating* calls (`append`, `append_based_on_parent_node`, `append_doctype_to_document`,
  `remove_from_parent`, `reparent_children`, `maybe_clone_an_option_into_selectedcontent`) are
  inside the contract — a failure of the DOM model in one of them is `Benign.sinkMut`.
* **Layer D (part)** — the fuel of every helper loop (`generate_implied_end_tags`,
  `pop_until_current`, `pop_until`, `reconstruct_active_formatting_elements`,
  `unexpected_start_tag_in_foreign_content`) suffices; NOT proved: the fuel of
  `process_to_completion` (`ptcFuel`) — `Benign.ptcFuel`.

`Benign` is parameterised by an `Allow` instance saying which of the two context-dependent failures
(Text-mode `unreachable!`, `process_to_completion` fuel) are tolerated; all lemmas are generic in it.
-/
namespace H5V.Props.C04TB
open H5V.Model.HtmlTB H5V.Lemmas.TBSafe
open H5V.Model.Dom (Id Dom)

/-! ### the rules (generic in the allowance) -/
section rules
variable {al : Allow}

theorem endTagSpec : EndTagSpec := fun _ _ hi hr hn => sat_processEndTagInBody hi hr hn

theorem agencySpec : AgencySpec := fun _ _ hi hr hs =>
  (sat_adoptionAgency hi hr hs).mono (fun _ _ h => ⟨h.fr, h.hinv, h.rooted, h.news, h.keeps, h.tcnt⟩)

theorem misnestedSpec : MisnestedSpec := fun _ hi hr =>
  (sat_handleMisnestedATags hi hr).mono (fun _ _ h => ⟨h.fr, h.hinv, h.rooted, h.news, h.keeps, h.tcnt⟩)

theorem headSpec : HeadSpec := stepInHead_spec

theorem bodySpec : BodySpec :=
  stepInBody_spec headSpec inTemplateEof_spec endTagSpec agencySpec misnestedSpec

theorem tableSpec : TableSpec := stepInTable_spec headSpec bodySpec

/-- **every rule re-establishes the invariant and never reaches a panic site** (in Text mode: if
the `unreachable!` is tolerated or the token is one the mode handles) -/
theorem allSpec : AllSpec := by
  intro tok s ht hprot
  cases hm : s.mode <;> simp only [step]
  · exact stepInitial_spec tok s ht hm
  · exact stepBeforeHtml_spec tok s ht hm
  · exact stepBeforeHead_spec tok s ht hm
  · exact headSpec tok s ht (by rw [hm]; rfl) (Or.inl hm)
  · exact stepInHeadNoscript_spec headSpec tok s ht hm
  · exact stepAfterHead_spec headSpec afterHeadBlock_spec tok s ht hm
  · exact (bodySpec tok s ht (by rw [hm]; rfl) (by rw [hm]; decide) (fun h => by rw [hm] at h; cases h)
      (fun h => by rw [hm] at h; cases h)).mono (fun _ _ h => h.1)
  · exact stepText_spec tok s ht hm (hprot hm)
  · exact tableSpec tok s ht (by rw [hm]; rfl)
  · exact stepInTableText_spec bodySpec tok s ht hm
  · exact stepInCaption_spec bodySpec tok s ht hm
  · exact stepInColumnGroup_spec headSpec bodySpec tok s ht hm
  · exact stepInTableBody_spec tableSpec tok s ht hm
  · exact stepInRow_spec tableSpec tok s ht hm
  · exact stepInCell_spec bodySpec tok s ht hm
  · exact stepInTemplate_spec headSpec bodySpec inTemplateEof_spec tok s ht hm
  · exact stepAfterBody_spec bodySpec tok s ht hm
  · exact stepInFrameset_spec headSpec tok s ht hm
  · exact stepAfterFrameset_spec headSpec tok s ht hm
  · exact stepAfterAfterBody_spec bodySpec tok s ht hm
  · exact stepAfterAfterFrameset_spec headSpec bodySpec tok s ht hm

/-- unfolding of `Sat` -/
theorem sat_iff {α : Type} {m : M α} {s : State} {Q : α → State → Prop} :
    Sat m s Q ↔ (∀ a s', m.run s = .ok (a, s') → Q a s') ∧ (∀ e, m.run s = .error e → Benign e) := by
  unfold Sat
  show (match m s with | .ok (a, s') => Q a s' | .error e => Benign e) ↔
    (∀ a s', m s = .ok (a, s') → Q a s') ∧ (∀ e, m s = .error e → Benign e)
  cases h : m s with
  | error e =>
    constructor
    · intro hb
      refine ⟨?_, ?_⟩
      · intro a s' h'; cases h'
      · intro e' h'; cases h'; exact hb
    · intro hb; exact hb.2 e rfl
  | ok r =>
    obtain ⟨a, s'⟩ := r
    constructor
    · intro hq
      refine ⟨?_, ?_⟩
      · intro a' s'' h'; cases h'; exact hq
      · intro e' h'; cases h'
    · intro hq; exact hq.1 a s' rfl

/-- **Layer B, one rule**: under the invariant, `step mode token` either fails benignly or returns a
result with which the invariant holds again (for the mode `process_to_completion` will set) -/
theorem C04_tb_no_panic_step (s : State) (tok : Token) (ht : TI s)
    (hprot : s.mode = .text → al.text ∨ textTok tok = true) :
    (∀ res s', (step s.mode tok).run s = .ok (res, s') → StepPost tok res s') ∧
    (∀ e, (step s.mode tok).run s = .error e → Benign e) :=
  sat_iff.mp (allSpec tok s ht hprot)

/-- **Layer B, one token**: `process_token` preserves the invariant and fails at most benignly -/
theorem C04_tb_no_panic_token (hfuel : al.fuel) (s : State) (tok : TokToken) (line : Nat) (ht : TI s)
    (hprot : s.mode = .text → al.text ∨ okTextTok tok = true) :
    (∀ r s', (processToken tok line).run s = .ok (r, s') → TI s') ∧
    (∀ e, (processToken tok line).run s = .error e → Benign e) :=
  sat_iff.mp (sat_processToken allSpec hfuel ht hprot)

/-- any token list -/
theorem C04_tb_no_panic_tokens (hfuel : al.fuel) (s : State) (toks : List (TokToken × Nat))
    (acc : List SinkResult) (ht : TI s) (hresp : al.text ∨ Respects s toks) :
    (∀ r s', (processTokens toks acc).run s = .ok (r, s') → TI s') ∧
    (∀ e, (processTokens toks acc).run s = .error e → Benign e) :=
  sat_iff.mp (sat_processTokens allSpec hfuel toks acc s ht hresp)

/-- the tokens and `end`, from a state satisfying the invariant -/
def parseRest (toks : List (TokToken × Nat)) : M (List SinkResult) := do
  let r ← processTokens toks []
  finishTB
  pure r

theorem sat_parseRest (hfuel : al.fuel) (toks : List (TokToken × Nat)) {s : State} (ht : TI s)
    (hresp : al.text ∨ Respects s toks) : Sat (parseRest toks) s (fun _ _ => True) := by
  unfold parseRest
  refine (sat_processTokens allSpec hfuel toks [] s ht hresp).bind ?_
  intro r s2 _
  refine sat_finishTB.bind ?_
  intro _ s3 _
  exact sat_pure trivial

/-- **the benign failures are not panic sites**: none of the messages of the `panicAt` sites
(`tbPanicMessages`, which lists all of them except the Text-mode `unreachable!`), of the helper-loop
fuels or of the "wrong sink answer" sites -/
theorem C04_tb_benign_not_panic {e : String} (h : Benign e) :
    e ∉ tbPanicMessages ∧ e ∉ tbFuelMessages ∧ e ∉ tbModelMessages := benign_not_listed h

/-- what a benign failure is -/
theorem C04_tb_benign_cases {e : String} (h : Benign e) :
    (∃ (d : Dom) (op : H5V.Model.Dom.SinkOp) (x : String), d.apply op = .error x ∧ MutOp op ∧
        e = errClass x ++ "@sink: " ++ x) ∨
    (e = ptcFuelMsg ∧ al.fuel) ∨ (e = textProtoMsg ∧ al.text) ∨
    (∃ m, e = "meta-extract@encoding.rs: " ++ m) ∨
    e = "subtendril-utf8@encoding.rs: subtendril is not valid UTF-8" := by
  cases h with
  | sinkMut d op x h1 h2 => exact Or.inl ⟨d, op, x, h1, h2, rfl⟩
  | ptcFuel ha => exact Or.inr (Or.inl ⟨rfl, ha⟩)
  | textProto ha => exact Or.inr (Or.inr (Or.inl ⟨rfl, ha⟩))
  | metaExtract m => exact Or.inr (Or.inr (Or.inr (Or.inl ⟨m, rfl⟩)))
  | metaUtf8 => exact Or.inr (Or.inr (Or.inr (Or.inr rfl)))

end rules

/-! ### the two allowances -/

/-- both context-dependent failures tolerated: arbitrary token sequences -/
@[reducible] def allowAll : Allow := ⟨True, True⟩
/-- the Text-mode `unreachable!` not tolerated: token sequences that keep the tokenizer protocol -/
@[reducible] def allowFuel : Allow := ⟨False, True⟩

/-- the failures not excluded for arbitrary token sequences -/
abbrev BenignAny (e : String) : Prop := @Benign allowAll e
/-- the failures not excluded for token sequences that keep the tokenizer protocol -/
abbrev BenignProto (e : String) : Prop := @Benign allowFuel e

theorem C04_tb_protocol_not_text {e : String} (h : BenignProto e) : e ≠ textProtoMsg :=
  @benign_ne_textProto allowFuel (fun h => h) e h

/-! ### a decision procedure for `Respects` on concrete token lists -/

/-- run the model and check the protocol along the way -/
def respectsB : State → List (TokToken × Nat) → Bool
  | _, [] => true
  | s, (t, line) :: rest =>
    (s.mode != .text || okTextTok t) &&
    match (processToken t line).run s with
    | .ok (_, s') => respectsB s' rest
    | .error _ => true

theorem respects_of_respectsB : ∀ (toks : List (TokToken × Nat)) (s : State),
    respectsB s toks = true → Respects s toks := by
  intro toks
  induction toks with
  | nil => intro s _; trivial
  | cons t rest ih =>
    intro s h
    obtain ⟨tk, line⟩ := t
    simp only [respectsB, Bool.and_eq_true, Bool.or_eq_true, bne_iff_ne, ne_eq] at h
    refine ⟨fun hm => ?_, fun r s' hr => ?_⟩
    · rcases h.1 with h1 | h1
      · exact absurd hm h1
      · exact h1
    · have h2 := h.2
      rw [hr] at h2
      exact ih s' h2

/-! ### documents -/

theorem endLoop_total : ∀ (l : List Id) (s : State), ∃ s', (endLoop l).run s = .ok ((), s') := by
  intro l
  induction l with
  | nil => intro s; exact ⟨s, rfl⟩
  | cons e rest ih =>
    intro s
    obtain ⟨s', h⟩ := ih { s with traceRev := (.pop e, .unit) :: s.traceRev }
    exact ⟨s', h⟩

/-- `TreeSink::end` is total from every state (it only tells the sink to pop the open elements) -/
theorem C04_tb_end_total (s : State) : ∃ s', finishTB.run s = .ok ((), s') := endLoop_total _ _

/-- the builder state after `TreeBuilder::new` -/
def docStart (opts : Opts) : State :=
  { State.init opts with docHandle := 0, traceRev := [(.getDocument, .node 0)] }

theorem newTB_run (opts : Opts) : newTB.run (State.init opts) = .ok ((), docStart opts) := rfl

/-- the invariant holds after `TreeBuilder::new` -/
theorem C04_tb_inv_new (opts : Opts) : TI (docStart opts) :=
  ((@sat_iff allowAll _ _ _ _).mp (@sat_newTB allowAll _ (fresh_init opts))).1 _ _ (newTB_run opts)

/-- a whole document parse: `new`, any tokens, `end` -/
def parseDocument (toks : List (TokToken × Nat)) : M (List SinkResult) := do
  newTB
  parseRest toks

theorem parseDocument_run (opts : Opts) (toks : List (TokToken × Nat)) :
    (parseDocument toks).run (State.init opts) = (parseRest toks).run (docStart opts) := rfl

/-- **C04 (tree builder), documents**: for every option set and every token sequence, parsing a
document fails at most benignly -/
theorem C04_tb_no_panic (opts : Opts) (toks : List (TokToken × Nat)) (e : String)
    (h : (parseDocument toks).run (State.init opts) = .error e) : BenignAny e := by
  rw [parseDocument_run] at h
  exact ((@sat_iff allowAll _ _ _ _).mp
    (@sat_parseRest allowAll trivial toks _ (C04_tb_inv_new opts) (Or.inl trivial))).2 e h

/-- **… and for token sequences that keep the tokenizer protocol the Text-mode `unreachable!` is
excluded as well** -/
theorem C04_tb_no_panic_protocol (opts : Opts) (toks : List (TokToken × Nat))
    (hresp : Respects (docStart opts) toks) (e : String)
    (h : (parseDocument toks).run (State.init opts) = .error e) : BenignProto e := by
  rw [parseDocument_run] at h
  exact ((@sat_iff allowFuel _ _ _ _).mp
    (@sat_parseRest allowFuel trivial toks _ (C04_tb_inv_new opts) (Or.inr hresp))).2 e h

/-! ### fragments -/

/-- a whole fragment parse: `new_for_fragment`, any tokens, `end` -/
def parseFragment (ctx : Id) (form : Option Id) (toks : List (TokToken × Nat)) : M (List SinkResult) := do
  newForFragment ctx form
  parseRest toks

/-- the start state of a fragment parse: a fresh builder on an arbitrary sink `d` -/
def fragInit (opts : Opts) (d : Dom) : State := { State.init opts with dom := d }

/-- **C04 (tree builder), fragments**: any sink `d`, any context element of `d`, no form pointer or
an HTML `form` element of `d`, any token sequence -/
theorem C04_tb_no_panic_fragment (opts : Opts) (d : Dom) (ctx : Id) (form : Option Id)
    (toks : List (TokToken × Nat)) (hctx : IsEl d ctx)
    (hform : ∀ f, form = some f → IsEl d f ∧ nm d f = formName) (e : String)
    (h : (parseFragment ctx form toks).run (fragInit opts d) = .error e) : BenignAny e := by
  have hs : @Sat allowAll _ (parseFragment ctx form toks) (fragInit opts d) (fun _ _ => True) := by
    unfold parseFragment
    refine (@sat_newForFragment allowAll _ _ _ (fresh_init_dom opts d) hctx hform).bind ?_
    intro _ s1 ht1
    exact @sat_parseRest allowAll trivial toks _ ht1 (Or.inl trivial)
  exact ((@sat_iff allowAll _ _ _ _).mp hs).2 e h

/-- the same for token sequences that keep the protocol from the state `new_for_fragment` leaves -/
theorem C04_tb_no_panic_protocol_fragment (opts : Opts) (d : Dom) (ctx : Id) (form : Option Id)
    (toks : List (TokToken × Nat)) (hctx : IsEl d ctx)
    (hform : ∀ f, form = some f → IsEl d f ∧ nm d f = formName)
    (hresp : ∀ s1, (newForFragment ctx form).run (fragInit opts d) = .ok ((), s1) → Respects s1 toks)
    (e : String) (h : (parseFragment ctx form toks).run (fragInit opts d) = .error e) : BenignProto e := by
  have hs : @Sat allowFuel _ (parseFragment ctx form toks) (fragInit opts d) (fun _ _ => True) := by
    unfold parseFragment
    refine (sat_with_run (@sat_newForFragment allowFuel _ _ _ (fresh_init_dom opts d) hctx hform)).bind ?_
    rintro u s1 ⟨ht1, hrun⟩
    exact @sat_parseRest allowFuel trivial toks _ ht1 (Or.inr (hresp s1 hrun))
  exact ((@sat_iff allowFuel _ _ _ _).mp hs).2 e h

/-! ### headline -/

/-- no document parse ends in one of the listed panic / helper-fuel / model messages … -/
theorem C04_tb_total (opts : Opts) (toks : List (TokToken × Nat)) :
    ∀ e ∈ tbPanicMessages ++ tbFuelMessages ++ tbModelMessages,
      (parseDocument toks).run (State.init opts) ≠ .error e := by
  intro e he h
  have hb := @C04_tb_benign_not_panic allowAll e (C04_tb_no_panic opts toks e h)
  rcases List.mem_append.mp he with he | he
  · rcases List.mem_append.mp he with he | he
    · exact hb.1 he
    · exact hb.2.1 he
  · exact hb.2.2 he

/-- … and with a token source that keeps the tokenizer protocol not in the Text-mode
`unreachable!` either: **no panic site of the tree builder at all** -/
theorem C04_tb_total_protocol (opts : Opts) (toks : List (TokToken × Nat))
    (hresp : Respects (docStart opts) toks) :
    ∀ e ∈ textProtoMsg :: (tbPanicMessages ++ tbFuelMessages ++ tbModelMessages),
      (parseDocument toks).run (State.init opts) ≠ .error e := by
  intro e he h
  have hbp := C04_tb_no_panic_protocol opts toks hresp e h
  rcases List.mem_cons.mp he with he | he
  · exact C04_tb_protocol_not_text hbp he
  · have hb := @C04_tb_benign_not_panic allowFuel e hbp
    rcases List.mem_append.mp he with he | he
    · rcases List.mem_append.mp he with he | he
      · exact hb.1 he
      · exact hb.2.1 he
    · exact hb.2.2 he

/-! ### non-vacuity -/

def st (n : String) : TokToken × Nat := (.tag { kind := .startTag, name := n.toList }, 1)
def et (n : String) : TokToken × Nat := (.tag { kind := .endTag, name := n.toList }, 1)
def ch (s : String) : TokToken × Nat := (.chars s.toList, 1)

def errOf {α : Type} (r : Except String α) : Option String :=
  match r with | .error e => some e | .ok _ => none

/-- a run through foster parenting, the adoption agency and table modes ends without any failure -/
example : errOf ((parseDocument [st "html", st "table", st "b", ch "x", st "td", et "b", st "p", et "table",
    ch "y", (.eof, 1)]).run (State.init {})) = none := by decide +kernel

/-- the Text-mode `unreachable!` IS reachable by a token source that ignores the tokenizer protocol:
`<title>` followed by a comment token -/
example : errOf ((parseDocument [st "title", (.comment [], 1)]).run (State.init {})) = some textProtoMsg := by
  decide +kernel

/-- a token list that passes through Text mode and keeps the protocol (`<title>x</title><p>y`) … -/
example : Respects (docStart {}) [st "title", ch "x", et "title", st "p", ch "y", (.eof, 1)] :=
  respects_of_respectsB _ _ (by decide +kernel)

/-- … and one that does not (`<title>` then a comment) -/
example : respectsB (docStart {}) [st "title", (.comment [], 1)] = false := by decide +kernel

/-- a sink that already holds a `td` element (id 1), used as fragment context element -/
def fragDom : Dom := (Dom.new.createElement { ns := nsHtml, loc := "td".toList } [] {}).1

theorem fragDom_ctx : IsEl fragDom 1 := ⟨_, rfl⟩

/-- the hypotheses of the fragment theorem are satisfiable -/
example (toks : List (TokToken × Nat)) (e : String)
    (h : (parseFragment 1 none toks).run (fragInit {} fragDom) = .error e) : BenignAny e :=
  C04_tb_no_panic_fragment {} fragDom 1 none toks fragDom_ctx (fun f hf => by cases hf) e h

/-- a fragment run (context `td`; table rows, foreign content, a stray `</td>`) ends without failure -/
example : errOf ((parseFragment 1 none [st "tr", st "td", st "svg", st "b", et "td", ch "x", (.eof, 1)]).run
    (fragInit {} fragDom)) = none := by decide +kernel

/-- the invariant is satisfiable: it holds in the state after `TreeBuilder::new` -/
example : ∃ s, TI s := ⟨_, C04_tb_inv_new {}⟩

end H5V.Props.C04TB

#print axioms H5V.Props.C04TB.allSpec
#print axioms H5V.Props.C04TB.C04_tb_no_panic_step
#print axioms H5V.Props.C04TB.C04_tb_no_panic_token
#print axioms H5V.Props.C04TB.C04_tb_no_panic_tokens
#print axioms H5V.Props.C04TB.C04_tb_end_total
#print axioms H5V.Props.C04TB.C04_tb_inv_new
#print axioms H5V.Props.C04TB.C04_tb_no_panic
#print axioms H5V.Props.C04TB.C04_tb_no_panic_protocol
#print axioms H5V.Props.C04TB.C04_tb_no_panic_fragment
#print axioms H5V.Props.C04TB.C04_tb_no_panic_protocol_fragment
#print axioms H5V.Props.C04TB.C04_tb_benign_not_panic
#print axioms H5V.Props.C04TB.C04_tb_benign_cases
#print axioms H5V.Props.C04TB.C04_tb_protocol_not_text
#print axioms H5V.Props.C04TB.C04_tb_total
#print axioms H5V.Props.C04TB.C04_tb_total_protocol
#print axioms H5V.Props.C04TB.respects_of_respectsB
#print axioms H5V.Lemmas.TBSafe.apply_ext
#print axioms H5V.Lemmas.TBSafe.sat_newForFragment
