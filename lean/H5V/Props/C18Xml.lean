import H5V.Lemmas.XmlTBHReach
import H5V.Props.C18Reach
/-!
C18 — `trace_handles` reports every node still needed: the XML tree builder, on the handle-level
model `H5V.Model.XmlTBH` (same sink calls in the same order as `xml5ever/src/tree_builder/mod.rs`;
the `xmltb<TAB>trace` correspondence compares, after every token, `held` of the model with what
`XmlTreeBuilder::trace_handles` reports on the real code: `@H=` field).

* `XmlTBH.held s` — `doc_handle`, every entry of `open_elems` (in `Vec` order), `curr_elem`: the
  handles `trace_handles` reports (mod.rs:220), in reporting order;
* `opArgs op` / `outRets out` / `rets calls` / `ArgsOK K calls` — as for the HTML builder
  (`H5V.Lemmas.HtmlTBReachBase`): the handles a `TreeSink` call is given / gives back
  (`get_document`, `create_element`, `create_comment`, `create_pi` give one back), "every handle given
  to the sink in `calls` is in `K` or was given back by an earlier call of `calls`".

Proved for **every** state `s` (no invariant, no hypothesis on the tokens, both configurations of the
namespace filter):

* `C18_xml_process_token` — B1 + B2 + the `Script` answer at once; `C18_xml_args_from_held` (B1): every
  handle `process_token` passes to the sink is in `held s` or was returned by an earlier sink call of
  the same `process_token`; `C18_xml_held_preserved` (B2): what is held afterwards was held before or
  was returned by the sink during the call;
* `C18_xml_end` — the same for `end()`; `C18_xml_new` — `XmlTreeBuilder::new` passes no handle at all and
  holds afterwards only what the sink returned (`get_document`);
* `C18_xml_suspension` (B3): for any split `toks = pre ++ post`, every handle passed to the sink while
  `post` is processed is in `held` of the state after `pre` — reported by `trace_handles` at that
  suspension point — or was returned by the sink while `post` was processed; `C18_xml_suspension_end`:
  the same including the final `end()`.

The statements are partial-correctness statements ("if the run returns normally"); that it always does
— no panic site is reached — is `C05_xml_contract` / `C05_xml_process_token` (`H5V.Props.C05Xml`).
-/
namespace H5V.Props.C18
open H5V.Model.Dom (Id SinkOp Output Dom NodeOrText)
open H5V.Model.XmlTB (TbCfg Token)

/-- `trace_handles` of the XML tree builder -/
abbrev xheld (s : H5V.Model.XmlTBH.State) : List Id := H5V.Model.XmlTBH.held s

open H5V.Model.XmlTBH
open H5V.Lemmas.XmlTBH (bind_ok)

/-- what `PV` gives for a closed computation started in `s`, with "known" = "held by `s`" -/
theorem xml_pv_run {α : Type} {m : M α} {R : α → List Id} (h : H5V.Lemmas.XmlTBH.PV [] m R) {s s' : State} {a : α}
    (e : m.run s = .ok (a, s')) :
    ∃ calls, s'.traceRev = calls ++ s.traceRev ∧ ArgsOK (· ∈ xheld s) calls ∧
      (∀ x ∈ xheld s', x ∈ xheld s ∨ x ∈ rets calls) ∧ (∀ x ∈ R a, x ∈ xheld s ∨ x ∈ rets calls) :=
  ((h.h s).h (· ∈ xheld s) a s' e (fun _ hx => hx) (fun _ hx => nomatch hx)).ex

/-! ## one token -/

/-- **`process_token`, everything at once** -/
theorem C18_xml_process_token {cfg : TbCfg} {inp : Input} {s s' : State} {r : PResult}
    (e : (processToken cfg inp).run s = .ok (r, s')) :
    ∃ calls, s'.traceRev = calls ++ s.traceRev ∧
      -- B1: arguments come from the held handles or from earlier answers of the sink
      ArgsOK (· ∈ xheld s) calls ∧
      -- B2: nothing is held afterwards that was not held or returned by the sink
      (∀ x ∈ xheld s', x ∈ xheld s ∨ x ∈ rets calls) ∧
      -- the node handed back with `Script`
      (∀ n, r = .script n → n ∈ xheld s ∨ n ∈ rets calls) := by
  obtain ⟨calls, t, a, k, rr⟩ := xml_pv_run (H5V.Lemmas.XmlTBH.pv_processToken (c := []) cfg inp) e
  refine ⟨calls, t, a, k, ?_⟩
  rintro n rfl
  exact rr n (by simp [H5V.Lemmas.XmlTBH.resH])

/-- **B1**: every handle that occurs as an argument of a sink call made while a token is processed is
among the handles `trace_handles` reports before the call of `process_token`, or was returned by an
earlier sink call of the same `process_token` -/
theorem C18_xml_args_from_held {cfg : TbCfg} {inp : Input} {s s' : State} {r : PResult}
    (e : (processToken cfg inp).run s = .ok (r, s')) :
    ∃ calls, s'.traceRev = calls ++ s.traceRev ∧
      ∀ later op out earlier, calls = later ++ (op, out) :: earlier →
        ∀ h ∈ opArgs op, h ∈ xheld s ∨ h ∈ rets earlier := by
  obtain ⟨calls, t, a, _, _⟩ := C18_xml_process_token e
  exact ⟨calls, t, ArgsOK_iff.mp a⟩

/-- **B2**: the handles held after `process_token` were held before or were returned by a sink call of
this `process_token` -/
theorem C18_xml_held_preserved {cfg : TbCfg} {inp : Input} {s s' : State} {r : PResult}
    (e : (processToken cfg inp).run s = .ok (r, s')) :
    ∃ calls, s'.traceRev = calls ++ s.traceRev ∧ ∀ x ∈ xheld s', x ∈ xheld s ∨ x ∈ rets calls := by
  obtain ⟨calls, t, _, k, _⟩ := C18_xml_process_token e
  exact ⟨calls, t, k⟩

/-- `TokenSink::end` pops what is still open: held handles only; afterwards it holds a subset -/
theorem C18_xml_end {s s' : State} (e : finish.run s = .ok ((), s')) :
    ∃ calls, s'.traceRev = calls ++ s.traceRev ∧ ArgsOK (· ∈ xheld s) calls ∧
      (∀ x ∈ xheld s', x ∈ xheld s ∨ x ∈ rets calls) := by
  obtain ⟨calls, t, a, k, _⟩ := xml_pv_run (H5V.Lemmas.XmlTBH.pv_finish (c := [])) e
  exact ⟨calls, t, a, k⟩

/-- `XmlTreeBuilder::new`: no handle is passed; the only handle held afterwards that was not held
before is the document the sink returned -/
theorem C18_xml_new {s s' : State} (e : newTB.run s = .ok ((), s')) :
    ∃ calls, s'.traceRev = calls ++ s.traceRev ∧ ArgsOK (· ∈ xheld s) calls ∧
      (∀ x ∈ xheld s', x ∈ xheld s ∨ x ∈ rets calls) := by
  obtain ⟨calls, t, a, k, _⟩ := xml_pv_run (H5V.Lemmas.XmlTBH.pv_newTB (c := [])) e
  exact ⟨calls, t, a, k⟩

/-! ## token lists and suspension points -/

theorem xml_processTokens_cons (cfg : TbCfg) (t : Input) (rest : List Input) :
    processTokens cfg (t :: rest) = (processToken cfg t >>= fun _ => processTokens cfg rest) := rfl

theorem xml_processTokens_append (cfg : TbCfg) : ∀ (pre post : List Input),
    processTokens cfg (pre ++ post) = (processTokens cfg pre >>= fun _ => processTokens cfg post)
  | [], post => by
    show processTokens cfg post = (pure () >>= fun _ => processTokens cfg post)
    rw [pure_bind]
  | t :: rest, post => by
    rw [List.cons_append, xml_processTokens_cons, xml_processTokens_cons, bind_assoc]
    congr 1
    funext _
    exact xml_processTokens_append cfg rest post

/-- **B3 — the property for the model.**  Split a token list anywhere (the suspension point: a script
pause, the end of a chunk).  Every handle passed to the sink while the rest is processed is held by
the builder at the suspension point — so `trace_handles` reports it — or was returned by the sink
after that point; and the builder holds nothing else afterwards. -/
theorem C18_xml_suspension {cfg : TbCfg} {pre post : List Input} {s0 s2 : State}
    (e : (processTokens cfg (pre ++ post)).run s0 = .ok ((), s2)) :
    ∃ s1, (processTokens cfg pre).run s0 = .ok ((), s1) ∧ (processTokens cfg post).run s1 = .ok ((), s2) ∧
      ∃ calls, s2.traceRev = calls ++ s1.traceRev ∧
        (∀ later op out earlier, calls = later ++ (op, out) :: earlier →
          ∀ h ∈ opArgs op, h ∈ xheld s1 ∨ h ∈ rets earlier) ∧
        (∀ x ∈ xheld s2, x ∈ xheld s1 ∨ x ∈ rets calls) := by
  have e' : processTokens cfg (pre ++ post) s0 = .ok ((), s2) := e
  rw [xml_processTokens_append] at e'
  obtain ⟨_, s1, e1, e2⟩ := bind_ok.mp e'
  obtain ⟨calls, t, a, k, _⟩ := xml_pv_run (H5V.Lemmas.XmlTBH.pv_processTokens (c := []) cfg post) e2
  exact ⟨s1, e1, e2, calls, t, ArgsOK_iff.mp a, k⟩

/-- … including the final `TokenSink::end` -/
theorem C18_xml_suspension_end {cfg : TbCfg} {pre post : List Input} {s0 s2 s3 : State}
    (e : (processTokens cfg (pre ++ post)).run s0 = .ok ((), s2)) (ef : finish.run s2 = .ok ((), s3)) :
    ∃ s1, (processTokens cfg pre).run s0 = .ok ((), s1) ∧
      ∃ calls, s3.traceRev = calls ++ s1.traceRev ∧
        (∀ later op out earlier, calls = later ++ (op, out) :: earlier →
          ∀ h ∈ opArgs op, h ∈ xheld s1 ∨ h ∈ rets earlier) ∧
        (∀ x ∈ xheld s3, x ∈ xheld s1 ∨ x ∈ rets calls) := by
  have e' : processTokens cfg (pre ++ post) s0 = .ok ((), s2) := e
  rw [xml_processTokens_append] at e'
  obtain ⟨_, s1, e1, e2⟩ := bind_ok.mp e'
  have hpv : H5V.Lemmas.XmlTBH.PV [] (processTokens cfg post >>= fun _ => finish) H5V.Lemmas.XmlTBH.nil :=
    H5V.Lemmas.XmlTBH.PV.bind (H5V.Lemmas.XmlTBH.pv_processTokens cfg post) fun _ => H5V.Lemmas.XmlTBH.pv_finish
  have e3 : (processTokens cfg post >>= fun _ => finish) s1 = .ok ((), s3) := bind_ok.mpr ⟨(), s2, e2, ef⟩
  obtain ⟨calls, t, a, k, _⟩ := xml_pv_run hpv e3
  exact ⟨s1, e1, calls, t, ArgsOK_iff.mp a, k⟩

/-- the node of every `Script` answer is known as well (held at the call or returned during it) —
`C18_xml_process_token`, last clause; here for the record of a whole run: every handle ever held was
returned by the sink (nothing is conjured) -/
theorem C18_xml_all_from_sink {cfg : TbCfg} {toks : List Input} {s : State}
    (e : (newTB >>= fun _ => processTokens cfg toks).run State.init = .ok ((), s)) :
    ∀ x ∈ xheld s, x = 0 ∨ x ∈ rets s.traceRev := by
  have hpv : H5V.Lemmas.XmlTBH.PV [] (newTB >>= fun _ => processTokens cfg toks) H5V.Lemmas.XmlTBH.nil :=
    H5V.Lemmas.XmlTBH.PV.bind H5V.Lemmas.XmlTBH.pv_newTB fun _ => H5V.Lemmas.XmlTBH.pv_processTokens cfg toks
  obtain ⟨calls, t, _, k, _⟩ := xml_pv_run hpv e
  intro x hx
  rcases k x hx with h | h
  · left
    have h0 : xheld State.init = [0] := rfl
    rw [h0] at h
    simpa using h
  · right
    rw [t]
    show x ∈ rets (calls ++ [])
    rw [List.append_nil]; exact h

/-! ## non-vacuity: a concrete suspension point -/

section XmlExamples
open H5V.Model.XmlTB (TagKind RName RAttr)

def xtag (k : TagKind) (p : Option String) (l : String) (as : List RAttr) : Input :=
  .token (.tag ⟨k, ⟨p.map String.toList, l.toList⟩, as⟩)

/-- `<!DOCTYPE d><!--c--><r xmlns:p="urn:x" a="1"><p:e p:a="2">text` ‖
`<?pi d?><q/></x></p:e><!--in r--></r><!--after--> EOF`: the suspension point is inside two open
elements; what follows appends to the inner one, hits a stray end tag, closes both and appends to the
document -/
def xmlPre : List Input := [
  .token (.doctype (some "d".toList) none none),
  .token (.comment "c".toList),
  xtag .start none "r" [⟨⟨some "xmlns".toList, "p".toList⟩, "urn:x".toList⟩, ⟨⟨none, "a".toList⟩, "1".toList⟩],
  xtag .start (some "p") "e" [⟨⟨some "p".toList, "a".toList⟩, "2".toList⟩],
  .token (.chars "text".toList)]

def xmlPost : List Input := [
  .token (.pi "pi".toList "d".toList),
  xtag .empty none "q" [],
  xtag .end_ none "x" [],
  xtag .end_ (some "p") "e" [],
  .token (.comment "in r".toList),
  xtag .end_ none "r" [],
  .token (.comment "after".toList),
  .token .eof]

def xmlRunFrom (s : State) (toks : List Input) : Option State :=
  match (processTokens TbCfg.current toks).run s with
  | .ok (_, s') => some s'
  | .error _ => none

def xmlFresh : Option State :=
  match (newTB : M Unit).run State.init with
  | .ok (_, s) => some s
  | .error _ => none

/-- the state at the suspension point, the state at the end, the calls made in between (newest first) -/
def xmlS1 : Option State := xmlFresh.bind (xmlRunFrom · xmlPre)
def xmlS2 : Option State := xmlS1.bind (xmlRunFrom · xmlPost)
def xmlCallsBetween : List (SinkOp × Output) :=
  match xmlS1, xmlS2 with
  | some a, some b => b.traceRev.take (b.traceRev.length - a.traceRev.length)
  | _, _ => []

/-- one Boolean with all the facts about the run (ids are arena ids: the doctype is node 1, the
comment 2, `r` 3, `p:e` 4, the text 5) -/
def xmlCheck : Bool :=
  match xmlS1, xmlS2 with
  | some a, some b =>
    -- reported by `trace_handles` at the suspension point: document, `r`, `p:e`
    xheld a == [0, 3, 4] &&
    -- at the end: the document only
    xheld b == [0] &&
    -- the calls that follow; four of them create a node (pi 6, `q` 7, the two comments 8 and 9)
    xmlCallsBetween.length == 22 && rets xmlCallsBetween == [9, 8, 7, 6] &&
    b.traceRev == xmlCallsBetween ++ a.traceRev &&
    -- the statement of `C18_xml_suspension` on this run
    argsOkB (xheld a) xmlCallsBetween &&
    (xheld b).all (fun x => (xheld a).contains x || (rets xmlCallsBetween).contains x) &&
    -- it is not vacuous: each of the three reported handles is really needed afterwards
    !argsOkB ((xheld a).erase 0) xmlCallsBetween && !argsOkB ((xheld a).erase 3) xmlCallsBetween &&
    !argsOkB ((xheld a).erase 4) xmlCallsBetween &&
    -- and the freshly created nodes are used as arguments afterwards
    [6, 7, 8, 9].all (fun n => xmlCallsBetween.any (fun c => (opArgs c.1).contains n))
  | _, _ => false

theorem C18_xml_example : xmlCheck = true := by decide +kernel

/-- the hypothesis of `C18_xml_suspension` holds for the example: the run over `xmlPre ++ xmlPost` from
the state after `new` returns normally -/
example : (xmlFresh.bind (xmlRunFrom · (xmlPre ++ xmlPost))).isSome = true := by decide +kernel

end XmlExamples

end H5V.Props.C18

/-! ## axioms -/
#print axioms H5V.Props.C18.C18_xml_process_token
#print axioms H5V.Props.C18.C18_xml_args_from_held
#print axioms H5V.Props.C18.C18_xml_held_preserved
#print axioms H5V.Props.C18.C18_xml_end
#print axioms H5V.Props.C18.C18_xml_new
#print axioms H5V.Props.C18.C18_xml_suspension
#print axioms H5V.Props.C18.C18_xml_suspension_end
#print axioms H5V.Props.C18.C18_xml_all_from_sink
#print axioms H5V.Props.C18.C18_xml_example
