import H5V.Lemmas.XmlTBHContractFns
import H5V.Model.XmlTBHDriver
/-!
# C05 for the XML tree builder: every sink call of `XmlTreeBuilder` is within the TreeSink contract

Model: `H5V.Model.XmlTBH` — the handle-level model of `xml5ever/src/tree_builder/mod.rs`, which makes the
same `TreeSink` calls in the same order as the Rust (tied to the code by the `xmltb<TAB>trace`
correspondence: the literal call trace, the contract monitor's verdict and `trace_handles` after
every token are compared with the real `XmlTreeBuilder` driving a `TracingSink<RcDom>`).
Contract: `H5V.Model.Dom.contractOk` / `Contract` (the documented calling contract of `TreeSink`).

What is proved, for **both** configurations `cfg` of the namespace filter (`TbCfg.code` = the pinned
tree, `TbCfg.fixed` = /repo now) and **every** list of inputs (`tokenizer::Token`s including
`ParseError`) whose tag tokens satisfy `TagOk`:

* `C05_xml_contract` — `XmlTreeBuilder::new`, `process_token` for every input, `end()` run to the end:
  **no panic site of the builder is reached** (`expect("no current element")` ×5, the model's fuel),
  **no sink call fails**, and the recorded calls form a `C20.Run` from the empty arena: each call
  satisfies `Contract` in the arena in which it is made and returns normally; the final arena
  satisfies `C20.Inv`.  `C05_xml_each_call` spells the `Run` out call by call,
  `C05_xml_monitor_silent` says it in the monitor's terms (`C05.firstViolation … = none`), and
  `C05_xml_V_field` in the driver's: the `@V=` field of the `trace` output is computed from
  `whichViol`, which is empty exactly when `contractOk` holds (`whichViol_nil_iff`).
* stated for every reachable state via the invariant `XInv` (`Lemmas/XmlTBHContractFns.lean`):
  `C05_xml_new` (the state after `new` satisfies it), `C05_xml_process_token` (from any state
  satisfying it, `process_token` on any `InputOk` input returns normally, makes only calls within the
  contract — the `Run` is part of `XInv` — and re-establishes it), `C05_xml_end`; `XmlReach` /
  `C05_xml_reach_inv` package this as "every reachable state satisfies `XInv`".
  `XInv` = arena invariant + the calls so far are a contract-abiding run + `doc_handle` is the
  document node + every entry of `open_elems` is an element + (Start phase: nothing open, the
  document has no element child and, until a doctype was seen, no doctype child) + (Main phase:
  some element is open).

**The one hypothesis** — `TagOk cfg t` for every tag token `t`: no two *unprefixed* attributes of `t`
that are not namespace declarations have the same local name.  This is what the tree builder assumes
of its tokenizer (`finish_attribute` drops a second attribute with the same qualified name); the
builder itself only removes duplicates among *prefixed* attributes (`check_duplicate_attr`).
`C05_xml_witness_dup_attr` shows the hypothesis is needed: fed `<r x="1" x="2">` directly,
`create_element` is called with two attributes named `x` — outside the contract ("no attribute list
contains two attributes with the same qualified name").  Nothing else is assumed: stray end tags,
`ShortTag`, `NullCharacter`, tokens after EOF, a second doctype, text before the root, undeclared
prefixes, `xmlns` misuse are all covered.

Not covered here: that the model makes the same calls as the Rust (the `trace` correspondence), the
sink side (C20 / `H5V.Props.C05`: a call within the contract never panics RcDom).
-/
namespace H5V.Props.C05
open H5V.Model.Dom (Id SinkOp Output Dom NodeOrText Contract)
open H5V.Model.XmlTB (TbCfg Tag Token RAttr RName)
open H5V.Model.XmlTBH
open H5V.Lemmas.XmlTBH
open H5V.Props.C20 (Inv Run)

/-- the hypothesis on tag tokens (see the header) -/
abbrev XmlTagOk := @H5V.Lemmas.XmlTBH.TagOk
abbrev XmlInputOk := @H5V.Lemmas.XmlTBH.InputOk
/-- the builder's invariant -/
abbrev XmlInv := @H5V.Lemmas.XmlTBH.XInv

/-- the sink calls made so far, oldest first -/
abbrev xmlCalls (s : State) : List SinkOp := H5V.Lemmas.XmlTBH.calls s

/-! ## the invariant, step by step -/

/-- `XmlTreeBuilder::new` returns normally and establishes the invariant -/
theorem C05_xml_new : ∃ s, newTB.run State.init = .ok ((), s) ∧ XmlInv s := by
  obtain ⟨_, s, e, h⟩ := sat_newTB
  exact ⟨s, e, h⟩

/-- **`process_token` from any state satisfying the invariant**: no panic, no sink failure, every call
within the contract (`XmlInv s'` contains `Run Dom.new (xmlCalls s') s'.dom`), invariant re-established -/
theorem C05_xml_process_token (cfg : TbCfg) {s : State} (hs : XmlInv s) (inp : Input) (hok : XmlInputOk cfg inp) :
    ∃ r s', (processToken cfg inp).run s = .ok (r, s') ∧ XmlInv s' := by
  obtain ⟨r, s', e, h⟩ := sat_processToken cfg hs inp hok
  exact ⟨r, s', e, h⟩

/-- **`end()` from any state satisfying the invariant** -/
theorem C05_xml_end {s : State} (hs : XmlInv s) :
    ∃ s', finish.run s = .ok ((), s') ∧ Inv s'.dom ∧ Run Dom.new (xmlCalls s') s'.dom ∧ s'.opened = [] := by
  obtain ⟨_, s', e, hg, ho⟩ := sat_finish hs.good
  exact ⟨s', e, hg.inv, hg.run, ho⟩

/-- the states the builder can be in between two calls: after `new`, after each `process_token` -/
inductive XmlReach (cfg : TbCfg) : State → Prop
  | new {s : State} : newTB.run State.init = .ok ((), s) → XmlReach cfg s
  | token {s s' : State} {inp : Input} {r : PResult} : XmlReach cfg s → XmlInputOk cfg inp →
      (processToken cfg inp).run s = .ok (r, s') → XmlReach cfg s'

/-- every reachable state satisfies the invariant -/
theorem C05_xml_reach_inv {cfg : TbCfg} {s : State} (h : XmlReach cfg s) : XmlInv s := by
  induction h with
  | new e => exact sat_newTB.ok e
  | token _ hok e ih => exact (sat_processToken cfg ih _ hok).ok e

/-- in every reachable state the calls made so far are a contract-abiding run, and the next
`process_token` / `end()` cannot panic -/
theorem C05_xml_reach {cfg : TbCfg} {s : State} (h : XmlReach cfg s) :
    Run Dom.new (xmlCalls s) s.dom ∧
    (∀ inp, XmlInputOk cfg inp → ∃ r s', (processToken cfg inp).run s = .ok (r, s')) ∧
    (∃ s', finish.run s = .ok ((), s')) := by
  have hx := C05_xml_reach_inv h
  refine ⟨hx.good.run, fun inp hok => ?_, ?_⟩
  · obtain ⟨r, s', e, _⟩ := C05_xml_process_token cfg hx inp hok
    exact ⟨r, s', e⟩
  · obtain ⟨s', e, _⟩ := C05_xml_end hx
    exact ⟨s', e⟩

/-! ## whole runs -/

/-- **C05 (XML tree builder).**  `new`, the inputs, `end()`: the run returns normally (no panic site,
no sink failure), its calls are a contract-abiding run from the empty arena, the final arena
satisfies the arena invariant. -/
theorem C05_xml_contract (cfg : TbCfg) (toks : List Input) (hok : ∀ t ∈ toks, XmlInputOk cfg t) :
    ∃ s', (parseAll cfg toks).run State.init = .ok ((), s') ∧ Inv s'.dom ∧
      Run Dom.new (xmlCalls s') s'.dom := by
  obtain ⟨_, s', e, hg, _⟩ := sat_parseAll cfg toks hok
  exact ⟨s', e, hg.inv, hg.run⟩

/-- a `Run`, call by call: each call satisfies the contract in the arena reached by the calls before it -/
theorem xml_run_contract {d d' : Dom} {ops : List SinkOp} (h : Run d ops d') :
    ∀ pre op post, ops = pre ++ op :: post → ∃ d1, Run d pre d1 ∧ Contract d1 op ∧
      ∃ d2 out, d1.apply op = .ok (d2, out) := by
  induction h with
  | nil => intro pre op post e; cases pre <;> cases e
  | cons hc ha _ ih =>
    intro pre op post e
    cases pre with
    | nil => cases e; exact ⟨_, Run.nil, hc, _, _, ha⟩
    | cons p pre' =>
      cases e
      obtain ⟨d1, h1, h2⟩ := ih pre' op post rfl
      exact ⟨d1, Run.cons hc ha h1, h2⟩

/-- every single call of a whole run is within the contract in the arena in which it is made, and
returns normally -/
theorem C05_xml_each_call (cfg : TbCfg) (toks : List Input) (hok : ∀ t ∈ toks, XmlInputOk cfg t)
    {s' : State} (e : (parseAll cfg toks).run State.init = .ok ((), s')) :
    ∀ pre op post, xmlCalls s' = pre ++ op :: post →
      ∃ d1, Run Dom.new pre d1 ∧ Contract d1 op ∧ ∃ d2 out, d1.apply op = .ok (d2, out) := by
  obtain ⟨s'', e', _, hr⟩ := C05_xml_contract cfg toks hok
  rw [e] at e'; cases e'
  exact xml_run_contract hr

/-- a contract-abiding run is one the monitor `C05.firstViolation` does not flag -/
theorem firstViolation_of_run {d d' : Dom} {ops : List SinkOp} (h : Run d ops d') :
    firstViolation d ops = none := by
  induction h with
  | nil => rfl
  | cons hc ha _ ih =>
    have hc' : Dom.contractOk _ _ = true := hc
    simp only [firstViolation, hc', if_true, ha, ih, Option.map_none]

theorem C05_xml_monitor_silent (cfg : TbCfg) (toks : List Input) (hok : ∀ t ∈ toks, XmlInputOk cfg t)
    {s' : State} (e : (parseAll cfg toks).run State.init = .ok ((), s')) :
    firstViolation Dom.new (xmlCalls s') = none := by
  obtain ⟨s'', e', _, hr⟩ := C05_xml_contract cfg toks hok
  rw [e] at e'; cases e'
  exact firstViolation_of_run hr

/-! ## the `@V=` field of the `trace` output -/

open H5V.Model.XmlTBHDriver (whichViol childViol)

/-- the clause list the driver prints for a call is empty exactly when the call is within the contract -/
theorem whichViol_nil_iff (d : Dom) (op : SinkOp) : whichViol d op = [] ↔ d.contractOk op = true := by
  cases op with
  | append p c =>
    cases c with
    | text t => simp [whichViol, childViol, Dom.contractOk, Dom.contractAppend, Dom.childOk]
    | node c =>
      simp only [whichViol, childViol, Dom.contractOk, Dom.contractAppend, Dom.childOk, List.append_eq_nil_iff,
        Bool.and_eq_true, Bool.not_true, Bool.false_or, Bool.not_eq_eq_eq_not]
      cases h3 : d.parentOf c <;> by_cases h1 : d.isContainer p = true <;>
        by_cases h2 : d.isInsertable c = true <;> by_cases h4 : d.isAncOrSelf c p = true <;>
        simp_all
  | elemName t => by_cases h : d.isElement t = true <;> simp [whichViol, Dom.contractOk, h]
  | pop t => by_cases h : d.isElement t = true <;> simp [whichViol, Dom.contractOk, h]
  | createElement n as f => by_cases h : Dom.attrKeysNodup as = true <;> simp [whichViol, Dom.contractOk, h]
  | appendDoctypeToDocument n p s =>
    by_cases h : d.contractOk (.appendDoctypeToDocument n p s) = true <;> simp [whichViol, h]
  | parseError _ => simp [whichViol, Dom.contractOk]
  | getDocument => simp [whichViol, Dom.contractOk]
  | createComment _ => simp [whichViol, Dom.contractOk]
  | createPi _ _ => simp [whichViol, Dom.contractOk]
  | _ => simp only [whichViol]; split <;> simp_all

/-- along a contract-abiding run the driver finds no violation: the `@V=` field is `-` -/
theorem C05_xml_V_field {d d' : Dom} {ops : List SinkOp} (h : Run d ops d') :
    ∀ pre op post, ops = pre ++ op :: post → ∃ d1, Run d pre d1 ∧ whichViol d1 op = [] := by
  intro pre op post e
  obtain ⟨d1, h1, h2, _⟩ := xml_run_contract h pre op post e
  exact ⟨d1, h1, (whichViol_nil_iff d1 op).mpr h2⟩



/-! ## non-vacuity, and the witness for the hypothesis -/

section Examples
instance (cfg : TbCfg) (t : Token) : Decidable (H5V.Lemmas.XmlTBH.TokOk cfg t) := by
  cases t <;> (unfold H5V.Lemmas.XmlTBH.TokOk; infer_instance)

instance (cfg : TbCfg) (i : Input) : Decidable (H5V.Lemmas.XmlTBH.InputOk cfg i) := by
  cases i <;> (unfold H5V.Lemmas.XmlTBH.InputOk; infer_instance)

open H5V.Model.XmlTB (TagKind)

def xrn (p : Option String) (l : String) : RName := ⟨p.map String.toList, l.toList⟩
def xat (p : Option String) (l v : String) : RAttr := ⟨xrn p l, v.toList⟩
def xtg (k : TagKind) (p : Option String) (l : String) (as : List RAttr) : Input := .token (.tag ⟨k, xrn p l, as⟩)

/-- `<!DOCTYPE d><!--c--><r xmlns:p="urn:x" a="1"><p:e p:a="2" a="3">text<?pi d?><q/></x></p:e>` +
a tokenizer `ParseError` + `</r>` + white space + EOF: doctype, comment, a namespace declaration, nested
elements, prefixed and unprefixed attributes, text, a processing instruction, an empty element, a stray
end tag (`</x>`: parse error "Current node doesn't match tag", nothing popped) -/
def xmlEx1 : List Input := [
  .token (.doctype (some "d".toList) none none),
  .token (.comment "c".toList),
  xtg .start none "r" [xat (some "xmlns") "p" "urn:x", xat none "a" "1"],
  xtg .start (some "p") "e" [xat (some "p") "a" "2", xat none "a" "3"],
  .token (.chars "text".toList),
  .token (.pi "pi".toList "d".toList),
  xtg .empty none "q" [],
  xtg .end_ none "x" [],
  xtg .end_ (some "p") "e" [],
  .parseError "tokenizer error".toList,
  xtg .end_ none "r" [],
  .token (.chars " ".toList),
  .token .eof]

/-- the recorded calls of a whole run (`none`: the run panicked) -/
def xmlRunCalls (cfg : TbCfg) (toks : List Input) : Option (List SinkOp) :=
  match (parseAll cfg toks).run State.init with
  | .ok (_, s) => some (xmlCalls s)
  | .error _ => none

theorem xmlEx1_ok : ∀ t ∈ xmlEx1, XmlInputOk TbCfg.current t := by decide +kernel

/-- the theorem applies to the example … -/
example : ∃ s', (parseAll TbCfg.current xmlEx1).run State.init = .ok ((), s') ∧ Inv s'.dom ∧
    Run Dom.new (xmlCalls s') s'.dom := C05_xml_contract TbCfg.current xmlEx1 xmlEx1_ok

/-- … whose run makes 28 sink calls, none flagged by the monitor (checked by evaluation, independently
of the theorem) -/
example : (xmlRunCalls TbCfg.current xmlEx1).map List.length = some 28 := by decide +kernel
example : (xmlRunCalls TbCfg.current xmlEx1).map (firstViolation Dom.new) = some none := by decide +kernel

/-- the stray `</x>` reaches the sink as `elem_name`, `parse_error`, and one `elem_name` per open element -/
example : ((xmlRunCalls TbCfg.current xmlEx1).map fun l => (l.drop 14).take 4) =
    some [.elemName 4, .parseError "Current node doesn't match tag".toList, .elemName 3, .elemName 4] := by
  decide +kernel

/-- `<r x="1" x="2">` fed directly into `process_token` (a tag no tokenizer run produces) -/
def xmlExDup : List Input := [xtg .start none "r" [xat none "x" "1", xat none "x" "2"]]

/-- **the hypothesis `TagOk` is needed**: the token list violates it, the builder hands both attributes
to `create_element` (call number 1, after `get_document`), which is outside the contract — in both
configurations -/
theorem C05_xml_witness_dup_attr :
    (¬ ∀ t ∈ xmlExDup, XmlInputOk TbCfg.current t) ∧
    (xmlRunCalls TbCfg.current xmlExDup).map (firstViolation Dom.new) = some (some 1) ∧
    (xmlRunCalls TbCfg.code xmlExDup).map (firstViolation Dom.new) = some (some 1) := by
  refine ⟨by decide +kernel, by decide +kernel, by decide +kernel⟩

end Examples

end H5V.Props.C05

#print axioms H5V.Props.C05.C05_xml_contract
#print axioms H5V.Props.C05.C05_xml_new
#print axioms H5V.Props.C05.C05_xml_process_token
#print axioms H5V.Props.C05.C05_xml_end
#print axioms H5V.Props.C05.C05_xml_reach_inv
#print axioms H5V.Props.C05.C05_xml_reach
#print axioms H5V.Props.C05.C05_xml_each_call
#print axioms H5V.Props.C05.C05_xml_monitor_silent
#print axioms H5V.Props.C05.whichViol_nil_iff
#print axioms H5V.Props.C05.C05_xml_V_field
#print axioms H5V.Props.C05.C05_xml_witness_dup_attr
