import H5V.Props.C20
import H5V.Lemmas.DomNoPanic
/-!
C05 — tree builders honour the documented TreeSink calling contract.

The contract is `H5V.Model.Dom.Contract d op` (`Dom.contractOk`, `lean/H5V/Model/Dom.lean`): read off
the trait documentation of `markup5ever/interface/tree_builder.rs`, a decidable predicate of the sink
state *before* the call.  **Whether the HTML and XML tree builders only issue calls satisfying it is
decided, for now, by the monitor on the real code** (`TracingSink` in `harness/src/sinkops.rs`, run
over generated documents by `tools/props/C05.py`; its verdicts are tied to `Contract` by replaying
every harvested trace on this model and comparing the per-call verdicts) — the tree-builder models
from which `∀ input, every call satisfies Contract` would be *proved* are a separate package.

What is proved here, from the DOM model alone, is why the contract matters and that it suffices:

* `C05_contract_decidable` — the contract is decidable (it is what the monitors evaluate);
* `C05_no_panic_partial` — a call within the contract never makes RcDom panic (every `panic!`,
  `assert!`, `expect`, `unwrap`, `RefCell` double borrow and `Vec` bound of rcdom/lib.rs is an
  `.error` branch of the model): for every arena satisfying the invariant and every method except
  `maybe_clone_an_option_into_selectedcontent`;
* `C05_inv_preserved`, `C05_run`, `C05_monitor_sound` — … and it re-establishes the invariant, so a whole call sequence
  whose calls satisfy the contract in the states they are made in runs to the end without a panic;
* `C05_violation_panics` / `C05_violation_corrupts` — conversely, calls outside the contract do
  panic RcDom (`append` of a node that has a parent) or silently corrupt the tree (inserting a
  node under itself yields a cycle on which serialization does not terminate);
* `C05_attrs_no_duplicates`, `C05_create_element_attrs` — attribute lists without a repeated name
  (the last clause of the contract) keep elements free of repeated attribute names.
-/
namespace H5V.Props.C05
open H5V.Model.Dom H5V.Lemmas.Dom H5V.Props.C20

/-- the contract is a decidable predicate of the state before the call -/
theorem C05_contract_decidable (d : Dom) (op : SinkOp) : Contract d op ∨ ¬ Contract d op :=
  Decidable.em _

/-- the one call not covered by the no-panic theorem -/
def isMirror : SinkOp → Bool
  | .maybeCloneAnOptionIntoSelectedcontent _ => true
  | _ => false

/-- the calls covered by the no-panic theorem -/
def NotMirror (op : SinkOp) : Prop := isMirror op = false

instance (op : SinkOp) : Decidable (NotMirror op) := by unfold NotMirror; infer_instance

/-- **A contract-abiding call never panics.**  `_partial`: not covered is
`maybe_clone_an_option_into_selectedcontent` — for it the proof needs (i) "template-contents links
name existing nodes" as part of the invariant and (ii) adequacy of the fuel of the three bounded
loops that stand for unbounded Rust loops/recursion (ancestor walk, descendant search,
`clone_with_subtree`); its panic-freedom is carried by the correspondence (no `mc` case of C20 or
C05 panics). -/
theorem C05_no_panic_partial {d : Dom} {op : SinkOp} (hi : Inv d) (hc : Contract d op) (hop : NotMirror op) :
    ∃ d' out, d.apply op = .ok (d', out) := by
  rw [apply_eq]
  refine applyV_succeeds hi.wf hc ?_
  intro o e; subst e; simp [NotMirror, isMirror] at hop

/-- a contract-abiding call re-establishes the invariant (C20) -/
theorem C05_inv_preserved {d d' : Dom} {op : SinkOp} {out : Output} (hi : Inv d) (hc : Contract d op)
    (h : d.apply op = .ok (d', out)) : Inv d' := C20_parent_links_step hi hc h

/-- every call of the sequence satisfies the contract in the state in which it is made (whatever
that state turns out to be) -/
inductive Abiding : Dom → List SinkOp → Prop
  | nil {d : Dom} : Abiding d []
  | cons {d : Dom} {op : SinkOp} {ops : List SinkOp} :
      Contract d op → (∀ d1 out, d.apply op = .ok (d1, out) → Abiding d1 ops) → Abiding d (op :: ops)

/-- **a contract-abiding call sequence runs to the end without a panic**, and ends in a state
satisfying the invariant -/
theorem C05_run {ops : List SinkOp} : ∀ {d : Dom}, Inv d → Abiding d ops → (∀ op ∈ ops, NotMirror op) →
    ∃ d' outs, d.applyAll ops = .ok (d', outs) ∧ Inv d' ∧ outs.length = ops.length := by
  induction ops with
  | nil => intro d hi _ _; exact ⟨d, [], rfl, hi, rfl⟩
  | cons op ops ih =>
    intro d hi ha hnm
    cases ha with
    | cons hc hrest =>
      obtain ⟨d1, out, h1⟩ := C05_no_panic_partial hi hc (hnm op (by simp))
      obtain ⟨d', outs, h2, hi', hl⟩ := ih (C05_inv_preserved hi hc h1) (hrest d1 out h1)
        (fun o ho => hnm o (by simp [ho]))
      exact ⟨d', out :: outs, by simp [Dom.applyAll, bind, Except.bind, h1, h2], hi', by simp [hl]⟩

/-- executable form of `Abiding` along the actual run, used by the model-side monitor (the `!`
flags of engine `rcdom`): index of the first call that violates the contract -/
def firstViolation (d : Dom) : List SinkOp → Option Nat
  | [] => none
  | op :: ops =>
    if d.contractOk op then
      match d.apply op with
      | .ok (d1, _) => (firstViolation d1 ops).map (· + 1)
      | .error _ => none
    else some 0

/-- **the model-side monitor is sound**: when it flags no call of a trace, the whole trace runs on
RcDom('s model) without a panic and ends in a state satisfying the invariant -/
theorem C05_monitor_sound {ops : List SinkOp} : ∀ {d : Dom}, Inv d → firstViolation d ops = none →
    (∀ op ∈ ops, NotMirror op) → ∃ d' outs, d.applyAll ops = .ok (d', outs) ∧ Inv d' := by
  induction ops with
  | nil => intro d hi _ _; exact ⟨d, [], rfl, hi⟩
  | cons op ops ih =>
    intro d hi hf hnm
    simp only [firstViolation] at hf
    by_cases hc : d.contractOk op = true
    · obtain ⟨d1, out, h1⟩ := C05_no_panic_partial hi hc (hnm op (by simp))
      simp only [hc, if_true, h1] at hf
      have hf1 : firstViolation d1 ops = none := by
        cases hv : firstViolation d1 ops with
        | none => rfl
        | some k => simp [hv] at hf
      obtain ⟨d', outs, h2, hi'⟩ := ih (C05_inv_preserved hi hc h1) hf1 (fun o ho => hnm o (by simp [ho]))
      exact ⟨d', out :: outs, by simp [Dom.applyAll, bind, Except.bind, h1, h2], hi'⟩
    · simp [hc] at hf

example : firstViolation Dom.new exOps = none := by decide
example : firstViolation exReinsert [.append 1 (.text ['x']), .append 0 (.node 2)] = some 1 := by decide

/-! ### what happens outside the contract -/

/-- `append` of a node that already has a parent ("The child node will not already have a parent")
panics RcDom: `assert!(previous_parent.is_none())` -/
theorem C05_violation_panics :
    ∃ d, Inv d ∧ ¬ Contract d (.append 0 (.node 2)) ∧ ∃ e, d.apply (.append 0 (.node 2)) = .error e :=
  ⟨exReinsert, C20_reachable_inv (run_of_check (ops :=
      [ .createElement (qn ['a']) [] {}, .createElement (qn ['b']) [] {}, .createElement (qn ['c']) [] {},
        .append 0 (.node 1), .append 1 (.node 2), .append 1 (.node 3) ]) (by decide)),
    by decide, _, rfl⟩

/-- inserting a node under itself ("no node is ever inserted under itself or one of its
descendants") is accepted by RcDom and yields a cycle: the invariant is lost and serializing the
node does not terminate (the model's fuel runs out) -/
theorem C05_violation_corrupts :
    ∃ d d', (∃ ops, Run Dom.new ops d) ∧ ¬ Contract d (.append 1 (.node 1)) ∧
      d.apply (.append 1 (.node 1)) = .ok (d', .unit) ∧ d'.parentOf 1 = some 1 ∧
      (d'.serialize .includeNode 1).toOption = none :=
  ⟨(runCheck Dom.new [.createElement (qn ['a']) [] {}]).getD Dom.new, _,
    ⟨_, run_of_check (ops := [.createElement (qn ['a']) [] {}]) (by decide)⟩, by decide, rfl, by decide, by decide⟩

/-! ### attribute lists -/

/-- `add_attrs_if_missing` with a duplicate-free list on an element without repeated attribute
names leaves it without repeated attribute names -/
theorem C05_attrs_no_duplicates {d d' : Dom} {t : Id} {attrs : List Attr}
    (hc : Contract d (.addAttrsIfMissing t attrs)) (he : ((d.attrsOf t).map (·.name)).Nodup)
    (h : d.addAttrsIfMissing t attrs = .ok d') : ((d'.attrsOf t).map (·.name)).Nodup := by
  have : Dom.attrNamesNodup attrs = true := by
    simp only [Contract, Dom.contractOk, Bool.and_eq_true] at hc; exact attrNamesNodup_of_keys _ hc.2
  exact (C20_attrs_no_overwrite h he this).1

/-- `create_element` with a duplicate-free list creates an element without repeated attribute names -/
theorem C05_create_element_attrs {d : Dom} {name : QualName} {attrs : List Attr} {flags : ElementFlags}
    (hc : Contract d (.createElement name attrs flags)) :
    (((d.createElement name attrs flags).1.attrsOf (d.createElement name attrs flags).2).map (·.name)).Nodup := by
  have hnd : (attrs.map (·.name)).Nodup :=
    (attrNamesNodup_iff attrs).mp (attrNamesNodup_of_keys _ (by simpa [Contract, Dom.contractOk] using hc))
  unfold Dom.createElement
  split
  · simp only [Dom.attrsOf, alloc_id, dataOf_alloc]; simpa using hnd
  · simp only [Dom.attrsOf, alloc_id, dataOf_alloc]; simpa using hnd

end H5V.Props.C05
