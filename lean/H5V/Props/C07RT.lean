import H5V.Lemmas.HtmlRTSer
import H5V.Lemmas.HtmlRTJoint
/-!
C07, the headline: **serialize, then parse as a fragment, reproduces the tree** — proved on the
models for every forest of the class `Ordinary` (below).

The round trip is factored as

    forest ──HtmlSer.serialize──▶ bytes = UTF-8 of `renderF f`        (`C07_serialize_ordinary`)
    `renderF f` ──HtmlTok feed/end──▶ the token stream of `f` + EOF     (`C07_tok_roundtrip`)
    token stream ──HtmlTB process_token/end──▶ arena holding `f`        (`C07_tb_roundtrip`)
    `renderF f` ──tokenizer with the tree builder as sink──▶ arena      (`C07_roundtrip`, the composition,
                                                                       proved directly on `Joint.feed/finish`)

* **Vocabulary** (`H5V.Lemmas.HtmlRT`, file `HtmlRTDefs`): `HNode` (element: local name, attribute
  list, children; text), `ordinaryName` = a name spelled as the tokenizer spells tag names (lower-case
  ASCII letter first; no white space, `/`, `>`, U+0000, upper-case ASCII letters) that has **no rule of
  its own in the "in body" insertion mode** — it falls into "any other start tag" / "any other end
  tag" (`specialNames` lists the excluded names: void, raw text / RCDATA / plaintext, implied end
  tags, headings, lists, formatting elements, `a`/`nobr`, scoping and table elements, `form`, `select`,
  `svg`/`math`, `noscript`, …); `blockName` = the 24 plain block elements (`address`, `article`, …,
  `div`, `dl`, `ol`, `ul`, `section`, `menu`, …: start tag "close a `p` element in button scope,
  insert", end tag "in scope? generate implied end tags, pop up to it" — no-ops beyond insert / pop
  when no `p` is open); `fmtName` = the formatting elements `b`, `big`, `code`, `em`, `font`, `i`, `s`,
  `small`, `strike`, `strong`, `tt`, `u` (start tag: Noah's Ark clause, entry in the list of active
  formatting elements; end tag: the adoption agency algorithm, which for a properly nested element
  finds no furthest block and just pops it — or, if Noah's Ark dropped its entry, takes the "current
  node not in the list" shortcut; in a tree every element is properly nested);
  `elemNameOk` = any of the three.  `Ordinary f`: all element names `elemNameOk`; attribute names
  non-empty, free of white space `/ > = " ' <`, U+0000 and upper-case ASCII letters, pairwise distinct; attribute values and text free of CR and U+0000; text nodes
  non-empty and never adjacent.
* **One hypothesis beyond the class**: the serialisation must not begin with U+FEFF
  (`noLeadingBom`).  `Tokenizer::feed` discards a leading U+FEFF of the *first* chunk also when the
  parser is a fragment parser, so the forest `[text "\uFEFFa"]` comes back as `[text "a"]`
  (`C07_witness_leading_bom`).  The class is not shrunk silently: the hypothesis is explicit.
* Options: every tree-builder option set (scripting on and off, quirks mode, …); the tokenizer with
  `exact_errors` off (with it on, the tokenizer reports `Bad character` parse errors for control
  characters in text, which are in the class; C08 shows that the token stream is otherwise the same).
* Any chunking of the input gives the same result as the single `feed` used here: that is C03
  (`C03_chunked_then_end`, the tokenizer is chunk-blind), not repeated here.

What is *not* covered: `a` and `nobr` (start tags with rules of their own), `p`, headings, lists
and the other elements with implied end tags, void / raw-text / table / foreign elements are outside
the class; the link from bytes back to characters (UTF-8 decoding, C10) is not composed in.
-/
namespace H5V.Props.C07
open H5V.Lemmas.HtmlRT
open H5V.Model.HtmlTB (processTokens finishTB)

/-! ## Layer 1 — vocabulary -/

example : ordinaryName "span".toList = true ∧ ordinaryName "cite".toList = true ∧
    ordinaryName "x-widget".toList = true ∧ ordinaryName "label".toList = true ∧
    ordinaryName "output".toList = true := by decide

example : blockName "div".toList = true ∧ blockName "section".toList = true ∧ blockName "ul".toList = true ∧
    elemNameOk "div".toList = true ∧ elemNameOk "span".toList = true ∧ elemNameOk "p".toList = false ∧
    fmtName "b".toList = true ∧ elemNameOk "b".toList = true ∧ elemNameOk "strong".toList = true ∧
    elemNameOk "a".toList = false ∧ elemNameOk "nobr".toList = false ∧
    elemNameOk "li".toList = false ∧ elemNameOk "h1".toList = false := by decide

example : ordinaryName "div".toList = false ∧ ordinaryName "p".toList = false ∧ ordinaryName "b".toList = false ∧
    ordinaryName "br".toList = false ∧ ordinaryName "script".toList = false ∧ ordinaryName "noscript".toList = false ∧
    ordinaryName "Span".toList = false ∧ ordinaryName "a b".toList = false ∧ ordinaryName "svg".toList = false := by
  decide

/-- a concrete ordinary forest: attributes, `&`, `<`, `>`, `"`, U+00A0 and a line feed in text and
attribute values, nesting, plain block elements, formatting elements nested four deep with equal
attributes (Noah's Ark drops the entry of the outermost `b`), a text ending in an escaped character
at the very end -/
def exForest : Forest :=
  [.text "a&<\u00A0>\"b\n".toList,
   .elem "span".toList [("id".toList, "x\"&<y".toList), ("data-k".toList, [])]
     [.text "t".toList, .elem "x-y".toList [] [], .text "&amp;".toList],
   .elem "cite".toList [] [.text "&".toList],
   .elem "div".toList [("class".toList, "c d".toList)]
     [.elem "section".toList [] [.text "in a section".toList, .elem "ul".toList [] []], .text " ".toList],
   .elem "b".toList [] [.elem "b".toList [] [.elem "b".toList [] [.elem "b".toList []
     [.elem "i".toList [("x".toList, "1".toList)] [.text "deep".toList]]]], .text "t".toList],
   .text "end\u00A0&".toList]

theorem exForest_ordinary : Ordinary exForest := ⟨by decide +kernel, by decide +kernel⟩

theorem exForest_noBom : noLeadingBom (renderF exForest) := by decide +kernel

example : String.ofList (renderF exForest) =
    "a&amp;&lt;&nbsp;&gt;\"b\n<span id=\"x&quot;&amp;&lt;y\" data-k=\"\">t<x-y></x-y>&amp;amp;</span><cite>&amp;</cite><div class=\"c d\"><section>in a section<ul></ul></section> </div><b><b><b><b><i x=\"1\">deep</i></b></b></b>t</b>end&nbsp;&amp;" := by
  decide +kernel

/-! ## the serializer side -/

/-- The serializer model (code as it is), children-only scope with an HTML `div` as the named parent,
writes for an ordinary forest exactly the UTF-8 encoding of the character string `renderF f` —
whatever the serializer options. -/
theorem C07_serialize_ordinary (o : H5V.Model.HtmlSer.Opts) (f : Forest) (hf : Ordinary f) :
    H5V.Model.HtmlSer.serialize .current (.childrenOnly (some (serName nDiv))) o (serRoot f)
      = .ok (H5V.Model.HtmlSer.utf8 (renderF f)) :=
  serialize_ordinary o f hf.1

example : H5V.Model.HtmlSer.serialize .current (.childrenOnly (some (serName nDiv))) ⟨true, false⟩ (serRoot exForest)
    = .ok (H5V.Model.HtmlSer.utf8 (renderF exForest)) := C07_serialize_ordinary _ _ exForest_ordinary

/-! ## Layer 2 — the tree builder -/

/-- **Tree builder.**  Set up as a fragment parser with an HTML `div` as context element
(`new_for_fragment`), fed the tokens of an ordinary forest — the text of each text node cut into
non-empty pieces in any way (`split`), any line numbers — followed by EOF, and ended
(`TreeBuilder::end`), the tree-builder model succeeds, every `process_token` answers `Continue`, the
children of the root `html` element in the resulting arena are exactly the forest (names,
attributes in order, text, nesting; parent pointers consistent), and no parse error was reported.
For every option set (scripting on and off). -/
theorem C07_tb_roundtrip (opts : H5V.Model.HtmlTB.Opts) (split : Str → List Str) (hsplit : GoodSplit split)
    (f : Forest) (hf : Ordinary f) (lines : List Nat) (hl : lines.length = (tbTokensF split f ++ [H5V.Model.HtmlTB.TokToken.eof]).length) :
    ∃ s, (do fragSetup
             let rs ← processTokens ((tbTokensF split f ++ [H5V.Model.HtmlTB.TokToken.eof]).zip lines) []
             finishTB
             pure rs : H5V.Model.HtmlTB.M _).run (H5V.Model.HtmlTB.State.init opts) = .ok ([], s) ∧
      rootChildren s.dom = some (toDTreeF f) ∧ s.dom.errorsRev = [] := by
  obtain ⟨s0, hr0, hi0, _⟩ := fragSetup_runs opts
  obtain ⟨s1, tp, tid, hruns, hi1⟩ := tb_forest split hsplit f s0 [] (rootFrame []) 0 2 hi0 hf.1
    (by simpa [rootFrame] using hf.2)
  have hi1' : TBInv s1 [] (rootFrame f) tp tid := by simpa [rootFrame] using hi1
  have hall : TokRuns (tbTokensF split f ++ [H5V.Model.HtmlTB.TokToken.eof]) s0 s1 :=
    hruns.append (.single (fun line => hi1'.eof line))
  have hproc := hall.processTokens lines hl []
  have hrun : Runs (do fragSetup
                       let rs ← processTokens ((tbTokensF split f ++ [H5V.Model.HtmlTB.TokToken.eof]).zip lines) []
                       finishTB
                       pure rs : H5V.Model.HtmlTB.M _) (H5V.Model.HtmlTB.State.init opts) []
      { s1 with openElems := [] } :=
    runs_bind hr0 (runs_bind hproc (runs_bind (finishTB_runs s1) (runs_pure _ _)))
  obtain ⟨tr, e⟩ := hrun (H5V.Model.HtmlTB.State.init opts).traceRev
  refine ⟨_, by rw [← e]; rfl, ?_, ?_⟩
  · exact hi1'.rootChildren_eq
  · exact hi1'.errs

/-- the same with one character token per text node -/
theorem C07_tb_roundtrip_whole (opts : H5V.Model.HtmlTB.Opts) (f : Forest) (hf : Ordinary f) (lines : List Nat)
    (hl : lines.length = (tbTokensF (fun s => if s = [] then [] else [s]) f ++ [H5V.Model.HtmlTB.TokToken.eof]).length) :
    ∃ s, (do fragSetup
             let rs ← processTokens ((tbTokensF (fun s => if s = [] then [] else [s]) f ++ [H5V.Model.HtmlTB.TokToken.eof]).zip lines) []
             finishTB
             pure rs : H5V.Model.HtmlTB.M _).run (H5V.Model.HtmlTB.State.init opts) = .ok ([], s) ∧
      rootChildren s.dom = some (toDTreeF f) ∧ s.dom.errorsRev = [] :=
  C07_tb_roundtrip opts _ goodSplit_whole f hf lines hl

/-! ## Layer 3 — the tokenizer -/

/-- **Tokenizer.**  Started in the data state (the state a `div` context asks for), fed `renderF f`
in one piece and ended, the tokenizer model (`exact_errors` off, a sink that answers `Continue` to
every tag) delivers exactly: the start tag (name, attributes in order with their unescaped values, not
self-closing, no duplicate), the characters of every text node one character token each, the end tag
— for every node in document order — and EOF.  Nothing else: in particular **no parse error**. -/
theorem C07_tok_roundtrip (o : H5V.Model.HtmlTok.Opts) (ho : o.exactErrors = false) (pol : H5V.Model.HtmlTok.Pol)
    (hp : AlwaysContinue pol) (f : Forest) (hf : Ordinary f) (hbom : noLeadingBom (renderF f)) :
    ∃ m1 m2, H5V.Model.HtmlTok.feed o pol mach0 [] (renderF f) = .done m1 [] ∧
      H5V.Model.HtmlTok.finish o pol m1 = .ok m2 ∧
      m2.out.reverse.map (·.1) = tokTokens1F f ++ [H5V.Model.HtmlTok.Token.eof] :=
  tok_roundtrip o ho pol hp f hf hbom

/-- the same after merging adjacent character tokens (the comparison convention of the tokenizer
model, which emits text one character at a time): exactly `tokTokensF f` — one character token per
text node — and EOF -/
theorem C07_tok_roundtrip_merged (o : H5V.Model.HtmlTok.Opts) (ho : o.exactErrors = false)
    (pol : H5V.Model.HtmlTok.Pol) (hp : AlwaysContinue pol) (f : Forest) (hf : Ordinary f)
    (hbom : noLeadingBom (renderF f)) :
    ∃ m1 m2, H5V.Model.HtmlTok.feed o pol mach0 [] (renderF f) = .done m1 [] ∧
      H5V.Model.HtmlTok.finish o pol m1 = .ok m2 ∧
      mergeChars (m2.out.reverse.map (·.1)) = tokTokensF f ++ [.eof] := by
  obtain ⟨m1, m2, h1, h2, h3⟩ := tok_roundtrip o ho pol hp f hf hbom
  exact ⟨m1, m2, h1, h2, by rw [h3]; exact mergeChars_tokens f hf⟩

/-! ## Layer 4 — the composition -/

/-- **C07, headline.**  For every ordinary forest `f` whose serialisation does not begin with U+FEFF:
the serializer writes `utf8 (renderF f)`, and the fragment parser (context element `div`; tokenizer
with the tree builder as its sink: `Tokenizer::feed`, `Tokenizer::end`, `TreeBuilder::end`) run on
`renderF f` succeeds, leaves exactly `f` as the children of the root element of the arena, and
reports no parse error — for every tree-builder option set (scripting on and off), every value of
`context_element_allows_scripting`, every serializer option set; `exact_errors` off. -/
theorem C07_roundtrip (sopts : H5V.Model.HtmlSer.Opts) (opts : H5V.Model.HtmlTB.Opts) (cs : Bool)
    (o : H5V.Model.HtmlTok.Opts) (ho : o.exactErrors = false)
    (f : Forest) (hf : Ordinary f) (hbom : noLeadingBom (renderF f)) :
    H5V.Model.HtmlSer.serialize .current (.childrenOnly (some (serName nDiv))) sopts (serRoot f)
      = .ok (H5V.Model.HtmlSer.utf8 (renderF f)) ∧
    ∃ d, parseFragmentDiv opts cs o (renderF f) = .ok d ∧ rootChildren d = some (toDTreeF f) ∧
      d.errorsRev = [] :=
  ⟨C07_serialize_ordinary sopts f hf, joint_roundtrip opts cs o ho f hf hbom⟩

/-- non-vacuity: the concrete forest above goes round -/
example : ∃ d, parseFragmentDiv {} true ⟨false⟩ (renderF exForest) = .ok d ∧
    rootChildren d = some (toDTreeF exForest) ∧ d.errorsRev = [] :=
  (C07_roundtrip ⟨true, false⟩ {} true ⟨false⟩ rfl exForest exForest_ordinary exForest_noBom).2

/-! ## the leading U+FEFF -/

def bomForest : Forest := [.text ['\uFEFF', 'a']]

/-- `[text "\uFEFFa"]` is in the class, but its serialisation begins with U+FEFF, which
`Tokenizer::feed` discards: the fragment parser returns a root element whose only child is the text
node `a` (`tx,61` in the canonical dump: the text is the single character U+0061).  Hence the
hypothesis `noLeadingBom` of `C07_roundtrip`. -/
theorem C07_witness_leading_bom :
    Ordinary bomForest ∧ ¬ noLeadingBom (renderF bomForest) ∧
    (match parseFragmentDiv {} true ⟨false⟩ (renderF bomForest) with
     | .ok d => d.dump == "(doc(el,~/68 74 74 70 3a 2f 2f 77 77 77 2e 77 33 2e 6f 72 67 2f 31 39 39 39 2f 78 68 74 6d 6c/68 74 6d 6c,-,-(tx,61)));Q=no"
     | .error _ => false) = true := by
  refine ⟨by decide, by decide, ?_⟩
  decide +kernel

end H5V.Props.C07
