import H5V.Lemmas.HtmlTBSplitToken
/-!
C03 lifted to the **tree**: the model of html5ever's tree builder is insensitive to how a run of
characters is split into character tokens.

The tokenizer-level theorems (`H5V.Props.C03`, `C03End`) say that a chunked session delivers the same
token stream as the one-piece run *up to re-splitting of adjacent character tokens* (the real tokenizer
emits character runs whose boundaries follow the chunk and buffer boundaries; NUL characters are
separate `NullCharacterToken`s and never merged).  This file closes the gap to the final tree:

* `SimS` — the simulation relation on tree-builder states: every `State` field that can influence later
  behaviour is equal (`C03_tb_sim_fields`); the trace of sink calls, the line counter and the **parse
  error log** of the DOM are ignored (the number of `sink.parse_error` calls legitimately depends on the
  split); `pending_table_text` is compared up to re-splitting (same concatenation, same "contains
  non-whitespace" verdict, no empty piece); and the list of active formatting elements holds formatting
  tags only (an invariant of every reachable state, `C03_tb_good_init` + preservation by `SimS`).
* `C03_tb_char_split` — **main lemma**: from `SimS` states, `process_token(chars (a ++ b))` and
  `process_token(chars a); process_token(chars b)` both panic or both succeed, answer alike and end in
  `SimS` states — for ALL 21 insertion modes, foreign content, fragment and template cases, `ignore_lf`,
  any line numbers, any non-empty `a`, `b` (NUL-freeness is not even needed).
* `C03_tb_sim_step` — **congruence**: every token (tags, comments, doctype, EOF, NUL, parse errors,
  characters), delivered with any line numbers to `SimS` states, gives equal answers and `SimS` states.
  This includes the in-table-text flush: flushing `[x, y]` and flushing `[x ++ y]` agree, also under
  foster parenting (DOM text merging).
* `Resplit` — the congruence closure of "replace `chars (a ++ b)` by `chars a, chars b`" (plus arbitrary
  line numbers); `C03_tree_resplit_run`, `C03_tree_resplit` (document), `C03_tree_resplit_fragment`,
  `C03_tree_resplit_end` (with `TreeBuilder::end`), `C03_tree_obs` (equal observable results `Obs`:
  DOM arena + quirks mode + the list of tokenizer-driving answers Script / RawData / Plaintext /
  EncodingIndicator).
* `mergeChars`, `C03_resplit_of_merge_eq`, `C03_tree_merge_obs` — the criterion in the form the tokenizer
  correspondence uses it: two streams that are equal after merging adjacent character tokens (no empty
  character token) give the same observable result; `C03_tb_good_preserved` — the domain of `SimS` is
  closed under every token.
* non-vacuity: `<table>` + "a b" split in the middle, a foster-parenting case with formatting elements,
  the `ignore_lf` case (`decide +kernel`).
-/
namespace H5V.Props.C03
open H5V.Model.Dom (Id QualName Attr NodeOrText SinkOp Output ElementFlags QuirksMode Dom Node)
open H5V.Model.HtmlTB
open H5V.Lemmas.TBSplit

abbrev Str := List Char

/-! ## the relation -/

/-- the simulation relation on tree-builder states (see the header) -/
abbrev SimS (s t : State) : Prop := Sim s t

/-- the states the relation is about: formatting list holds formatting tags, no empty piece of pending
table text (both hold initially and are preserved by every token) -/
abbrev GoodS (s : State) : Prop := Good s

/-- **what `SimS` fixes**: every field of `struct TreeBuilder` except the pending table text (related by
`PendRel`), the line counter, and of the sink the whole arena and the quirks mode -/
theorem C03_tb_sim_fields {s t : State} (h : SimS s t) :
    s.opts = t.opts ∧ s.mode = t.mode ∧ s.origMode = t.origMode ∧ s.templateModes = t.templateModes ∧
    s.quirksMode = t.quirksMode ∧ s.docHandle = t.docHandle ∧ s.openElems = t.openElems ∧
    s.activeFormatting = t.activeFormatting ∧ s.headElem = t.headElem ∧ s.formElem = t.formElem ∧
    s.framesetOk = t.framesetOk ∧ s.ignoreLf = t.ignoreLf ∧ s.fosterParenting = t.fosterParenting ∧
    s.contextElem = t.contextElem ∧ s.dom.nodes = t.dom.nodes ∧ s.dom.quirks = t.dom.quirks ∧
    s.pendingTableText.flatMap (·.2) = t.pendingTableText.flatMap (·.2) ∧
    cns s.pendingTableText = cns t.pendingTableText := by
  obtain ⟨_, tr, cl, er, pt, rfl, hp⟩ := h
  exact ⟨rfl, rfl, rfl, rfl, rfl, rfl, rfl, rfl, rfl, rfl, rfl, rfl, rfl, rfl, rfl, rfl, hp.cat, hp.cns⟩

theorem C03_tb_sim_equiv : (∀ s, GoodS s → SimS s s) ∧ (∀ s t, SimS s t → SimS t s) ∧
    (∀ s t u, SimS s t → SimS t u → SimS s u) ∧ (∀ s t, SimS s t → GoodS s ∧ GoodS t) :=
  ⟨fun _ h => h.sim, fun _ _ h => h.symm, fun _ _ _ h h' => h.trans h', fun _ _ h => ⟨h.good, h.symm.good⟩⟩

/-- a freshly constructed tree builder is in the domain of the relation -/
theorem C03_tb_good_init (opts : Opts) : GoodS (State.init opts) :=
  ⟨(fun e he => by cases he), (fun p hp => by cases hp)⟩

/-- the outcome of two runs: both panic, or equal answers and `SimS` states -/
abbrev SameOutcome {α : Type} (x y : Except String (α × State)) : Prop := RelR (fun _ => True) x y

theorem C03_same_outcome_iff {α : Type} (x y : Except String (α × State)) :
    SameOutcome x y ↔ (∃ e e', x = .error e ∧ y = .error e') ∨
      (∃ a s t, x = .ok (a, s) ∧ y = .ok (a, t) ∧ SimS s t) := by
  constructor
  · intro h
    cases x with
    | error e => cases y with
      | error e' => exact Or.inl ⟨e, e', rfl, rfl⟩
      | ok q => exact h.elim
    | ok p => cases y with
      | error e' => exact h.elim
      | ok q =>
        obtain ⟨a, s⟩ := p; obtain ⟨b, t⟩ := q
        obtain ⟨h1, _, h3⟩ := h
        subst h1
        exact Or.inr ⟨a, s, t, rfl, rfl, h3⟩
  · rintro (⟨e, e', rfl, rfl⟩ | ⟨a, s, t, rfl, rfl, h⟩)
    · trivial
    · exact ⟨rfl, trivial, h⟩

/-! ## the main lemma and the congruence -/

/-- **C03, tree builder, main lemma**: a character token delivered in two pieces -/
theorem C03_tb_char_split (a b : Str) (ha : a ≠ []) (hb : b ≠ []) (l l1 l2 : Nat) (s t : State) (hst : SimS s t) :
    SameOutcome (processToken (.chars (a ++ b)) l s)
      ((processToken (.chars a) l1 >>= fun _ => processToken (.chars b) l2) t) :=
  processToken_split ha hb l l1 l2 hst

/-- **C03, tree builder, congruence**: every token respects `SimS` (line numbers are irrelevant) -/
theorem C03_tb_sim_step (tok : TokToken) (l l' : Nat) (s t : State) (hst : SimS s t) :
    SameOutcome (processToken tok l s) (processToken tok l' t) :=
  processToken_rel inTableText_ok flushText_ok tok l l' s t hst

/-- `TreeBuilder::end` respects `SimS` -/
theorem C03_tb_sim_end (s t : State) (hst : SimS s t) : SameOutcome (finishTB s) (finishTB t) :=
  finishTB_resp s t hst

/-- a character token is always answered with `Continue` -/
theorem C03_tb_chars_continue (x : Str) (l : Nat) (s : State) (hg : GoodS s) {r : SinkResult} {s' : State}
    (h : processToken (.chars x) l s = .ok (r, s')) : r = .continue_ := by
  rw [processToken_apply, bind_apply] at h
  obtain ⟨tr, h1⟩ := lineIf_apply l s.currentLine s
  rw [h1] at h
  simp only at h
  have hg' : Good (upd s tr s.currentLine s.dom.errorsRev s.pendingTableText) := (sim_upd_self hg.sim tr).symm.good
  rw [processTokenRest_chars' hg'] at h
  split at h
  · cases h; rfl
  · rename_i hne
    have hz : dropIgnoredLf (upd s tr s.currentLine s.dom.errorsRev s.pendingTableText).ignoreLf x ≠ [] := by
      intro h0; rw [h0] at hne; exact hne rfl
    exact (PTC_cont (good_clearLf hg') ⟨_, _, rfl, hz⟩ (by simp) h).1

/-! ## token streams up to re-splitting of character tokens -/

/-- the congruence closure of "replace `chars (a ++ b)` by `chars a, chars b`" (`a`, `b` non-empty);
line numbers are arbitrary -/
inductive Resplit : List (TokToken × Nat) → List (TokToken × Nat) → Prop
  | lines {ts ts' : List (TokToken × Nat)} : ts.map (·.1) = ts'.map (·.1) → Resplit ts ts'
  | split (a b : Str) (l l1 l2 : Nat) : a ≠ [] → b ≠ [] →
      Resplit [(.chars (a ++ b), l)] [(.chars a, l1), (.chars b, l2)]
  | symm {x y : List (TokToken × Nat)} : Resplit x y → Resplit y x
  | trans {x y z : List (TokToken × Nat)} : Resplit x y → Resplit y z → Resplit x z
  | append {x y x' y' : List (TokToken × Nat)} : Resplit x y → Resplit x' y' → Resplit (x ++ x') (y ++ y')

theorem Resplit.refl (ts : List (TokToken × Nat)) : Resplit ts ts := .lines rfl

theorem processTokens_append : ∀ (l1 l2 : List (TokToken × Nat)) (acc : List SinkResult),
    processTokens (l1 ++ l2) acc = processTokens l1 acc >>= fun acc' => processTokens l2 acc'
  | [], l2, acc => by simp [processTokens]
  | (t, line) :: rest, l2, acc => by
    simp only [List.cons_append, processTokens, bind_assoc]
    congr 1
    funext r
    exact processTokens_append rest l2 _

/-- the two token lists drive the tree builder alike -/
def RunAlike (ts ts' : List (TokToken × Nat)) : Prop :=
  ∀ acc s t, SimS s t → SameOutcome (processTokens ts acc s) (processTokens ts' acc t)

theorem runAlike_split (a b : Str) (l l1 l2 : Nat) (ha : a ≠ []) (hb : b ≠ []) :
    RunAlike [(.chars (a ++ b), l)] [(.chars a, l1), (.chars b, l2)] := by
  intro acc s t hst
  have h := C03_tb_char_split a b ha hb l l1 l2 s t hst
  simp only [processTokens]
  rw [bind_apply] at h
  rw [bind_apply, bind_apply]
  cases h1 : processToken (.chars a) l1 t with
  | error e =>
    rw [h1] at h
    cases hL : processToken (.chars (a ++ b)) l s with
    | error e' => trivial
    | ok v => rw [hL] at h; exact h.elim
  | ok v1 =>
    obtain ⟨r1, t1⟩ := v1
    rw [h1] at h
    simp only at h ⊢
    have hr1 : r1 = .continue_ := C03_tb_chars_continue a l1 t hst.symm.good h1
    subst hr1
    simp only [beq_self_eq_true, if_true]
    rw [bind_apply]
    cases hL : processToken (.chars (a ++ b)) l s with
    | error e' =>
      rw [hL] at h
      cases h2 : processToken (.chars b) l2 t1 with
      | error e'' => trivial
      | ok v2 => rw [h2] at h; exact h.elim
    | ok v =>
      obtain ⟨r, s'⟩ := v
      rw [hL] at h
      cases h2 : processToken (.chars b) l2 t1 with
      | error e'' => rw [h2] at h; exact h.elim
      | ok v2 =>
        obtain ⟨r2, t2⟩ := v2
        rw [h2] at h
        obtain ⟨hrr, _, hs⟩ := h
        subst hrr
        exact ⟨rfl, trivial, hs⟩

/-- **re-split token streams drive the tree builder alike** -/
theorem C03_tree_resplit_run {ts1 ts2 : List (TokToken × Nat)} (h : Resplit ts1 ts2) : RunAlike ts1 ts2 := by
  induction h with
  | lines hl => exact fun acc s t hst => processTokens_rel inTableText_ok flushText_ok _ _ hl acc s t hst
  | split a b l l1 l2 ha hb => exact runAlike_split a b l l1 l2 ha hb
  | symm _ ih => exact fun acc s t hst => (ih acc t s hst.symm).symm
  | trans _ _ ih1 ih2 => exact fun acc s t hst => (ih1 acc s s hst.left).trans (ih2 acc s t hst)
  | append _ _ ih1 ih2 =>
    intro acc s t hst
    rw [processTokens_append, processTokens_append]
    exact relR_bind (ih1 acc s t hst) (fun acc' s' t' _ hs' => ih2 acc' s' t' hs')

/-! ## whole parses -/

/-- the observable result of a tree-builder run: the abstract DOM (arena and quirks mode; **not** the
parse-error log) and the answers that drive the tokenizer (Script, RawData, Plaintext,
EncodingIndicator), newest first -/
structure Obs where
  nodes : Array Node
  quirks : QuirksMode
  pauses : List SinkResult
deriving DecidableEq

def obsOf (r : Except String (List SinkResult × State)) : Option Obs :=
  match r with
  | .ok (p, s) => some ⟨s.dom.nodes, s.dom.quirks, p⟩
  | .error _ => none

theorem obsOf_eq {x y : Except String (List SinkResult × State)} (h : SameOutcome x y) : obsOf x = obsOf y := by
  rcases (C03_same_outcome_iff x y).mp h with ⟨e, e', rfl, rfl⟩ | ⟨a, s, t, rfl, rfl, hs⟩
  · rfl
  · simp only [obsOf, hs.nodes, hs.quirks]

/-- a token-level parse: constructor `init`, the tokens, optionally `TreeBuilder::end` -/
def parseWith (init : M Unit) (finish : Bool) (ts : List (TokToken × Nat)) : M (List SinkResult) := do
  init
  let r ← processTokens ts []
  if finish then finishTB
  pure r

theorem parseWith_alike {init : M Unit} (hinit : Resp init) (finish : Bool) {ts1 ts2 : List (TokToken × Nat)}
    (h : Resplit ts1 ts2) (s t : State) (hst : SimS s t) :
    SameOutcome (parseWith init finish ts1 s) (parseWith init finish ts2 t) := by
  unfold parseWith
  refine relR_bind (hinit s t hst) (fun _ s1 t1 _ h1 => ?_)
  refine relR_bind (C03_tree_resplit_run h [] s1 t1 h1) (fun r s2 t2 _ h2 => ?_)
  cases finish with
  | false => exact ⟨rfl, trivial, h2⟩
  | true =>
    simp only [if_true]
    exact relR_bind (finishTB_resp s2 t2 h2) (fun _ s3 t3 _ h3 => ⟨rfl, trivial, h3⟩)

/-- **C03 lifted to the tree, documents**: two token streams that differ only in how character runs are
cut into tokens (and in line numbers) give — from `TreeBuilder::new`, with or without `end()` — both
a panic, or the same answers and `SimS` final states -/
theorem C03_tree_resplit (opts : Opts) (finish : Bool) {ts1 ts2 : List (TokToken × Nat)} (h : Resplit ts1 ts2) :
    SameOutcome (parseWith newTB finish ts1 (State.init opts)) (parseWith newTB finish ts2 (State.init opts)) :=
  parseWith_alike newTB_resp finish h _ _ (C03_tb_good_init opts).sim

/-- **C03 lifted to the tree, fragments**: the same from `TreeBuilder::new_for_fragment` with any context
element / form element, started in any state of the domain (e.g. a sink that already holds the context) -/
theorem C03_tree_resplit_fragment (ctx : Id) (form : Option Id) (finish : Bool) (s0 : State) (hg : GoodS s0)
    {ts1 ts2 : List (TokToken × Nat)} (h : Resplit ts1 ts2) :
    SameOutcome (parseWith (newForFragment ctx form) finish ts1 s0) (parseWith (newForFragment ctx form) finish ts2 s0) :=
  parseWith_alike (newForFragment_resp ctx form) finish h _ _ hg.sim

/-- the same with `TreeBuilder::end` spelled out -/
theorem C03_tree_resplit_end (opts : Opts) {ts1 ts2 : List (TokToken × Nat)} (h : Resplit ts1 ts2) :
    SameOutcome (parseWith newTB true ts1 (State.init opts)) (parseWith newTB true ts2 (State.init opts)) :=
  C03_tree_resplit opts true h

/-- **the observable results are equal**: same DOM arena, same quirks mode, same tokenizer-driving answers
(or both runs panic) -/
theorem C03_tree_obs (opts : Opts) (finish : Bool) {ts1 ts2 : List (TokToken × Nat)} (h : Resplit ts1 ts2) :
    obsOf (parseWith newTB finish ts1 (State.init opts)) = obsOf (parseWith newTB finish ts2 (State.init opts)) :=
  obsOf_eq (C03_tree_resplit opts finish h)

theorem C03_tree_obs_fragment (ctx : Id) (form : Option Id) (finish : Bool) (s0 : State) (hg : GoodS s0)
    {ts1 ts2 : List (TokToken × Nat)} (h : Resplit ts1 ts2) :
    obsOf (parseWith (newForFragment ctx form) finish ts1 s0) = obsOf (parseWith (newForFragment ctx form) finish ts2 s0) :=
  obsOf_eq (C03_tree_resplit_fragment ctx form finish s0 hg h)

/-- the domain of the relation is closed under every token (so it holds in every reachable state) -/
theorem C03_tb_good_preserved (tok : TokToken) (l : Nat) (s : State) (hg : GoodS s) {r : SinkResult} {s' : State}
    (h : processToken tok l s = .ok (r, s')) : GoodS s' := by
  have := C03_tb_sim_step tok l l s s hg.sim
  rw [h] at this
  exact this.2.2.good

/-! ## the criterion of the tokenizer correspondence: equal after merging adjacent character tokens -/

/-- merge adjacent character tokens, forget the line numbers -/
def mergeChars : List (TokToken × Nat) → List TokToken
  | [] => []
  | (.chars x, _) :: rest =>
    match mergeChars rest with
    | .chars y :: r => .chars (x ++ y) :: r
    | r => .chars x :: r
  | (t, _) :: rest => t :: mergeChars rest

/-- no empty character token (the tokenizer never emits one) -/
def CharsNonempty (ts : List (TokToken × Nat)) : Prop := ∀ x l, (TokToken.chars x, l) ∈ ts → x ≠ []

theorem mergeChars_cons_chars (x : Str) (l : Nat) (rest : List (TokToken × Nat)) :
    mergeChars ((.chars x, l) :: rest) =
      match mergeChars rest with
      | .chars y :: r => .chars (x ++ y) :: r
      | r => .chars x :: r := by
  rw [mergeChars]

theorem mergeChars_head_nonempty : ∀ (ts : List (TokToken × Nat)), CharsNonempty ts →
    ∀ y r, mergeChars ts = .chars y :: r → y ≠ []
  | [], _, _, _, h => by simp [mergeChars] at h
  | (t, l) :: rest, hne, y, r, h => by
    cases t with
    | chars x =>
      have hx : x ≠ [] := hne x l (List.mem_cons_self ..)
      rw [mergeChars_cons_chars] at h
      split at h
      · simp only [List.cons.injEq, TokToken.chars.injEq] at h
        rw [← h.1]; simp [hx]
      · simp only [List.cons.injEq, TokToken.chars.injEq] at h
        rw [← h.1]; exact hx
    | doctype d => simp [mergeChars] at h
    | tag t => simp [mergeChars] at h
    | comment c => simp [mergeChars] at h
    | nullChar => simp [mergeChars] at h
    | eof => simp [mergeChars] at h
    | parseError m => simp [mergeChars] at h

/-- every stream is a re-split of its merged form -/
theorem resplit_merge : ∀ (ts : List (TokToken × Nat)), CharsNonempty ts →
    Resplit ts ((mergeChars ts).map (·, 0))
  | [], _ => Resplit.refl _
  | (t, l) :: rest, hne => by
    have hrest : CharsNonempty rest := fun x l' h => hne x l' (List.mem_cons_of_mem _ h)
    have ih := resplit_merge rest hrest
    have hcons : ∀ t', Resplit ((t', l) :: rest) ((t', 0) :: (mergeChars rest).map (·, 0)) := fun t' =>
      Resplit.append (x := [(t', l)]) (y := [(t', 0)]) (.lines rfl) ih
    cases t with
    | chars x =>
      have hx : x ≠ [] := hne x l (List.mem_cons_self ..)
      rw [mergeChars_cons_chars]
      cases hm : mergeChars rest with
      | nil => simpa [hm] using hcons (.chars x)
      | cons t2 r =>
        cases t2 with
        | chars y =>
          have hy : y ≠ [] := mergeChars_head_nonempty rest hrest y r hm
          have h1 := hcons (.chars x)
          rw [hm] at h1
          refine h1.trans ?_
          exact Resplit.append (x := [(.chars x, 0), (.chars y, 0)]) (y := [(.chars (x ++ y), 0)])
            (x' := r.map (·, 0)) (y' := r.map (·, 0)) (Resplit.split x y 0 0 0 hx hy).symm (Resplit.refl _)
        | doctype d => simpa [hm] using hcons (.chars x)
        | tag t => simpa [hm] using hcons (.chars x)
        | comment c => simpa [hm] using hcons (.chars x)
        | nullChar => simpa [hm] using hcons (.chars x)
        | eof => simpa [hm] using hcons (.chars x)
        | parseError m => simpa [hm] using hcons (.chars x)
    | doctype d => simpa [mergeChars] using hcons (.doctype d)
    | tag t => simpa [mergeChars] using hcons (.tag t)
    | comment c => simpa [mergeChars] using hcons (.comment c)
    | nullChar => simpa [mergeChars] using hcons .nullChar
    | eof => simpa [mergeChars] using hcons .eof
    | parseError m => simpa [mergeChars] using hcons (.parseError m)

/-- **two token streams that are equal after merging adjacent character tokens are re-splits of each
other** — the comparison the tokenizer correspondence makes -/
theorem C03_resplit_of_merge_eq {ts1 ts2 : List (TokToken × Nat)} (h1 : CharsNonempty ts1) (h2 : CharsNonempty ts2)
    (h : mergeChars ts1 = mergeChars ts2) : Resplit ts1 ts2 := by
  have a := resplit_merge ts1 h1
  have b := resplit_merge ts2 h2
  rw [h] at a
  exact a.trans b.symm

/-- **C03 lifted to the tree, in the form of the tokenizer correspondence**: equal after merging adjacent
character tokens ⇒ same observable result of the parse -/
theorem C03_tree_merge_obs (opts : Opts) (finish : Bool) {ts1 ts2 : List (TokToken × Nat)}
    (h1 : CharsNonempty ts1) (h2 : CharsNonempty ts2) (h : mergeChars ts1 = mergeChars ts2) :
    obsOf (parseWith newTB finish ts1 (State.init opts)) = obsOf (parseWith newTB finish ts2 (State.init opts)) :=
  C03_tree_obs opts finish (C03_resplit_of_merge_eq h1 h2 h)

/-! ## non-vacuity -/

def sTag (n : String) : TokToken × Nat := (.tag { kind := .startTag, name := n.toList }, 1)
def eTag (n : String) : TokToken × Nat := (.tag { kind := .endTag, name := n.toList }, 1)

/-- `<table>` then "a b" in one piece / split in the middle, then `</table>`, EOF -/
def exOne : List (TokToken × Nat) := [sTag "table", (.chars "a b".toList, 1), eTag "table", (.eof, 2)]
def exTwo : List (TokToken × Nat) := [sTag "table", (.chars "a ".toList, 1), (.chars "b".toList, 2), eTag "table", (.eof, 3)]

theorem exOne_resplit_exTwo : Resplit exOne exTwo :=
  Resplit.append (x := [sTag "table"]) (y := [sTag "table"]) (Resplit.refl _)
    (Resplit.append (x := [(.chars ("a ".toList ++ "b".toList), 1)]) (y := [(.chars "a ".toList, 1), (.chars "b".toList, 2)])
      (Resplit.split _ _ 1 1 2 (by decide) (by decide)) (.lines (by decide)))

/-- both runs succeed (the theorem is not about two panics), the foster-parented text is ONE text node
"a b" before the table in both, and the observable results are equal -/
example : (obsOf (parseWith newTB true exOne (State.init {}))).isSome = true ∧
    obsOf (parseWith newTB true exOne (State.init {})) = obsOf (parseWith newTB true exTwo (State.init {})) := by
  decide +kernel

/-- … and this instance is what `C03_tree_obs` gives -/
example : obsOf (parseWith newTB true exOne (State.init {})) = obsOf (parseWith newTB true exTwo (State.init {})) :=
  C03_tree_obs {} true exOne_resplit_exTwo

/-- the parse-error logs DO differ under a split (one "Unexpected token" per character token in
"in frameset"), which is why `Obs` leaves them out -/
example :
    let run := fun ts => match parseWith newTB false ts (State.init {}) with
      | .ok (_, s) => s.dom.errorsRev.length | .error _ => 0
    run [sTag "frameset", (.chars "xy".toList, 1)] ≠ run [sTag "frameset", (.chars "x".toList, 1), (.chars "y".toList, 1)] := by
  decide +kernel

/-- formatting elements reconstructed under foster parenting, text split at every position -/
example :
    let pre := [sTag "b", sTag "p", eTag "b", sTag "table", sTag "tr"]
    let run := fun mid => obsOf (parseWith newTB true (pre ++ mid ++ [eTag "table", (.eof, 9)]) (State.init {}))
    (run [(.chars " x y".toList, 1)]).isSome = true ∧
    run [(.chars " x y".toList, 1)] = run [(.chars " ".toList, 1), (.chars "x y".toList, 1)] ∧
    run [(.chars " x y".toList, 1)] = run [(.chars " x".toList, 1), (.chars " ".toList, 2), (.chars "y".toList, 3)] := by
  decide +kernel

/-- `ignore_lf`: after `<pre>` the line feed may arrive alone or glued to the following text -/
example :
    let run := fun mid => obsOf (parseWith newTB true ([sTag "pre"] ++ mid ++ [(.eof, 9)]) (State.init {}))
    run [(.chars "\n\nab".toList, 1)] = run [(.chars "\n".toList, 1), (.chars "\nab".toList, 1)] ∧
    run [(.chars "\n\nab".toList, 1)] = run [(.chars "\n\na".toList, 1), (.chars "b".toList, 1)] := by
  decide +kernel

end H5V.Props.C03

#print axioms H5V.Props.C03.C03_tb_sim_fields
#print axioms H5V.Props.C03.C03_tb_sim_equiv
#print axioms H5V.Props.C03.C03_tb_char_split
#print axioms H5V.Props.C03.C03_tb_sim_step
#print axioms H5V.Props.C03.C03_tb_sim_end
#print axioms H5V.Props.C03.C03_tb_chars_continue
#print axioms H5V.Props.C03.C03_tree_resplit_run
#print axioms H5V.Props.C03.C03_tree_resplit
#print axioms H5V.Props.C03.C03_tree_resplit_fragment
#print axioms H5V.Props.C03.C03_tree_resplit_end
#print axioms H5V.Props.C03.C03_tree_obs
#print axioms H5V.Props.C03.C03_tree_obs_fragment
#print axioms H5V.Props.C03.C03_tb_good_preserved
#print axioms H5V.Props.C03.C03_resplit_of_merge_eq
#print axioms H5V.Props.C03.C03_tree_merge_obs
