import H5V.Lemmas.HtmlParseSpecAgree3
import H5V.Lemmas.HtmlParseSpecProto2
import H5V.Lemmas.HtmlParseSpecOutWf
import H5V.Lemmas.HtmlParseSpecHist
import H5V.Props.C01Sim
import H5V.Props.C02Modes
import H5V.Props.C03Joint
/-!
# C02 capstone — the MODEL of html5ever's whole parser performs the DOM construction of the WHATWG algorithm

For every input text `s`, the joint model of `driver.rs` (the tokenizer model with the tree-builder model as its
sink, `H5V.Model.HtmlTB.Joint`, fed `s` and finished: `H5V.Props.C03.parseChunks`) makes exactly the DOM calls
that the WHATWG pipeline `H5V.Spec.Parse.specParse` — the two INDEPENDENT specifications `Spec.HtmlTokenizer` and
the UNMODIFIED `Spec.TreeModes`, coupled by the standard's own feedback (`Spec.Parse.treeOfSpec`) — prescribes
for `s`; it leaves the document in the same mode, ends in the same insertion mode, gives the tokenizer the same
answers; and the token stream the tokenizer model delivered IS the specification's token stream.

It composes
* `C01_model_eq_spec_exact` (tokenizer model = `Spec.HtmlTokenizer.tokenize` for a policy/feedback pair `PolTree`),
* the per-token simulation of C02Modes (`pc_processToken`, here as the lock-step run `Lock` with the unmodified
  specification under the invariant `ModesInv.Inv`: the Assert of "in cell" cannot fail),
* the joint driver as a relation (`JRunsTo`/`JRunsD`, C03Joint), `C03_joint_chunk_independence`, and C03Tree
  (`C03_tree_resplit_run`, `C03_tb_sim_step`: re-splitting of character tokens, line numbers),
by new ingredients: the naturality of `Tokenizer::step` in the `out` register (`step_shift'`), which turns the joint
loop into a tokenizer-only run under a history policy (`jruns_star`, `feed_star`, `FinishData.star`); the policy
`polOfTree (treeOfSpec c)` for which `PolTree` holds by construction; the bridge `agrees_of_stream(X)`: that
policy answers like the tree-builder MODEL after every history the run passes through (tag answers:
`OutRelR`, `processToken_rawKind`; the CDATA question: `acn_bridge`); facts about the tokenizer's output
(`feed_finish_outWf`) and the "text" insertion mode protocol as a FACT of the joint run (`parse_hist_text`).

## Theorems (all for: any `exact_errors`, both values of `discard_bom`, `opts.quirksMode = .noQuirks`)
* `C02_parse_eq_spec_total` (in `H5V/Props/C02ParseTotal.lean`) — THE HEADLINE: `C02_parse_eq_spec_facts` with
  `EmptyOk` proved (`parse_hist_empty`).
* `C02_parse_eq_spec_facts`.  Hypotheses about the run, all decidable on the output
  (`ExParse.check3`): `opts.dropDoctype = false`; no tag of the delivered stream carries a `shadowrootmode`
  attribute (declarative shadow roots are outside `Spec.TreeModes`); `EmptyOk` (below).  Everything else that
  C02Modes' protocol `Respects2` asks is PROVED: tag names lower-case, attribute names distinct, no U+0000 in
  character tokens, EOF once and last (`feed_finish_outWf`); in the "text" insertion mode only characters / end
  tags / EOF / parse errors arrive (`parse_hist_text`: `step_textSt`, `processToken_enters_text`, …);
  `drop_doctype` / "initial" clauses (`processToken_opts`, `processToken_initial`).
  Conclusion `ParseAgreesX`: the specification's tokens = the model's tokens (exploded); `specParse … = .ok σ`;
  `σ.fullLog` = the DOM calls of the tree-builder model REPLAYING the exploded stream (`explode ts`: every character
  token cut into single characters), a run that ends with the DOM arena, quirks mode and answers of the joint run
  (C03); `σ.quirks`, `σ.mode`, `σ.outs` agree with the joint run.
* `C02_parse_eq_spec` — the joint run's OWN sink trace against `σ.fullLog` (conclusion `ParseAgrees`); needs
  `TokStreamOk`: `Respects2` of the delivered stream and every character token holding exactly ONE character.
  (`Spec.TreeModes.run` is only *intended* to be invariant under regrouping of character tokens; the tokenizer model
  emits multi-character tokens only from `emit_temp_buf`: CDATA sections and `</xy` inside RCDATA/RAWTEXT/script
  data.)
* `C02_parse_eq_spec_regrouped` (`TokStreamOkX` = `Respects2` of the exploded stream + `EmptyOk`) and
  `C02_parse_eq_spec_protocol` (`RespectsP` + `EmptyOk`) — the intermediate forms.
* `C02_parse_eq_spec_chunked`, `C02_parse_eq_spec_facts_chunked` — the text fed in any number of pieces
  (`C03_joint_chunk_independence`).
* `modelStream_total` — the token stream `modelStream o opts bom s` (what the tokenizer model delivers to the
  tree-builder model) exists for every input.

## What is assumed / not modelled
* `EmptyOk` (hypothesis of the theorems of THIS file only): whenever an EMPTY character token arrives, the tree builder's `ignore_lf` flag is clear.
  FINDING: the tokenizer does deliver an empty character token for `<![CDATA[]]>` in foreign content (and for EOF
  inside an empty CDATA section): `emit_temp_buf` with an empty buffer — `ExParse.empty_chars_token`.  The
  tree-builder model drops the token before the rules, but `process_token` has already taken (= cleared)
  `ignore_lf`; the specification has no token there.  With the flag clear the token only moves the line counter
  (`empty_chars_run`).  The flag is only set by `pre`/`listing`/`textarea` start tags, after which no CDATA section
  can start, so `EmptyOk` always holds: PROVED in `H5V.Lemmas.HtmlParseSpecEmptyProto` (`parse_hist_empty`) and discharged
  in `H5V/Props/C02ParseTotal.lean`.
* Scripts: the parse pauses at `</script>` (and at an encoding indicator) and is resumed at once: no script changes
  the tree or the input stream (neither side models script execution); scripting flag on or off.
* The joint run is assumed to succeed (`parseChunks … = .ok jf`): the tree-builder model is total only up to the
  residual failures of C04/C05 (meta-prescan messages, `maybe_clone_an_option_into_selectedcontent`).
* `fuel` (reprocessing steps per token) and the node supply `ids ++ rest` are parameters of the specification's
  run: "there are `ids` such that for all `rest` and all sufficient `fuel`".
-/
namespace H5V.Props.C02
open H5V.Model.HtmlTB
open H5V.Model.Dom (Id SinkOp Output Dom QualName Attr NodeOrText ElementFlags NodeData QuirksMode)
open H5V.Lemmas.HtmlTBAlgo
open H5V.Lemmas.HtmlTBModes
open H5V.Lemmas.TBSafe (TI HInv SInv)
open H5V.Props.C04TB (docStart)
open H5V.Model.HtmlTB.Joint (JState absorb polOf conv convTag toSinkRes)
open H5V.Lemmas.JointChunk
open H5V.Lemmas.ParseSpec
open H5V.Lemmas.HtmlTokSpec (flat flatTok PolTree)
open H5V.Spec.HtmlTokenizer (Emit Tree Switch)
open H5V.Spec.Parse (Cfg treeOfSpec specParse specTokens treeTok treeToken)
open H5V.Props.C03 (parseChunks Start)
open H5V.Model.HtmlTok (Mach Pol feedBom NoPause)

abbrev Chs := List Char

/-! ## the model side -/

/-- the tokenizer `Tokenizer::new` creates for a document (data state, `discard_bom` as given) -/
def tok0 (bom : Bool) : Mach := H5V.Props.C01.initMach .data none bom

/-- the sink "tree-builder model of a document parse with the options `opts`", as a policy over the history of
delivered tokens; a pause (Script / EncodingIndicator) is resumed at once -/
def polH (opts : Opts) : Pol :=
  { onTag := fun out tag => np ((polOf (j0Of opts)).onTag out tag)
    cdataOk := (polOf (j0Of opts)).cdataOk }

/-- **the token stream of a document parse**: what the tokenizer model delivers to the tree-builder model when
fed `s` in one piece (a pure function of the input) -/
def modelStream (o : TOpts) (opts : Opts) (bom : Bool) (s : Chs) : Option (List (TokToken × Nat)) :=
  match H5V.Model.HtmlTok.feed o (polH opts) (tok0 bom) [] s with
  | .done m1 _ =>
    match H5V.Model.HtmlTok.finish o (polH opts) m1 with
    | .ok mf => some (convAll mf.out.reverse)
    | .error _ => none
  | _ => none

theorem noPause_polH (opts : Opts) : NoPause (polH opts) := by
  intro out tag
  show np _ ≠ _ ∧ np _ ≠ _
  cases (polOf (j0Of opts)).onTag out tag <;> simp [np]

theorem agrees_polH (opts : Opts) : Agrees (polH opts) (j0Of opts) (fun _ => True) where
  suf := fun _ _ _ => trivial
  tag := fun X tag _ _ jx hjx => by
    show np ((polOf (j0Of opts)).onTag X tag) = _
    rw [polOf_onTag, hjx]
  cdata := fun X _ jx hjx => by
    show (polOf (j0Of opts)).cdataOk X = _
    rw [polOf_cdataOk, hjx]

/-- the token stream exists for EVERY input: the tokenizer model neither panics nor hangs under any sink
(`C04_tok_feed_terminates`, `C04_tok_end_total`) -/
theorem modelStream_total (o : TOpts) (opts : Opts) (bom : Bool) (s : Chs) :
    ∃ ts, modelStream o opts bom s = some ts := by
  unfold modelStream
  have hti : H5V.Model.HtmlTok.TInv (tok0 bom) := H5V.Model.HtmlTok.tinv_fresh _ rfl rfl rfl
  have hq0 : H5V.Model.HtmlTok.Quiet (tok0 bom) := H5V.Model.HtmlTok.quiet_fresh _ rfl rfl rfl
  obtain ⟨h1, h2⟩ := H5V.Props.C04.C04_tok_feed_terminates o (polH opts) (tok0 bom) [] s hti
  cases hf : H5V.Model.HtmlTok.feed o (polH opts) (tok0 bom) [] s with
  | done M1 i1 =>
    simp only
    obtain ⟨mf, hmf⟩ := H5V.Model.HtmlTok.finish_end_total o (polH opts) M1
      (H5V.Model.HtmlTok.feed_stops_quiet o (polH opts) _ [] s hq0 M1 i1 (by rw [hf]; rfl))
    rw [hmf]
    exact ⟨_, rfl⟩
  | script a b =>
    exfalso
    unfold H5V.Model.HtmlTok.feed at hf
    dsimp only at hf
    split at hf
    · cases hf
    · exact (H5V.Model.HtmlTok.run_noPause o (polH opts) (noPause_polH opts) _ _ _).1 a b hf
  | indicator a b =>
    exfalso
    unfold H5V.Model.HtmlTok.feed at hf
    dsimp only at hf
    split at hf
    · cases hf
    · exact (H5V.Model.HtmlTok.run_noPause o (polH opts) (noPause_polH opts) _ _ _).2 a b hf
  | panic e => exact absurd hf (h2 e)
  | outOfFuel => exact absurd hf h1

/-! ## the hypothesis on the token stream -/

/-- what the theorem needs of the token stream `ts` the tokenizer delivered (see the header) -/
structure TokStreamOk (opts : Opts) (ts : List (TokToken × Nat)) : Prop where
  resp : Respects2 (docStart opts) ts
  single : ∀ p ∈ ts, ∀ x, p.1 = .chars x → ∃ c, x = [c]

def tokStreamOkB (opts : Opts) (ts : List (TokToken × Nat)) : Bool :=
  respects2B (docStart opts) ts &&
  ts.all (fun p => match p.1 with | .chars x => x.length == 1 | _ => true)

theorem tokStreamOk_of_B {opts : Opts} {ts : List (TokToken × Nat)}
    (h : tokStreamOkB opts ts = true) : TokStreamOk opts ts := by
  simp only [tokStreamOkB, Bool.and_eq_true, List.all_eq_true] at h
  obtain ⟨h1, h2⟩ := h
  refine ⟨respects2_of_B _ _ h1, fun p hp x hx => ?_⟩
  have := h2 p hp
  rw [hx] at this
  simp only [beq_iff_eq] at this
  match x, this with
  | [c], _ => exact ⟨c, rfl⟩

/-- the hypothesis of the general theorem: the protocol holds for the EXPLODED stream (every character token
cut into single characters, empty character tokens erased), and whenever an empty character token arrives the
tree builder's `ignore_lf` flag is clear (`EmptyOk`) -/
structure TokStreamOkX (opts : Opts) (ts : List (TokToken × Nat)) : Prop where
  resp : Respects2 (docStart opts) (explode ts)
  emptyOk : EmptyOk (docStart opts) ts

def tokStreamOkXB (opts : Opts) (ts : List (TokToken × Nat)) : Bool :=
  respects2B (docStart opts) (explode ts) && emptyOkB (docStart opts) ts

theorem tokStreamOkX_of_B {opts : Opts} {ts : List (TokToken × Nat)}
    (h : tokStreamOkXB opts ts = true) : TokStreamOkX opts ts := by
  simp only [tokStreamOkXB, Bool.and_eq_true] at h
  exact ⟨respects2_of_B _ _ h.1, emptyOk_of_B _ _ h.2⟩

/-! ## the conclusion -/

/-- the model's run `jf` agrees with the specification's pipeline run with the parameters `c` on `input`;
`ts` is the token stream the tokenizer model delivered -/
def ParseAgrees (c : Cfg) (input : Chs) (ts : List (TokToken × Nat)) (jf : JState) : Prop :=
  ∃ σ : SState,
    -- the specification's tokenizer (coupled with its tree construction stage) delivers the model's tokens …
    (specTokens c input).map (fun l => l.filterMap treeToken) = some (specToks ts) ∧
    -- … the pipeline runs to the end …
    specParse c input = .ok σ ∧
    -- … with the DOM operations of the model's sink trace, in the same order (text compared per character) …
    (∃ calls, jf.tb.traceRev = calls.reverse ++ [(.getDocument, .node 0)] ∧
      ∀ tc, TcOk jf.tb.dom tc → flatCalls (edits2 calls) = flatCalls (σ.fullLog.map (opCall tc))) ∧
    -- … the same document mode, the same final insertion mode …
    σ.quirks = dmode jf.tb.quirksMode ∧ σ.mode = imode jf.tb.mode ∧
    -- … and the same answers to the tokenizer (state switches, scripts to run)
    jf.results.reverse.filterMap resAnswer = σ.outs.filterMap outAnswer

/-! ## unfolding the driver -/

theorem start_tok0 (bom : Bool) : Start (tok0 bom) := H5V.Props.C03.start_fresh .data none bom

/-! ## tokens -/

theorem treeToken_toToken (e : Emit) : treeToken (Emit.toToken e) = some (treeTok e) := by
  cases e <;> rfl

theorem filterMap_treeToken_canon (out : TOut) :
    (H5V.Props.C01.canon out).filterMap treeToken = (flat out).reverse.map treeTok := by
  rw [H5V.Props.C01.canon_eq_flat, List.filterMap_map]
  induction (flat out).reverse with
  | nil => rfl
  | cons e l ih =>
    rw [List.filterMap_cons, List.map_cons]
    simp only [Function.comp, treeToken_toToken, ih]

/-! ## the headline -/

/-- **C02, whole documents: the model of html5ever's parser = the WHATWG pipeline.**  For every input text `s`,
every tokenizer option (`exact_errors` on or off), both values of `discard_bom`, every tree-builder option set
with the default document mode: if the joint model (tokenizer with the tree builder as its sink, pauses resumed
at once), fed `s` in one piece and finished, succeeds with the joint state `jf`, and the token stream `ts` it
delivered satisfies `TokStreamOk`, then there are node identities `ids` (the ones the sink handed out) such that
for every further supply `rest` and every sufficient amount of reprocessing fuel the specification's pipeline
`specParse` on the same text (after the optional byte order mark) delivers the same tokens, succeeds, and ends
in a state with the model's DOM calls as its operation log, the model's document mode and the model's insertion
mode — unless the specification stops at the Assert of "in cell". -/
theorem C02_parse_eq_spec (o : TOpts) (opts : Opts) (hq : opts.quirksMode = .noQuirks) (bom : Bool) (N : Nat)
    (s : Chs) (jf : JState) (hrun : parseChunks o N (tok0 bom) (j0Of opts) [s] = .ok jf)
    (ts : List (TokToken × Nat)) (hts : modelStream o opts bom s = some ts) (hok : TokStreamOk opts ts) :
    ∃ ids, ∀ rest, ∃ F, ∀ fuel, F ≤ fuel →
      ParseAgrees ⟨docCfg opts, fuel, ids ++ rest⟩ (H5V.Props.C01.stripBom bom s) ts jf := by
  -- the history of the joint run
  obtain ⟨Hf, j3, ph⟩ := parse_hist (start_tok0 bom) hrun
  obtain ⟨le, rest0, hE⟩ := ph.eofHead
  have hHf := ph.hist
  have hft := ph.fin
  have hres := ph.res
  -- the delivered stream is `convAll Hf.reverse`
  have hstream : ts = convAll Hf.reverse := by
    unfold modelStream at hts
    cases hf : H5V.Model.HtmlTok.feed o (polH opts) (tok0 bom) [] s with
    | done M1 i1 =>
      rw [hf] at hts
      simp only at hts
      cases hfi : H5V.Model.HtmlTok.finish o (polH opts) M1 with
      | error e => rw [hfi] at hts; cases hts
      | ok mf =>
        rw [hfi] at hts
        simp only [Option.some.injEq] at hts
        rw [← hts, ph.star (polH opts) (noPause_polH opts) _ (agrees_polH opts) (fun _ _ => trivial) M1 i1 mf hf hfi]
    | script _ _ => rw [hf] at hts; cases hts
    | indicator _ _ => rw [hf] at hts; cases hts
    | panic _ => rw [hf] at hts; cases hts
    | outOfFuel => rw [hf] at hts; cases hts
  subst hstream
  -- the lock-step run of the tree builder and the specification over the stream
  have hmodel := absorb_model _ _ _ hHf
  obtain ⟨ids, f⟩ := lock_of_run (convAll Hf.reverse) [] (docStart opts) (H5V.Props.C04TB.C04_tb_inv_new opts)
    (minv_docStart opts) (xinv_docStart opts) hok.resp hmodel
  refine ⟨ids, fun rest => ?_⟩
  obtain ⟨x', F, _, hF⟩ := f { supply := ids ++ rest } rest (auxOk_docStart opts _) rfl
  refine ⟨F, fun fuel hfu => ?_⟩
  have hlock := hF fuel hfu
  -- the data of the stream
  have hsingle : SingleChars Hf := by
    intro p hp x hx
    exact hok.single _ (mem_convAll (l := Hf.reverse) (p := p) (by simpa using hp) (by rw [hx]; rfl)) x rfl
  have d : StreamData opts ⟨docCfg opts, fuel, ids ++ rest⟩ Hf j3 x' :=
    ⟨rfl, hHf, hlock, hok.resp, hsingle⟩
  have hag := agrees_of_stream hq d
  -- the tokenizer theorem for the policy of the coupling
  have hnp := noPause_polOfTree (treeOfSpec ⟨docCfg opts, fuel, ids ++ rest⟩)
  obtain ⟨m1', mf', hf1, hf2, htok⟩ := H5V.Props.C01.C01_model_eq_spec_exact o _ _
    (polTree_polOfTree _ (treeOfSpec_ne_data ⟨docCfg opts, fuel, ids ++ rest⟩)) .data none bom (by decide) s
  have hout : mf'.out = Hf := ph.star _ hnp _ hag (fun _ hX => hX) m1' [] mf' hf1 hf2
  rw [hout] at htok
  -- the tokens
  have hHf' : Hf = (H5V.Model.HtmlTok.Token.eof, le) :: rest0 := hE
  have hcv : convAll Hf.reverse = convAll rest0.reverse ++ [(TokToken.eof, le)] := by
    rw [hHf', List.reverse_cons, convAll_append]; rfl
  have hl' := hlock
  rw [hcv] at hl'
  obtain ⟨sp, xp, hlp, _⟩ := Lock.split hl'
  have hne := hlp.noEof (q := [(TokToken.eof, le)]) (by simp) (by rw [← hcv]; exact hok.resp)
  have hneX : NoEof rest0 := by
    intro p hp he
    have hm : (TokToken.eof, p.2) ∈ convAll rest0.reverse :=
      mem_convAll (l := rest0.reverse) (p := p) (List.mem_reverse.mpr hp) (by rw [he]; rfl)
    exact hne _ hm rfl
  have hsX : SingleChars rest0 := fun p hp => hsingle p (by rw [hHf']; exact List.mem_cons_of_mem _ hp)
  have htoks : (H5V.Props.C01.canon Hf ++ [H5V.Model.HtmlTok.Token.eof]).filterMap treeToken
      = specToks (convAll Hf.reverse) := by
    rw [List.filterMap_append, filterMap_treeToken_canon, hcv, specToks_append, specToks_convAll _ hsX hneX]
    have hfl : flat Hf = flat rest0 := by rw [hHf']; rfl
    rw [hfl]
    rfl
  have hspecT : specTokens ⟨docCfg opts, fuel, ids ++ rest⟩ (H5V.Props.C01.stripBom bom s)
      = some (H5V.Props.C01.canon Hf ++ [H5V.Model.HtmlTok.Token.eof]) := htok
  -- the tree construction stage over all the tokens
  have hrunS : Spec.TreeModes.run (docCfg opts) fuel (Spec.TreeModes.initialState (ids ++ rest))
      (specToks (convAll Hf.reverse)) = .ok (absF j3.tb x') := by
    have h1 := (hlock.runStd (xinv_docStart opts _ (auxOk_docStart opts _))).1
    rw [absF_docStart opts hq] at h1
    exact h1
  -- the end of the model's run: `TreeBuilder::end`
  obtain ⟨ops, calls, he1, e1, k1⟩ := hlock.log
  obtain ⟨calls2, he2, hs2, hc2⟩ := PC.of_tot (tot_finishTB j3.tb) () jf.tb hft
  obtain ⟨os, hos, hans⟩ := hlock.answers
  refine ⟨absF j3.tb x', ?_, ?_, ⟨calls ++ calls2, ?_, fun tc htc => ?_⟩, ?_, ?_, ?_⟩
  · rw [hspecT]; simp only [Option.map_some]; rw [htoks]
  · unfold specParse
    rw [hspecT]
    simp only
    rw [htoks]
    exact hrunS
  · rw [he2.trace, he1.trace]
    simp [docStart]
  · have hext : H5V.Lemmas.TBSafe.Ext j3.tb.dom jf.tb.dom := replay_ext he2.replay
    have e0 : ({ supply := ids ++ rest } : Aux).fullLog = [] := rfl
    rw [absF_fullLog, e1, e0, List.nil_append, edits2_append, ← edits2_edits calls2, hc2, edits2_nil, List.append_nil]
    exact k1 tc (tcOk_of_ext htc hext)
  · show dmode j3.tb.quirksMode = dmode jf.tb.quirksMode
    rw [hs2]
  · show imode j3.tb.mode = imode jf.tb.mode
    rw [hs2]
  · show _ = x'.outs.filterMap outAnswer
    rw [hres, hans [] j3.results j3.tb hmodel, hos]
    rfl


/-! ## every grouping of the character tokens -/

/-- the conclusion of the general theorem: as `ParseAgrees`, but the specification's DOM operations are compared
with the sink trace of the tree-builder model fed the EXPLODED stream (`explode ts`); that run ends with the
same DOM arena, the same quirks mode and the same answers as the joint run `jf` -/
def ParseAgreesX (opts : Opts) (c : Cfg) (input : Chs) (ts : List (TokToken × Nat)) (jf : JState) : Prop :=
  ∃ σ : SState,
    (specTokens c input).map (fun l => l.filterMap treeToken) = some (specToks (explode ts)) ∧
    specParse c input = .ok σ ∧
    (∃ res se calls, (H5V.Props.C04TB.parseDocument (explode ts)).run (State.init opts) = .ok (res, se) ∧
      se.traceRev = calls.reverse ++ [(.getDocument, .node 0)] ∧
      (∀ tc, TcOk se.dom tc → flatCalls (edits2 calls) = flatCalls (σ.fullLog.map (opCall tc))) ∧
      se.dom.nodes = jf.tb.dom.nodes ∧ se.dom.quirks = jf.tb.dom.quirks ∧ res = jf.results) ∧
    σ.quirks = dmode jf.tb.quirksMode ∧ σ.mode = imode jf.tb.mode ∧
    jf.results.reverse.filterMap resAnswer = σ.outs.filterMap outAnswer

/-- **C02, whole documents, every grouping of character tokens.**  As `C02_parse_eq_spec`, without the
restriction to single-character tokens: the protocol hypothesis is asked of the exploded stream, and the
specification's DOM operations are those of the tree-builder model REPLAYING the exploded stream — a run that by
C03 (`C03_tree_resplit_run`) ends with the DOM arena, quirks mode and answers of the joint run. -/
theorem C02_parse_eq_spec_regrouped (o : TOpts) (opts : Opts) (hq : opts.quirksMode = .noQuirks) (bom : Bool)
    (N : Nat) (s : Chs) (jf : JState) (hrun : parseChunks o N (tok0 bom) (j0Of opts) [s] = .ok jf)
    (ts : List (TokToken × Nat)) (hts : modelStream o opts bom s = some ts) (hok : TokStreamOkX opts ts) :
    ∃ ids, ∀ rest, ∃ F, ∀ fuel, F ≤ fuel →
      ParseAgreesX opts ⟨docCfg opts, fuel, ids ++ rest⟩ (H5V.Props.C01.stripBom bom s) ts jf := by
  -- the history of the joint run
  obtain ⟨Hf, j3, ph⟩ := parse_hist (start_tok0 bom) hrun
  obtain ⟨le, rest0, hE⟩ := ph.eofHead
  have hHf := ph.hist
  have hft := ph.fin
  have hres := ph.res
  -- the delivered stream is `convAll Hf.reverse`
  have hstream : ts = convAll Hf.reverse := by
    unfold modelStream at hts
    cases hf : H5V.Model.HtmlTok.feed o (polH opts) (tok0 bom) [] s with
    | done M1 i1 =>
      rw [hf] at hts
      simp only at hts
      cases hfi : H5V.Model.HtmlTok.finish o (polH opts) M1 with
      | error e => rw [hfi] at hts; cases hts
      | ok mf =>
        rw [hfi] at hts
        simp only [Option.some.injEq] at hts
        rw [← hts, ph.star (polH opts) (noPause_polH opts) _ (agrees_polH opts) (fun _ _ => trivial) M1 i1 mf hf hfi]
    | script _ _ => rw [hf] at hts; cases hts
    | indicator _ _ => rw [hf] at hts; cases hts
    | panic _ => rw [hf] at hts; cases hts
    | outOfFuel => rw [hf] at hts; cases hts
  subst hstream
  -- the tree builder fed the exploded stream
  have hmodel := absorb_model _ _ _ hHf
  have hra := runAlike_explode _ [] (docStart opts) (docStart opts) (good_docStart opts).sim hok.emptyOk
  have hm' : processTokens (convAll Hf.reverse) [] (docStart opts) = .ok (j3.results, j3.tb) := hmodel
  rw [hm'] at hra
  cases hme : processTokens (explode (convAll Hf.reverse)) [] (docStart opts) with
  | error e => rw [hme] at hra; exact hra.elim
  | ok v =>
  obtain ⟨rese, se⟩ := v
  rw [hme] at hra
  obtain ⟨hrese, _, hsim⟩ := hra
  have hmodelE : (processTokens (explode (convAll Hf.reverse)) []).run (docStart opts) = .ok (rese, se) := hme
  obtain ⟨ids, f⟩ := lock_of_run (explode (convAll Hf.reverse)) [] (docStart opts)
    (H5V.Props.C04TB.C04_tb_inv_new opts) (minv_docStart opts) (xinv_docStart opts) hok.resp hmodelE
  refine ⟨ids, fun rest => ?_⟩
  obtain ⟨x', F, _, hF⟩ := f { supply := ids ++ rest } rest (auxOk_docStart opts _) rfl
  refine ⟨F, fun fuel hfu => ?_⟩
  have hlock := hF fuel hfu
  have d : StreamDataX opts ⟨docCfg opts, fuel, ids ++ rest⟩ Hf j3 se x' :=
    ⟨rfl, hHf, hlock, hok.resp, hok.emptyOk, ⟨le, rest0, hE⟩⟩
  have hag := agrees_of_streamX hq d
  have hnp := noPause_polOfTree (treeOfSpec ⟨docCfg opts, fuel, ids ++ rest⟩)
  obtain ⟨m1', mf', hf1, hf2, htok⟩ := H5V.Props.C01.C01_model_eq_spec_exact o _ _
    (polTree_polOfTree _ (treeOfSpec_ne_data ⟨docCfg opts, fuel, ids ++ rest⟩)) .data none bom (by decide) s
  have hout : mf'.out = Hf := ph.star _ hnp _ hag (fun _ hX => hX) m1' [] mf' hf1 hf2
  rw [hout] at htok
  -- the tokens
  have hHf' : Hf = (H5V.Model.HtmlTok.Token.eof, le) :: rest0 := hE
  have hcv : convAll Hf.reverse = convAll rest0.reverse ++ [(TokToken.eof, le)] := by
    rw [hHf', List.reverse_cons, convAll_append]; rfl
  have hcvx : explode (convAll Hf.reverse) = explode (convAll rest0.reverse) ++ [(TokToken.eof, le)] := by
    rw [hcv, explode_append]; rfl
  have hl' := hlock
  rw [hcvx] at hl'
  obtain ⟨sp, xp, hlp, _⟩ := Lock.split hl'
  have hne := hlp.noEof (q := [(TokToken.eof, le)]) (by simp) (by rw [← hcvx]; exact hok.resp)
  have hneX : NoEof rest0 := by
    intro p hp he
    have hm : (TokToken.eof, p.2) ∈ convAll rest0.reverse :=
      mem_convAll (l := rest0.reverse) (p := p) (List.mem_reverse.mpr hp) (by rw [he]; rfl)
    exact hne _ (mem_explode_eof hm) rfl
  have htoks : (H5V.Props.C01.canon Hf ++ [H5V.Model.HtmlTok.Token.eof]).filterMap treeToken
      = specToks (explode (convAll Hf.reverse)) := by
    rw [List.filterMap_append, filterMap_treeToken_canon, hcvx, specToks_append, specToks_explode_convAll _ hneX]
    have hfl : flat Hf = flat rest0 := by rw [hHf']; rfl
    rw [hfl]
    rfl
  have hspecT : specTokens ⟨docCfg opts, fuel, ids ++ rest⟩ (H5V.Props.C01.stripBom bom s)
      = some (H5V.Props.C01.canon Hf ++ [H5V.Model.HtmlTok.Token.eof]) := htok
  have hrunS : Spec.TreeModes.run (docCfg opts) fuel (Spec.TreeModes.initialState (ids ++ rest))
      (specToks (explode (convAll Hf.reverse))) = .ok (absF se x') := by
    have h1 := (hlock.runStd (xinv_docStart opts _ (auxOk_docStart opts _))).1
    rw [absF_docStart opts hq] at h1
    exact h1
  -- `TreeBuilder::end` on both runs
  have hend := H5V.Props.C03.C03_tb_sim_end j3.tb se hsim
  have hft' : finishTB j3.tb = .ok ((), jf.tb) := hft
  rw [hft'] at hend
  cases hfe : finishTB se with
  | error e => rw [hfe] at hend; exact hend.elim
  | ok w =>
  obtain ⟨⟨⟩, se'⟩ := w
  rw [hfe] at hend
  obtain ⟨_, _, hsim'⟩ := hend
  have hfe' : finishTB.run se = .ok ((), se') := hfe
  obtain ⟨ops, calls, he1, e1, k1⟩ := hlock.log
  obtain ⟨calls2, he2, hs2, hc2⟩ := PC.of_tot (tot_finishTB se) () se' hfe'
  obtain ⟨os, hos, hans⟩ := hlock.answers
  have hfields := H5V.Props.C03.C03_tb_sim_fields hsim'
  refine ⟨absF se x', ?_, ?_, ⟨rese, se', calls ++ calls2, ?_, ?_, fun tc htc => ?_, ?_, ?_, ?_⟩, ?_, ?_, ?_⟩
  · rw [hspecT]; simp only [Option.map_some]; rw [htoks]
  · unfold specParse
    rw [hspecT]
    simp only
    rw [htoks]
    exact hrunS
  · rw [H5V.Props.C04TB.parseDocument_run]
    show (processTokens (explode (convAll Hf.reverse)) [] >>= fun r => finishTB >>= fun _ => pure r) (docStart opts) = _
    rw [H5V.Lemmas.TBSplit.bind_apply, hme]
    simp only
    rw [H5V.Lemmas.TBSplit.bind_apply, hfe]
    rfl
  · rw [he2.trace, he1.trace]
    simp [docStart]
  · have hext : H5V.Lemmas.TBSafe.Ext se.dom se'.dom := replay_ext he2.replay
    have e0 : ({ supply := ids ++ rest } : Aux).fullLog = [] := rfl
    rw [absF_fullLog, e1, e0, List.nil_append, edits2_append, ← edits2_edits calls2, hc2, edits2_nil, List.append_nil]
    exact k1 tc (tcOk_of_ext htc hext)
  · exact hfields.2.2.2.2.2.2.2.2.2.2.2.2.2.2.1.symm
  · exact hfields.2.2.2.2.2.2.2.2.2.2.2.2.2.2.2.1.symm
  · rw [hres]; exact hrese.symm
  · show dmode se.quirksMode = dmode jf.tb.quirksMode
    have : se'.quirksMode = se.quirksMode := by rw [hs2]
    rw [hfields.2.2.2.2.1, this]
  · show imode se.mode = imode jf.tb.mode
    rw [hfields.2.1]
    have : se'.mode = se.mode := by rw [hs2]
    rw [this]
  · show _ = x'.outs.filterMap outAnswer
    rw [hres, hrese, hans [] rese se hmodelE, hos]
    rfl


/-! ## the protocol hypothesis reduced to what is not a fact about the tokenizer -/

/-- **C02, whole documents, residual hypothesis.**  The token-only parts of the protocol (tags with lower-case
names and distinct attribute names, character tokens without U+0000, end-of-file delivered once and last) are
FACTS about the tokenizer model (`feed_finish_outWf`); what is left of `TokStreamOkX` is `RespectsP` — in the
"text" insertion mode only characters / end tags / EOF arrive, the DOCTYPE clauses, no `shadowrootmode`
attribute — and `EmptyOk` (when an empty character token arrives, `ignore_lf` is clear). -/
theorem C02_parse_eq_spec_protocol (o : TOpts) (opts : Opts) (hq : opts.quirksMode = .noQuirks) (bom : Bool)
    (N : Nat) (s : Chs) (jf : JState) (hrun : parseChunks o N (tok0 bom) (j0Of opts) [s] = .ok jf)
    (ts : List (TokToken × Nat)) (hts : modelStream o opts bom s = some ts)
    (hp : RespectsP (docStart opts) (explode ts)) (hne : EmptyOk (docStart opts) ts) :
    ∃ ids, ∀ rest, ∃ F, ∀ fuel, F ≤ fuel →
      ParseAgreesX opts ⟨docCfg opts, fuel, ids ++ rest⟩ (H5V.Props.C01.stripBom bom s) ts jf := by
  refine C02_parse_eq_spec_regrouped o opts hq bom N s jf hrun ts hts ⟨?_, hne⟩
  -- the stream is the log of a `feed` + `finish` of the tokenizer model
  unfold modelStream at hts
  cases hf : H5V.Model.HtmlTok.feed o (polH opts) (tok0 bom) [] s with
  | done M1 i1 =>
    rw [hf] at hts
    simp only at hts
    cases hfi : H5V.Model.HtmlTok.finish o (polH opts) M1 with
    | error e => rw [hfi] at hts; cases hts
    | ok mf =>
      rw [hfi] at hts
      simp only [Option.some.injEq] at hts
      obtain ⟨l, rest, hout, hwf⟩ := feed_finish_outWf o (polH opts) .data none bom s M1 i1 mf hf hfi
      have hts' : ts = convAll rest.reverse ++ [(TokToken.eof, l)] := by
        rw [← hts, hout, List.reverse_cons, convAll_append]; rfl
      have hex : explode ts = explode (convAll rest.reverse) ++ [(TokToken.eof, l)] := by
        rw [hts', explode_append]; rfl
      have hwf' : ∀ p ∈ rest.reverse, TokWfT' p.1 := by
        intro p hp'
        have := (hwf p (List.mem_reverse.mp hp')).1
        cases hp1 : p.1 <;> rw [hp1] at this <;> exact this
      have hnoeof : ∀ p ∈ rest.reverse, p.1 ≠ .eof := fun p hp' => (hwf p (List.mem_reverse.mp hp')).2
      refine respects2_of_parts _ _ hp ?_ ?_
      · intro q hq'
        rw [hex] at hq'
        rcases List.mem_append.mp hq' with h | h
        · exact tokOkT_explode hwf' q h
        · simp only [List.mem_singleton] at h
          subst h
          trivial
      · rw [hex]
        exact eofLast_append_eof _ l (noEof_explode hnoeof)
  | script _ _ => rw [hf] at hts; cases hts
  | indicator _ _ => rw [hf] at hts; cases hts
  | panic _ => rw [hf] at hts; cases hts
  | outOfFuel => rw [hf] at hts; cases hts


/-- the stream of `modelStream` is the history of the joint parse -/
theorem stream_of_hist {o : TOpts} {opts : Opts} {bom : Bool} {s : Chs} {jf : JState} {Hf : TOut} {j3 : JState}
    (ph : ParseHist o (tok0 bom) (j0Of opts) s jf Hf j3) {ts : List (TokToken × Nat)}
    (hts : modelStream o opts bom s = some ts) : ts = convAll Hf.reverse := by
  unfold modelStream at hts
  cases hf : H5V.Model.HtmlTok.feed o (polH opts) (tok0 bom) [] s with
  | done M1 i1 =>
    rw [hf] at hts
    simp only at hts
    cases hfi : H5V.Model.HtmlTok.finish o (polH opts) M1 with
    | error e => rw [hfi] at hts; cases hts
    | ok mf =>
      rw [hfi] at hts
      simp only [Option.some.injEq] at hts
      rw [← hts, ph.star (polH opts) (noPause_polH opts) _ (agrees_polH opts) (fun _ _ => trivial) M1 i1 mf hf hfi]
  | script _ _ => rw [hf] at hts; cases hts
  | indicator _ _ => rw [hf] at hts; cases hts
  | panic _ => rw [hf] at hts; cases hts
  | outOfFuel => rw [hf] at hts; cases hts

/-- **C02, whole documents, from facts.**  The "text" insertion mode protocol is a FACT about every successful
joint parse (`parse_hist_text`: from a raw-text state the tokenizer only delivers characters, parse errors and the
end tag; the tree builder enters "text" only by answering `RawData`), and so are the `drop_doctype` / "initial"
clauses for `opts.dropDoctype = false`.  What remains as hypotheses about the run: no tag carries a
`shadowrootmode` attribute (declarative shadow roots are outside `Spec.TreeModes`), and `EmptyOk` (the `ignore_lf`
flag is clear when an empty character token arrives). -/
theorem C02_parse_eq_spec_facts (o : TOpts) (opts : Opts) (hq : opts.quirksMode = .noQuirks)
    (hdd : opts.dropDoctype = false) (bom : Bool) (N : Nat) (s : Chs) (jf : JState)
    (hrun : parseChunks o N (tok0 bom) (j0Of opts) [s] = .ok jf)
    (ts : List (TokToken × Nat)) (hts : modelStream o opts bom s = some ts)
    (hshadow : ∀ p ∈ ts, ∀ t, p.1 = .tag t → ∀ a ∈ t.attrs, a.name.loc ≠ "shadowrootmode".toList)
    (hempty : EmptyOk (docStart opts) ts) :
    ∃ ids, ∀ rest, ∃ F, ∀ fuel, F ≤ fuel →
      ParseAgreesX opts ⟨docCfg opts, fuel, ids ++ rest⟩ (H5V.Props.C01.stripBom bom s) ts jf := by
  obtain ⟨Hf, j3, ph, htext⟩ := parse_hist_text (start_tok0 bom) (crInv_of_none rfl) hrun
    (show TI (j0Of opts).tb from H5V.Props.C04TB.C04_tb_inv_new opts) (good_docStart opts)
    (show (docStart opts).mode ≠ .text by simp [docStart, State.init])
  have hstream := stream_of_hist ph hts
  subst hstream
  have hp : RespectsP (docStart opts) (convAll Hf.reverse) :=
    respectsP_of_facts hq hdd _ _ (H5V.Props.C04TB.C04_tb_inv_new opts) ⟨rfl, fun _ => rfl⟩ htext hshadow
  exact C02_parse_eq_spec_protocol o opts hq bom N s jf hrun _ hts
    (respectsP_explode _ _ _ (good_docStart opts).sim hempty hp) hempty

/-- **any chunking of the input** (through `C03_joint_chunk_independence`): if the text arrives in any number of
pieces and the chunked joint parse succeeds with `jf`, the conclusion holds for `jf` and the concatenated text -/
theorem C02_parse_eq_spec_chunked (o : TOpts) (opts : Opts) (hq : opts.quirksMode = .noQuirks) (bom : Bool) (N : Nat)
    (chunks : List Chs) (jf : JState) (hrun : parseChunks o N (tok0 bom) (j0Of opts) chunks = .ok jf)
    (ts : List (TokToken × Nat)) (hts : modelStream o opts bom chunks.flatten = some ts)
    (hok : TokStreamOk opts ts) :
    ∃ ids, ∀ rest, ∃ F, ∀ fuel, F ≤ fuel →
      ParseAgrees ⟨docCfg opts, fuel, ids ++ rest⟩ (H5V.Props.C01.stripBom bom chunks.flatten) ts jf := by
  obtain ⟨N0, h0⟩ := H5V.Props.C03.C03_joint_chunk_independence o N _ _ chunks jf (start_tok0 bom) hrun
  exact C02_parse_eq_spec o opts hq bom N0 chunks.flatten jf (h0 N0 (Nat.le_refl _)) ts hts hok


/-- the headline for any chunking of the input -/
theorem C02_parse_eq_spec_facts_chunked (o : TOpts) (opts : Opts) (hq : opts.quirksMode = .noQuirks)
    (hdd : opts.dropDoctype = false) (bom : Bool) (N : Nat) (chunks : List Chs) (jf : JState)
    (hrun : parseChunks o N (tok0 bom) (j0Of opts) chunks = .ok jf)
    (ts : List (TokToken × Nat)) (hts : modelStream o opts bom chunks.flatten = some ts)
    (hshadow : ∀ p ∈ ts, ∀ t, p.1 = .tag t → ∀ a ∈ t.attrs, a.name.loc ≠ "shadowrootmode".toList)
    (hempty : EmptyOk (docStart opts) ts) :
    ∃ ids, ∀ rest, ∃ F, ∀ fuel, F ≤ fuel →
      ParseAgreesX opts ⟨docCfg opts, fuel, ids ++ rest⟩ (H5V.Props.C01.stripBom bom chunks.flatten) ts jf := by
  obtain ⟨N0, h0⟩ := H5V.Props.C03.C03_joint_chunk_independence o N _ _ chunks jf (start_tok0 bom) hrun
  exact C02_parse_eq_spec_facts o opts hq hdd bom N0 chunks.flatten jf (h0 N0 (Nat.le_refl _)) ts hts hshadow hempty


/-! ## non-vacuity: a concrete document -/
namespace ExParse
open H5V.Spec.Parse (defaultCfg)

/-- DOCTYPE, RCDATA with a character reference, a script (script data switch, pause at `</script>`), table
modes, foreign content with a CDATA section -/
def doc : Chs :=
  "<!DOCTYPE html><title>a&amp;b</title><script>1<2</script><table><tr><td>x<svg><![CDATA[y]]></svg>".toList

/-- the joint model's parse of `doc` (fed in one piece, `discard_bom` on, default options) -/
def run : Except String JState := parseChunks ⟨false⟩ 50 (tok0 true) (j0Of {}) [doc]

/-- all the hypotheses of the headline for `doc`, as one Boolean -/
def check : Bool :=
  match run, modelStream ⟨false⟩ {} true doc with
  | .ok _, some ts => tokStreamOkB {} ts
  | _, _ => false

theorem check_true : check = true := by decide +kernel

/-- the joint parse of `doc` succeeds, its token stream exists and satisfies `TokStreamOk` — so the conclusion of
`C02_parse_eq_spec` holds for it -/
theorem doc_agrees : ∃ jf ts, run = .ok jf ∧ modelStream ⟨false⟩ {} true doc = some ts ∧
    TokStreamOk {} ts ∧
    ∃ ids, ∀ rest, ∃ F, ∀ fuel, F ≤ fuel →
      ParseAgrees ⟨docCfg {}, fuel, ids ++ rest⟩ (H5V.Props.C01.stripBom true doc) ts jf := by
  have h := check_true
  unfold check at h
  cases hr : run with
  | error e => rw [hr] at h; cases h
  | ok jf =>
    rw [hr] at h
    cases hm : modelStream ⟨false⟩ {} true doc with
    | none => rw [hm] at h; cases h
    | some ts =>
      rw [hm] at h
      have hok := tokStreamOk_of_B h
      exact ⟨jf, ts, rfl, rfl, hok, C02_parse_eq_spec ⟨false⟩ {} rfl true 50 doc jf hr ts hm hok⟩

/-- both sides evaluated by the kernel: with the nodes `1, 2, 3, …` the specification's tokenizer (coupled with its
tree construction stage) delivers the model's 19 tokens, and the pipeline ends in "in cell" after 29 DOM operations -/
example : (specTokens (defaultCfg 50 60) doc).map (fun l => l.filterMap treeToken)
      = (modelStream ⟨false⟩ {} true doc).map specToks ∧
    (match specParse (defaultCfg 50 60) doc with
      | .ok σ => (σ.fullLog.length, σ.mode) | .error _ => (0, .initial)) = (29, .inCell) := by
  decide +kernel


/-- a document whose stream has multi-character tokens (`ab` from `</ab>` inside RCDATA, `yz` from the CDATA
section): `TokStreamOk` fails, `TokStreamOkX` holds -/
def doc2 : Chs := "<!DOCTYPE html><title>x</ab>y</title><p><svg><![CDATA[yz]]></svg>".toList

def run2 : Except String JState := parseChunks ⟨false⟩ 50 (tok0 true) (j0Of {}) [doc2]

def check2 : Bool :=
  match run2, modelStream ⟨false⟩ {} true doc2 with
  | .ok _, some ts => tokStreamOkXB {} ts && !tokStreamOkB {} ts
  | _, _ => false

theorem check2_true : check2 = true := by decide +kernel

theorem doc2_agrees : ∃ jf ts, run2 = .ok jf ∧ modelStream ⟨false⟩ {} true doc2 = some ts ∧
    TokStreamOkX {} ts ∧
    ∃ ids, ∀ rest, ∃ F, ∀ fuel, F ≤ fuel →
      ParseAgreesX {} ⟨docCfg {}, fuel, ids ++ rest⟩ (H5V.Props.C01.stripBom true doc2) ts jf := by
  have h := check2_true
  unfold check2 at h
  cases hr : run2 with
  | error e => rw [hr] at h; cases h
  | ok jf =>
    rw [hr] at h
    cases hm : modelStream ⟨false⟩ {} true doc2 with
    | none => rw [hm] at h; cases h
    | some ts =>
      rw [hm] at h
      simp only [Bool.and_eq_true] at h
      have hok := tokStreamOkX_of_B h.1
      exact ⟨jf, ts, rfl, rfl, hok, C02_parse_eq_spec_regrouped ⟨false⟩ {} rfl true 50 doc2 jf hr ts hm hok⟩

/-- a document with an EMPTY CDATA section (and a two-character one): covered by the general theorems -/
def doc3 : Chs := "<!DOCTYPE html><p><svg><![CDATA[]]>x<![CDATA[ab]]></svg>".toList

def run3 : Except String JState := parseChunks ⟨false⟩ 50 (tok0 true) (j0Of {}) [doc3]

/-- no tag of the stream has a `shadowrootmode` attribute -/
def noShadowB (ts : List (TokToken × Nat)) : Bool :=
  ts.all fun p => match p.1 with
    | .tag t => t.attrs.all fun a => a.name.loc != "shadowrootmode".toList
    | _ => true

theorem noShadow_of_B {ts : List (TokToken × Nat)} (h : noShadowB ts = true) :
    ∀ p ∈ ts, ∀ t, p.1 = .tag t → ∀ a ∈ t.attrs, a.name.loc ≠ "shadowrootmode".toList := by
  intro p hp t ht a ha
  simp only [noShadowB, List.all_eq_true] at h
  have := h p hp
  rw [ht] at this
  simp only [List.all_eq_true, bne_iff_ne, ne_eq] at this
  exact this a ha

/-- the hypotheses of `C02_parse_eq_spec_facts` for `doc3`: the run succeeds, no `shadowrootmode` attribute,
`ignore_lf` is clear when the empty character token arrives (and there IS an empty character token) -/
def check3 : Bool :=
  match run3, modelStream ⟨false⟩ {} true doc3 with
  | .ok _, some ts => noShadowB ts && emptyOkB (docStart {}) ts && ts.any (fun p => p.1 == .chars [])
  | _, _ => false

theorem check3_true : check3 = true := by decide +kernel

theorem doc3_agrees : ∃ jf ts, run3 = .ok jf ∧ modelStream ⟨false⟩ {} true doc3 = some ts ∧
    ∃ ids, ∀ rest, ∃ F, ∀ fuel, F ≤ fuel →
      ParseAgreesX {} ⟨docCfg {}, fuel, ids ++ rest⟩ (H5V.Props.C01.stripBom true doc3) ts jf := by
  have h := check3_true
  unfold check3 at h
  cases hr : run3 with
  | error e => rw [hr] at h; cases h
  | ok jf =>
    rw [hr] at h
    cases hm : modelStream ⟨false⟩ {} true doc3 with
    | none => rw [hm] at h; cases h
    | some ts =>
      rw [hm] at h
      simp only [Bool.and_eq_true] at h
      exact ⟨jf, ts, rfl, rfl, C02_parse_eq_spec_facts ⟨false⟩ {} rfl rfl true 50 doc3 jf hr ts hm
        (noShadow_of_B h.1.1) (emptyOk_of_B _ _ h.1.2)⟩

/-- FINDING: an empty CDATA section in foreign content makes the tokenizer deliver an EMPTY character token
(`emit_temp_buf` with an empty buffer) — a token the protocol hypothesis of C02Modes excludes -/
theorem empty_chars_token :
    (modelStream ⟨false⟩ {} true "<svg><![CDATA[]]>".toList).map (fun ts => ts.any (fun p => p.1 == .chars [])) = some true := by
  decide +kernel

end ExParse

end H5V.Props.C02

#print axioms H5V.Props.C02.C02_parse_eq_spec
#print axioms H5V.Props.C02.C02_parse_eq_spec_chunked
#print axioms H5V.Props.C02.C02_parse_eq_spec_regrouped
#print axioms H5V.Props.C02.C02_parse_eq_spec_protocol
#print axioms H5V.Props.C02.C02_parse_eq_spec_facts
#print axioms H5V.Props.C02.C02_parse_eq_spec_facts_chunked
#print axioms H5V.Lemmas.ParseSpec.parse_hist_text
#print axioms H5V.Props.C02.modelStream_total
#print axioms H5V.Props.C02.ExParse.doc2_agrees
#print axioms H5V.Props.C02.ExParse.doc3_agrees
#print axioms H5V.Lemmas.ParseSpec.feed_finish_outWf
#print axioms H5V.Lemmas.ParseSpec.processToken_rawKind
#print axioms H5V.Lemmas.ParseSpec.agrees_of_streamX
#print axioms H5V.Props.C02.ExParse.doc_agrees
#print axioms H5V.Lemmas.ParseSpec.step_shift
#print axioms H5V.Lemmas.ParseSpec.agrees_of_stream
#print axioms H5V.Lemmas.ParseSpec.lock_of_run
