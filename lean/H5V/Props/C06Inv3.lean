import H5V.Props.C06Inv2
/-!
# C06, third layer: no two text nodes are adjacent siblings — and the whole skeleton predicate

`H5V/Props/C06.lean` proves the clause "no two adjacent text siblings" only across contract-abiding,
non-detaching call sequences.  Here it is proved for the tree builder itself, for **all** token lists
and option sets, in every reachable state: the state invariant `AdjD s.dom s.openElems`
(`H5V/Lemmas/HtmlTBSkelAdjDef.lean`) is a field of the layer-2 invariant `Core`, and is carried through
every rule, the adoption agency (`remove_from_parent`, `reparent_children`, re-insertion), foster
parenting, the `frameset` replacement of `body`, and the `selectedcontent` mirror.

`AdjD d O` (O = stack of open elements):
* `nat` no two adjacent text siblings, `lk` every child points to its parent, `nd` no duplicates in a
  child list;
* `ol`  an open element (other than the table-structure elements and `head`) is not followed by text;
* `pb`, `pbt` the parent of an open element — directly or through template contents — precedes it on the
  stack when it is open itself;
* `tb`  an open element that precedes an open `table` among its siblings is above it on the stack.

With T1–T4 this gives every clause of `Skeleton` (`skeletonOk`) except that the element children of
`html` satisfy `HtmlKids` instead of `htmlKidsOk` (known finding); and `Skeleton` itself when the
final list of active formatting elements holds no element.
-/
namespace H5V.Props.C06
open H5V.Model.Dom hiding Str
open H5V.Model.HtmlTB hiding Str
open H5V.Lemmas.Dom

/-! ## every reachable state -/

/-- **the adjacency invariant holds in every reachable state**, for every token list and option set -/
theorem C06_adj_every_state {opts : Opts} {toks : List (TokToken × Nat)} {s : State}
    (h : Reachable opts toks s) : AdjD s.dom s.openElems := by
  have hi := (reachable_i2 rules h).1
  by_cases hl : Late s
  · obtain ⟨r, up, ph, hs, _⟩ := hi.2 hl
    exact hs.core.adj
  · have he := hi.1 hl
    have hoe : s.openElems = [] := by
      cases (C06_inv_every_state h).1 with
      | a ha => exact ha.1.oe
      | b hb => exact hb.1.oe
      | late hl' => exact absurd hl' hl
    rw [hoe]; exact he.adj

/-- **no two text nodes are adjacent siblings, in every reachable state** -/
theorem C06_no_adjacent_text_every_state {opts : Opts} {toks : List (TokToken × Nat)} {s : State}
    (h : Reachable opts toks s) : ∀ p, noAdj s.dom.isText (s.dom.childrenOf p) = true :=
  (C06_adj_every_state h).nat

/-- in every reachable state every member of a child list points back to its parent, and no child list
has duplicates (the half of well-formedness the proof needs and maintains) -/
theorem C06_child_links_every_state {opts : Opts} {toks : List (TokToken × Nat)} {s : State}
    (h : Reachable opts toks s) :
    (∀ p c, c ∈ s.dom.childrenOf p → s.dom.parentOf c = some p) ∧ ∀ p, (s.dom.childrenOf p).Nodup :=
  ⟨(C06_adj_every_state h).lk, (C06_adj_every_state h).nd⟩

/-- an open element other than `tr tbody thead tfoot caption colgroup td th head` is never directly
followed by a text node -/
theorem C06_open_element_not_before_text {opts : Opts} {toks : List (TokToken × Nat)} {s : State}
    (h : Reachable opts toks s) {e p : Id} {l1 l2 : List Id} (he : e ∈ s.openElems)
    (hx : exm (nm s.dom e) = false) (hc : s.dom.childrenOf p = l1 ++ e :: l2) : headT s.dom.isText l2 = false :=
  (C06_adj_every_state h).ol e he hx p l1 l2 hc

/-! ## completed parses -/

theorem parseTokens_reach {opts : Opts} {toks : List (TokToken × Nat)} {s : State}
    (h : parseTokens opts toks = .ok s) : ∃ s0, Reachable opts toks s0 ∧ s.dom.nodes = s0.dom.nodes := by
  unfold parseTokens at h
  cases hr : ((do newTB; let _ ← processTokens toks []; finishTB : M Unit).run (State.init opts)) with
  | error e => rw [hr] at h; cases h
  | ok p =>
    obtain ⟨u, sf⟩ := p
    rw [hr] at h
    have hs : sf = s := by simpa [Except.map] using h
    subst hs
    have hr' : (newTB >>= fun _ => processTokens toks [] >>= fun _ => finishTB) (State.init opts) = .ok (u, sf) := hr
    obtain ⟨u1, s1, e1, e2⟩ := bind_ok.mp hr'
    obtain ⟨r2, s2, e3, e4⟩ := bind_ok.mp e2
    refine ⟨s2, ⟨r2, ?_⟩, finishTB_nodes e4⟩
    exact bind_ok.mpr ⟨u1, s1, e1, e3⟩

/-- **`C06_no_adjacent_text`**: after `new`, any token list (with or without EOF), `end()`: no two text
nodes are adjacent siblings — for all token lists and option sets -/
theorem C06_no_adjacent_text {opts : Opts} {toks : List (TokToken × Nat)} {s : State}
    (h : parseTokens opts toks = .ok s) : ∀ p, noAdj s.dom.isText (s.dom.childrenOf p) = true := by
  obtain ⟨s0, hr, hn⟩ := parseTokens_reach h
  exact ((C06_adj_every_state hr).of_nodes (O := s0.openElems) hn).nat

/-- the same in the vocabulary of `H5V/Lemmas/DomText2.lean` -/
theorem C06_noAdjacentText {opts : Opts} {toks : List (TokToken × Nat)} {s : State}
    (h : parseTokens opts toks = .ok s) : NoAdjacentText s.dom :=
  C06_no_adjacent_text h

/-- child lists of the result: members point to their parent, no duplicates -/
theorem C06_child_links {opts : Opts} {toks : List (TokToken × Nat)} {s : State}
    (h : parseTokens opts toks = .ok s) :
    (∀ p c, c ∈ s.dom.childrenOf p → s.dom.parentOf c = some p) ∧ ∀ p, (s.dom.childrenOf p).Nodup := by
  obtain ⟨s0, hr, hn⟩ := parseTokens_reach h
  have := (C06_adj_every_state hr).of_nodes (O := s0.openElems) hn
  exact ⟨this.lk, this.nd⟩

/-! ## the node clauses of `skeletonOk` on the nodes of the document tree -/

/-- a node of the tree walk is the start node, was reached through template contents, or is not of
`Document` kind -/
theorem treeNodes_kind {d : Dom} (hb : DomBase d) : ∀ (fuel : Nat) (tc0 : Bool) (x0 : Id) (p : Id × Bool),
    p ∈ treeNodes d fuel tc0 x0 → p = (x0, tc0) ∨ p.2 = true ∨ d.dataOf p.1 ≠ some .document
  | 0, _, _, _, h => by simp [treeNodes] at h
  | fuel + 1, tc0, x0, p, h => by
    simp only [treeNodes, List.mem_cons, List.mem_append, List.mem_flatMap] at h
    rcases h with h | h | ⟨k, hk, h⟩
    · exact Or.inl h
    · cases htc : d.templateContentsOf x0 with
      | none => rw [htc] at h; cases h
      | some c =>
        rw [htc] at h
        rcases treeNodes_kind hb fuel true c p h with h1 | h1 | h1
        · right; left; rw [h1]
        · exact Or.inr (Or.inl h1)
        · exact Or.inr (Or.inr h1)
    · rcases treeNodes_kind hb fuel false k p h with h1 | h1 | h1
      · right; right; rw [h1]; exact hb.kidNotDoc x0 k hk
      · exact Or.inr (Or.inl h1)
      · exact Or.inr (Or.inr h1)

/-- **all three node clauses** (no empty text; children only below elements, the document and template
contents; no adjacent text siblings) at every node of the document tree, for all token lists -/
theorem C06_node_clauses {opts : Opts} {toks : List (TokToken × Nat)} {s : State}
    (h : parseTokens opts toks = .ok s) :
    ∀ p ∈ treeNodes s.dom (s.dom.size + 1) false Dom.document, nodeClauses s.dom p.1 p.2 = true := by
  intro p hp
  have hb := parseTokens_base h
  obtain ⟨c1, c2⟩ := C06_node_clauses_partial h p.1
  have c3 := C06_no_adjacent_text h p.1
  unfold nodeClauses
  rw [Bool.and_eq_true, Bool.and_eq_true]
  refine ⟨⟨c1, ?_⟩, c3⟩
  cases hk : (s.dom.childrenOf p.1).isEmpty with
  | true => rfl
  | false =>
    rw [hk] at c2
    simp only [Bool.false_or] at c2 ⊢
    unfold Dom.isContainer at c2
    cases hd : s.dom.dataOf p.1 with
    | none => rw [hd] at c2; cases c2
    | some v =>
      rw [hd] at c2
      cases v with
      | element n a t i => rfl
      | document =>
        rcases treeNodes_kind hb _ _ _ p hp with h1 | h1 | h1
        · rw [h1]; rfl
        · simp only; rw [h1]; simp
        · exact absurd hd h1
      | doctype _ _ _ => cases c2
      | comment _ => cases c2
      | text _ => cases c2
      | pi _ _ => cases c2

/-! ## the whole predicate -/

/-- the clauses of `docClauses` with `HtmlKids` in place of `htmlKidsOk` -/
def docClausesK (d : Dom) : Prop :=
  docPattern 0 ((d.childrenOf Dom.document).map (docKid d)) = true ∧
  ∃ h, htmlOf d = some h ∧ HtmlKids ((d.childrenOf h).filterMap (htmlElemName d)) ∧
    (d.childrenOf h).all (fun k => match d.dataOf k with
      | some (.text s) => s.all isWsChar
      | some (.element ..) => true
      | some (.comment _) => true
      | _ => false) = true

/-- `Skeleton` with the children of `html` classified by `HtmlKids`: `head body`, or `head frameset`
followed by `noframes` / reconstructed formatting elements -/
def SkeletonK (d : Dom) : Prop :=
  docClausesK d ∧ ∀ p ∈ treeNodes d (d.size + 1) false Dom.document, nodeClauses d p.1 p.2 = true

/-- the kinds of the children of `html` after a completed parse -/
theorem html_kids_kinds {opts : Opts} {toks : List (TokToken × Nat)} {line : Nat} {s : State} {r : Id}
    (h : parseTokens opts (toks ++ [(TokToken.eof, line)]) = .ok s) (hr : htmlOf s.dom = some r) :
    (s.dom.childrenOf r).all (fun k => match s.dom.dataOf k with
      | some (.text s) => s.all isWsChar
      | some (.element ..) => true
      | some (.comment _) => true
      | _ => false) = true := by
  obtain ⟨s0, hf, hn⟩ := parseTokens_fin rules h
  obtain ⟨r0, up, ph, hs, _⟩ := hf
  have hc := hs.core
  have hdat : ∀ x, s.dom.dataOf x = s0.dom.dataOf x := fun x => by unfold Dom.dataOf; rw [hn]
  have hr0 : htmlOf s.dom = some r0 := by
    have : htmlOf s.dom = htmlOf s0.dom := by unfold htmlOf docKid Dom.childrenOf Dom.dataOf; rw [hn]
    rw [this]; exact htmlOf_root hc
  rw [hr] at hr0; cases hr0
  rw [List.all_eq_true]
  intro k hk
  rw [childrenOf_of_nodes hn] at hk
  rw [hdat]
  have heq : isWsChar = isAsciiWhitespace := by funext ch; rfl
  rcases hc.kids k hk with h1 | ⟨t, h1⟩ | ⟨t, h1, h2⟩
  · unfold Dom.isElement at h1
    cases hd : s0.dom.dataOf k with
    | none => rw [hd] at h1; cases h1
    | some v => rw [hd] at h1; cases v <;> first | rfl | cases h1
  · rw [h1]
  · rw [h1]; simp only; rw [heq]; exact h2

/-- **`C06_skeleton_or_known`**: after a completed parse (`new`, a token list ending with EOF, `end()`),
for all token lists and option sets, every clause of `Skeleton` holds, except that the element children
of `html` satisfy `HtmlKids` (`head body` | `head frameset (noframes | formatting element)*`) instead of
the stricter `htmlKidsOk` -/
theorem C06_skeleton_or_known {opts : Opts} {toks : List (TokToken × Nat)} {line : Nat} {s : State}
    (h : parseTokens opts (toks ++ [(TokToken.eof, line)]) = .ok s) : SkeletonK s.dom := by
  obtain ⟨r, hr, hk, _⟩ := C06_html_children h
  obtain ⟨hp, _, _⟩ := C06_document_children h ⟨line, by simp⟩
  exact ⟨⟨hp, r, hr, hk, html_kids_kinds h hr⟩, C06_node_clauses h⟩

/-- **`Skeleton` itself** when the final list of active formatting elements holds no element (decidable
on the final state; in particular when no formatting start tag occurs unclosed before a `<frameset>`
that replaces `body`).  The hypothesis is exactly what separates the theorem from the known finding
`C06_witness_frameset_reconstruct`. -/
theorem C06_skeleton_partial {opts : Opts} {toks : List (TokToken × Nat)} {line : Nat} {s : State}
    (h : parseTokens opts (toks ++ [(TokToken.eof, line)]) = .ok s)
    (haf : ∀ y t, FormatEntry.element y t ∉ s.activeFormatting) : Skeleton s.dom := by
  obtain ⟨r, hr, hk⟩ := C06_html_children_partial h haf
  obtain ⟨hp, _, _⟩ := C06_document_children h ⟨line, by simp⟩
  rw [C06_skeleton_iff]
  refine ⟨?_, C06_node_clauses h⟩
  unfold docClauses
  rw [hp, hr]
  simp only [Bool.true_and]
  have hk' : htmlKidsOk ((s.dom.childrenOf r).filterMap (htmlElemName s.dom)) = true := hk
  rw [Bool.and_eq_true]
  exact ⟨hk', html_kids_kinds h hr⟩

/-- `Skeleton` implies `SkeletonK`: the weakened predicate differs in the `html` clause only -/
theorem skeletonK_of_skeleton {d : Dom} (h : Skeleton d) : SkeletonK d := by
  rw [C06_skeleton_iff] at h
  obtain ⟨h1, h2⟩ := h
  refine ⟨?_, h2⟩
  unfold docClauses at h1
  simp only [Bool.and_eq_true] at h1
  obtain ⟨hp, hrest⟩ := h1
  cases hh : htmlOf d with
  | none => rw [hh] at hrest; cases hrest
  | some r =>
    rw [hh] at hrest
    simp only [Bool.and_eq_true] at hrest
    refine ⟨hp, r, hh, ?_, hrest.2⟩
    -- `htmlKidsOk` is the special case without formatting elements
    have hk := hrest.1
    generalize (d.childrenOf r).filterMap (htmlElemName d) = names at hk
    unfold htmlKidsOk at hk
    match names, hk with
    | a :: b :: rest, hk =>
      simp only [Bool.and_eq_true, Bool.or_eq_true, beq_iff_eq, List.isEmpty_iff, List.all_eq_true] at hk
      obtain ⟨ha, hb⟩ := hk
      subst ha
      rcases hb with ⟨hb, hr⟩ | ⟨hb, hr⟩
      · subst hb; subst hr
        exact Or.inl rfl
      · subst hb
        exact Or.inr ⟨rest, rfl, fun n hn => Or.inl (hr n hn)⟩

/-! ## non-vacuity -/

/-- the adjacency test is not trivially true -/
example : noAdj (fun x => x == 1 || x == 2) [0, 1, 2] = false := by decide
example : noAdj (fun x => x == 1 || x == 2) [1, 0, 2] = true := by decide

/-- the hypotheses are satisfiable: runs that exercise the detaching calls (adoption agency with a
furthest block, foster parenting of text around a table, `frameset` replacing `body`, the
`selectedcontent` mirror) return normally … -/
example : okRun (parseTokens {} [sTag "b", txt "x", sTag "p", txt "y", eTag "b", txt "z", (.eof, 1)]) = true := by
  decide +kernel
example : okRun (parseTokens {} [txt "a", sTag "table", txt "b", sTag "b", txt "c", sTag "tr", txt "d", eTag "table",
    txt "e", (.eof, 1)]) = true := by decide +kernel
example : okRun (parseTokens {} [sTag "b", txt "x", sTag "frameset", eTag "frameset", (.eof, 1)]) = true := by
  decide +kernel

/-- … and the results have no adjacent text siblings, checked by evaluation, in agreement with the theorem -/
example : (match parseTokens {} [sTag "b", txt "x", sTag "p", txt "y", eTag "b", txt "z", (.eof, 1)] with
    | .ok s => (List.range s.dom.size).all (fun p => noAdj s.dom.isText (s.dom.childrenOf p))
    | .error _ => false) = true := by decide +kernel
example : (match parseTokens {} [txt "a", sTag "table", txt "b", sTag "b", txt "c", sTag "tr", txt "d", eTag "table",
    txt "e", (.eof, 1)] with
    | .ok s => (List.range s.dom.size).all (fun p => noAdj s.dom.isText (s.dom.childrenOf p)) && skeletonOk s.dom
    | .error _ => false) = true := by decide +kernel

/-- the run of the known finding satisfies `SkeletonK` (by the theorem) but not `Skeleton` -/
example : SkeletonK (domOf (parseTokens {} witnessTokens)) := by
  cases h : parseTokens {} witnessTokens with
  | error e =>
    have : okRun (parseTokens {} witnessTokens) = true := C06_witness_frameset_reconstruct.1
    rw [h] at this; cases this
  | ok s =>
    have h' : parseTokens {} ([sTag "b", sTag "frameset", eTag "frameset", eTag "html", txt " "] ++ [(TokToken.eof, 1)])
        = .ok s := h
    exact C06_skeleton_or_known h'
example : skeletonOk (domOf (parseTokens {} witnessTokens)) = false := by decide +kernel

/-- the hypothesis of `C06_skeleton_partial` is satisfiable -/
example : (match parseTokens {} [sTag "b", txt "x", sTag "p", txt "y", eTag "b", txt "z", (.eof, 1)] with
    | .ok s => s.activeFormatting.all (fun e => match e with | .marker => true | .element _ _ => false) && skeletonOk s.dom
    | .error _ => false) = true := by decide +kernel

end H5V.Props.C06

open H5V.Props.C06 in
#print axioms C06_adj_every_state
open H5V.Props.C06 in
#print axioms C06_no_adjacent_text_every_state
open H5V.Props.C06 in
#print axioms C06_no_adjacent_text
open H5V.Props.C06 in
#print axioms C06_child_links
open H5V.Props.C06 in
#print axioms C06_node_clauses
open H5V.Props.C06 in
#print axioms C06_skeleton_or_known
open H5V.Props.C06 in
#print axioms C06_skeleton_partial
