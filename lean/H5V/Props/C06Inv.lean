import H5V.Lemmas.HtmlTBSkelRun
/-!
C06, proved for **all** token sequences (document parsing, every option set): the clauses of
`Skeleton` that hold in the model of html5ever's HTML tree builder.

The invariant (`H5V/Lemmas/HtmlTBSkel*.lean`) is indexed by the phase of the parse:
`Inv3 s = EarlyA s ∨ EarlyB s ∨ Late s` — Initial (only comments under the document), BeforeHtml
(`comment* doctype? comment*`), and every later insertion mode (`Late`: the document's children
match `comment* doctype? comment* html comment*`, the stack of open elements consists of elements of
which only the bottom one may be a child of the document, the head pointer likewise, no pending
table text is empty, and the arena invariant `DomBase`).  It is preserved by every sink call the
builder makes in every rule of every insertion mode, by foster parenting and by the adoption agency
(`presR_step`, `presR_stepForeign`, `ptc_inv`, `processToken_inv`).

Proved here, for every `opts` and every `toks`:

* **T1** `C06_document_children_every_state` — in every state reachable by `newTB` +
  `processTokens`, the document's child list matches `comment* doctype? comment* (html comment*)?`
  (`docPrefix`) and contains no text node; `C06_document_children` — once an EOF token has been
  processed (and after `end()`): the full pattern `comment* doctype? comment* html comment*`
  (`docPattern 0`), no text child, and `htmlOf` finds the `html` element;
  `C06_document_children_eof_state` — the same for the state before `end()`.
* **T3** `C06_no_text_under_document` (part of T1), `C06_no_empty_text` — no text node of the arena is
  empty (every `append_text` argument is non-empty: `charsToken`, the whitespace splitter, pending
  table text, U+FFFD; text merging only appends; the selectedcontent mirror copies).
* **T4** `C06_only_containers_have_children` — every node that has children is an element or a
  `Document`-kind node; `C06_template_contents_are_fragments` — the template contents of an element is
  a `Document`-kind node other than the document; `C06_no_document_child` — no `Document`-kind node
  is a child of any node; together, in the exact form of the predicate:
  `C06_nodeClauses_of_noAdj` — for every node of `treeNodes` (the walk `skeletonOk` makes), the first
  two clauses of `nodeClauses` hold, i.e. `nodeClauses` holds as soon as "no adjacent text siblings"
  does for that node.
* `C06_inv_every_state` — the invariant itself, for use by other properties.

**Not proved** (see the final section): the clause about the element children of `html`
(`head` then `body | frameset noframes*`; false as stated: `C06_witness_frameset_reconstruct`), its
weakening to the first two element children, and "only whitespace text under `html`".  Both need
facts about the *shape of the stack per insertion mode* (that `body` stays second on the stack, that
a table mode has a `table` or `template` on the stack, that formatting entries name formatting
elements) which the present invariant does not carry.  "No adjacent text siblings" is
`C06_no_adjacent_text_run_partial` (C06.lean), unchanged.
-/
namespace H5V.Props.C06
open H5V.Model.Dom hiding Str
open H5V.Model.HtmlTB hiding Str
open H5V.Lemmas.Dom

/-- the states of a document parse: `TreeBuilder::new`, then the tokens -/
def Reachable (opts : Opts) (toks : List (TokToken × Nat)) (s : State) : Prop :=
  ∃ r, (do newTB; processTokens toks [] : M (List SinkResult)).run (State.init opts) = .ok (r, s)

/-- **the invariant holds in every reachable state**; once EOF has been processed the state is `Late` -/
theorem C06_inv_every_state {opts : Opts} {toks : List (TokToken × Nat)} {s : State}
    (h : Reachable opts toks s) : Inv3 s ∧ ((∃ line, (TokToken.eof, line) ∈ toks) → Late s) := by
  obtain ⟨r, hr⟩ := h
  have hr' : (newTB >>= fun _ => processTokens toks []) (State.init opts) = .ok (r, s) := hr
  obtain ⟨u1, s1, e1, e2⟩ := bind_ok.mp hr'
  have h1 := newTB_inv (earlyA_init opts) e1
  obtain ⟨a, _, c⟩ := processTokens_inv toks [] s1 r s (.a h1) e2
  exact ⟨a, c⟩

/-! ## T1: the children of the document -/

theorem isText_of_docKid {d : Dom} {c : Id} (h : docKid d c ≠ .other) : d.isText c = false := by
  unfold docKid at h
  unfold Dom.isText
  cases hd : d.dataOf c with
  | none => rfl
  | some v => cases v <;> simp [hd] at h ⊢

theorem no_text_of_kinds {d : Dom} (h : ∀ k ∈ kinds d, k ≠ .other) : ∀ c ∈ d.childrenOf Dom.document, d.isText c = false := by
  intro c hc
  exact isText_of_docKid (h _ (List.mem_map_of_mem hc))

theorem Inv3.docPrefix {s : State} (h : Inv3 s) :
    docPrefix (kinds s.dom) = true ∧ ∀ c ∈ s.dom.childrenOf Dom.document, s.dom.isText c = false := by
  cases h with
  | a ha =>
    refine ⟨by simp [C06.docPrefix, docPre_of_comments ha.2.2], no_text_of_kinds ?_⟩
    intro k hk hko; rw [ha.2.2 k hk] at hko; cases hko
  | b hb =>
    refine ⟨by simp [C06.docPrefix, hb.2.2], no_text_of_kinds ?_⟩
    intro k hk hko
    rcases docPre_mem hb.2.2 k hk with h | h <;> (rw [h] at hko; cases hko)
  | late hl =>
    exact ⟨by simp [C06.docPrefix, hl.pat], no_text_of_kinds (docPattern_mem hl.pat)⟩

theorem htmlOf_isSome {d : Dom} (h : docPattern 0 (kinds d) = true) : (htmlOf d).isSome = true := by
  have hm := docPattern_has_html (Nat.zero_le _) h
  obtain ⟨c, hc, hk⟩ := List.mem_map.mp hm
  unfold htmlOf
  rw [List.find?_isSome]
  exact ⟨c, hc, by simp [hk]⟩

/-- **T1, every state**: the document's children match `comment* doctype? comment* (html comment*)?`
and none of them is a text node -/
theorem C06_document_children_every_state {opts : Opts} {toks : List (TokToken × Nat)} {s : State}
    (h : Reachable opts toks s) :
    docPrefix ((s.dom.childrenOf Dom.document).map (docKid s.dom)) = true ∧
      ∀ c ∈ s.dom.childrenOf Dom.document, s.dom.isText c = false :=
  (C06_inv_every_state h).1.docPrefix

/-- **T1, after EOF** (the EOF token through `processTokens`): `comment* doctype? comment* html comment*` -/
theorem C06_document_children_eof_state {opts : Opts} {toks : List (TokToken × Nat)} {s : State}
    (h : Reachable opts toks s) (heof : ∃ line, (TokToken.eof, line) ∈ toks) :
    docPattern 0 ((s.dom.childrenOf Dom.document).map (docKid s.dom)) = true ∧
      (∀ c ∈ s.dom.childrenOf Dom.document, s.dom.isText c = false) ∧ (htmlOf s.dom).isSome = true := by
  have hl := (C06_inv_every_state h).2 heof
  exact ⟨hl.pat, no_text_of_kinds (docPattern_mem hl.pat), htmlOf_isSome hl.pat⟩

/-- **T1, completed parse** (`parseTokens` = `new`, the tokens, `end()`) -/
theorem C06_document_children {opts : Opts} {toks : List (TokToken × Nat)} {s : State}
    (h : parseTokens opts toks = .ok s) (heof : ∃ line, (TokToken.eof, line) ∈ toks) :
    docPattern 0 ((s.dom.childrenOf Dom.document).map (docKid s.dom)) = true ∧
      (∀ c ∈ s.dom.childrenOf Dom.document, s.dom.isText c = false) ∧ (htmlOf s.dom).isSome = true := by
  obtain ⟨s0, _, hl, hn⟩ := parseTokens_ok h
  have hl0 := hl heof
  have hk : kinds s.dom = kinds s0.dom := kinds_of_nodes hn
  have hp : docPattern 0 (kinds s.dom) = true := by rw [hk]; exact hl0.pat
  exact ⟨hp, no_text_of_kinds (docPattern_mem hp), htmlOf_isSome hp⟩

/-- a parse that is ended without an EOF token still has the prefix pattern -/
theorem C06_document_children_prefix {opts : Opts} {toks : List (TokToken × Nat)} {s : State}
    (h : parseTokens opts toks = .ok s) :
    docPrefix ((s.dom.childrenOf Dom.document).map (docKid s.dom)) = true ∧
      ∀ c ∈ s.dom.childrenOf Dom.document, s.dom.isText c = false := by
  obtain ⟨s0, hi, _, hn⟩ := parseTokens_ok h
  have hk : kinds s.dom = kinds s0.dom := kinds_of_nodes hn
  obtain ⟨a, _⟩ := hi.docPrefix
  have hp : docPrefix (kinds s.dom) = true := by rw [hk]; exact a
  refine ⟨hp, ?_⟩
  intro c hc
  have := hi.docPrefix.2 c (by rw [← childrenOf_of_nodes hn]; exact hc)
  unfold Dom.isText Dom.dataOf at this ⊢
  rw [hn]; exact this

/-- **T3 (first clause)**: no text node is a child of the document -/
theorem C06_no_text_under_document {opts : Opts} {toks : List (TokToken × Nat)} {s : State}
    (h : parseTokens opts toks = .ok s) : ∀ c ∈ s.dom.childrenOf Dom.document, s.dom.isText c = false :=
  (C06_document_children_prefix h).2

/-! ## T3 / T4: the arena invariant -/

theorem Inv3.base {s : State} (h : Inv3 s) : DomBase s.dom := by
  cases h with
  | a ha => exact ha.1.base
  | b hb => exact hb.1.base
  | late hl => exact hl.base

theorem parseTokens_base {opts : Opts} {toks : List (TokToken × Nat)} {s : State}
    (h : parseTokens opts toks = .ok s) : DomBase s.dom := by
  obtain ⟨s0, hi, _, hn⟩ := parseTokens_ok h
  exact hi.base.sameSk (SameSk.of_nodes hn)

/-- **T3 (third clause)**: no text node is empty — in every reachable state … -/
theorem C06_no_empty_text_every_state {opts : Opts} {toks : List (TokToken × Nat)} {s : State}
    (h : Reachable opts toks s) : ∀ x t, s.dom.dataOf x = some (.text t) → t ≠ [] :=
  (C06_inv_every_state h).1.base.textNe

/-- … and in the result of a completed parse -/
theorem C06_no_empty_text {opts : Opts} {toks : List (TokToken × Nat)} {s : State}
    (h : parseTokens opts toks = .ok s) : ∀ x t, s.dom.dataOf x = some (.text t) → t ≠ [] :=
  (parseTokens_base h).textNe

/-- **T4**: only elements and `Document`-kind nodes (the document, template contents) have children -/
theorem C06_only_containers_have_children {opts : Opts} {toks : List (TokToken × Nat)} {s : State}
    (h : parseTokens opts toks = .ok s) : ∀ x, s.dom.childrenOf x ≠ [] → s.dom.isContainer x = true :=
  (parseTokens_base h).cont

theorem C06_only_containers_have_children_every_state {opts : Opts} {toks : List (TokToken × Nat)} {s : State}
    (h : Reachable opts toks s) : ∀ x, s.dom.childrenOf x ≠ [] → s.dom.isContainer x = true :=
  (C06_inv_every_state h).1.base.cont

/-- **T4**: template contents are `Document`-kind nodes other than the document itself -/
theorem C06_template_contents_are_fragments {opts : Opts} {toks : List (TokToken × Nat)} {s : State}
    (h : parseTokens opts toks = .ok s) :
    ∀ x tc, s.dom.templateContentsOf x = some tc → tc ≠ Dom.document ∧ s.dom.dataOf tc = some .document :=
  (parseTokens_base h).tcOk

/-- the first two node clauses of `nodeClauses` (no empty text; children only below containers), in the
form in which `skeletonOk` tests them, for *every* node of the arena -/
theorem C06_node_clauses_partial {opts : Opts} {toks : List (TokToken × Nat)} {s : State}
    (h : parseTokens opts toks = .ok s) (x : Id) :
    (match s.dom.dataOf x with | some (.text t) => !t.isEmpty | _ => true) = true ∧
    ((s.dom.childrenOf x).isEmpty || s.dom.isContainer x) = true := by
  have hb := parseTokens_base h
  constructor
  · cases hd : s.dom.dataOf x with
    | none => rfl
    | some v =>
      cases v with
      | text t =>
        have := hb.textNe x t hd
        simp only [Bool.not_eq_true', List.isEmpty_eq_false_iff]
        exact this
      | _ => rfl
  · cases hc : s.dom.childrenOf x with
    | nil => rfl
    | cons a r =>
      have := hb.cont x (by rw [hc]; simp)
      simp [this]

/-- no `Document`-kind node is a child of any node (so template contents are reachable only as such) -/
theorem C06_no_document_child {opts : Opts} {toks : List (TokToken × Nat)} {s : State}
    (h : parseTokens opts toks = .ok s) : ∀ p c, c ∈ s.dom.childrenOf p → s.dom.dataOf c ≠ some .document :=
  (parseTokens_base h).kidNotDoc

/-- every node of the tree walk is the root of the walk, template contents, or a child of some node -/
theorem treeNodes_origin (d : Dom) : ∀ (fuel : Nat) (tc : Bool) (x : Id) (p : Id × Bool),
    p ∈ treeNodes d fuel tc x → p = (x, tc) ∨ p.2 = true ∨ ∃ q, p.1 ∈ d.childrenOf q
  | 0, _, _, p, h => by simp [treeNodes] at h
  | fuel + 1, tc, x, p, h => by
    simp only [treeNodes, List.mem_cons, List.mem_append, List.mem_flatMap] at h
    rcases h with h | h | ⟨c, hc, h⟩
    · exact Or.inl h
    · cases htc : d.templateContentsOf x with
      | none => simp [htc] at h
      | some t =>
        simp only [htc] at h
        rcases treeNodes_origin d fuel true t p h with h' | h' | h'
        · exact Or.inr (Or.inl (by rw [h']))
        · exact Or.inr (Or.inl h')
        · exact Or.inr (Or.inr h')
    · rcases treeNodes_origin d fuel false c p h with h' | h' | h'
      · exact Or.inr (Or.inr ⟨x, by rw [h']; exact hc⟩)
      · exact Or.inr (Or.inl h')
      · exact Or.inr (Or.inr h')

/-- **T3 + T4 in the exact form of `nodeClauses`**: for every node of the document tree (children and
template contents), the first two clauses of `nodeClauses` — no empty text; only elements, the
document and template contents have children — hold; hence `nodeClauses` holds as soon as the third
one ("no two adjacent text siblings", `C06_no_adjacent_text_run_partial`) does -/
theorem C06_nodeClauses_of_noAdj {opts : Opts} {toks : List (TokToken × Nat)} {s : State}
    (h : parseTokens opts toks = .ok s) (p : Id × Bool)
    (hp : p ∈ treeNodes s.dom (s.dom.size + 1) false Dom.document)
    (hadj : noAdj s.dom.isText (s.dom.childrenOf p.1) = true) : nodeClauses s.dom p.1 p.2 = true := by
  have hb := parseTokens_base h
  unfold nodeClauses
  simp only [Bool.and_eq_true]
  refine ⟨⟨?_, ?_⟩, hadj⟩
  · cases hd : s.dom.dataOf p.1 with
    | none => rfl
    | some v =>
      cases v with
      | text t =>
        have := hb.textNe p.1 t hd
        simp only [Bool.not_eq_true', List.isEmpty_eq_false_iff]
        exact this
      | _ => rfl
  · cases hc : s.dom.childrenOf p.1 with
    | nil => rfl
    | cons a r =>
      have hcont := hb.cont p.1 (by rw [hc]; simp)
      unfold Dom.isContainer at hcont
      cases hd : s.dom.dataOf p.1 with
      | none => simp [hd] at hcont
      | some v =>
        cases v with
        | element n a tc ip => simp
        | document =>
          simp only [List.isEmpty_cons, Bool.false_or, Bool.or_eq_true, beq_iff_eq]
          rcases treeNodes_origin _ _ _ _ p hp with h' | h' | ⟨q, hq⟩
          · exact Or.inl (by rw [h'])
          · exact Or.inr h'
          · exact absurd hd (hb.kidNotDoc q p.1 hq)
        | _ => simp [hd] at hcont

/-! ## non-vacuity -/

/-- the hypotheses are satisfiable: these runs return normally and contain EOF -/
example : okRun (parseTokens {} [sTag "b", txt "x", sTag "table", txt "y", eTag "b", (.eof, 1)]) = true := by
  decide +kernel

/-- … and the statement is not trivially true: a document without `html` fails the pattern -/
example : docPattern 0 [.comment, .doctype, .comment] = false := by decide
example : docPattern 0 [.comment, .doctype, .html, .comment] = true := by decide
example : docPrefix [.comment, .doctype, .comment] = true := by decide
example : docPrefix [.doctype, .doctype] = false := by decide
example : docPrefix [.html, .html] = false := by decide
example : docPrefix [.comment, .other] = false := by decide

/-- the theorems apply to the run of the known finding (`<b><frameset></frameset></html>␠`): its
document children are fine, although `Skeleton` fails on the children of `html` -/
example : docPattern 0 (((domOf (parseTokens {} witnessTokens)).childrenOf Dom.document).map
    (docKid (domOf (parseTokens {} witnessTokens)))) = true := by
  cases h : parseTokens {} witnessTokens with
  | error e =>
    have : okRun (parseTokens {} witnessTokens) = true := C06_witness_frameset_reconstruct.1
    rw [h] at this; cases this
  | ok s => exact (C06_document_children h ⟨1, by simp [witnessTokens]⟩).1

/-- a concrete instance checked by evaluation, agreeing with the theorem: doctype, comments around `html` -/
example : (match parseTokens {} [(.comment "a".toList, 1), (.doctype { name := some "html".toList }, 1),
      (.comment "b".toList, 1), sTag "html", eTag "html", (.comment "c".toList, 1), (.eof, 1)] with
    | .ok s => (s.dom.childrenOf Dom.document).map (docKid s.dom) == [.comment, .doctype, .comment, .html, .comment]
    | .error _ => false) = true := by
  decide +kernel

end H5V.Props.C06
