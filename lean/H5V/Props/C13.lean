import H5V.Model.BufferQueue
/-!
C13 — BufferQueue behaves as one flat character stream.

Every operation of the model of `buffer_queue.rs` is characterised purely in terms of
`abs q = q.bufs.flatten`, for every queue satisfying the non-empty-buffers invariant, which
every operation preserves (so it holds for every reachable queue: `reachable_inv`).
-/
namespace H5V.Props.C13
open H5V.Model.BQ

/-! ### helper lemmas -/

theorem inv_empty : QInv empty := by intro b hb; cases hb

theorem inv_cons {b : Buf} {rest : List Buf} (h : QInv ⟨b :: rest⟩) : b ≠ [] ∧ QInv ⟨rest⟩ :=
  ⟨h b (by simp), fun x hx => h x (by simp [hx])⟩

theorem inv_reput {tl : Buf} {rest : List Buf} (h : QInv ⟨rest⟩) : QInv (reput tl rest) := by
  unfold reput
  split
  · exact h
  · rename_i hne
    intro b hb
    simp at hb
    rcases hb with rfl | hb
    · intro h0; simp [h0] at hne
    · exact h b hb

@[simp] theorem reput_flatten (tl : Buf) (rest : List Buf) :
    (reput tl rest).bufs.flatten = tl ++ rest.flatten := by
  unfold reput
  split
  · rename_i h; simp at h; simp [h]
  · simp

theorem abs_reput (tl : Buf) (rest : List Buf) : abs (reput tl rest) = tl ++ rest.flatten := by
  simp [abs]

theorem mem_takeWhile_imp {α} {p : α → Bool} {l : List α} {a : α} (h : a ∈ l.takeWhile p) :
    p a = true := by
  induction l with
  | nil => simp at h
  | cons x xs ih =>
    simp only [List.takeWhile] at h
    split at h
    · simp at h; rcases h with rfl | h
      · assumption
      · exact ih h
    · simp at h

/-! ### push -/

theorem pushBack_abs (q : Queue) (b : Buf) : abs (pushBack q b) = abs q ++ b := by
  unfold pushBack abs; split
  · rename_i h; simp at h; simp [h]
  · simp

theorem pushFront_abs (q : Queue) (b : Buf) : abs (pushFront q b) = b ++ abs q := by
  unfold pushFront abs; split
  · rename_i h; simp at h; simp [h]
  · simp

theorem pushBack_inv (q : Queue) (b : Buf) (h : QInv q) : QInv (pushBack q b) := by
  unfold pushBack; split
  · exact h
  · rename_i hne; intro x hx; simp at hx
    rcases hx with hx | rfl
    · exact h x hx
    · intro h0; simp [h0] at hne

theorem pushFront_inv (q : Queue) (b : Buf) (h : QInv q) : QInv (pushFront q b) := by
  unfold pushFront; split
  · exact h
  · rename_i hne; intro x hx; simp at hx
    rcases hx with rfl | hx
    · intro h0; simp [h0] at hne
    · exact h x hx

/-! ### next / peek -/

/-- `peek` returns the first character of the concatenation (or none), never panics. -/
theorem C13_peek (q : Queue) (h : QInv q) : peek q = .ok (abs q).head? := by
  unfold peek abs
  match hq : q.bufs with
  | [] => simp
  | [] :: rest => exact absurd rfl (h [] (by simp [hq]))
  | (c :: tl) :: rest => simp

/-- `next` returns and removes exactly the first character of the concatenation. -/
theorem C13_next (q : Queue) (h : QInv q) :
    ∃ q', next q = .ok ((abs q).head?, q') ∧ abs q' = (abs q).tail ∧ QInv q' := by
  unfold next
  match hq : q.bufs with
  | [] => exact ⟨q, by simp [abs, hq], by simp [abs, hq], h⟩
  | [] :: rest => exact absurd rfl (h [] (by simp [hq]))
  | (c :: tl) :: rest =>
    have hr : QInv ⟨rest⟩ := fun x hx => h x (by simp [hq, hx])
    exact ⟨reput tl rest, by simp [abs, hq], by simp [abs, hq], inv_reput hr⟩

/-! ### pop_except_from -/

/-- Specification of `pop_except_from` against the flat stream.  On a non-empty queue it returns
either the first character, which is a set member, or a non-empty run of non-members that is a
prefix of the stream, lies inside the first buffer and is maximal there (it ends at the buffer join
or in front of a set member); exactly what was returned is removed from the stream. -/
theorem C13_pop_except_from (set : CharSet) (q : Queue) (h : QInv q) :
    (abs q = [] → popExceptFrom set q = .ok (none, q)) ∧
    (abs q ≠ [] → ∃ r q', popExceptFrom set q = .ok (some r, q') ∧ QInv q' ∧
      match r with
      | .fromSet c => set.mem c = true ∧ abs q = c :: abs q'
      | .notFromSet run => run ≠ [] ∧ (∀ c ∈ run, set.mem c = false) ∧ abs q = run ++ abs q' ∧
          (∃ b rest tl, q.bufs = b :: rest ∧ b = run ++ tl ∧
             (tl = [] ∨ ∃ c tl', tl = c :: tl' ∧ set.mem c = true))) := by
  unfold popExceptFrom
  match hq : q.bufs with
  | [] => simp [abs, hq]
  | b :: rest =>
    have hb : b ≠ [] := h b (by simp [hq])
    have hr : QInv ⟨rest⟩ := fun x hx => h x (by simp [hq, hx])
    refine ⟨fun h0 => ?_, fun _ => ?_⟩
    · simp [abs, hq] at h0; exact absurd h0.1 hb
    · simp only []
      by_cases hrun : (b.takeWhile (fun c => !set.mem c)).isEmpty = true
      · -- first character is a member
        match hbb : b with
        | [] => exact absurd rfl hb
        | c :: tl' =>
          have hc : set.mem c = true := by
            simp [List.takeWhile] at hrun
            cases hm : set.mem c <;> simp [hm] at hrun ⊢
          refine ⟨.fromSet c, reput tl' rest, ?_, inv_reput hr, hc, ?_⟩
          · simp [hrun]
          · simp [abs, hq]
      · refine ⟨.notFromSet (b.takeWhile (fun c => !set.mem c)),
          reput (b.dropWhile (fun c => !set.mem c)) rest, ?_, inv_reput hr, ?_, ?_, ?_, ?_⟩
        · simp [hrun]
        · intro h0; simp [h0] at hrun
        · intro c hc
          have := mem_takeWhile_imp hc
          simpa using this
        · simp only [abs, hq, reput_flatten, List.flatten_cons, ← List.append_assoc,
            List.takeWhile_append_dropWhile]
        · refine ⟨b, rest, b.dropWhile (fun c => !set.mem c), rfl,
            (List.takeWhile_append_dropWhile).symm, ?_⟩
          match hd : b.dropWhile (fun c => !set.mem c) with
          | [] => exact Or.inl rfl
          | c :: tl' =>
            refine Or.inr ⟨c, tl', rfl, ?_⟩
            have := List.head_dropWhile_not (fun c => !set.mem c) (l := b) (by simp [hd])
            simp [hd] at this
            exact this

/-! ### eat -/

/-- prefix comparison of a stream `s` with a pattern under `eq` -/
inductive PrefixCmp where | isPrefix | mismatch | needMore
deriving DecidableEq, Repr

/-- reference comparison on the flat string: walk both, first mismatch wins, pattern exhausted ⇒
match, stream exhausted first ⇒ need more -/
def prefixCmp (eq : Char → Char → Bool) : List Char → List Char → PrefixCmp
  | _, [] => .isPrefix
  | [], _ :: _ => .needMore
  | c :: s, p :: ps => if eq c p then prefixCmp eq s ps else .mismatch

theorem eatGo_prefixCmp (eq : Char → Char → Bool) (pat : List Char) (bufs : List Buf)
    (h : QInv ⟨bufs⟩) :
    match prefixCmp eq bufs.flatten pat with
    | .isPrefix => ∃ rest, eatGo eq pat bufs = .matched rest ∧ QInv ⟨rest⟩ ∧
        rest.flatten = bufs.flatten.drop pat.length
    | .mismatch => eatGo eq pat bufs = .mismatch
    | .needMore => eatGo eq pat bufs = .needMore := by
  induction pat generalizing bufs with
  | nil => simp [prefixCmp, eatGo]; exact h
  | cons p ps ih =>
    match bufs with
    | [] => simp [prefixCmp, eatGo]
    | [] :: rest => exact absurd rfl (h [] (by simp))
    | (c :: cs) :: rest =>
      have hr : QInv ⟨rest⟩ := fun x hx => h x (by simp [hx])
      simp only [List.flatten_cons, List.cons_append, prefixCmp, eatGo]
      by_cases hcp : eq c p = true
      · simp only [hcp, ↓reduceIte, Bool.not_true, Bool.false_eq_true]
        by_cases hcs : cs = []
        · subst hcs
          simpa using ih rest hr
        · have hi : QInv ⟨cs :: rest⟩ := by
            intro x hx; simp at hx
            rcases hx with rfl | hx
            · exact hcs
            · exact hr x hx
          have hemp : cs.isEmpty = false := by cases cs <;> simp_all
          simpa [hemp] using ih (cs :: rest) hi
      · have hcp' : eq c p = false := by simpa using hcp
        simp [hcp']

/-- **`eat`** answers exactly as the prefix comparison of the concatenation, consumes the pattern
(and nothing else) only on a match, and never panics. -/
theorem C13_eat (pat : List Char) (eq : Char → Char → Bool) (q : Queue) (h : QInv q) :
    match prefixCmp eq (abs q) pat with
    | .isPrefix => ∃ q', eat pat eq q = .ok (some true, q') ∧ QInv q' ∧ abs q' = (abs q).drop pat.length
    | .mismatch => eat pat eq q = .ok (some false, q)
    | .needMore => eat pat eq q = .ok (none, q) := by
  have := eatGo_prefixCmp eq pat q.bufs h
  unfold eat abs
  revert this
  cases prefixCmp eq q.bufs.flatten pat with
  | isPrefix => rintro ⟨rest, he, hi, hf⟩; exact ⟨⟨rest⟩, by simp [he], hi, hf⟩
  | mismatch => intro he; simp [he]
  | needMore => intro he; simp [he]

/-! ### every reachable queue satisfies the invariant, and is its operation history's flat stream -/

inductive Op where
  | pushBack (b : Buf) | pushFront (b : Buf) | next | peek
  | popExcept (set : CharSet) | eat (pat : List Char) (ci : Bool)

def eqOf (ci : Bool) : Char → Char → Bool :=
  fun a b => if ci then a.toLower == b.toLower else a == b

/-- one operation on the queue (output discarded; panics keep the queue) -/
def step (q : Queue) : Op → Queue
  | .pushBack b => pushBack q b
  | .pushFront b => pushFront q b
  | .next => match next q with | .ok (_, q') => q' | .error _ => q
  | .peek => q
  | .popExcept set => match popExceptFrom set q with | .ok (_, q') => q' | .error _ => q
  | .eat pat ci => match eat pat (eqOf ci) q with | .ok (_, q') => q' | .error _ => q

theorem step_inv (q : Queue) (op : Op) (h : QInv q) : QInv (step q op) := by
  cases op with
  | pushBack b => exact pushBack_inv q b h
  | pushFront b => exact pushFront_inv q b h
  | next =>
    obtain ⟨q', he, _, hi⟩ := C13_next q h
    simp [step, he, hi]
  | peek => exact h
  | popExcept set =>
    have := C13_pop_except_from set q h
    by_cases h0 : abs q = []
    · simp [step, this.1 h0, h]
    · obtain ⟨r, q', he, hi, _⟩ := this.2 h0
      simp [step, he, hi]
  | eat pat ci =>
    have := C13_eat pat (eqOf ci) q h
    revert this
    cases prefixCmp (eqOf ci) (abs q) pat with
    | isPrefix => rintro ⟨q', he, hi, _⟩; simp [step, he, hi]
    | mismatch => intro he; simp [step, he, h]
    | needMore => intro he; simp [step, he, h]

/-- the invariant holds after any history of operations from the empty queue -/
theorem C13_reachable_inv (ops : List Op) : QInv (ops.foldl step empty) := by
  suffices ∀ q, QInv q → QInv (ops.foldl step q) from this empty inv_empty
  induction ops with
  | nil => intro q h; exact h
  | cons op ops ih => intro q h; exact ih _ (step_inv q op h)

/-- no operation panics on a reachable queue -/
theorem C13_no_panic (ops : List Op) :
    let q := ops.foldl step empty
    (∃ r, peek q = .ok r) ∧ (∃ r, next q = .ok r) ∧
    (∀ set, ∃ r, popExceptFrom set q = .ok r) ∧ (∀ pat eq, ∃ r, eat pat eq q = .ok r) := by
  intro q
  have h : QInv q := C13_reachable_inv ops
  refine ⟨⟨_, C13_peek q h⟩, ?_, ?_, ?_⟩
  · obtain ⟨q', he, _⟩ := C13_next q h; exact ⟨_, he⟩
  · intro set
    have := C13_pop_except_from set q h
    by_cases h0 : abs q = []
    · exact ⟨_, this.1 h0⟩
    · obtain ⟨r, q', he, _⟩ := this.2 h0; exact ⟨_, he⟩
  · intro pat eq
    have := C13_eat pat eq q h
    revert this
    cases prefixCmp eq (abs q) pat with
    | isPrefix => rintro ⟨q', he, _⟩; exact ⟨_, he⟩
    | mismatch => intro he; exact ⟨_, he⟩
    | needMore => intro he; exact ⟨_, he⟩

/-! ### non-vacuity -/
example : QInv ⟨[['a'], ['b', 'c']]⟩ ∧ abs ⟨[['a'], ['b', 'c']]⟩ = ['a', 'b', 'c'] := by
  refine ⟨?_, rfl⟩
  intro b hb; simp at hb; rcases hb with rfl | rfl <;> simp

example : eat ['a', 'b', 'c', 'd'] (eqOf true) ⟨[['a'], ['b', 'c']]⟩ = .ok (none, ⟨[['a'], ['b', 'c']]⟩) := by
  rfl
example : eat ['a', 'B'] (eqOf true) ⟨[['a'], ['b', 'c']]⟩ = .ok (some true, ⟨[['c']]⟩) := by rfl

end H5V.Props.C13
