import H5V.Lemmas.HtmlTBSkelShapeRun
import H5V.Props.C06Inv
/-!
C06, second layer: the element children of `html` and the text under `html`, from the stack-shape
invariant `ShapeAt` (`H5V/Lemmas/HtmlTBSkelShape*.lean`).
-/
namespace H5V.Props.C06
open H5V.Model.Dom hiding Str
open H5V.Model.HtmlTB hiding Str
open H5V.Lemmas.Dom

/-- the names `htmlKidsOk` looks at: the element children of `h` by HTML local name -/
def elemKidNames (d : Dom) (h : Id) : List Str := (d.childrenOf h).filterMap (htmlElemName d)

theorem docPattern_two_html : ∀ (st : Nat) (k1 k2 : List DocKid), docPattern st (k1 ++ .html :: k2) = true →
    DocKid.html ∉ k2
  | st, [], k2, h => by
    have h2 : docPattern 2 k2 = true := by
      match st, h with
      | 0, h => simpa [docPattern] using h
      | 1, h => simpa [docPattern] using h
      | n + 2, h => simp [docPattern] at h
    intro hm
    clear h
    induction k2 with
    | nil => cases hm
    | cons c rest ih =>
      cases c with
      | comment =>
        simp only [docPattern] at h2
        simp only [List.mem_cons] at hm
        rcases hm with hm | hm
        · cases hm
        · exact ih h2 hm
      | doctype => simp [docPattern] at h2
      | html => simp [docPattern] at h2
      | other => simp [docPattern] at h2
  | st, c :: k1, k2, h => by
    cases c with
    | comment =>
      simp only [List.cons_append, docPattern] at h
      exact docPattern_two_html st k1 k2 h
    | doctype =>
      match st, h with
      | 0, h =>
        simp only [List.cons_append, docPattern] at h
        exact docPattern_two_html 1 k1 k2 h
      | n + 1, h => simp [docPattern] at h
    | html =>
      match st, h with
      | 0, h =>
        simp only [List.cons_append, docPattern] at h
        intro hm
        exact docPattern_two_html 2 k1 k2 h hm
      | 1, h =>
        simp only [List.cons_append, docPattern] at h
        intro hm
        exact docPattern_two_html 2 k1 k2 h hm
      | n + 2, h => simp [docPattern] at h
    | other => simp [docPattern] at h

/-- the root of the invariant is the element `htmlOf` finds -/
theorem htmlOf_root {s : State} {r : Id} {up : List Id} {ph : Phase} (hc : Core s r up ph) : htmlOf s.dom = some r := by
  have hpat := hc.late.pat
  have hrk : docKid s.dom r = .html := by
    have hn := hc.root_name
    have hel := hc.late.st.oe r hc.root_mem
    unfold nm at hn
    unfold docKid
    unfold Dom.isElement at hel
    cases hd : s.dom.dataOf r with
    | none => rw [hd] at hel; cases hel
    | some v =>
      rw [hd] at hn hel
      cases v with
      | element n a tc ip =>
        simp only at hn ⊢
        have h1 : n.ns = nsHtml := congrArg EName.ns hn
        have h2 : n.loc = "html".toList := congrArg EName.loc hn
        simp [h1, h2]
      | _ => cases hel
  unfold htmlOf
  cases hf : (s.dom.childrenOf Dom.document).find? (fun x => docKid s.dom x == .html) with
  | none =>
    have := List.find?_eq_none.mp hf r hc.rdoc
    simp [hrk] at this
  | some h =>
    obtain ⟨hp, l1, l2, hl, hl1⟩ := List.find?_eq_some_iff_append.mp hf
    have hph : docKid s.dom h = .html := by simpa using hp
    -- r is not before h, and not after h
    have hr := hc.rdoc
    have hr' : r ∈ l1 ++ h :: l2 := by rw [← hl]; exact hr
    rcases List.mem_append.mp hr' with h1 | h1
    · have := hl1 r h1
      simp [hrk] at this
    · simp only [List.mem_cons] at h1
      rcases h1 with rfl | h1
      · rfl
      · exfalso
        have hk : kinds s.dom = l1.map (docKid s.dom) ++ DocKid.html :: l2.map (docKid s.dom) := by
          unfold kinds
          show (s.dom.childrenOf Dom.document).map _ = _
          rw [hl, List.map_append, List.map_cons, hph]
        rw [hk] at hpat
        exact docPattern_two_html 0 _ _ hpat (by rw [← hrk]; exact List.mem_map_of_mem h1)

theorem htmlElemName_of_nm {d : Dom} {x : Id} {a : String} (hel : d.isElement x = true) (h : nm d x = hN a) :
    htmlElemName d x = some a.toList := by
  unfold nm at h
  unfold htmlElemName
  unfold Dom.isElement at hel
  cases hd : d.dataOf x with
  | none => rw [hd] at hel; cases hel
  | some v =>
    rw [hd] at h hel
    cases v with
    | element n at' tc ip =>
      simp only at h ⊢
      have h1 : n.ns = nsHtml := congrArg EName.ns h
      have h2 : n.loc = a.toList := congrArg EName.loc h
      simp [h1, h2]
    | _ => cases hel

theorem htmlElemName_none {d : Dom} {x : Id} (hel : d.isElement x = false) : htmlElemName d x = none := by
  unfold htmlElemName
  unfold Dom.isElement at hel
  cases hd : d.dataOf x with
  | none => rfl
  | some v => rw [hd] at hel; cases v <;> first | rfl | cases hel

theorem htmlElemName_isSome {d : Dom} {x : Id} (hel : d.isElement x = true) : (htmlElemName d x).isSome = true := by
  unfold htmlElemName
  unfold Dom.isElement at hel
  cases hd : d.dataOf x with
  | none => rw [hd] at hel; cases hel
  | some v =>
    rw [hd] at hel
    cases v with
    | element n a tc ip => simp only; split <;> rfl
    | _ => cases hel

/-- the names of the element children are the names of `rootElems` -/
theorem elemKidNames_eq (d : Dom) (r : Id) :
    elemKidNames d r = (rootElems d r).filterMap (htmlElemName d) := by
  unfold elemKidNames rootElems
  induction d.childrenOf r with
  | nil => rfl
  | cons c t ih =>
    by_cases hc : d.isElement c = true
    · rw [List.filter_cons_of_pos hc, List.filterMap_cons, List.filterMap_cons, ih]
    · have hc' : d.isElement c = false := by simpa using hc
      rw [List.filter_cons_of_neg hc, List.filterMap_cons, htmlElemName_none hc', ih]

/-- the two shapes of the list of element children of `html` once `body` or `frameset` is there:
`head body`, or `head frameset` followed by elements each of which is a `noframes` or one of the
formatting elements `a b big code em font i nobr s small strike strong tt u` (the known finding:
formatting elements reconstructed in the after-after-frameset mode) -/
def HtmlKids (names : List Str) : Prop :=
  names = ["head".toList, "body".toList] ∨
    ∃ ex, names = "head".toList :: "frameset".toList :: ex ∧
      ∀ n ∈ ex, n = "noframes".toList ∨ isOneOf n fmtNames = true

theorem htmlKids_of_fin {s : State} (h : Fin s) :
    ∃ r, htmlOf s.dom = some r ∧ HtmlKids (elemKidNames s.dom r) ∧
      ∀ c ∈ s.dom.childrenOf r, ∀ t, s.dom.dataOf c = some (.text t) → t.all isAsciiWhitespace = true := by
  obtain ⟨r, up, ph, hs, hbf⟩ := h
  have hc := hs.core
  refine ⟨r, htmlOf_root hc, ?_, ?_⟩
  · rw [elemKidNames_eq]
    have he := hc.elems
    have hel : ∀ x ∈ rootElems s.dom r, s.dom.isElement x = true := fun x hx => (List.mem_filter.mp hx).2
    cases ph with
    | p0 => exact absurd hbf id
    | p1 => exact absurd hbf id
    | pb b =>
      obtain ⟨h, _, e2, e3, e4⟩ := he
      left
      have hh := hel h (by rw [e2]; simp)
      have hb := hel b (by rw [e2]; simp)
      rw [e2]
      simp [List.filterMap_cons, htmlElemName_of_nm hh e3, htmlElemName_of_nm hb e4]
    | pf fs =>
      obtain ⟨h, ex, _, e2, e3, e4, e5⟩ := he
      right
      have hh := hel h (by rw [e2]; simp)
      have hf := hel fs (by rw [e2]; simp)
      refine ⟨ex.filterMap (htmlElemName s.dom), ?_, ?_⟩
      · rw [e2]
        simp [List.filterMap_cons, htmlElemName_of_nm hh e3, htmlElemName_of_nm hf e4]
      · intro n hn
        obtain ⟨x, hx, hxn⟩ := List.mem_filterMap.mp hn
        have hxe := hel x (by rw [e2]; simp [hx])
        rcases e5 x hx with h1 | h1
        · left
          rw [htmlElemName_of_nm hxe h1] at hxn
          cases hxn; rfl
        · right
          unfold isFmtE htmlIn at h1
          simp only [Bool.and_eq_true, beq_iff_eq] at h1
          obtain ⟨a, ha, hloc⟩ : ∃ a ∈ fmtNames, a.toList = (nm s.dom x).loc := by
            have := h1.2
            unfold isOneOf at this
            simpa using this
          have hnm : nm s.dom x = hN a := by
            have : nm s.dom x = ⟨(nm s.dom x).ns, (nm s.dom x).loc⟩ := rfl
            rw [this, h1.1, ← hloc]; rfl
          rw [htmlElemName_of_nm hxe hnm] at hxn
          cases hxn
          unfold isOneOf
          simp only [List.any_eq_true, beq_iff_eq]
          exact ⟨a, ha, rfl⟩
  · intro c hcm t ht
    rcases hc.kids c hcm with h1 | ⟨t', h1⟩ | ⟨t', h1, h2⟩
    · unfold Dom.isElement at h1; rw [ht] at h1; cases h1
    · rw [ht] at h1; cases h1
    · rw [ht] at h1; cases h1; exact h2


/-! ## runs -/

theorem e2_newTB {opts : Opts} {s1 : State} {u : Unit} (e : newTB (State.init opts) = .ok (u, s1)) : E2 s1 := by
  unfold newTB at e
  obtain ⟨doc, s0, e1, e2⟩ := bind_ok.mp e
  have h0 : E2 (State.init opts) := ⟨rfl, rfl, rfl⟩
  have h1 : E2 s0 := h0.ke e1
  rw [modS_ok.mp e2]
  exact ⟨h1.af, h1.form, h1.fp⟩

/-- the layer-2 invariant in every reachable state, given the rules -/
theorem reachable_i2 (R : Rules) {opts : Opts} {toks : List (TokToken × Nat)} {s : State}
    (h : Reachable opts toks s) : I2 s ∧ (∀ pre line, toks = pre ++ [(TokToken.eof, line)] → Fin s) := by
  obtain ⟨r, hr⟩ := h
  have hr' : (newTB >>= fun _ => processTokens toks []) (State.init opts) = .ok (r, s) := hr
  obtain ⟨u1, s1, e1, e2⟩ := bind_ok.mp hr'
  have h1 := newTB_inv (earlyA_init opts) e1
  obtain ⟨_, b, c⟩ := processTokens_good R toks [] s1 r s (.a h1) (I2.ofEarly h1.notLate (e2_newTB e1)) e2
  exact ⟨b, c⟩

theorem parseTokens_fin (R : Rules) {opts : Opts} {toks : List (TokToken × Nat)} {line : Nat} {s : State}
    (h : parseTokens opts (toks ++ [(TokToken.eof, line)]) = .ok s) :
    ∃ s0, Fin s0 ∧ s.dom.nodes = s0.dom.nodes := by
  unfold parseTokens at h
  cases hr : ((do newTB; let _ ← processTokens (toks ++ [(TokToken.eof, line)]) []; finishTB : M Unit).run
      (State.init opts)) with
  | error e => rw [hr] at h; cases h
  | ok p =>
    obtain ⟨u, sf⟩ := p
    rw [hr] at h
    have hs : sf = s := by simpa [Except.map] using h
    subst hs
    have hr' : (newTB >>= fun _ => processTokens (toks ++ [(TokToken.eof, line)]) [] >>= fun _ => finishTB)
        (State.init opts) = .ok (u, sf) := hr
    obtain ⟨u1, s1, e1, e2⟩ := bind_ok.mp hr'
    obtain ⟨r2, s2, e3, e4⟩ := bind_ok.mp e2
    have h1 := newTB_inv (earlyA_init opts) e1
    obtain ⟨_, _, c⟩ := processTokens_good R _ [] s1 r2 s2 (.a h1) (I2.ofEarly h1.notLate (e2_newTB e1)) e3
    exact ⟨s2, c toks line rfl, finishTB_nodes e4⟩

theorem htmlKids_transfer {d d' : Dom} (hn : d'.nodes = d.nodes) {r : Id}
    (h : htmlOf d = some r ∧ HtmlKids (elemKidNames d r) ∧
      ∀ c ∈ d.childrenOf r, ∀ t, d.dataOf c = some (.text t) → t.all isAsciiWhitespace = true) :
    htmlOf d' = some r ∧ HtmlKids (elemKidNames d' r) ∧
      ∀ c ∈ d'.childrenOf r, ∀ t, d'.dataOf c = some (.text t) → t.all isAsciiWhitespace = true := by
  have e1 : htmlOf d' = htmlOf d := by unfold htmlOf docKid Dom.childrenOf Dom.dataOf; rw [hn]
  have e2 : elemKidNames d' r = elemKidNames d r := by
    unfold elemKidNames htmlElemName Dom.childrenOf Dom.dataOf; rw [hn]
  have e3 : ∀ x, d'.dataOf x = d.dataOf x := fun x => by unfold Dom.dataOf; rw [hn]
  rw [e1, e2, childrenOf_of_nodes hn]
  exact ⟨h.1, h.2.1, fun c hc t ht => h.2.2 c hc t (by rw [← e3]; exact ht)⟩

/-- **T2a + T2b + T3b, relative to the per-mode rule statements `Rules`**: after a completed parse
(the token list ends with EOF; `new`, the tokens, `end()`), the element children of `html` are
`head body`, or `head frameset` followed by `noframes` / formatting elements only, and every text
child of `html` consists of `isAsciiWhitespace` characters (the class the model uses) -/
theorem C06_html_children_of_rules (R : Rules) {opts : Opts} {toks : List (TokToken × Nat)} {line : Nat} {s : State}
    (h : parseTokens opts (toks ++ [(TokToken.eof, line)]) = .ok s) :
    ∃ r, htmlOf s.dom = some r ∧ HtmlKids (elemKidNames s.dom r) ∧
      ∀ c ∈ s.dom.childrenOf r, ∀ t, s.dom.dataOf c = some (.text t) → t.all isAsciiWhitespace = true := by
  obtain ⟨s0, hf, hn⟩ := parseTokens_fin R h
  obtain ⟨r, hr⟩ := htmlKids_of_fin hf
  exact ⟨r, htmlKids_transfer hn hr⟩

end H5V.Props.C06
