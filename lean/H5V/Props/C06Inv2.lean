import H5V.Lemmas.HtmlTBSkelShapeAll
import H5V.Props.C06Inv
/-!
C06, second layer: the element children of `html` and the text under `html`, for **all** token lists
and option sets of the HTML tree-builder model, from the stack-shape invariant `ShapeAt`
(`H5V/Lemmas/HtmlTBSkelShape*.lean`; `rules : Rules` in `HtmlTBSkelShapeAll.lean` says that every
insertion mode, the foreign-content rules and the EOF arms preserve it).

The invariant (`ShapeAt s r up ph`, for every state from the creation of `html` on):
* the stack of open elements is `r :: up`, `r` the `html` element, a child of the document, without
  duplicates, with the table grammar `TG` (a `tr` sits on `tbody/thead/tfoot/template`, …);
* by insertion mode (`Fits`): BeforeHead `[html]`; InHead `[html, head]`; AfterHead `[html]`; the
  body-like modes `html body …` (or `html head template …` / `html template …` for a template opened
  in or after the head), with a `table`/`template` (`tbody…`, `tr`, `td/th`, `template`) on the stack
  in InTable (InTableBody, InRow, InCell, InTemplate); `html frameset…` in InFrameset; `[html]` in
  AfterFrameset; `html` followed by formatting elements in AfterAfterFrameset; Text / InTableText:
  the original mode fits the stack below the raw-text element;
* the phase `ph` fixes the element children of `html`: none; `head`; `head body`;
  `head frameset` followed by `noframes` and formatting elements;
* every child of `html` is an element, a comment, or text of `isAsciiWhitespace` characters;
* active formatting entries are HTML formatting elements (`a b big code em font i nobr s small strike
  strong tt u`), the form pointer is a `form` element, one template mode per `template` on the stack;
* every formatting element among the element children of `html` has an entry with its tag name in the
  list of active formatting elements (`Afx`).

Theorems (all without hypotheses other than "the run returns normally"):
* `C06_shape_every_state` — the invariant in every reachable state (after any token list);
* `C06_html_children` — T2a + T2b + T3b after a completed parse;
* `C06_html_children_prefix` — T2a: the element children of `html` begin with `head`, then `body` or `frameset`;
* `C06_html_children_body` — with `body` the list is exactly `head body`;
* `C06_htmlKidsOk_iff` — the clause of `Skeleton` holds iff no formatting element is among the children
  (the known finding `C06_witness_frameset_reconstruct` is the only way to break it);
* `C06_html_children_fmt_in_af` — every formatting element among the children of `html` has an entry with
  its tag name in the list of active formatting elements at the end of the parse;
* `C06_html_children_partial` — T2b `_partial`: the full clause `htmlKidsOk` if that list holds no element
  entry at the end (what is missing: runs through `framesetGapState`, the known finding);
* `C06_html_text_whitespace` — T3b in the terms of `docClauses` (`isWsChar`);
* `C06_html_children_every_state` — the same for every state from BeforeHead on (prefix-closed form).

`isAsciiWhitespace` is the class the model uses (`' ' \t \n \x0c \r`); it is the same predicate as
`isWsChar` of `Props/C06.lean`.
-/
namespace H5V.Props.C06
open H5V.Model.Dom hiding Str
open H5V.Model.HtmlTB hiding Str
open H5V.Lemmas.Dom

/-- the names `htmlKidsOk` looks at: the element children of `h` by HTML local name -/
def elemKidNames (d : Dom) (h : Id) : List Str := (d.childrenOf h).filterMap (htmlElemName d)

theorem docPattern_two_html : ∀ (st : Nat) (k1 k2 : List DocKid), docPattern st (k1 ++ .html :: k2) = true →
    DocKid.html ∉ k2
  | st, [], k2, h => by
    have h2 : docPattern 2 k2 = true := by
      match st, h with
      | 0, h => simpa [docPattern] using h
      | 1, h => simpa [docPattern] using h
      | n + 2, h => simp [docPattern] at h
    intro hm
    clear h
    induction k2 with
    | nil => cases hm
    | cons c rest ih =>
      cases c with
      | comment =>
        simp only [docPattern] at h2
        simp only [List.mem_cons] at hm
        rcases hm with hm | hm
        · cases hm
        · exact ih h2 hm
      | doctype => simp [docPattern] at h2
      | html => simp [docPattern] at h2
      | other => simp [docPattern] at h2
  | st, c :: k1, k2, h => by
    cases c with
    | comment =>
      simp only [List.cons_append, docPattern] at h
      exact docPattern_two_html st k1 k2 h
    | doctype =>
      match st, h with
      | 0, h =>
        simp only [List.cons_append, docPattern] at h
        exact docPattern_two_html 1 k1 k2 h
      | n + 1, h => simp [docPattern] at h
    | html =>
      match st, h with
      | 0, h =>
        simp only [List.cons_append, docPattern] at h
        intro hm
        exact docPattern_two_html 2 k1 k2 h hm
      | 1, h =>
        simp only [List.cons_append, docPattern] at h
        intro hm
        exact docPattern_two_html 2 k1 k2 h hm
      | n + 2, h => simp [docPattern] at h
    | other => simp [docPattern] at h

/-- the root of the invariant is the element `htmlOf` finds -/
theorem htmlOf_root {s : State} {r : Id} {up : List Id} {ph : Phase} (hc : Core s r up ph) : htmlOf s.dom = some r := by
  have hpat := hc.late.pat
  have hrk : docKid s.dom r = .html := by
    have hn := hc.root_name
    have hel := hc.late.st.oe r hc.root_mem
    unfold nm at hn
    unfold docKid
    unfold Dom.isElement at hel
    cases hd : s.dom.dataOf r with
    | none => rw [hd] at hel; cases hel
    | some v =>
      rw [hd] at hn hel
      cases v with
      | element n a tc ip =>
        simp only at hn ⊢
        have h1 : n.ns = nsHtml := congrArg EName.ns hn
        have h2 : n.loc = "html".toList := congrArg EName.loc hn
        simp [h1, h2]
      | _ => cases hel
  unfold htmlOf
  cases hf : (s.dom.childrenOf Dom.document).find? (fun x => docKid s.dom x == .html) with
  | none =>
    have := List.find?_eq_none.mp hf r hc.rdoc
    simp [hrk] at this
  | some h =>
    obtain ⟨hp, l1, l2, hl, hl1⟩ := List.find?_eq_some_iff_append.mp hf
    have hph : docKid s.dom h = .html := by simpa using hp
    -- r is not before h, and not after h
    have hr := hc.rdoc
    have hr' : r ∈ l1 ++ h :: l2 := by rw [← hl]; exact hr
    rcases List.mem_append.mp hr' with h1 | h1
    · have := hl1 r h1
      simp [hrk] at this
    · simp only [List.mem_cons] at h1
      rcases h1 with rfl | h1
      · rfl
      · exfalso
        have hk : kinds s.dom = l1.map (docKid s.dom) ++ DocKid.html :: l2.map (docKid s.dom) := by
          unfold kinds
          show (s.dom.childrenOf Dom.document).map _ = _
          rw [hl, List.map_append, List.map_cons, hph]
        rw [hk] at hpat
        exact docPattern_two_html 0 _ _ hpat (by rw [← hrk]; exact List.mem_map_of_mem h1)

theorem htmlElemName_of_nm {d : Dom} {x : Id} {a : String} (hel : d.isElement x = true) (h : nm d x = hN a) :
    htmlElemName d x = some a.toList := by
  unfold nm at h
  unfold htmlElemName
  unfold Dom.isElement at hel
  cases hd : d.dataOf x with
  | none => rw [hd] at hel; cases hel
  | some v =>
    rw [hd] at h hel
    cases v with
    | element n at' tc ip =>
      simp only at h ⊢
      have h1 : n.ns = nsHtml := congrArg EName.ns h
      have h2 : n.loc = a.toList := congrArg EName.loc h
      simp [h1, h2]
    | _ => cases hel

theorem htmlElemName_none {d : Dom} {x : Id} (hel : d.isElement x = false) : htmlElemName d x = none := by
  unfold htmlElemName
  unfold Dom.isElement at hel
  cases hd : d.dataOf x with
  | none => rfl
  | some v => rw [hd] at hel; cases v <;> first | rfl | cases hel

theorem htmlElemName_isSome {d : Dom} {x : Id} (hel : d.isElement x = true) : (htmlElemName d x).isSome = true := by
  unfold htmlElemName
  unfold Dom.isElement at hel
  cases hd : d.dataOf x with
  | none => rw [hd] at hel; cases hel
  | some v =>
    rw [hd] at hel
    cases v with
    | element n a tc ip => simp only; split <;> rfl
    | _ => cases hel

/-- the names of the element children are the names of `rootElems` -/
theorem elemKidNames_eq (d : Dom) (r : Id) :
    elemKidNames d r = (rootElems d r).filterMap (htmlElemName d) := by
  unfold elemKidNames rootElems
  induction d.childrenOf r with
  | nil => rfl
  | cons c t ih =>
    by_cases hc : d.isElement c = true
    · rw [List.filter_cons_of_pos hc, List.filterMap_cons, List.filterMap_cons, ih]
    · have hc' : d.isElement c = false := by simpa using hc
      rw [List.filter_cons_of_neg hc, List.filterMap_cons, htmlElemName_none hc', ih]

/-- the two shapes of the list of element children of `html` once `body` or `frameset` is there:
`head body`, or `head frameset` followed by elements each of which is a `noframes` or one of the
formatting elements `a b big code em font i nobr s small strike strong tt u` (the known finding:
formatting elements reconstructed in the after-after-frameset mode) -/
def HtmlKids (names : List Str) : Prop :=
  names = ["head".toList, "body".toList] ∨
    ∃ ex, names = "head".toList :: "frameset".toList :: ex ∧
      ∀ n ∈ ex, n = "noframes".toList ∨ isOneOf n fmtNames = true

theorem htmlKids_of_fin {s : State} (h : Fin s) :
    ∃ r, htmlOf s.dom = some r ∧ HtmlKids (elemKidNames s.dom r) ∧
      ∀ c ∈ s.dom.childrenOf r, ∀ t, s.dom.dataOf c = some (.text t) → t.all isAsciiWhitespace = true := by
  obtain ⟨r, up, ph, hs, hbf⟩ := h
  have hc := hs.core
  refine ⟨r, htmlOf_root hc, ?_, ?_⟩
  · rw [elemKidNames_eq]
    have he := hc.elems
    have hel : ∀ x ∈ rootElems s.dom r, s.dom.isElement x = true := fun x hx => (List.mem_filter.mp hx).2
    cases ph with
    | p0 => exact absurd hbf id
    | p1 => exact absurd hbf id
    | pb b =>
      obtain ⟨h, _, e2, e3, e4⟩ := he
      left
      have hh := hel h (by rw [e2]; simp)
      have hb := hel b (by rw [e2]; simp)
      rw [e2]
      simp [List.filterMap_cons, htmlElemName_of_nm hh e3, htmlElemName_of_nm hb e4]
    | pf fs =>
      obtain ⟨h, ex, _, e2, e3, e4, e5⟩ := he
      right
      have hh := hel h (by rw [e2]; simp)
      have hf := hel fs (by rw [e2]; simp)
      refine ⟨ex.filterMap (htmlElemName s.dom), ?_, ?_⟩
      · rw [e2]
        simp [List.filterMap_cons, htmlElemName_of_nm hh e3, htmlElemName_of_nm hf e4]
      · intro n hn
        obtain ⟨x, hx, hxn⟩ := List.mem_filterMap.mp hn
        have hxe := hel x (by rw [e2]; simp [hx])
        rcases e5 x hx with h1 | h1
        · left
          rw [htmlElemName_of_nm hxe h1] at hxn
          cases hxn; rfl
        · right
          unfold isFmtE htmlIn at h1
          simp only [Bool.and_eq_true, beq_iff_eq] at h1
          obtain ⟨a, ha, hloc⟩ : ∃ a ∈ fmtNames, a.toList = (nm s.dom x).loc := by
            have := h1.2
            unfold isOneOf at this
            simpa using this
          have hnm : nm s.dom x = hN a := by
            have : nm s.dom x = ⟨(nm s.dom x).ns, (nm s.dom x).loc⟩ := rfl
            rw [this, h1.1, ← hloc]; rfl
          rw [htmlElemName_of_nm hxe hnm] at hxn
          cases hxn
          unfold isOneOf
          simp only [List.any_eq_true, beq_iff_eq]
          exact ⟨a, ha, rfl⟩
  · intro c hcm t ht
    rcases hc.kids c hcm with h1 | ⟨t', h1⟩ | ⟨t', h1, h2⟩
    · unfold Dom.isElement at h1; rw [ht] at h1; cases h1
    · rw [ht] at h1; cases h1
    · rw [ht] at h1; cases h1; exact h2


/-! ## runs -/

theorem e2_newTB {opts : Opts} {s1 : State} {u : Unit} (e : newTB (State.init opts) = .ok (u, s1)) : E2 s1 := by
  unfold newTB at e
  obtain ⟨doc, s0, e1, e2⟩ := bind_ok.mp e
  have h0 : E2 (State.init opts) := ⟨rfl, rfl, rfl, AdjD.new⟩
  have h1 : E2 s0 := h0.keq e1 (by
    obtain ⟨d, hd, rfl⟩ := sink_ok.mp (sinkNode_ok.mp e1)
    exact (inferInstance : QuietOp .getDocument).h _ _ _ hd)
  rw [modS_ok.mp e2]
  exact ⟨h1.af, h1.form, h1.fp, h1.adj⟩

/-- the layer-2 invariant in every reachable state, given the rules -/
theorem reachable_i2 (R : Rules) {opts : Opts} {toks : List (TokToken × Nat)} {s : State}
    (h : Reachable opts toks s) : I2 s ∧ (∀ pre line, toks = pre ++ [(TokToken.eof, line)] → Fin s) := by
  obtain ⟨r, hr⟩ := h
  have hr' : (newTB >>= fun _ => processTokens toks []) (State.init opts) = .ok (r, s) := hr
  obtain ⟨u1, s1, e1, e2⟩ := bind_ok.mp hr'
  have h1 := newTB_inv (earlyA_init opts) e1
  obtain ⟨_, b, c⟩ := processTokens_good R toks [] s1 r s (.a h1) (I2.ofEarly h1.notLate (e2_newTB e1)) e2
  exact ⟨b, c⟩

theorem parseTokens_fin (R : Rules) {opts : Opts} {toks : List (TokToken × Nat)} {line : Nat} {s : State}
    (h : parseTokens opts (toks ++ [(TokToken.eof, line)]) = .ok s) :
    ∃ s0, Fin s0 ∧ s.dom.nodes = s0.dom.nodes := by
  unfold parseTokens at h
  cases hr : ((do newTB; let _ ← processTokens (toks ++ [(TokToken.eof, line)]) []; finishTB : M Unit).run
      (State.init opts)) with
  | error e => rw [hr] at h; cases h
  | ok p =>
    obtain ⟨u, sf⟩ := p
    rw [hr] at h
    have hs : sf = s := by simpa [Except.map] using h
    subst hs
    have hr' : (newTB >>= fun _ => processTokens (toks ++ [(TokToken.eof, line)]) [] >>= fun _ => finishTB)
        (State.init opts) = .ok (u, sf) := hr
    obtain ⟨u1, s1, e1, e2⟩ := bind_ok.mp hr'
    obtain ⟨r2, s2, e3, e4⟩ := bind_ok.mp e2
    have h1 := newTB_inv (earlyA_init opts) e1
    obtain ⟨_, _, c⟩ := processTokens_good R _ [] s1 r2 s2 (.a h1) (I2.ofEarly h1.notLate (e2_newTB e1)) e3
    exact ⟨s2, c toks line rfl, finishTB_nodes e4⟩

theorem htmlKids_transfer {d d' : Dom} (hn : d'.nodes = d.nodes) {r : Id}
    (h : htmlOf d = some r ∧ HtmlKids (elemKidNames d r) ∧
      ∀ c ∈ d.childrenOf r, ∀ t, d.dataOf c = some (.text t) → t.all isAsciiWhitespace = true) :
    htmlOf d' = some r ∧ HtmlKids (elemKidNames d' r) ∧
      ∀ c ∈ d'.childrenOf r, ∀ t, d'.dataOf c = some (.text t) → t.all isAsciiWhitespace = true := by
  have e1 : htmlOf d' = htmlOf d := by unfold htmlOf docKid Dom.childrenOf Dom.dataOf; rw [hn]
  have e2 : elemKidNames d' r = elemKidNames d r := by
    unfold elemKidNames htmlElemName Dom.childrenOf Dom.dataOf; rw [hn]
  have e3 : ∀ x, d'.dataOf x = d.dataOf x := fun x => by unfold Dom.dataOf; rw [hn]
  rw [e1, e2, childrenOf_of_nodes hn]
  exact ⟨h.1, h.2.1, fun c hc t ht => h.2.2 c hc t (by rw [← e3]; exact ht)⟩

/-- after a completed parse, relative to a proof of `Rules` (kept for reference; `rules` discharges it) -/
theorem C06_html_children_of_rules (R : Rules) {opts : Opts} {toks : List (TokToken × Nat)} {line : Nat} {s : State}
    (h : parseTokens opts (toks ++ [(TokToken.eof, line)]) = .ok s) :
    ∃ r, htmlOf s.dom = some r ∧ HtmlKids (elemKidNames s.dom r) ∧
      ∀ c ∈ s.dom.childrenOf r, ∀ t, s.dom.dataOf c = some (.text t) → t.all isAsciiWhitespace = true := by
  obtain ⟨s0, hf, hn⟩ := parseTokens_fin R h
  obtain ⟨r, hr⟩ := htmlKids_of_fin hf
  exact ⟨r, htmlKids_transfer hn hr⟩

/-! ## the theorems -/

/-- **the stack-shape invariant holds in every reachable state** from the creation of the `html`
element on (`Late s`: the insertion mode is BeforeHead or later), for every token list and option set -/
theorem C06_shape_every_state {opts : Opts} {toks : List (TokToken × Nat)} {s : State}
    (h : Reachable opts toks s) : Late s → ∃ r up ph, ShapeAt s r up ph := by
  intro hl
  obtain ⟨r, up, ph, hs, _⟩ := (reachable_i2 rules h).1.2 hl
  exact ⟨r, up, ph, hs⟩

/-- **T2a + T2b + T3b**: after a completed parse (`new`, a token list that ends with EOF, `end()`), for
all token lists and option sets: the element children of the `html` root are `head body`, or
`head frameset` followed by elements each of which is a `noframes` or one of the formatting elements
`a b big code em font i nobr s small strike strong tt u`; every text child of `html` consists of
`isAsciiWhitespace` characters (the class the model uses) -/
theorem C06_html_children {opts : Opts} {toks : List (TokToken × Nat)} {line : Nat} {s : State}
    (h : parseTokens opts (toks ++ [(TokToken.eof, line)]) = .ok s) :
    ∃ r, htmlOf s.dom = some r ∧ HtmlKids (elemKidNames s.dom r) ∧
      ∀ c ∈ s.dom.childrenOf r, ∀ t, s.dom.dataOf c = some (.text t) → t.all isAsciiWhitespace = true :=
  C06_html_children_of_rules rules h

/-- **T2a**: the element children of `html` begin with `head`, followed by `body` or `frameset` -/
theorem C06_html_children_prefix {opts : Opts} {toks : List (TokToken × Nat)} {line : Nat} {s : State}
    (h : parseTokens opts (toks ++ [(TokToken.eof, line)]) = .ok s) :
    ∃ r b rest, htmlOf s.dom = some r ∧ elemKidNames s.dom r = "head".toList :: b :: rest ∧
      (b = "body".toList ∨ b = "frameset".toList) := by
  obtain ⟨r, h1, h2, _⟩ := C06_html_children h
  rcases h2 with h2 | ⟨ex, h2, _⟩
  · exact ⟨r, _, [], h1, h2, Or.inl rfl⟩
  · exact ⟨r, _, ex, h1, h2, Or.inr rfl⟩

/-- with a `body`, the element children of `html` are exactly `head body` -/
theorem C06_html_children_body {opts : Opts} {toks : List (TokToken × Nat)} {line : Nat} {s : State} {r : Id}
    (h : parseTokens opts (toks ++ [(TokToken.eof, line)]) = .ok s) (hr : htmlOf s.dom = some r)
    (hb : "body".toList ∈ elemKidNames s.dom r) : elemKidNames s.dom r = ["head".toList, "body".toList] := by
  obtain ⟨r', h1, h2, _⟩ := C06_html_children h
  rw [hr] at h1; cases h1
  rcases h2 with h2 | ⟨ex, h2, hex⟩
  · exact h2
  · exfalso
    rw [h2] at hb
    simp only [List.mem_cons] at hb
    rcases hb with hb | hb | hb
    · revert hb; decide
    · revert hb; decide
    · rcases hex _ hb with h3 | h3
      · revert h3; decide
      · revert h3; decide

/-- **T2b, in the terms of `Skeleton`**: the clause `htmlKidsOk` (`head (body | frameset noframes*)`)
holds for the parsed document iff no formatting element is among the element children of `html` -/
theorem C06_htmlKidsOk_iff {opts : Opts} {toks : List (TokToken × Nat)} {line : Nat} {s : State} {r : Id}
    (h : parseTokens opts (toks ++ [(TokToken.eof, line)]) = .ok s) (hr : htmlOf s.dom = some r) :
    htmlKidsOk (elemKidNames s.dom r) = true ↔ ∀ n ∈ elemKidNames s.dom r, isOneOf n fmtNames = false := by
  obtain ⟨r', h1, h2, _⟩ := C06_html_children h
  rw [hr] at h1; cases h1
  rcases h2 with h2 | ⟨ex, h2, hex⟩
  · rw [h2]
    constructor
    · intro _ n hn
      simp only [List.mem_cons, List.not_mem_nil, or_false] at hn
      rcases hn with rfl | rfl <;> decide
    · intro _; decide
  · rw [h2]
    constructor
    · intro hk n hn
      simp only [List.mem_cons] at hn
      rcases hn with rfl | rfl | hn
      · decide
      · decide
      · have hall : ex.all (· == "noframes".toList) = true := by
          simp only [htmlKidsOk] at hk
          have h0 : ("frameset".toList == "body".toList) = false := by decide
          have h1' : ("head".toList == "head".toList) = true := by decide
          have h2' : ("frameset".toList == "frameset".toList) = true := by decide
          rw [h1', h0, h2'] at hk
          simpa using hk
        have := List.all_eq_true.mp hall n hn
        have hn' : n = "noframes".toList := by simpa using this
        rw [hn']; decide
    · intro hno
      have hall : ex.all (· == "noframes".toList) = true := by
        rw [List.all_eq_true]
        intro n hn
        rcases hex n hn with h3 | h3
        · rw [h3]; simp
        · have := hno n (by simp [hn])
          rw [h3] at this; cases this
      simp only [htmlKidsOk]
      have h0 : ("frameset".toList == "body".toList) = false := by decide
      have h1' : ("head".toList == "head".toList) = true := by decide
      have h2' : ("frameset".toList == "frameset".toList) = true := by decide
      rw [h1', h0, h2', hall]; rfl

/-- **T3b** in the terms of `docClauses`: every child of `html` is an element, a comment, or text of
whitespace characters (`isWsChar` = `isAsciiWhitespace`, the class the model uses) -/
theorem C06_html_text_whitespace {opts : Opts} {toks : List (TokToken × Nat)} {line : Nat} {s : State} {r : Id}
    (h : parseTokens opts (toks ++ [(TokToken.eof, line)]) = .ok s) (hr : htmlOf s.dom = some r) :
    ∀ c ∈ s.dom.childrenOf r, ∀ t, s.dom.dataOf c = some (.text t) → t.all isWsChar = true := by
  obtain ⟨r', h1, _, h3⟩ := C06_html_children h
  rw [hr] at h1; cases h1
  intro c hc t ht
  have := h3 c hc t ht
  have heq : isWsChar = isAsciiWhitespace := by funext ch; rfl
  rw [heq]; exact this

/-- the prefix-closed form: in **every** reachable state from BeforeHead on, the element children of
`html` form a prefix of the final pattern (nothing; `head`; `head body`; `head frameset` followed by
`noframes` / formatting elements), and every child of `html` is an element, a comment or whitespace text -/
theorem C06_html_children_every_state {opts : Opts} {toks : List (TokToken × Nat)} {s : State}
    (h : Reachable opts toks s) (hl : Late s) :
    ∃ r, htmlOf s.dom = some r ∧
      (elemKidNames s.dom r = [] ∨ elemKidNames s.dom r = ["head".toList] ∨ HtmlKids (elemKidNames s.dom r)) ∧
      ∀ c ∈ s.dom.childrenOf r, ∀ t, s.dom.dataOf c = some (.text t) → t.all isAsciiWhitespace = true := by
  obtain ⟨r, up, ph, hs⟩ := C06_shape_every_state h hl
  have hc := hs.core
  have hws : ∀ c ∈ s.dom.childrenOf r, ∀ t, s.dom.dataOf c = some (.text t) → t.all isAsciiWhitespace = true := by
    intro c hcm t ht
    rcases hc.kids c hcm with h1 | ⟨t', h1⟩ | ⟨t', h1, h2⟩
    · unfold Dom.isElement at h1; rw [ht] at h1; cases h1
    · rw [ht] at h1; cases h1
    · rw [ht] at h1; cases h1; exact h2
  refine ⟨r, htmlOf_root hc, ?_, hws⟩
  have hel : ∀ x ∈ rootElems s.dom r, s.dom.isElement x = true := fun x hx => (List.mem_filter.mp hx).2
  cases ph with
  | p0 =>
    left
    rw [elemKidNames_eq, hc.elems.2]; rfl
  | p1 =>
    right; left
    obtain ⟨hh, _, e2, e3⟩ := hc.elems
    have hhe := hel hh (by rw [e2]; simp)
    rw [elemKidNames_eq, e2]
    simp [List.filterMap_cons, htmlElemName_of_nm hhe e3]
  | pb b =>
    right; right
    obtain ⟨r', hr', hk, _⟩ := htmlKids_of_fin ⟨r, up, .pb b, hs, trivial⟩
    rw [htmlOf_root hc] at hr'
    cases hr'
    exact hk
  | pf fs =>
    right; right
    obtain ⟨r', hr', hk, _⟩ := htmlKids_of_fin ⟨r, up, .pf fs, hs, trivial⟩
    rw [htmlOf_root hc] at hr'
    cases hr'
    exact hk


/-! ## the list of active formatting elements and the known finding -/

theorem endLoop_af : ∀ (l : List Id) (s s' : State) (u : Unit), H5V.Model.HtmlTB.endLoop l s = .ok (u, s') →
    s'.activeFormatting = s.activeFormatting
  | [], s, s', u, e => by
    unfold H5V.Model.HtmlTB.endLoop at e
    obtain ⟨_, rfl⟩ := pure_ok.mp e
    rfl
  | x :: rest, s, s', u, e => by
    unfold H5V.Model.HtmlTB.endLoop at e
    obtain ⟨u1, s1, e1, e2⟩ := bind_ok.mp e
    rw [endLoop_af rest s1 s' u e2]
    exact (qs_sinkUnit e1).af

theorem finishTB_af {s s' : State} {u : Unit} (e : finishTB s = .ok (u, s')) :
    s'.activeFormatting = s.activeFormatting := by
  unfold finishTB at e
  rw [getS_bind] at e
  obtain ⟨u1, s1, e1, e2⟩ := bind_ok.mp e
  rw [endLoop_af _ _ _ _ e2, modS_ok.mp e1]

/-- the state before `end()`: the invariant, the same nodes, the same list of active formatting elements -/
theorem parseTokens_fin_af {opts : Opts} {toks : List (TokToken × Nat)} {line : Nat} {s : State}
    (h : parseTokens opts (toks ++ [(TokToken.eof, line)]) = .ok s) :
    ∃ s0, Fin s0 ∧ s.dom.nodes = s0.dom.nodes ∧ s.activeFormatting = s0.activeFormatting := by
  unfold parseTokens at h
  cases hr : ((do newTB; let _ ← processTokens (toks ++ [(TokToken.eof, line)]) []; finishTB : M Unit).run
      (State.init opts)) with
  | error e => rw [hr] at h; cases h
  | ok p =>
    obtain ⟨u, sf⟩ := p
    rw [hr] at h
    have hs : sf = s := by simpa [Except.map] using h
    subst hs
    have hr' : (newTB >>= fun _ => processTokens (toks ++ [(TokToken.eof, line)]) [] >>= fun _ => finishTB)
        (State.init opts) = .ok (u, sf) := hr
    obtain ⟨u1, s1, e1, e2⟩ := bind_ok.mp hr'
    obtain ⟨r2, s2, e3, e4⟩ := bind_ok.mp e2
    have h1 := newTB_inv (earlyA_init opts) e1
    obtain ⟨_, _, c⟩ := processTokens_good rules _ [] s1 r2 s2 (.a h1) (I2.ofEarly h1.notLate (e2_newTB e1)) e3
    exact ⟨s2, c toks line rfl, finishTB_nodes e4, finishTB_af e4⟩

/-- **every formatting element among the element children of `html` is accounted for by the list of
active formatting elements**: it has an entry with its tag name there, at the end of the parse.  (Such
children arise only by "reconstruct the active formatting elements" in the after-after-frameset mode;
the entry is the one that was in the list when `<frameset>` replaced `body`, or a recreation of it.) -/
theorem C06_html_children_fmt_in_af {opts : Opts} {toks : List (TokToken × Nat)} {line : Nat} {s : State} {r : Id}
    (h : parseTokens opts (toks ++ [(TokToken.eof, line)]) = .ok s) (hr : htmlOf s.dom = some r) :
    ∀ n ∈ elemKidNames s.dom r, isOneOf n fmtNames = true →
      ∃ y t, FormatEntry.element y t ∈ s.activeFormatting ∧ t.name = n := by
  obtain ⟨s0, hf, hn, haf⟩ := parseTokens_fin_af h
  obtain ⟨r0, up, ph, hs, _⟩ := hf
  have hc := hs.core
  have hr0 : htmlOf s0.dom = some r0 := htmlOf_root hc
  have e1 : htmlOf s.dom = htmlOf s0.dom := by unfold htmlOf docKid Dom.childrenOf Dom.dataOf; rw [hn]
  rw [e1, hr0] at hr; cases hr
  have e2 : elemKidNames s.dom r = elemKidNames s0.dom r := by
    unfold elemKidNames htmlElemName Dom.childrenOf Dom.dataOf; rw [hn]
  intro n hnm hfm
  rw [e2, elemKidNames_eq] at hnm
  obtain ⟨x, hx, hxn⟩ := List.mem_filterMap.mp hnm
  have hxe : s0.dom.isElement x = true := (List.mem_filter.mp hx).2
  -- the name of x
  have hname : nm s0.dom x = ⟨nsHtml, n⟩ := by
    unfold htmlElemName at hxn
    unfold Dom.isElement at hxe
    unfold nm
    cases hd : s0.dom.dataOf x with
    | none => rw [hd] at hxe; cases hxe
    | some v =>
      rw [hd] at hxn hxe
      cases v with
      | element q a tc ip =>
        simp only at hxn ⊢
        by_cases hq : (q.ns == nsHtml) = true
        · rw [if_pos hq] at hxn
          cases hxn
          have : q.ns = nsHtml := by simpa using hq
          rw [this]
        · rw [if_neg hq] at hxn
          cases hxn
          exact absurd hfm (by decide)
      | _ => cases hxe
  have hfx : isFmtE (nm s0.dom x) = true := by rw [hname]; exact isFmtE_of_fmt hfm
  obtain ⟨y, t, hy, ht⟩ := hc.afx x hx hfx
  exact ⟨y, t, by rw [haf]; exact hy, by rw [ht, hname]⟩

/-- **T2b, `_partial`**: the full clause `head (body | frameset noframes*)` of `Skeleton` for the children
of `html`, under the hypothesis that the list of active formatting elements holds no element entry at the
end of the parse (decidable on the final state; in particular when no formatting start tag —
`a b big code em font i nobr s small strike strong tt u` — occurs unclosed before `<frameset>`).
What is missing for the unconditional clause is exactly the known finding
`C06_witness_frameset_reconstruct`: `<frameset>` replacing `body` while the list is not empty
(`framesetGapState`), followed by whitespace after `</html>`. -/
theorem C06_html_children_partial {opts : Opts} {toks : List (TokToken × Nat)} {line : Nat} {s : State}
    (h : parseTokens opts (toks ++ [(TokToken.eof, line)]) = .ok s)
    (haf : ∀ y t, FormatEntry.element y t ∉ s.activeFormatting) :
    ∃ r, htmlOf s.dom = some r ∧ htmlKidsOk (elemKidNames s.dom r) = true := by
  obtain ⟨r, hr, _, _⟩ := C06_html_children h
  refine ⟨r, hr, (C06_htmlKidsOk_iff h hr).mpr (fun n hn => ?_)⟩
  cases hq : isOneOf n fmtNames with
  | false => rfl
  | true =>
    obtain ⟨y, t, hy, _⟩ := C06_html_children_fmt_in_af h hr n hn hq
    exact absurd hy (haf y t)

/-! ## non-vacuity -/

/-- the hypothesis is satisfiable (the runs return normally), for table, template, foreign-content,
frameset input -/
example : okRun (parseTokens {} ([sTag "table", sTag "tr", sTag "td", txt "x", eTag "table", sTag "template", sTag "td",
    eTag "template", sTag "svg", sTag "p"] ++ [(.eof, 1)])) = true := by decide +kernel
example : okRun (parseTokens { scriptingEnabled := true } ([sTag "head", sTag "noscript", eTag "head", sTag "frameset",
    sTag "noframes", txt "y", eTag "noframes", eTag "frameset", sTag "noframes"] ++ [(.eof, 1)])) = true := by
  decide +kernel

/-- the classification is not trivially true: other lists of names are rejected -/
example : ¬ HtmlKids ["head".toList, "div".toList] := by
  rintro (h | ⟨ex, h, _⟩)
  · revert h; decide
  · exact absurd (List.cons.inj (List.cons.inj h).2).1 (by decide)
example : ¬ HtmlKids ["head".toList, "frameset".toList, "div".toList] := by
  rintro (h | ⟨ex, h, hex⟩)
  · revert h; decide
  · have hex' := hex "div".toList (by
      have := (List.cons.inj (List.cons.inj h).2).2
      rw [← this]; simp)
    rcases hex' with h1 | h1 <;> (revert h1; decide)
example : ¬ HtmlKids ["body".toList] := by
  rintro (h | ⟨ex, h, _⟩)
  · revert h; decide
  · exact absurd (List.cons.inj h).1 (by decide)
example : HtmlKids ["head".toList, "frameset".toList, "noframes".toList, "b".toList] :=
  Or.inr ⟨_, rfl, by
    intro n hn
    simp only [List.mem_cons, List.not_mem_nil, or_false] at hn
    rcases hn with rfl | rfl
    · exact Or.inl rfl
    · exact Or.inr (by decide)⟩

/-- the theorem applied to the run of the known finding (`<b><frameset></frameset></html>␠`): the
children of `html` are classified (`head frameset b`, the `b` a reconstructed formatting element),
although the clause `htmlKidsOk` of `Skeleton` fails -/
example : ∃ r, htmlOf (domOf (parseTokens {} witnessTokens)) = some r ∧
    HtmlKids (elemKidNames (domOf (parseTokens {} witnessTokens)) r) := by
  cases h : parseTokens {} witnessTokens with
  | error e =>
    have : okRun (parseTokens {} witnessTokens) = true := C06_witness_frameset_reconstruct.1
    rw [h] at this; cases this
  | ok s =>
    have h' : parseTokens {} ([sTag "b", sTag "frameset", eTag "frameset", eTag "html", txt " "] ++ [(TokToken.eof, 1)])
        = .ok s := h
    obtain ⟨r, h1, h2, _⟩ := C06_html_children h'
    exact ⟨r, h1, h2⟩

/-- concrete instances checked by evaluation, agreeing with the theorems -/
example : (match parseTokens {} witnessTokens with
    | .ok s => (match htmlOf s.dom with
      | some r => elemKidNames s.dom r == ["head".toList, "frameset".toList, "b".toList]
      | none => false)
    | .error _ => false) = true := by decide +kernel
example : (match parseTokens {} [sTag "table", sTag "tr", sTag "td", txt "x", eTag "table", txt " ", (.eof, 1)] with
    | .ok s => (match htmlOf s.dom with
      | some r => elemKidNames s.dom r == ["head".toList, "body".toList]
      | none => false)
    | .error _ => false) = true := by decide +kernel
example : (match parseTokens {} [sTag "frameset", eTag "frameset", sTag "noframes", eTag "noframes", txt "\n", (.eof, 1)] with
    | .ok s => (match htmlOf s.dom with
      | some r => elemKidNames s.dom r == ["head".toList, "frameset".toList, "noframes".toList] &&
          htmlKidsOk (elemKidNames s.dom r)
      | none => false)
    | .error _ => false) = true := by decide +kernel


/-- the hypothesis of `C06_html_children_partial` is satisfiable (a frameset document without formatting
elements), and it fails for the run of the known finding, whose list still holds the `b` entry -/
example : (match parseTokens {} [sTag "frameset", eTag "frameset", sTag "noframes", eTag "noframes", txt "\n", (.eof, 1)] with
    | .ok s => s.activeFormatting.all (fun e => match e with | .marker => true | .element _ _ => false)
    | .error _ => false) = true := by decide +kernel
example : (match parseTokens {} witnessTokens with
    | .ok s => s.activeFormatting.any (fun e => match e with | .element _ t => t.name == "b".toList | .marker => false)
    | .error _ => false) = true := by decide +kernel

end H5V.Props.C06
