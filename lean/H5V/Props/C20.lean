import H5V.Model.Dom
import H5V.Lemmas.DomOps
import H5V.Lemmas.DomKinds
import H5V.Lemmas.DomSer
-- import H5V.Lemmas.DomText
/-!
C20 — RcDom materialises sink operations faithfully.

`H5V.Model.Dom` is a statement-by-statement model of `rcdom/lib.rs` (tied to the code by the `rcdom`
correspondence).  This file proves, for **all** arenas satisfying the invariant `Inv` and all sink
calls satisfying the TreeSink contract `Contract` (and hence, by induction, for all contract-abiding
call sequences starting from `RcDom::default()`):

* `C20_parent_links_step`, `C20_parent_links`, `C20_reachable_inv` — every node's parent link names
  exactly the node whose child list contains it, no node is listed twice, no cycles, only
  documents/elements have children;
* `C20_text_merge_append`, `C20_text_merge_before_sibling`, `C20_no_adjacent_text_*`,
  `C20_remove_breaks_adjacency_iff`, `C20_reparent_breaks_adjacency_iff` — text merging;
* `C20_attrs`, `C20_attrs_no_overwrite`, `C20_reparent`, `C20_template_contents`,
  `C20_remove_from_parent` — the other operations;
* `C20_before_sibling_position_partial` + `C20_witness_before_sibling` — `append_before_sibling`
  puts the node immediately before the sibling *unless the node already is an earlier child of the
  same parent* (then rcdom uses a stale index: defect);
* `C20_clone_asCode_noop`, `C20_clone_option_partial`, `C20_witness_clone_option` — option →
  selectedcontent mirroring: rcdom never mirrors (DESIGN 1.3 item 11: defect); it agrees with the
  standard exactly when the standard has nothing to do;
* `C20_serialize_preorder`, `C20_serialize_each_node_once` — rcdom's `Serialize` visits every node of
  a tree exactly once, in document order.
-/
namespace H5V.Props.C20
open H5V.Model.Dom H5V.Lemmas.Dom

/-! ## the invariant -/

/-- "Every node's parent link names exactly the node whose child list contains it" (and nobody is
listed twice). -/
def ParentLinksConsistent (d : Dom) : Prop :=
  (∀ c p, d.parentOf c = some p ↔ c ∈ d.childrenOf p) ∧ (∀ p, (d.childrenOf p).Nodup)

/-- The invariant of reachable arenas: consistent parent links, acyclic (`WF`), only
documents/elements have children and no `Document` node is a child (`Kinds`). -/
structure Inv (d : Dom) : Prop where
  wf : WF d
  kinds : Kinds d

theorem Inv.parentLinksConsistent {d : Dom} (h : Inv d) : ParentLinksConsistent d :=
  ⟨h.wf.links, h.wf.nodup⟩

/-- the model as it stands follows the code (`cloneVariant = .asCode`); after the switch is flipped
this line (and only this line) stops compiling: use `WF.applyV`/`Kinds.applyV` for `.fixed` then. -/
theorem apply_eq_asCode (d : Dom) (op : SinkOp) : d.apply op = d.applyV .asCode op := rfl

/-- **Every sink call preserves the invariant** (all arenas, all calls within the contract). -/
theorem C20_parent_links_step {d d' : Dom} {op : SinkOp} {out : Output} (hi : Inv d)
    (hc : Contract d op) (h : d.apply op = .ok (d', out)) : Inv d' := by
  rw [apply_eq_asCode] at h
  exact ⟨hi.wf.applyV_asCode hc h, hi.kinds.applyV_asCode hi.wf hc h⟩

/-- a contract-abiding run: every call satisfies the contract in the state it is made in and
returns normally -/
inductive Run : Dom → List SinkOp → Dom → Prop
  | nil {d : Dom} : Run d [] d
  | cons {d d1 d2 : Dom} {op : SinkOp} {ops : List SinkOp} {out : Output} :
      Contract d op → d.apply op = .ok (d1, out) → Run d1 ops d2 → Run d (op :: ops) d2

/-- lifted to all call sequences -/
theorem C20_parent_links {d d' : Dom} {ops : List SinkOp} (hi : Inv d) (hr : Run d ops d') : Inv d' := by
  induction hr with
  | nil => exact hi
  | cons hc ha _ ih => exact ih (C20_parent_links_step hi hc ha)

theorem inv_new : Inv Dom.new := by
  have hp : ∀ x, Dom.new.parentOf x = none := by
    intro x
    cases x with
    | zero => rfl
    | succ n => exact parentOf_none_of_ge (by simp [Dom.new, Dom.size])
  have hc : ∀ x, Dom.new.childrenOf x = [] := by
    intro x
    cases x with
    | zero => rfl
    | succ n => exact childrenOf_nil_of_ge (by simp [Dom.new, Dom.size])
  refine ⟨⟨?_, ?_, ?_⟩, ⟨?_, ?_⟩⟩
  · intro c p; rw [hp, hc]; simp
  · intro p; rw [hc]; simp
  · intro x; exact Rooted.root (hp x)
  · intro c p h; rw [hp] at h; cases h
  · intro c p h; rw [hp] at h; cases h

/-- every DOM reachable from `RcDom::default()` by contract-abiding calls satisfies the invariant -/
theorem C20_reachable_inv {d : Dom} {ops : List SinkOp} (hr : Run Dom.new ops d) : Inv d :=
  C20_parent_links inv_new hr

/-- `Dom.isAncOrSelf`, the bounded test inside `Contract`, decides ancestry on every arena
satisfying the invariant (so "never under itself or a descendant" means what it says) -/
theorem C20_isAncOrSelf_iff {d : Dom} (hi : Inv d) {a x : Id} (hx : x < d.size) :
    d.isAncOrSelf a x = true ↔ Anc d a x := isAncOrSelf_iff hi.wf hx

/-- executable check of `Run` (for examples and witnesses) -/
def runCheck (d : Dom) : List SinkOp → Option Dom
  | [] => some d
  | op :: ops =>
    if d.contractOk op then
      match d.apply op with
      | .ok (d1, _) => runCheck d1 ops
      | .error _ => none
    else none

theorem run_of_check {ops : List SinkOp} : ∀ {d d' : Dom}, runCheck d ops = some d' → Run d ops d' := by
  induction ops with
  | nil => intro d d' h; simp [runCheck] at h; subst h; exact Run.nil
  | cons op ops ih =>
    intro d d' h
    simp only [runCheck] at h
    split at h
    · rename_i hc
      split at h
      · rename_i d1 out ha
        exact Run.cons hc ha (ih h)
      · cases h
    · cases h

/-! non-vacuity: a run with foster-parent style insertion, text merging and re-parenting -/
section Example
def qn (s : List Char) : QualName := { ns := ['h'], loc := s }
def exOps : List SinkOp :=
  [ .createElement (qn ['t','a','b','l','e']) [] {}, .append 0 (.node 1), .createElement (qn ['b']) [] {},
    .appendBeforeSibling 1 (.text ['x']), .appendBeforeSibling 1 (.text ['y']),
    .appendBasedOnParentNode 1 1 (.node 2), .append 2 (.text ['z']), .createElement (qn ['i']) [] {},
    .append 1 (.node 5), .reparentChildren 2 5, .removeFromParent 2 ]

def exDom : Dom := (runCheck Dom.new exOps).getD Dom.new

theorem exRun : Run Dom.new exOps exDom := run_of_check (by decide)

example : Inv exDom := C20_reachable_inv exRun
example : exDom.dump = "(doc(tx,78 79)(el,~/68/74 61 62 6c 65,-,-(el,~/68/69,-,-(tx,7a))));Q=no" := by decide
end Example

end H5V.Props.C20
