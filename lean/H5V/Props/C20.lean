import H5V.Model.Dom
import H5V.Lemmas.DomOps
import H5V.Lemmas.DomKinds
import H5V.Lemmas.DomSer
import H5V.Lemmas.DomText2
import H5V.Lemmas.DomText3
import H5V.Lemmas.DomStep
import H5V.Lemmas.DomAttrs
/-!
C20 — RcDom materialises sink operations faithfully.

`H5V.Model.Dom` is a statement-by-statement model of `rcdom/lib.rs` (tied to the code by the `rcdom`
correspondence).  This file proves, for **all** arenas satisfying the invariant `Inv` and all sink
calls satisfying the TreeSink contract `Contract` (and hence, by induction, for all contract-abiding
call sequences starting from `RcDom::default()`):

* `C20_parent_links_step`, `C20_parent_links`, `C20_reachable_inv`, `C20_isAncOrSelf_iff` — every
  node's parent link names exactly the node whose child list contains it, no node is listed twice,
  no cycles, only documents/elements have children, no `Document` node is a child;
* `C20_text_merge_append`, `C20_text_merge_before_sibling`, `C20_no_adjacent_text_append`,
  `C20_no_adjacent_text_before_sibling`, `C20_no_adjacent_text_step`,
  `C20_remove_breaks_adjacency_iff`, `C20_reparent_breaks_adjacency_iff` — text merging: what is
  concatenated where, "no two adjacent text siblings" is kept by every call that cannot detach a
  node, and exactly when detaching / re-parenting breaks it;
* `C20_attrs`, `C20_attrs_no_overwrite`, `C20_reparent`, `C20_template_contents`,
  `C20_remove_from_parent` — the other operations;
* `C20_before_sibling_position` — the repaired `append_before_sibling` (/repo 394a5e0) puts the node
  immediately before the sibling, whatever old parent it had; `C20_before_sibling_position_partial`
  + `C20_witness_before_sibling` record the pinned tree's behaviour (stale index when the node was
  an earlier child of the same parent: defect found by this property, now repaired);
* `C20_clone_option_partial`, `C20_clone_option_nothing`, `C20_clone_option_fixed_example` — the
  repaired option → selectedcontent mirroring (/repo ebdbd68) preserves the invariant and replaces the
  selectedcontent's children by fresh copies of the option's children (top level proved; deep
  structure below the first level carried by the correspondence); `C20_clone_asCode_noop`,
  `C20_clone_option_pinned_partial`, `C20_witness_clone_option` record the pinned tree's behaviour
  (never mirrored, DESIGN 1.3 item 11);
* `C20_serialize_preorder`, `C20_serialize_each_node_once` — rcdom's `Serialize` visits every node of
  a tree exactly once, in document order, and never panics / runs out of the stated fuel.

Modelled but not proved here: that no call within the contract panics (see `H5V.Props.C05`; the
correspondence's valid families never panic); that the copies made by `Dom.cloneOptionInto .fixed`
are deep copies below the first level, and "no adjacent text siblings" across that call (validated
against RcDom and the independent Python reference on every `mc` case, and on
`C20_clone_option_fixed_example`); `Rc`/`Weak` lifetimes / `Drop`.
-/
namespace H5V.Props.C20
open H5V.Model.Dom H5V.Lemmas.Dom

deriving instance DecidableEq for Except

/-! ## the invariant -/

/-- "Every node's parent link names exactly the node whose child list contains it" (and nobody is
listed twice). -/
def ParentLinksConsistent (d : Dom) : Prop :=
  (∀ c p, d.parentOf c = some p ↔ c ∈ d.childrenOf p) ∧ (∀ p, (d.childrenOf p).Nodup)

/-- The invariant of reachable arenas: consistent parent links, acyclic (`WF`), only
documents/elements have children and no `Document` node is a child (`Kinds`). -/
structure Inv (d : Dom) : Prop where
  wf : WF d
  kinds : Kinds d

theorem Inv.parentLinksConsistent {d : Dom} (h : Inv d) : ParentLinksConsistent d :=
  ⟨h.wf.links, h.wf.nodup⟩

/-- `Dom.apply` is `Dom.applyV` at the two switches of `H5V/Model/Dom.lean` (since /repo ebdbd68 and
394a5e0: `.fixed`, `.detachFirst`); the general theorems below hold for every value of both. -/
theorem apply_eq (d : Dom) (op : SinkOp) :
    d.apply op = d.applyV Dom.cloneVariant Dom.beforeSiblingVariant op := rfl

/-- **Every sink call preserves the invariant** (all arenas, all calls within the contract). -/
theorem C20_parent_links_step {d d' : Dom} {op : SinkOp} {out : Output} (hi : Inv d)
    (hc : Contract d op) (h : d.apply op = .ok (d', out)) : Inv d' := by
  rw [apply_eq] at h
  exact ⟨hi.wf.applyV hi.kinds hc h, hi.kinds.applyV hi.wf hc h⟩

/-- a contract-abiding run: every call satisfies the contract in the state it is made in and
returns normally -/
inductive Run : Dom → List SinkOp → Dom → Prop
  | nil {d : Dom} : Run d [] d
  | cons {d d1 d2 : Dom} {op : SinkOp} {ops : List SinkOp} {out : Output} :
      Contract d op → d.apply op = .ok (d1, out) → Run d1 ops d2 → Run d (op :: ops) d2

/-- lifted to all call sequences -/
theorem C20_parent_links {d d' : Dom} {ops : List SinkOp} (hi : Inv d) (hr : Run d ops d') : Inv d' := by
  induction hr with
  | nil => exact hi
  | cons hc ha _ ih => exact ih (C20_parent_links_step hi hc ha)

theorem inv_new : Inv Dom.new := by
  have hp : ∀ x, Dom.new.parentOf x = none := by
    intro x
    cases x with
    | zero => rfl
    | succ n => exact parentOf_none_of_ge (by simp [Dom.new, Dom.size])
  have hc : ∀ x, Dom.new.childrenOf x = [] := by
    intro x
    cases x with
    | zero => rfl
    | succ n => exact childrenOf_nil_of_ge (by simp [Dom.new, Dom.size])
  refine ⟨⟨?_, ?_, ?_⟩, ⟨?_, ?_⟩⟩
  · intro c p; rw [hp, hc]; simp
  · intro p; rw [hc]; simp
  · intro x; exact Rooted.root (hp x)
  · intro c p h; rw [hp] at h; cases h
  · intro c p h; rw [hp] at h; cases h

/-- every DOM reachable from `RcDom::default()` by contract-abiding calls satisfies the invariant -/
theorem C20_reachable_inv {d : Dom} {ops : List SinkOp} (hr : Run Dom.new ops d) : Inv d :=
  C20_parent_links inv_new hr

/-- `Dom.isAncOrSelf`, the bounded test inside `Contract`, decides ancestry on every arena
satisfying the invariant (so "never under itself or a descendant" means what it says) -/
theorem C20_isAncOrSelf_iff {d : Dom} (hi : Inv d) {a x : Id} (hx : x < d.size) :
    d.isAncOrSelf a x = true ↔ Anc d a x := isAncOrSelf_iff hi.wf hx

/-- executable check of `Run` (for examples and witnesses) -/
def runCheck (d : Dom) : List SinkOp → Option Dom
  | [] => some d
  | op :: ops =>
    if d.contractOk op then
      match d.apply op with
      | .ok (d1, _) => runCheck d1 ops
      | .error _ => none
    else none

theorem run_of_check {ops : List SinkOp} : ∀ {d d' : Dom}, runCheck d ops = some d' → Run d ops d' := by
  induction ops with
  | nil => intro d d' h; simp [runCheck] at h; subst h; exact Run.nil
  | cons op ops ih =>
    intro d d' h
    simp only [runCheck] at h
    split at h
    · rename_i hc
      split at h
      · rename_i d1 out ha
        exact Run.cons hc ha (ih h)
      · cases h
    · cases h

/-! non-vacuity: a run with foster-parent style insertion, text merging and re-parenting -/
section Example
def qn (s : List Char) : QualName := { ns := ['h'], loc := s }
def exOps : List SinkOp :=
  [ .createElement (qn ['t','a','b','l','e']) [] {}, .append 0 (.node 1), .createElement (qn ['b']) [] {},
    .appendBeforeSibling 1 (.text ['x']), .appendBeforeSibling 1 (.text ['y']),
    .appendBasedOnParentNode 1 1 (.node 2), .append 2 (.text ['z']), .createElement (qn ['i']) [] {},
    .append 1 (.node 5), .reparentChildren 2 5, .removeFromParent 2 ]

def exDom : Dom := (runCheck Dom.new exOps).getD Dom.new

theorem exRun : Run Dom.new exOps exDom := run_of_check (by decide)

example : Inv exDom := C20_reachable_inv exRun
example : exDom.dump = "(doc(tx,78 79)(el,~/68/74 61 62 6c 65,-,-(el,~/68/69,-,-(tx,7a))));Q=no" := by decide
end Example

/-! ## text merging -/

/-- `append(parent, text)`: either the last child is a text node — then `s` is concatenated onto it
and nothing else changes — or it is not, and one fresh text node `s` becomes the new last child.
In both cases the insertion point does not show two adjacent text nodes. -/
theorem C20_text_merge_append {d d' : Dom} {p : Id} {s : Str} (h : d.append p (.text s) = .ok d') :
    (∃ last old, (d.childrenOf p).getLast? = some last ∧ d.dataOf last = some (.text old) ∧
        d'.dataOf last = some (.text (old ++ s)) ∧ (∀ x, x ≠ last → d'.dataOf x = d.dataOf x) ∧
        (∀ x, d'.childrenOf x = d.childrenOf x) ∧ (∀ x, d'.parentOf x = d.parentOf x) ∧ d'.size = d.size) ∨
    ((∀ last, (d.childrenOf p).getLast? = some last → d.isText last = false) ∧
        d'.childrenOf p = d.childrenOf p ++ [d.size] ∧ d'.dataOf d.size = some (.text s) ∧
        d'.parentOf d.size = some p ∧ (∀ x, x ≠ d.size → d'.dataOf x = d.dataOf x) ∧
        (∀ x, x ≠ p → d'.childrenOf x = d.childrenOf x) ∧ d'.size = d.size + 1) := by
  obtain ⟨hp, h1 | h2⟩ := append_text_ok h
  · obtain ⟨last, old, hl, hdl, hs, hd, hsz⟩ := h1
    exact Or.inl ⟨last, old, hl, hdl, by rw [hd]; simp, fun x hx => by rw [hd]; simp [hx], hs.children,
      hs.parent, hsz⟩
  · obtain ⟨hpar, hch, hd, hsz, _⟩ := allocAppend_ok hp h2.2
    exact Or.inr ⟨h2.1, by rw [hch]; simp, by rw [hd]; simp, by rw [hpar]; simp,
      fun x hx => by rw [hd]; simp [hx], fun x hx => by rw [hch]; simp [hx], hsz⟩

/-- `append_before_sibling(sibling, text)`: with `P` the sibling's parent and `i` its index, either
the node at `i-1` is a text node — then `s` is concatenated onto it and nothing else changes — or
there is none / it is not text, and one fresh text node is inserted at index `i` (immediately before
the sibling). -/
theorem C20_text_merge_before_sibling {d d' : Dom} {sib : Id} {s : Str}
    (h : d.appendBeforeSibling sib (.text s) = .ok d') :
    ∃ P i, d.parentOf sib = some P ∧ indexOf? sib (d.childrenOf P) = some i ∧
    ((∃ prev old, 0 < i ∧ (d.childrenOf P)[i - 1]? = some prev ∧ d.dataOf prev = some (.text old) ∧
        d'.dataOf prev = some (.text (old ++ s)) ∧ (∀ x, x ≠ prev → d'.dataOf x = d.dataOf x) ∧
        (∀ x, d'.childrenOf x = d.childrenOf x) ∧ (∀ x, d'.parentOf x = d.parentOf x) ∧ d'.size = d.size) ∨
     ((i = 0 ∨ ∃ prev, (d.childrenOf P)[i - 1]? = some prev ∧ d.isText prev = false) ∧
        d'.childrenOf P = (d.childrenOf P).take i ++ d.size :: (d.childrenOf P).drop i ∧
        d'.dataOf d.size = some (.text s) ∧ d'.parentOf d.size = some P ∧
        (∀ x, x ≠ d.size → d'.dataOf x = d.dataOf x) ∧ (∀ x, x ≠ P → d'.childrenOf x = d.childrenOf x) ∧
        d'.size = d.size + 1)) := by
  obtain ⟨P, i, hpar, hi, _, hm⟩ := appendBeforeSibling_ok h
  refine ⟨P, i, hpar, hi, ?_⟩
  rcases hm with ⟨prev, old, h0, hp, hdl, hs, hd, hsz⟩ | ⟨hprev, h2⟩
  · exact Or.inl ⟨prev, old, h0, hp, hdl, by rw [hd]; simp, fun x hx => by rw [hd]; simp [hx], hs.children,
      hs.parent, hsz⟩
  · obtain ⟨_, hpp, hch, hd, hsz, _⟩ := insertAtIndex_fresh_ok h2
    exact Or.inr ⟨hprev, by rw [hch]; simp [insertAt], by rw [hd]; simp, by rw [hpp]; simp,
      fun x hx => by rw [hd]; simp [hx], fun x hx => by rw [hch]; simp [hx], hsz⟩

/-- `append` (node or text) never produces adjacent text siblings -/
theorem C20_no_adjacent_text_append {d d' : Dom} (hi : Inv d) (hn : NoAdjacentText d) {p : Id} {ch : NodeOrText}
    (hc : Contract d (.append p ch)) (h : d.append p ch = .ok d') : NoAdjacentText d' :=
  hn.append hi.wf (by simpa [Contract, Dom.contractOk] using hc) h

/-- `append_before_sibling` with text never produces adjacent text siblings (the contract's
"sibling is not a text node" is what makes this true) -/
theorem C20_no_adjacent_text_before_sibling {d d' : Dom} (hi : Inv d) (hn : NoAdjacentText d) {s : Id} {t : Str}
    (hc : Contract d (.appendBeforeSibling s (.text t))) (h : d.appendBeforeSibling s (.text t) = .ok d') :
    NoAdjacentText d' :=
  hn.appendBeforeSibling_text hi.wf (by simpa [Contract, Dom.contractOk] using hc) h

/-- **Every sink call keeps "no adjacent text siblings"**, except `remove_from_parent`,
`reparent_children` and `append_before_sibling`/`append_based_on_parent_node` of a node that still has
a parent (`NeverDetaches`; those detach a node — see the two `…_breaks_adjacency_iff` theorems for
exactly when that breaks it). -/
theorem C20_no_adjacent_text_step {d d' : Dom} {op : SinkOp} {out : Output} (hi : Inv d)
    (hn : NoAdjacentText d) (hc : Contract d op) (h : d.apply op = .ok (d', out))
    (hop : NeverDetaches d op) : NoAdjacentText d' := by
  rw [apply_eq] at h
  exact hn.applyV hi.wf hc h hop

/-- `remove_from_parent` breaks "no adjacent text siblings" exactly when the previous and the next
sibling of the removed node are both text nodes (RcDom does not merge them) -/
theorem C20_remove_breaks_adjacency_iff {d d' : Dom} (hn : NoAdjacentText d) {t p : Id} {i : Nat}
    (hpar : d.parentOf t = some p) (hidx : indexOf? t (d.childrenOf p) = some i)
    (h : d.removeFromParent t = .ok d') :
    NoAdjacentText d' ↔ ¬ (lastT d.isText ((d.childrenOf p).take i) = true ∧
      headT d.isText ((d.childrenOf p).drop (i + 1)) = true) :=
  removeFromParent_noAdjacentText_iff hn hpar hidx h

/-- `reparent_children` breaks it exactly when the new parent's last child and the first moved child
are both text nodes -/
theorem C20_reparent_breaks_adjacency_iff {d d' : Dom} (hn : NoAdjacentText d) {n np : Id}
    (h : d.reparentChildren n np = .ok d') :
    NoAdjacentText d' ↔ ¬ (lastT d.isText (d.childrenOf np) = true ∧ headT d.isText (d.childrenOf n) = true) :=
  reparentChildren_noAdjacentText_iff hn h

-- non-vacuity: `a<b>x</b>c`, remove `b`: the two text nodes become adjacent
section
def exAdj : Dom := (runCheck Dom.new
  [ .createElement (qn ['p']) [] {}, .append 0 (.node 1), .append 1 (.text ['a']),
    .createElement (qn ['b']) [] {}, .append 1 (.node 3), .append 1 (.text ['c']) ]).getD Dom.new
example : exAdj.childrenOf 1 = [2, 3, 4] ∧ noAdj exAdj.isText (exAdj.childrenOf 1) = true := by decide
example : ∃ d', exAdj.removeFromParent 3 = .ok d' ∧ d'.childrenOf 1 = [2, 4] ∧
    noAdj d'.isText (d'.childrenOf 1) = false := ⟨_, rfl, by decide, by decide⟩
end

/-! ## attributes -/

/-- `add_attrs_if_missing`: the existing attributes stay where they are with their values (nothing is
overwritten); appended are exactly the given attributes whose name does not occur on the element,
in the given order; nothing else changes. -/
theorem C20_attrs {d d' : Dom} {t : Id} {attrs : List Attr} (h : d.addAttrsIfMissing t attrs = .ok d') :
    ∃ added, d'.attrsOf t = d.attrsOf t ++ added ∧
      (∀ a, a ∈ added ↔ a ∈ attrs ∧ ∀ e ∈ d.attrsOf t, e.name ≠ a.name) ∧ added.Sublist attrs ∧
      (∀ x, x ≠ t → d'.dataOf x = d.dataOf x) ∧ (∀ x, d'.parentOf x = d.parentOf x) ∧
      (∀ x, d'.childrenOf x = d.childrenOf x) ∧ d'.localNameOf t = d.localNameOf t ∧
      d'.templateContentsOf t = d.templateContentsOf t := by
  obtain ⟨name, existing, tc, ip, hdt, hs, hd, _⟩ := addAttrsIfMissing_ok h
  have hd' : d'.dataOf t = some (.element name (existing ++ Dom.missingAttrs existing attrs) tc ip) := by
    rw [hd]; simp
  refine ⟨Dom.missingAttrs existing attrs, ?_, ?_, missingAttrs_sublist _ _, fun x hx => by rw [hd]; simp [hx],
    hs.parent, hs.children, ?_, ?_⟩
  · simp [Dom.attrsOf, hd', hdt]
  · intro a; simp only [Dom.attrsOf, hdt]; exact mem_missingAttrs
  · simp [Dom.localNameOf, hd', hdt]
  · simp [Dom.templateContentsOf, hd', hdt]

/-- … and when neither list has a repeated name (the contract), every missing name is added exactly
once: the result has no repeated name. -/
theorem C20_attrs_no_overwrite {d d' : Dom} {t : Id} {attrs : List Attr}
    (h : d.addAttrsIfMissing t attrs = .ok d') (he : ((d.attrsOf t).map (·.name)).Nodup)
    (hc : Dom.attrNamesNodup attrs = true) :
    ((d'.attrsOf t).map (·.name)).Nodup ∧ ∀ e ∈ d.attrsOf t, e ∈ d'.attrsOf t := by
  obtain ⟨name, existing, tc, ip, hdt, _, hd, _⟩ := addAttrsIfMissing_ok h
  have hd' : d'.dataOf t = some (.element name (existing ++ Dom.missingAttrs existing attrs) tc ip) := by
    rw [hd]; simp
  simp only [Dom.attrsOf, hdt, hd'] at he ⊢
  exact ⟨nodup_names_merge he ((attrNamesNodup_iff attrs).mp hc), fun e he => List.mem_append_left _ he⟩

-- non-vacuity (and the snapshot behaviour when the contract is violated: a name repeated inside the
-- argument is added twice)
section
def at' (n v : List Char) : Attr := { name := { ns := [], loc := n }, value := v }
def exAt : Dom := (runCheck Dom.new [ .createElement (qn ['h']) [at' ['i'] ['1']] {} ]).getD Dom.new
example : ∃ d', exAt.addAttrsIfMissing 1 [at' ['x'] ['2'], at' ['i'] ['3']] = .ok d' ∧
    d'.attrsOf 1 = [at' ['i'] ['1'], at' ['x'] ['2']] := ⟨_, rfl, by decide⟩
example : ∃ d', exAt.addAttrsIfMissing 1 [at' ['x'] ['2'], at' ['x'] ['3']] = .ok d' ∧
    d'.attrsOf 1 = [at' ['i'] ['1'], at' ['x'] ['2'], at' ['x'] ['3']] := ⟨_, rfl, by decide⟩
end

/-! ## re-parenting, removal, template contents -/

/-- `reparent_children(node, new_parent)`: the children of `node` are appended, in order, after the
children of `new_parent`; their parent links name `new_parent`; `node` is left without children;
nothing else changes. -/
theorem C20_reparent {d d' : Dom} {n np : Id} (h : d.reparentChildren n np = .ok d') :
    d'.childrenOf np = d.childrenOf np ++ d.childrenOf n ∧ d'.childrenOf n = [] ∧
    (∀ c ∈ d.childrenOf n, d'.parentOf c = some np) ∧
    (∀ x, x ∉ d.childrenOf n → d'.parentOf x = d.parentOf x) ∧
    (∀ x, x ≠ n → x ≠ np → d'.childrenOf x = d.childrenOf x) ∧ (∀ x, d'.dataOf x = d.dataOf x) ∧
    d'.size = d.size := by
  obtain ⟨hne, _, _, hp, hch, hd, hsz, _⟩ := reparentChildren_ok h
  have hnp : np ≠ n := fun e => hne e.symm
  refine ⟨by rw [hch]; simp [hnp], by rw [hch]; simp, fun c hc => by rw [hp]; simp [hc],
    fun x hx => by rw [hp]; simp [hx], fun x h1 h2 => by rw [hch]; simp [h1, h2], hd, hsz⟩

/-- `remove_from_parent(target)`: nothing happens to a parentless node; otherwise the node is taken
out of its parent's child list (the order of the others is kept), its parent link is cleared, and
nothing else changes. -/
theorem C20_remove_from_parent {d d' : Dom} (hi : Inv d) {t : Id} (h : d.removeFromParent t = .ok d') :
    (d.parentOf t = none ∧ d' = d) ∨
    (∃ p l1 l2, d.parentOf t = some p ∧ d.childrenOf p = l1 ++ t :: l2 ∧ d'.childrenOf p = l1 ++ l2 ∧
      t ∉ l1 ++ l2 ∧ d'.parentOf t = none ∧ (∀ x, x ≠ t → d'.parentOf x = d.parentOf x) ∧
      (∀ x, x ≠ p → d'.childrenOf x = d.childrenOf x) ∧ (∀ x, d'.dataOf x = d.dataOf x)) := by
  rcases removeFromParent_ok h with h0 | ⟨p, i, hpar, hidx, hp, hch, hd, _, _⟩
  · exact Or.inl h0
  · obtain ⟨hsplit, _, _⟩ := indexOf?_some hidx
    refine Or.inr ⟨p, (d.childrenOf p).take i, (d.childrenOf p).drop (i + 1), hpar, hsplit, ?_, ?_, ?_, ?_, ?_, hd⟩
    · rw [hch]; simp [removeAt]
    · exact not_mem_removeAt (hi.wf.nodup p) hsplit
    · rw [hp]; simp
    · intro x hx; rw [hp]; simp [hx]
    · intro x hx; rw [hch]; simp [hx]

/-- `create_element` with the `template` flag makes a fresh, empty, parentless `Document` node the
element's template contents, and `get_template_contents` returns it; without the flag
`get_template_contents` panics. -/
theorem C20_template_contents (d : Dom) (name : QualName) (attrs : List Attr) (ip dup : Bool) :
    (let r := d.createElement name attrs { template := true, mathmlIP := ip, hadDuplicateAttributes := dup }
     r.2 = d.size + 1 ∧ r.1.getTemplateContents r.2 = .ok d.size ∧ r.1.dataOf d.size = some .document ∧
     r.1.parentOf d.size = none ∧ r.1.childrenOf d.size = [] ∧
     r.1.dataOf r.2 = some (.element name attrs (some d.size) ip)) ∧
    (let r := d.createElement name attrs { template := false, mathmlIP := ip, hadDuplicateAttributes := dup }
     r.2 = d.size ∧ (∃ e, r.1.getTemplateContents r.2 = .error e) ∧
     r.1.dataOf r.2 = some (.element name attrs none ip)) := by
  constructor
  · simp only [Dom.createElement, if_true]
    have hsz : (d.alloc NodeData.document).1.size = d.size + 1 := size_alloc d _
    have hn : ((d.alloc NodeData.document).1.alloc (.element name attrs (some d.size) ip)).1.node? (d.size + 1)
        = some { data := .element name attrs (some d.size) ip } := by
      rw [node?_alloc]; simp [hsz]
    have hid : ((d.alloc NodeData.document).1.alloc (.element name attrs (some (d.alloc NodeData.document).2) ip)).2
        = d.size + 1 := by rw [alloc_id]; exact hsz
    have htc : (d.alloc NodeData.document).2 = d.size := alloc_id d _
    rw [htc] at hid
    refine ⟨hid, ?_, ?_, ?_, ?_, ?_⟩
    · rw [htc, hid]; simp [Dom.getTemplateContents, bind, Except.bind, get_ok_of hn]
    · rw [htc, dataOf_alloc, dataOf_alloc]; simp [hsz]
    · rw [htc, parentOf_alloc, parentOf_alloc]; exact parentOf_none_of_ge (Nat.le_refl _)
    · rw [htc, childrenOf_alloc, childrenOf_alloc]; exact childrenOf_nil_of_ge (Nat.le_refl _)
    · rw [htc, hid, dataOf_alloc]; simp [hsz]
  · have hn : (d.alloc (.element name attrs none ip)).1.node? d.size
        = some { data := .element name attrs none ip } := by
      rw [node?_alloc]; simp
    simp only [Dom.createElement, Bool.false_eq_true, if_false]
    refine ⟨alloc_id d _, ?_, ?_⟩
    · rw [alloc_id]; simp only [Dom.getTemplateContents, bind, Except.bind, get_ok_of hn]
      exact ⟨_, rfl⟩
    · rw [alloc_id, dataOf_alloc]; simp

/-! ## `append_before_sibling` with a node -/

/-- The pinned tree's `append_before_sibling` (`Dom.appendBeforeSibling` = `appendBeforeSiblingV .asCode`)
puts the node immediately before the sibling — **proved for a node that is not already a child of the
sibling's parent** (what html5ever does: it detaches first).  `_partial`: for that code the full
statement is false when the node is an *earlier* child of the same parent
(`C20_witness_before_sibling`).  The repaired code satisfies the full statement:
`C20_before_sibling_position`. -/
theorem C20_before_sibling_position_partial {d d' : Dom} {s c : Id}
    (h : d.appendBeforeSibling s (.node c) = .ok d') (hnot : d.parentOf c ≠ d.parentOf s) :
    ∃ P l1 l2, d.parentOf s = some P ∧ d.childrenOf P = l1 ++ s :: l2 ∧
      d'.childrenOf P = l1 ++ c :: s :: l2 ∧ d'.parentOf c = some P := by
  obtain ⟨P, i, hpar, hidx, _, hm⟩ := appendBeforeSibling_ok h
  simp only at hm
  obtain ⟨d1, hr, _, _, _, hp, hch, _, _, _⟩ := insertAtIndex_ok hm
  obtain ⟨hsplit, _, hlt⟩ := indexOf?_some hidx
  have hsame : d1.childrenOf P = d.childrenOf P := by
    rcases removeFromParent_ok hr with ⟨_, he⟩ | ⟨p', _, hpar', _, _, hch', _⟩
    · rw [he]
    · rw [hch']
      have : P ≠ p' := by
        intro e; subst e; exact hnot (hpar'.trans hpar.symm)
      simp [this]
  have hdrop : (d.childrenOf P).drop i = s :: (d.childrenOf P).drop (i + 1) := by
    have hget := indexOf?_getElem hidx
    rw [List.drop_eq_getElem_cons hlt]
    congr 1
    rw [List.getElem?_eq_getElem hlt] at hget
    exact Option.some.inj hget
  refine ⟨P, (d.childrenOf P).take i, (d.childrenOf P).drop (i + 1), hpar, hsplit, ?_, by rw [hp]; simp⟩
  rw [hch, hsame]; simp [insertAt, hdrop]

/-- **The repaired `append_before_sibling`** (/repo 394a5e0, `appendBeforeSiblingV .detachFirst`):
for every node the contract allows (it "may have an old parent", any parent), the node is first
taken out of its old parent's child list (`d1`), and ends up immediately before the sibling. -/
theorem C20_before_sibling_position {d d' : Dom} {s c : Id} (hi : Inv d)
    (hc : Contract d (.appendBeforeSibling s (.node c)))
    (h : d.appendBeforeSiblingV .detachFirst s (.node c) = .ok d') :
    ∃ d1 P l1 l2, d.removeFromParent c = .ok d1 ∧ d.parentOf s = some P ∧
      d1.childrenOf P = l1 ++ s :: l2 ∧ c ∉ l1 ++ s :: l2 ∧
      d'.childrenOf P = l1 ++ c :: s :: l2 ∧ d'.parentOf c = some P := by
  simp only [Dom.appendBeforeSiblingV, Dom.preDetach, bind, Except.bind] at h
  cases hr : d.removeFromParent c with
  | error e => simp [hr] at h
  | ok d1 =>
    simp only [hr] at h
    have hc' : d.contractAppendBeforeSibling s (.node c) = true := by simpa [Contract, Dom.contractOk] using hc
    have hsc : s ≠ c := by
      intro e; subst e
      unfold Dom.contractAppendBeforeSibling at hc'
      cases hps : d.parentOf s with
      | none => simp [hps] at hc'
      | some P => simp [hps] at hc'
    have hw1 := hi.wf.removeFromParent hr
    have hc0 : d1.parentOf c = none := removeFromParent_parent_none hr
    have hps1 : d1.parentOf s = d.parentOf s := by
      rcases removeFromParent_ok hr with ⟨_, he⟩ | ⟨_, _, _, _, hp, _⟩
      · rw [he]
      · rw [hp]; simp [hsc]
    obtain ⟨P, l1, l2, hP, hl, hl', hpc⟩ := C20_before_sibling_position_partial h (by
      rw [hc0]; intro e
      obtain ⟨P, _, hP, _⟩ := appendBeforeSibling_ok h
      rw [hP] at e; cases e)
    refine ⟨d1, P, l1, l2, rfl, by rw [← hps1]; exact hP, hl, ?_, hl', hpc⟩
    intro hm
    rw [← hl] at hm
    have := (hw1.links c P).mpr hm
    rw [hc0] at this; cases this

/-- the gap of the pinned tree (before /repo 394a5e0): children `[b, c]`, `append_before_sibling(c, b)`
left `b` *after* `c` (`get_parent_and_index` was evaluated before `remove_from_parent(&child)`);
the repaired order gives `[b, c]` -/
def exReinsert : Dom := (runCheck Dom.new
  [ .createElement (qn ['a']) [] {}, .createElement (qn ['b']) [] {}, .createElement (qn ['c']) [] {},
    .append 0 (.node 1), .append 1 (.node 2), .append 1 (.node 3) ]).getD Dom.new

theorem C20_witness_before_sibling :
    exReinsert.childrenOf 1 = [2, 3] ∧ Contract exReinsert (.appendBeforeSibling 3 (.node 2)) ∧
    (∃ d', exReinsert.appendBeforeSiblingV .asCode 3 (.node 2) = .ok d' ∧ d'.childrenOf 1 = [3, 2] ∧
      ¬ ∃ l1 l2, d'.childrenOf 1 = l1 ++ 2 :: 3 :: l2) ∧
    (∃ d', exReinsert.appendBeforeSiblingV .detachFirst 3 (.node 2) = .ok d' ∧ d'.childrenOf 1 = [2, 3]) := by
  refine ⟨by decide, by decide, ⟨_, rfl, by decide, ?_⟩, ⟨_, rfl, by decide⟩⟩
  rintro ⟨l1, l2, h⟩
  have h' : ([3, 2] : List Id) = l1 ++ 2 :: 3 :: l2 := by
    rw [← h]; decide
  match l1, h' with
  | [], h' => simp at h'
  | [_], h' => simp at h'
  | _ :: _ :: _, h' => simp at h'

/-! ## option → selectedcontent -/

/-- **What the standard demands** of `maybe_clone_an_option_into_selectedcontent` is
`Dom.maybeCloneOption .fixed` (what rcdom does since /repo ebdbd68): with `select` = the option's
nearest ancestor select (`Dom.nearestAncestorSelect`), when `select` exists and is not `multiple`, the
option has a `selected` attribute and `select` has a `selectedcontent` descendant, the children of the
*first such descendant in tree order* are replaced by deep copies of the option's children
(`Dom.cloneOptionInto .fixed`).

**What the pinned tree did** (`.asCode`, kept as a record): nothing, ever — the search loop tested
the `select` itself. -/
theorem C20_clone_asCode_noop {d d' : Dom} {o : Id} (h : d.maybeCloneOption .asCode o = .ok d') : d' = d :=
  maybeCloneOption_asCode_eq h

/-- `_partial` (pinned tree): the old code agreed with the standard on exactly those calls where the
standard has nothing to mirror (`cloneTarget .fixed = none`); what was missing is every call where it
has (`C20_witness_clone_option`). -/
theorem C20_clone_option_pinned_partial {d : Dom} {o : Id} (hspec : d.cloneTarget .fixed o = .ok none) :
    d.maybeCloneOption .fixed o = .ok d ∧ ∀ d', d.maybeCloneOption .asCode o = .ok d' → d' = d := by
  refine ⟨?_, fun d' h => maybeCloneOption_asCode_eq h⟩
  simp [Dom.maybeCloneOption, bind, Except.bind, hspec]

/-- `<select><button><selectedcontent>old</selectedcontent></button><option selected>A<b>B</b>` -/
def exSelect : Dom := (runCheck Dom.new
  [ .createElement (qn sSelect) [] {}, .append 0 (.node 1), .createElement (qn ['b','u','t','t','o','n']) [] {},
    .append 1 (.node 2), .createElement (qn sSelectedcontent) [] {}, .append 2 (.node 3),
    .append 3 (.text ['o','l','d']), .createElement (qn sOption) [at' sSelected []] {}, .append 1 (.node 5),
    .append 5 (.text ['A']), .createElement (qn ['b']) [] {}, .append 5 (.node 7), .append 7 (.text ['B'])
  ]).getD Dom.new

/-- **The repaired mirroring** (`.fixed`): whenever the call returns, the invariant holds again, and
at the top level the standard's "replace all with the copies" happened: the selectedcontent's
children are fresh nodes, one per child of the option, in order, with the same data (template
link aside); they point to the selectedcontent; its old children are detached; every other node
that existed keeps data, children and parent.
`_partial`: *not proved* is that the copies are deep copies below the first level (each copy's
children are again copies of the original's children, template contents included) — carried by the
correspondence (model = RcDom on every `mc` case), the independent Python reference, and
`C20_clone_option_fixed_example`. -/
theorem C20_clone_option_partial {d d' : Dom} {o sc : Id} (hi : Inv d)
    (ht : d.cloneTarget .fixed o = .ok (some sc)) (h : d.maybeCloneOption .fixed o = .ok d') :
    Inv d' ∧
    Pairs (fun c k => (d'.dataOf k).map eraseTc = (d.dataOf c).map eraseTc) (d.childrenOf o) (d'.childrenOf sc) ∧
    (∀ k ∈ d'.childrenOf sc, d.size ≤ k ∧ d'.parentOf k = some sc) ∧
    (∀ c ∈ d.childrenOf sc, d'.parentOf c = none) ∧
    (∀ y, y < d.size → d'.dataOf y = d.dataOf y) ∧
    (∀ y, y < d.size → y ≠ sc → d'.childrenOf y = d.childrenOf y) ∧
    (∀ y, y < d.size → y ∉ d.childrenOf sc → d'.parentOf y = d.parentOf y) := by
  simp only [Dom.maybeCloneOption, bind, Except.bind, ht] at h
  obtain ⟨a, b, r⟩ := cloneOptionInto_fixed_spec hi.wf hi.kinds (cloneTarget_fixed_element ht) h
  exact ⟨⟨a, b⟩, r⟩

/-- … and when the standard has nothing to mirror, nothing happens -/
theorem C20_clone_option_nothing {d : Dom} {o : Id} (ht : d.cloneTarget .fixed o = .ok none) :
    d.maybeCloneOption .fixed o = .ok d := by
  simp [Dom.maybeCloneOption, bind, Except.bind, ht]

/-- the gap of the pinned tree (DESIGN 1.3 item 11, before /repo ebdbd68): the standard mirrors the
option into the selectedcontent (node 3), the old code left the tree as it was -/
theorem C20_witness_clone_option :
    Contract exSelect (.maybeCloneAnOptionIntoSelectedcontent 5) ∧
    exSelect.cloneTarget .fixed 5 = .ok (some 3) ∧ exSelect.cloneTarget .asCode 5 = .ok none ∧
    exSelect.maybeCloneOption .asCode 5 = .ok exSelect ∧
    ¬ (exSelect.maybeCloneOption .asCode 5 = exSelect.maybeCloneOption .fixed 5) := by
  refine ⟨by decide, by decide, by decide, by decide, by decide⟩

set_option maxRecDepth 8192 in
/-- what the `.fixed` variant computes on the witness: `A<b>B</b>` copied under the selectedcontent,
with consistent parent links (no `^` marks in the dump), the old text detached -/
theorem C20_clone_option_fixed_example :
    (exSelect.maybeCloneOption .fixed 5).toOption.map Dom.dump = some
      ("(doc(el,~/68/73 65 6c 65 63 74,-,-(el,~/68/62 75 74 74 6f 6e,-,-(el,~/68/73 65 6c 65 63 74 65 64 63 6f 6e 74 65 6e 74,-,-"
        ++ "(tx,41)(el,~/68/62,-,-(tx,42))))(el,~/68/6f 70 74 69 6f 6e,~/-/73 65 6c 65 63 74 65 64=-,-(tx,41)(el,~/68/62,-,-(tx,42)))));Q=no") ∧
    ((exSelect.maybeCloneOption .fixed 5).toOption.map (·.parentOf 4)) = some none := by
  constructor <;> decide

/-! ## serialization -/

/-- rcdom's `Serialize` impl, run on the children of the document (what `html5ever::serialize` does),
calls the serializer for exactly the descendants of the document in document order (pre-order); the
pre-order list of the whole document is the document followed by them. -/
theorem C20_serialize_preorder {d : Dom} (hi : Inv d) (hdoc : Dom.document < d.size) :
    d.serializeVisit .childrenOnly Dom.document = .ok (d.descendants Dom.document) ∧
    d.preorder = Dom.document :: d.descendants Dom.document ∧
    (∀ x, x < d.size → d.dataOf x ≠ some .document → d.serializeVisit .includeNode x = .ok (d.subtree x)) ∧
    (∀ x, x < d.size → d.serializeVisit .childrenOnly x = .ok (d.descendants x)) :=
  ⟨serializeVisit_childrenOnly hi.wf hi.kinds hdoc, subtree_unfold hi.wf hdoc,
   fun _ hx hnd => serializeVisit_includeNode hi.wf hi.kinds hx hnd,
   fun _ hx => serializeVisit_childrenOnly hi.wf hi.kinds hx⟩

/-- each node is visited exactly once: the pre-order list of any node has no repetition and
consists of exactly the node and its descendants (`Anc d x y`: `x` is `y` or an ancestor of `y`);
the complete sequence of serializer calls is `eventsOf` (start tag, children, end tag). -/
theorem C20_serialize_each_node_once {d : Dom} (hi : Inv d) {x : Id} (hx : x < d.size) :
    (d.subtree x).Nodup ∧ (∀ y, y ∈ d.subtree x ↔ Anc d x y) ∧
    d.serialize .childrenOnly x = .ok ((d.childrenOf x).flatMap (eventsOf d)) :=
  ⟨nodup_subtree hi.wf x hx, fun _ => mem_subtree_iff hi.wf hx, serialize_childrenOnly hi.wf hi.kinds hx⟩

example : exDom.serializeVisit .childrenOnly 0 = .ok [3, 1, 5, 4] ∧ exDom.preorder = [0, 3, 1, 5, 4] := by decide
example : exSelect.serializeVisit .childrenOnly 0 = .ok [1, 2, 3, 4, 5, 6, 7, 8] := by decide

end H5V.Props.C20
