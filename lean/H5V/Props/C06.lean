import H5V.Model.HtmlTB
import H5V.Props.C20
/-!
C06 — a parsed document always has the canonical html/head/body skeleton.

`Skeleton` (decidable, `skeletonOk`) is the property text as a predicate on the abstract DOM: document
children `comment* doctype? comment* html comment*`; the element children of `html` are `head` then
`body` | `frameset noframes*`; no empty text; no text under the document; only whitespace text under
`html`; only elements and template-content fragments have children; no two adjacent text siblings
(over the document tree including template contents).  The same predicate, in Python, is evaluated
by `tools/props/C06.py` on the real RcDom tree of every document case (all chunkings, both scripting
settings); model and code are tied by the `tb` correspondence.

Proved here (for all inputs unless marked):
* `C06_split_run_nonempty`, `C06_split_run_concat` — the whitespace splitter of
  `process_to_completion` never yields an empty piece and loses nothing;
* `C06_chars_token_nonempty`, `C06_empty_chars_dropped` — an empty character token (also one that
  becomes empty through `ignore_lf`) never reaches the rules: no text-inserting sink call is made;
* `C06_text_ops_never_detach`, `C06_no_adjacent_text_run_partial` — on top of C20: a contract-abiding
  sequence of sink calls none of which detaches a node keeps "no adjacent text siblings"; every
  text insertion the builder can make is of that kind.  _partial: the calls that can break the
  clause are exactly `remove_from_parent` / `reparent_children` (adoption agency, frameset replacing
  body), re-insertion of an attached node and the selectedcontent mirror; that the builder's uses
  of them are harmless is *not* proved (DESIGN 1.3 item 17) — it is searched by the oracle;
* `C06_eof_closure_initial_partial` — for every option set, EOF in the initial mode builds
  html/head/body and the result satisfies `Skeleton`.  _partial: the EOF closure from the other
  insertion modes / arbitrary reachable states, i.e. the full statement
  `∀ cfg chunks r, parseDocument cfg chunks = .ok r → Skeleton r.dom`
  (DOM-shape invariant indexed by insertion mode) is not proved; it is carried by the oracle on the
  real code and by the model/code correspondence;
* `C06_frameset_skeleton_example`, and the `example`s — non-vacuity;
* `C06_witness_frameset_reconstruct` — **the property as stated does not hold**: for
  `<b><frameset></frameset></html>␠` the model (and the real code, and the standard's algorithm)
  put a reconstructed `b` under `html` next to `head` and `frameset`.  `framesetGapState` is the
  decidable trigger a full proof has to exclude.
-/
namespace H5V.Props.C06
open H5V.Model.Dom hiding Str
open H5V.Model.HtmlTB hiding Str
open H5V.Lemmas.Dom
open H5V.Props.C20 (Inv Run)

abbrev Str := List Char

/-! ## the predicate -/

def isWsChar (c : Char) : Bool := c = ' ' || c = '\t' || c = '\n' || c = '\x0c' || c = '\r'

inductive DocKid | comment | doctype | html | other
deriving DecidableEq, Repr

def docKid (d : Dom) (x : Id) : DocKid :=
  match d.dataOf x with
  | some (.comment _) => .comment
  | some (.doctype ..) => .doctype
  | some (.element n _ _ _) => if n.ns == nsHtml && n.loc == "html".toList then .html else .other
  | _ => .other

/-- `comment* doctype? comment* html comment*`; `stage` 0 = before the doctype, 1 = after it,
2 = after `html` -/
def docPattern : Nat → List DocKid → Bool
  | stage, [] => stage == 2
  | stage, .comment :: rest => docPattern stage rest
  | 0, .doctype :: rest => docPattern 1 rest
  | 0, .html :: rest => docPattern 2 rest
  | 1, .html :: rest => docPattern 2 rest
  | _, _ => false

def htmlElemName (d : Dom) (x : Id) : Option Str :=
  match d.dataOf x with
  | some (.element n _ _ _) => if n.ns == nsHtml then some n.loc else some []
  | _ => none

/-- element children of `html`: `head` then `body` | `frameset noframes*` -/
def htmlKidsOk (names : List Str) : Bool :=
  match names with
  | h :: b :: rest =>
    h == "head".toList &&
      ((b == "body".toList && rest.isEmpty) || (b == "frameset".toList && rest.all (· == "noframes".toList)))
  | _ => false

/-- the document's `html` child -/
def htmlOf (d : Dom) : Option Id := (d.childrenOf Dom.document).find? (fun x => docKid d x == .html)

def docClauses (d : Dom) : Bool :=
  docPattern 0 ((d.childrenOf Dom.document).map (docKid d)) &&
  match htmlOf d with
  | none => false
  | some h =>
    htmlKidsOk ((d.childrenOf h).filterMap (htmlElemName d)) &&
    (d.childrenOf h).all (fun k => match d.dataOf k with
      | some (.text s) => s.all isWsChar
      | some (.element ..) => true
      | some (.comment _) => true
      | _ => false)

/-- the nodes of the document tree: children and template contents, depth-bounded by the fuel;
`tc` = the node is the contents of a template -/
def treeNodes (d : Dom) : Nat → Bool → Id → List (Id × Bool)
  | 0, _, _ => []
  | fuel + 1, tc, x =>
    (x, tc) :: ((match d.templateContentsOf x with | some c => treeNodes d fuel true c | none => [])
      ++ (d.childrenOf x).flatMap (treeNodes d fuel false))

def nodeClauses (d : Dom) (x : Id) (tc : Bool) : Bool :=
  -- no empty text
  (match d.dataOf x with | some (.text s) => !s.isEmpty | _ => true) &&
  -- only elements, the document and template contents have children
  ((d.childrenOf x).isEmpty || (match d.dataOf x with
      | some (.element ..) => true
      | some .document => x == Dom.document || tc
      | _ => false)) &&
  -- no two adjacent text siblings
  noAdj d.isText (d.childrenOf x)

def skeletonOk (d : Dom) : Bool :=
  docClauses d && (treeNodes d (d.size + 1) false Dom.document).all (fun (x, tc) => nodeClauses d x tc)

/-- **the property** -/
def Skeleton (d : Dom) : Prop := skeletonOk d = true

instance (d : Dom) : Decidable (Skeleton d) := by unfold Skeleton; infer_instance

theorem C06_skeleton_iff (d : Dom) :
    Skeleton d ↔ docClauses d = true ∧
      ∀ p ∈ treeNodes d (d.size + 1) false Dom.document, nodeClauses d p.1 p.2 = true := by
  simp [Skeleton, skeletonOk, List.all_eq_true]

/-! ## no empty text reaches the rules -/

theorem mem_takeWhile_sat {α : Type} (p : α → Bool) : ∀ (l : List α) (x : α), x ∈ l.takeWhile p → p x = true
  | [], _, h => by simp at h
  | a :: l, x, h => by
    by_cases ha : p a = true
    · simp [List.takeWhile, ha] at h
      rcases h with rfl | h
      · exact ha
      · exact mem_takeWhile_sat p l x h
    · simp [List.takeWhile, ha] at h

theorem C06_split_run_nonempty {s first rest : Str} {ws : Bool}
    (h : popFrontCharRun s = some (first, ws, rest)) : first ≠ [] := by
  cases s with
  | nil => simp [popFrontCharRun] at h
  | cons c t =>
    simp only [popFrontCharRun, Option.some.injEq, Prod.mk.injEq] at h
    obtain ⟨h1, _, _⟩ := h
    rw [← h1]
    simp [List.takeWhile]

theorem C06_split_run_concat {s first rest : Str} {ws : Bool}
    (h : popFrontCharRun s = some (first, ws, rest)) :
    first ++ rest = s ∧ ∀ c ∈ first, isAsciiWhitespace c = ws := by
  cases s with
  | nil => simp [popFrontCharRun] at h
  | cons c t =>
    simp only [popFrontCharRun, Option.some.injEq, Prod.mk.injEq] at h
    obtain ⟨h1, h2, h3⟩ := h
    subst h1 h2 h3
    refine ⟨List.takeWhile_append_dropWhile, ?_⟩
    intro x hx
    simpa using mem_takeWhile_sat _ _ _ hx

/-- what `process_token` hands to the rules for a character token is never empty -/
theorem C06_chars_token_nonempty {b : Bool} {x : Str} {t : Token} (h : charsToken b x = some t) :
    ∃ y, t = .chars .notSplit y ∧ y ≠ [] := by
  unfold charsToken at h
  generalize dropIgnoredLf b x = y at h
  by_cases hy : y.isEmpty = true
  · simp [hy] at h
  · simp [hy] at h
    exact ⟨y, h.symm, by simpa using hy⟩

/-- an empty character token changes nothing in the tree: the only sink call possible is
`set_current_line`, the answer is `Continue` -/
theorem C06_empty_chars_dropped (s : State) (line : Nat) :
    ∃ s', (processToken (.chars []) line).run s = .ok (.continue_, s') ∧ s'.dom = s.dom ∧
      s'.openElems = s.openElems ∧ s'.mode = s.mode ∧
      ∀ op ∈ s'.traceRev.map (·.1), op ∈ s.traceRev.map (·.1) ∨ op = .setCurrentLine line := by
  have hd : dropIgnoredLf s.ignoreLf [] = [] := by cases s.ignoreLf <;> rfl
  by_cases hl : line = s.currentLine
  · refine ⟨{ s with ignoreLf := false }, ?_, rfl, rfl, rfl, ?_⟩
    · simp [processToken, hl, hd, getS, modS, charsToken, StateT.run, bind, StateT.bind, get, getThe,
        MonadStateOf.get, StateT.get, pure, StateT.pure, Except.pure, Except.bind, modify, modifyGet,
        MonadStateOf.modifyGet, StateT.modifyGet]
    · intro op h; exact Or.inl h
  · refine ⟨{ s with ignoreLf := false, traceRev := (.setCurrentLine line, .unit) :: s.traceRev }, ?_, rfl, rfl, rfl, ?_⟩
    · simp [processToken, hl, hd, getS, modS, charsToken, sinkUnit, sink, Dom.apply, Dom.applyV, StateT.run, bind,
        StateT.bind, get, getThe, MonadStateOf.get, StateT.get, pure, StateT.pure, Except.pure, Except.bind,
        modify, modifyGet, MonadStateOf.modifyGet, StateT.modifyGet]
    · intro op h
      simp at h
      rcases h with h | h
      · exact Or.inr h
      · exact Or.inl (by simpa using h)

/-! ## adjacent text siblings: what the sink guarantees (C20) lifted to call sequences -/

/-- a contract-abiding run none of whose calls detaches a node -/
inductive SafeRun : Dom → List SinkOp → Dom → Prop
  | nil {d : Dom} : SafeRun d [] d
  | cons {d d1 d2 : Dom} {op : SinkOp} {ops : List SinkOp} {out : Output} :
      Contract d op → NeverDetaches d op → d.apply op = .ok (d1, out) → SafeRun d1 ops d2 →
      SafeRun d (op :: ops) d2

/-- every text insertion the tree builder can make (`append`, `append_before_sibling`,
`append_based_on_parent_node` with `AppendText`) is a call that never detaches a node -/
theorem C06_text_ops_never_detach (d : Dom) (p e : Id) (s : Str) :
    NeverDetaches d (.append p (.text s)) ∧ NeverDetaches d (.appendBeforeSibling p (.text s)) ∧
    NeverDetaches d (.appendBasedOnParentNode e p (.text s)) :=
  ⟨trivial, trivial, trivial⟩

/-- "no two adjacent text siblings" survives every contract-abiding call sequence that does not
detach nodes (element creation, appends of fresh nodes, all text insertions, attribute merges, …).
_partial: `remove_from_parent`, `reparent_children`, re-insertion of attached nodes and the
selectedcontent mirror are excluded — `C20_remove_breaks_adjacency_iff` /
`C20_reparent_breaks_adjacency_iff` say exactly when those break the clause. -/
theorem C06_no_adjacent_text_run_partial {d d' : Dom} {ops : List SinkOp} (hi : Inv d)
    (hn : NoAdjacentText d) (hr : SafeRun d ops d') : Inv d' ∧ NoAdjacentText d' := by
  induction hr with
  | nil => exact ⟨hi, hn⟩
  | cons hc hnd ha _ ih =>
    exact ih (H5V.Props.C20.C20_parent_links_step hi hc ha)
      (H5V.Props.C20.C20_no_adjacent_text_step hi hn hc ha hnd)

/-! ## EOF closure from the initial mode -/

/-- the model of `parse_document` at token level: `TreeBuilder::new`, the tokens, `end()` -/
def parseTokens (opts : Opts) (toks : List (TokToken × Nat)) : Except String State :=
  (do newTB; let _ ← processTokens toks []; finishTB : M Unit).run (State.init opts) |>.map (·.2)

def domOf (r : Except String State) : Dom := match r with | .ok s => s.dom | .error _ => Dom.new

def okRun (r : Except String State) : Bool := match r with | .ok _ => true | .error _ => false



def eofOnly : List (TokToken × Nat) := [(.eof, 1)]

/-- one evaluation of the model, then all the facts about its result -/
def closureCheck (opts : Opts) (toks : List (TokToken × Nat)) (extra : Dom → Bool) : Bool :=
  match parseTokens opts toks with
  | .ok s => skeletonOk s.dom && extra s.dom
  | .error _ => false

theorem closureCheck_sound {opts : Opts} {toks : List (TokToken × Nat)} {extra : Dom → Bool}
    (h : closureCheck opts toks extra = true) :
    okRun (parseTokens opts toks) = true ∧ Skeleton (domOf (parseTokens opts toks)) ∧
      extra (domOf (parseTokens opts toks)) = true := by
  unfold closureCheck at h
  cases hp : parseTokens opts toks with
  | error e => simp [hp] at h
  | ok s => simpa [hp, okRun, domOf, Skeleton] using h


theorem closureCheck_initial (opts : Opts) :
    closureCheck opts eofOnly (fun d => htmlOf d == some 1 && d.childrenOf 1 == [2, 3] &&
      d.quirks == (if opts.iframeSrcdoc then .noQuirks else .quirks)) = true := by
  obtain ⟨e, sc, sd, dd, q⟩ := opts
  cases e <;> cases sc <;> cases sd <;> cases dd <;> cases q <;> decide +kernel

/-- For every option set, a document that consists of EOF alone gets `html`, `head` and `body`
synthesised (Initial → BeforeHtml → BeforeHead → InHead → AfterHead → InBody "anything else"
chain): the builder does not panic, the result satisfies `Skeleton`, `html` (node 1) has exactly
the children `head`, `body` (nodes 2, 3), and the sink is told "quirks" unless the document is an
iframe srcdoc document (then it is told nothing: the sink keeps its default).
_partial: the same closure from every other insertion mode / every reachable state is not proved
(finite instances below, the general case by the oracle on the real code). -/
theorem C06_eof_closure_initial_partial (opts : Opts) :
    okRun (parseTokens opts eofOnly) = true ∧ Skeleton (domOf (parseTokens opts eofOnly)) ∧
    htmlOf (domOf (parseTokens opts eofOnly)) = some 1 ∧
    (domOf (parseTokens opts eofOnly)).childrenOf 1 = [2, 3] ∧
    (domOf (parseTokens opts eofOnly)).quirks = (if opts.iframeSrcdoc then .noQuirks else .quirks) := by
  obtain ⟨h1, h2, h3⟩ := closureCheck_sound (closureCheck_initial opts)
  simp only [Bool.and_eq_true, beq_iff_eq] at h3
  exact ⟨h1, h2, h3.1.1, h3.1.2, h3.2⟩

/-! ### finite instances (kernel-evaluated): EOF closure from a canonical state of every insertion mode -/

def sTag (n : String) : TokToken × Nat := (.tag { kind := .startTag, name := n.toList }, 1)
def eTag (n : String) : TokToken × Nat := (.tag { kind := .endTag, name := n.toList }, 1)
def txt (s : String) : TokToken × Nat := (.chars s.toList, 1)

/-- token prefixes reaching each of the 21 insertion modes (Text / InTableText with pending text,
formatting elements around a block, an SVG HTML integration point) -/
def modePrefixes : List (List (TokToken × Nat)) := [
  [], [(.doctype { name := some "html".toList }, 1)], [sTag "html"], [sTag "head"],
  [sTag "head", sTag "noscript"], [sTag "head", eTag "head"], [sTag "body"], [sTag "title", txt "t"],
  [sTag "table"], [sTag "table", txt " "], [sTag "table", txt "x"], [sTag "table", sTag "caption"],
  [sTag "table", sTag "colgroup"], [sTag "table", sTag "tbody"], [sTag "table", sTag "tr"],
  [sTag "table", sTag "td", txt "y"], [sTag "template"], [sTag "template", sTag "td"],
  [sTag "body", eTag "body"], [sTag "frameset"], [sTag "frameset", eTag "frameset"],
  [sTag "body", eTag "body", eTag "html"], [sTag "frameset", eTag "frameset", eTag "html"],
  [sTag "b", txt "a", sTag "p", txt "b", eTag "b", txt "c"], [sTag "svg", sTag "desc", txt "d"]]

theorem closureCheck_modes :
    (modePrefixes.all fun p => [true, false].all fun sc =>
      closureCheck { scriptingEnabled := sc } (p ++ eofOnly) (fun _ => true)) = true := by
  decide +kernel

/-- EOF after each of the canonical prefixes, scripting on and off: no panic, `Skeleton` holds
(finite instances; not a theorem about all states of these modes) -/
theorem C06_eof_closure_modes_example :
    ∀ p ∈ modePrefixes, ∀ scripting ∈ [true, false],
      okRun (parseTokens { scriptingEnabled := scripting } (p ++ eofOnly)) = true ∧
      Skeleton (domOf (parseTokens { scriptingEnabled := scripting } (p ++ eofOnly))) := by
  intro p hp sc hsc
  have h := closureCheck_modes
  rw [List.all_eq_true] at h
  have h2 := h p hp
  rw [List.all_eq_true] at h2
  obtain ⟨h3, h4, _⟩ := closureCheck_sound (h2 sc hsc)
  exact ⟨h3, h4⟩

/-- a frameset document: `head`, `frameset`, several `noframes`, a comment after `</html>` -/
theorem C06_frameset_skeleton_example :
    Skeleton (domOf (parseTokens {} [sTag "frameset", eTag "frameset", sTag "noframes", eTag "noframes",
      sTag "noframes", txt "n", eTag "noframes", eTag "html", (.comment "c".toList, 1), (.eof, 1)])) :=
  (closureCheck_sound (extra := fun _ => true) (by decide +kernel)).2.1

/-! ### the gap: a formatting element open when `<frameset>` replaces the body

**Finding (confirmed on the real code through the harness; the standard's algorithm behaves the same).**
`<b><frameset></frameset></html>␠`: the "in body" `<frameset>` rule (rules.rs:463) removes `body`
and truncates the stack but leaves `b` in the list of active formatting elements; the whitespace
after `</html>` is handled by "after after frameset" *using the in-body rules* (rules.rs:1595),
which reconstruct the active formatting elements at the current node — `html`.  The result has
`head`, `frameset` **and `b`** as element children of `html`. -/

def witnessTokens : List (TokToken × Nat) :=
  [sTag "b", sTag "frameset", eTag "frameset", eTag "html", txt " ", (.eof, 1)]

theorem C06_witness_frameset_reconstruct :
    okRun (parseTokens {} witnessTokens) = true ∧ ¬ Skeleton (domOf (parseTokens {} witnessTokens)) := by
  have h : (okRun (parseTokens {} witnessTokens) && !skeletonOk (domOf (parseTokens {} witnessTokens))) = true := by
    decide +kernel
  simp only [Bool.and_eq_true, Bool.not_eq_true'] at h
  exact ⟨h.1, by simp [Skeleton, h.2]⟩

/-- without the trailing whitespace (nothing is reconstructed) the same document is fine -/
example : skeletonOk (domOf (parseTokens {} [sTag "b", sTag "frameset", eTag "frameset", eTag "html", (.eof, 1)])) = true := by
  decide +kernel

/-- the state-level trigger of the gap: `<frameset>` accepted in "in body" (frameset-ok, a `body`
second on the stack) while the list of active formatting elements is not empty.  A proof of
`Skeleton` for all documents has to exclude runs that pass through such a state (or the source has
to clear the list there, deviating from the standard). -/
def framesetGapState (s : State) : Bool :=
  s.framesetOk && !s.activeFormatting.isEmpty && s.openElems.length > 1

-- non-vacuity of the predicate: it rejects trees that break a clause
section
def qn (s : String) : QualName := { ns := nsHtml, loc := s.toList }
def build (ops : List SinkOp) : Dom := match Dom.new.applyAll ops with | .ok (d, _) => d | .error _ => Dom.new
/-- html without body -/
example : skeletonOk (build [.createElement (qn "html") [] {}, .append 0 (.node 1),
    .createElement (qn "head") [] {}, .append 1 (.node 2)]) = false := by decide +kernel
/-- text under the document -/
example : skeletonOk (build [.append 0 (.text ['x']), .createElement (qn "html") [] {}, .append 0 (.node 2),
    .createElement (qn "head") [] {}, .append 1 (.node 3), .createElement (qn "body") [] {}, .append 1 (.node 4)]) = false := by
  decide +kernel
/-- two adjacent text siblings (exposed by `remove_from_parent`) -/
example : skeletonOk (build [.createElement (qn "html") [] {}, .append 0 (.node 1),
    .createElement (qn "head") [] {}, .append 1 (.node 2), .createElement (qn "body") [] {}, .append 1 (.node 3),
    .append 3 (.text ['a']), .createElement (qn "b") [] {}, .append 3 (.node 5), .append 3 (.text ['c']),
    .removeFromParent 5]) = false := by decide +kernel
/-- the same tree before the removal is fine -/
example : skeletonOk (build [.createElement (qn "html") [] {}, .append 0 (.node 1),
    .createElement (qn "head") [] {}, .append 1 (.node 2), .createElement (qn "body") [] {}, .append 1 (.node 3),
    .append 3 (.text ['a']), .createElement (qn "b") [] {}, .append 3 (.node 5), .append 3 (.text ['c'])]) = true := by
  decide +kernel
/-- non-vacuity of `C06_no_adjacent_text_run_partial`: create `p`, append it, append text twice
(the second text is merged into the first) -/
example : ∃ d', SafeRun Dom.new [.createElement (qn "p") [] {}, .append 0 (.node 1), .append 1 (.text ['a']),
    .append 1 (.text ['b'])] d' :=
  ⟨_, .cons (out := .node 1) (by decide +kernel) trivial rfl
    (.cons (out := .unit) (by decide +kernel) trivial rfl
      (.cons (out := .unit) (by decide +kernel) trivial rfl
        (.cons (out := .unit) (by decide +kernel) trivial rfl .nil)))⟩
end

end H5V.Props.C06
