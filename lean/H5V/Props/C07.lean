import H5V.Model.HtmlSer
import H5V.Spec.HtmlEscape
import H5V.Lemmas.HtmlSerEscape
import H5V.Lemmas.HtmlSerUnescape
import H5V.Lemmas.HtmlSerRender
/-!
C07 — HTML serializer output re-parses to the same tree; inner equals outer.

What is proved here, about the model `H5V.Model.HtmlSer` of `html5ever/src/serialize/mod.rs`
(+ rcdom's `SerializableHandle`), for **all** byte strings / strings / trees / options:

1. `write_escaped`'s loop (index arithmetic, memchr search) never panics and equals a structural
   byte function; on UTF-8 text that function is UTF-8 of the standard's character-level escape —
   `_partial`: on the tree as it is a byte 0xC2 not followed by 0xA0 is dropped (defect 1).
2. The reader `unescape` (tokenizer data state / double-quoted attribute value state restricted
   to the five references the serializer emits) inverts `escape` on every string free of CR and
   U+0000 and stops exactly at the delimiter following the escaped text; escaped text contains no
   `<`, `>` and (attribute mode) no `"` — nothing can leave its context.
3. The serializer with its `ElemInfo` stack equals a pure renderer; rcdom's op-deque loop equals
   the recursive traversal; trees without Document nodes never reach a panic site.
4. inner = outer for every element — `_partial`: `ChildrenOnly(Some(name))` ignores `name.ns`
   (defect 2) and never sets `ignore_children` (finding 3).
5. Text is written unescaped iff the parent is an HTML-namespace element of the raw-text list
   (`noscript`: and scripting is on).

Not proved here (outside this work package): the round trip through the real tokenizer and
tree-builder models (`C07_roundtrip` of DESIGN 6.7); it is checked on the real code by the `rt=`
oracle of the `ser` engine.

The switches `Cfg.fixC2 / fixNs / fixVoid` select the pinned snapshot (`Cfg.pinned`, all false) or
the repaired code (`Cfg.current`, all true since the `fix:` commits); every theorem is stated for an
arbitrary `cfg`, the last section instantiates `Cfg.current` at full strength (FLIP HERE).
-/
namespace H5V.Props.C07
deriving instance DecidableEq for Except
open H5V.Model.HtmlSer H5V.Spec.HtmlEscape
open H5V.Lemmas.HtmlSerEscape H5V.Lemmas.HtmlSerUnescape H5V.Lemmas.HtmlSerRender

/-! ## 1. write_escaped -/

/-- The loop of `write_escaped` — `search_start`, `next_special`, `memchr3` then `memchr2` on the
prefix, the slice and index operations — reaches no panic branch and appends exactly `escBytes`,
for every byte string (valid UTF-8 or not), both modes. -/
theorem C07_write_escaped_eq (cfg : Cfg) (attr : Bool) (bytes out : Bytes) :
    writeEscaped cfg attr bytes out = .ok (out ++ escBytes cfg attr bytes) :=
  writeEscaped_eq cfg attr bytes out

example : writeEscaped Cfg.current true (utf8 ['a', '"', '&']) [0x3D]
    = .ok ([0x3D, 0x61] ++ bQuot ++ bAmp) := by decide

/-- Bytes written for a string = UTF-8 of its character-level escape.
Full statement (fails on the tree as it is, see `C07_witness_c2_dropped`):
`∀ s, writeEscaped cfg attr (utf8 s) out = .ok (out ++ utf8 (escape attr s))`.
Proved here for strings without the characters U+0080–U+00BF other than U+00A0 (`c2Victim`), whose
UTF-8 lead byte 0xC2 the `_ => continue` arm loses. -/
theorem C07_escape_bytes_partial (cfg : Cfg) (attr : Bool) (s : List Char) (out : Bytes)
    (h : ∀ c ∈ s, c2Victim c = false) :
    writeEscaped cfg attr (utf8 s) out = .ok (out ++ utf8 (escape attr s)) := by
  rw [writeEscaped_eq, escBytes_utf8 cfg attr s (Or.inr h)]

example : writeEscaped Cfg.current false (utf8 ['<', 'é', ' ', '€']) []
    = .ok (utf8 (escape false ['<', 'é', ' ', '€'])) :=
  C07_escape_bytes_partial _ _ _ _ (by decide)

/-- With the 0xC2 arm repaired the statement holds for every string. -/
theorem C07_escape_bytes_fixed (cfg : Cfg) (hfix : cfg.fixC2 = true) (attr : Bool)
    (s : List Char) (out : Bytes) :
    writeEscaped cfg attr (utf8 s) out = .ok (out ++ utf8 (escape attr s)) := by
  rw [writeEscaped_eq, escBytes_utf8 cfg attr s (Or.inl hfix)]

example : writeEscaped Cfg.allFixed false (utf8 ['¢']) [] = .ok [0xC2, 0xA2] := by decide

/-- Defect 1: `¢` (C2 A2) is written as the lone byte A2 — not UTF-8 of anything. -/
theorem C07_witness_c2_dropped (cfg : Cfg) (h : cfg.fixC2 = false) (attr : Bool) :
    writeEscaped cfg attr (utf8 ['¢']) [] = .ok [0xA2] ∧
    utf8 (escape attr ['¢']) = [0xC2, 0xA2] := by
  obtain ⟨a, b, c⟩ := cfg
  simp only at h; subst h
  cases attr <;> cases b <;> cases c <;> exact ⟨by decide, by decide⟩

/-! ## 2. reading back -/

/-- Text: the reader returns the original string from its escape, also when the escaped text is
followed by a tag (`<` and anything).  CR and U+0000 are excluded because input-stream
preprocessing rewrites CR / CR LF to LF and the parser replaces or drops U+0000: no literal
spelling of them survives re-parsing (`C07_witness_cr`, `C07_witness_nul`). -/
theorem C07_unescape_text (s : List Char) (h : noCRNUL s) :
    unescape false (escapeText s) = s ∧
    ∀ tail, unescape false (escapeText s ++ '<' :: tail) = s := by
  constructor
  · have := unescape_escape_aux false [] (Or.inl rfl) s h
    simpa [unescape] using this
  · intro tail
    exact unescape_escape_aux false ('<' :: tail) (Or.inr ⟨tail, rfl⟩) s h

example : unescape false (escapeText ['a', '<', '&', 'l', 't', ';'] ++ ['<', '/', 'p', '>'])
    = ['a', '<', '&', 'l', 't', ';'] := by decide

/-- Attribute value (double-quoted): same, the delimiter being `"`. -/
theorem C07_unescape_attr (s : List Char) (h : noCRNUL s) :
    unescape true (escapeAttr s) = s ∧
    ∀ tail, unescape true (escapeAttr s ++ '"' :: tail) = s := by
  constructor
  · have := unescape_escape_aux true [] (Or.inl rfl) s h
    simpa [unescape] using this
  · intro tail
    exact unescape_escape_aux true ('"' :: tail) (Or.inr ⟨tail, rfl⟩) s h

example : unescape true (escapeAttr ['"', '>', '&'] ++ ['"', ' ', 'o', 'n', 'x', '=', '"'])
    = ['"', '>', '&'] := by decide

/-- Escaped text contains no `<` and no `>`: it cannot open or close a tag. -/
theorem C07_escape_text_no_lt (s : List Char) : ∀ x ∈ escapeText s, x ≠ '<' ∧ x ≠ '>' :=
  fun x hx => ⟨(escape_chars false s x hx).1, (escape_chars false s x hx).2.1⟩

example : '<' ∉ escapeText ['<', 's', 'c', 'r', 'i', 'p', 't', '>'] := by decide

/-- An escaped attribute value contains no `"` (nor `<`, `>`): it cannot close the value. -/
theorem C07_escape_attr_no_quote (s : List Char) :
    ∀ x ∈ escapeAttr s, x ≠ '"' ∧ x ≠ '<' ∧ x ≠ '>' :=
  fun x hx => ⟨(escape_chars true s x hx).2.2 rfl, (escape_chars true s x hx).1,
    (escape_chars true s x hx).2.1⟩

example : '"' ∉ escapeAttr ['"', ' ', 'o', 'n', 'x', '=', '"'] := by decide

/-- why CR is excluded -/
theorem C07_witness_cr : unescape false (escapeText ['a', '\r', 'b']) ≠ ['a', '\r', 'b'] := by
  decide

/-- why U+0000 is excluded -/
theorem C07_witness_nul :
    unescape true (escapeAttr ['\u0000']) ≠ ['\u0000'] ∧
    unescape false (escapeText ['\u0000']) ≠ ['\u0000'] := by
  decide

/-! ## 3. the serializer as a pure function of the tree -/

/-- `serialize` = the pure renderer started with the `ElemInfo` that `HtmlSerializer::new` builds;
the only failure is rcdom's panic on a Document node. -/
theorem C07_serialize_eq_render (cfg : Cfg) (scope : Scope) (o : Opts) (root : Node) :
    match renderRoot cfg scope o root with
    | some w => serialize cfg scope o root = .ok w
    | none => ∃ out', serialize cfg scope o root = .error ⟨docSite, out'⟩ :=
  serialize_eq cfg scope o root

/-- No panic site (`no parent ElemInfo`, `no ElemInfo`, the slice operations of `write_escaped`,
rcdom's Document panic) is reachable when serialising a tree without Document nodes below the
root, whatever the options — `create_missing_parent` is never needed for a real tree. -/
theorem C07_no_panic (cfg : Cfg) (o : Opts) (root : Node) :
    (docFree root = true → ∃ w, serialize cfg .includeNode o root = .ok w) ∧
    (∀ x, forestDocFree root.children = true →
      ∃ w, serialize cfg (.childrenOnly x) o root = .ok w) := by
  constructor
  · intro h
    have h1 := renderNode_some cfg o root (scopeInfo cfg .includeNode) h
    have h2 := serialize_eq cfg .includeNode o root
    simp only [renderRoot] at h2
    cases hr : renderNode cfg o (scopeInfo cfg .includeNode) root with
    | none => simp [hr] at h1
    | some w => rw [hr] at h2; exact ⟨w, h2⟩
  · intro x h
    have h1 := renderForest_some cfg o root.children (scopeInfo cfg (.childrenOnly x)) h
    have h2 := serialize_eq cfg (.childrenOnly x) o root
    simp only [renderRoot] at h2
    cases hr : renderForest cfg o (scopeInfo cfg (.childrenOnly x)) root.children with
    | none => simp [hr] at h1
    | some w => rw [hr] at h2; exact ⟨w, h2⟩

example : ∃ w, serialize Cfg.current (.childrenOnly none) ⟨true, false⟩
    (.document [.doctype ['h'], .element ⟨.html, ['p']⟩ [] [.text ['x']]]) = .ok w :=
  (C07_no_panic _ _ _).2 _ (by decide)

/-- rcdom's `while let Some(op) = ops.pop_front()` loop equals the recursive reading of the op
list, given fuel for one iteration per node and per close op. -/
theorem C07_runOps_eq (cfg : Cfg) (o : Opts) (fuel : Nat) (ops : List SerOp) (s : Ser)
    (h : opsSize ops ≤ fuel) : runOps cfg o fuel ops s = serOps cfg o ops s :=
  runOps_eq_serOps cfg o fuel ops s h

/-- `SerializableHandle::serialize` as written (op deque) = the recursive traversal, including
the result on panics. -/
theorem C07_serializeOps_eq (cfg : Cfg) (scope : Scope) (o : Opts) (root : Node) :
    serializeOps cfg scope o root = serialize cfg scope o root := by
  cases scope with
  | includeNode =>
    simp only [serializeOps, serialize]
    rw [runOps_eq_serOps cfg o _ _ _ (Nat.le_refl _)]
    simp only [serOps, bind, Except.bind]
    cases serNode cfg o root (new cfg .includeNode) <;> rfl
  | childrenOnly x =>
    simp only [serializeOps, serialize]
    rw [runOps_eq_serOps cfg o _ _ _ (Nat.le_refl _)]
    have := serOps_open_append cfg o root.children [] (new cfg (.childrenOnly x))
    rw [List.append_nil] at this
    rw [this]
    simp only [bind, Except.bind]
    cases serForest cfg o root.children (new cfg (.childrenOnly x)) <;> rfl

/-! ## 4. inner = outer -/

/-- start tag and end tag of an element = what `start_elem` / `end_elem` write on a fresh
serializer -/
theorem C07_tags (cfg : Cfg) (o : Opts) (name : QualName) (attrs : List Attr) :
    startElem cfg o name attrs (new cfg .includeNode)
      = .ok ⟨startTagBytes cfg name attrs, [infoOf name, ⟨none, false⟩]⟩ ∧
    endElem o name ⟨startTagBytes cfg name attrs, [infoOf name, ⟨none, false⟩]⟩
      = .ok ⟨startTagBytes cfg name attrs ++ endTagOf name, [⟨none, false⟩]⟩ := by
  constructor
  · rw [new_eq, startElem_eq]; simp [scopeInfo]
  · rw [endElem_eq]; simp only [infoOf, endTagOf]
    by_cases h : isVoid name = true <;> simp [h]

/-- the two conditions under which the code as it is gets inner = outer right -/
def nsOk (cfg : Cfg) (o : Opts) (name : QualName) : Prop :=
  cfg.fixNs = true ∨ name.ns = .html ∨ escapeDecision o (some name.loc) = true
def voidOk (cfg : Cfg) (name : QualName) (ch : List Node) : Prop :=
  cfg.fixVoid = true ∨ isVoid name = false ∨ ch = []

theorem inner_outer_render (cfg : Cfg) (o : Opts) (name : QualName) (attrs : List Attr)
    (ch : List Node) (hns : nsOk cfg o name) (hvoid : voidOk cfg name ch) :
    renderRoot cfg .includeNode o (.element name attrs ch) =
      (renderRoot cfg (.childrenOnly (some name)) o (.element name attrs ch)).map
        (fun inner => startTagBytes cfg name attrs ++ inner ++ endTagOf name) := by
  simp only [renderRoot, scopeInfo, Node.children]
  unfold renderNode
  simp only [Bool.false_eq_true, if_false]
  congr 1
  by_cases hch : ch = []
  · subst hch; simp [renderForest]
  apply renderForest_congr
  · rcases hvoid with h | h | h
    · simp [infoOf, h]
    · simp [infoOf, h]
    · exact absurd h hch
  · simp only [infoOf, htmlNameOf]
    rcases hns with h | h | h
    · simp only [h, Bool.true_and]
      cases hh : name.ns == Ns.html <;> simp_all
    · simp [h]
    · by_cases hh : name.ns = Ns.html
      · simp [hh]
      · have : (name.ns == Ns.html) = false := by simpa using hh
        have hn : escapeDecision o none = true := rfl
        cases cfg.fixNs <;> simp [this, h, hn, hh]

/-- **inner = outer.**  For every element (of any tree, taken as the node being serialised):
serialising its children with the element named as parent gives exactly the bytes between the
start tag and the end tag of the element's own serialisation; one succeeds iff the other does.
Full statement: no side conditions.  On the tree as it is it needs
* `nsOk`: the element is in the HTML namespace, or its local name is not one under which
  `write_text` writes raw text (defect 2 — `ChildrenOnly(Some(name))` forgets `name.ns`), and
* `voidOk`: the element is not void or has no children (finding 3 — `HtmlSerializer::new`
  never sets `ignore_children`). -/
theorem C07_inner_outer_partial (cfg : Cfg) (o : Opts) (name : QualName) (attrs : List Attr)
    (ch : List Node) (hns : nsOk cfg o name) (hvoid : voidOk cfg name ch) :
    (∀ outer, serialize cfg .includeNode o (.element name attrs ch) = .ok outer →
      ∃ inner, serialize cfg (.childrenOnly (some name)) o (.element name attrs ch) = .ok inner ∧
        outer = startTagBytes cfg name attrs ++ inner ++ endTagOf name) ∧
    (∀ inner, serialize cfg (.childrenOnly (some name)) o (.element name attrs ch) = .ok inner →
      serialize cfg .includeNode o (.element name attrs ch)
        = .ok (startTagBytes cfg name attrs ++ inner ++ endTagOf name)) := by
  have hr := inner_outer_render cfg o name attrs ch hns hvoid
  have h1 := serialize_eq cfg .includeNode o (.element name attrs ch)
  have h2 := serialize_eq cfg (.childrenOnly (some name)) o (.element name attrs ch)
  rw [hr] at h1
  cases hin : renderRoot cfg (.childrenOnly (some name)) o (.element name attrs ch) with
  | none =>
    rw [hin] at h1 h2
    obtain ⟨o1, h1⟩ := h1
    obtain ⟨o2, h2⟩ := h2
    constructor
    · intro outer h; rw [h1] at h; cases h
    · intro inner h; rw [h2] at h; cases h
  | some w =>
    rw [hin] at h1 h2
    simp only [Option.map] at h1
    constructor
    · intro outer h
      rw [h1] at h
      exact ⟨w, h2, by cases h; rfl⟩
    · intro inner h
      rw [h2] at h
      cases h; exact h1

example : nsOk Cfg.current ⟨true, false⟩ ⟨.svg, ['t', 'i', 't', 'l', 'e']⟩ := by
  right; right; decide
example : nsOk Cfg.current ⟨true, false⟩ ⟨.html, nScript⟩ := by right; left; rfl
example : ∃ inner, serialize Cfg.current (.childrenOnly (some ⟨.html, nScript⟩)) ⟨true, false⟩
    (.element ⟨.html, nScript⟩ [] [.text ['a', '<']]) = .ok inner ∧ inner = [0x61, 0x3C] :=
  ⟨_, by decide, rfl⟩

/-- With the namespace and the void flag taken into account by `HtmlSerializer::new`
(proposed fixes) inner = outer holds for every element of every tree. -/
theorem C07_inner_outer_fixed (cfg : Cfg) (h2 : cfg.fixNs = true) (h3 : cfg.fixVoid = true)
    (o : Opts) (name : QualName) (attrs : List Attr) (ch : List Node) :
    (∀ outer, serialize cfg .includeNode o (.element name attrs ch) = .ok outer →
      ∃ inner, serialize cfg (.childrenOnly (some name)) o (.element name attrs ch) = .ok inner ∧
        outer = startTagBytes cfg name attrs ++ inner ++ endTagOf name) ∧
    (∀ inner, serialize cfg (.childrenOnly (some name)) o (.element name attrs ch) = .ok inner →
      serialize cfg .includeNode o (.element name attrs ch)
        = .ok (startTagBytes cfg name attrs ++ inner ++ endTagOf name)) :=
  C07_inner_outer_partial cfg o name attrs ch (Or.inl h2) (Or.inl h3)

def svgStyle : QualName := ⟨.svg, nStyle⟩
def witnessNs : Node := .element svgStyle [] [.text ['a', '<', 'b']]

/-- Defect 2: for `<svg:style>a&lt;b</svg:style>` the inner serialisation is the raw `a<b`,
the outer one contains `a&lt;b`. -/
theorem C07_witness_ns_ignored (cfg : Cfg) (h : cfg.fixNs = false) (scripting cmp : Bool) :
    serialize cfg (.childrenOnly (some svgStyle)) ⟨scripting, cmp⟩ witnessNs
      = .ok [0x61, 0x3C, 0x62] ∧
    serialize cfg .includeNode ⟨scripting, cmp⟩ witnessNs
      = .ok (startTagBytes cfg svgStyle [] ++ ([0x61] ++ bLt ++ [0x62]) ++ endTagOf svgStyle) := by
  obtain ⟨a, b, c⟩ := cfg
  simp only at h; subst h
  cases a <;> cases c <;> cases scripting <;> cases cmp <;> exact ⟨by decide, by decide⟩

def htmlBr : QualName := ⟨.html, ['b', 'r']⟩
def witnessVoid : Node := .element htmlBr [] [.element ⟨.html, ['b']⟩ [] []]

/-- Finding 3: a void element with an element child — IncludeNode writes `<br>` only,
`ChildrenOnly(Some(br))` writes the child `<b></b>`. -/
theorem C07_witness_void_children (cfg : Cfg) (h : cfg.fixVoid = false) (scripting cmp : Bool) :
    serialize cfg (.childrenOnly (some htmlBr)) ⟨scripting, cmp⟩ witnessVoid
      = .ok [0x3C, 0x62, 0x3E, 0x3C, 0x2F, 0x62, 0x3E] ∧
    serialize cfg .includeNode ⟨scripting, cmp⟩ witnessVoid = .ok [0x3C, 0x62, 0x72, 0x3E] := by
  obtain ⟨a, b, c⟩ := cfg
  simp only at h; subst h
  cases a <;> cases b <;> cases scripting <;> cases cmp <;> exact ⟨by decide, by decide⟩

/-! ## 5. raw text only under HTML raw-text parents -/

/-- the property's condition: HTML namespace ∧ raw-text name (∧ scripting for `noscript`) -/
def isRawParent (o : Opts) (name : QualName) : Bool :=
  name.ns == .html && (rawTextNames.contains name.loc || (name.loc == nNoscript && o.scripting))

theorem escapeDecision_infoOf (o : Opts) (name : QualName) :
    escapeDecision o (htmlNameOf name) = !isRawParent o name := by
  unfold escapeDecision htmlNameOf isRawParent
  cases hh : name.ns == Ns.html
  · simp
  · simp only [if_true, Bool.true_and]
    cases rawTextNames.contains name.loc <;> cases name.loc == nNoscript <;> cases o.scripting <;> rfl

/-- A text child of an element that is written (its parent not being an ignored subtree) is
written unescaped iff the element is an HTML-namespace element of the raw-text list (and scripting
is enabled, for `noscript`); otherwise it goes through `write_escaped`. -/
theorem C07_raw_only_html (cfg : Cfg) (o : Opts) (name : QualName) (attrs : List Attr)
    (t : List Char) (out : Bytes) (p : ElemInfo) (rest : List ElemInfo)
    (hp : p.ignoreChildren = false) :
    (startElem cfg o name attrs ⟨out, p :: rest⟩ >>= writeText cfg o t) =
      .ok ⟨out ++ startTagBytes cfg name attrs ++
            (if isRawParent o name then utf8 t else escBytes cfg false (utf8 t)),
           infoOf name :: p :: rest⟩ := by
  rw [startElem_eq]
  simp only [hp, Bool.false_eq_true, if_false, bind, Except.bind]
  rw [writeText_eq]
  simp only [renderText, infoOf, escapeDecision_infoOf]
  cases isRawParent o name <;> simp

example : isRawParent ⟨true, false⟩ ⟨.html, nNoscript⟩ = true
    ∧ isRawParent ⟨false, false⟩ ⟨.html, nNoscript⟩ = false
    ∧ isRawParent ⟨true, false⟩ ⟨.svg, nStyle⟩ = false
    ∧ isRawParent ⟨true, false⟩ ⟨.html, nStyle⟩ = true := by decide

/-- The same for the parent named by `ChildrenOnly(Some(name))`.  Full statement: no hypothesis.
On the tree as it is it holds for HTML-namespace names only (defect 2). -/
theorem C07_scope_raw_partial (cfg : Cfg) (o : Opts) (name : QualName) (t : List Char)
    (h : cfg.fixNs = true ∨ name.ns = .html) :
    writeText cfg o t (new cfg (.childrenOnly (some name))) =
      .ok ⟨if isRawParent o name then utf8 t else escBytes cfg false (utf8 t),
           [scopeInfo cfg (.childrenOnly (some name))]⟩ := by
  rw [new_eq, writeText_eq]
  have hd : escapeDecision o (scopeInfo cfg (.childrenOnly (some name))).htmlName
      = !isRawParent o name := by
    rw [← escapeDecision_infoOf]
    simp only [scopeInfo, htmlNameOf]
    rcases h with h | h
    · simp only [h, Bool.true_and]
      cases hh : name.ns == Ns.html <;> simp_all
    · simp [h]
  simp only [renderText, hd]
  cases isRawParent o name <;> simp

example : writeText Cfg.current ⟨true, false⟩ ['<'] (new Cfg.current (.childrenOnly (some ⟨.html, nXmp⟩)))
    = .ok ⟨[0x3C], [⟨some nXmp, false⟩]⟩ := by decide

/-! ## 6. the code as it is — FLIP HERE

`Cfg.current` has all three switches on since the `fix:` commits in /repo (D1 423f1bc, D2 b9175dc,
D3 f7b6360); the `ser` correspondence ties that configuration to the code on every run.  The
theorems below are the full-strength statements about it.  The pinned snapshot (`Cfg.pinned`, all
switches off) keeps its negative witnesses, so the history stays visible.  If a fix is reverted and
`Cfg.current` is switched back, the `rfl` arguments below stop type-checking. -/

/-- **The code as it is**: for every string and both modes the bytes written by `write_escaped`
are UTF-8 of the character-level escape. -/
theorem C07_current_write_escaped (attr : Bool) (s : List Char) (out : Bytes) :
    writeEscaped Cfg.current attr (utf8 s) out = .ok (out ++ utf8 (escape attr s)) :=
  C07_escape_bytes_fixed Cfg.current rfl attr s out

example : writeEscaped Cfg.current false (utf8 ['¢', '\u00A0', '<']) []
    = .ok ([0xC2, 0xA2] ++ bNbsp ++ bLt) := by decide

/-- **The code as it is**: inner = outer for every element of every tree, all options. -/
theorem C07_current_inner_outer (o : Opts) (name : QualName) (attrs : List Attr) (ch : List Node) :
    (∀ outer, serialize Cfg.current .includeNode o (.element name attrs ch) = .ok outer →
      ∃ inner, serialize Cfg.current (.childrenOnly (some name)) o (.element name attrs ch) = .ok inner ∧
        outer = startTagBytes Cfg.current name attrs ++ inner ++ endTagOf name) ∧
    (∀ inner, serialize Cfg.current (.childrenOnly (some name)) o (.element name attrs ch) = .ok inner →
      serialize Cfg.current .includeNode o (.element name attrs ch)
        = .ok (startTagBytes Cfg.current name attrs ++ inner ++ endTagOf name)) :=
  C07_inner_outer_fixed Cfg.current rfl rfl o name attrs ch

example : serialize Cfg.current (.childrenOnly (some svgStyle)) ⟨true, false⟩ witnessNs
    = .ok ([0x61] ++ bLt ++ [0x62]) := by decide
example : serialize Cfg.current (.childrenOnly (some htmlBr)) ⟨true, false⟩ witnessVoid = .ok [] := by
  decide

/-- **The code as it is**: under `ChildrenOnly(Some(name))` text is raw iff `name` is an
HTML-namespace raw-text element (∧ scripting for `noscript`) — for every name. -/
theorem C07_current_scope_raw (o : Opts) (name : QualName) (t : List Char) :
    writeText Cfg.current o t (new Cfg.current (.childrenOnly (some name))) =
      .ok ⟨if isRawParent o name then utf8 t else utf8 (escape false t),
           [scopeInfo Cfg.current (.childrenOnly (some name))]⟩ := by
  rw [C07_scope_raw_partial Cfg.current o name t (Or.inl rfl),
      escBytes_utf8 Cfg.current false t (Or.inl rfl)]

/-! ### the pinned snapshot (history) -/

/-- Defect 1 on the pinned snapshot: `¢` was written as the lone byte A2. -/
theorem C07_pinned_write_escaped :
    writeEscaped Cfg.pinned false (utf8 ['¢']) [] = .ok [0xA2] :=
  (C07_witness_c2_dropped Cfg.pinned rfl false).1

/-- Defect 2 on the pinned snapshot: inner serialisation of `<svg:style>a&lt;b` was the raw `a<b`. -/
theorem C07_pinned_inner_outer :
    serialize Cfg.pinned (.childrenOnly (some svgStyle)) ⟨true, false⟩ witnessNs
      = .ok [0x61, 0x3C, 0x62] :=
  (C07_witness_ns_ignored Cfg.pinned rfl true false).1

/-- Finding 3 on the pinned snapshot: `ChildrenOnly(Some(br))` wrote the child element. -/
theorem C07_pinned_void_children :
    serialize Cfg.pinned (.childrenOnly (some htmlBr)) ⟨true, false⟩ witnessVoid
      = .ok [0x3C, 0x62, 0x3E, 0x3C, 0x2F, 0x62, 0x3E] :=
  (C07_witness_void_children Cfg.pinned rfl true false).1

end H5V.Props.C07
