import H5V.Props.C19Fire
import H5V.Lemmas.MetaDecodes
/-!
C19 — the hypothesis `MetaDecodes` of `C19_in_head_meta_total`, `C19_fires_in_head`,
`C19_silent_in_head` discharged: the byte slice the WHATWG "extract a character encoding from a meta
element" algorithm returns from the UTF-8 bytes of an attribute value is itself valid UTF-8, so the
model's `subtendril-utf8@encoding.rs` panic branch is never taken.

* `C19_extract_cut` (any byte string): the result of `extract` is a contiguous slice of the input; the
  byte before it is ASCII (`=`, a quote, ASCII whitespace), after it comes the end of the input or an
  ASCII byte (the matching quote, ASCII whitespace, `;`);
* `C19_extract_boundaries`: on the UTF-8 bytes of `content` both cut points are therefore character
  boundaries: `content = a ++ d :: (b ++ c)`, the slice is the UTF-8 of `b`, it lies where `b` lies,
  `d` is ASCII and `c` is empty or starts with an ASCII character (an ASCII byte of a UTF-8 string is
  never part of a multi-byte sequence: `H5V.Lemmas.MetaDecodes.encBuf_split_ascii`);
* `C19_label_decodes`, `C19_contentLabel_some`, `C19_contentLabel_none`: the slice passes
  `String.fromUTF8?` and reads back as `b`; `contentLabel` is `none` only when the extraction
  returns nothing;
* `C19_metaDecodes`, `C19_extractEncoding_total` and the primed theorems: no hypothesis left.
-/
namespace H5V.Props.C19
open H5V.Model.Dom (Id QualName Attr NodeOrText SinkOp Output ElementFlags QuirksMode Dom)
open H5V.Model.HtmlTB
open H5V.Lemmas.TBM
open H5V.Lemmas.BQBytes (encBuf)
open H5V.Lemmas.MetaDecodes

/-! ## `utf8Bytes` is the concatenation of core's `String.utf8EncodeChar` -/

theorem C19_utf8Bytes_eq (s : Str) : utf8Bytes s = s.flatMap String.utf8EncodeChar := by
  unfold utf8Bytes
  rw [String.toUTF8_eq_toByteArray, String.toByteArray_ofList, byteArray_toList]
  exact List.toList_data_toByteArray

theorem utf8Bytes_eq_encBuf (s : Str) : utf8Bytes s = encBuf s := C19_utf8Bytes_eq s

theorem C19_utf8Bytes_append (a b : Str) : utf8Bytes (a ++ b) = utf8Bytes a ++ utf8Bytes b := by
  simp [C19_utf8Bytes_eq]

/-! ## item 1: where the extraction cuts -/

/-- **byte level, any input**: the extracted label is a contiguous slice of the input, preceded by an
ASCII byte and followed by the end of the input or an ASCII byte -/
theorem C19_extract_cut {s r : List UInt8} (h : H5V.Spec.MetaExtract.extract s = some r) :
    ∃ pre b0 post, s = pre ++ b0 :: (r ++ post) ∧ b0.toNat < 128 ∧
      (post = [] ∨ ∃ b q, post = b :: q ∧ b.toNat < 128) :=
  extract_cut h

/-- **both cut points are character boundaries**: if the extraction, run on the UTF-8 bytes of
`content`, returns `r`, then `content = a ++ d :: (b ++ c)` where `r` is the UTF-8 of `b` and lies
where `b` lies; `d` (the character before the label) is ASCII; the label is followed by the end of the
string or by an ASCII character -/
theorem C19_extract_boundaries {content : Str} {r : List UInt8}
    (h : H5V.Spec.MetaExtract.extract (utf8Bytes content) = some r) :
    ∃ (a : Str) (d : Char) (b c : Str), content = a ++ d :: (b ++ c) ∧ r = utf8Bytes b ∧
      utf8Bytes content = utf8Bytes a ++ utf8Bytes [d] ++ r ++ utf8Bytes c ∧
      d.val.toNat < 128 ∧ (c = [] ∨ ∃ e c', c = e :: c' ∧ e.val.toNat < 128) := by
  rw [utf8Bytes_eq_encBuf] at h
  obtain ⟨a, d, b, c, e, hr, hd, hc⟩ := extract_encBuf h
  refine ⟨a, d, b, c, e, by rw [hr, utf8Bytes_eq_encBuf], ?_, hd, hc⟩
  rw [hr, ← utf8Bytes_eq_encBuf, e]
  simp only [C19_utf8Bytes_eq, List.flatMap_append, List.flatMap_cons, List.flatMap_nil, List.append_nil,
    List.append_assoc]

/-! ## item 2: the label decodes -/

/-- the extracted slice reads back, through `String.fromUTF8?`, as a run of characters of `content` -/
theorem C19_contentLabel_some {content : Str} {r : List UInt8}
    (h : H5V.Spec.MetaExtract.extract (utf8Bytes content) = some r) :
    ∃ (a : Str) (d : Char) (b c : Str), content = a ++ d :: (b ++ c) ∧ r = utf8Bytes b ∧
      String.fromUTF8? (ByteArray.mk r.toArray) = some (String.ofList b) ∧ contentLabel content = some b := by
  obtain ⟨a, d, b, c, e, hr, _, _, _⟩ := C19_extract_boundaries h
  have hf : String.fromUTF8? (ByteArray.mk r.toArray) = some (String.ofList b) := by
    rw [hr, utf8Bytes_eq_encBuf]; exact fromUTF8?_encBuf b
  refine ⟨a, d, b, c, e, hr, hf, ?_⟩
  simp [contentLabel, h, hf]

/-- **the label always decodes**: the slice extracted from the UTF-8 bytes of any character list
passes `String.fromUTF8?` -/
theorem C19_label_decodes (content : Str) : ¬ labelUndecodable content := by
  rintro ⟨bytes, hx, hu⟩
  obtain ⟨_, _, b, _, _, _, hf, _⟩ := C19_contentLabel_some hx
  rw [hf] at hu
  cases hu

/-- `contentLabel` answers nothing exactly when the standard's algorithm returns nothing -/
theorem C19_contentLabel_none (content : Str) :
    contentLabel content = none ↔ H5V.Spec.MetaExtract.extract (utf8Bytes content) = none := by
  constructor
  · intro h
    cases hx : H5V.Spec.MetaExtract.extract (utf8Bytes content) with
    | none => rfl
    | some r =>
      obtain ⟨_, _, b, _, _, _, _, hl⟩ := C19_contentLabel_some hx
      rw [hl] at h; cases h
  · intro h
    simp [contentLabel, h]

/-- the model's `extract_a_character_encoding_from_a_meta_element` never takes a panic branch -/
theorem C19_extractEncoding_total (content : Str) (s : State) :
    extractEncoding content s = .ok (contentLabel content, s) :=
  extractEncoding_run (C19_label_decodes content) s

/-! ## item 3: `MetaDecodes` holds for every tag; the theorems of `C19Fire` without it -/

theorem C19_metaDecodes (tag : Tag) : MetaDecodes tag :=
  fun _ _ c _ => C19_label_decodes c

/-- when the insertion goes through, the "in head" rule on a `meta` start tag answers what
`qualifies` prescribes — no panic branch left -/
theorem C19_in_head_meta_total' {tag : Tag} (hm : isMetaStart tag) {s s' : State} {elem : Id}
    (h : (insertAndPopElementFor tag).run s = .ok (elem, s')) :
    (stepInHead (.tag tag)).run s = .ok (answerOf (qualifies tag), s') :=
  C19_in_head_meta_total hm (C19_metaDecodes tag) h

/-- a qualifying `meta` that reaches "in head": `process_to_completion` answers the indicator at
once; the rest of the queue is not looked at -/
theorem C19_fires_in_head' {tag : Tag} (hm : isMetaStart tag) {s s1 s2 : State} {elem : Id}
    {l : Str} (hq : qualifies tag = some l)
    (hf : (isForeign (.tag tag)).run s = .ok (false, s1)) (hmode : s1.mode = .inHead)
    (hi : (insertAndPopElementFor tag).run s1 = .ok (elem, s2)) (fuel : Nat) (more : List Token) :
    (processToCompletion (fuel + 1) (.tag tag) more).run s = .ok (.encodingIndicator l, s2) :=
  C19_fires_in_head hm (C19_metaDecodes tag) hq hf hmode hi fuel more

/-- a `meta` that announces nothing: `Continue`, and no "unacknowledged self-closing" error -/
theorem C19_silent_in_head' {tag : Tag} (hm : isMetaStart tag) {s s1 s2 : State} {elem : Id}
    (hq : qualifies tag = none)
    (hf : (isForeign (.tag tag)).run s = .ok (false, s1)) (hmode : s1.mode = .inHead)
    (hi : (insertAndPopElementFor tag).run s1 = .ok (elem, s2)) (fuel : Nat) :
    (processToCompletion (fuel + 1) (.tag tag) []).run s = .ok (.continue_, s2) :=
  C19_silent_in_head hm (C19_metaDecodes tag) hq hf hmode hi fuel

/-- the helper theorems of `H5V.Lemmas.HtmlTBMetaFire` that carry the hypothesis -/
theorem metaAnswer_run' (tag : Tag) (s : State) : metaAnswer tag s = .ok (answerOf (qualifies tag), s) :=
  metaAnswer_run (C19_metaDecodes tag) s

theorem stepInHead_meta_run' {tag : Tag} (hm : isMetaStart tag) {s s' : State} {elem : Id}
    (h : insertAndPopElementFor tag s = .ok (elem, s')) :
    stepInHead (.tag tag) s = .ok (answerOf (qualifies tag), s') :=
  stepInHead_meta_run hm (C19_metaDecodes tag) h

/-! ## item 4: non-vacuity — a non-ASCII label -/

section Examples

-- unquoted: `text/html; charset=ütf-8; x` (ü = C3 BC; the label ends at `;`)
example : H5V.Spec.MetaExtract.extract (utf8Bytes "text/html; charset=ütf-8; x".toList)
    = some [0xC3, 0xBC, 0x74, 0x66, 0x2D, 0x38] := by decide +kernel
example : contentLabel "text/html; charset=ütf-8; x".toList = some "ütf-8".toList := by decide +kernel
-- quoted: `text/html; charset="ütf-8 é"; x` (the label ends at the matching quote, blanks are kept)
example : contentLabel "text/html; charset=\"ütf-8 é\"; x".toList = some "ütf-8 é".toList := by decide +kernel
example : contentLabel "text/html; charset = 'ütf-8'".toList = some "ütf-8".toList := by decide +kernel
-- non-ASCII before and after the label, a 4-byte character inside, the label runs to the end
example : contentLabel "é charset=x😀y".toList = some "x😀y".toList := by decide +kernel
-- the decomposition of `C19_extract_boundaries`: a = `text/html; charset`, d = `=`, b = `ütf-8`, c = `; x`
example : "text/html; charset=ütf-8; x".toList
    = "text/html; charset".toList ++ '=' :: ("ütf-8".toList ++ "; x".toList) := by decide +kernel
-- an unmatched quote: the algorithm returns nothing, so does `contentLabel`
example : contentLabel "charset=\"ütf-8".toList = none := by decide +kernel

/-- `<meta http-equiv=content-type content="text/html; charset=ütf-8; x">` -/
def metaUmlaut : Tag := startTag "meta" [attr "http-equiv" "content-type", attr "content" "text/html; charset=ütf-8; x"]

example : isMetaStart metaUmlaut := ⟨rfl, rfl⟩
example : qualifies metaUmlaut = some "ütf-8".toList := by decide +kernel
example : answerFresh metaUmlaut = some (.encodingIndicator "ütf-8".toList) := by decide +kernel

end Examples

/-! ## axioms -/
#print axioms C19_utf8Bytes_eq
#print axioms C19_extract_cut
#print axioms C19_extract_boundaries
#print axioms C19_contentLabel_some
#print axioms C19_contentLabel_none
#print axioms C19_label_decodes
#print axioms C19_extractEncoding_total
#print axioms C19_metaDecodes
#print axioms C19_in_head_meta_total'
#print axioms C19_fires_in_head'
#print axioms C19_silent_in_head'

end H5V.Props.C19
