import H5V.Props.C03
/-!
C03 — `Tokenizer::end` after a chunked session.

`C03_chunk_independence` delivers, after the last chunk, a machine equal to the one-piece machine up
to a dead `current_char`.  Here: `end()` (flush of a pending character reference, the final `run`
at EOF, the `eof_step` loop) on two such machines delivers the same `(token, line)` sequence —
so the *whole* token stream of a chunked parse, including what `end()` adds (EOF-in-state errors,
the flushed comment / doctype / tag-less text, the EOF token), equals that of the one-piece parse.
-/
namespace H5V.Props.C03
open H5V.Model.HtmlTok

/-- `run` with the same fuel from machines equal up to a dead `current_char` -/
def RunSim : RunRes → RunRes → Prop
  | .done a i, .done b j => Sim a b ∧ i = j
  | .script a i, .script b j => Sim a b ∧ i = j
  | .indicator a i, .indicator b j => Sim a b ∧ i = j
  | .panic x, .panic y => x = y
  | .outOfFuel, .outOfFuel => True
  | _, _ => False

theorem run_sim (o : Opts) (pol : Pol) (f : Nat) (x y : Mach) (i : Str) (h : Sim x y) :
    RunSim (run o pol f x i) (run o pol f y i) := by
  induction f generalizing x y i with
  | zero => simp [run, RunSim]
  | succ f ih =>
    have hs := step_sim o pol x y i h
    simp only [run]
    cases hx : step o pol x i <;> cases hy : step o pol y i <;> rw [hx, hy] at hs <;>
      simp only [RSim] at hs
    · obtain ⟨h1, h2⟩ := hs; subst h2; exact ih _ _ _ h1
    · obtain ⟨h1, h2⟩ := hs; subst h2; exact ⟨h1, rfl⟩
    · obtain ⟨h1, h2⟩ := hs; subst h2; exact ⟨h1, rfl⟩
    · obtain ⟨h1, h2⟩ := hs; subst h2; exact ⟨h1, rfl⟩
    · exact hs

theorem setAtEof_setCC (m : Mach) (a : Char) (b : Bool) :
    (m.setCurrentChar a).setAtEof b = (m.setAtEof b).setCurrentChar a := rfl

/-! `transEof` reads `current_char` only in `markup-declaration-open` (the text of a parse error) -/

theorem badEof_setCC (o : Opts) (m : Mach) (a : Char) :
    badEof o (m.setCurrentChar a) = (badEof o m).setCurrentChar a := by
  unfold badEof; split <;> rfl

theorem emitChar_setCC (m : Mach) (a c : Char) :
    emitChar (m.setCurrentChar a) c = (emitChar m c).setCurrentChar a := by
  unfold emitChar; split <;> rfl

theorem emitTempBuf_setCC (m : Mach) (a : Char) :
    emitTempBuf (m.setCurrentChar a) = (emitTempBuf m).setCurrentChar a := rfl

theorem transEof_setCC (o : Opts) (m : Mach) (a : Char) (h : m.state ≠ .markupDeclarationOpen) :
    transEof o (m.setCurrentChar a) = ((transEof o m).1.setCurrentChar a, (transEof o m).2) := by
  unfold transEof
  have e : (m.setCurrentChar a).state = m.state := rfl
  simp only [e]
  split <;> first
    | (exfalso; apply h; assumption)
    | (simp only [emitTempBuf_setCC, badEof_setCC, emitChar_setCC]; rfl)

theorem transEof_cont_state (o : Opts) (m : Mach) (h : (transEof o m).2 = .cont) :
    (transEof o m).1.state ≠ .markupDeclarationOpen := by
  unfold transEof at h ⊢
  split <;> simp_all [to, reconsumeTo]

theorem eofLoop_setCC (o : Opts) (f : Nat) (m : Mach) (a : Char) (h : m.state ≠ .markupDeclarationOpen) :
    eofLoop o f (m.setCurrentChar a) = (eofLoop o f m).map (fun x => x.setCurrentChar a) := by
  induction f generalizing m with
  | zero => rfl
  | succ f ih =>
    simp only [eofLoop, transEof_setCC o m a h]
    have hc := transEof_cont_state o m
    cases ht : transEof o m with
    | mk m1 sg =>
      rw [ht] at hc
      cases sg with
      | cont => simp only; exact ih m1 (hc rfl)
      | done => rfl
      | panic e => rfl

theorem deadCC_not_mdo {m : Mach} (hd : deadCC m) : m.state ≠ .markupDeclarationOpen := by
  obtain ⟨_, _, hk⟩ := hd
  intro hs
  rw [hs] at hk
  rcases hk with hk | hk <;> exact absurd hk (by decide)

theorem eofLoop_setCC_dead (o : Opts) (m : Mach) (a : Char) (hd : deadCC m) :
    (eofLoop o 8 (m.setCurrentChar a)).map (·.out) = (eofLoop o 8 m).map (·.out) := by
  rw [eofLoop_setCC o 8 m a (deadCC_not_mdo hd)]
  cases eofLoop o 8 m <;> rfl

/-- **`end()` after the last chunk** (HTML tokenizer): on machines equal up to a dead
`current_char` `Tokenizer::end` delivers the same tokens, errors and line numbers -/
theorem C03_finish_sim (o : Opts) (pol : Pol) (m1 m2 : Mach) (h : Sim m1 m2) :
    (finish o pol m1).map (·.out) = (finish o pol m2).map (·.out) := by
  rcases h with h | ⟨hd, a, ha⟩
  · rw [h]
  · subst ha
    obtain ⟨hr, hcr, hk⟩ := hd
    have hcr2 : (m1.setCurrentChar a).charRef = none := by simp [hcr]
    unfold finish
    simp only [hcr, hcr2, setAtEof_setCC]
    have hdead : deadCC (m1.setAtEof true) := ⟨by simpa using hr, by simpa using hcr, by simpa using hk⟩
    have hf : fuelFor ((m1.setAtEof true).setCurrentChar a) [] = fuelFor (m1.setAtEof true) [] := by
      simp [fuelFor]
    rw [hf]
    have hrs := run_sim o pol (fuelFor (m1.setAtEof true) []) (m1.setAtEof true)
      ((m1.setAtEof true).setCurrentChar a) [] (Or.inr ⟨hdead, a, rfl⟩)
    generalize run o pol (fuelFor (m1.setAtEof true) []) (m1.setAtEof true) [] = rx at hrs ⊢
    generalize run o pol (fuelFor (m1.setAtEof true) []) ((m1.setAtEof true).setCurrentChar a) [] = ry at hrs ⊢
    cases rx <;> cases ry <;> simp only [RunSim] at hrs <;> dsimp only
    case done.done ma ia mb ib =>
      obtain ⟨hsim, hi⟩ := hrs
      subst hi
      rcases hsim with hsim | ⟨hd', c, hc⟩
      · rw [hsim]
      · rw [hc]
        cases hI : (!List.isEmpty ia)
        · simp only [Bool.false_eq_true, ↓reduceIte]
          exact (eofLoop_setCC_dead o _ c hd').symm
        · simp only [↓reduceIte]
    case panic.panic x y => rw [hrs]

/-- **C03 end to end (tokenizer)**: chunks fed one after the other followed by `end()` deliver the
same `(token, line)` sequence as the concatenation fed in one piece followed by `end()` -/
theorem C03_chunked_then_end (o : Opts) (pol : Pol) (fuel : Nat) (m : Mach) (chunks : List Str)
    (mf : Mach) (hg : Good m) (hat : m.atEof = false) (hne : chunks ≠ [])
    (h : feedAll o pol fuel m chunks = some mf) :
    ∃ mf' fuel', runP o pol fuel' m chunks.flatten = some mf' ∧
      (finish o pol mf').map (·.out) = (finish o pol mf).map (·.out) := by
  obtain ⟨mf', f', h1, _, h3⟩ := C03_chunk_independence o pol fuel m chunks mf hg hat hne h
  exact ⟨mf', f', h1, C03_finish_sim o pol mf' mf h3⟩

/-- non-vacuity: `<!--x` | `-` fed in two chunks then `end()`, against one piece then `end()` -/
example :
    ((feedAll ⟨false⟩ polNone 200 { m0 with discardBom := false } ["<!--x".toList, "-".toList]).bind
        (fun m => (finish ⟨false⟩ polNone m).toOption)).map (·.out) =
    ((runP ⟨false⟩ polNone 200 { m0 with discardBom := false } "<!--x-".toList).bind
        (fun m => (finish ⟨false⟩ polNone m).toOption)).map (·.out) := by
  decide +kernel

end H5V.Props.C03
