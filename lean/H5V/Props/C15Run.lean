import H5V.Lemmas.XmlTokOptE
import H5V.Props.C15
/-!
C15 — **`exact_errors` never changes the XML token stream** (XML tokenizer model, whole runs).

The XML tokenizer's only diagnostic option in the model is `Opts.exactErrors` (`discard_bom` is a
register of the machine, and semantic).  For every input, every partition into chunks, every start
machine and any two `Opts` values, the runs deliver the same tokens — tags with their qualified
names and attributes, text, comments, processing instructions, doctypes, EOF — after erasing the
parse-error tokens (`Token.error`), during `feed` and during `XmlTokenizer::end`.

The invariant is `E a b` (`H5V.Lemmas.XmlTokOptE`): the two machines are equal except for
* parse-error entries of the token log `out` (`noErr a.out = noErr b.out`), and
* `current_char`, which must agree only while a reconsume is pending (`E_iff`).

`C15_fast_eq_slow` (Props/C15.lean) is the step-level core (outside its set a character is not
rewritten by `get_preprocessed_char` and the table treats `FromSet c` like the run `[c]`); here it is
threaded through `step` (`C15_step_optE`), `run` (`C15_run_optE`), `feed` (`C15_feed_optE`), the
chunked session of the driver (`C15_session_optE`) and `end` (`C15_finish_optE`).  Unlike the HTML
tokenizer, `discard_char` is a `get_char` here, so with `exact_errors` it can log an additional
"Bad character" error — an error token, hence erased.
-/
namespace H5V.Props.C15
open H5V H5V.Model.XmlTok

/-- the invariant in plain terms: equal token logs up to parse errors, the same character for a
pending reconsume, and all other registers equal -/
theorem E_iff (a b : Mach) :
    E a b ↔
      noErr a.out = noErr b.out ∧ (a.reconsume = true → a.currentChar = b.currentChar) ∧
      ({ a with out := [], currentChar := '\x00' } : Mach) = { b with out := [], currentChar := '\x00' } := by
  constructor
  · rintro ⟨⟨ob, cb, rfl, h⟩, h2⟩
    exact ⟨h, h2, rfl⟩
  · rintro ⟨h1, h2, h3⟩
    refine ⟨⟨b.out, b.currentChar, ?_, h1⟩, h2⟩
    cases a
    cases b
    simp only [Mach.mk.injEq] at h3 ⊢
    obtain ⟨e1, e2, _, e4, e5, e6, e7, e8, e9, e10, e11, e12, e13, e14, e15, e16, e17, _⟩ := h3
    exact ⟨e1.symm, e2.symm, trivial, e4.symm, e5.symm, e6.symm, e7.symm, e8.symm, e9.symm, e10.symm, e11.symm,
      e12.symm, e13.symm, e14.symm, e15.symm, e16.symm, e17.symm, trivial⟩

/-- **one `XmlTokenizer::step`**: for all pairs of option values, `E`-related machines and the same
unread input give the same kind of result, the same remaining input, `E`-related machines (and
the same panic, if any) -/
theorem C15_step_optE (o1 o2 : Opts) {m1 m2 : Mach} (h : E m1 m2) (inp : Str) :
    RE (step o1 m1 inp) (step o2 m2 inp) :=
  step_RE o1 o2 h inp

/-- **`XmlTokenizer::run`**, for every amount of fuel (the two runs proceed in lockstep) -/
theorem C15_run_optE (o1 o2 : Opts) (fuel : Nat) {m1 m2 : Mach} (h : E m1 m2) (inp : Str) :
    RunE (run o1 fuel m1 inp) (run o2 fuel m2 inp) :=
  run_RunE o1 o2 fuel h inp

/-- **`XmlTokenizer::feed`** (BOM prologue + `run` with the model's own fuel) -/
theorem C15_feed_optE (o1 o2 : Opts) {m1 m2 : Mach} (h : E m1 m2) (inp chunk : Str) :
    RunE (feed o1 m1 inp chunk) (feed o2 m2 inp chunk) :=
  feed_RunE o1 o2 h inp chunk

/-- **`XmlTokenizer::end`**: the same failure, or success with the same tokens up to parse errors -/
theorem C15_finish_optE (o1 o2 : Opts) {m1 m2 : Mach} (h : E m1 m2) :
    (finish o1 m1).map (fun m => noErr m.out) = (finish o2 m2).map (fun m => noErr m.out) :=
  finish_E o1 o2 h

/-- relation between the results of two sessions -/
def OptE : Option Mach → Option Mach → Prop
  | some a, some b => E a b
  | none, none => True
  | _, _ => False

/-- **the chunked session of the driver** (`feedAll`: `feed` on every chunk in turn) -/
theorem C15_session_optE (o1 o2 : Opts) (cs : List Str) :
    ∀ {m1 m2 : Mach}, E m1 m2 → OptE (feedAll o1 m1 cs) (feedAll o2 m2 cs) := by
  induction cs with
  | nil => intro m1 m2 h; exact h
  | cons c cs ih =>
    intro m1 m2 h
    have hf := feed_RunE o1 o2 h [] c
    unfold feedAll
    generalize feed o1 m1 [] c = r1 at hf
    generalize feed o2 m2 [] c = r2 at hf
    cases r1 <;> cases r2 <;> first | exact hf.elim | skip
    · obtain ⟨g1, g2⟩ := hf
      subst g2
      rename_i x i y
      cases i with
      | nil => exact ih g1
      | cons d ds => exact True.intro
    · exact True.intro
    · exact True.intro

/-- **C15 (tokenizer, whole runs): `exact_errors` never changes the XML token stream.**
For every machine `m` (in particular every freshly created tokenizer: any initial state, any
`discard_bom`), every list of chunks and any two option values: the sessions either both fail, or
both succeed — in machines that have delivered the same token sequence up to parse-error tokens —
and then `XmlTokenizer::end` fails alike or delivers the same rest. -/
theorem C15_exact_errors_tokens (o1 o2 : Opts) (m : Mach) (cs : List Str) :
    (feedAll o1 m cs = none ↔ feedAll o2 m cs = none) ∧
    ∀ a b, feedAll o1 m cs = some a → feedAll o2 m cs = some b →
      noErr a.out = noErr b.out ∧
      (finish o1 a).map (fun x => noErr x.out) = (finish o2 b).map (fun x => noErr x.out) := by
  have hs := C15_session_optE o1 o2 cs (E.refl m)
  generalize feedAll o1 m cs = r1 at hs
  generalize feedAll o2 m cs = r2 at hs
  cases r1 <;> cases r2 <;> first | exact hs.elim | skip
  · exact ⟨Iff.rfl, fun a b h => by cases h⟩
  · refine ⟨⟨fun h => (by cases h), fun h => (by cases h)⟩, ?_⟩
    intro a' b' ha hb
    cases ha
    cases hb
    exact ⟨hs.out, C15_finish_optE o1 o2 hs⟩

/-- the instance the property is named after: `exact_errors = true` against `exact_errors = false` -/
theorem C15_exact_errors_on_off (m : Mach) (cs : List Str) :
    (feedAll ⟨true⟩ m cs = none ↔ feedAll ⟨false⟩ m cs = none) ∧
    ∀ a b, feedAll ⟨true⟩ m cs = some a → feedAll ⟨false⟩ m cs = some b →
      noErr a.out = noErr b.out ∧
      (finish ⟨true⟩ a).map (fun x => noErr x.out) = (finish ⟨false⟩ b).map (fun x => noErr x.out) :=
  C15_exact_errors_tokens ⟨true⟩ ⟨false⟩ m cs

/-! ### non-vacuity

`x U+0001 <a b=c:d e> &#x80; &am; y <!x`, fed in two chunks and ended: with `exact_errors` the
session logs 4 parse errors (among them the extra "Bad character U+0001" of input preprocessing),
without it 3, with different texts — and the same 9 tokens otherwise; `end` then turns `<!x` into a
bogus comment and EOF under both. -/

def exInput : Str := "x\x01<a b=c:d e>&#x80;&am;y<!x".toList

/-- the session (two chunks), then `end`: (log after the chunks, log after `end`) -/
def exSession (o : Opts) : Option (Out × Option Out) :=
  (feedAll o {} [exInput.take 7, exInput.drop 7]).map
    (fun m => (m.out, ((finish o m).toOption).map (·.out)))

def exErase (r : Option (Out × Option Out)) : Option (Out × Option Out) :=
  r.map (fun p => (noErr p.1, p.2.map noErr))

example :
    -- the two settings really log different things …
    (exSession ⟨true⟩).map (fun p => (p.1.length, (noErr p.1).length)) = some (13, 9) ∧
    (exSession ⟨false⟩).map (fun p => (p.1.length, (noErr p.1).length)) = some (12, 9) ∧
    (exSession ⟨true⟩).map (·.1) ≠ (exSession ⟨false⟩).map (·.1) ∧
    -- … `end` succeeds and adds the bogus comment and EOF …
    ((exSession ⟨false⟩).bind (·.2)).map (fun o => (noErr o).length) = some 11 ∧
    -- … and after erasing parse errors they agree
    exErase (exSession ⟨true⟩) = exErase (exSession ⟨false⟩) := by
  decide +kernel

end H5V.Props.C15
