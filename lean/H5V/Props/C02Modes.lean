import H5V.Lemmas.HtmlTBModesAll
import H5V.Lemmas.HtmlTBModesFragment
/-!
C02 (insertion modes) — **the model of html5ever's HTML tree builder implements the insertion modes
of the WHATWG standard** as transcribed in `H5V.Spec.TreeModes` (2025 text,
`edition := .customizableSelect`), for every token sequence the tokenizer can deliver.

The headlines `C02_model_eq_spec_modes` / `C02_model_eq_spec_modes_fragment` are stated against the UNMODIFIED
specification (`Spec.TreeModes.parseDocument` / `parseFragment`, i.e. `fragmentState` followed by the tokens).  The
four deviations of html5ever found while proving an earlier version of this file (A: DOCTYPE in "in table text",
B: `template` missing in a current-node test of the table modes, C: end tags in foreign content in the fragment
case, D: `<input>` with a `select` context element) have been fixed in the code and in the model; their witnesses
are kept at the end of the file as regression examples, now showing agreement.

**Strict headlines.**  `C02_model_eq_spec_modes_strict` / `C02_model_eq_spec_modes_fragment_strict` say: the model's
run IS the run of the unmodified specification (`parseDocument … = .ok σ` with `σ` agreeing with the model).  Two
technical provisos of earlier versions are gone:

* the standard's *Assert* in "in cell" ("the stack of open elements has a `td` or `th` element in table scope",
  where `Spec.TreeModes.inCell` stops with `cellAssertMsg` if it fails, and html5ever reports a parse error and
  ignores the token) is PROVED never to fail: `H5V.Lemmas.ModesInv.Good` (files `HtmlTBModesInv*.lean`) is an
  invariant of the specification's own run — every rule function of `Spec.TreeModes` keeps it
  (`H5V.Lemmas.ModesInv.keeps_byMode`, `post_foreign`) —, and it contains "insertion mode "in cell" ⇒ a `td`/`th` is
  in table scope".  The model supplies, for tag tokens, the facts the specification's states cannot know by
  themselves (an element's type is a function of its node; node identities handed out later are fresh; in "text" the
  current node is an HTML element): `HtmlTBModesInvModel.lean`.  `C02_cell_assert_never_fails`.
* the protocol hypothesis "a DOCTYPE token in "in table text" finds an HTML element as adjusted current node" is
  gone: the invariant gives "in "in table text" the current node is a `table`, `tbody`, `template`, `tfoot`, `thead`,
  `tr` element" (`acnHtml_of_xinv`).

The simulation itself is still proved against `parseDocumentDev` (`H5V.Lemmas.HtmlTBModesDev`, the specification
with the asserted-impossible case defined as html5ever defines it); `DocAgrees` states both runs, the older forms
`C02_model_eq_spec_modes` (`DocAgreesStd`) and `…_completed` are kept.
-/
namespace H5V.Props.C02
open H5V.Model.HtmlTB
open H5V.Model.Dom (Id SinkOp Output Dom QualName Attr NodeOrText ElementFlags NodeData QuirksMode)
open H5V.Lemmas.HtmlTBAlgo
open H5V.Lemmas.HtmlTBModes
open H5V.Lemmas.TBSafe (TI HInv SInv Rooted ForeignTop textTok)
open H5V.Props.C04TB (docStart parseRest)
open H5V.Spec.TreeModes (STok ETok IMode Config Out TokSwitch XOp Op Step Edition)

/-- the configuration of the specification for a document parse with the options `opts` -/
def docCfg (opts : Opts) : Config Id := cfgOf (docStart opts)

theorem docCfg_eq (opts : Opts) : docCfg opts =
    { document := 0, edition := .customizableSelect, scripting := opts.scriptingEnabled, srcdoc := opts.iframeSrcdoc,
      cannotChangeMode := false, context := none, contextEncodingHtml := false } := rfl

/-- the start of a document parse is the specification's initial state -/
theorem absF_docStart (opts : Opts) (hq : opts.quirksMode = .noQuirks) (supply : List Id) :
    absF (docStart opts) { supply := supply } = Spec.TreeModes.initialState supply := by
  simp only [absF, absP, docStart, State.init, hq, Spec.TreeModes.initialState]
  rfl

theorem minv_docStart (opts : Opts) : MInv (docStart opts) :=
  MInv.of_ti (H5V.Props.C04TB.C04_tb_inv_new opts) (fun _ _ h => by cases h) (fun _ h => by cases h)
    (fun _ h => by cases h)

theorem auxOk_docStart (opts : Opts) (supply : List Id) : AuxOk (docStart opts) { supply := supply } where
  live := rfl
  annot := by intro h hh; cases hh
  annotEl := by intro a ha; cases ha
  xlog := ⟨List.Pairwise.nil, by intro j hj; cases hj⟩

/-! ## the rules, mode by mode

`ModeSim m`: for every non-character token `tok` (well-formed: `TokWf`) and every state `s` of the model in
insertion mode `m` satisfying the invariants `TI` (C04) and `MInv`, every successful run of the model's rule
`step m tok` ends with a result `res` and a state `s'` such that the specification's rule for the mode
(`byModeDev`) maps the abstract state `absF s x` to `stepOf res s' x'` — the same kind of result ("done" /
"reprocess" in the mode the model asks for), the same abstract state (stack of open elements, list of active
formatting elements, insertion mode, original insertion mode, stack of template insertion modes, head and form
element pointers, frameset-ok, pending table character tokens, document mode, ignore-LF flag, …), the same answer
to the tokenizer (`OutRel`) — and the model's DOM calls are the `TreeSink` calls of what the specification appended
to its log (`flatCalls (edits2 calls) = flatCalls (ops.map (opCall tc))`).  `ModeCharSim m`: the same for a run of
character tokens (`CharsPost`: the model handles the run at once, the specification character by character). -/

theorem C02_all_modes : ∀ m, ModeSim m := allModeSim tableSims
theorem C02_all_modes_chars : ∀ m, ModeCharSim m := allModeCharSim tableSims

theorem C02_mode_initial : ModeSim .initial ∧ ModeCharSim .initial := ⟨C02_all_modes _, C02_all_modes_chars _⟩
theorem C02_mode_before_html : ModeSim .beforeHtml ∧ ModeCharSim .beforeHtml := ⟨C02_all_modes _, C02_all_modes_chars _⟩
theorem C02_mode_before_head : ModeSim .beforeHead ∧ ModeCharSim .beforeHead := ⟨C02_all_modes _, C02_all_modes_chars _⟩
theorem C02_mode_in_head : ModeSim .inHead ∧ ModeCharSim .inHead := ⟨C02_all_modes _, C02_all_modes_chars _⟩
theorem C02_mode_in_head_noscript : ModeSim .inHeadNoscript ∧ ModeCharSim .inHeadNoscript :=
  ⟨C02_all_modes _, C02_all_modes_chars _⟩
theorem C02_mode_after_head : ModeSim .afterHead ∧ ModeCharSim .afterHead := ⟨C02_all_modes _, C02_all_modes_chars _⟩
theorem C02_mode_in_body : ModeSim .inBody ∧ ModeCharSim .inBody := ⟨C02_all_modes _, C02_all_modes_chars _⟩
theorem C02_mode_text : ModeSim .text ∧ ModeCharSim .text := ⟨C02_all_modes _, C02_all_modes_chars _⟩
theorem C02_mode_in_table : ModeSim .inTable ∧ ModeCharSim .inTable := ⟨C02_all_modes _, C02_all_modes_chars _⟩
theorem C02_mode_in_table_text : ModeSim .inTableText ∧ ModeCharSim .inTableText := ⟨C02_all_modes _, C02_all_modes_chars _⟩
theorem C02_mode_in_caption : ModeSim .inCaption ∧ ModeCharSim .inCaption := ⟨C02_all_modes _, C02_all_modes_chars _⟩
theorem C02_mode_in_column_group : ModeSim .inColumnGroup ∧ ModeCharSim .inColumnGroup :=
  ⟨C02_all_modes _, C02_all_modes_chars _⟩
theorem C02_mode_in_table_body : ModeSim .inTableBody ∧ ModeCharSim .inTableBody := ⟨C02_all_modes _, C02_all_modes_chars _⟩
theorem C02_mode_in_row : ModeSim .inRow ∧ ModeCharSim .inRow := ⟨C02_all_modes _, C02_all_modes_chars _⟩
theorem C02_mode_in_cell : ModeSim .inCell ∧ ModeCharSim .inCell := ⟨C02_all_modes _, C02_all_modes_chars _⟩
theorem C02_mode_in_template : ModeSim .inTemplate ∧ ModeCharSim .inTemplate := ⟨C02_all_modes _, C02_all_modes_chars _⟩
theorem C02_mode_after_body : ModeSim .afterBody ∧ ModeCharSim .afterBody := ⟨C02_all_modes _, C02_all_modes_chars _⟩
theorem C02_mode_in_frameset : ModeSim .inFrameset ∧ ModeCharSim .inFrameset := ⟨C02_all_modes _, C02_all_modes_chars _⟩
theorem C02_mode_after_frameset : ModeSim .afterFrameset ∧ ModeCharSim .afterFrameset :=
  ⟨C02_all_modes _, C02_all_modes_chars _⟩
theorem C02_mode_after_after_body : ModeSim .afterAfterBody ∧ ModeCharSim .afterAfterBody :=
  ⟨C02_all_modes _, C02_all_modes_chars _⟩
theorem C02_mode_after_after_frameset : ModeSim .afterAfterFrameset ∧ ModeCharSim .afterAfterFrameset :=
  ⟨C02_all_modes _, C02_all_modes_chars _⟩

/-- the rules for parsing tokens in foreign content -/
theorem C02_foreign : ForeignSim := foreignSim C02_all_modes
theorem C02_foreign_chars : ForeignCharSim := foreignCharSim
/-- the DOCTYPE token in the "initial" insertion mode (html5ever: `process_token`) -/
theorem C02_doctype_initial : DoctypeInitialSim := doctypeInitialSim
/-- the rule functions other modes delegate to, in any state satisfying `MInv` -/
theorem C02_rules_in_body : StepSimTok stepInBody Spec.TreeModes.inBody ∧ StepSimChars stepInBody Spec.TreeModes.inBody :=
  ⟨sim_inBody, simChars_inBody⟩
theorem C02_rules_in_head : StepSimTok stepInHead Spec.TreeModes.inHead ∧ StepSimChars stepInHead Spec.TreeModes.inHead :=
  ⟨sim_inHead0, simChars_inHead⟩
/-- the tree construction dispatcher: `is_foreign(token)` answers `false` exactly when the standard says "process
the token according to the rules of the current insertion mode in HTML content" -/
theorem C02_dispatcher {s : State} (hm : MInv s) (tok : Token) {b : Bool} {s1 : State}
    (hr : (isForeign tok).run s = .ok (b, s1)) (x : Aux) (hx : AuxOk s x) :
    b = !Spec.TreeAlgo.useHtmlRules (Spec.TreeModes.adjustedCurrentNode (cfgOf s) (absF s x)) (skind tok) :=
  isForeign_value hm tok hr x hx.live hx.annot

/-- what the headline says about one successful run `parse_document` of the model (against the specification with
the asserted-impossible case of "in cell" defined, `parseDocumentDev`): `res` the answers to
the tokenizer (newest first), `s'` the final state, `calls` the `TreeSink` calls after `get_document` -/
def DocAgrees (opts : Opts) (toks : List (TokToken × Nat)) (res : List SinkResult) (s' : State) (calls : List Call) : Prop :=
  ∃ ids, ∀ rest, ∃ σ : SState,
    -- with the nodes `ids` the sink handed out (and any further supply `rest`), the specification's run over the
    -- same tokens succeeds for every sufficient amount of reprocessing fuel, …
    (∃ F, ∀ fuel, F ≤ fuel → parseDocumentDev (docCfg opts) fuel (ids ++ rest) (specToks toks) = .ok σ ∧
      -- (the UNMODIFIED specification: the Assert of "in cell" never fails)
      Spec.TreeModes.parseDocument (docCfg opts) fuel (ids ++ rest) (specToks toks) = .ok σ) ∧
    σ.p.supply = rest ∧
    -- … makes the same DOM operations in the same order (text insertions compared character by character) …
    (∀ tc, TcOk s'.dom tc → flatCalls (edits2 calls) = flatCalls (σ.fullLog.map (opCall tc))) ∧
    -- … leaves the document in the same mode, ends in the same insertion mode …
    σ.quirks = dmode s'.quirksMode ∧ σ.mode = imode s'.mode ∧
    -- … and gives the tokenizer the same answers
    res.reverse.filterMap resAnswer = σ.outs.filterMap outAnswer

theorem docAgrees_of_sims (hmode : ∀ m, ModeSim m) (hchar : ∀ m, ModeCharSim m) (hfor : ForeignSim)
    (hforc : ForeignCharSim) (hdt : DoctypeInitialSim) (opts : Opts) (hq : opts.quirksMode = .noQuirks)
    (toks : List (TokToken × Nat)) (hresp : Respects2 (docStart opts) toks) :
    PC (parseRest toks) (docStart opts) (DocAgrees opts toks) := by
  unfold parseRest
  -- the start state satisfies the invariant of the specification's run
  have hinv0 : XInv (docStart opts) := by
    intro x hx _
    refine H5V.Lemmas.ModesInv.Good.plain' (m := .initial) (by show imode (docStart opts).mode = _; rfl) (by decide) ?_ ?_
    · intro n t hm; cases hm
    · intro m hm; cases hm
  refine pc_seq (pc_processTokens hmode hchar hfor hforc hdt toks [] (docStart opts)
    (H5V.Props.C04TB.C04_tb_inv_new opts) (minv_docStart opts) hinv0 hresp) ?_
  rintro res s1 c1 he1 ⟨_, hm1, hc1, hext1, ids, f⟩
  refine pc_seq (PC.of_tot (tot_finishTB s1)) ?_
  rintro _ s2 c2 he2 ⟨hs2, hc2⟩
  refine pc_pure ⟨ids, fun rest => ?_⟩
  obtain ⟨x', os, _, hsup, ⟨ops, e1, k1⟩, ho, hfb, ⟨F, hF⟩, hstd⟩ :=
    f { supply := ids ++ rest } rest (auxOk_docStart opts _) rfl
  obtain ⟨_, F', hF'⟩ := hstd (hinv0 _ (auxOk_docStart opts _))
  have hq2 : s2.quirksMode = s1.quirksMode := by rw [hs2]
  have hm2 : s2.mode = s1.mode := by rw [hs2]
  refine ⟨absF s1 x', ⟨max F F', fun fuel hfu => ⟨?_, ?_⟩⟩, hsup, ?_, by rw [hq2]; rfl, by rw [hm2]; rfl, ?_⟩
  · have := hF fuel (by omega)
    rw [absF_docStart opts hq] at this
    exact this
  · have := hF' fuel (by omega)
    rw [absF_docStart opts hq] at this
    exact this
  · intro tc htc
    have e0 : ({ supply := ids ++ rest } : Aux).fullLog = [] := rfl
    rw [absF_fullLog, e1, e0, List.nil_append, List.append_nil, edits2_append, ← edits2_edits c2, hc2, edits2_nil, List.append_nil]
    exact k1 tc (tcOk_of_ext htc he2.ext)
  · show res.reverse.filterMap resAnswer = x'.outs.filterMap outAnswer
    rw [hfb, ho]
    rfl

/-- the same against the UNMODIFIED specification `Spec.TreeModes.parseDocument`: its run yields the state `σ` the
model agrees with — or stops at the violated Assert of "in cell" (`cellAssertMsg`) -/
def DocAgreesStd (opts : Opts) (toks : List (TokToken × Nat)) (res : List SinkResult) (s' : State) (calls : List Call) : Prop :=
  ∃ ids, ∀ rest, ∃ σ : SState,
    (∃ F, ∀ fuel, F ≤ fuel →
      Spec.TreeModes.parseDocument (docCfg opts) fuel (ids ++ rest) (specToks toks) = .ok σ ∨
      Spec.TreeModes.parseDocument (docCfg opts) fuel (ids ++ rest) (specToks toks) = .error cellAssertMsg) ∧
    σ.p.supply = rest ∧
    (∀ tc, TcOk s'.dom tc → flatCalls (edits2 calls) = flatCalls (σ.fullLog.map (opCall tc))) ∧
    σ.quirks = dmode s'.quirksMode ∧ σ.mode = imode s'.mode ∧
    res.reverse.filterMap resAnswer = σ.outs.filterMap outAnswer

theorem DocAgrees.std {opts : Opts} {toks : List (TokToken × Nat)} {res : List SinkResult} {s' : State} {calls : List Call}
    (h : DocAgrees opts toks res s' calls) : DocAgreesStd opts toks res s' calls := by
  obtain ⟨ids, f⟩ := h
  refine ⟨ids, fun rest => ?_⟩
  obtain ⟨σ, ⟨F, hF⟩, h2⟩ := f rest
  exact ⟨σ, ⟨F, fun fuel hfu => Or.inl (hF fuel hfu).2⟩, h2⟩

/-- whenever the unmodified specification's run succeeds (with enough fuel), it is the run the model agrees with -/
theorem DocAgrees.unique {opts : Opts} {toks : List (TokToken × Nat)} {res : List SinkResult} {s' : State} {calls : List Call}
    (h : DocAgrees opts toks res s' calls) : ∃ ids, ∀ rest, ∃ σ : SState, ∃ F, ∀ fuel, F ≤ fuel →
      parseDocumentDev (docCfg opts) fuel (ids ++ rest) (specToks toks) = .ok σ ∧
      ∀ r, Spec.TreeModes.parseDocument (docCfg opts) fuel (ids ++ rest) (specToks toks) = .ok r → r = σ := by
  obtain ⟨ids, f⟩ := h
  refine ⟨ids, fun rest => ?_⟩
  obtain ⟨σ, ⟨F, hF⟩, _⟩ := f rest
  refine ⟨σ, F, fun fuel hfu => ⟨(hF fuel hfu).1, fun r hr => ?_⟩⟩
  have := parseDocumentDev_of_parseDocument hr
  rw [(hF fuel hfu).1] at this
  exact (Except.ok.inj this).symm

/-- the statement against the specification with the asserted-impossible case of "in cell" defined -/
theorem C02_model_eq_spec_modes_completed (opts : Opts) (hq : opts.quirksMode = .noQuirks)
    (toks : List (TokToken × Nat)) (hresp : Respects2 (docStart opts) toks) :
    ∀ res s', (H5V.Props.C04TB.parseDocument toks).run (State.init opts) = .ok (res, s') →
      ∃ calls, s'.traceRev = calls.reverse ++ [(.getDocument, .node 0)] ∧ DocAgrees opts toks res s' calls := by
  intro res s' hr
  rw [H5V.Props.C04TB.parseDocument_run] at hr
  obtain ⟨calls, he, hd⟩ := docAgrees_of_sims C02_all_modes C02_all_modes_chars C02_foreign foreignCharSim
    doctypeInitialSim opts hq toks hresp res s' hr
  exact ⟨calls, he.trace, hd⟩

/-- **C02, insertion modes (documents)**: for every option set with the default document mode, every token
list that keeps the protocol of the tokenizer (`Respects2`: well-formed tags without duplicate attribute names,
non-empty character tokens without U+0000, in "text" mode only characters / end tags / EOF, nothing after EOF,
`drop_doctype` off, a DOCTYPE in "initial" finds the document in no-quirks mode, a DOCTYPE in "in table text" finds
an HTML element as adjusted current node), every successful run of the model's `parse_document` agrees with the
UNMODIFIED specification `Spec.TreeModes.parseDocument`: same DOM operations in the same order, same document
mode, same final insertion mode, same answers to the tokenizer (`DocAgreesStd`: the specification's run yields
that state, unless it stops at the Assert of "in cell") -/
theorem C02_model_eq_spec_modes (opts : Opts) (hq : opts.quirksMode = .noQuirks)
    (toks : List (TokToken × Nat)) (hresp : Respects2 (docStart opts) toks) :
    ∀ res s', (H5V.Props.C04TB.parseDocument toks).run (State.init opts) = .ok (res, s') →
      ∃ calls, s'.traceRev = calls.reverse ++ [(.getDocument, .node 0)] ∧ DocAgreesStd opts toks res s' calls := by
  intro res s' hr
  obtain ⟨calls, h1, h2⟩ := C02_model_eq_spec_modes_completed opts hq toks hresp res s' hr
  exact ⟨calls, h1, h2.std⟩

/-- the STRICT form of what the headline says: the UNMODIFIED specification's run succeeds (for every sufficient
amount of reprocessing fuel) with a state `σ` that agrees with the model's run -/
def DocAgreesStrict (opts : Opts) (toks : List (TokToken × Nat)) (res : List SinkResult) (s' : State) (calls : List Call) : Prop :=
  ∃ ids, ∀ rest, ∃ σ : SState,
    (∃ F, ∀ fuel, F ≤ fuel → Spec.TreeModes.parseDocument (docCfg opts) fuel (ids ++ rest) (specToks toks) = .ok σ) ∧
    σ.p.supply = rest ∧
    (∀ tc, TcOk s'.dom tc → flatCalls (edits2 calls) = flatCalls (σ.fullLog.map (opCall tc))) ∧
    σ.quirks = dmode s'.quirksMode ∧ σ.mode = imode s'.mode ∧
    res.reverse.filterMap resAnswer = σ.outs.filterMap outAnswer

theorem DocAgrees.strict {opts : Opts} {toks : List (TokToken × Nat)} {res : List SinkResult} {s' : State} {calls : List Call}
    (h : DocAgrees opts toks res s' calls) : DocAgreesStrict opts toks res s' calls := by
  obtain ⟨ids, f⟩ := h
  refine ⟨ids, fun rest => ?_⟩
  obtain ⟨σ, ⟨F, hF⟩, h2⟩ := f rest
  exact ⟨σ, ⟨F, fun fuel hfu => (hF fuel hfu).2⟩, h2⟩

/-- **C02, insertion modes (documents), strict form**: for every option set with the default document mode and every
token list that keeps the protocol of the tokenizer (`Respects2`: well-formed tags without duplicate attribute
names, non-empty character tokens without U+0000, in "text" mode only characters / end tags / EOF, nothing after
EOF, `drop_doctype` off, a DOCTYPE in "initial" finds the document in no-quirks mode), every successful run of the
model's `parse_document` IS the run of the UNMODIFIED specification `Spec.TreeModes.parseDocument`: it succeeds, with
the same DOM operations in the same order, the same document mode, the same final insertion mode, the same answers
to the tokenizer.  No completion of the specification, no proviso about the Assert of "in cell" (it is proved:
the invariant `H5V.Lemmas.ModesInv.Good` of the specification's run, `HtmlTBModesInv*.lean`), no hypothesis about
the adjusted current node. -/
theorem C02_model_eq_spec_modes_strict (opts : Opts) (hq : opts.quirksMode = .noQuirks)
    (toks : List (TokToken × Nat)) (hresp : Respects2 (docStart opts) toks) :
    ∀ res s', (H5V.Props.C04TB.parseDocument toks).run (State.init opts) = .ok (res, s') →
      ∃ calls, s'.traceRev = calls.reverse ++ [(.getDocument, .node 0)] ∧ DocAgreesStrict opts toks res s' calls := by
  intro res s' hr
  obtain ⟨calls, h1, h2⟩ := C02_model_eq_spec_modes_completed opts hq toks hresp res s' hr
  exact ⟨calls, h1, h2.strict⟩

/-- `FragAgrees` against the UNMODIFIED specification `Spec.TreeModes.parseFragment` (`fragmentState`, then the
tokens) -/
def FragAgreesStd (opts : Opts) (d : Dom) (ctx : Id) (form : Option Id) (toks : List (TokToken × Nat))
    (res : List SinkResult) (s' : State) (calls : List Call) : Prop :=
  ∃ ids, ∀ rest, ∃ σ : SState,
    (∃ F, ∀ fuel, F ≤ fuel →
      Spec.TreeModes.parseFragment (fragCfg opts d ctx) fuel (dmode opts.quirksMode) form (ids ++ rest) (specToks toks) = .ok σ ∨
      Spec.TreeModes.parseFragment (fragCfg opts d ctx) fuel (dmode opts.quirksMode) form (ids ++ rest) (specToks toks)
        = .error cellAssertMsg) ∧
    σ.p.supply = rest ∧
    (∀ tc, TcOk s'.dom tc → flatCalls (edits2 calls) = flatCalls (σ.fullLog.map (opCall tc))) ∧
    σ.quirks = dmode s'.quirksMode ∧ σ.mode = imode s'.mode ∧
    res.reverse.filterMap resAnswer = σ.outs.filterMap outAnswer

theorem fragAgrees_std {opts : Opts} {d : Dom} {ctx : Id} {form : Option Id} {toks : List (TokToken × Nat)}
    {res : List SinkResult} {s' : State} {calls : List Call}
    (h : FragAgrees opts d ctx form toks res s' calls) : FragAgreesStd opts d ctx form toks res s' calls := by
  obtain ⟨ids, f⟩ := h
  refine ⟨ids, fun rest => ?_⟩
  obtain ⟨σ, ⟨F, hF⟩, h2⟩ := f rest
  exact ⟨σ, ⟨F, fun fuel hfu => Or.inl (hF fuel hfu).2⟩, h2⟩

/-- the fragment statement against the specification with the asserted-impossible case of "in cell" defined -/
theorem C02_model_eq_spec_modes_fragment_completed (opts : Opts) (d : Dom) (ctx : Id) (form : Option Id)
    (hctx : d.isElement ctx = true)
    (hform : ∀ f, form = some f → d.isElement f = true ∧ nameOf d f = ⟨nsHtml, "form".toList⟩)
    (toks : List (TokToken × Nat))
    (hresp : ∀ s1, (newForFragment ctx form).run (H5V.Props.C04TB.fragInit opts d) = .ok ((), s1) → Respects2 s1 toks) :
    ∀ res s', (H5V.Props.C04TB.parseFragment ctx form toks).run (H5V.Props.C04TB.fragInit opts d) = .ok (res, s') →
      ∃ calls, s'.traceRev = calls.reverse ++ (H5V.Props.C04TB.fragInit opts d).traceRev ∧
        FragAgrees opts d ctx form toks res s' calls := by
  intro res s' hr
  obtain ⟨calls, he, hd⟩ := fragAgrees_of_sims C02_all_modes C02_all_modes_chars C02_foreign foreignCharSim
    doctypeInitialSim opts d ctx form hctx hform toks hresp res s' hr
  exact ⟨calls, he.trace, hd⟩

/-- **C02, insertion modes (fragments)**: the same for the HTML fragment parsing algorithm
(`TreeBuilder::new_for_fragment`, then the tokens, then `end`), for any sink `d`, ANY context element `ctx` of `d`
(HTML `select` included), and a form element pointer that is `none` or an HTML `form` element of `d`; the
specification side is the unmodified `Spec.TreeModes.parseFragment`: `fragmentState` (steps 2, 6–12 of §13.4)
followed by the tokens -/
theorem C02_model_eq_spec_modes_fragment (opts : Opts) (d : Dom) (ctx : Id) (form : Option Id)
    (hctx : d.isElement ctx = true)
    (hform : ∀ f, form = some f → d.isElement f = true ∧ nameOf d f = ⟨nsHtml, "form".toList⟩)
    (toks : List (TokToken × Nat))
    (hresp : ∀ s1, (newForFragment ctx form).run (H5V.Props.C04TB.fragInit opts d) = .ok ((), s1) → Respects2 s1 toks) :
    ∀ res s', (H5V.Props.C04TB.parseFragment ctx form toks).run (H5V.Props.C04TB.fragInit opts d) = .ok (res, s') →
      ∃ calls, s'.traceRev = calls.reverse ++ (H5V.Props.C04TB.fragInit opts d).traceRev ∧
        FragAgreesStd opts d ctx form toks res s' calls := by
  intro res s' hr
  obtain ⟨calls, h1, h2⟩ := C02_model_eq_spec_modes_fragment_completed opts d ctx form hctx hform toks hresp res s' hr
  exact ⟨calls, h1, fragAgrees_std h2⟩

/-- the STRICT form for fragments: the UNMODIFIED `Spec.TreeModes.parseFragment` succeeds with a state that agrees -/
def FragAgreesStrict (opts : Opts) (d : Dom) (ctx : Id) (form : Option Id) (toks : List (TokToken × Nat))
    (res : List SinkResult) (s' : State) (calls : List Call) : Prop :=
  ∃ ids, ∀ rest, ∃ σ : SState,
    (∃ F, ∀ fuel, F ≤ fuel →
      Spec.TreeModes.parseFragment (fragCfg opts d ctx) fuel (dmode opts.quirksMode) form (ids ++ rest) (specToks toks) = .ok σ) ∧
    σ.p.supply = rest ∧
    (∀ tc, TcOk s'.dom tc → flatCalls (edits2 calls) = flatCalls (σ.fullLog.map (opCall tc))) ∧
    σ.quirks = dmode s'.quirksMode ∧ σ.mode = imode s'.mode ∧
    res.reverse.filterMap resAnswer = σ.outs.filterMap outAnswer

theorem fragAgrees_strict {opts : Opts} {d : Dom} {ctx : Id} {form : Option Id} {toks : List (TokToken × Nat)}
    {res : List SinkResult} {s' : State} {calls : List Call}
    (h : FragAgrees opts d ctx form toks res s' calls) : FragAgreesStrict opts d ctx form toks res s' calls := by
  obtain ⟨ids, f⟩ := h
  refine ⟨ids, fun rest => ?_⟩
  obtain ⟨σ, ⟨F, hF⟩, h2⟩ := f rest
  exact ⟨σ, ⟨F, fun fuel hfu => (hF fuel hfu).2⟩, h2⟩

/-- **C02, insertion modes (fragments), strict form**: the same for the HTML fragment parsing algorithm, for any sink
`d`, ANY context element `ctx` of `d`, a form element pointer that is `none` or an HTML `form` element of `d`: the
model's run is the run of the UNMODIFIED `Spec.TreeModes.parseFragment` (`fragmentState`, then the tokens) -/
theorem C02_model_eq_spec_modes_fragment_strict (opts : Opts) (d : Dom) (ctx : Id) (form : Option Id)
    (hctx : d.isElement ctx = true)
    (hform : ∀ f, form = some f → d.isElement f = true ∧ nameOf d f = ⟨nsHtml, "form".toList⟩)
    (toks : List (TokToken × Nat))
    (hresp : ∀ s1, (newForFragment ctx form).run (H5V.Props.C04TB.fragInit opts d) = .ok ((), s1) → Respects2 s1 toks) :
    ∀ res s', (H5V.Props.C04TB.parseFragment ctx form toks).run (H5V.Props.C04TB.fragInit opts d) = .ok (res, s') →
      ∃ calls, s'.traceRev = calls.reverse ++ (H5V.Props.C04TB.fragInit opts d).traceRev ∧
        FragAgreesStrict opts d ctx form toks res s' calls := by
  intro res s' hr
  obtain ⟨calls, h1, h2⟩ := C02_model_eq_spec_modes_fragment_completed opts d ctx form hctx hform toks hresp res s' hr
  exact ⟨calls, h1, fragAgrees_strict h2⟩

/-- **the standard's Assert of "in cell" holds** (documents; the model's run is only used to supply the node
identities): in every run of `parse_document` of the model over protocol-abiding tokens, the specification with the
asserted-impossible case defined and the unmodified specification have the same run -/
theorem C02_cell_assert_never_fails (opts : Opts) (hq : opts.quirksMode = .noQuirks)
    (toks : List (TokToken × Nat)) (hresp : Respects2 (docStart opts) toks) :
    ∀ res s', (H5V.Props.C04TB.parseDocument toks).run (State.init opts) = .ok (res, s') →
      ∃ ids, ∀ rest, ∃ F, ∀ fuel, F ≤ fuel →
        Spec.TreeModes.parseDocument (docCfg opts) fuel (ids ++ rest) (specToks toks)
          = parseDocumentDev (docCfg opts) fuel (ids ++ rest) (specToks toks) := by
  intro res s' hr
  obtain ⟨calls, _, ids, f⟩ := C02_model_eq_spec_modes_completed opts hq toks hresp res s' hr
  refine ⟨ids, fun rest => ?_⟩
  obtain ⟨σ, ⟨F, hF⟩, _⟩ := f rest
  exact ⟨F, fun fuel hfu => by rw [(hF fuel hfu).1, (hF fuel hfu).2]⟩

/-! ## a decidable form of the protocol hypothesis `Respects2` -/

def tagWfB (t : Tag) : Bool :=
  t.attrs.all (fun a => a.name == plainName a.name.loc) &&
  t.name.all (fun c => !(decide ('A' ≤ c) && decide (c ≤ 'Z'))) &&
  decide ((t.attrs.map (·.name.loc)).Nodup) &&
  t.attrs.all (fun a => a.name.loc != "shadowrootmode".toList)

theorem tagWf_of_B {t : Tag} (h : tagWfB t = true) : TagWf t := by
  simp only [tagWfB, Bool.and_eq_true, List.all_eq_true, decide_eq_true_eq] at h
  obtain ⟨⟨⟨h1, h2⟩, h3⟩, h4⟩ := h
  refine ⟨fun a ha => by simpa [H5V.Lemmas.HtmlTBSpec.Plain] using h1 a ha, fun c hc hcc => ?_, h3, fun a ha => by simpa using h4 a ha⟩
  have := h2 c hc
  simp [hcc.1, hcc.2] at this

def tokTokOkB (s : State) : TokToken → Bool
  | .tag t => tagWfB t && (s.mode != .text || t.kind == .endTag)
  | .chars x => !x.isEmpty && !x.contains '\x00'
  | .eof => true
  | .parseError _ => true
  | .comment _ => s.mode != .text
  | .nullChar => s.mode != .text
  | .doctype _ => s.mode != .text && !s.opts.dropDoctype && (s.mode != .initial || s.quirksMode == .noQuirks)

theorem tokTokOk_of_B {s : State} {t : TokToken} (h : tokTokOkB s t = true) : TokTokOk s t := by
  cases t with
  | tag tg =>
    simp only [tokTokOkB, Bool.and_eq_true, Bool.or_eq_true, bne_iff_ne, ne_eq, beq_iff_eq] at h
    constructor
    · intro t' e; cases e; exact tagWf_of_B h.1
    · intro x e; cases e
    · intro hm
      rcases h.2 with h2 | h2
      · exact absurd hm h2
      · exact Or.inr (Or.inr (Or.inl ⟨tg, rfl, h2⟩))
    · intro d e; cases e
  | chars x =>
    simp only [tokTokOkB, Bool.and_eq_true, Bool.not_eq_true', List.isEmpty_eq_false_iff] at h
    constructor
    · intro t' e; cases e
    · intro y e; cases e; exact ⟨h.1, by simpa using h.2⟩
    · intro _; exact Or.inl ⟨x, rfl⟩
    · intro d e; cases e
  | eof =>
    constructor
    · intro t' e; cases e
    · intro y e; cases e
    · intro _; exact Or.inr (Or.inl rfl)
    · intro d e; cases e
  | parseError m =>
    constructor
    · intro t' e; cases e
    · intro y e; cases e
    · intro _; exact Or.inr (Or.inr (Or.inr ⟨m, rfl⟩))
    · intro d e; cases e
  | comment c =>
    simp only [tokTokOkB, bne_iff_ne, ne_eq] at h
    constructor
    · intro t' e; cases e
    · intro y e; cases e
    · intro hm; exact absurd hm h
    · intro d e; cases e
  | nullChar =>
    simp only [tokTokOkB, bne_iff_ne, ne_eq] at h
    constructor
    · intro t' e; cases e
    · intro y e; cases e
    · intro hm; exact absurd hm h
    · intro d e; cases e
  | doctype d =>
    simp only [tokTokOkB, Bool.and_eq_true, bne_iff_ne, ne_eq, Bool.not_eq_true', Bool.or_eq_true, beq_iff_eq] at h
    constructor
    · intro t' e; cases e
    · intro y e; cases e
    · intro hm; exact absurd hm h.1.1
    · intro d' _
      refine ⟨h.1.2, fun hi => ?_⟩
      rcases h.2 with h2 | h2
      · exact absurd hi h2
      · exact h2

def respects2B : State → List (TokToken × Nat) → Bool
  | _, [] => true
  | s, (t, line) :: rest =>
    tokTokOkB s t && (t != .eof || rest.isEmpty) &&
    match (processToken t line).run s with
    | .ok (_, s') => respects2B s' rest
    | .error _ => true

theorem respects2_of_B : ∀ (toks : List (TokToken × Nat)) (s : State), respects2B s toks = true → Respects2 s toks := by
  intro toks
  induction toks with
  | nil => intro s _; trivial
  | cons tk rest ih =>
    intro s h
    obtain ⟨t, line⟩ := tk
    simp only [respects2B, Bool.and_eq_true, Bool.or_eq_true, bne_iff_ne, ne_eq, List.isEmpty_iff] at h
    refine ⟨tokTokOk_of_B h.1.1, fun he => ?_, fun r s' hr => ?_⟩
    · rcases h.1.2 with h2 | h2
      · exact absurd he h2
      · exact h2
    · have h3 := h.2
      rw [hr] at h3
      exact ih s' h3

/-! ## non-vacuity: a concrete run -/
namespace Ex

def stt (n : String) : TokToken × Nat := (.tag { kind := .startTag, name := n.toList }, 1)
def ett (n : String) : TokToken × Nat := (.tag { kind := .endTag, name := n.toList }, 1)
def cht (s : String) : TokToken × Nat := (.chars s.toList, 1)

/-- `<!DOCTYPE html><p>x<b></p>y<table> z<td><!--c--></table><svg><title>t</svg>` EOF -/
def exToks : List (TokToken × Nat) :=
  [(.doctype { name := some "html".toList }, 1), stt "p", cht "x", stt "b", ett "p", cht "y", stt "table", cht " z",
   stt "td", (.comment "c".toList, 1), ett "table", stt "svg", stt "title", cht "t", ett "svg", (.eof, 1)]

/-- the protocol hypothesis of the headline holds for it … -/
theorem exToks_respects : Respects2 (docStart {}) exToks := respects2_of_B _ _ (by decide +kernel)

/-- … the model's run succeeds … -/
example : ((H5V.Props.C04TB.parseDocument exToks).run (State.init {})).toBool = true := by decide +kernel

/-- … so the conclusion of the headline holds for this run -/
example : ∀ res s', (H5V.Props.C04TB.parseDocument exToks).run (State.init {}) = .ok (res, s') →
    ∃ calls, s'.traceRev = calls.reverse ++ [(.getDocument, .node 0)] ∧ DocAgreesStd {} exToks res s' calls :=
  C02_model_eq_spec_modes {} rfl exToks exToks_respects

/-- … and the strict one: the run of the UNMODIFIED specification -/
example : ∀ res s', (H5V.Props.C04TB.parseDocument exToks).run (State.init {}) = .ok (res, s') →
    ∃ calls, s'.traceRev = calls.reverse ++ [(.getDocument, .node 0)] ∧ DocAgreesStrict {} exToks res s' calls :=
  C02_model_eq_spec_modes_strict {} rfl exToks exToks_respects

end Ex

/-- a decidable form of the protocol hypothesis of the fragment headline -/
def respects2FragB (opts : Opts) (d : Dom) (ctx : Id) (form : Option Id) (toks : List (TokToken × Nat)) : Bool :=
  match (newForFragment ctx form).run (H5V.Props.C04TB.fragInit opts d) with
  | .ok (_, s1) => respects2B s1 toks
  | .error _ => true

theorem respects2_frag_of_B {opts : Opts} {d : Dom} {ctx : Id} {form : Option Id} {toks : List (TokToken × Nat)}
    (h : respects2FragB opts d ctx form toks = true) :
    ∀ s1, (newForFragment ctx form).run (H5V.Props.C04TB.fragInit opts d) = .ok ((), s1) → Respects2 s1 toks := by
  intro s1 hr
  unfold respects2FragB at h
  rw [hr] at h
  exact respects2_of_B _ _ h

/-! ## regression witnesses: the four former deviations of html5ever (A–D)

For each of the four inputs on which html5ever used to deviate from the standard: (1) the unmodified specification
runs to the end on it (and does what the standard says); (2) the protocol hypothesis holds and the model's run
succeeds, so by the headline the model's DOM calls are those of the unmodified specification. -/
namespace Witness
open H5V.Spec H5V.Spec.TreeModes H5V.Spec.TreeModes.Examples
open Ex (stt ett cht)

/-- the specification with the asserted-impossible case of "in cell" defined, on a document -/
def docDev (toks : List Spec.TreeModes.Token) : Spec.TreeModes.M (Spec.TreeModes.State Nat) :=
  parseDocumentDev (cfg .customizableSelect) 50 (List.range' 1 60) toks

/-- a fragment parse of the unmodified specification with the context element `ns:name` (node 100) -/
def fragCtx (ns name : String) (toks : List Spec.TreeModes.Token) : Spec.TreeModes.M (Spec.TreeModes.State Nat) :=
  parseFragment { cfg .customizableSelect with context := some ⟨100, ⟨ns.toList, name.toList⟩⟩ } 50 .noQuirks none
    (List.range' 1 60) toks

/-- A: `<table>`, `" "`, `<!DOCTYPE html>`, `"x"`, `</table>` -/
def wA : List Spec.TreeModes.Token := [st "table", ch " ", doctypeHtml, ch "x", et "table"]
/-- B: `<template>`, `<tr>`, `<b>`, `</tr>`, `" "`, EOF -/
def wB : List Spec.TreeModes.Token := [st "template", st "tr", st "b", et "tr", ch " ", .eof]
/-- C (fragment, SVG `svg` context): `<p>`, `<b>`, `</p>`, `<g>`, `</b>`, `<i>` -/
def wC : List Spec.TreeModes.Token := [st "p", st "b", et "p", st "g", et "b", st "i"]
/-- D (fragment, HTML `select` context): `<input>`, `"x"` -/
def wD : List Spec.TreeModes.Token := [st "input", ch "x"]

/-- the same token lists as the tokenizer of the model delivers them -/
def mA : List (TokToken × Nat) :=
  [stt "table", cht " ", (.doctype { name := some "html".toList }, 1), cht "x", ett "table"]
def mB : List (TokToken × Nat) := [stt "template", stt "tr", stt "b", ett "tr", cht " ", (.eof, 1)]
def mC : List (TokToken × Nat) := [stt "p", stt "b", ett "p", stt "g", ett "b", stt "i"]
def mD : List (TokToken × Nat) := [stt "input", cht "x"]

example : specToks mA = wA ∧ specToks mB = wB ∧ specToks mC = wC ∧ specToks mD = wD := by decide +kernel

/-- sinks that already hold the context element (id 1) -/
def svgDom : Dom := (Dom.new.createElement { ns := nsSvg, loc := "svg".toList } [] {}).1
def selDom : Dom := (Dom.new.createElement { ns := nsHtml, loc := "select".toList } [] {}).1

-- (1) the unmodified specification runs to the end on the four inputs …
example : (doc wA).toBool = true ∧ (doc wB).toBool = true ∧
    (fragCtx "http://www.w3.org/2000/svg" "svg" wC).toBool = true ∧
    (fragCtx "http://www.w3.org/1999/xhtml" "select" wD).toBool = true := by decide +kernel
-- … with the number of DOM operations the standard prescribes (A: `" "` goes into the table, `"x"` is
-- foster-parented; B: no second `b`; C: no `b` reconstructed around the `i`; D: the `input` is ignored, only "x")
example : (logOf (doc wA)).length = 11 ∧ (logOf (doc wB)).length = 14 ∧
    (logOf (fragCtx "http://www.w3.org/2000/svg" "svg" wC)).length = 10 := by decide +kernel
-- … and the completed specification coincides with it there
example : logOf (doc wA) = logOf (docDev wA) ∧ logOf (doc wB) = logOf (docDev wB) := by decide +kernel

-- (2) the model: protocol hypothesis, successful run, hence agreement with the unmodified specification
theorem mA_respects : Respects2 (docStart {}) mA := respects2_of_B _ _ (by decide +kernel)
theorem mB_respects : Respects2 (docStart {}) mB := respects2_of_B _ _ (by decide +kernel)
example : ((H5V.Props.C04TB.parseDocument mA).run (State.init {})).toBool = true := by decide +kernel
example : ((H5V.Props.C04TB.parseDocument mB).run (State.init {})).toBool = true := by decide +kernel

/-- A: the fixed `process_token` (DOCTYPE in "in table text") agrees with the unmodified standard -/
example : ∀ res s', (H5V.Props.C04TB.parseDocument mA).run (State.init {}) = .ok (res, s') →
    ∃ calls, s'.traceRev = calls.reverse ++ [(.getDocument, .node 0)] ∧ DocAgreesStd {} mA res s' calls :=
  C02_model_eq_spec_modes {} rfl mA mA_respects
/-- B: the fixed `tableOuterChars` (with `template`) agrees with the unmodified standard -/
example : ∀ res s', (H5V.Props.C04TB.parseDocument mB).run (State.init {}) = .ok (res, s') →
    ∃ calls, s'.traceRev = calls.reverse ++ [(.getDocument, .node 0)] ∧ DocAgreesStd {} mB res s' calls :=
  C02_model_eq_spec_modes {} rfl mB mB_respects

example : ((H5V.Props.C04TB.parseFragment 1 none mC).run (H5V.Props.C04TB.fragInit {} svgDom)).toBool = true := by
  decide +kernel
example : ((H5V.Props.C04TB.parseFragment 1 none mD).run (H5V.Props.C04TB.fragInit {} selDom)).toBool = true := by
  decide +kernel

/-- C: the fixed `foreign_end_tag` loop (fragment case) agrees with the unmodified standard -/
example : ∀ res s', (H5V.Props.C04TB.parseFragment 1 none mC).run (H5V.Props.C04TB.fragInit {} svgDom) = .ok (res, s') →
    ∃ calls, s'.traceRev = calls.reverse ++ (H5V.Props.C04TB.fragInit {} svgDom).traceRev ∧
      FragAgreesStd {} svgDom 1 none mC res s' calls :=
  C02_model_eq_spec_modes_fragment {} svgDom 1 none (by decide +kernel) (fun _ h => by cases h) mC
    (respects2_frag_of_B (by decide +kernel))
/-- D: the fixed `<input>` rule with a `select` context element agrees with the unmodified standard -/
example : ∀ res s', (H5V.Props.C04TB.parseFragment 1 none mD).run (H5V.Props.C04TB.fragInit {} selDom) = .ok (res, s') →
    ∃ calls, s'.traceRev = calls.reverse ++ (H5V.Props.C04TB.fragInit {} selDom).traceRev ∧
      FragAgreesStd {} selDom 1 none mD res s' calls :=
  C02_model_eq_spec_modes_fragment {} selDom 1 none (by decide +kernel) (fun _ h => by cases h) mD
    (respects2_frag_of_B (by decide +kernel))

/-- the strict headlines on the four inputs -/
example : ∀ res s', (H5V.Props.C04TB.parseDocument mA).run (State.init {}) = .ok (res, s') →
    ∃ calls, s'.traceRev = calls.reverse ++ [(.getDocument, .node 0)] ∧ DocAgreesStrict {} mA res s' calls :=
  C02_model_eq_spec_modes_strict {} rfl mA mA_respects
example : ∀ res s', (H5V.Props.C04TB.parseDocument mB).run (State.init {}) = .ok (res, s') →
    ∃ calls, s'.traceRev = calls.reverse ++ [(.getDocument, .node 0)] ∧ DocAgreesStrict {} mB res s' calls :=
  C02_model_eq_spec_modes_strict {} rfl mB mB_respects
example : ∀ res s', (H5V.Props.C04TB.parseFragment 1 none mC).run (H5V.Props.C04TB.fragInit {} svgDom) = .ok (res, s') →
    ∃ calls, s'.traceRev = calls.reverse ++ (H5V.Props.C04TB.fragInit {} svgDom).traceRev ∧
      FragAgreesStrict {} svgDom 1 none mC res s' calls :=
  C02_model_eq_spec_modes_fragment_strict {} svgDom 1 none (by decide +kernel) (fun _ h => by cases h) mC
    (respects2_frag_of_B (by decide +kernel))
example : ∀ res s', (H5V.Props.C04TB.parseFragment 1 none mD).run (H5V.Props.C04TB.fragInit {} selDom) = .ok (res, s') →
    ∃ calls, s'.traceRev = calls.reverse ++ (H5V.Props.C04TB.fragInit {} selDom).traceRev ∧
      FragAgreesStrict {} selDom 1 none mD res s' calls :=
  C02_model_eq_spec_modes_fragment_strict {} selDom 1 none (by decide +kernel) (fun _ h => by cases h) mD
    (respects2_frag_of_B (by decide +kernel))

/-- the configuration the fragment headline uses for `svgDom` / `selDom` is the one of `fragCtx` above (up to the
node id of the context element) -/
example : (fragCfg {} svgDom 1).context = some ⟨1, ⟨Spec.TreeAlgo.nsSvg, "svg".toList⟩⟩ ∧
    (fragCfg {} selDom 1).context = some ⟨1, ⟨Spec.TreeAlgo.nsHtml, "select".toList⟩⟩ := by decide +kernel

end Witness

end H5V.Props.C02

#print axioms H5V.Props.C02.C02_model_eq_spec_modes
#print axioms H5V.Props.C02.C02_model_eq_spec_modes_fragment
#print axioms H5V.Props.C02.C02_model_eq_spec_modes_completed
#print axioms H5V.Props.C02.C02_model_eq_spec_modes_fragment_completed
#print axioms H5V.Props.C02.DocAgrees.unique
#print axioms H5V.Props.C02.C02_model_eq_spec_modes_strict
#print axioms H5V.Props.C02.C02_model_eq_spec_modes_fragment_strict
#print axioms H5V.Props.C02.C02_cell_assert_never_fails
#print axioms H5V.Props.C02.C02_all_modes
#print axioms H5V.Props.C02.C02_all_modes_chars
#print axioms H5V.Props.C02.C02_foreign
#print axioms H5V.Props.C02.C02_foreign_chars
#print axioms H5V.Props.C02.C02_doctype_initial
#print axioms H5V.Props.C02.C02_rules_in_body
#print axioms H5V.Props.C02.C02_rules_in_head
#print axioms H5V.Props.C02.C02_dispatcher
#print axioms H5V.Props.C02.Ex.exToks_respects
