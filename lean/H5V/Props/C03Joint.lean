import H5V.Lemmas.HtmlJointChunkReplay
/-!
C03 for the **joint model**: the tokenizer model with the tree-builder model as its sink
(`H5V.Model.HtmlTB.Joint`: `JState`, `absorb`, `polOf`, `run`, `feed`, `processChunk`, `finish` — the
composition of driver.rs) is independent of how the input is chunked.

* `parseChunks o N m0 j0 chunks` — `Parser::process` for every chunk (`loop_until_done` with fuel `N`), then
  `Parser::finish` (`loop_until_done`, `assert!(input.is_empty())`, `Tokenizer::end`, `TreeBuilder::end`);
  literally what `HtmlTBDriver.runTxt` runs.
* `C03_joint_chunk_independence` — **if the chunked joint parse succeeds with joint state `jf`, the
  one-piece parse of the concatenation succeeds with the SAME joint state `jf`**: the same tree-builder
  state (DOM arena, quirks mode, parse-error log, even the trace of sink calls), the same pause answers
  `results`, the same token and EOF counters.  For every tokenizer start state / BOM flag / `exact_errors`
  (`Start`), every tree-builder state `j0` (document or fragment, every option set), every partition into
  chunks (empty chunks included), every `loop_until_done` budget.
  Method: the per-step lemmas of the tokenizer proof (`step_mono`, `step_resume`, `step_sim`, `step_good`)
  hold for every sink policy, hence for `polOf j` of the *current* joint state; the two runs make the same
  non-suspending steps with the same outputs, so they pass through the same joint states; a suspending
  step — the only kind whose boundaries depend on the chunking — has delivered nothing
  (`step_suspend_out`), so the resumed step sees the same policy.  (The alternative route through a
  history policy `pol_tb` over the accumulated `out` needs a naturality property of `step` in the `out`
  register — a traversal of the whole transition table — and is not needed for the result.)
* `C03_joint_tree_end_to_end` — the joint result is the tree builder fed the delivered token stream
  (`Replays`), and by `C03_tree_resplit` **every re-splitting of that stream's character tokens** (any
  run boundaries the real tokenizer may choose) gives the same observable result `Obs`.
* non-vacuity (`decide +kernel`): a document with `<title>`, `<script>` and `<table>` text, fed in one
  piece and cut inside the title text, inside `</script>`, and inside the table text.
-/
namespace H5V.Props.C03
open H5V.Model.HtmlTok (Mach clr step fuelFor feedBom TInv)
open H5V.Model.HtmlTB.Joint (JState absorb polOf RunRes)
open H5V.Lemmas.JointChunk

/-! ## the driver -/

/-- `Parser::process` for each chunk in turn -/
def feedChunks (o : TOpts) (N : Nat) : List Chars → Mach → Chars → JState → Except String (Mach × Chars × JState)
  | [], m, inp, j => .ok (m, inp, j)
  | c :: cs, m, inp, j =>
    match jprocessChunk o N m inp c j with
    | .ok (m', i', j') => feedChunks o N cs m' i' j'
    | .error e => .error e

/-- the chunks, then `Parser::finish` -/
def parseChunks (o : TOpts) (N : Nat) (m0 : Mach) (j0 : JState) (chunks : List Chars) : Except String JState :=
  match feedChunks o N chunks m0 [] j0 with
  | .error e => .error e
  | .ok (m, inp, j) =>
    match jprocessChunk o N m inp [] j with
    | .error e => .error e
    | .ok (m, inp, j) =>
      if !inp.isEmpty then .error "assert@driver.rs:132"
      else H5V.Model.HtmlTB.Joint.finish o m j

/-- the same as the `foldlM` of `HtmlTBDriver.runTxt` -/
theorem feedChunks_eq_foldlM (o : TOpts) (N : Nat) : ∀ (cs : List Chars) (m : Mach) (inp : Chars) (j : JState),
    feedChunks o N cs m inp j =
      cs.foldlM (fun (acc : Mach × Chars × JState) ch => jprocessChunk o N acc.1 acc.2.1 ch acc.2.2) (m, inp, j)
  | [], _, _, _ => rfl
  | c :: cs, m, inp, j => by
    simp only [feedChunks, List.foldlM_cons]
    cases h : jprocessChunk o N m inp c j with
    | error e => rfl
    | ok v =>
      obtain ⟨m', i', j'⟩ := v
      exact feedChunks_eq_foldlM o N cs m' i' j'

/-- what a tokenizer must satisfy at the start of a parse (true of every `Tokenizer::new`) -/
structure Start (m : Mach) : Prop where
  tinv : TInv m
  good : TGood m
  atEof : m.atEof = false
  out : m.out = []

/-- a tokenizer as created by `Tokenizer::new`: any start state, any last start tag, any BOM flag -/
theorem start_fresh (st : H5V.Model.HtmlTok.State) (last : Option Chars) (bom : Bool) :
    Start { state := st, lastStartTag := last, discardBom := bom } :=
  ⟨H5V.Model.HtmlTok.tinv_fresh _ rfl rfl rfl, (good_initial st last bom).1, rfl, rfl⟩

/-! ## the BOM prologue -/

theorem feedBom_append (m : Mach) {a : Chars} (ha : a ≠ []) (b : Chars) :
    feedBom m (a ++ b) = ((feedBom m a).1, (feedBom m a).2 ++ b) := by
  obtain ⟨x, xs, rfl⟩ := List.exists_cons_of_ne_nil ha
  unfold feedBom
  simp only [List.cons_append]
  split
  · split <;> rfl
  · rfl

theorem feedBom_fst (m : Mach) (c : Chars) : (feedBom m c).1 = m ∨ (feedBom m c).1 = m.setDiscardBom false := by
  unfold feedBom
  cases c with
  | nil => exact Or.inl rfl
  | cons x xs =>
    cases hb : m.discardBom with
    | false => simp
    | true => simp

theorem jinv_feedBom {m : Mach} (hs : Start m) {c : Chars} (hc : c ≠ []) : JInv (feedBom m c).1 := by
  refine ⟨H5V.Model.HtmlTok.feedBom_tinv m c hs.tinv, ?_, ?_, ?_, H5V.Model.HtmlTok.feedBom_discardBom m c hc⟩
  · rcases feedBom_fst m c with h | h <;> rw [h]
    · exact hs.good
    · exact H5V.Model.HtmlTok.Good.of_fields hs.good rfl rfl id id
  · rcases feedBom_fst m c with h | h <;> rw [h] <;> exact hs.atEof
  · rcases feedBom_fst m c with h | h <;> rw [h] <;> exact hs.out

/-! ## soundness of the chunk loop -/

theorem isEmpty_false {c : Chars} (hc : c ≠ []) : c.isEmpty = false := by
  cases c with
  | nil => exact (hc rfl).elim
  | cons _ _ => rfl

/-- after the BOM flag is gone: a chunked feed is a `JSession` -/
theorem feedChunks_session (o : TOpts) (N : Nat) : ∀ (cs : List Chars) (m : Mach) (j : JState) (m' : Mach) (i' : Chars)
    (j' : JState), JInv m → feedChunks o N cs m [] j = .ok (m', i', j') → i' = [] ∧ JSession o m cs j m' j'
  | [], m, j, m', i', j', _, h => by cases h; exact ⟨rfl, JSession.nil⟩
  | c :: cs, m, j, m', i', j', hi, h => by
    simp only [feedChunks] at h
    cases hp : jprocessChunk o N m [] c j with
    | error e => rw [hp] at h; cases h
    | ok v =>
      obtain ⟨m1, i1, j1⟩ := v
      rw [hp] at h
      simp only at h
      cases N with
      | zero => rw [processChunk_zero] at hp; cases hp
      | succ N' =>
        rw [processChunk_succ, List.nil_append] at hp
        by_cases hc : c = []
        · subst hc
          simp only [List.isEmpty_nil, if_true, Except.ok.injEq, Prod.mk.injEq] at hp
          obtain ⟨rfl, rfl, rfl⟩ := hp
          obtain ⟨h1, h2⟩ := feedChunks_session o (N' + 1) cs m j m' i' j' hi h
          exact ⟨h1, JSession.skip h2⟩
        · simp only [isEmpty_false hc, Bool.false_eq_true, if_false, feedBom_of_inv hi] at hp
          obtain ⟨hnil, hr⟩ := afterRun_sound o N' _ m c j m1 i1 j1 hi hp
          subst hnil
          obtain ⟨h1, h2⟩ := feedChunks_session o (N' + 1) cs m1 j1 m' i' j' (jrunsTo_inv hr hi) h
          exact ⟨h1, JSession.cons hc hr h2⟩

/-- **what a chunked feed computes**, BOM prologue included: nothing if all chunks are empty, otherwise
(up to a dead `current_char`) the one-piece joint run on the concatenation after its BOM prologue -/
theorem feedChunks_flatten (o : TOpts) (N : Nat) : ∀ (cs : List Chars) (m : Mach) (j : JState) (m' : Mach) (i' : Chars)
    (j' : JState), Start m → feedChunks o N cs m [] j = .ok (m', i', j') →
    (cs.flatten = [] ∧ m' = m ∧ i' = [] ∧ j' = j) ∨
    (cs.flatten ≠ [] ∧ i' = [] ∧ ∃ mf', JRunsTo o (feedBom m cs.flatten).1 (feedBom m cs.flatten).2 j mf' j' ∧
      H5V.Model.HtmlTok.Sim mf' m')
  | [], m, j, m', i', j', _, h => by cases h; exact Or.inl ⟨rfl, rfl, rfl, rfl⟩
  | c :: cs, m, j, m', i', j', hs, h => by
    simp only [feedChunks] at h
    cases hp : jprocessChunk o N m [] c j with
    | error e => rw [hp] at h; cases h
    | ok v =>
      obtain ⟨m1, i1, j1⟩ := v
      rw [hp] at h
      simp only at h
      cases N with
      | zero => rw [processChunk_zero] at hp; cases hp
      | succ N' =>
        rw [processChunk_succ, List.nil_append] at hp
        by_cases hc : c = []
        · subst hc
          simp only [List.isEmpty_nil, if_true, Except.ok.injEq, Prod.mk.injEq] at hp
          obtain ⟨rfl, rfl, rfl⟩ := hp
          simpa using feedChunks_flatten o (N' + 1) cs m j m' i' j' hs h
        · simp only [isEmpty_false hc, Bool.false_eq_true, if_false] at hp
          have hib := jinv_feedBom hs hc
          obtain ⟨hnil, hr⟩ := afterRun_sound o N' _ _ _ j m1 i1 j1 hib hp
          subst hnil
          obtain ⟨hi', hsess⟩ := feedChunks_session o (N' + 1) cs m1 j1 m' i' j' (jrunsTo_inv hr hib) h
          right
          have hfl : (c :: cs).flatten = c ++ cs.flatten := by simp
          rw [hfl, feedBom_append m hc]
          refine ⟨by simp [hc], hi', ?_⟩
          rcases jsession_flatten hsess (jrunsTo_inv hr hib) with ⟨hnil, hmf, hjf⟩ | ⟨hne2, mf', hr', hsim⟩
          · subst hmf; subst hjf
            rw [hnil, List.append_nil]
            exact ⟨_, hr, H5V.Model.HtmlTok.Sim.refl _⟩
          · obtain ⟨m2', hr2, hsim2⟩ := jrunsTo_chunk hr hib cs.flatten mf' j' hne2 hr'
            exact ⟨m2', hr2, H5V.Model.HtmlTok.Sim.trans hsim2 hsim⟩

/-! ## the theorem -/

/-- **C03, joint model: chunk independence.**  If feeding the chunks one after the other and then
`finish` succeeds with joint state `jf`, then feeding their concatenation in one piece and then `finish`
succeeds — with any sufficiently large `loop_until_done` budget — with the same joint state `jf`. -/
theorem C03_joint_chunk_independence (o : TOpts) (N : Nat) (m0 : Mach) (j0 : JState) (chunks : List Chars)
    (jf : JState) (hs : Start m0) (h : parseChunks o N m0 j0 chunks = .ok jf) :
    ∃ N0, ∀ N', N0 ≤ N' → parseChunks o N' m0 j0 [chunks.flatten] = .ok jf := by
  unfold parseChunks at h
  cases hf : feedChunks o N chunks m0 [] j0 with
  | error e => rw [hf] at h; cases h
  | ok v =>
    obtain ⟨m1, i1, j1⟩ := v
    rw [hf] at h
    simp only at h
    -- the chunked run used a positive budget
    have hN : 0 < N := by
      cases N with
      | zero =>
        cases hp : jprocessChunk o 0 m1 i1 [] j1 with
        | error e => rw [hp] at h; cases h
        | ok w => rw [processChunk_zero] at hp; cases hp
      | succ _ => omega
    rcases feedChunks_flatten o N chunks m0 j0 m1 i1 j1 hs hf with ⟨hnil, rfl, rfl, rfl⟩ | ⟨hne, rfl, mf', hr, hsim⟩
    · -- nothing was fed at all
      refine ⟨N, fun N' hN' => ?_⟩
      obtain ⟨K, rfl⟩ : ∃ K, N = K + 1 := ⟨N - 1, by omega⟩
      obtain ⟨K', rfl⟩ : ∃ K', N' = K' + 1 := ⟨N' - 1, by omega⟩
      rw [processChunk_succ] at h
      simp only [List.append_nil, List.isEmpty_nil, if_true] at h
      unfold parseChunks
      rw [hnil]
      simp only [feedChunks]
      rw [processChunk_succ]
      simp only [List.append_nil, List.isEmpty_nil, if_true]
      rw [processChunk_succ]
      simp only [List.append_nil, List.isEmpty_nil, if_true]
      exact h
    · -- the final `loop_until_done` of the chunked run found nothing to do
      obtain ⟨K, rfl⟩ : ∃ K, N = K + 1 := ⟨N - 1, by omega⟩
      rw [processChunk_succ] at h
      simp only [List.append_nil, List.isEmpty_nil, if_true, Bool.not_true, Bool.false_eq_true, if_false] at h
      -- the one-piece run
      have hib := jinv_feedBom hs hne
      obtain ⟨N0, hN0⟩ := afterRun_complete hr hib _ (H5V.Model.HtmlTok.mu_lt_fuelFor _ _)
      refine ⟨N0 + 1, fun N' hN' => ?_⟩
      obtain ⟨K', rfl⟩ : ∃ K', N' = K' + 1 := ⟨N' - 1, by omega⟩
      unfold parseChunks
      simp only [feedChunks]
      rw [processChunk_succ, List.nil_append]
      simp only [isEmpty_false hne, Bool.false_eq_true, if_false]
      rw [hN0 K' (by omega)]
      simp only
      rw [processChunk_succ]
      simp only [List.append_nil, List.isEmpty_nil, if_true, Bool.not_true, Bool.false_eq_true, if_false]
      rw [finish_sim o hsim]
      exact h

/-- documents and fragments alike: a fresh tokenizer in any state (`tokenizer_state_for_context_elem`),
any tree-builder state whatever its options, context element, … -/
theorem C03_joint_chunk_independence_fresh (o : TOpts) (N : Nat) (st : H5V.Model.HtmlTok.State) (last : Option Chars)
    (bom : Bool) (tb : H5V.Model.HtmlTB.State) (chunks : List Chars) (jf : JState)
    (h : parseChunks o N { state := st, lastStartTag := last, discardBom := bom } { tb := tb } chunks = .ok jf) :
    ∃ N0, ∀ N', N0 ≤ N' →
      parseChunks o N' { state := st, lastStartTag := last, discardBom := bom } { tb := tb } [chunks.flatten] = .ok jf :=
  C03_joint_chunk_independence o N _ _ chunks jf (start_fresh st last bom) h

/-- in particular the DOM, the quirks mode and the pause answers agree -/
theorem C03_joint_chunk_obs (o : TOpts) (N : Nat) (m0 : Mach) (j0 : JState) (chunks : List Chars) (jf : JState)
    (hs : Start m0) (h : parseChunks o N m0 j0 chunks = .ok jf) :
    ∃ N' jf', parseChunks o N' m0 j0 [chunks.flatten] = .ok jf' ∧ jf'.tb.dom = jf.tb.dom ∧ jf'.results = jf.results := by
  obtain ⟨N0, h0⟩ := C03_joint_chunk_independence o N m0 j0 chunks jf hs h
  exact ⟨N0, jf, h0 N0 (Nat.le_refl _), rfl, rfl⟩

/-! ## end to end: the joint parse against any re-splitting of its token stream -/

theorem feedChunks_replays (o : TOpts) (N : Nat) : ∀ (cs : List Chars) (m : Mach) (inp : Chars) (j : JState) (m' : Mach)
    (i' : Chars) (j' : JState), feedChunks o N cs m inp j = .ok (m', i', j') → Replays j j'
  | [], _, _, j, _, _, _, h => by cases h; exact Replays.refl j
  | c :: cs, m, inp, j, m', i', j', h => by
    simp only [feedChunks] at h
    cases hp : jprocessChunk o N m inp c j with
    | error e => rw [hp] at h; cases h
    | ok v =>
      obtain ⟨m1, i1, j1⟩ := v
      rw [hp] at h
      exact (processChunk_replays o N _ _ _ _ _ _ _ hp).trans (feedChunks_replays o N cs _ _ _ _ _ _ h)

/-- **the joint parse is the tree builder fed the delivered token stream**, then `TreeBuilder::end` -/
theorem C03_joint_is_replay (o : TOpts) (N : Nat) (m0 : Mach) (tb0 : H5V.Model.HtmlTB.State) (chunks : List Chars)
    (jf : JState) (h : parseChunks o N m0 { tb := tb0 } chunks = .ok jf) :
    ∃ ts : List (H5V.Model.HtmlTB.TokToken × Nat), parseWith (pure ()) true ts tb0 = .ok (jf.results, jf.tb) := by
  unfold parseChunks at h
  cases hf : feedChunks o N chunks m0 [] { tb := tb0 } with
  | error e => rw [hf] at h; cases h
  | ok v =>
    obtain ⟨m1, i1, j1⟩ := v
    rw [hf] at h
    simp only at h
    cases hp : jprocessChunk o N m1 i1 [] j1 with
    | error e => rw [hp] at h; cases h
    | ok w =>
      obtain ⟨m2, i2, j2⟩ := w
      rw [hp] at h
      simp only at h
      split at h
      · cases h
      · obtain ⟨j3, h3, h4, h5⟩ := finish_replays h
        obtain ⟨ts, hts⟩ := ((feedChunks_replays o N _ _ _ _ _ _ _ hf).trans (processChunk_replays o N _ _ _ _ _ _ _ hp)).trans h3
        refine ⟨ts, ?_⟩
        unfold parseWith
        simp only [pure_bind, if_true]
        rw [H5V.Lemmas.TBSplit.bind_apply]
        have e : H5V.Model.HtmlTB.processTokens ts [] tb0 = .ok (j3.results, j3.tb) := hts
        rw [e]
        simp only
        rw [H5V.Lemmas.TBSplit.bind_apply]
        have e2 : H5V.Model.HtmlTB.finishTB j3.tb = .ok ((), jf.tb) := h5
        rw [e2, h4]
        rfl

/-- **C03 end to end.**  The joint model delivers character data one character per token; the real
tokenizer delivers runs whose boundaries depend on chunk and buffer boundaries.  Whatever these
boundaries are — any token stream `ts'` that is a re-splitting (`Resplit`) of the stream `ts` the model
delivered, in particular any `ts'` with the same `mergeChars` — the tree builder ends with the same
observable result as the joint model: same DOM arena, same quirks mode, same pause answers. -/
theorem C03_joint_tree_end_to_end (o : TOpts) (N : Nat) (m0 : Mach) (tb0 : H5V.Model.HtmlTB.State)
    (hg : GoodS tb0) (chunks : List Chars) (jf : JState) (h : parseChunks o N m0 { tb := tb0 } chunks = .ok jf) :
    ∃ ts : List (H5V.Model.HtmlTB.TokToken × Nat),
      parseWith (pure ()) true ts tb0 = .ok (jf.results, jf.tb) ∧
      (∀ ts', Resplit ts ts' →
        obsOf (parseWith (pure ()) true ts' tb0) = some ⟨jf.tb.dom.nodes, jf.tb.dom.quirks, jf.results⟩) ∧
      (∀ ts', CharsNonempty ts → CharsNonempty ts' → mergeChars ts' = mergeChars ts →
        obsOf (parseWith (pure ()) true ts' tb0) = some ⟨jf.tb.dom.nodes, jf.tb.dom.quirks, jf.results⟩) := by
  obtain ⟨ts, hts⟩ := C03_joint_is_replay o N m0 tb0 chunks jf h
  have key : ∀ ts', Resplit ts ts' →
      obsOf (parseWith (pure ()) true ts' tb0) = some ⟨jf.tb.dom.nodes, jf.tb.dom.quirks, jf.results⟩ := by
    intro ts' hr
    have := obsOf_eq (parseWith_alike (init := pure ()) (H5V.Lemmas.TBSplit.resp_pure ()) true hr tb0 tb0 hg.sim)
    rw [← this, hts]
    rfl
  exact ⟨ts, hts, key, fun ts' h1 h2 h3 => key ts' (C03_resplit_of_merge_eq h1 h2 h3.symm)⟩

/-! ## non-vacuity -/

/-- the tree builder after `TreeBuilder::new` -/
def exTb : H5V.Model.HtmlTB.State :=
  match H5V.Model.HtmlTB.newTB.run (H5V.Model.HtmlTB.State.init {}) with
  | .ok (_, s) => s
  | .error _ => H5V.Model.HtmlTB.State.init {}

/-- DOM, pause answers, token and EOF counters of a joint parse -/
def exObs (r : Except String JState) :
    Option (H5V.Model.Dom.Dom × List H5V.Model.HtmlTB.SinkResult × Nat × Nat) :=
  match r with
  | .ok j => some (j.tb.dom, j.results, j.nTokens, j.nEof)
  | .error _ => none

/-- RCDATA with a character reference, a script (raw-text switch + Script pause), foster-parented table text -/
def exDoc : Chars :=
  "<!DOCTYPE html><title>a&amp;b</title><script>x<y</script><table>a b<tr><td>c</table>".toList

def exRun (cs : List Chars) := exObs (parseChunks ⟨false⟩ 50 {} { tb := exTb } cs)

/-- the one-piece parse succeeds, and cutting the input inside `&amp;` of the title, inside `</script>`
and inside the table text changes nothing — not even the number of tokens delivered -/
example : (exRun [exDoc]).isSome = true ∧
    exRun [exDoc.take 25, exDoc.drop 25] = exRun [exDoc] ∧
    exRun [exDoc.take 51, exDoc.drop 51] = exRun [exDoc] ∧
    exRun [exDoc.take 65, [], exDoc.drop 65] = exRun [exDoc] := by
  decide +kernel

/-- the hypotheses of `C03_joint_chunk_independence` are satisfiable: this chunked parse succeeds -/
example : ∃ jf, parseChunks ⟨false⟩ 50 {} { tb := exTb } [exDoc.take 51, exDoc.drop 51] = .ok jf := by
  have h : (exRun [exDoc.take 51, exDoc.drop 51]).isSome = true := by decide +kernel
  unfold exRun exObs at h
  cases hp : parseChunks ⟨false⟩ 50 {} { tb := exTb } [exDoc.take 51, exDoc.drop 51] with
  | ok jf => exact ⟨jf, rfl⟩
  | error e => rw [hp] at h; cases h

end H5V.Props.C03

#print axioms H5V.Props.C03.C03_joint_chunk_independence
#print axioms H5V.Props.C03.C03_joint_chunk_independence_fresh
#print axioms H5V.Props.C03.C03_joint_chunk_obs
#print axioms H5V.Props.C03.C03_joint_is_replay
#print axioms H5V.Props.C03.C03_joint_tree_end_to_end
#print axioms H5V.Props.C03.feedChunks_eq_foldlM
