import H5V.Lemmas.HtmlTBReachRun
/-!
C18 — `trace_handles` reports every node still needed: the tree-builder side, on the model
`H5V.Model.HtmlTB`.

The translator theorem (`H5V.Props.C18.C18_fields_html`) shows that `trace_handles` visits every
handle-holding field of `struct TreeBuilder`.  Here: the builder holds handles nowhere else and
conjures none.

* `held s` — the handles in the fields `doc_handle`, `open_elems`, `active_formatting`, `head_elem`,
  `form_elem`, `context_elem` (the fields `trace_handles` reports);
* `opArgs op` / `outRets out` — the handles a `TreeSink` call is given / gives back
  (`create_element`, `create_comment`, `get_template_contents`, `get_document` give one back; no
  other query returns a handle: the model has no parent lookup — `append_based_on_parent_node`
  leaves that to the sink);
* `ArgsOK K calls` — every handle given to the sink in `calls` is in `K` or was given back by an
  earlier call of `calls` (`ArgsOK_iff` spells the recursion out).

* `C18_args_from_held` (B1) / `C18_held_preserved` (B2) / `C18_process_token`: for every state `s`, token
  and line: all handles `process_token` passes to the sink are held by `s` or were returned by the
  sink earlier in the same call; what is held afterwards (and the node of a `Script` answer) was held
  before or was returned by the sink during the call.  `C18_step`: the same for every single rule.
* `C18_suspension` (B3): for any split `toks = pre ++ post` of a token list: every handle passed to
  the sink while `post` is processed is held by the state in which `pre` ended — i.e. reported by
  `trace_handles` at that suspension point — or was returned by the sink while `post` was processed.
  `C18_suspension_finish`: the same including `TreeSink::end`.
* `C18_new_for_fragment`: the only handles that enter from outside are the arguments of
  `new_for_fragment` (context element, form element) and the document the sink returns.

The judgement behind all this is `PV c m R` (`H5V.Lemmas.HtmlTBReachBase`), proved for each of the
≈150 functions of the model by one walk (`pv_walk`).
-/
namespace H5V.Props.C18
open H5V.Model.Dom (Id QualName Attr NodeOrText SinkOp Output ElementFlags QuirksMode Dom)
open H5V.Model.HtmlTB
open H5V.Lemmas.TBM

/-- `ArgsOK`, spelled out: whenever `calls = later ++ (op, out) :: earlier` (newest first), every
handle among the arguments of `op` is in `K` or among the handles returned in `earlier` -/
theorem ArgsOK_iff {K : Id → Prop} {calls : List (SinkOp × Output)} :
    ArgsOK K calls ↔ ∀ later op out earlier, calls = later ++ (op, out) :: earlier →
      ∀ h ∈ opArgs op, K h ∨ h ∈ rets earlier := by
  induction calls with
  | nil =>
    constructor
    · intro _ later op out earlier e
      cases later <;> cases e
    · intro _; trivial
  | cons c tr ih =>
    constructor
    · rintro ⟨h1, h2⟩ later op out earlier e
      cases later with
      | nil =>
        simp only [List.nil_append, List.cons.injEq] at e
        obtain ⟨rfl, rfl⟩ := e
        exact h1
      | cons l later =>
        simp only [List.cons_append, List.cons.injEq] at e
        exact ih.mp h2 later op out earlier e.2
    · intro h
      refine ⟨?_, ih.mpr fun later op out earlier e => h (c :: later) op out earlier (by rw [e]; rfl)⟩
      obtain ⟨op, out⟩ := c
      exact h [] op out tr rfl

/-- what `PV` gives for a closed computation started in `s`, with "known" = "held by `s`" -/
theorem PV.run {α : Type} {m : M α} {R : α → List Id} (h : PV [] m R) {s s' : State} {a : α}
    (e : m.run s = .ok (a, s')) :
    ∃ calls, s'.traceRev = calls ++ s.traceRev ∧ ArgsOK (· ∈ held s) calls ∧
      (∀ x ∈ held s', x ∈ held s ∨ x ∈ rets calls) ∧ (∀ x ∈ R a, x ∈ held s ∨ x ∈ rets calls) :=
  ((h.h s).h (· ∈ held s) a s' e (fun _ hx => hx) (fun _ hx => nomatch hx)).ex

/-! ## one token -/

/-- **`process_token`, everything at once** -/
theorem C18_process_token {tok : TokToken} {line : Nat} {s s' : State} {r : SinkResult}
    (e : (processToken tok line).run s = .ok (r, s')) :
    ∃ calls, s'.traceRev = calls ++ s.traceRev ∧
      -- B1: arguments come from the held handles or from earlier answers of the sink
      ArgsOK (· ∈ held s) calls ∧
      -- B2: nothing is held afterwards that was not held or returned by the sink
      (∀ x ∈ held s', x ∈ held s ∨ x ∈ rets calls) ∧
      -- the node handed back with `Script`
      (∀ n, r = .script n → n ∈ held s ∨ n ∈ rets calls) := by
  obtain ⟨calls, t, a, k, rr⟩ := (pv_processToken (c := []) tok line).run e
  refine ⟨calls, t, a, k, ?_⟩
  rintro n rfl
  exact rr n (by simp [srH])

/-- **B1**: every handle that occurs as an argument of a sink call made while a token is processed
is held by the builder before the call of `process_token`, or was returned by an earlier sink call of
the same `process_token` -/
theorem C18_args_from_held {tok : TokToken} {line : Nat} {s s' : State} {r : SinkResult}
    (e : (processToken tok line).run s = .ok (r, s')) :
    ∃ calls, s'.traceRev = calls ++ s.traceRev ∧
      ∀ later op out earlier, calls = later ++ (op, out) :: earlier →
        ∀ h ∈ opArgs op, h ∈ held s ∨ h ∈ rets earlier := by
  obtain ⟨calls, t, a, _, _⟩ := C18_process_token e
  exact ⟨calls, t, ArgsOK_iff.mp a⟩

/-- **B2**: the handles held after `process_token` were held before or were returned by a sink call
of this `process_token` -/
theorem C18_held_preserved {tok : TokToken} {line : Nat} {s s' : State} {r : SinkResult}
    (e : (processToken tok line).run s = .ok (r, s')) :
    ∃ calls, s'.traceRev = calls ++ s.traceRev ∧ ∀ x ∈ held s', x ∈ held s ∨ x ∈ rets calls := by
  obtain ⟨calls, t, _, k, _⟩ := C18_process_token e
  exact ⟨calls, t, k⟩

/-- the same for every single rule (`step(mode, token)`) and for the foreign-content rule -/
theorem C18_step {mode : Mode} {tok : Token} {s s' : State} {r : ProcessResult}
    (e : (step mode tok).run s = .ok (r, s')) :
    ∃ calls, s'.traceRev = calls ++ s.traceRev ∧ ArgsOK (· ∈ held s) calls ∧
      (∀ x ∈ held s', x ∈ held s ∨ x ∈ rets calls) ∧ (∀ n, r = .script n → n ∈ held s ∨ n ∈ rets calls) := by
  obtain ⟨calls, t, a, k, rr⟩ := (pv_step (c := []) mode tok).run e
  refine ⟨calls, t, a, k, ?_⟩
  rintro n rfl
  exact rr n (by simp [prH])

theorem C18_step_foreign {tok : Token} {s s' : State} {r : ProcessResult}
    (e : (stepForeign tok).run s = .ok (r, s')) :
    ∃ calls, s'.traceRev = calls ++ s.traceRev ∧ ArgsOK (· ∈ held s) calls ∧
      (∀ x ∈ held s', x ∈ held s ∨ x ∈ rets calls) := by
  obtain ⟨calls, t, a, k, _⟩ := (pv_stepForeign (c := []) tok).run e
  exact ⟨calls, t, a, k⟩

/-- `TreeSink::end` pops what is still open: held handles only -/
theorem C18_finish {s s' : State} (e : finishTB.run s = .ok ((), s')) :
    ∃ calls, s'.traceRev = calls ++ s.traceRev ∧ ArgsOK (· ∈ held s) calls ∧
      (∀ x ∈ held s', x ∈ held s ∨ x ∈ rets calls) := by
  obtain ⟨calls, t, a, k, _⟩ := (pv_finishTB (c := [])).run e
  exact ⟨calls, t, a, k⟩

/-! ## token lists and suspension points -/

theorem processTokens_cons (t : TokToken) (line : Nat) (rest : List (TokToken × Nat)) (acc : List SinkResult) :
    processTokens ((t, line) :: rest) acc =
      (processToken t line >>= fun r => processTokens rest (if r == .continue_ then acc else r :: acc)) := rfl

theorem processTokens_append : ∀ (pre post : List (TokToken × Nat)) (acc : List SinkResult),
    processTokens (pre ++ post) acc = (processTokens pre acc >>= fun acc1 => processTokens post acc1)
  | [], post, acc => by
    show processTokens post acc = (pure acc >>= fun acc1 => processTokens post acc1)
    rw [pure_bind]
  | (t, line) :: rest, post, acc => by
    rw [List.cons_append, processTokens_cons, processTokens_cons, bind_assoc]
    congr 1
    funext r
    exact processTokens_append rest post _

theorem pv_processTokens_nil : ∀ (c : List Id) (toks : List (TokToken × Nat)) (acc : List SinkResult),
    PV c (processTokens toks acc) nil
  | c, [], acc => by unfold processTokens; exact PV.pure (fun _ h => nomatch h)
  | c, (t, line) :: rest, acc => by
    unfold processTokens
    exact PV.bind (pv_processToken t line) fun r => pv_processTokens_nil _ rest _

/-- **B3 — the property for the model.**  Split a token list anywhere (the suspension point: a script
pause, the end of a chunk).  Every handle passed to the sink while the rest is processed is held by
the builder at the suspension point — so `trace_handles` reports it — or was returned by the sink
after that point; and the builder holds nothing else afterwards. -/
theorem C18_suspension {pre post : List (TokToken × Nat)} {acc res : List SinkResult} {s0 s2 : State}
    (e : (processTokens (pre ++ post) acc).run s0 = .ok (res, s2)) :
    ∃ acc1 s1, (processTokens pre acc).run s0 = .ok (acc1, s1) ∧ (processTokens post acc1).run s1 = .ok (res, s2) ∧
      ∃ calls, s2.traceRev = calls ++ s1.traceRev ∧
        (∀ later op out earlier, calls = later ++ (op, out) :: earlier →
          ∀ h ∈ opArgs op, h ∈ held s1 ∨ h ∈ rets earlier) ∧
        (∀ x ∈ held s2, x ∈ held s1 ∨ x ∈ rets calls) := by
  have e' : processTokens (pre ++ post) acc s0 = .ok (res, s2) := e
  rw [processTokens_append] at e'
  obtain ⟨acc1, s1, e1, e2⟩ := bind_ok.mp e'
  obtain ⟨calls, t, a, k, _⟩ := (pv_processTokens_nil [] post acc1).run e2
  exact ⟨acc1, s1, e1, e2, calls, t, ArgsOK_iff.mp a, k⟩

/-- … including the final `TreeSink::end` -/
theorem C18_suspension_finish {pre post : List (TokToken × Nat)} {acc res : List SinkResult} {s0 s2 s3 : State}
    (e : (processTokens (pre ++ post) acc).run s0 = .ok (res, s2)) (ef : finishTB.run s2 = .ok ((), s3)) :
    ∃ acc1 s1, (processTokens pre acc).run s0 = .ok (acc1, s1) ∧
      ∃ calls, s3.traceRev = calls ++ s1.traceRev ∧
        (∀ later op out earlier, calls = later ++ (op, out) :: earlier →
          ∀ h ∈ opArgs op, h ∈ held s1 ∨ h ∈ rets earlier) := by
  have e' : processTokens (pre ++ post) acc s0 = .ok (res, s2) := e
  rw [processTokens_append] at e'
  obtain ⟨acc1, s1, e1, e2⟩ := bind_ok.mp e'
  have hpv : PV [] (processTokens post acc1 >>= fun _ => finishTB) nil :=
    PV.bind (pv_processTokens_nil [] post acc1) fun _ => pv_finishTB
  have e3 : (processTokens post acc1 >>= fun _ => finishTB) s1 = .ok ((), s3) := bind_ok.mpr ⟨res, s2, e2, ef⟩
  obtain ⟨calls, t, a, _, _⟩ := hpv.run e3
  exact ⟨acc1, s1, e1, calls, t, ArgsOK_iff.mp a⟩

/-- the handles in the non-`Continue` answers of a run (`Script(node)`) are known as well -/
theorem C18_answers {toks : List (TokToken × Nat)} {res : List SinkResult} {s s' : State}
    (e : (processTokens toks []).run s = .ok (res, s')) :
    ∃ calls, s'.traceRev = calls ++ s.traceRev ∧ ∀ n, .script n ∈ res → n ∈ held s ∨ n ∈ rets calls := by
  obtain ⟨calls, t, _, _, rr⟩ := (pv_processTokens [] toks [] (fun _ h => nomatch h)).run e
  refine ⟨calls, t, fun n hn => rr n ?_⟩
  simp only [srsH, List.mem_flatMap]
  exact ⟨_, hn, by simp [srH]⟩

/-! ## where handles come from in the first place -/

/-- `TreeBuilder::new`: the only handle is the document, returned by the sink -/
theorem C18_new {s s' : State} (e : newTB.run s = .ok ((), s')) :
    ∃ calls, s'.traceRev = calls ++ s.traceRev ∧ ArgsOK (· ∈ held s) calls ∧
      (∀ x ∈ held s', x ∈ held s ∨ x ∈ rets calls) := by
  obtain ⟨calls, t, a, k, _⟩ := (pv_newTB (c := [])).run e
  exact ⟨calls, t, a, k⟩

/-- `TreeBuilder::new_for_fragment`: besides, the context element and the form element the caller
hands in -/
theorem C18_new_for_fragment {ctx : Id} {form : Option Id} {s s' : State}
    (e : (newForFragment ctx form).run s = .ok ((), s')) :
    ∃ calls, s'.traceRev = calls ++ s.traceRev ∧
      ArgsOK (fun x => x ∈ held s ∨ x = ctx ∨ form = some x) calls ∧
      (∀ x ∈ held s', (x ∈ held s ∨ x = ctx ∨ form = some x) ∨ x ∈ rets calls) := by
  have hpv := pv_newForFragment (c := ctx :: form.toList) ctx form List.mem_cons_self
    (fun x hx => List.mem_cons_of_mem _ hx)
  obtain ⟨calls, t, a, k, _⟩ := ((hpv.h s).h (fun x => x ∈ held s ∨ x = ctx ∨ form = some x) () s' e
    (fun _ hx => Or.inl hx) (fun x hx => by
      simp only [List.mem_cons, Option.mem_toList] at hx
      exact Or.inr hx)).ex
  exact ⟨calls, t, a, k⟩

/-! ## non-vacuity: a concrete suspension point -/

section Examples

/-- `ArgsOK` against a list, decidably -/
def argsOkB (base : List Id) : List (SinkOp × Output) → Bool
  | [] => true
  | c :: tr => (opArgs c.1).all (fun h => base.contains h || (rets tr).contains h) && argsOkB base tr

theorem argsOkB_iff {base : List Id} : ∀ {calls : List (SinkOp × Output)},
    argsOkB base calls = true ↔ ArgsOK (· ∈ base) calls
  | [] => by simp [argsOkB, ArgsOK]
  | c :: tr => by
    simp only [argsOkB, ArgsOK, Bool.and_eq_true, List.all_eq_true, Bool.or_eq_true, List.contains_iff_mem,
      argsOkB_iff (calls := tr)]

def sTag (n : String) : TokToken × Nat := (.tag { kind := .startTag, name := n.toList }, 1)
def eTag (n : String) : TokToken × Nat := (.tag { kind := .endTag, name := n.toList }, 1)
def txt (s : String) : TokToken × Nat := (.chars s.toList, 1)

/-- `<b><p>x` ‖ `</b>y` EOF: the suspension point is in the middle of a mis-nested formatting
element; what follows runs the adoption agency -/
def exPre : List (TokToken × Nat) := [sTag "b", sTag "p", txt "x"]
def exPost : List (TokToken × Nat) := [eTag "b", txt "y", (.eof, 1)]

def runFrom (s : State) (toks : List (TokToken × Nat)) : Option State :=
  match (processTokens toks []).run s with
  | .ok (_, s') => some s'
  | .error _ => none

def exFresh : Option State :=
  match (newTB : M Unit).run (State.init {}) with
  | .ok (_, s) => some s
  | .error _ => none

/-- the state at the suspension point, the state at the end, the calls made in between (newest first) -/
def exS1 : Option State := exFresh.bind (runFrom · exPre)
def exS2 : Option State := exS1.bind (runFrom · exPost)
def exCalls : List (SinkOp × Output) :=
  match exS1, exS2 with
  | some a, some b => b.traceRev.take (b.traceRev.length - a.traceRev.length)
  | _, _ => []

/-- one Boolean with all the facts about the run -/
def exCheck : Bool :=
  match exS1, exS2 with
  | some a, some b =>
    -- held at the suspension point: document, html, body, b, p, b (active formatting), head
    held a == [0, 1, 3, 4, 5, 4, 2] &&
    -- 35 sink calls follow, one of them creates a node (the clone of `b`, handle 7)
    exCalls.length == 35 && rets exCalls == [7] &&
    b.traceRev == exCalls ++ a.traceRev &&
    -- the statement of `C18_suspension` on this run
    argsOkB (held a) exCalls &&
    (held b).all (fun x => (held a).contains x || (rets exCalls).contains x) &&
    -- it is not vacuous: handles from the held set are really needed — without `html` (1), `body` (3)
    -- or `p` (5) in the traced set an argument would be unaccounted for
    !argsOkB ((held a).erase 1) exCalls && !argsOkB ((held a).erase 3) exCalls &&
    !argsOkB ((held a).erase 5) exCalls &&
    -- and the freshly created node is used as an argument afterwards
    exCalls.any (fun c => (opArgs c.1).contains 7)
  | _, _ => false

theorem C18_example : exCheck = true := by decide +kernel

end Examples

/-! ## axioms -/
#print axioms C18_process_token
#print axioms C18_args_from_held
#print axioms C18_held_preserved
#print axioms C18_step
#print axioms C18_step_foreign
#print axioms C18_finish
#print axioms C18_suspension
#print axioms C18_suspension_finish
#print axioms C18_answers
#print axioms C18_new
#print axioms C18_new_for_fragment
#print axioms C18_example

end H5V.Props.C18
