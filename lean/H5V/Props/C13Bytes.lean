import H5V.Props.C13
import H5V.Lemmas.BQBytes
import H5V.Model.BufferQueueDriver
import H5V.Model.HtmlTok
/-!
C13, byte-vs-char bridge of `BufferQueue::eat`.

`BufferQueue::eat(pat, eq)` (`markup5ever/util/buffer_queue.rs`) works on **bytes**: it walks
`pat.bytes()`, indexes `buf.as_bytes()[consumed_from_last]`, and on a match commits with
`buf.pop_front(consumed_from_last)` — which panics when that byte count is not a character boundary
of the (UTF-8) buffer.  The model `H5V.Model.BQ.eat` works on **characters**.  This file proves
that nothing is lost in between.

* byte-level model (in `H5V/Lemmas/BQBytes.lean`, namespace `H5V.Lemmas.BQBytes`):
  `eatLoop` (the `for pattern_byte in pat.bytes()` loop with the two index variables), `commit`
  (pop the exhausted buffers, `pop_front` / `assert_eq!`), `eatBytes`; panic sites `PanicSite.index`,
  `.assertZero`, `.popFront`; `isCharBoundary` is `str::is_char_boundary` on the bytes.
* the encoding is core's `String.utf8EncodeChar` (`encBuf b` = the bytes of `String.ofList b`:
  `encBuf_toByteArray`); `C13_utf8_ascii`, `C13_utf8_nonascii`, `C13_utf8_prefix_code` are the facts
  used about it.
* comparators: `byteEq` (`|a, b| a == b`) and `byteEqCi` (`u8::eq_ignore_ascii_case`, lower-casing
  with std's `| 0x20` on `b'A'..=b'Z'`) on the byte side; on the char side `eqOf false/true` of
  `Props/C13.lean`, which is the driver's `H5V.Model.BQ.eqOf` and the tokenizer model's
  `eqExact` / `eqCi` (`C13_comparators_agree`).

Headline: `C13_eat_bytes_eq_chars` (ASCII patterns, as html5ever uses `eat`).

Decision on "is the ASCII hypothesis needed?": **no** — for these two comparators the bridge holds
for every pattern (`C13_eat_bytes_eq_chars_all`), because UTF-8 is a prefix code whose non-ASCII
bytes are all `≥ 0x80`, where `eq_ignore_ascii_case` is plain equality.  What *is* needed is the
comparator: `eat` accepts any `Fn(&u8, &u8) -> bool`, and with a comparator that is not one of the
two the byte loop does commit in the middle of a character — even for an ASCII pattern
(`C13_witness_comparator_panics`, `C13_witness_comparator_disagrees`).
-/
namespace H5V.Props.C13
open H5V.Model.BQ H5V.Lemmas.BQBytes

/-- the byte queue of a character queue: every buffer UTF-8 encoded -/
def encQueue (q : Queue) : List (List UInt8) := encBufs q.bufs

/-! ### the UTF-8 facts (item 2) -/

/-- an ASCII character encodes to the single byte of its code -/
theorem C13_utf8_ascii (c : Char) (h : c.val < 128) :
    String.utf8EncodeChar c = [c.val.toUInt8] ∧ c.val.toUInt8.toNat = c.val.toNat := by
  have h' : c.val.toNat < 128 := by
    have := UInt32.lt_iff_toNat_lt.mp h; simpa using this
  refine ⟨enc_ascii h', ?_⟩
  show (UInt8.ofNat c.val.toNat).toNat = _
  exact toNat_ofNat_lt (by omega)

/-- a non-ASCII character encodes to a lead byte `≥ 0xC0` (so `≥ 0x80`, different from every ASCII
byte) followed by at least one more byte, all further bytes being continuation bytes `0x80..0xBF` -/
theorem C13_utf8_nonascii (c : Char) (h : ¬ c.val < 128) :
    ∃ b0 b1 rest, String.utf8EncodeChar c = b0 :: b1 :: rest ∧ 0xC0 ≤ b0.toNat ∧
      ∀ b ∈ b1 :: rest, isCont b = true := by
  have h' : 128 ≤ c.val.toNat := by
    have : ¬ c.val.toNat < 128 := fun hh => h (UInt32.lt_iff_toNat_lt.mpr (by simpa using hh))
    omega
  exact enc_nonascii h'

/-- UTF-8 is a prefix code: the encodings of two different characters differ at a position that
lies inside both -/
theorem C13_utf8_prefix_code (c p : Char) (h : c ≠ p) :
    ∃ l x l1 y l2, String.utf8EncodeChar p = l ++ x :: l1 ∧ String.utf8EncodeChar c = l ++ y :: l2 ∧
      x ≠ y :=
  enc_diverge h

/-! ### the comparators of the model, the driver and the tokenizer model are the same functions -/

theorem toAsciiLower_eq_toLower (c : Char) : H5V.Model.HtmlTok.toAsciiLower c = c.toLower := by
  apply char_eq_of_toNat
  rw [toLower_toNat]
  unfold H5V.Model.HtmlTok.toAsciiLower lowerNat
  have hA : ('A' ≤ c) ↔ 65 ≤ c.val.toNat := by
    rw [Char.le_def, UInt32.le_iff_toNat_le]; rfl
  have hZ : (c ≤ 'Z') ↔ c.val.toNat ≤ 90 := by
    rw [Char.le_def, UInt32.le_iff_toNat_le]; rfl
  simp only [hA, hZ]
  split
  · rename_i h
    have hv : (c.toNat + 32).isValidChar := by
      left; show c.val.toNat + 32 < 55296; omega
    rw [Char.ofNat, dif_pos hv]
    show (Char.ofNatAux (c.toNat + 32) hv).val.toNat = _
    simp only [Char.ofNatAux, Char.toNat]
    show (UInt32.ofNatLT _ _).toNat = _
    simp only [UInt32.toNat_ofNatLT]
  · rfl

/-- `eqOf` here = the driver's `eqOf`; the tokenizer model's `eqExact` / `eqCi` are `eqOf false` /
`eqOf true` -/
theorem C13_comparators_agree :
    H5V.Model.BQ.eqOf = eqOf ∧ H5V.Model.HtmlTok.eqExact = eqOf false ∧
      H5V.Model.HtmlTok.eqCi = eqOf true := by
  refine ⟨rfl, rfl, ?_⟩
  funext a b
  simp only [H5V.Model.HtmlTok.eqCi, eqOf, toAsciiLower_eq_toLower, if_true]

/-! ### the bridge -/

/-- general form: any byte comparator / char comparator pair that agrees on single characters
(`StepAgree`, for the pattern characters in `P`) -/
theorem C13_eat_bytes_of_stepAgree (beq : UInt8 → UInt8 → Bool) (ceq : Char → Char → Bool)
    (P : Char → Prop) (hA : StepAgree beq ceq P) (pat : List Char) (q : Queue)
    (h : QInv q) (hp : ∀ c ∈ pat, P c) :
    ∃ v q', eat pat ceq q = .ok (v, q') ∧ QInv q' ∧
      eatBytes (encBuf pat) beq (encQueue q) = .ok v (encQueue q') := by
  have hb := eatBytes_enc beq ceq P hA pat q.bufs hp h
  obtain ⟨hnp, hinv⟩ := eatGo_ok ceq pat q.bufs h
  unfold eat encQueue
  cases hg : eatGo ceq pat q.bufs with
  | needMore => exact ⟨none, q, rfl, h, by rw [hb, hg]; rfl⟩
  | mismatch => exact ⟨some false, q, rfl, h, by rw [hb, hg]; rfl⟩
  | matched rest => exact ⟨some true, ⟨rest⟩, rfl, hinv rest hg, by rw [hb, hg]; rfl⟩
  | panic => exact absurd hg hnp

theorem stepAgree_eqOf (ci : Bool) : StepAgree (byteEqOf ci) (eqOf ci) (fun _ => True) := by
  cases ci
  · exact stepAgree_exact
  · exact stepAgree_ci

/-- **The bridge, for every pattern.**  For every queue without empty buffers, every pattern and
each of the two comparators html5ever uses (`ci = false`: `a == b`; `ci = true`:
`eq_ignore_ascii_case`), the byte-level `eat` on the UTF-8 encoded queue and pattern does not panic,
returns the verdict of the char-level `eat`, and leaves the encoding of the char-level queue
(the committed one on a match, the unchanged one otherwise). -/
theorem C13_eat_bytes_eq_chars_all (ci : Bool) (pat : List Char) (q : Queue) (h : QInv q) :
    ∃ v q', eat pat (eqOf ci) q = .ok (v, q') ∧ QInv q' ∧
      eatBytes (encBuf pat) (byteEqOf ci) (encQueue q) = .ok v (encQueue q') :=
  C13_eat_bytes_of_stepAgree _ _ _ (stepAgree_eqOf ci) pat q h (fun _ _ => trivial)

/-- **The bridge theorem** in the form asked for: ASCII pattern (what html5ever passes: `--`,
`doctype`, `[CDATA[`, `public`, `system`).  The ASCII hypothesis is not used — see
`C13_eat_bytes_eq_chars_all`. -/
theorem C13_eat_bytes_eq_chars (ci : Bool) (pat : List Char) (q : Queue) (h : QInv q)
    (_hp : ∀ c ∈ pat, c.val < 128) :
    ∃ v q', eat pat (eqOf ci) q = .ok (v, q') ∧ QInv q' ∧
      eatBytes (encBuf pat) (byteEqOf ci) (encQueue q) = .ok v (encQueue q') :=
  C13_eat_bytes_eq_chars_all ci pat q h

/-- the byte-level `eat` never panics on the encoding of a queue without empty buffers -/
theorem C13_eat_bytes_no_panic (ci : Bool) (pat : List Char) (q : Queue) (h : QInv q) :
    ∀ site, eatBytes (encBuf pat) (byteEqOf ci) (encQueue q) ≠ .panic site := by
  obtain ⟨v, q', _, _, hb⟩ := C13_eat_bytes_eq_chars_all ci pat q h
  intro site hs
  rw [hb] at hs
  cases hs

/-- the byte-level `eat` against the flat character stream (composition with `C13_eat`) -/
theorem C13_eat_bytes_flat (ci : Bool) (pat : List Char) (q : Queue) (h : QInv q) :
    match prefixCmp (eqOf ci) (abs q) pat with
    | .isPrefix => ∃ q', eatBytes (encBuf pat) (byteEqOf ci) (encQueue q) = .ok (some true) (encQueue q') ∧
        QInv q' ∧ abs q' = (abs q).drop pat.length
    | .mismatch => eatBytes (encBuf pat) (byteEqOf ci) (encQueue q) = .ok (some false) (encQueue q)
    | .needMore => eatBytes (encBuf pat) (byteEqOf ci) (encQueue q) = .ok none (encQueue q) := by
  obtain ⟨v, q', he, hi, hb⟩ := C13_eat_bytes_eq_chars_all ci pat q h
  have hc := C13_eat pat (eqOf ci) q h
  revert hc
  cases prefixCmp (eqOf ci) (abs q) pat with
  | isPrefix =>
    rintro ⟨q'', he', hi', ha'⟩
    rw [he'] at he
    cases he
    exact ⟨_, hb, hi', ha'⟩
  | mismatch => intro he'; rw [he'] at he; cases he; exact hb
  | needMore => intro he'; rw [he'] at he; cases he; exact hb

/-- the html5ever call sites: the five keywords are ASCII -/
theorem C13_keywords_ascii :
    ∀ pat ∈ [H5V.Model.HtmlTok.kwDashDash, H5V.Model.HtmlTok.kwDoctype, H5V.Model.HtmlTok.kwCdata,
      H5V.Model.HtmlTok.kwPublic, H5V.Model.HtmlTok.kwSystem], ∀ c ∈ pat, c.val < 128 := by
  decide

/-- the verdict of the tokenizer model's flat comparison `eatCmp` is the prefix comparison -/
theorem eatCmp_prefixCmp (eq : Char → Char → Bool) (s pat : List Char) :
    H5V.Model.HtmlTok.eatCmp eq s pat =
      (match prefixCmp eq s pat with
       | .isPrefix => some true
       | .mismatch => some false
       | .needMore => none) := by
  induction s generalizing pat with
  | nil => cases pat <;> simp [H5V.Model.HtmlTok.eatCmp, prefixCmp]
  | cons c s ih =>
    cases pat with
    | nil => simp [H5V.Model.HtmlTok.eatCmp, prefixCmp]
    | cons p ps =>
      simp only [H5V.Model.HtmlTok.eatCmp, prefixCmp]
      split
      · exact ih ps
      · rfl

/-- the tokenizer model compares the flat stream with `eatCmp` under `eqExact` / `eqCi`; the
byte-level `BufferQueue::eat` on any buffering of that stream gives that verdict -/
theorem C13_eat_bytes_tokenizer_verdict (ci : Bool) (pat : List Char) (q : Queue) (h : QInv q) :
    ∃ q', eatBytes (encBuf pat) (byteEqOf ci) (encQueue q) =
        .ok (H5V.Model.HtmlTok.eatCmp (if ci then H5V.Model.HtmlTok.eqCi else H5V.Model.HtmlTok.eqExact)
          (abs q) pat) (encQueue q') ∧
      abs q' = (if H5V.Model.HtmlTok.eatCmp (if ci then H5V.Model.HtmlTok.eqCi else H5V.Model.HtmlTok.eqExact)
          (abs q) pat = some true then (abs q).drop pat.length else abs q) := by
  have hcmp : (if ci then H5V.Model.HtmlTok.eqCi else H5V.Model.HtmlTok.eqExact) = eqOf ci := by
    obtain ⟨_, h1, h2⟩ := C13_comparators_agree
    cases ci
    · exact h1
    · exact h2
  rw [hcmp, eatCmp_prefixCmp]
  have hf := C13_eat_bytes_flat ci pat q h
  revert hf
  cases prefixCmp (eqOf ci) (abs q) pat with
  | isPrefix => rintro ⟨q', hb, _, ha⟩; exact ⟨q', hb, by simpa using ha⟩
  | mismatch => intro hb; exact ⟨q, hb, by simp⟩
  | needMore => intro hb; exact ⟨q, hb, by simp⟩

/-! ### what the comparator must provide (item 4)

The ASCII hypothesis on the pattern is *not* needed for `==` / `eq_ignore_ascii_case`
(`C13_eat_bytes_eq_chars_all`).  The property that carries the bridge is the comparator's: `eat`
takes any `Fn(&u8, &u8) -> bool`.  With a comparator that accepts a lead byte of a multi-byte
character against a different byte, an ASCII pattern is enough to make the byte loop stop in the
middle of a character: -/

/-- pattern `"a"` (ASCII), queue `["é"]` (bytes C3 A9), comparator `|_, _| true`: the loop consumes
one byte and the commit is `pop_front(1)` inside the two-byte character — the `pop_front` panic -/
theorem C13_witness_comparator_panics :
    eatBytes (encBuf ['a']) (fun _ _ => true) (encQueue ⟨[['é']]⟩) = .panic .popFront := by
  decide

/-- a comparator that ignores the top bit (`a & 0x7f == b & 0x7f`): pattern `"C"` against `["é"]`
"matches" the lead byte `0xC3` and panics, whereas no character-level comparison of `é` with `C`
under `==` or ASCII case folding matches -/
theorem C13_witness_comparator_disagrees :
    eatBytes (encBuf ['C']) (fun a b => a &&& 0x7f == b &&& 0x7f) (encQueue ⟨[['é']]⟩) = .panic .popFront ∧
      eat ['C'] (eqOf false) ⟨[['é']]⟩ = .ok (some false, ⟨[['é']]⟩) ∧
      eat ['C'] (eqOf true) ⟨[['é']]⟩ = .ok (some false, ⟨[['é']]⟩) := by
  refine ⟨by decide, rfl, rfl⟩

/-- with the real comparators a non-ASCII pattern is handled like the char level: `"é"` against
`["è…"]` shares the lead byte `0xC3` and is a mismatch at the second byte; against `["é", "x"]` it
matches across the whole character and commits at the buffer boundary -/
example : eatBytes (encBuf ['é']) byteEqCi (encQueue ⟨[['è', 'x']]⟩) = .ok (some false) (encQueue ⟨[['è', 'x']]⟩) := by
  decide
example : eatBytes (encBuf ['é']) byteEq (encQueue ⟨[['é'], ['x']]⟩) = .ok (some true) (encQueue ⟨[['x']]⟩) := by
  decide
/-- `eq_ignore_ascii_case` does not fold non-ASCII letters: `"É"` vs `"é"` is a mismatch on both
levels -/
example : eatBytes (encBuf ['É']) byteEqCi (encQueue ⟨[['é']]⟩) = .ok (some false) (encQueue ⟨[['é']]⟩) ∧
    eat ['É'] (eqOf true) ⟨[['é']]⟩ = .ok (some false, ⟨[['é']]⟩) := ⟨by decide, rfl⟩

/-! ### non-vacuity (item 5) -/

/-- `<!DOCTYPE x` split as `["<!D", "OCTYPE x"]` after `<!` was consumed: the queue is
`["D", "OCTYPE x"]`; `eat("doctype", eq_ignore_ascii_case)` matches across the buffer boundary and
leaves `[" x"]` -/
example :
    eatBytes (encBuf "doctype".toList) byteEqCi (encQueue ⟨["D".toList, "OCTYPE x".toList]⟩) =
      .ok (some true) (encQueue ⟨[" x".toList]⟩) := by decide

/-- the indices at the end of that loop: one buffer exhausted, 6 bytes consumed from the next -/
example :
    eatLoop byteEqCi (encQueue ⟨["D".toList, "OCTYPE x".toList]⟩) (encBuf "doctype".toList) 0 0 =
      .done 1 6 := by decide

/-- the same at the char level, and the instance satisfies the hypotheses of the bridge theorem -/
example : eat "doctype".toList (eqOf true) ⟨["D".toList, "OCTYPE x".toList]⟩ = .ok (some true, ⟨[" x".toList]⟩) := rfl
example : QInv ⟨["D".toList, "OCTYPE x".toList]⟩ ∧ ∀ c ∈ "doctype".toList, c.val < 128 := by
  refine ⟨?_, by decide⟩
  intro b hb; simp at hb; rcases hb with rfl | rfl <;> decide

/-- three buffers, match ends exactly at a buffer boundary: nothing is left of the last buffer -/
example :
    eatBytes (encBuf "[CDATA[".toList) byteEq (encQueue ⟨["[C".toList, "DAT".toList, "A[".toList, "é".toList]⟩) =
      .ok (some true) (encQueue ⟨["é".toList]⟩) := by decide

/-- not enough input: `None`, queue untouched -/
example :
    eatBytes (encBuf "doctype".toList) byteEqCi (encQueue ⟨["D".toList, "OC".toList]⟩) =
      .ok none (encQueue ⟨["D".toList, "OC".toList]⟩) := by decide

/-- a multi-byte character in the buffer against an ASCII pattern: mismatch at its lead byte -/
example :
    eatBytes (encBuf "--".toList) byteEq (encQueue ⟨["-".toList, "—-".toList]⟩) =
      .ok (some false) (encQueue ⟨["-".toList, "—-".toList]⟩) := by decide

/-- the `index` panic site is real on a queue that violates the invariant -/
example : eatBytes (encBuf ['a']) byteEq [[]] = .panic .index := by decide

/-- the match commits after a 4-byte character: `pop_front(5)` is at a boundary -/
example :
    eatBytes (encBuf ['a', '😀']) byteEq (encQueue ⟨[['a', '😀', 'b']]⟩) = .ok (some true) (encQueue ⟨[['b']]⟩) ∧
      eatLoop byteEq (encQueue ⟨[['a', '😀', 'b']]⟩) (encBuf ['a', '😀']) 0 0 = .done 0 5 := by decide

end H5V.Props.C13

#print axioms H5V.Props.C13.C13_eat_bytes_eq_chars
#print axioms H5V.Props.C13.C13_eat_bytes_eq_chars_all
#print axioms H5V.Props.C13.C13_eat_bytes_of_stepAgree
#print axioms H5V.Props.C13.C13_eat_bytes_no_panic
#print axioms H5V.Props.C13.C13_eat_bytes_flat
#print axioms H5V.Props.C13.C13_eat_bytes_tokenizer_verdict
#print axioms H5V.Props.C13.C13_comparators_agree
#print axioms H5V.Props.C13.C13_utf8_ascii
#print axioms H5V.Props.C13.C13_utf8_nonascii
#print axioms H5V.Props.C13.C13_utf8_prefix_code
#print axioms H5V.Props.C13.C13_witness_comparator_panics
#print axioms H5V.Props.C13.C13_witness_comparator_disagrees
