/-
Line-protocol helpers shared by all engines of the model driver.
Strings travel as space-separated lower-case hex code points (bytes for byte-level engines);
the empty string is "-".
-/
namespace H5V.Proto

def hexDigit? (c : Char) : Option Nat :=
  if '0' ≤ c ∧ c ≤ '9' then some (c.toNat - '0'.toNat)
  else if 'a' ≤ c ∧ c ≤ 'f' then some (c.toNat - 'a'.toNat + 10)
  else if 'A' ≤ c ∧ c ≤ 'F' then some (c.toNat - 'A'.toNat + 10)
  else none

def parseHex? (s : String) : Option Nat :=
  if s.isEmpty then none else
  s.toList.foldl (fun acc c => match acc, hexDigit? c with
    | some a, some d => some (a * 16 + d)
    | _, _ => none) (some 0)

def hexChars : Array Char := #['0','1','2','3','4','5','6','7','8','9','a','b','c','d','e','f']

partial def toHexAux (n : Nat) (acc : List Char) : List Char :=
  if n < 16 then hexChars[n]! :: acc else toHexAux (n / 16) (hexChars[n % 16]! :: acc)

def toHex (n : Nat) : String := String.ofList (toHexAux n [])

def splitOn (s : String) (sep : String) : List String := (s.splitOn sep)

/-- parse "61 62 63" / "-" into numbers; `none` on malformed input -/
def parseNums? (s : String) : Option (List Nat) :=
  let s := s.trimAscii.toString
  if s == "-" || s.isEmpty then some [] else
  (s.splitOn " ").filter (· ≠ "") |>.mapM parseHex?

def parseChars? (s : String) : Option (List Char) :=
  (parseNums? s).map (·.map Char.ofNat)

def parseBytes? (s : String) : Option (List UInt8) :=
  (parseNums? s).map (·.map (fun n => UInt8.ofNat n))

def showNums (l : List Nat) : String :=
  if l.isEmpty then "-" else " ".intercalate (l.map toHex)

def showChars (l : List Char) : String := showNums (l.map Char.toNat)
def showBytes (l : List UInt8) : String := showNums (l.map UInt8.toNat)

end H5V.Proto
