import H5V.Proto
/- engine `xmltok` (stub) -/
namespace H5V.Model.XmlTokDriver

def runCase (_fields : List String) : String := "unimplemented"

end H5V.Model.XmlTokDriver
