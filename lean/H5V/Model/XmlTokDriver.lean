import H5V.Proto
import H5V.Model.XmlTok
/- engine `xmltok` — xml5ever tokenizer.
   `tok <opts> <state> <chunks>`: opts `exact=0|1,bom=0|1`; state = Rust Debug name or `-`;
       chunks = space-hex strings separated by `|`.  Output: canonical tokens separated by `;`
       (see harness/src/engines/xmltok.rs).
   `tree …` exercises the real parser only: `no-model`. -/
namespace H5V.Model.XmlTokDriver
open H5V.Proto H5V.Model.XmlTok

def allStates : List State :=
  let ids : List DoctypeKind := [.pub, .sys]
  [.data, .tagState, .endTagState, .endTagName, .endTagNameAfter, .pi, .piTarget, .piTargetAfter, .piData,
   .piAfter, .markupDecl, .commentStart, .commentStartDash, .comment, .commentLessThan, .commentLessThanBang,
   .commentLessThanBangDash, .commentLessThanBangDashDash, .commentEnd, .commentEndDash, .commentEndBang,
   .cdata, .cdataBracket, .cdataEnd, .tagName, .tagEmpty, .tagAttrNameBefore, .tagAttrName, .tagAttrNameAfter,
   .tagAttrValueBefore, .tagAttrValue .unquoted, .tagAttrValue .singleQuoted, .tagAttrValue .doubleQuoted,
   .doctype, .beforeDoctypeName, .doctypeName, .afterDoctypeName]
  ++ ids.map .afterDoctypeKeyword ++ ids.map .beforeDoctypeIdentifier
  ++ ids.map .doctypeIdentifierDoubleQuoted ++ ids.map .doctypeIdentifierSingleQuoted
  ++ ids.map .afterDoctypeIdentifier
  ++ [.betweenDoctypePublicAndSystemIdentifiers, .bogusDoctype, .bogusComment]

def parseState (s : String) : Option State :=
  allStates.find? (fun st => st.dbg == s)

/-- hex code points joined by `.`; `-` = empty -/
def dh (s : Str) : String :=
  if s.isEmpty then "-" else ".".intercalate (s.map (fun c => toHex c.toNat))

def optDh : Option Str → String
  | none => "~"
  | some s => dh s

def showQ (sep : String) (q : QName) : String := optDh q.pfx ++ sep ++ dh q.loc

def showTok : Token → String
  | .chars s => "C:" ++ dh s
  | .tag t =>
    let k := match t.kind with | .startTag => "s" | .endTag => "e" | .emptyTag => "m" | .shortTag => "h"
    let attrs := ",".intercalate (t.attrs.map fun a => showQ "/" a.name ++ "=" ++ dh a.value)
    "T:" ++ k ++ ":" ++ showQ ":" t.name ++ ":[" ++ attrs ++ "]"
  | .pi t d => "P:" ++ dh t ++ ":" ++ dh d
  | .comment s => "M:" ++ dh s
  | .doctype d => "D:" ++ optDh d.name ++ ":" ++ optDh d.publicId ++ ":" ++ optDh d.systemId
  | .error e => "E:" ++ dh e
  | .eof => "EOF"

/-- merge adjacent character tokens -/
def canon : List Token → List Token
  | .chars a :: .chars b :: rest => canon (.chars (a ++ b) :: rest)
  | x :: rest => x :: canon rest
  | [] => []
termination_by l => l.length

def showOut (out : Out) : String := ";".intercalate ((canon out.reverse).map showTok)

def getOpt (opts : List (String × String)) (k : String) (d : Bool) : Bool :=
  match opts.find? (·.1 == k) with
  | some (_, v) => v == "1"
  | none => d

def runTok (optsS stateS chunksS : String) : String :=
  let opts := (optsS.splitOn ",").filterMap fun p =>
    match p.splitOn "=" with | [k, v] => some (k, v) | _ => none
  let o : Opts := { exactErrors := getOpt opts "exact" false }
  let st := if stateS == "-" then some State.data else parseState stateS
  let chunks := (chunksS.splitOn "|").mapM parseChars?
  match st, chunks with
  | some st, some chunks =>
    let m0 : Mach := { state := st, discardBom := getOpt opts "bom" true }
    let r : Except String Mach := chunks.foldlM (fun (m : Mach) ch =>
      match feed o m [] ch with
      | .done m inp => if inp.isEmpty then .ok m else .error ("QUEUE-NOT-DRAINED " ++ showOut m.out)
      | .panic e => .error ("PANIC " ++ e)
      | .outOfFuel => .error "OUT-OF-FUEL") m0
    match r with
    | .error e => e
    | .ok m =>
      match finish o m with
      | .error e => "PANIC " ++ e
      | .ok m => showOut m.out
  | _, _ => "bad-case"

def runCase (fields : List String) : String :=
  match fields with
  | ["tok", optsS, stateS, chunksS] => runTok optsS stateS chunksS
  | ["tree", _, _] => "no-model"
  | _ => "bad-case"

end H5V.Model.XmlTokDriver
