import H5V.Model.HtmlTB.Types
import H5V.Model.HtmlTB.TagSets
import H5V.Model.HtmlTB.Actions
import H5V.Model.HtmlTB.Rules
import H5V.Model.HtmlTB.Run
/-! `H5V.Model.HtmlTB` — model of html5ever's HTML tree builder; see `HtmlTB/Types.lean`. -/
