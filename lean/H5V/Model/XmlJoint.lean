import H5V.Model.XmlTok
import H5V.Model.XmlTB
/-!
The joint XML parse on the models: the tokenizer model (`XmlTok`) fed chunk after chunk and ended, its
tokens handed to the tree-builder model (`XmlTB`) as `XmlTreeBuilder::process_token` does
(xml5ever/src/tree_builder/mod.rs: `ParseError` goes to `sink.parse_error`, every other token into the
state machine).  Executed by the driver (`xmltok jtree`, `Model/XmlJointDriver.lean`) against the real
`xml5ever::driver::parse_document`; the theorems about it are in `Props/C15Joint.lean` (the
definitions keep the namespace they were proved in).
-/
namespace H5V.Props.C15
open H5V.Model

/-! ## the joint parse on the models -/

/-- `tokenizer::TagKind`, the same four constructors on both sides -/
def xjKind : XmlTok.TagKind → XmlTB.TagKind
  | .startTag => .start
  | .endTag => .end_
  | .emptyTag => .empty
  | .shortTag => .short

/-- a name as the tokenizer delivers it: prefix and local part, `ns` empty -/
def xjName (q : XmlTok.QName) : XmlTB.RName := ⟨q.pfx, q.loc⟩
def xjAttr (a : XmlTok.Attr) : XmlTB.RAttr := ⟨xjName a.name, a.value⟩
def xjTag (t : XmlTok.Tag) : XmlTB.Tag := ⟨xjKind t.kind, xjName t.name, t.attrs.map xjAttr⟩

/-- `XmlTreeBuilder::process_token` (tree_builder/mod.rs:412-425): `none` = `ParseError`, forwarded to
`sink.parse_error` without touching the builder -/
def xjTok : XmlTok.Token → Option XmlTB.Token
  | .error _ => none
  | .doctype d => some (.doctype d.name d.publicId d.systemId)
  | .tag t => some (.tag (xjTag t))
  | .pi t d => some (.pi t d)
  | .comment s => some (.comment s)
  | .chars s => some (.chars s)
  | .eof => some .eof

/-- the tokens the tree builder's state machine sees, oldest first (`out` is newest first) -/
def xjToks (out : XmlTok.Out) : List XmlTB.Token := out.reverse.filterMap xjTok

/-- one `XmlParser::process`: `feed` on the (empty) queue plus the chunk; the queue must be drained
(the step of the `foldlM` in `XmlTokDriver.runTok`, without the token dump in the message) -/
def xjFeedStep (o : XmlTok.Opts) (m : XmlTok.Mach) (ch : XmlTok.Str) : Except String XmlTok.Mach :=
  match XmlTok.feed o m [] ch with
  | .done m inp => if inp.isEmpty then .ok m else .error "QUEUE-NOT-DRAINED"
  | .panic e => .error ("PANIC " ++ e)
  | .outOfFuel => .error "OUT-OF-FUEL"

/-- `XmlParser::process` for each chunk in turn -/
def xjFeedChunks (o : XmlTok.Opts) : XmlTok.Mach → List XmlTok.Str → Except String XmlTok.Mach
  | m, [] => .ok m
  | m, c :: cs =>
    match xjFeedStep o m c with
    | .ok m' => xjFeedChunks o m' cs
    | .error e => .error e

/-- the chunks, then `XmlTokenizer::end`: the token log delivered to the sink, newest first -/
def xmlTokensChunks (o : XmlTok.Opts) (m0 : XmlTok.Mach) (chunks : List XmlTok.Str) : Except String XmlTok.Out :=
  match xjFeedChunks o m0 chunks with
  | .error e => .error e
  | .ok m =>
    match XmlTok.finish o m with
    | .error e => .error ("PANIC " ++ e)
    | .ok mf => .ok mf.out

/-- **the joint parse**: tokenizer model on the chunks and `end()`, its tokens into the tree-builder model -/
def xmlParseChunks (o : XmlTok.Opts) (cfg : XmlTB.TbCfg) (m0 : XmlTok.Mach) (chunks : List XmlTok.Str) :
    Except String XmlTB.State :=
  match xmlTokensChunks o m0 chunks with
  | .error e => .error e
  | .ok out => XmlTB.run cfg XmlTB.State.init (xjToks out)

/-- a tokenizer as created by `XmlTokenizer::new` -/
def xjFresh (st : XmlTok.State) (bom : Bool) : XmlTok.Mach := { state := st, discardBom := bom }

end H5V.Props.C15
