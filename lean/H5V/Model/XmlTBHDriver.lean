import H5V.Proto
import H5V.Model.XmlTBH
import H5V.Model.XmlTBDriver
import H5V.Model.HtmlTBDriver
/- engine `xmltb`, mode `trace` (harness/src/engines/xmltb.rs speaks the same protocol):

   case    `xmltb<TAB>trace<TAB><tokens>` — tokens in the syntax of `xmltb<TAB>tok` (parsed by
           `XmlTBDriver.parseToken?`), fed into `XmlTreeBuilder::new` … `process_token` … `end()`
   output  `<trace>@V=<violations|->@H=<held after token 1>/<held after token 2>/…`
           trace: the `TreeSink` calls, `;`-joined, in the text of `harness/src/sinkops.rs`
                  (`TracingSink::log`): handles numbered in creation order (0 = document, a template
                  element is followed by its contents), `pe` with its message
           V:     `<op index>:CONTRACT-VIOLATION <op>:<clause>` joined by `|` — the clauses of
                  `H5V.Model.Dom.contractOk` that the call violates in the DOM in which it is made
           H:     the handle numbers `trace_handles` reports after each token (`held`), `,`-joined,
                  `-` when there is no token
           `PANIC <class>@<file>:<line>` when the builder (or the sink) panics. -/
namespace H5V.Model.XmlTBHDriver
open H5V.Model.Dom H5V.Model.XmlTBH
open H5V.Model.HtmlTBDriver (Handles showChild showFlags showOp joinOr)

/-- as `HtmlTBDriver.showOp`, but `parse_error` with its message (`pe,<hex>`) -/
def showOpX (h : Handles) : SinkOp → String
  | .parseError m => "pe," ++ Dom.hexStr m
  | op => showOp h op

/-- the first field of an op line (what `TracingSink::log` prefixes a violation with) -/
def opTag (op : SinkOp) : String := ((showOp { byId := #[], next := 0 } op).splitOn ",").headD ""

/-- the clauses of `childOk` (sinkops.rs `child_ok`) -/
def childViol (d : Dom) (newParent : Id) (mustBeParentless : Bool) : NodeOrText → List String
  | .text _ => []
  | .node c =>
    (if d.isInsertable c then [] else ["child-not-created-by-builder"]) ++
    (if mustBeParentless && (d.parentOf c).isSome then ["child-has-parent"] else []) ++
    (if d.isAncOrSelf c newParent then ["insert-under-self-or-descendant"] else [])

/-- the contract clauses a call violates, by the names of sinkops.rs, for the calls the XML tree
builder makes (`C05Xml.whichViol_nil_iff`: empty exactly when `contractOk` holds); any other call:
`contract` when `contractOk` fails -/
def whichViol (d : Dom) : SinkOp → List String
  | .parseError _ => []
  | .getDocument => []
  | .createComment _ => []
  | .createPi _ _ => []
  | .elemName t => if d.isElement t then [] else ["not-an-element"]
  | .pop n => if d.isElement n then [] else ["not-an-element"]
  | .createElement _ attrs _ => if Dom.attrKeysNodup attrs then [] else ["duplicate-attribute-name"]
  | .append p c => (if d.isContainer p then [] else ["parent-not-container"]) ++ childViol d p true c
  | .appendDoctypeToDocument n p s =>
    if d.contractOk (.appendDoctypeToDocument n p s) then [] else ["second-doctype-or-after-element"]
  | op => if d.contractOk op then [] else ["contract"]

/-- replay the trace on a fresh DOM: handle table, rendered ops, violations -/
def replay (trace : List (SinkOp × Output)) : Handles × List String × List String :=
  let h0 : Handles := (Handles.add { byId := #[], next := 0 } Dom.document)
  let (h, ops, viol, _, _) := trace.foldl (fun (acc : Handles × List String × List String × Dom × Nat) (op, out) =>
    let (h, ops, viol, d, i) := acc
    let viol := ((whichViol d op).map (fun w => toString i ++ ":CONTRACT-VIOLATION " ++ opTag op ++ ":" ++ w)).reverse ++ viol
    let line := showOpX h op
    let d' := match d.apply op with | .ok (d', _) => d' | .error _ => d
    let h := match op, out with
      | .createElement .., .node id =>
        let h := h.add id
        (match d'.templateContentsOf id with | some tc => h.add tc | none => h)
      | .createComment _, .node id => h.add id
      | .createPi _ _, .node id => h.add id
      | _, _ => h
    (h, line :: ops, viol, d', i + 1)) (h0, [], [], Dom.new, 0)
  (h, ops.reverse, viol.reverse)

/-- `process_token` for every token, `held` recorded after each (newest first) -/
def runTokens (cfg : H5V.Model.XmlTB.TbCfg) : List H5V.Model.XmlTB.Token → List (List Id) → M (List (List Id))
  | [], acc => pure acc
  | t :: rest, acc => do
    let _ ← processToken cfg (.token t)
    runTokens cfg rest (held (← get) :: acc)

def showPanic (e : String) : String := "PANIC " ++ ((e.splitOn ": ").headD e)

def runTrace (toks : List H5V.Model.XmlTB.Token) : String :=
  let prog : M (List (List Id)) := do
    newTB
    let hs ← runTokens H5V.Model.XmlTB.TbCfg.current toks []
    finish
    pure hs
  match prog.run State.init with
  | .error e => showPanic e
  | .ok (hs, s) =>
    let (h, ops, viol) := replay s.traceRev.reverse
    joinOr ";" ops ++ "@V=" ++ joinOr "|" viol ++ "@H=" ++
      joinOr "/" (hs.reverse.map (fun l => joinOr "," (l.map h.show)))

def runCase (fields : List String) : String :=
  match fields with
  | ["trace", toks] =>
    match H5V.Model.XmlTBDriver.parseList? H5V.Model.XmlTBDriver.parseToken? toks with
    | some ts => runTrace ts
    | none => "bad-case"
  | _ => "bad-case"

end H5V.Model.XmlTBHDriver
