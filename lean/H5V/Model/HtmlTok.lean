import H5V.Gen.Entities
import H5V.Gen.C1
/-
Model of html5ever's HTML tokenizer (`html5ever/src/tokenizer/mod.rs`, `char_ref/mod.rs`).

Structure ("table × driver", DESIGN.md 3.2):
* `Mach` is everything the tokenizer holds *except the unread input*; the per-state transition
  functions (`transChar`, `transSet`, `transEof`) are pure functions on `Mach` — they cannot touch
  the input. They mirror the `match` arms of `Tokenizer::step` / `eof_step`.
* the *reader* (`getChar`, `peek`, `discardChar`, `popExceptFrom`, `eat`, the character-reference
  sub-tokenizer) is the only code that sees the input, a flat `List Char` (the concatenation of
  the BufferQueue; C13 proves the queue is partition-blind). Bulk reads are modelled one character
  at a time; tokens are compared after merging adjacent character tokens.
* every `assert!`/`unwrap`/`panic!` is an explicit `Sig.panic`/`R.panic`.
-/
namespace H5V.Model.HtmlTok

abbrev Str := List Char

inductive ScriptEscapeKind | escaped | doubleEscaped
deriving DecidableEq, Repr, Inhabited

inductive DoctypeIdKind | pub | sys
deriving DecidableEq, Repr, Inhabited

inductive RawKind
  | rcdata | rawtext | scriptData | scriptDataEscaped (k : ScriptEscapeKind)
deriving DecidableEq, Repr, Inhabited

inductive AttrValueKind | unquoted | singleQuoted | doubleQuoted
deriving DecidableEq, Repr, Inhabited

inductive State
  | data | plaintext | tagOpen | endTagOpen | tagName
  | rawData (k : RawKind) | rawLessThanSign (k : RawKind) | rawEndTagOpen (k : RawKind)
  | rawEndTagName (k : RawKind)
  | scriptDataEscapeStart (k : ScriptEscapeKind) | scriptDataEscapeStartDash
  | scriptDataEscapedDash (k : ScriptEscapeKind) | scriptDataEscapedDashDash (k : ScriptEscapeKind)
  | scriptDataDoubleEscapeEnd
  | beforeAttributeName | attributeName | afterAttributeName | beforeAttributeValue
  | attributeValue (k : AttrValueKind) | afterAttributeValueQuoted | selfClosingStartTag
  | bogusComment | markupDeclarationOpen
  | commentStart | commentStartDash | comment | commentLessThanSign | commentLessThanSignBang
  | commentLessThanSignBangDash | commentLessThanSignBangDashDash
  | commentEndDash | commentEnd | commentEndBang
  | doctype | beforeDoctypeName | doctypeName | afterDoctypeName
  | afterDoctypeKeyword (k : DoctypeIdKind) | beforeDoctypeIdentifier (k : DoctypeIdKind)
  | doctypeIdentifierDoubleQuoted (k : DoctypeIdKind) | doctypeIdentifierSingleQuoted (k : DoctypeIdKind)
  | afterDoctypeIdentifier (k : DoctypeIdKind) | betweenDoctypePublicAndSystemIdentifiers
  | bogusDoctype | cdataSection | cdataSectionBracket | cdataSectionEnd
deriving DecidableEq, Repr, Inhabited

def ScriptEscapeKind.dbg : ScriptEscapeKind → String
  | .escaped => "Escaped" | .doubleEscaped => "DoubleEscaped"
def DoctypeIdKind.dbg : DoctypeIdKind → String
  | .pub => "Public" | .sys => "System"
def RawKind.dbg : RawKind → String
  | .rcdata => "Rcdata" | .rawtext => "Rawtext" | .scriptData => "ScriptData"
  | .scriptDataEscaped k => "ScriptDataEscaped(" ++ k.dbg ++ ")"
def AttrValueKind.dbg : AttrValueKind → String
  | .unquoted => "Unquoted" | .singleQuoted => "SingleQuoted" | .doubleQuoted => "DoubleQuoted"

/-- Rust `{:?}` of `states::State` (appears in parse-error messages) -/
def State.dbg : State → String
  | .data => "Data" | .plaintext => "Plaintext" | .tagOpen => "TagOpen" | .endTagOpen => "EndTagOpen"
  | .tagName => "TagName"
  | .rawData k => "RawData(" ++ k.dbg ++ ")" | .rawLessThanSign k => "RawLessThanSign(" ++ k.dbg ++ ")"
  | .rawEndTagOpen k => "RawEndTagOpen(" ++ k.dbg ++ ")" | .rawEndTagName k => "RawEndTagName(" ++ k.dbg ++ ")"
  | .scriptDataEscapeStart k => "ScriptDataEscapeStart(" ++ k.dbg ++ ")"
  | .scriptDataEscapeStartDash => "ScriptDataEscapeStartDash"
  | .scriptDataEscapedDash k => "ScriptDataEscapedDash(" ++ k.dbg ++ ")"
  | .scriptDataEscapedDashDash k => "ScriptDataEscapedDashDash(" ++ k.dbg ++ ")"
  | .scriptDataDoubleEscapeEnd => "ScriptDataDoubleEscapeEnd"
  | .beforeAttributeName => "BeforeAttributeName" | .attributeName => "AttributeName"
  | .afterAttributeName => "AfterAttributeName" | .beforeAttributeValue => "BeforeAttributeValue"
  | .attributeValue k => "AttributeValue(" ++ k.dbg ++ ")"
  | .afterAttributeValueQuoted => "AfterAttributeValueQuoted" | .selfClosingStartTag => "SelfClosingStartTag"
  | .bogusComment => "BogusComment" | .markupDeclarationOpen => "MarkupDeclarationOpen"
  | .commentStart => "CommentStart" | .commentStartDash => "CommentStartDash" | .comment => "Comment"
  | .commentLessThanSign => "CommentLessThanSign" | .commentLessThanSignBang => "CommentLessThanSignBang"
  | .commentLessThanSignBangDash => "CommentLessThanSignBangDash"
  | .commentLessThanSignBangDashDash => "CommentLessThanSignBangDashDash"
  | .commentEndDash => "CommentEndDash" | .commentEnd => "CommentEnd" | .commentEndBang => "CommentEndBang"
  | .doctype => "Doctype" | .beforeDoctypeName => "BeforeDoctypeName" | .doctypeName => "DoctypeName"
  | .afterDoctypeName => "AfterDoctypeName"
  | .afterDoctypeKeyword k => "AfterDoctypeKeyword(" ++ k.dbg ++ ")"
  | .beforeDoctypeIdentifier k => "BeforeDoctypeIdentifier(" ++ k.dbg ++ ")"
  | .doctypeIdentifierDoubleQuoted k => "DoctypeIdentifierDoubleQuoted(" ++ k.dbg ++ ")"
  | .doctypeIdentifierSingleQuoted k => "DoctypeIdentifierSingleQuoted(" ++ k.dbg ++ ")"
  | .afterDoctypeIdentifier k => "AfterDoctypeIdentifier(" ++ k.dbg ++ ")"
  | .betweenDoctypePublicAndSystemIdentifiers => "BetweenDoctypePublicAndSystemIdentifiers"
  | .bogusDoctype => "BogusDoctype" | .cdataSection => "CdataSection"
  | .cdataSectionBracket => "CdataSectionBracket" | .cdataSectionEnd => "CdataSectionEnd"

/-! ### tokens -/

inductive TagKind | startTag | endTag
deriving DecidableEq, Repr, Inhabited

structure Attr where
  name : Str
  value : Str
deriving DecidableEq, Repr, Inhabited

structure Tag where
  kind : TagKind
  name : Str
  selfClosing : Bool
  attrs : List Attr
  hadDup : Bool
deriving DecidableEq, Repr, Inhabited

structure Doctype where
  name : Option Str := none
  publicId : Option Str := none
  systemId : Option Str := none
  forceQuirks : Bool := false
deriving DecidableEq, Repr, Inhabited

inductive Token
  | doctype (d : Doctype)
  | tag (t : Tag)
  | comment (s : Str)
  | chars (s : Str)
  | nullChar
  | eof
  | error (msg : Str)
  /-- marker, not a token of the Rust: the tokenizer returned `Script` / `EncodingIndicator` here -/
  | pause (script : Bool)
deriving DecidableEq, Repr, Inhabited

/-- answer of the sink to a tag token -/
inductive SinkRes | continue_ | plaintext | rawData (k : RawKind) | script | indicator
deriving DecidableEq, Repr, Inhabited

abbrev Out := List (Token × Nat)

/-- the sink as a pure policy over the history of tokens delivered so far (newest first) -/
structure Pol where
  onTag : Out → Tag → SinkRes
  cdataOk : Out → Bool

structure Opts where
  exactErrors : Bool
deriving DecidableEq, Repr, Inhabited

/-! ### character-reference sub-tokenizer state -/

inductive CRState | begin | octothorpe | numeric (base : Nat) | numericSemicolon | named | bogusName
deriving DecidableEq, Repr, Inhabited

structure CharRefSt where
  state : CRState := .begin
  inAttr : Bool
  num : Nat := 0            -- u32, wrapping
  numTooBig : Bool := false
  seenDigit : Bool := false
  hexMarker : Option Char := none
  nameBuf : Option Str := none
  nameMatch : Option (Nat × Nat) := none
  nameLen : Nat := 0
deriving DecidableEq, Repr, Inhabited

/-! ### machine state (everything except the unread input) -/

structure Mach where
  state : State := .data
  charRef : Option CharRefSt := none
  currentChar : Char := '\x00'
  reconsume : Bool := false
  ignoreLf : Bool := false
  tagKind : TagKind := .startTag
  tagName : Str := []
  tagSelfClosing : Bool := false
  tagHadDup : Bool := false
  tagAttrs : List Attr := []
  attrName : Str := []
  attrValue : Str := []
  comment : Str := []
  doctype : Doctype := {}
  lastStartTag : Option Str := none
  tempBuf : Str := []
  line : Nat := 1
  atEof : Bool := false
  discardBom : Bool := true
  /-- tokens delivered to the sink, newest first, each with the line number passed along -/
  out : Out := []
deriving Repr, Inhabited

inductive Sig | cont | script | indicator | panic (msg : String)
deriving DecidableEq, Repr, Inhabited

/-! ### small helpers (the `go!` shorthands) -/

def lowerAsciiLetter (c : Char) : Option Char :=
  if 'a' ≤ c ∧ c ≤ 'z' then some c
  else if 'A' ≤ c ∧ c ≤ 'Z' then some (Char.ofNat (c.toNat + 32))
  else none

def toAsciiLower (c : Char) : Char :=
  if 'A' ≤ c ∧ c ≤ 'Z' then Char.ofNat (c.toNat + 32) else c

def isAsciiAlnum (c : Char) : Bool :=
  ('a' ≤ c ∧ c ≤ 'z') || ('A' ≤ c ∧ c ≤ 'Z') || ('0' ≤ c ∧ c ≤ '9')

def isWs (c : Char) : Bool := c = '\t' || c = '\n' || c = '\x0c' || c = ' '

def emit (m : Mach) (t : Token) : Mach := { m with out := (t, m.line) :: m.out }

def emitErr (m : Mach) (msg : String) : Mach := emit m (.error msg.toList)

def emitChar (m : Mach) (c : Char) : Mach :=
  if c = '\x00' then emit m .nullChar else emit m (.chars [c])

def emitChars (m : Mach) (s : Str) : Mach := emit m (.chars s)

def badChar (o : Opts) (m : Mach) : Mach :=
  if o.exactErrors then emitErr m "Bad character"
  else emit m (.error ("Saw ".toList ++ [m.currentChar] ++ " in state ".toList ++ m.state.dbg.toList))

def badEof (o : Opts) (m : Mach) : Mach :=
  if o.exactErrors then emitErr m "Unexpected EOF"
  else emitErr m ("Saw EOF in state " ++ m.state.dbg)

def to (s : State) (m : Mach) : Mach := { m with state := s }
def reconsumeTo (s : State) (m : Mach) : Mach := { m with reconsume := true, state := s }

def discardTag (m : Mach) : Mach :=
  { m with tagName := [], tagSelfClosing := false, tagHadDup := false, tagAttrs := [] }

def createTag (k : TagKind) (c : Char) (m : Mach) : Mach :=
  let m := discardTag m
  { m with tagName := m.tagName ++ [c], tagKind := k }

def pushTag (c : Char) (m : Mach) : Mach := { m with tagName := m.tagName ++ [c] }
def pushTemp (c : Char) (m : Mach) : Mach := { m with tempBuf := m.tempBuf ++ [c] }
def clearTemp (m : Mach) : Mach := { m with tempBuf := [] }

def emitTempBuf (m : Mach) : Mach :=
  let b := m.tempBuf
  emitChars { m with tempBuf := [] } b

def finishAttribute (m : Mach) : Mach :=
  if m.attrName.isEmpty then m else
  let name := m.attrName
  let m := { m with attrName := [] }
  if m.tagAttrs.any (fun a => a.name == name) then
    let m := emitErr m "Duplicate attribute"
    { m with tagHadDup := true, attrValue := [] }
  else
    { m with tagAttrs := m.tagAttrs ++ [⟨name, m.attrValue⟩], attrValue := [] }

def createAttr (c : Char) (m : Mach) : Mach :=
  let m := finishAttribute m
  { m with attrName := m.attrName ++ [c] }

def pushName (c : Char) (m : Mach) : Mach := { m with attrName := m.attrName ++ [c] }
def pushValue (c : Char) (m : Mach) : Mach := { m with attrValue := m.attrValue ++ [c] }
def appendValue (s : Str) (m : Mach) : Mach := { m with attrValue := m.attrValue ++ s }
def pushComment (c : Char) (m : Mach) : Mach := { m with comment := m.comment ++ [c] }
def appendComment (s : String) (m : Mach) : Mach := { m with comment := m.comment ++ s.toList }
def clearComment (m : Mach) : Mach := { m with comment := [] }

def emitComment (m : Mach) : Mach :=
  let c := m.comment
  emit { m with comment := [] } (.comment c)

def createDoctype (m : Mach) : Mach := { m with doctype := {} }

def optPush (o : Option Str) (c : Char) : Option Str :=
  match o with
  | some s => some (s ++ [c])
  | none => some [c]

def pushDoctypeName (c : Char) (m : Mach) : Mach :=
  { m with doctype := { m.doctype with name := optPush m.doctype.name c } }

def pushDoctypeId (k : DoctypeIdKind) (c : Char) (m : Mach) : Mach :=
  match k with
  | .pub => { m with doctype := { m.doctype with publicId := optPush m.doctype.publicId c } }
  | .sys => { m with doctype := { m.doctype with systemId := optPush m.doctype.systemId c } }

def clearDoctypeId (k : DoctypeIdKind) (m : Mach) : Mach :=
  match k with
  | .pub => { m with doctype := { m.doctype with publicId := some [] } }
  | .sys => { m with doctype := { m.doctype with systemId := some [] } }

def forceQuirks (m : Mach) : Mach := { m with doctype := { m.doctype with forceQuirks := true } }

def emitDoctype (m : Mach) : Mach :=
  let d := m.doctype
  emit { m with doctype := {} } (.doctype d)

def haveAppropriateEndTag (m : Mach) : Bool :=
  match m.lastStartTag with
  | some last => m.tagKind == .endTag && m.tagName == last
  | none => false

def isAttrValueState : State → Bool
  | .attributeValue _ => true
  | _ => false

/-- `start_consuming_character_reference` -/
def consumeCharRef (m : Mach) : Mach × Sig :=
  match m.charRef with
  | some _ => (m, .panic "Nested character references are impossible")
  | none => ({ m with charRef := some { inAttr := isAttrValueState m.state } }, .cont)

/-- `emit_current_tag`, part 1: finish the pending attribute, remember the start tag name /
report the end-tag errors -/
def tagPrologue (m : Mach) : Mach :=
  let m := finishAttribute m
  match m.tagKind with
  | .startTag => { m with lastStartTag := some m.tagName }
  | .endTag =>
    let m := if !m.tagAttrs.isEmpty then emitErr m "Attributes on an end tag" else m
    if m.tagSelfClosing then emitErr m "Self-closing end tag" else m

/-- the tag token built from the registers -/
def currentTag (m : Mach) : Tag :=
  { kind := m.tagKind, name := m.tagName, selfClosing := m.tagSelfClosing,
    attrs := m.tagAttrs, hadDup := m.tagHadDup }

/-- name and attributes are moved into the token -/
def takeTag (m : Mach) : Mach := { m with tagName := [], tagAttrs := [] }

/-- what the tokenizer does with the sink's answer to a tag token -/
def applySinkRes (m : Mach) (r : SinkRes) : Mach × Sig :=
  match r with
  | .continue_ => (m, .cont)
  | .plaintext => (to .plaintext m, .cont)
  | .script => (emit (to .data m) (.pause true), .script)
  | .rawData k => (to (.rawData k) m, .cont)
  | .indicator => (emit m (.pause false), .indicator)

/-- `emit_current_tag` (the caller has already set the default next state) -/
def emitCurrentTag (pol : Pol) (m : Mach) : Mach × Sig :=
  let m := tagPrologue m
  let tag := currentTag m
  let m := takeTag m
  applySinkRes (emit m (.tag tag)) (pol.onTag m.out tag)

def emitTag (pol : Pol) (next : State) (m : Mach) : Mach × Sig := emitCurrentTag pol (to next m)

/-! ### transition table: states read with `get_char!` -/

/-- one iteration of the state's `loop` after `get_char!` delivered `c` -/
def transChar (o : Opts) (pol : Pol) (m : Mach) (c : Char) : Mach × Sig :=
  let ok (m : Mach) : Mach × Sig := (m, .cont)
  match m.state with
  | .tagOpen =>
    if c = '!' then ok (to .markupDeclarationOpen m)
    else if c = '/' then ok (to .endTagOpen m)
    else if c = '?' then ok (reconsumeTo .bogusComment (clearComment (badChar o m)))
    else match lowerAsciiLetter c with
      | some cl => ok (to .tagName (createTag .startTag cl m))
      | none => ok (reconsumeTo .data (emitChar (badChar o m) '<'))
  | .endTagOpen =>
    if c = '>' then ok (to .data (badChar o m))
    else match lowerAsciiLetter c with
      | some cl => ok (to .tagName (createTag .endTag cl m))
      | none => ok (reconsumeTo .bogusComment (clearComment (badChar o m)))
  | .tagName =>
    if isWs c then ok (to .beforeAttributeName m)
    else if c = '/' then ok (to .selfClosingStartTag m)
    else if c = '>' then emitTag pol .data m
    else if c = '\x00' then ok (pushTag '�' (badChar o m))
    else ok (pushTag (toAsciiLower c) m)
  | .rawLessThanSign (.scriptDataEscaped .escaped) =>
    if c = '/' then ok (to (.rawEndTagOpen (.scriptDataEscaped .escaped)) (clearTemp m))
    else match lowerAsciiLetter c with
      | some cl =>
        let m := pushTemp cl (clearTemp m)
        let m := emitChar (emitChar m '<') c
        ok (to (.scriptDataEscapeStart .doubleEscaped) m)
      | none => ok (reconsumeTo (.rawData (.scriptDataEscaped .escaped)) (emitChar m '<'))
  | .rawLessThanSign (.scriptDataEscaped .doubleEscaped) =>
    if c = '/' then ok (to .scriptDataDoubleEscapeEnd (emitChar (clearTemp m) '/'))
    else ok (reconsumeTo (.rawData (.scriptDataEscaped .doubleEscaped)) m)
  | .rawLessThanSign kind =>
    if c = '/' then ok (to (.rawEndTagOpen kind) (clearTemp m))
    else if c = '!' ∧ kind = .scriptData then
      ok (to (.scriptDataEscapeStart .escaped) (emitChar (emitChar m '<') '!'))
    else ok (reconsumeTo (.rawData kind) (emitChar m '<'))
  | .rawEndTagOpen kind =>
    match lowerAsciiLetter c with
    | some cl => ok (to (.rawEndTagName kind) (pushTemp c (createTag .endTag cl m)))
    | none => ok (reconsumeTo (.rawData kind) (emitChar (emitChar m '<') '/'))
  | .rawEndTagName kind =>
    let fallthrough (m : Mach) : Mach × Sig :=
      match lowerAsciiLetter c with
      | some cl => ok (pushTemp c (pushTag cl m))
      | none =>
        let m := discardTag m
        let m := emitChar (emitChar m '<') '/'
        let m := emitTempBuf m
        ok (reconsumeTo (.rawData kind) m)
    if haveAppropriateEndTag m then
      if isWs c then ok (to .beforeAttributeName (clearTemp m))
      else if c = '/' then ok (to .selfClosingStartTag (clearTemp m))
      else if c = '>' then emitTag pol .data (clearTemp m)
      else fallthrough m
    else fallthrough m
  | .scriptDataEscapeStart .doubleEscaped =>
    if isWs c || c = '/' || c = '>' then
      let esc := if m.tempBuf = "script".toList then ScriptEscapeKind.doubleEscaped else .escaped
      ok (to (.rawData (.scriptDataEscaped esc)) (emitChar m c))
    else match lowerAsciiLetter c with
      | some cl => ok (emitChar (pushTemp cl m) c)
      | none => ok (reconsumeTo (.rawData (.scriptDataEscaped .escaped)) m)
  | .scriptDataEscapeStart .escaped =>
    if c = '-' then ok (to .scriptDataEscapeStartDash (emitChar m '-'))
    else ok (reconsumeTo (.rawData .scriptData) m)
  | .scriptDataEscapeStartDash =>
    if c = '-' then ok (to (.scriptDataEscapedDashDash .escaped) (emitChar m '-'))
    else ok (reconsumeTo (.rawData .scriptData) m)
  | .scriptDataEscapedDash kind =>
    if c = '-' then ok (to (.scriptDataEscapedDashDash kind) (emitChar m '-'))
    else if c = '<' then
      let m := if kind = .doubleEscaped then emitChar m '<' else m
      ok (to (.rawLessThanSign (.scriptDataEscaped kind)) m)
    else if c = '\x00' then ok (to (.rawData (.scriptDataEscaped kind)) (emitChar (badChar o m) '�'))
    else ok (to (.rawData (.scriptDataEscaped kind)) (emitChar m c))
  | .scriptDataEscapedDashDash kind =>
    if c = '-' then ok (emitChar m '-')
    else if c = '<' then
      let m := if kind = .doubleEscaped then emitChar m '<' else m
      ok (to (.rawLessThanSign (.scriptDataEscaped kind)) m)
    else if c = '>' then ok (to (.rawData .scriptData) (emitChar m '>'))
    else if c = '\x00' then ok (to (.rawData (.scriptDataEscaped kind)) (emitChar (badChar o m) '�'))
    else ok (to (.rawData (.scriptDataEscaped kind)) (emitChar m c))
  | .scriptDataDoubleEscapeEnd =>
    if isWs c || c = '/' || c = '>' then
      let esc := if m.tempBuf = "script".toList then ScriptEscapeKind.escaped else .doubleEscaped
      ok (to (.rawData (.scriptDataEscaped esc)) (emitChar m c))
    else match lowerAsciiLetter c with
      | some cl => ok (emitChar (pushTemp cl m) c)
      | none => ok (reconsumeTo (.rawData (.scriptDataEscaped .doubleEscaped)) m)
  | .beforeAttributeName =>
    if isWs c then ok m
    else if c = '/' then ok (to .selfClosingStartTag m)
    else if c = '>' then emitTag pol .data m
    else if c = '\x00' then ok (to .attributeName (createAttr '�' (badChar o m)))
    else match lowerAsciiLetter c with
      | some cl => ok (to .attributeName (createAttr cl m))
      | none =>
        let m := if c = '"' || c = '\'' || c = '<' || c = '=' then badChar o m else m
        ok (to .attributeName (createAttr c m))
  | .attributeName =>
    if isWs c then ok (to .afterAttributeName m)
    else if c = '/' then ok (to .selfClosingStartTag m)
    else if c = '=' then ok (to .beforeAttributeValue m)
    else if c = '>' then emitTag pol .data m
    else if c = '\x00' then ok (pushName '�' (badChar o m))
    else match lowerAsciiLetter c with
      | some cl => ok (pushName cl m)
      | none =>
        let m := if c = '"' || c = '\'' || c = '<' then badChar o m else m
        ok (pushName c m)
  | .afterAttributeName =>
    if isWs c then ok m
    else if c = '/' then ok (to .selfClosingStartTag m)
    else if c = '=' then ok (to .beforeAttributeValue m)
    else if c = '>' then emitTag pol .data m
    else if c = '\x00' then ok (to .attributeName (createAttr '�' (badChar o m)))
    else match lowerAsciiLetter c with
      | some cl => ok (to .attributeName (createAttr cl m))
      | none =>
        let m := if c = '"' || c = '\'' || c = '<' then badChar o m else m
        ok (to .attributeName (createAttr c m))
  | .afterAttributeValueQuoted =>
    if isWs c then ok (to .beforeAttributeName m)
    else if c = '/' then ok (to .selfClosingStartTag m)
    else if c = '>' then emitTag pol .data m
    else ok (reconsumeTo .beforeAttributeName (badChar o m))
  | .selfClosingStartTag =>
    if c = '>' then emitTag pol .data { m with tagSelfClosing := true }
    else ok (reconsumeTo .beforeAttributeName (badChar o m))
  | .commentStart =>
    if c = '-' then ok (to .commentStartDash m)
    else if c = '\x00' then ok (to .comment (pushComment '�' (badChar o m)))
    else if c = '>' then ok (to .data (emitComment (badChar o m)))
    else ok (to .comment (pushComment c m))
  | .commentStartDash =>
    if c = '-' then ok (to .commentEnd m)
    else if c = '\x00' then ok (to .comment (appendComment "-�" (badChar o m)))
    else if c = '>' then ok (to .data (emitComment (badChar o m)))
    else ok (to .comment (pushComment c (pushComment '-' m)))
  | .comment =>
    if c = '<' then ok (to .commentLessThanSign (pushComment c m))
    else if c = '-' then ok (to .commentEndDash m)
    else if c = '\x00' then ok (pushComment '�' (badChar o m))
    else ok (pushComment c m)
  | .commentLessThanSign =>
    if c = '!' then ok (to .commentLessThanSignBang (pushComment c m))
    else if c = '<' then ok (pushComment c m)
    else ok (reconsumeTo .comment m)
  | .commentLessThanSignBang =>
    if c = '-' then ok (to .commentLessThanSignBangDash m)
    else ok (reconsumeTo .comment m)
  | .commentLessThanSignBangDash =>
    if c = '-' then ok (to .commentLessThanSignBangDashDash m)
    else ok (reconsumeTo .commentEndDash m)
  | .commentLessThanSignBangDashDash =>
    if c = '>' then ok (reconsumeTo .commentEnd m)
    else ok (reconsumeTo .commentEnd (badChar o m))
  | .commentEndDash =>
    if c = '-' then ok (to .commentEnd m)
    else if c = '\x00' then ok (to .comment (appendComment "-�" (badChar o m)))
    else ok (to .comment (pushComment c (pushComment '-' m)))
  | .commentEnd =>
    if c = '>' then ok (to .data (emitComment m))
    else if c = '!' then ok (to .commentEndBang m)
    else if c = '-' then ok (pushComment '-' m)
    else ok (reconsumeTo .comment (appendComment "--" m))
  | .commentEndBang =>
    if c = '-' then ok (to .commentEndDash (appendComment "--!" m))
    else if c = '>' then ok (to .data (emitComment (badChar o m)))
    else if c = '\x00' then ok (to .comment (appendComment "--!�" (badChar o m)))
    else ok (to .comment (pushComment c (appendComment "--!" m)))
  | .doctype =>
    if isWs c then ok (to .beforeDoctypeName m)
    else if c = '>' then ok (reconsumeTo .beforeDoctypeName m)
    else ok (reconsumeTo .beforeDoctypeName (badChar o m))
  | .beforeDoctypeName =>
    if isWs c then ok m
    else if c = '\x00' then ok (to .doctypeName (pushDoctypeName '�' (createDoctype (badChar o m))))
    else if c = '>' then ok (to .data (emitDoctype (forceQuirks (createDoctype (badChar o m)))))
    else ok (to .doctypeName (pushDoctypeName (toAsciiLower c) (createDoctype m)))
  | .doctypeName =>
    if isWs c then ok (to .afterDoctypeName (clearTemp m))
    else if c = '>' then ok (to .data (emitDoctype m))
    else if c = '\x00' then ok (pushDoctypeName '�' (badChar o m))
    else ok (pushDoctypeName (toAsciiLower c) m)
  | .afterDoctypeName =>  -- the `else` branch after both `eat!`s failed
    if isWs c then ok m
    else if c = '>' then ok (to .data (emitDoctype m))
    else ok (reconsumeTo .bogusDoctype (forceQuirks (badChar o m)))
  | .afterDoctypeKeyword kind =>
    if isWs c then ok (to (.beforeDoctypeIdentifier kind) m)
    else if c = '"' then ok (to (.doctypeIdentifierDoubleQuoted kind) (clearDoctypeId kind (badChar o m)))
    else if c = '\'' then ok (to (.doctypeIdentifierSingleQuoted kind) (clearDoctypeId kind (badChar o m)))
    else if c = '>' then ok (to .data (emitDoctype (forceQuirks (badChar o m))))
    else ok (reconsumeTo .bogusDoctype (forceQuirks (badChar o m)))
  | .beforeDoctypeIdentifier kind =>
    if isWs c then ok m
    else if c = '"' then ok (to (.doctypeIdentifierDoubleQuoted kind) (clearDoctypeId kind m))
    else if c = '\'' then ok (to (.doctypeIdentifierSingleQuoted kind) (clearDoctypeId kind m))
    else if c = '>' then ok (to .data (emitDoctype (forceQuirks (badChar o m))))
    else ok (reconsumeTo .bogusDoctype (forceQuirks (badChar o m)))
  | .doctypeIdentifierDoubleQuoted kind =>
    if c = '"' then ok (to (.afterDoctypeIdentifier kind) m)
    else if c = '\x00' then ok (pushDoctypeId kind '�' (badChar o m))
    else if c = '>' then ok (to .data (emitDoctype (forceQuirks (badChar o m))))
    else ok (pushDoctypeId kind c m)
  | .doctypeIdentifierSingleQuoted kind =>
    if c = '\'' then ok (to (.afterDoctypeIdentifier kind) m)
    else if c = '\x00' then ok (pushDoctypeId kind '�' (badChar o m))
    else if c = '>' then ok (to .data (emitDoctype (forceQuirks (badChar o m))))
    else ok (pushDoctypeId kind c m)
  | .afterDoctypeIdentifier .pub =>
    if isWs c then ok (to .betweenDoctypePublicAndSystemIdentifiers m)
    else if c = '>' then ok (to .data (emitDoctype m))
    else if c = '"' then ok (to (.doctypeIdentifierDoubleQuoted .sys) (clearDoctypeId .sys (badChar o m)))
    else if c = '\'' then ok (to (.doctypeIdentifierSingleQuoted .sys) (clearDoctypeId .sys (badChar o m)))
    else ok (reconsumeTo .bogusDoctype (forceQuirks (badChar o m)))
  | .afterDoctypeIdentifier .sys =>
    if isWs c then ok m
    else if c = '>' then ok (to .data (emitDoctype m))
    else ok (reconsumeTo .bogusDoctype (badChar o m))
  | .betweenDoctypePublicAndSystemIdentifiers =>
    if isWs c then ok m
    else if c = '>' then ok (to .data (emitDoctype m))
    else if c = '"' then ok (to (.doctypeIdentifierDoubleQuoted .sys) (clearDoctypeId .sys m))
    else if c = '\'' then ok (to (.doctypeIdentifierSingleQuoted .sys) (clearDoctypeId .sys m))
    else ok (reconsumeTo .bogusDoctype (forceQuirks (badChar o m)))
  | .bogusDoctype =>
    if c = '>' then ok (to .data (emitDoctype m))
    else if c = '\x00' then ok (badChar o m)
    else ok m
  | .bogusComment =>
    if c = '>' then ok (to .data (emitComment m))
    else if c = '\x00' then ok (pushComment '�' (badChar o m))
    else ok (pushComment c m)
  | .cdataSection =>
    if c = ']' then ok (to .cdataSectionBracket m)
    else if c = '\x00' then ok (emitChar (emitTempBuf m) '\x00')
    else ok (pushTemp c m)
  | .cdataSectionBracket =>
    if c = ']' then ok (to .cdataSectionEnd m)
    else ok (reconsumeTo .cdataSection (pushTemp ']' m))
  | .cdataSectionEnd =>
    if c = ']' then ok (pushTemp ']' m)
    else if c = '>' then ok (to .data (emitTempBuf m))
    else ok (reconsumeTo .cdataSection (pushTemp ']' (pushTemp ']' m)))
  -- states not read with get_char!: unreachable from `step`
  | .data | .plaintext | .rawData _ | .attributeValue _ | .beforeAttributeValue
  | .markupDeclarationOpen => (m, .panic "transChar: state is not a get_char state")

/-! ### transition table: states read with `pop_except_from` -/

inductive SetRes | fromSet (c : Char) | notFromSet (run : Str)
deriving DecidableEq, Repr

def transSet (o : Opts) (pol : Pol) (m : Mach) (r : SetRes) : Mach × Sig :=
  let ok (m : Mach) : Mach × Sig := (m, .cont)
  match m.state, r with
  | .data, .fromSet c =>
    if c = '\x00' then ok (emitChar (badChar o m) '\x00')
    else if c = '&' then consumeCharRef m
    else if c = '<' then ok (to .tagOpen m)
    else ok (emitChar m c)
  | .data, .notFromSet b => ok (emitChars m b)
  | .rawData .rcdata, .fromSet c =>
    if c = '\x00' then ok (emitChar (badChar o m) '�')
    else if c = '&' then consumeCharRef m
    else if c = '<' then ok (to (.rawLessThanSign .rcdata) m)
    else ok (emitChar m c)
  | .rawData .rcdata, .notFromSet b => ok (emitChars m b)
  | .rawData .rawtext, .fromSet c =>
    if c = '\x00' then ok (emitChar (badChar o m) '�')
    else if c = '<' then ok (to (.rawLessThanSign .rawtext) m)
    else ok (emitChar m c)
  | .rawData .rawtext, .notFromSet b => ok (emitChars m b)
  | .rawData .scriptData, .fromSet c =>
    if c = '\x00' then ok (emitChar (badChar o m) '�')
    else if c = '<' then ok (to (.rawLessThanSign .scriptData) m)
    else ok (emitChar m c)
  | .rawData .scriptData, .notFromSet b => ok (emitChars m b)
  | .rawData (.scriptDataEscaped .escaped), .fromSet c =>
    if c = '\x00' then ok (emitChar (badChar o m) '�')
    else if c = '-' then ok (to (.scriptDataEscapedDash .escaped) (emitChar m '-'))
    else if c = '<' then ok (to (.rawLessThanSign (.scriptDataEscaped .escaped)) m)
    else ok (emitChar m c)
  | .rawData (.scriptDataEscaped .escaped), .notFromSet b => ok (emitChars m b)
  | .rawData (.scriptDataEscaped .doubleEscaped), .fromSet c =>
    if c = '\x00' then ok (emitChar (badChar o m) '�')
    else if c = '-' then ok (to (.scriptDataEscapedDash .doubleEscaped) (emitChar m '-'))
    else if c = '<' then ok (to (.rawLessThanSign (.scriptDataEscaped .doubleEscaped)) (emitChar m '<'))
    else ok (emitChar m c)
  | .rawData (.scriptDataEscaped .doubleEscaped), .notFromSet b => ok (emitChars m b)
  | .plaintext, .fromSet c =>
    if c = '\x00' then ok (emitChar (badChar o m) '�')
    else ok (emitChar m c)
  | .plaintext, .notFromSet b => ok (emitChars m b)
  | .attributeValue .doubleQuoted, .fromSet c =>
    if c = '"' then ok (to .afterAttributeValueQuoted m)
    else if c = '&' then consumeCharRef m
    else if c = '\x00' then ok (pushValue '�' (badChar o m))
    else ok (pushValue c m)
  | .attributeValue .singleQuoted, .fromSet c =>
    if c = '\'' then ok (to .afterAttributeValueQuoted m)
    else if c = '&' then consumeCharRef m
    else if c = '\x00' then ok (pushValue '�' (badChar o m))
    else ok (pushValue c m)
  | .attributeValue .unquoted, .fromSet c =>
    if isWs c then ok (to .beforeAttributeName m)
    else if c = '&' then consumeCharRef m
    else if c = '>' then emitTag pol .data m
    else if c = '\x00' then ok (pushValue '�' (badChar o m))
    else
      let m := if c = '"' || c = '\'' || c = '<' || c = '=' || c = '`' then badChar o m else m
      ok (pushValue c m)
  | .attributeValue _, .notFromSet b => ok (appendValue b m)
  | _, _ => (m, .panic "transSet: state is not a pop_except_from state")

/-- members of the `small_char_set!` of each `pop_except_from` state (checked against
`H5V.Gen.TokSets`, which is regenerated from the source, by theorem `tokSets_match`) -/
def setOf : State → List Char
  | .data => ['\x00', '\n', '\r', '&', '<']
  | .rawData .rcdata => ['\x00', '\n', '\r', '&', '<']
  | .rawData .rawtext => ['\x00', '\n', '\r', '<']
  | .rawData .scriptData => ['\x00', '\n', '\r', '<']
  | .rawData (.scriptDataEscaped _) => ['\x00', '\n', '\r', '-', '<']
  | .plaintext => ['\x00', '\n', '\r']
  | .attributeValue .doubleQuoted => ['\x00', '\n', '\r', '"', '&']
  | .attributeValue .singleQuoted => ['\x00', '\n', '\r', '&', '\'']
  | .attributeValue .unquoted => ['\x00', '\t', '\n', '\x0c', '\r', ' ', '&', '>']
  | _ => []

/-- characters on which the SIMD fast path of the data state declines / stops -/
def simdFirst : List Char := ['\x00', '\n', '\r', '&', '<']
def simdStop : List Char := ['\x00', '\r', '&', '<']

/-! ### EOF table (`eof_step`) -/

inductive EofSig | cont | done | panic (msg : String)
deriving DecidableEq, Repr

def transEof (o : Opts) (m : Mach) : Mach × EofSig :=
  let ok (m : Mach) : Mach × EofSig := (m, .cont)
  match m.state with
  | .data | .rawData .rcdata | .rawData .rawtext | .rawData .scriptData | .plaintext =>
    (emit m .eof, .done)
  | .tagName | .rawData (.scriptDataEscaped _) | .beforeAttributeName | .attributeName
  | .afterAttributeName | .attributeValue _ | .afterAttributeValueQuoted | .selfClosingStartTag
  | .scriptDataEscapedDash _ | .scriptDataEscapedDashDash _ => ok (to .data (badEof o m))
  | .beforeAttributeValue => ok (reconsumeTo (.attributeValue .unquoted) m)
  | .tagOpen => ok (to .data (emitChar (badEof o m) '<'))
  | .endTagOpen => ok (to .data (emitChar (emitChar (badEof o m) '<') '/'))
  | .rawLessThanSign (.scriptDataEscaped .doubleEscaped) =>
    ok (to (.rawData (.scriptDataEscaped .doubleEscaped)) m)
  | .rawLessThanSign kind => ok (to (.rawData kind) (emitChar m '<'))
  | .rawEndTagOpen kind => ok (to (.rawData kind) (emitChar (emitChar m '<') '/'))
  | .rawEndTagName kind => ok (to (.rawData kind) (emitTempBuf (emitChar (emitChar m '<') '/')))
  | .scriptDataEscapeStart kind => ok (to (.rawData (.scriptDataEscaped kind)) m)
  | .scriptDataEscapeStartDash => ok (to (.rawData .scriptData) m)
  | .scriptDataDoubleEscapeEnd => ok (to (.rawData (.scriptDataEscaped .doubleEscaped)) m)
  | .commentStart | .commentStartDash | .comment | .commentEndDash | .commentEnd | .commentEndBang =>
    ok (to .data (emitComment (badEof o m)))
  | .commentLessThanSign | .commentLessThanSignBang => ok (reconsumeTo .comment m)
  | .commentLessThanSignBangDash => ok (reconsumeTo .commentEndDash m)
  | .commentLessThanSignBangDashDash => ok (reconsumeTo .commentEnd m)
  | .doctype | .beforeDoctypeName =>
    ok (to .data (emitDoctype (forceQuirks (createDoctype (badEof o m)))))
  | .doctypeName | .afterDoctypeName | .afterDoctypeKeyword _ | .beforeDoctypeIdentifier _
  | .doctypeIdentifierDoubleQuoted _ | .doctypeIdentifierSingleQuoted _ | .afterDoctypeIdentifier _
  | .betweenDoctypePublicAndSystemIdentifiers => ok (to .data (emitDoctype (forceQuirks (badEof o m))))
  | .bogusDoctype => ok (to .data (emitDoctype m))
  | .bogusComment => ok (to .data (emitComment m))
  | .markupDeclarationOpen => ok (to .bogusComment (badChar o m))
  | .cdataSection => ok (to .data (badEof o (emitTempBuf m)))
  | .cdataSectionBracket => ok (to .cdataSection (pushTemp ']' m))
  | .cdataSectionEnd => ok (to .cdataSection (pushTemp ']' (pushTemp ']' m)))

/-! ### the reader: the only code that sees the unread input

Every primitive takes the machine `m` and the unread input `inp` separately and returns the new
pair; all machine updates go through small named setters so that proofs about the *input
discipline* never have to unfold a structure update. -/

structure Cfg where
  m : Mach
  inp : Str
deriving Repr, Inhabited

def Mach.setIgnoreLf (m : Mach) (b : Bool) : Mach := { m with ignoreLf := b }
def Mach.setReconsume (m : Mach) (b : Bool) : Mach := { m with reconsume := b }
def Mach.setTempBuf (m : Mach) (s : Str) : Mach := { m with tempBuf := s }
def Mach.setCharRef (m : Mach) (cr : Option CharRefSt) : Mach := { m with charRef := cr }
def Mach.setAtEof (m : Mach) (b : Bool) : Mach := { m with atEof := b }
def Mach.setDiscardBom (m : Mach) (b : Bool) : Mach := { m with discardBom := b }
def Mach.bumpLine (m : Mach) : Mach := { m with line := m.line + 1 }
def Mach.setCurrentChar (m : Mach) (c : Char) : Mach := { m with currentChar := c }

def badCharClass (c : Char) : Bool :=
  let n := c.toNat
  (0x01 ≤ n ∧ n ≤ 0x08) || n = 0x0B || (0x0E ≤ n ∧ n ≤ 0x1F) || (0x7F ≤ n ∧ n ≤ 0x9F)
    || (0xFDD0 ≤ n ∧ n ≤ 0xFDEF) || (n &&& 0xFFFE) = 0xFFFE

/-- the input-independent half of `get_preprocessed_char`: CR→LF (remembering to ignore a following
LF), line counting, the `exact_errors` character check, `current_char` -/
def foldChar (o : Opts) (m : Mach) (c : Char) : Char × Mach :=
  let cm : Char × Mach := if c = '\r' then ('\n', m.setIgnoreLf true) else (c, m)
  let m := if cm.1 = '\n' then cm.2.bumpLine else cm.2
  let m := if o.exactErrors && badCharClass cm.1 then
      emit m (.error ("Bad character ".toList ++ [cm.1])) else m
  (cm.1, m.setCurrentChar cm.1)

/-- `get_preprocessed_char`: `c` was already taken from the input. `none` = the LF of a CRLF was
swallowed and the input ran dry. -/
def preprocess (o : Opts) (m : Mach) (c : Char) (inp : Str) : Option Char × Mach × Str :=
  if m.ignoreLf then
    if c = '\n' then
      match inp with
      | [] => (none, m.setIgnoreLf false, [])
      | c' :: rest =>
        let r := foldChar o (m.setIgnoreLf false) c'
        (some r.1, r.2, rest)
    else
      let r := foldChar o (m.setIgnoreLf false) c
      (some r.1, r.2, inp)
  else
    let r := foldChar o m c
    (some r.1, r.2, inp)

/-- `get_char` -/
def getChar (o : Opts) (m : Mach) (inp : Str) : Option Char × Mach × Str :=
  if m.reconsume then (some m.currentChar, m.setReconsume false, inp)
  else match inp with
    | [] => (none, m, [])
    | c :: rest => preprocess o m c rest

/-- `peek` -/
def peek (m : Mach) (inp : Str) : Option Char :=
  if m.reconsume then some m.currentChar else inp.head?

/-- `discard_char` -/
def discardChar (m : Mach) (inp : Str) : Mach × Str :=
  if m.reconsume then (m.setReconsume false, inp) else (m, inp.tail)

/-- `Tokenizer::pop_except_from` with a one-character run (the Rust returns some non-empty prefix
of the maximal run; adjacent character tokens are merged before comparison) -/
def popExceptFrom (o : Opts) (set : List Char) (m : Mach) (inp : Str) : Option SetRes × Mach × Str :=
  if o.exactErrors || m.reconsume || m.ignoreLf then
    let r := getChar o m inp
    (r.1.map .fromSet, r.2)
  else match inp with
    | [] => (none, m, [])
    | c :: rest =>
      if set.contains c then
        let r := preprocess o m c rest
        (r.1.map .fromSet, r.2)
      else (some (.notFromSet [c]), m, rest)

/-- the data state's read: SIMD fast path when possible (x86_64/aarch64), else `pop_except_from` -/
def readData (o : Opts) (m : Mach) (inp : Str) : Option SetRes × Mach × Str :=
  if o.exactErrors || m.reconsume || m.ignoreLf then popExceptFrom o (setOf .data) m inp
  else match inp with
    | [] => (none, m, [])
    | c :: rest =>
      if simdFirst.contains c then popExceptFrom o (setOf .data) m inp
      else
        -- a run of characters outside `simdStop`; newlines inside are counted in bulk
        (some (.notFromSet [c]), (if c = '\n' then m.bumpLine else m), rest)

/-- does `pat` match a prefix of `s` under `eq`? `none` = `s` is a proper matching prefix -/
def eatCmp (eq : Char → Char → Bool) : Str → Str → Option Bool
  | _, [] => some true
  | [], _ :: _ => none
  | c :: s, p :: ps => if eq c p then eatCmp eq s ps else some false

def eqCi (a b : Char) : Bool := toAsciiLower a == toAsciiLower b
def eqExact (a b : Char) : Bool := a == b

/-- the `ignore_lf` prologue of `Tokenizer::eat` (fixed behaviour: the flag survives when no
character is available yet) -/
def eatSkipLf (m : Mach) (inp : Str) : Mach × Str :=
  if m.ignoreLf then
    match peek m inp with
    | some c =>
      if c = '\n' then discardChar (m.setIgnoreLf false) inp else (m.setIgnoreLf false, inp)
    | none => (m, inp)
  else (m, inp)

/-- `Tokenizer::eat` (with `BufferQueue::eat`): `none` = need more input (everything available was
stashed in `temp_buf`) -/
def eat (m : Mach) (inp : Str) (pat : Str) (eq : Char → Char → Bool) : Option Bool × Mach × Str :=
  let mi := eatSkipLf m inp
  -- push_front(temp_buf)
  let all := mi.1.tempBuf ++ mi.2
  match eatCmp eq all pat with
  | some true => (some true, mi.1.setTempBuf [], all.drop pat.length)
  | some false => (some false, mi.1.setTempBuf [], all)
  | none =>
    if mi.1.atEof then (some false, mi.1.setTempBuf [], all)
    else (none, mi.1.setTempBuf all, [])

/-! ### named character references: lookup in the generated table

`build.rs` closes the key set under prefixes (value `(0,0)`) and `phf` maps the exact name.
Modelled as: exact row ⇒ its value; proper prefix of some row ⇒ `(0,0)`; otherwise `none`. -/

def isPrefixOf : List Nat → List Nat → Bool
  | [], _ => true
  | _ :: _, [] => false
  | a :: as, b :: bs => a == b && isPrefixOf as bs

/-- lookup on code points (kernel-friendly) -/
def entityLookupN (key : List Nat) : Option (Nat × Nat) :=
  match key with
  | [] => some (0, 0)
  | c :: _ =>
    let b := Gen.Entities.bucket c
    match b.find? (fun r => r.1 == key) with
    | some r => some r.2
    | none => if b.any (fun r => isPrefixOf key r.1) then some (0, 0) else none

def entityLookup (name : Str) : Option (Nat × Nat) := entityLookupN (name.map Char.toNat)

/-! ### character-reference sub-tokenizer -/

inductive CRStatus | stuck | progress | done (chars : Str)
deriving Repr

def toDigit (c : Char) (base : Nat) : Option Nat :=
  let n := c.toNat
  let d : Option Nat :=
    if '0' ≤ c ∧ c ≤ '9' then some (n - '0'.toNat)
    else if 'a' ≤ c ∧ c ≤ 'z' then some (n - 'a'.toNat + 10)
    else if 'A' ≤ c ∧ c ≤ 'Z' then some (n - 'A'.toNat + 10)
    else none
  match d with
  | some d => if d < base then some d else none
  | none => none

def hexDigitsUpper : List Char := "0123456789ABCDEF".toList

def hexUpperAux : Nat → Nat → Str → Str
  | 0, _, acc => acc
  | fuel + 1, n, acc =>
    let acc := hexDigitsUpper[n % 16]! :: acc
    if n < 16 then acc else hexUpperAux fuel (n / 16) acc

/-- `{:06X}` -/
def hex06 (n : Nat) : Str :=
  let s := hexUpperAux 16 n []
  List.replicate (6 - s.length) '0' ++ s

def isValidScalar (n : Nat) : Bool := n < 0xD800 || (0xE000 ≤ n && n ≤ 0x10FFFF)

def numericErr (o : Opts) (m : Mach) (n : Nat) : Mach :=
  if o.exactErrors then
    emit m (.error ("Invalid numeric character reference value 0x".toList ++ hex06 n))
  else emitErr m "Invalid numeric character reference"

/-- the value part of `finish_numeric`: (char or panic, is it a parse error) -/
def numericValue (cr : CharRefSt) : Except String Char × Bool :=
  let n := cr.num
  let conv (n : Nat) : Except String Char :=
    if isValidScalar n then .ok (Char.ofNat n) else .error "invalid char missed by error handling cases"
  if n > 0x10FFFF || cr.numTooBig then (.ok '�', true)
  else if n = 0 || (0xD800 ≤ n && n ≤ 0xDFFF) then (.ok '�', true)
  else if 0x80 ≤ n && n ≤ 0x9F then
    match Gen.C1.table[n - 0x80]? with
    | some (some r) => (conv r, true)
    | some none => (conv n, true)
    | none => (.error "C1_REPLACEMENTS index out of bounds", true)
  else if (0x01 ≤ n && n ≤ 0x08) || n = 0x0B || (0x0D ≤ n && n ≤ 0x1F) || n = 0x7F
      || (0xFDD0 ≤ n && n ≤ 0xFDEF) then (conv n, true)
  else if (n &&& 0xFFFE) = 0xFFFE then (conv n, true)
  else (conv n, false)

/-- `finish_numeric`; result: (machine with possible error, char or panic) -/
def finishNumeric (o : Opts) (m : Mach) (cr : CharRefSt) : Mach × Except String Char :=
  let v := numericValue cr
  (if v.2 then numericErr o m cr.num else m, v.1)

def nameErr (o : Opts) (m : Mach) (nameBuf : Str) : Mach :=
  if o.exactErrors then emit m (.error ("Invalid character reference &".toList ++ nameBuf))
  else emitErr m "Invalid character reference"

/-- result of one char-ref step: machine, input, sub-state, status; or a panic -/
abbrev CRRes := Except String (Mach × Str × CharRefSt × CRStatus)

def unconsumeNumeric (m : Mach) (inp : Str) (cr : CharRefSt) : CRRes :=
  let un : Str := '#' :: (match cr.hexMarker with | some c => [c] | none => [])
  .ok (emitErr m "Numeric character reference without digits", un ++ inp, cr, .done [])

def finishNumericStatus (o : Opts) (m : Mach) (inp : Str) (cr : CharRefSt) : CRRes :=
  match finishNumeric o m cr with
  | (m, .ok c) => .ok (m, inp, cr, .done [c])
  | (_, .error e) => .error e

/-- the input-independent decision of `finish_named` when there is a match:
`none` = un-consume everything; `some (m, chars)` = emit `chars`, un-consume the tail -/
def namedDecision (m : Mach) (cr : CharRefSt) (nameBuf : Str) (c1 c2 : Nat) :
    Except String (Option (Mach × Str)) :=
  let nameLen := cr.nameLen
  if nameLen = 0 then .error "assertion failed: name_len > 0" else
  match nameBuf[nameLen - 1]? with
  | none => .error "finish_named: slice index out of bounds"
  | some lastMatched =>
    let nextAfter : Option Char := if nameLen = nameBuf.length then none else nameBuf[nameLen]?
    let ua : Bool × Mach :=
      if lastMatched = ';' then (false, m)
      else if cr.inAttr && nextAfter = some '=' then (true, m)
      else if cr.inAttr && (match nextAfter with | some c => isAsciiAlnum c | none => false) then (true, m)
      else (false, emitErr m "Character reference does not end with semicolon")
    if ua.1 then .ok none
    else if !(isValidScalar c1 && isValidScalar c2) then .error "from_u32(c).unwrap()"
    else .ok (some (ua.2.setIgnoreLf false,
                    if c2 = 0 then [Char.ofNat c1] else [Char.ofNat c1, Char.ofNat c2]))

/-- `finish_named` -/
def finishNamed (o : Opts) (m : Mach) (inp : Str) (cr : CharRefSt) (endChar : Option Char) : CRRes :=
  match cr.nameBuf with
  | none => .error "name_buf missing in named character reference"
  | some nameBuf =>
  match cr.nameMatch with
  | none =>
    let continueBogus := match endChar with | some c => isAsciiAlnum c | none => false
    if continueBogus then .ok (m, inp, { cr with state := .bogusName }, .progress)
    else
      let m := match endChar with
        | some c => if c = ';' && nameBuf.length > 1 then nameErr o m nameBuf else m
        | none => m
      -- unconsume_name
      .ok (m, nameBuf ++ inp, { cr with nameBuf := none }, .done [])
  | some (c1, c2) =>
    match namedDecision m cr nameBuf c1 c2 with
    | .error e => .error e
    | .ok none => .ok (m, nameBuf ++ inp, { cr with nameBuf := none }, .done [])
    | .ok (some (m, chars)) => .ok (m, nameBuf.drop cr.nameLen ++ inp, cr, .done chars)

/-- `CharRefTokenizer::step` -/
def crStep (o : Opts) (m : Mach) (inp : Str) (cr : CharRefSt) : CRRes :=
  match peek m inp with
  | none => .ok (m, inp, cr, .stuck)
  | some c =>
    match cr.state with
    | .begin =>
      if isAsciiAlnum c then .ok (m, inp, { cr with state := .named, nameBuf := some [] }, .progress)
      else if c = '#' then
        let d := discardChar m inp
        .ok (d.1, d.2, { cr with state := .octothorpe }, .progress)
      else .ok (m, inp, cr, .done [])
    | .octothorpe =>
      if c = 'x' || c = 'X' then
        let d := discardChar m inp
        .ok (d.1, d.2, { cr with hexMarker := some c, state := .numeric 16 }, .progress)
      else .ok (m, inp, { cr with hexMarker := none, state := .numeric 10 }, .progress)
    | .numeric base =>
      match toDigit c base with
      | some n =>
        let num := (cr.num * base) % 4294967296
        let tooBig := cr.numTooBig || num > 0x10FFFF
        let num := (num + n) % 4294967296
        let d := discardChar m inp
        .ok (d.1, d.2, { cr with num := num, numTooBig := tooBig, seenDigit := true }, .progress)
      | none =>
        if !cr.seenDigit then unconsumeNumeric m inp cr
        else .ok (m, inp, { cr with state := .numericSemicolon }, .progress)
    | .numericSemicolon =>
      if c = ';' then
        let d := discardChar m inp
        finishNumericStatus o d.1 d.2 cr
      else finishNumericStatus o (emitErr m "Semicolon missing after numeric character reference") inp cr
    | .named =>
      let d := discardChar m inp
      match cr.nameBuf with
      | none => .error "name_buf missing in named character reference"
      | some nb =>
        let nb := nb ++ [c]
        let cr := { cr with nameBuf := some nb }
        match entityLookup nb with
        | some mt =>
          if mt.1 ≠ 0 then .ok (d.1, d.2, { cr with nameMatch := some mt, nameLen := nb.length }, .progress)
          else .ok (d.1, d.2, cr, .progress)
        | none => finishNamed o d.1 d.2 cr (some c)
    | .bogusName =>
      let d := discardChar m inp
      match cr.nameBuf with
      | none => .error "name_buf missing in named character reference"
      | some nb =>
        let nb := nb ++ [c]
        let cr := { cr with nameBuf := some nb }
        if isAsciiAlnum c then .ok (d.1, d.2, cr, .progress)
        else
          let m := if c = ';' then nameErr o d.1 nb else d.1
          .ok (m, nb ++ d.2, { cr with nameBuf := none }, .done [])

/-- `process_char_ref` -/
def processCharRef (m : Mach) (chars : Str) : Mach × Sig :=
  let chars := if chars.isEmpty then ['&'] else chars
  match m.state with
  | .data | .rawData .rcdata => (chars.foldl emitChar m, .cont)
  | .attributeValue _ => (chars.foldl (fun m c => pushValue c m) m, .cont)
  | _ => (m, .panic "state should not be reachable in process_char_ref")

/-- `end_of_file` of the char-ref tokenizer (loops until `Done`/`Stuck`; at most two rounds) -/
def crEof (o : Opts) (m : Mach) (inp : Str) (cr : CharRefSt) : Except String (Mach × Str × Str) :=
  let once (m : Mach) (inp : Str) (cr : CharRefSt) : CRRes :=
    match cr.state with
    | .begin => .ok (m, inp, cr, .done [])
    | .numeric _ =>
      if !cr.seenDigit then unconsumeNumeric m inp cr
      else finishNumericStatus o (emitErr m "EOF in numeric character reference") inp cr
    | .numericSemicolon =>
      finishNumericStatus o (emitErr m "EOF in numeric character reference") inp cr
    | .named => finishNamed o m inp cr none
    | .bogusName =>
      match cr.nameBuf with
      | none => .error "unconsume_name: unwrap on None"
      | some nb => .ok (m, nb ++ inp, { cr with nameBuf := none }, .done [])
    | .octothorpe =>
      .ok (emitErr m "EOF after '#' in character reference", '#' :: inp, cr, .done [])
  match once m inp cr with
  | .error e => .error e
  | .ok (m, inp, _, .done chars) => .ok (m, inp, chars)
  | .ok (m, inp, _, .stuck) => .ok (m, inp, [])
  | .ok (m, inp, cr, .progress) =>
    -- only `finish_named` with an alphanumeric end char returns Progress, impossible for `none`;
    -- the Rust loops; one more round reaches `bogusName` ⇒ Done
    match once m inp cr with
    | .error e => .error e
    | .ok (m, inp, _, .done chars) => .ok (m, inp, chars)
    | .ok (m, inp, _, _) => .ok (m, inp, [])

/-! ### one step of `Tokenizer::step` -/

inductive R
  | cont (m : Mach) (inp : Str)
  | suspend (m : Mach) (inp : Str)
  | script (m : Mach) (inp : Str)
  | indicator (m : Mach) (inp : Str)
  | panic (msg : String)
deriving Repr

def ofSig (ms : Mach × Sig) (inp : Str) : R :=
  match ms.2 with
  | .cont => .cont ms.1 inp
  | .script => .script ms.1 inp
  | .indicator => .indicator ms.1 inp
  | .panic e => .panic e

inductive ReadKind | getChar | popExcept | dataSimd | peekBav | eatMdo | eatAdn
deriving DecidableEq, Repr

def readKind : State → ReadKind
  | .data => .dataSimd
  | .rawData _ | .plaintext | .attributeValue _ => .popExcept
  | .beforeAttributeValue => .peekBav
  | .markupDeclarationOpen => .eatMdo
  | .afterDoctypeName => .eatAdn
  | _ => .getChar

def stepCharRef (o : Opts) (m : Mach) (inp : Str) (cr : CharRefSt) : R :=
  match crStep o m inp cr with
  | .error e => .panic e
  | .ok (m, inp, cr, .stuck) => .suspend (m.setCharRef (some cr)) inp
  | .ok (m, inp, cr, .progress) => .cont (m.setCharRef (some cr)) inp
  | .ok (m, inp, _, .done chars) =>
    let ms := processCharRef m chars
    ofSig (ms.1.setCharRef none, ms.2) inp

/-- the table of the before-attribute-value state on the peeked character (`none` in the result's
first component: nothing is consumed) -/
inductive BavAct | discard | consumeViaGetChar | stay
deriving DecidableEq, Repr

/-- `before-attribute-value` with `peek!`/`discard_char` (fixed behaviour, defect 5: line breaks
skipped here are counted) -/
def stepBav (o : Opts) (pol : Pol) (m : Mach) (inp : Str) : R :=
  match peek m inp with
  | none => .suspend m inp
  | some c =>
    -- the LF of a CRLF pair was already counted with its CR
    let skipLf := m.ignoreLf && c = '\n'
    let m := if m.ignoreLf then m.setIgnoreLf false else m
    if skipLf then
      let d := discardChar m inp
      .cont d.1 d.2
    else if c = '\n' || c = '\r' then
      match getChar o m inp with
      | (none, m, inp) => .suspend m inp
      | (some _, m, inp) => .cont m inp
    else if c = '\t' || c = '\x0c' || c = ' ' then
      let d := discardChar m inp
      .cont d.1 d.2
    else if c = '"' then
      let d := discardChar m inp
      .cont (to (.attributeValue .doubleQuoted) d.1) d.2
    else if c = '\'' then
      let d := discardChar m inp
      .cont (to (.attributeValue .singleQuoted) d.1) d.2
    else if c = '>' then
      let d := discardChar m inp
      ofSig (emitTag pol .data (badChar o d.1)) d.2
    else .cont (to (.attributeValue .unquoted) m) inp

/-- look-ahead keywords -/
def kwDashDash : Str := ['-', '-']
def kwDoctype : Str := ['d', 'o', 'c', 't', 'y', 'p', 'e']
def kwCdata : Str := ['[', 'C', 'D', 'A', 'T', 'A', '[']
def kwPublic : Str := ['p', 'u', 'b', 'l', 'i', 'c']
def kwSystem : Str := ['s', 'y', 's', 't', 'e', 'm']

def stepMdo (o : Opts) (pol : Pol) (m : Mach) (inp : Str) : R :=
  match eat m inp kwDashDash eqExact with
  | (none, m, inp) => .suspend m inp
  | (some true, m, inp) => .cont (to .commentStart (clearComment m)) inp
  | (some false, m, inp) =>
    match eat m inp kwDoctype eqCi with
    | (none, m, inp) => .suspend m inp
    | (some true, m, inp) => .cont (to .doctype m) inp
    | (some false, m, inp) =>
      if pol.cdataOk m.out then
        match eat m inp kwCdata eqExact with
        | (none, m, inp) => .suspend m inp
        | (some true, m, inp) => .cont (to .cdataSection (clearTemp m)) inp
        | (some false, m, inp) => .cont (to .bogusComment (clearComment (badChar o m))) inp
      else .cont (to .bogusComment (clearComment (badChar o m))) inp

def stepAdn (o : Opts) (pol : Pol) (m : Mach) (inp : Str) : R :=
  match eat m inp kwPublic eqCi with
  | (none, m, inp) => .suspend m inp
  | (some true, m, inp) => .cont (to (.afterDoctypeKeyword .pub) m) inp
  | (some false, m, inp) =>
    match eat m inp kwSystem eqCi with
    | (none, m, inp) => .suspend m inp
    | (some true, m, inp) => .cont (to (.afterDoctypeKeyword .sys) m) inp
    | (some false, m, inp) =>
      match getChar o m inp with
      | (none, m, inp) => .suspend m inp
      | (some c, m, inp) => ofSig (transChar o pol m c) inp

def step (o : Opts) (pol : Pol) (m : Mach) (inp : Str) : R :=
  match m.charRef with
  | some cr => stepCharRef o m inp cr
  | none =>
    match readKind m.state with
    | .getChar =>
      match getChar o m inp with
      | (none, m, inp) => .suspend m inp
      | (some c, m, inp) => ofSig (transChar o pol m c) inp
    | .popExcept =>
      match popExceptFrom o (setOf m.state) m inp with
      | (none, m, inp) => .suspend m inp
      | (some r, m, inp) => ofSig (transSet o pol m r) inp
    | .dataSimd =>
      match readData o m inp with
      | (none, m, inp) => .suspend m inp
      | (some r, m, inp) => ofSig (transSet o pol m r) inp
    | .peekBav => stepBav o pol m inp
    | .eatMdo => stepMdo o pol m inp
    | .eatAdn => stepAdn o pol m inp

/-! ### `run`, `feed`, `end` -/

inductive RunRes
  | done (m : Mach) (inp : Str)          -- suspended: needs more input
  | script (m : Mach) (inp : Str)
  | indicator (m : Mach) (inp : Str)
  | panic (msg : String)
  | outOfFuel
deriving Repr

/-- `Tokenizer::run`: iterate `step` while it answers Continue -/
def run (o : Opts) (pol : Pol) : Nat → Mach → Str → RunRes
  | 0, _, _ => .outOfFuel
  | fuel + 1, m, inp =>
    match step o pol m inp with
    | .cont m inp => run o pol fuel m inp
    | .suspend m inp => .done m inp
    | .script m inp => .script m inp
    | .indicator m inp => .indicator m inp
    | .panic e => .panic e

/-- fuel that always suffices for `run` (theorem `C04_tok_run_terminates` in `Props/C04Term.lean`):
17 steps per unread or stashed character plus a constant -/
def fuelFor (m : Mach) (inp : Str) : Nat :=
  17 * (inp.length + m.tempBuf.length
        + (match m.charRef with | some cr => (cr.nameBuf.getD []).length + 2 | none => 0)) + 16

/-- the BOM prologue of `Tokenizer::feed` (fixed behaviour: the flag is consumed by the first
character ever seen) -/
def feedBom (m : Mach) (inp : Str) : Mach × Str :=
  match inp with
  | [] => (m, [])
  | c :: rest =>
    if m.discardBom then
      (m.setDiscardBom false, if c = '﻿' then rest else c :: rest)
    else (m, inp)

/-- `Tokenizer::feed` on the flat input: `inp` is what is left in the queue from earlier feeds
(non-empty only after a pause), `chunk` the newly pushed text -/
def feed (o : Opts) (pol : Pol) (m : Mach) (inp : Str) (chunk : Str) : RunRes :=
  let all := inp ++ chunk
  if all.isEmpty then .done m []
  else
    let mi := feedBom m all
    run o pol (fuelFor mi.1 mi.2) mi.1 mi.2

/-- the `eof_step` loop -/
def eofLoop (o : Opts) : Nat → Mach → Except String Mach
  | 0, _ => .error "eof loop out of fuel"
  | fuel + 1, m =>
    match transEof o m with
    | (m, .cont) => eofLoop o fuel m
    | (m, .done) => .ok m
    | (_, .panic e) => .error e

/-- `Tokenizer::end` (the caller's queue is not consulted: a fresh empty one is used) -/
def finish (o : Opts) (pol : Pol) (m : Mach) : Except String Mach :=
  let r : Except String (Mach × Str) :=
    match m.charRef with
    | none => .ok (m, [])
    | some cr =>
      match crEof o m [] cr with
      | .error e => .error e
      | .ok (m, inp, chars) =>
        match processCharRef (m.setCharRef none) chars with
        | (m, .cont) => .ok (m, inp)
        | (_, .panic e) => .error e
        | (_, _) => .error "process_char_ref: unexpected signal"
  match r with
  | .error e => .error e
  | .ok (m, inp) =>
    let m := m.setAtEof true
    match run o pol (fuelFor m inp) m inp with
    | .done m inp =>
      if !inp.isEmpty then .error "assertion failed: input.is_empty()" else
      eofLoop o 8 m
    | .script _ _ | .indicator _ _ =>
      .error "assertion failed: matches!(self.run(&input), TokenizerResult::Done)"
    | .panic e => .error e
    | .outOfFuel => .error "run out of fuel"

end H5V.Model.HtmlTok
