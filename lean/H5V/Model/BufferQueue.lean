/-
Model of `markup5ever/util/buffer_queue.rs` (BufferQueue) and `smallcharset.rs`.

A queue is the list of its buffers, each buffer the list of its characters.
Every `expect`/index panic of the Rust is an explicit `Except` branch.
`eat` is modelled at character level; the Rust compares bytes.  The bridge is proved in
`Props/C13Bytes.lean` (`C13_eat_bytes_eq_chars_all`: the literal byte-level loop over the UTF-8
encoding equals this model for every pattern under `==` / `eq_ignore_ascii_case`) and also
exercised by the correspondence check (engine `bq`).
-/
namespace H5V.Model.BQ

abbrev Buf := List Char

structure Queue where
  bufs : List Buf
deriving Repr, DecidableEq

/-- `SmallCharSet { bits: u64 }`. -/
structure CharSet where
  bits : Nat
deriving Repr, DecidableEq

/-- `b < 64 && contains(b)`; every byte of a non-ASCII character is ≥ 0x80, hence a non-member. -/
def CharSet.mem (s : CharSet) (c : Char) : Bool :=
  decide (c.toNat < 64) && s.bits.testBit c.toNat

inductive SetResult where
  | fromSet (c : Char)
  | notFromSet (run : List Char)
deriving Repr, DecidableEq

def empty : Queue := ⟨[]⟩

/-- the abstraction: the single concatenated stream -/
def abs (q : Queue) : List Char := q.bufs.flatten

/-- invariant "all buffers in the queue are non-empty" (the Rust `debug_assert!`) -/
def QInv (q : Queue) : Prop := ∀ b ∈ q.bufs, b ≠ []

def pushFront (q : Queue) (b : Buf) : Queue :=
  if b.isEmpty then q else ⟨b :: q.bufs⟩

def pushBack (q : Queue) (b : Buf) : Queue :=
  if b.isEmpty then q else ⟨q.bufs ++ [b]⟩

/-- drop the front buffer when it became empty (`now_empty`) -/
def reput (tl : Buf) (rest : List Buf) : Queue :=
  if tl.isEmpty then ⟨rest⟩ else ⟨tl :: rest⟩

def peek (q : Queue) : Except String (Option Char) :=
  match q.bufs with
  | [] => .ok none
  | [] :: _ => .error "peek: unwrap on empty buffer"
  | (c :: _) :: _ => .ok (some c)

def next (q : Queue) : Except String (Option Char × Queue) :=
  match q.bufs with
  | [] => .ok (none, q)
  | [] :: _ => .error "next: empty buffer in queue"
  | (c :: tl) :: rest => .ok (some c, reput tl rest)

def popExceptFrom (set : CharSet) (q : Queue) : Except String (Option SetResult × Queue) :=
  match q.bufs with
  | [] => .ok (none, q)
  | b :: rest =>
    let run := b.takeWhile (fun c => !set.mem c)
    let tl := b.dropWhile (fun c => !set.mem c)
    if !run.isEmpty then .ok (some (.notFromSet run), reput tl rest)
    else match b with
      | [] => .error "pop_except_from: empty buffer in queue"
      | c :: tl' => .ok (some (.fromSet c), reput tl' rest)

inductive EatR where
  | needMore
  | mismatch
  | matched (rest : List Buf)
  | panic
deriving Repr, DecidableEq

/-- the `for pattern_byte in pat.bytes()` loop: the second argument is the queue from
`buffers_exhausted` on, with `consumed_from_last` characters already dropped from its head -/
def eatGo (eq : Char → Char → Bool) : List Char → List Buf → EatR
  | [], bufs => .matched bufs
  | _ :: _, [] => .needMore
  | _ :: _, [] :: _ => .panic
  | p :: ps, (c :: cs) :: rest =>
    if !eq c p then .mismatch
    else if cs.isEmpty then eatGo eq ps rest else eatGo eq ps (cs :: rest)

/-- `BufferQueue::eat`.  `guardEmpty = true` models the early `self.buffers.borrow().front()?`. -/
def eat (pat : List Char) (eq : Char → Char → Bool) (q : Queue) : Except String (Option Bool × Queue) :=
  match eatGo eq pat q.bufs with
  | .needMore => .ok (none, q)
  | .mismatch => .ok (some false, q)
  | .matched rest => .ok (some true, ⟨rest⟩)
  | .panic => .error "eat: index out of bounds on empty buffer"

end H5V.Model.BQ
