/-
`H5V.Model.Dom` — the abstract DOM of the whole verification, and at the same time the executable
model of `rcdom/lib.rs` (RcDom's `TreeSink` implementation, its `Serialize` implementation and the
"clone an option into selectedcontent" helpers).

* The DOM is an **arena**: `Dom.nodes : Array Node`, a node id (`Id`) is an index into it.  Nodes are
  never freed (RcDom frees a node when the last `Rc` goes away; the model corresponds to a client
  that keeps every handle alive — `Drop for Node` and dangling `Weak` parents are not modelled).
* A `Node` has `data`, a `parent : Option Id` (RcDom: `Cell<Option<Weak<Node>>>`) and
  `children : List Id` (RcDom: `RefCell<Vec<Rc<Node>>>`).  The two are stored separately, exactly as
  in RcDom, so "parent links are consistent with child lists" is a *theorem* (`H5V.Props.C20`), not a
  construction.
* One function per `TreeSink` method (`Dom.append`, `Dom.appendBeforeSibling`, …) following the Rust
  statement by statement.  Every `panic!`/`assert!`/`unwrap`/`expect`/`RefCell` double borrow /
  `Vec` index failure is an explicit `.error "<site>"` branch — also for calls that violate the
  `TreeSink` contract.  Loops that do not terminate on cyclic structures in Rust take fuel and
  return `.error "diverges: …"` when it runs out.
* `SinkOp` has one constructor per `TreeSink` method; `Dom.apply` dispatches.  `Contract d op` is the
  documented calling contract of `TreeSink` (trait docs in `markup5ever/interface/tree_builder.rs`)
  as a decidable predicate; property C05 is "every call of the tree builders satisfies `Contract`".
* Text is `List Char` (`Str`), names are `QualName` = prefix / namespace / local name, compared
  structurally like the derived `PartialEq`/`Hash` of the Rust `QualName` (prefix included).

Id allocation mirrors the order of `Node::new` calls in Rust: `create_element` with the `template`
flag first creates the template-contents `Document` node (id `n`), then the element (id `n+1`).
A text node created by `append`/`append_before_sibling` takes the next id.

This file imports nothing (it is linked into the compiled model driver).
-/
namespace H5V.Model.Dom

abbrev Id := Nat
abbrev Str := List Char

/-- `markup5ever::QualName` (`prefix: Option<Prefix>, ns: Namespace, local: LocalName`). -/
structure QualName where
  pfx : Option Str := none
  ns : Str
  loc : Str
deriving Repr, DecidableEq, Inhabited

/-- `markup5ever::Attribute`. -/
structure Attr where
  name : QualName
  value : Str
deriving Repr, DecidableEq, Inhabited

inductive QuirksMode where
  | quirks | limitedQuirks | noQuirks
deriving Repr, DecidableEq, Inhabited

/-- `rcdom::NodeData`. -/
inductive NodeData where
  | document
  | doctype (name pubId sysId : Str)
  | text (contents : Str)
  | comment (contents : Str)
  | element (name : QualName) (attrs : List Attr) (templateContents : Option Id) (mathmlIP : Bool)
  | pi (target contents : Str)
deriving Repr, DecidableEq, Inhabited

/-- `rcdom::Node`. -/
structure Node where
  data : NodeData
  parent : Option Id := none
  children : List Id := []
deriving Repr, DecidableEq, Inhabited

/-- `rcdom::RcDom` (`document` is always node 0).  `errorsRev`: `parse_error` messages, newest first. -/
structure Dom where
  nodes : Array Node
  quirks : QuirksMode := .noQuirks
  errorsRev : List Str := []
deriving Repr, DecidableEq

/-- `NodeOrText<Handle>`. -/
inductive NodeOrText where
  | node (id : Id)
  | text (s : Str)
deriving Repr, DecidableEq, Inhabited

/-- `ElementFlags`; `hadDuplicateAttributes` is ignored by RcDom. -/
structure ElementFlags where
  template : Bool := false
  mathmlIP : Bool := false
  hadDuplicateAttributes : Bool := false
deriving Repr, DecidableEq, Inhabited

/-! ### names used by the selectedcontent code -/
def sSelect : Str := ['s','e','l','e','c','t']
def sOption : Str := ['o','p','t','i','o','n']
def sOptgroup : Str := ['o','p','t','g','r','o','u','p']
def sDatalist : Str := ['d','a','t','a','l','i','s','t']
def sHr : Str := ['h','r']
def sSelectedcontent : Str := ['s','e','l','e','c','t','e','d','c','o','n','t','e','n','t']
def sMultiple : Str := ['m','u','l','t','i','p','l','e']
def sSelected : Str := ['s','e','l','e','c','t','e','d']

/-! ### arena primitives -/
namespace Dom

/-- `RcDom::default()`: a lone `Document` node, no-quirks. -/
def new : Dom := { nodes := #[{ data := .document }] }

/-- id of the document node (`RcDom::document`) -/
def document : Id := 0

def size (d : Dom) : Nat := d.nodes.size

def node? (d : Dom) (i : Id) : Option Node := d.nodes[i]?

/-- handle dereference; the error branch is unreachable from Rust (a `Handle` is always alive) -/
def get (d : Dom) (i : Id) : Except String Node :=
  match d.nodes[i]? with
  | some n => .ok n
  | none => .error "model-bad-id: no such node id"

def setNode (d : Dom) (i : Id) (n : Node) : Dom := { d with nodes := d.nodes.setIfInBounds i n }

/-- `Node::new(data)`: fresh parentless childless node, returns its id -/
def alloc (d : Dom) (data : NodeData) : Dom × Id :=
  ({ d with nodes := d.nodes.push { data := data } }, d.nodes.size)

/-! total accessors used by specifications (`none`/`[]` on ids outside the arena) -/
def parentOf (d : Dom) (i : Id) : Option Id := (d.nodes[i]?).bind (·.parent)
def childrenOf (d : Dom) (i : Id) : List Id := match d.nodes[i]? with | some n => n.children | none => []
def dataOf (d : Dom) (i : Id) : Option NodeData := (d.nodes[i]?).map (·.data)

def isText (d : Dom) (i : Id) : Bool := match d.dataOf i with | some (.text _) => true | _ => false
def isElement (d : Dom) (i : Id) : Bool :=
  match d.dataOf i with | some (.element ..) => true | _ => false
def isDoctype (d : Dom) (i : Id) : Bool := match d.dataOf i with | some (.doctype ..) => true | _ => false
/-- nodes that may have children under the contract: `Document` (incl. template contents) and elements -/
def isContainer (d : Dom) (i : Id) : Bool :=
  match d.dataOf i with | some .document => true | some (.element ..) => true | _ => false
/-- nodes for which the tree builder can hold a handle that it may insert: results of
`create_element`, `create_comment`, `create_pi` -/
def isInsertable (d : Dom) (i : Id) : Bool :=
  match d.dataOf i with
  | some (.element ..) => true | some (.comment _) => true | some (.pi ..) => true | _ => false
def textOf (d : Dom) (i : Id) : Option Str := match d.dataOf i with | some (.text s) => some s | _ => none
def attrsOf (d : Dom) (i : Id) : List Attr := match d.dataOf i with | some (.element _ a _ _) => a | _ => []
def localNameOf (d : Dom) (i : Id) : Option Str :=
  match d.dataOf i with | some (.element n _ _ _) => some n.loc | _ => none
def templateContentsOf (d : Dom) (i : Id) : Option Id :=
  match d.dataOf i with | some (.element _ _ tc _) => tc | _ => none

end Dom

/-! ### list helpers (`Vec::remove`, `Vec::insert`, `iter().position`) -/

/-- position of the first occurrence -/
def indexOf? (t : Id) : List Id → Option Nat
  | [] => none
  | x :: xs => if x = t then some 0 else (indexOf? t xs).map (· + 1)

/-- `Vec::remove(i)` for `i < len` -/
def removeAt (l : List Id) (i : Nat) : List Id := l.take i ++ l.drop (i + 1)

/-- `Vec::insert(i, x)` for `i ≤ len` -/
def insertAt (l : List Id) (i : Nat) (x : Id) : List Id := l.take i ++ x :: l.drop i

namespace Dom

/-! ### free functions of rcdom/lib.rs -/

/-- `fn append(new_parent, child)` (lib.rs:295): set the parent pointer, `assert!` it was unset,
push onto the child list.  (The pointer is written *before* the assert.) -/
def appendRaw (d : Dom) (newParent child : Id) : Except String Dom := do
  let c ← d.get child
  if c.parent.isSome then throw "append-has-parent: fn append: assertion failed: previous_parent.is_none()"
  let d := d.setNode child { c with parent := some newParent }
  let p ← d.get newParent
  .ok (d.setNode newParent { p with children := p.children ++ [child] })

/-- `fn get_parent_and_index(target)` (lib.rs:303) -/
def getParentAndIndex (d : Dom) (target : Id) : Except String (Option (Id × Nat)) := do
  let t ← d.get target
  match t.parent with
  | none => .ok none
  | some p =>
    -- `weak.upgrade().expect("dangling weak pointer")`: arena nodes never die
    let pn ← d.get p
    match indexOf? target pn.children with
    | some i => .ok (some (p, i))
    | none => throw "parent-mismatch: get_parent_and_index: have parent but couldn't find in parent's children!"

/-- `fn remove_from_parent(target)` (lib.rs:333) -/
def removeFromParent (d : Dom) (target : Id) : Except String Dom := do
  match ← d.getParentAndIndex target with
  | none => .ok d
  | some (p, i) =>
    let pn ← d.get p
    let d := d.setNode p { pn with children := removeAt pn.children i }
    let t ← d.get target
    .ok (d.setNode target { t with parent := none })

/-! ### TreeSink for RcDom -/

/-- `get_template_contents` (lib.rs:373) -/
def getTemplateContents (d : Dom) (target : Id) : Except String Id := do
  let t ← d.get target
  match t.data with
  | .element _ _ (some tc) _ => .ok tc
  | .element _ _ none _ => throw "not-template: get_template_contents: expect(\"not a template element!\")"
  | _ => throw "not-template: get_template_contents: panic!(\"not a template element!\")"

def setQuirksMode (d : Dom) (m : QuirksMode) : Dom := { d with quirks := m }

def parseError (d : Dom) (msg : Str) : Dom := { d with errorsRev := msg :: d.errorsRev }

/-- `same_node` = `Rc::ptr_eq` -/
def sameNode (_d : Dom) (x y : Id) : Bool := x == y

/-- `elem_name` (lib.rs:397): the expanded name (namespace, local) -/
def elemName (d : Dom) (target : Id) : Except String (Str × Str) := do
  let t ← d.get target
  match t.data with
  | .element n _ _ _ => .ok (n.ns, n.loc)
  | _ => throw "not-element: elem_name"

/-- `create_element` (lib.rs:404).  Returns the element id; with `flags.template` the template
contents (a fresh `Document` node) has the id just below it. -/
def createElement (d : Dom) (name : QualName) (attrs : List Attr) (flags : ElementFlags) : Dom × Id :=
  if flags.template then
    let (d, tc) := d.alloc .document
    d.alloc (.element name attrs (some tc) flags.mathmlIP)
  else
    d.alloc (.element name attrs none flags.mathmlIP)

def createComment (d : Dom) (text : Str) : Dom × Id := d.alloc (.comment text)

def createPi (d : Dom) (target data : Str) : Dom × Id := d.alloc (.pi target data)

/-- `append` (lib.rs:428) -/
def append (d : Dom) (parent : Id) (child : NodeOrText) : Except String Dom := do
  match child with
  | .text s =>
    let pn ← d.get parent
    match pn.children.getLast? with
    | some h =>
      let hn ← d.get h
      match hn.data with
      | .text old => .ok (d.setNode h { hn with data := .text (old ++ s) })
      | _ =>
        let (d, id) := d.alloc (.text s)
        d.appendRaw parent id
    | none =>
      let (d, id) := d.alloc (.text s)
      d.appendRaw parent id
  | .node c => d.appendRaw parent c

/-- the tail of `append_before_sibling`: `remove_from_parent(&child)`, set the parent pointer,
`parent.children.insert(i, child)` with the index `i` computed *before* the removal -/
def insertAtIndex (d : Dom) (parent : Id) (i : Nat) (child : Id) : Except String Dom := do
  let d ← d.removeFromParent child
  let c ← d.get child
  let d := d.setNode child { c with parent := some parent }
  let pn ← d.get parent
  if i > pn.children.length then throw "insert-oob: append_before_sibling: Vec::insert index out of bounds"
  .ok (d.setNode parent { pn with children := insertAt pn.children i child })

/-- `append_before_sibling` (lib.rs:449) -/
def appendBeforeSibling (d : Dom) (sibling : Id) (child : NodeOrText) : Except String Dom := do
  match ← d.getParentAndIndex sibling with
  | none => throw "abs-no-parent: append_before_sibling called on node without parent"
  | some (parent, i) =>
    match child with
    | .text s =>
      if i = 0 then
        let (d, id) := d.alloc (.text s)
        d.insertAtIndex parent i id
      else
        let pn ← d.get parent
        match pn.children[i - 1]? with
        | none => throw "index-oob: append_before_sibling: children[i - 1]"
        | some prev =>
          let prevn ← d.get prev
          match prevn.data with
          | .text old => .ok (d.setNode prev { prevn with data := .text (old ++ s) })
          | _ =>
            let (d, id) := d.alloc (.text s)
            d.insertAtIndex parent i id
    | .node c => d.insertAtIndex parent i c

/-- `append_based_on_parent_node` (lib.rs:484) -/
def appendBasedOnParentNode (d : Dom) (element prevElement : Id) (child : NodeOrText) :
    Except String Dom := do
  let e ← d.get element
  if e.parent.isSome then d.appendBeforeSibling element child
  else d.append prevElement child

/-! **DEFECT SWITCH 2** (found by C20): `append_before_sibling` computes the sibling's index *before* it
detaches the new node from its old parent (lib.rs:450 vs 478), so a node that is an earlier child
of the same parent lands one position too far (after the sibling).  `.asCode` is the code as it
stands (`Dom.appendBeforeSibling` above); `.detachFirst` is the repaired order (detach, then look
the index up), what rcdom does since /repo 394a5e0; `.asCode` is kept as the record of the pinned
tree's behaviour. -/
inductive BeforeSiblingVariant where
  | asCode | detachFirst
deriving Repr, DecidableEq

/-- ← switch 2 (`.asCode` until /repo 394a5e0) -/
def beforeSiblingVariant : BeforeSiblingVariant := .detachFirst

def preDetach (b : BeforeSiblingVariant) (d : Dom) : NodeOrText → Except String Dom
  | .node c => match b with
    | .asCode => .ok d
    | .detachFirst => d.removeFromParent c
  | .text _ => .ok d

def appendBeforeSiblingV (b : BeforeSiblingVariant) (d : Dom) (sibling : Id) (child : NodeOrText) :
    Except String Dom := do
  let d ← preDetach b d child
  d.appendBeforeSibling sibling child

def appendBasedOnParentNodeV (b : BeforeSiblingVariant) (d : Dom) (element prevElement : Id)
    (child : NodeOrText) : Except String Dom := do
  let e ← d.get element
  if e.parent.isSome then appendBeforeSiblingV b d element child
  else d.append prevElement child

/-- `append_doctype_to_document` (lib.rs:501) -/
def appendDoctypeToDocument (d : Dom) (name pubId sysId : Str) : Except String Dom :=
  let (d, id) := d.alloc (.doctype name pubId sysId)
  d.appendRaw document id

/-- the attributes `add_attrs_if_missing` appends: those whose name is not among the names present
*before the call* (the Rust takes a snapshot `existing_names`, so a name repeated inside `attrs` is
added repeatedly) -/
def missingAttrs (existing attrs : List Attr) : List Attr :=
  attrs.filter (fun a => !(existing.map (·.name)).contains a.name)

/-- `add_attrs_if_missing` (lib.rs:517) -/
def addAttrsIfMissing (d : Dom) (target : Id) (attrs : List Attr) : Except String Dom := do
  let t ← d.get target
  match t.data with
  | .element n existing tc ip =>
    .ok (d.setNode target { t with data := .element n (existing ++ missingAttrs existing attrs) tc ip })
  | _ => throw "not-element: add_attrs_if_missing"

/-- the `for child in children.iter()` loop of `reparent_children` -/
def reparentLoop (d : Dom) (node newParent : Id) : List Id → Except String Dom
  | [] => .ok d
  | c :: cs => do
    let cn ← d.get c
    match cn.parent with
    | none => throw "unwrap-none: reparent_children: previous_parent.unwrap()"
    | some pp =>
      let d := d.setNode c { cn with parent := some newParent }
      if pp ≠ node then throw "reparent-assert: reparent_children: assertion failed: Rc::ptr_eq(node, previous_parent)"
      reparentLoop d node newParent cs

/-- `reparent_children` (lib.rs:539) -/
def reparentChildren (d : Dom) (node newParent : Id) : Except String Dom := do
  let n ← d.get node
  let _ ← d.get newParent
  if node = newParent then throw "borrow: reparent_children: RefCell already mutably borrowed (node == new_parent)"
  let d ← reparentLoop d node newParent n.children
  let n ← d.get node
  let np ← d.get newParent
  let d := d.setNode newParent { np with children := np.children ++ n.children }
  let n ← d.get node
  .ok (d.setNode node { n with children := [] })

/-- `is_mathml_annotation_xml_integration_point` (lib.rs:552) -/
def isMathmlAnnotationXmlIntegrationPoint (d : Dom) (target : Id) : Except String Bool := do
  let t ← d.get target
  match t.data with
  | .element _ _ _ ip => .ok ip
  | _ => throw "not-element: is_mathml_annotation_xml_integration_point"

/-! ### maybe_clone_an_option_into_selectedcontent

**DEFECT SWITCH** (DESIGN.md 1.3 item 11).  `CloneVariant.asCode` is rcdom/lib.rs of the pinned tree:
* `get_a_selects_enabled_selectedcontent` tests `self.data` (the `select`) instead of `node.data`
  inside its search loop, so it never finds a `selectedcontent` element;
* the search is breadth-first, not tree order;
* `clone_with_subtree` gives every clone the parent pointer *of the node it was cloned from*;
  a cloned `template` shares the template contents of the original;
* the replaced children of the `selectedcontent` keep their parent pointer.
`CloneVariant.fixed` is what the standard demands, and what rcdom does since /repo ebdbd68.
`cloneVariant` below selects the behaviour used by `Dom.apply`, i.e. by the `rcdom` engine and by
every model built on `Dom`; `.asCode` is kept as the record of the pinned tree's behaviour. -/
inductive CloneVariant where
  | asCode | fixed
deriving Repr, DecidableEq

/-- ← the switch (`.asCode` until /repo ebdbd68) -/
def cloneVariant : CloneVariant := .fixed

def hasAttrLocal (attrs : List Attr) (loc : Str) : Bool := attrs.any (fun a => a.name.loc == loc)

/-- `Node::get_option_element_nearest_ancestor_select` loop (lib.rs:137), `cur` = `current` -/
def nearestSelectLoop (d : Dom) : Nat → Id → Bool → Except String (Option Id)
  | 0, _, _ => .error "diverges: get_option_element_nearest_ancestor_select (cyclic parent chain)"
  | fuel + 1, cur, sawOptgroup => do
    let n ← d.get cur
    let step (saw : Bool) : Except String (Option Id) :=
      match n.parent with
      | none => .ok none
      | some p => nearestSelectLoop d fuel p saw
    match n.data with
    | .element name _ _ _ =>
      if name.loc = sDatalist ∨ name.loc = sHr ∨ name.loc = sOption then .ok none
      else if name.loc = sOptgroup then
        if sawOptgroup then .ok none else step true
      else if name.loc = sSelect then .ok (some cur)
      else step sawOptgroup
    | _ => step sawOptgroup

/-- `get_option_element_nearest_ancestor_select` (lib.rs:130) -/
def nearestAncestorSelect (d : Dom) (option : Id) : Except String (Option Id) := do
  let o ← d.get option
  match o.parent with
  | none => .ok none
  | some p => nearestSelectLoop d (d.size + 1) p false

/-- the `while let Some(node) = remaining.pop_front()` loop of
`get_a_selects_enabled_selectedcontent` (lib.rs:202), *as written*: the element test looks at
`self.data`, i.e. at the select (`selfLoc` = the select's local name), not at `node` -/
def bfsAsCode (d : Dom) (selfLoc : Str) : Nat → List Id → Except String (Option Id)
  | _, [] => .ok none
  | 0, _ :: _ => .error "diverges: get_a_selects_enabled_selectedcontent (cyclic tree)"
  | fuel + 1, node :: remaining => do
    let n ← d.get node
    let remaining := remaining ++ n.children
    if selfLoc = sSelectedcontent then .ok (some node)
    else bfsAsCode d selfLoc fuel remaining

/-- pre-order (tree order) list of `x` and its descendants, depth-bounded by the fuel -/
def preorderAux (d : Dom) : Nat → Id → List Id
  | 0, _ => []
  | fuel + 1, x => x :: (d.childrenOf x).flatMap (preorderAux d fuel)

/-- `x` and its descendants in tree order -/
def subtree (d : Dom) (x : Id) : List Id := preorderAux d d.size x

/-- the descendants of `x` in tree order -/
def descendants (d : Dom) (x : Id) : List Id := (d.childrenOf x).flatMap (d.subtree ·)

/-- all nodes of the document in tree order -/
def preorder (d : Dom) : List Id := d.subtree document

/-- `get_a_selects_enabled_selectedcontent` (lib.rs:182) -/
def enabledSelectedcontent (v : CloneVariant) (d : Dom) (select : Id) : Except String (Option Id) := do
  let s ← d.get select
  match s.data with
  | .element name attrs _ _ =>
    if name.loc ≠ sSelect then throw "debug-assert: get_a_selects_enabled_selectedcontent: debug_assert_eq!(local_name, select)"
    if hasAttrLocal attrs sMultiple then .ok none
    else match v with
      | .asCode => bfsAsCode d name.loc (d.size + 1) s.children
      | .fixed => .ok ((d.descendants select).find? (fun x => d.localNameOf x == some sSelectedcontent))
  | _ => throw "sc-non-element: Trying to get selectedcontent of non-element"

/-- `clone_with_subtree` (lib.rs:245) as written: children first, then `Rc::new` of the copy whose
parent pointer is a copy of the original's; template contents are shared.  Returns the clone's id. -/
def cloneAsCode (d : Dom) : Nat → Id → Except String (Dom × Id)
  | 0, _ => .error "diverges: clone_with_subtree (cyclic tree)"
  | fuel + 1, x => do
    let n ← d.get x
    let (d, kids) ← n.children.foldlM (fun (acc : Dom × List Id) c => do
        let (d', k) ← cloneAsCode acc.1 fuel c
        pure (d', acc.2 ++ [k])) (d, [])
    let id := d.nodes.size
    .ok ({ d with nodes := d.nodes.push { data := n.data, parent := n.parent, children := kids } }, id)

/-- the `for child in self.children` loop of the repaired `clone_with_subtree`: clone the child
(`cl`), point it to the copy (`parent`) and push it onto the copy's child list — exactly `fn append` -/
def cloneKidsWith (cl : Dom → Id → Except String (Dom × Id)) (parent : Id) : Dom → List Id → Except String Dom
  | d, [] => .ok d
  | d, c :: cs => do
    let (d, k) ← cl d c
    let d ← d.appendRaw parent k
    cloneKidsWith cl parent d cs

/-- `clone_with_subtree` as repaired (/repo ebdbd68), = the standard's "clone a node with subtree":
first the template contents (if any) are copied, then the copy is created parentless and childless,
then every child is copied and attached to it. -/
def cloneFixed (d : Dom) : Nat → Id → Except String (Dom × Id)
  | 0, _ => .error "diverges: clone_with_subtree (cyclic tree)"
  | fuel + 1, x => do
    let n ← d.get x
    let (d, data) ← match n.data with
      | .element name attrs (some tc) ip => do
        let (d', tc') ← cloneFixed d fuel tc
        pure (d', NodeData.element name attrs (some tc') ip)
      | other => pure (d, other)
    let (d, id) := d.alloc data
    let d ← cloneKidsWith (fun d c => cloneFixed d fuel c) id d n.children
    .ok (d, id)

/-- step 2 of "clone an option into a selectedcontent": the copies of the option's children, in order -/
def cloneListWith (cl : Dom → Id → Except String (Dom × Id)) : Dom → List Id → Except String (Dom × List Id)
  | d, [] => .ok (d, [])
  | d, c :: cs => do
    let (d, k) ← cl d c
    let (d, ks) ← cloneListWith cl d cs
    .ok (d, k :: ks)

/-- `old_child.parent.set(None)` for every listed node -/
def clearParents (d : Dom) : List Id → Dom
  | [] => d
  | c :: cs =>
    clearParents (match d.nodes[c]? with
      | some cn => d.setNode c { cn with parent := none }
      | none => d) cs

/-- "replace all", first half: the old children lose their parent and leave the child list -/
def detachChildren (d : Dom) (p : Id) : Except String Dom := do
  let pn ← d.get p
  let d := d.clearParents pn.children
  let pn ← d.get p
  .ok (d.setNode p { pn with children := [] })

/-- "replace all", second half: each copy gets `p` as parent and joins its child list, in order -/
def attachAll (d : Dom) (p : Id) : List Id → Except String Dom
  | [] => .ok d
  | k :: ks => do
    let d ← d.appendRaw p k
    attachAll d p ks

/-- `clone_an_option_into_selectedcontent` (lib.rs:223) -/
def cloneOptionInto (v : CloneVariant) (d : Dom) (option sc : Id) : Except String Dom := do
  let o ← d.get option
  match v with
  | .asCode =>
    let (d, frag) ← o.children.foldlM (fun (acc : Dom × List Id) c => do
        let (d', k) ← cloneAsCode acc.1 (acc.1.size + 1) c
        pure (d', acc.2 ++ [k])) (d, [])
    let scn ← d.get sc
    .ok (d.setNode sc { scn with children := frag })
  | .fixed =>
    -- step 2: the copies of the option's children …
    let (d, frag) ← cloneListWith (fun d c => cloneFixed d (d.size + 1) c) d o.children
    -- … step 3 "replace all" within the selectedcontent
    let d ← d.detachChildren sc
    d.attachAll sc frag

/-- the first half of `maybe_clone_an_option_into_selectedcontent` (lib.rs:564): the `selectedcontent`
element that is to mirror `option`, `none` when one of the conditions of the standard fails
(no nearest ancestor `select`, `select` is `multiple`, no `selectedcontent` descendant, the option has
no `selected` attribute).  The `debug_assert_eq!` on the local name `option` exists in debug builds
only (the harness is a debug build). -/
def cloneTarget (v : CloneVariant) (d : Dom) (option : Id) : Except String (Option Id) := do
  let o ← d.get option
  match o.data with
  | .element name attrs _ _ =>
    if name.loc ≠ sOption then
      throw "debug-assert: maybe_clone_an_option_into_selectedcontent: debug_assert_eq!(local_name, option)"
    match ← d.nearestAncestorSelect option with
    | none => .ok none
    | some select =>
      match ← d.enabledSelectedcontent v select with
      | none => .ok none
      | some sc => if hasAttrLocal attrs sSelected then .ok (some sc) else .ok none
  | _ => throw "mc-non-element: \"maybe clone an option into selectedcontent\" called with non-element node"

/-- `maybe_clone_an_option_into_selectedcontent` (lib.rs:564) -/
def maybeCloneOption (v : CloneVariant) (d : Dom) (option : Id) : Except String Dom := do
  match ← d.cloneTarget v option with
  | none => .ok d
  | some sc => d.cloneOptionInto v option sc

end Dom

/-! ### sink operations as data -/

/-- One constructor per `TreeSink` method (`finish` excepted).  Ids are arena ids. -/
inductive SinkOp where
  | parseError (msg : Str)
  | getDocument
  | elemName (target : Id)
  | createElement (name : QualName) (attrs : List Attr) (flags : ElementFlags)
  | createComment (text : Str)
  | createPi (target data : Str)
  | append (parent : Id) (child : NodeOrText)
  | appendBasedOnParentNode (element prevElement : Id) (child : NodeOrText)
  | appendDoctypeToDocument (name pubId sysId : Str)
  | markScriptAlreadyStarted (node : Id)
  | pop (node : Id)
  | getTemplateContents (target : Id)
  | sameNode (x y : Id)
  | setQuirksMode (mode : QuirksMode)
  | appendBeforeSibling (sibling : Id) (child : NodeOrText)
  | addAttrsIfMissing (target : Id) (attrs : List Attr)
  | associateWithForm (target form node : Id) (prev : Option Id)
  | removeFromParent (target : Id)
  | reparentChildren (node newParent : Id)
  | isMathmlAnnotationXmlIntegrationPoint (target : Id)
  | setCurrentLine (line : Nat)
  | allowDeclarativeShadowRoots (intendedParent : Id)
  | attachDeclarativeShadow (location template : Id) (attrs : List Attr)
  | maybeCloneAnOptionIntoSelectedcontent (option : Id)
deriving Repr, DecidableEq, Inhabited

/-- what a sink call returns -/
inductive Output where
  | unit
  | node (id : Id)
  | bool (b : Bool)
  | name (ns loc : Str)
deriving Repr, DecidableEq, Inhabited

namespace Dom

/-- Run one sink call on the model of RcDom.  `.error site` = the Rust panics (or diverges) there.
The methods RcDom does not override (`mark_script_already_started`, `pop`, `associate_with_form`,
`set_current_line`, `allow_declarative_shadow_roots`, `attach_declarative_shadow`) have the trait's
default behaviour.  `v` selects the behaviour of the selectedcontent cloning (see `cloneVariant`), `b` that of
`append_before_sibling` (see `beforeSiblingVariant`). -/
def applyV (v : CloneVariant) (b : BeforeSiblingVariant) (d : Dom) : SinkOp → Except String (Dom × Output)
  | .parseError msg => .ok (d.parseError msg, .unit)
  | .getDocument => .ok (d, .node document)
  | .elemName t => do let (ns, loc) ← d.elemName t; .ok (d, .name ns loc)
  | .createElement name attrs flags => let (d, id) := d.createElement name attrs flags; .ok (d, .node id)
  | .createComment text => let (d, id) := d.createComment text; .ok (d, .node id)
  | .createPi target data => let (d, id) := d.createPi target data; .ok (d, .node id)
  | .append p c => do let d ← d.append p c; .ok (d, .unit)
  | .appendBasedOnParentNode e p c => do let d ← d.appendBasedOnParentNodeV b e p c; .ok (d, .unit)
  | .appendDoctypeToDocument n p s => do let d ← d.appendDoctypeToDocument n p s; .ok (d, .unit)
  | .markScriptAlreadyStarted _ => .ok (d, .unit)
  | .pop _ => .ok (d, .unit)
  | .getTemplateContents t => do let tc ← d.getTemplateContents t; .ok (d, .node tc)
  | .sameNode x y => .ok (d, .bool (d.sameNode x y))
  | .setQuirksMode m => .ok (d.setQuirksMode m, .unit)
  | .appendBeforeSibling s c => do let d ← d.appendBeforeSiblingV b s c; .ok (d, .unit)
  | .addAttrsIfMissing t a => do let d ← d.addAttrsIfMissing t a; .ok (d, .unit)
  | .associateWithForm _ _ _ _ => .ok (d, .unit)
  | .removeFromParent t => do let d ← d.removeFromParent t; .ok (d, .unit)
  | .reparentChildren n np => do let d ← d.reparentChildren n np; .ok (d, .unit)
  | .isMathmlAnnotationXmlIntegrationPoint t => do
      let b ← d.isMathmlAnnotationXmlIntegrationPoint t; .ok (d, .bool b)
  | .setCurrentLine _ => .ok (d, .unit)
  | .allowDeclarativeShadowRoots _ => .ok (d, .bool true)
  | .attachDeclarativeShadow _ _ _ => .ok (d, .bool false)
  | .maybeCloneAnOptionIntoSelectedcontent o => do let d ← d.maybeCloneOption v o; .ok (d, .unit)

/-- Run one sink call on the model of RcDom *as it stands* (`cloneVariant`, `beforeSiblingVariant`). -/
def apply (d : Dom) (op : SinkOp) : Except String (Dom × Output) := d.applyV cloneVariant beforeSiblingVariant op

/-- run a sequence of calls, collecting the outputs; stops at the first panic -/
def applyAll (d : Dom) : List SinkOp → Except String (Dom × List Output)
  | [] => .ok (d, [])
  | op :: ops => do
    let (d, o) ← d.apply op
    let (d, os) ← d.applyAll ops
    .ok (d, o :: os)

/-! ### the TreeSink contract -/

/-- `x`, its parent, grandparent, … (at most `fuel` entries) -/
def ancestorsOrSelf (d : Dom) : Nat → Id → List Id
  | 0, _ => []
  | fuel + 1, x => x :: match d.parentOf x with
    | none => []
    | some p => ancestorsOrSelf d fuel p

/-- is `a` equal to `x` or one of its ancestors?  (On a well-formed arena a parent chain has at
most `size` entries, `C20.isAncOrSelf_iff`.) -/
def isAncOrSelf (d : Dom) (a x : Id) : Bool := (d.ancestorsOrSelf d.size x).contains a

def attrNamesNodup : List Attr → Bool
  | [] => true
  | a :: as => !(as.map (·.name)).contains a.name && attrNamesNodup as

/-- What identifies an attribute for "no attribute list contains two attributes with the same
qualified name": the *expanded* name (namespace, local name) — the prefix is only spelling, and it is
the pair both tree builders de-duplicate by (`check_duplicate_attr` in xml5ever) — except that in
no namespace the prefix is kept: an attribute whose prefix could not be resolved (`a:x` with `a`
unbound) is lexically a different name from `x`. -/
def attrKey (a : Attr) : Option Str × Str × Str :=
  if a.name.ns = [] then (a.name.pfx, [], a.name.loc) else (none, a.name.ns, a.name.loc)

/-- no two attributes of the list have the same `attrKey` -/
def attrKeysNodup : List Attr → Bool
  | [] => true
  | a :: as => !(as.map attrKey).contains (attrKey a) && attrKeysNodup as

/-- contract on the `NodeOrText` argument of an insertion under `newParent`: a node must be one the
builder created (`create_element`/`create_comment`/`create_pi`), and must not be `newParent` or one
of its ancestors ("no node is ever inserted under itself or one of its descendants") -/
def childOk (d : Dom) (newParent : Id) (mustBeParentless : Bool) : NodeOrText → Bool
  | .text _ => true
  | .node c => d.isInsertable c && (!mustBeParentless || (d.parentOf c).isNone) && !d.isAncOrSelf c newParent

def contractAppend (d : Dom) (parent : Id) (child : NodeOrText) : Bool :=
  d.isContainer parent && childOk d parent true child

def contractAppendBeforeSibling (d : Dom) (sibling : Id) (child : NodeOrText) : Bool :=
  d.isInsertable sibling &&          -- "sibling is not a text node" (and a node the builder holds)
  match d.parentOf sibling with
  | none => false                    -- the sibling must have a parent
  | some p => d.isContainer p && childOk d p false child && child != .node sibling

/-- The documented calling contract of `TreeSink`, as a boolean function of the state *before* the
call (`markup5ever/interface/tree_builder.rs`; the statement of property C05):
* element-only operations receive elements (`get_template_contents`: a template element, i.e. one
  with template contents; `maybe_clone_an_option_into_selectedcontent`: an `option` element);
* a node passed to `append` has no parent; a node passed to `append_before_sibling` may have one;
* no node is inserted under itself or one of its descendants (also for `reparent_children`);
* the reference sibling of `append_before_sibling` has a parent and is not a text node;
* a doctype is appended at most once and before any element;
* no attribute list contains two attributes with the same qualified name (`attrKey`: expanded name);
* every id names a node of this sink; parents are documents/elements, inserted nodes are
  elements/comments/processing instructions (the only handles a builder can hold). -/
def contractOk (d : Dom) : SinkOp → Bool
  | .parseError _ => true
  | .getDocument => true
  | .elemName t => d.isElement t
  | .createElement _ attrs _ => attrKeysNodup attrs
  | .createComment _ => true
  | .createPi _ _ => true
  | .append p c => contractAppend d p c
  | .appendBasedOnParentNode e p c =>
      d.isElement e && d.isElement p &&
      (if (d.parentOf e).isSome then contractAppendBeforeSibling d e c else contractAppend d p c)
  | .appendDoctypeToDocument _ _ _ =>
      d.isContainer document &&     -- the arena has its document node (always true of a sink)
      (d.childrenOf document).all (fun c => !d.isDoctype c && !d.isElement c)
  | .markScriptAlreadyStarted n => d.isElement n
  | .pop n => d.isElement n
  | .getTemplateContents t => (d.templateContentsOf t).isSome
  | .sameNode x y => x < d.size && y < d.size
  | .setQuirksMode _ => true
  | .appendBeforeSibling s c => contractAppendBeforeSibling d s c
  | .addAttrsIfMissing t attrs => d.isElement t && attrKeysNodup attrs
  | .associateWithForm t f n p =>
      d.isElement t && d.isElement f && d.isElement n && (match p with | some q => d.isElement q | none => true)
  | .removeFromParent t => t < d.size
  | .reparentChildren n np => d.isContainer n && d.isContainer np && !d.isAncOrSelf n np
  | .isMathmlAnnotationXmlIntegrationPoint t => d.isElement t
  | .setCurrentLine _ => true
  | .allowDeclarativeShadowRoots p => d.isContainer p
  | .attachDeclarativeShadow l t attrs => d.isElement l && d.isElement t && attrKeysNodup attrs
  | .maybeCloneAnOptionIntoSelectedcontent o => d.localNameOf o == some sOption

end Dom

/-- The TreeSink contract (decidable). -/
def Contract (d : Dom) (op : SinkOp) : Prop := d.contractOk op = true

instance (d : Dom) (op : SinkOp) : Decidable (Contract d op) := by unfold Contract; infer_instance

/-! ### `impl Serialize for SerializableHandle` (lib.rs:615) -/

inductive TraversalScope where
  | includeNode
  | childrenOnly
deriving Repr, DecidableEq

inductive SerOp where
  | opn (id : Id)
  | cls (name : QualName)
deriving Repr, DecidableEq

/-- calls made on the `Serializer`, tagged with the node they are made for -/
inductive SerEvent where
  | startElem (id : Id)
  | endElem (name : QualName)
  | doctype (id : Id)
  | text (id : Id)
  | comment (id : Id)
  | pi (id : Id)
deriving Repr, DecidableEq

namespace Dom

/-- the `while let Some(op) = ops.pop_front()` loop; one unit of fuel per iteration -/
def serLoop (d : Dom) : Nat → List SerOp → Except String (List SerEvent)
  | _, [] => .ok []
  | 0, _ :: _ => .error "diverges: serialize (cyclic tree)"
  | fuel + 1, .cls name :: rest => do
    let r ← serLoop d fuel rest
    .ok (.endElem name :: r)
  | fuel + 1, .opn x :: rest => do
    let n ← d.get x
    match n.data with
    | .element name _ _ _ =>
      let r ← serLoop d fuel (n.children.map .opn ++ .cls name :: rest)
      .ok (.startElem x :: r)
    | .doctype .. => do let r ← serLoop d fuel rest; .ok (.doctype x :: r)
    | .text _ => do let r ← serLoop d fuel rest; .ok (.text x :: r)
    | .comment _ => do let r ← serLoop d fuel rest; .ok (.comment x :: r)
    | .pi .. => do let r ← serLoop d fuel rest; .ok (.pi x :: r)
    | .document => .error "ser-document: Can't serialize Document node itself"

/-- `SerializableHandle(root).serialize(serializer, scope)`: the sequence of serializer calls.
Each node is opened at most once and each element closed once on a tree, so `2·size + 2`
iterations suffice (`C20_serialize_preorder`). -/
def serialize (d : Dom) (scope : TraversalScope) (root : Id) : Except String (List SerEvent) := do
  let ops ← match scope with
    | .includeNode => pure [SerOp.opn root]
    | .childrenOnly => do let n ← d.get root; pure (n.children.map SerOp.opn)
  serLoop d (2 * d.size + 2) ops

/-- the node a serializer call visits (`none` for `end_elem`) -/
def SerEvent.visited : SerEvent → Option Id
  | .startElem x => some x | .endElem _ => none | .doctype x => some x
  | .text x => some x | .comment x => some x | .pi x => some x

/-- the nodes in the order in which the serializer first sees them -/
def serializeVisit (d : Dom) (scope : TraversalScope) (root : Id) : Except String (List Id) := do
  let ev ← d.serialize scope root
  .ok (ev.filterMap SerEvent.visited)

/-! ### canonical dump (no arena ids): the tree below `root`, one token per node -/

def hexStr (s : Str) : String :=
  if s.isEmpty then "-" else " ".intercalate (s.map (fun c => String.ofList (Nat.toDigits 16 c.toNat)))

def qualNameStr (q : QualName) : String :=
  (match q.pfx with | none => "~" | some p => hexStr p) ++ "/" ++ hexStr q.ns ++ "/" ++ hexStr q.loc

def attrsStr (as : List Attr) : String :=
  if as.isEmpty then "-" else "&".intercalate (as.map (fun a => qualNameStr a.name ++ "=" ++ hexStr a.value))

def dataStr : NodeData → String
  | .document => "doc"
  | .doctype n p s => "dt," ++ hexStr n ++ "," ++ hexStr p ++ "," ++ hexStr s
  | .text s => "tx," ++ hexStr s
  | .comment s => "cm," ++ hexStr s
  | .element n as _ ip => "el," ++ qualNameStr n ++ "," ++ attrsStr as ++ "," ++ (if ip then "m" else "-")
  | .pi t c => "pi," ++ hexStr t ++ "," ++ hexStr c

/-- structural dump of the subtree of `x`: `(<data> [^ if the parent pointer of a child is not
the node listing it] {template contents} children…)`, depth-bounded by the fuel (`…` when cut) -/
def dumpAux (d : Dom) : Nat → Option Id → Id → String
  | 0, _, _ => "(…)"
  | fuel + 1, expectedParent, x =>
    match d.nodes[x]? with
    | none => "(?)"
    | some n =>
      "(" ++ dataStr n.data ++ (if n.parent == expectedParent then "" else "^")
        ++ (match n.data with
            | .element _ _ (some tc) _ => "{" ++ dumpAux d fuel none tc ++ "}"
            | _ => "")
        ++ String.join (n.children.map (dumpAux d fuel (some x))) ++ ")"

/-- canonical dump of the document tree, with quirks mode -/
def dump (d : Dom) : String :=
  dumpAux d (d.size + 1) none document ++ ";Q=" ++
    (match d.quirks with | .quirks => "quirks" | .limitedQuirks => "limited" | .noQuirks => "no")

end Dom
end H5V.Model.Dom
