import H5V.Proto
/- engine `ser` (stub) -/
namespace H5V.Model.HtmlSerDriver

def runCase (_fields : List String) : String := "unimplemented"

end H5V.Model.HtmlSerDriver
