import H5V.Proto
import H5V.Model.HtmlSer
/- engine `ser` — grammar and output format: see harness/src/engines/ser.rs (same on both sides).
   The driver runs the model with `Cfg.current`
   (`runCaseWith` lets a scratch script run the model of the proposed fixes). -/
namespace H5V.Model.HtmlSerDriver
open H5V.Proto H5V.Model.HtmlSer

def uriHtml := "http://www.w3.org/1999/xhtml".toList
def uriMathml := "http://www.w3.org/1998/Math/MathML".toList
def uriSvg := "http://www.w3.org/2000/svg".toList
def uriXml := "http://www.w3.org/XML/1998/namespace".toList
def uriXmlns := "http://www.w3.org/2000/xmlns/".toList
def uriXlink := "http://www.w3.org/1999/xlink".toList

/-- namespaces are atoms in Rust: a spelled-out URI equal to a well-known one *is* that one -/
def nsOfUri (u : List Char) : Ns :=
  if u == uriHtml then .html else if u == uriMathml then .mathml else if u == uriSvg then .svg
  else if u == uriXml then .xml else if u == uriXmlns then .xmlns else if u == uriXlink then .xlink
  else if u.isEmpty then .empty else .other u

def parseNs? (s : String) : Option Ns :=
  match s with
  | "h" => some .html | "m" => some .mathml | "s" => some .svg | "x" => some .xml
  | "n" => some .xmlns | "l" => some .xlink | "0" => some .empty
  | _ => if s.startsWith "u" then (parseChars? (s.drop 1).toString).map nsOfUri else none

def parseQual? (ns loc : String) : Option QualName := do
  let ns ← parseNs? ns
  let loc ← parseChars? loc
  pure ⟨ns, loc⟩

def parseAttr? (f : List String) : Option Attr :=
  match f with
  | ["A", ns, pfx, loc, value] => do
    let name ← parseQual? ns loc
    let pfx ← if pfx == "~" then pure none else (parseChars? pfx).map some
    let value ← parseChars? value
    pure ⟨name, pfx, value⟩
  | _ => none

def parseScope? (s : String) : Option Scope :=
  match s.splitOn ":" with
  | ["I"] => some .includeNode
  | ["C"] => some (.childrenOnly none)
  | ["N", ns, loc] => (parseQual? ns loc).map (fun q => .childrenOnly (some q))
  | _ => none

def parseFlag? (s : String) : Option Bool :=
  match s with
  | "0" => some false | "1" => some true | _ => none

/-- an open element / document while reading the token list -/
structure Frame where
  name : Option QualName      -- none = Document
  attrs : List Attr           -- reversed
  kids : List Node            -- reversed
  sawKid : Bool

structure PState where
  frames : List Frame
  root : Option Node
  bad : Bool

def addNode (st : PState) (n : Node) : PState :=
  match st.frames with
  | f :: rest => { st with frames := { f with kids := n :: f.kids, sawKid := true } :: rest }
  | [] => if st.root.isSome then { st with bad := true } else { st with root := some n }

def closeFrame (f : Frame) : Node :=
  match f.name with
  | some q => .element q f.attrs.reverse f.kids.reverse
  | none => .document f.kids.reverse

def stepTok (st : PState) (tok : String) : PState :=
  if st.bad then st else
  -- nothing may follow the completed root
  if st.frames.isEmpty && st.root.isSome then { st with bad := true } else
  let f := tok.splitOn ":"
  match f with
  | ["E", ns, loc] => match parseQual? ns loc with
    | some q => { st with frames := ⟨some q, [], [], false⟩ :: st.frames }
    | none => { st with bad := true }
  | ["R"] => { st with frames := ⟨none, [], [], false⟩ :: st.frames }
  | "A" :: _ => match st.frames, parseAttr? f with
    | fr :: rest, some a =>
      if fr.sawKid || fr.name.isNone then { st with bad := true }
      else { st with frames := { fr with attrs := a :: fr.attrs } :: rest }
    | _, _ => { st with bad := true }
  | ["/"] => match st.frames with
    | fr :: rest => addNode { st with frames := rest } (closeFrame fr)
    | [] => { st with bad := true }
  | ["T", s] => match parseChars? s with
    | some s => addNode st (.text s) | none => { st with bad := true }
  | ["C", s] => match parseChars? s with
    | some s => addNode st (.comment s) | none => { st with bad := true }
  | ["D", s] => match parseChars? s with
    | some s => addNode st (.doctype s) | none => { st with bad := true }
  | ["P", t, d] => match parseChars? t, parseChars? d with
    | some t, some d => addNode st (.pi t d) | _, _ => { st with bad := true }
  | _ => { st with bad := true }

def parseTree? (s : String) : Option Node :=
  let st := (s.splitOn ";").foldl stepTok ⟨[], none, false⟩
  if st.bad || !st.frames.isEmpty then none else st.root

def siteName (site : String) : String :=
  if site == "no parent ElemInfo" then "panic-no-parent"
  else if site == "no ElemInfo" then "panic-no-eleminfo"
  else if site == "Can't serialize Document node itself" then "panic-document"
  else "panic-other(" ++ site ++ ")"

def statusOf : R Bytes → String × Bytes
  | .ok b => ("ok", b)
  | .error p => (siteName p.site, p.out)

/-- start tag / end tag as written on a fresh stack -/
def tagsOf (cfg : Cfg) (o : Opts) (name : QualName) (attrs : List Attr) : Option (Bytes × Bytes) :=
  match startElem cfg o name attrs (new cfg .includeNode) with
  | .error _ => none
  | .ok s1 => match endElem o name s1 with
    | .error _ => none
    | .ok s2 => some (s1.out, s2.out.drop s1.out.length)

mutual
def ioNode (cfg : Cfg) (o : Opts) (path : String) : Node → List String
  | .element name attrs ch =>
    let e := Node.element name attrs ch
    let (ro, outer) := statusOf (serializeOps cfg .includeNode o e)
    let (ri, inner) := statusOf (serializeOps cfg (.childrenOnly (some name)) o e)
    let here := match tagsOf cfg o name attrs with
      | none => [path]
      | some (st, en) =>
        if ro != ri || (ro == "ok" && outer != st ++ inner ++ en) then [path] else []
    here ++ ioForest cfg o path 0 ch
  | .document ch => ioForest cfg o path 0 ch
  | _ => []
def ioForest (cfg : Cfg) (o : Opts) (path : String) (k : Nat) : List Node → List String
  | [] => []
  | n :: ns =>
    let p := if path == "r" then toString k else path ++ "." ++ toString k
    ioNode cfg o p n ++ ioForest cfg o path (k + 1) ns
end

def showIo (bad : List String) : String :=
  if bad.isEmpty then "ok" else ",".intercalate (bad.take 8)

def runTree (cfg : Cfg) (scope scripting cmp tree : String) : String :=
  match parseScope? scope, parseFlag? scripting, parseFlag? cmp, parseTree? tree with
  | some scope, some scripting, some cmp, some t =>
    let o : Opts := ⟨scripting, cmp⟩
    let (r, out) := statusOf (serializeOps cfg scope o t)
    -- the recursive formulation must agree with the op loop (also proved: C07.runOps_eq)
    let (r2, out2) := statusOf (serialize cfg scope o t)
    if r != r2 || out != out2 then "model-internal-mismatch" else
    "r=" ++ r ++ ";out=" ++ showBytes out ++ ";io=" ++ showIo (ioNode cfg o "r" t)
  | _, _, _, _ => "bad-case"

inductive Op where
  | start (n : QualName) (attrs : List Attr)
  | endE (n : QualName)
  | text (s : List Char)
  | comment (s : List Char)
  | doctype (s : List Char)
  | pi (t d : List Char)

/-- ops: `S:` tokens collect the `A:` tokens that follow; result reversed -/
def stepOp (acc : Option (List Op)) (tok : String) : Option (List Op) := do
  let ops ← acc
  let f := tok.splitOn ":"
  match f with
  | ["S", ns, loc] => (parseQual? ns loc).map (fun q => .start q [] :: ops)
  | "A" :: _ => match ops, parseAttr? f with
    | .start q attrs :: rest, some a => some (.start q (attrs ++ [a]) :: rest)
    | _, _ => none
  | ["X", ns, loc] => (parseQual? ns loc).map (fun q => .endE q :: ops)
  | ["T", s] => (parseChars? s).map (fun s => .text s :: ops)
  | ["C", s] => (parseChars? s).map (fun s => .comment s :: ops)
  | ["D", s] => (parseChars? s).map (fun s => .doctype s :: ops)
  | ["P", t, d] => do
    let t ← parseChars? t
    let d ← parseChars? d
    pure (.pi t d :: ops)
  | _ => none

def applyOp (cfg : Cfg) (o : Opts) (s : Ser) : Op → R Ser
  | .start n a => startElem cfg o n a s
  | .endE n => endElem o n s
  | .text t => writeText cfg o t s
  | .comment t => writeComment t s
  | .doctype t => writeDoctype t s
  | .pi t d => writePI t d s

def applyOps (cfg : Cfg) (o : Opts) : List Op → Ser → R Ser
  | [], s => .ok s
  | op :: ops, s => do
    let s ← applyOp cfg o s op
    applyOps cfg o ops s

def runOpsCase (cfg : Cfg) (scope scripting cmp ops : String) : String :=
  let toks := if ops == "-" then [] else ops.splitOn ";"
  match parseScope? scope, parseFlag? scripting, parseFlag? cmp, toks.foldl stepOp (some []) with
  | some scope, some scripting, some cmp, some opsRev =>
    let o : Opts := ⟨scripting, cmp⟩
    let (r, out) := statusOf ((applyOps cfg o opsRev.reverse (new cfg scope)).map (·.out))
    "r=" ++ r ++ ";out=" ++ showBytes out
  | _, _, _, _ => "bad-case"

def runCaseWith (cfg : Cfg) (fields : List String) : String :=
  match fields with
  | ["tree", scope, scripting, cmp, tree] => runTree cfg scope scripting cmp tree
  | ["ops", scope, scripting, cmp, ops] => runOpsCase cfg scope scripting cmp ops
  | ["parse", _, _] => "no-model"
  | _ => "bad-case"

/-- the engine entry point: the model of the code as it is -/
def runCase (fields : List String) : String := runCaseWith Cfg.current fields

end H5V.Model.HtmlSerDriver
