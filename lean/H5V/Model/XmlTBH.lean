import H5V.Model.Dom
import H5V.Model.XmlTB
/-
`H5V.Model.XmlTBH` — HANDLE-LEVEL model of the xml5ever tree builder
(`/repo/xml5ever/src/tree_builder/mod.rs`): the same `TreeSink` calls in the same order as the Rust.

* The sink is the abstract DOM `H5V.Model.Dom.Dom` (handles = arena ids).  *Every* `TreeSink` call the
  Rust makes — `get_document`, `parse_error` (with its message), `create_element` (through
  `markup5ever::interface::create_element`, which computes the `ElementFlags`), `create_comment`,
  `create_pi`, `append`, `append_doctype_to_document`, `pop` and the read-only query `elem_name` — is
  one `sink op`: `Dom.apply op` on the DOM **and** `(op, result)` pushed on `State.traceRev`, in the
  order of the Rust calls.  (The `debug!` lines of `close_tag`/`dump_state` also mention
  `elem_name`, but their arguments are evaluated only when a logger with level `Debug` is installed;
  the model — like the harness — has none.)
* Tokens, names, namespace maps and the namespace resolver (`processNamespaces`: `declare_ns`,
  `bind_attr_qname`, `bind_qname`, the error order) are those of the tree-valued model
  `H5V.Model.XmlTB`; the field `current_namespace` is empty between two calls of
  `process_namespaces` (`mem::replace` at mod.rs:357) and therefore not a field of `State`.
* A panic of the Rust (`expect("no current element")`) is `throw "<class>@<file>:<line>: <text>"`; a
  panic inside the sink (RcDom) is the error string of `Dom.apply` re-thrown as `"<class>@sink: …"`;
  fuel of a loop exhausted / a sink answer of the wrong shape is `"model-…@model: …"`.
* `open_elems` is kept **top first** (`opened`, as in `H5V.Model.XmlTB`): `Vec::push` = cons,
  `Vec::pop` = tail, `last()` = head; iteration in `Vec` order = `opened.reverse`.
* `curr_elem` is a field of the Rust struct that is initialised to `None` and never assigned; it is
  kept because `trace_handles` reports it.
-/
namespace H5V.Model.XmlTBH
open H5V.Model.Dom (Id SinkOp Output Dom NodeOrText ElementFlags)
open H5V.Model.XmlTB (Str RName RAttr QName Tag TagKind Token NsMap TbCfg Err Phase Bound
  defaultMap pushesMap optStr anyNotWhitespace sScript)

/-- the input alphabet of `process_token`: `tokenizer::Token` — the shared `XmlTB.Token` plus
`ParseError`, which is forwarded to the sink -/
inductive Input where
  | token (t : Token)
  | parseError (msg : Str)
deriving Repr, DecidableEq

/-- `tokenizer::ProcessResult<Handle>` as `process_token` returns it -/
inductive PResult where
  | continue_
  | done
  | script (node : Id)
deriving Repr, DecidableEq

/-- `types.rs: enum XmlProcessResult` -/
inductive StepResult where
  | done
  | reprocess (p : Phase) (t : Token)
  | script (node : Id)
deriving Repr, DecidableEq

/-- `struct XmlTreeBuilder` + the sink (`dom`) + the record of the sink calls (`traceRev`, newest first) -/
structure State where
  /-- `doc_handle` -/
  docHandle : Id := 0
  /-- `open_elems`, **top first** -/
  opened : List Id := []
  /-- `curr_elem` (never assigned by the Rust) -/
  currElem : Option Id := none
  /-- `namespace_stack`, top first -/
  nsStack : List NsMap := [defaultMap]
  phase : Phase := .start
  /-- `doctype_seen` -/
  doctypeSeen : Bool := false
  dom : Dom := Dom.new
  traceRev : List (SinkOp × Output) := []
deriving Repr

/-- the state before `XmlTreeBuilder::new` has asked the sink for the document -/
def State.init : State := {}

/-- `trace_handles` (mod.rs:220): `doc_handle`, every entry of `open_elems` in `Vec` order, `curr_elem` —
in reporting order -/
def held (s : State) : List Id := s.docHandle :: (s.opened.reverse ++ s.currElem.toList)

/-- the tree builder's monad: state + panic -/
abbrev M := StateT State (Except String)

/-! ### monad primitives (as in `H5V.Model.HtmlTB`) -/

/-- the class of a `Dom` error string (`"class: text"`) -/
def errClass (e : String) : String := (e.splitOn ":").headD "?"

/-- one `TreeSink` call -/
def sink (op : SinkOp) : M Output := fun s =>
  match s.dom.apply op with
  | .error e => .error (errClass e ++ "@sink: " ++ e)
  | .ok (d, out) => .ok (out, { s with dom := d, traceRev := (op, out) :: s.traceRev })

def sinkUnit (op : SinkOp) : M Unit := do let _ ← sink op

def sinkNode (op : SinkOp) : M Id := do
  match ← sink op with
  | .node id => pure id
  | _ => throw "model-sink-output@model: node expected"

/-- `self.sink.elem_name(h)`: (namespace, local name) -/
def elemName (h : Id) : M (Str × Str) := do
  match ← sink (.elemName h) with
  | .name ns loc => pure (ns, loc)
  | _ => throw "model-sink-output@model: name expected"

def getS : M State := get
def modS (f : State → State) : M Unit := modify f

/-! ### messages, names -/

/-- the `Borrowed("…")` texts of mod.rs -/
def errMsg : Err → Str
  | .xmlnsUri => "Can't declare XMLNS URI".toList
  | .xmlRedecl => "XML namespace can't be redeclared".toList
  | .xmlnsChanged => "XMLNS namespaces can't be changed".toList
  | .alreadyDefined => "Namespace already defined".toList
  | .invalidDecl => "Invalid namespace declaration.".toList
  | .noNamespace => "No appropriate namespace found".toList
  | .eofInStart => "Unexpected EOF in start phase".toList
  | .unexpStart => "Unexpected element in start phase".toList
  | .unexpMain => "Unexpected element in main phase".toList
  | .unexpEnd => "Unexpected element in end phase".toList
  | .currentMismatch => "Current node doesn't match tag".toList
  | .secondDoctype => "Unexpected second DOCTYPE in start phase".toList

/-- `self.sink.parse_error(Borrowed(msg))` -/
def parseErr (e : Err) : M Unit := sinkUnit (.parseError (errMsg e))

def parseErrs : List Err → M Unit
  | [] => pure ()
  | e :: rest => do parseErr e; parseErrs rest

def toQual (q : QName) : H5V.Model.Dom.QualName := { pfx := q.pfx, ns := q.ns, loc := q.loc }
def toAttr (a : H5V.Model.XmlTB.Attr) : H5V.Model.Dom.Attr := { name := toQual a.name, value := a.value }

def nsHtml : Str := "http://www.w3.org/1999/xhtml".toList
def nsMathml : Str := "http://www.w3.org/1998/Math/MathML".toList
def sTemplate : Str := "template".toList
def sAnnotationXml : Str := "annotation-xml".toList
def sEncoding : Str := "encoding".toList

def asciiLower (c : Char) : Char := if 'A' ≤ c ∧ c ≤ 'Z' then Char.ofNat (c.toNat + 32) else c
/-- `str::eq_ignore_ascii_case` -/
def eqIgnoreAsciiCase (a b : Str) : Bool := a.map asciiLower == b.map asciiLower

/-- the flags computed by `markup5ever::interface::create_element_with_flags(…, false)`
(interface/tree_builder.rs:90-113) -/
def elementFlags (name : H5V.Model.Dom.QualName) (attrs : List H5V.Model.Dom.Attr) : ElementFlags :=
  { template := name.ns == nsHtml && name.loc == sTemplate
    mathmlIP :=
      if name.ns == nsMathml && name.loc == sAnnotationXml then
        attrs.any (fun a => a.name.ns == [] && a.name.loc == sEncoding &&
          (eqIgnoreAsciiCase a.value "text/html".toList ||
           eqIgnoreAsciiCase a.value "application/xhtml+xml".toList))
      else false
    hadDuplicateAttributes := false }

/-- `create_element(&self.sink, tag.name, tag.attrs)` -/
def createElement (b : Bound) : M Id :=
  let name := toQual b.name
  let attrs := b.attrs.map toAttr
  sinkNode (.createElement name attrs (elementFlags name attrs))

/-! ### `impl XmlTreeBuilder` -/

/-- `XmlTreeBuilder::new` (mod.rs:203): `sink.get_document()` -/
def newTB : M Unit := do
  let doc ← sinkNode .getDocument
  modS fun s => { s with docHandle := doc }

/-- `process_namespaces` (mod.rs:329-369): the resolver of `XmlTB` (declarations, attribute binding
with duplicate removal, tag name), its parse errors forwarded to the sink in the order they arise,
then the tag's own map is pushed for a start tag and for an empty `script` tag -/
def processNamespaces (cfg : TbCfg) (t : Tag) : M Bound := do
  let b := H5V.Model.XmlTB.processNamespaces cfg (← getS).nsStack t
  parseErrs b.errs
  (if pushesMap t.kind b.name then modS fun s => { s with nsStack := b.map :: s.nsStack } else pure ())
  pure b

/-- `current_node(&open_elems)` / `self.current_node()`: `last().expect("no current element")` -/
def currentNode (site : String) : M Id := do
  match (← getS).opened with
  | h :: _ => pure h
  | [] => throw ("expect-none@tree_builder/mod.rs:" ++ site ++ ": no current element")

/-- `add_to_open_elems` (mod.rs:479) -/
def push (h : Id) : M Unit := modS fun s => { s with opened := h :: s.opened }

/-- `insert_appropriately` (mod.rs:452) -/
def insertAppropriately (child : NodeOrText) : M Unit := do
  let target ← currentNode "438"
  sinkUnit (.append target child)

/-- `insert_tag` (mod.rs:458) -/
def insertTag (b : Bound) : M Unit := do
  let child ← createElement b
  insertAppropriately (.node child)
  push child

/-- `append_tag` (mod.rs:464) -/
def appendTag (b : Bound) : M Unit := do
  let child ← createElement b
  insertAppropriately (.node child)
  sinkUnit (.pop child)

/-- `append_tag_to_doc` (mod.rs:471) -/
def appendTagToDoc (b : Bound) : M Id := do
  let child ← createElement b
  sinkUnit (.append (← getS).docHandle (.node child))
  pure child

/-- `append_comment_to_doc` (mod.rs:485) -/
def appendCommentToDoc (text : Str) : M Unit := do
  let c ← sinkNode (.createComment text)
  sinkUnit (.append (← getS).docHandle (.node c))

/-- `append_comment_to_tag` (mod.rs:491): the target is looked up before the comment is created -/
def appendCommentToTag (text : Str) : M Unit := do
  let target ← currentNode "438"
  let c ← sinkNode (.createComment text)
  sinkUnit (.append target (.node c))

/-- `append_doctype_to_doc` (mod.rs:499) -/
def appendDoctypeToDoc (name pub sys : Option Str) : M Unit :=
  sinkUnit (.appendDoctypeToDocument (optStr name) (optStr pub) (optStr sys))

/-- `append_pi_to_doc` (mod.rs:514) -/
def appendPiToDoc (target data : Str) : M Unit := do
  let p ← sinkNode (.createPi target data)
  sinkUnit (.append (← getS).docHandle (.node p))

/-- `append_pi_to_tag` (mod.rs:520) -/
def appendPiToTag (target data : Str) : M Unit := do
  let tgt ← currentNode "438"
  let p ← sinkNode (.createPi target data)
  sinkUnit (.append tgt (.node p))

/-- `append_text` (mod.rs:528) -/
def appendText (chars : Str) : M Unit := insertAppropriately (.text chars)

/-- `tag_in_open_elems` (mod.rs:533): `iter().any(…)` over `open_elems` in `Vec` order, one `elem_name`
per element looked at, stops at the first match -/
def anyNamed (name : QName) : List Id → M Bool
  | [] => pure false
  | a :: rest => do
    let (ns, loc) ← elemName a
    if ns == name.ns && loc == name.loc then pure true else anyNamed name rest

def tagInOpenElems (name : QName) : M Bool := do anyNamed name (← getS).opened.reverse

/-- `pop` (mod.rs:587) -/
def pop : M Id := do
  modS fun s => { s with nsStack := s.nsStack.tail }
  match (← getS).opened with
  | [] => throw "expect-none@tree_builder/mod.rs:593: no current element"
  | node :: rest =>
    modS fun s => { s with opened := rest }
    sinkUnit (.pop node)
    pure node

/-- `current_node_in(|p| p == tag.name.expanded())` (mod.rs:553) -/
def currentNodeIs (name : QName) : M Bool := do
  let cur ← currentNode "448"
  let (ns, loc) ← elemName cur
  pure (ns == name.ns && loc == name.loc)

/-- `pop_until` (mod.rs:541); every iteration but the last pops an element, so `open_elems.len() + 1`
iterations always suffice (then `current_node` panics) -/
def popUntil (name : QName) : Nat → M Unit
  | 0 => throw "model-fuel@model: pop_until"
  | fuel + 1 => do
    if ← currentNodeIs name then pure ()
    else
      let _ ← pop
      popUntil name fuel

/-- `close_tag` (mod.rs:561) -/
def closeTag (name : QName) : M Unit := do
  let cur ← currentNode "448"
  let (_, loc) ← elemName cur
  (if loc != name.loc then parseErr .currentMismatch else pure ())
  let isClosed ← tagInOpenElems name
  if isClosed then do
    popUntil name ((← getS).opened.length + 1)
    let _ ← pop
    pure ()
  else pure ()

/-- `no_open_elems` (mod.rs:583) followed by `self.phase.set(XmlPhase::End)` -/
def endIfNoOpenElems : M Unit :=
  modS fun s => if s.opened.isEmpty then { s with phase := .end_ } else s

def setPhase (p : Phase) : M Unit := modS fun s => { s with phase := p }

/-- `step` (mod.rs:614-783) -/
def step (cfg : TbCfg) (mode : Phase) (tok : Token) : M StepResult :=
  match mode with
  | .start =>
    match tok with
    | .tag ⟨.start, n, as⟩ => do
      let b ← processNamespaces cfg ⟨.start, n, as⟩
      setPhase .main
      let handle ← appendTagToDoc b
      push handle
      pure .done
    | .tag ⟨.empty, n, as⟩ => do
      let b ← processNamespaces cfg ⟨.empty, n, as⟩
      setPhase .end_
      let handle ← appendTagToDoc b
      sinkUnit (.pop handle)
      pure .done
    | .comment c => do appendCommentToDoc c; pure .done
    | .pi t d => do appendPiToDoc t d; pure .done
    | .chars cs =>
      if !anyNotWhitespace cs then pure .done
      else do parseErr .unexpStart; pure .done
    | .eof => do
      parseErr .eofInStart
      pure (.reprocess .end_ .eof)
    | .doctype n p sy => do
      -- `self.doctype_seen.replace(true)`
      let seen := (← getS).doctypeSeen
      modS fun s => { s with doctypeSeen := true }
      (if seen then parseErr .secondDoctype else appendDoctypeToDoc n p sy)
      pure .done
    | _ => do parseErr .unexpStart; pure .done
  | .main =>
    match tok with
    | .chars cs => do appendText cs; pure .done
    | .tag ⟨.start, n, as⟩ => do
      let b ← processNamespaces cfg ⟨.start, n, as⟩
      insertTag b
      pure .done
    | .tag ⟨.empty, n, as⟩ => do
      let b ← processNamespaces cfg ⟨.empty, n, as⟩
      if b.name.loc = sScript then
        insertTag b
        let script ← currentNode "716"
        closeTag b.name
        pure (.script script)
      else
        appendTag b
        pure .done
    | .tag ⟨.end_, n, as⟩ => do
      let b ← processNamespaces cfg ⟨.end_, n, as⟩
      if b.name.loc = sScript then
        let script ← currentNode "738"
        closeTag b.name
        endIfNoOpenElems
        pure (.script script)
      else
        closeTag b.name
        endIfNoOpenElems
        pure .done
    | .tag ⟨.short, _, _⟩ => do
      let _ ← pop
      endIfNoOpenElems
      pure .done
    | .comment c => do appendCommentToTag c; pure .done
    | .pi t d => do appendPiToTag t d; pure .done
    | .eof => pure (.reprocess .end_ .eof)
    | .nullChar => pure (.reprocess .end_ .eof)
    | .doctype _ _ _ => do parseErr .unexpMain; pure .done
  | .end_ =>
    match tok with
    | .comment c => do appendCommentToDoc c; pure .done
    | .pi t d => do appendPiToDoc t d; pure .done
    | .chars cs =>
      if !anyNotWhitespace cs then pure .done
      else do parseErr .unexpEnd; pure .done
    | .eof => pure .done  -- `stop_parsing`
    | _ => do parseErr .unexpEnd; pure .done

/-- `process_to_completion` (mod.rs:371): the loop; `more_tokens` is never pushed to, so `Done` always
returns `Continue`.  A `Reprocess` is always `(End, Eof)`, which is `Done`: two iterations suffice. -/
def processToCompletion (cfg : TbCfg) : Nat → Token → M PResult
  | 0, _ => throw "model-fuel@model: process_to_completion"
  | fuel + 1, tok => do
    match ← step cfg (← getS).phase tok with
    | .done => pure .continue_
    | .reprocess m t => do
      setPhase m
      processToCompletion cfg fuel t
    | .script node => pure (.script node)

/-- `TokenSink::process_token` (mod.rs:410) -/
def processToken (cfg : TbCfg) : Input → M PResult
  | .parseError msg => do
    sinkUnit (.parseError msg)
    pure .done
  | .token t => processToCompletion cfg 2 t

/-- `TokenSink::end` (mod.rs:430): `open_elems.drain(..).rev()` — pop from the top down -/
def popAll : List Id → M Unit
  | [] => pure ()
  | node :: rest => do sinkUnit (.pop node); popAll rest

def finish : M Unit := do
  let elems := (← getS).opened
  modS fun s => { s with opened := [] }
  popAll elems

/-- feed a list of inputs -/
def processTokens (cfg : TbCfg) : List Input → M Unit
  | [] => pure ()
  | t :: rest => do
    let _ ← processToken cfg t
    processTokens cfg rest

/-- `XmlTreeBuilder::new`, the tokens, `end()` -/
def parseAll (cfg : TbCfg) (toks : List Input) : M Unit := do
  newTB
  processTokens cfg toks
  finish

end H5V.Model.XmlTBH
