import H5V.Proto
/- engine `tb` (stub) -/
namespace H5V.Model.HtmlTBDriver

def runCase (_fields : List String) : String := "unimplemented"

end H5V.Model.HtmlTBDriver
