import H5V.Proto
import H5V.Model.HtmlTB
/- engine `tb` — html5ever's HTML tree builder (harness/src/engines/tb.rs speaks the same protocol).

   case = `tb<TAB>mode<TAB>opts<TAB>ctx<TAB>payload`
   mode    `tok`  payload = tokens fed straight into `TreeBuilder::process_token`, then `end()`
           `txt`  payload = text chunks (hex strings separated by `|`) through Tokenizer + TreeBuilder
                  (`parse_document` / `parse_fragment`, `Parser::process` per chunk, `finish`)
   opts    `-` or comma list `k=v`: `s` scripting_enabled (default 1), `srcdoc` iframe_srcdoc (0),
           `q` initial quirks mode n|l|q (n), `exact` exact_errors (0), `dropdt` drop_doctype (0),
           `cs` context_element_allows_scripting (txt fragments; default = s), `tx` tokenizer
           exact_errors (txt; 0)
   ctx     `-` (document) or `<qualname>,<attrs>,<form 0|1>`: fragment with that context element
           (created through `create_element`), `form=1`: a `form` element as form pointer
   tokens  `-` or `;`-separated, each optionally followed by `@<line>` (default line 1):
           `S|E,<name>,<selfclosing 0|1>,<hadDup 0|1>(,<attr name>,<attr value>)*`  `T,<text>`  `N`
           `C,<text>`  `D,<name|~>,<public|~>,<system|~>,<forcequirks 0|1>`  `Z` (EOF)  `X,<msg>`
   strings: space-separated hex code points, `-` empty; qualified names / attribute lists as in
   engine `rcdom`.

   output  tok: `T=<op;op;…>@V=<indices of ops violating Contract|->@D=<Dom.dump>@R=<results>@E=<#parse errors>`
           txt: `T=<canonical ops>@V=<# violating ops>@D=<dump>@R=<results>@E=<#>@K=<#EOF tokens>,<last token was EOF 0|1>`
           `PANIC <class>@<file>:<line>` when the builder (or the sink) panics.
   ops as in engine `rcdom` with handle numbers in creation order, `pe` without its message; the six
   namespace URLs (hex) are abbreviated to `$h $m $s $l $x $n` (html mathml svg xlink xml xmlns).
   canonical ops (txt): the pure queries `en sn tc ip ln adsr` and `pe` are dropped (`E=-`) and consecutive text
   insertions at the same place are merged (the model tokenizer emits one character per token).
   results: the non-Continue answers of `process_token`: `P`, `R0`…`R4`, `S<handle>`, `I:<hex>`. -/
namespace H5V.Model.HtmlTBDriver
open H5V.Proto H5V.Model.Dom H5V.Model.HtmlTB
abbrev Str := List Char

/-- a Unicode scalar value (what `char::from_u32` accepts) -/
def validScalar (n : Nat) : Bool := n < 0xD800 || (0xE000 ≤ n && n < 0x110000)

/-- space-separated hex code points, `-` = empty; rejects anything that is not a scalar value -/
def parseStr? (s : String) : Option Str := do
  let ns ← parseNums? s
  if ns.all validScalar then some (ns.map Char.ofNat) else none

def parseQual? (s : String) : Option QualName :=
  match s.splitOn "/" with
  | [p, ns, loc] => do
    let pfx ← if p == "~" then some none else (parseStr? p).map some
    some { pfx := pfx, ns := ← parseStr? ns, loc := ← parseStr? loc }
  | _ => none

def parseAttrs? (s : String) : Option (List Attr) :=
  if s == "-" then some [] else
  (s.splitOn "&").mapM (fun a =>
    match a.splitOn "=" with
    | [q, v] => do some { name := ← parseQual? q, value := ← parseStr? v }
    | _ => none)

/-! ### parsing the case -/

structure Cfg where
  opts : Opts := {}
  cs : Option Bool := none
  tx : Bool := false

def parseBool? : String → Option Bool
  | "0" => some false | "1" => some true | _ => none

def parseOpts? (s : String) : Option Cfg :=
  if s == "-" then some {} else
  (s.splitOn ",").foldlM (fun (c : Cfg) kv =>
    match kv.splitOn "=" with
    | ["s", v] => do some { c with opts := { c.opts with scriptingEnabled := ← parseBool? v } }
    | ["srcdoc", v] => do some { c with opts := { c.opts with iframeSrcdoc := ← parseBool? v } }
    | ["exact", v] => do some { c with opts := { c.opts with exactErrors := ← parseBool? v } }
    | ["dropdt", v] => do some { c with opts := { c.opts with dropDoctype := ← parseBool? v } }
    | ["q", "n"] => some { c with opts := { c.opts with quirksMode := .noQuirks } }
    | ["q", "l"] => some { c with opts := { c.opts with quirksMode := .limitedQuirks } }
    | ["q", "q"] => some { c with opts := { c.opts with quirksMode := .quirks } }
    | ["cs", v] => do some { c with cs := some (← parseBool? v) }
    | ["tx", v] => do some { c with tx := ← parseBool? v }
    | _ => none) {}

structure Ctx where
  name : QualName
  attrs : List Attr
  form : Bool

def parseCtx? (s : String) : Option (Option Ctx) :=
  if s == "-" then some none else
  match s.splitOn "," with
  | [q, a, f] => do some (some { name := ← parseQual? q, attrs := ← parseAttrs? a, form := ← parseBool? f })
  | _ => none

def parseOptStr? (s : String) : Option (Option Str) :=
  if s == "~" then some none else (parseStr? s).map some

def parseTagAttrs? : List String → Option (List Attr)
  | [] => some []
  | n :: v :: rest => do
    let n ← parseStr? n
    let v ← parseStr? v
    let as ← parseTagAttrs? rest
    some ({ name := plainName n, value := v } :: as)
  | _ => none

def splitLine? (s : String) : Option (String × Nat) :=
  match s.splitOn "@" with
  | [b] => some (b, 1)
  | [b, l] => do some (b, ← l.toNat?)
  | _ => none

def parseTokenBody? (body : String) : Option TokToken :=
  match body.splitOn "," with
  | ["D", n, p, sy, fq] => do
    some (.doctype { name := ← parseOptStr? n, publicId := ← parseOptStr? p, systemId := ← parseOptStr? sy,
                     forceQuirks := ← parseBool? fq })
  | ["T", t] => (parseStr? t).map .chars
  | ["N"] => some .nullChar
  | ["C", t] => (parseStr? t).map .comment
  | ["Z"] => some .eof
  | ["X", m] => (parseStr? m).map .parseError
  | k :: name :: sc :: dup :: attrs =>
    if k == "S" || k == "E" then do
      some (TokToken.tag { kind := if k == "S" then .startTag else .endTag, name := ← parseStr? name,
                           selfClosing := ← parseBool? sc, hadDup := ← parseBool? dup,
                           attrs := ← parseTagAttrs? attrs })
    else none
  | _ => none

def parseTokenFull? (s : String) : Option (TokToken × Nat) := do
  let (body, line) ← splitLine? s
  some (← parseTokenBody? body, line)

def parseTokens? (s : String) : Option (List (TokToken × Nat)) :=
  if s == "-" then some [] else (s.splitOn ";").mapM parseTokenFull?

def parseChunks? (s : String) : Option (List Str) := (s.splitOn "|").mapM parseStr?

/-! ### rendering -/

/-- arena id → handle number (creation order; a template element is followed by its contents) -/
structure Handles where
  byId : Array (Option Nat)
  next : Nat

def Handles.add (h : Handles) (id : Id) : Handles :=
  let byId := if id < h.byId.size then h.byId else h.byId ++ Array.replicate (id + 1 - h.byId.size) none
  { byId := byId.set! id (some h.next), next := h.next + 1 }

def Handles.show (h : Handles) (id : Id) : String :=
  match h.byId[id]? with
  | some (some k) => toString k
  | _ => "?"

def showChild (h : Handles) : NodeOrText → String
  | .node c => "n" ++ h.show c
  | .text s => "t" ++ Dom.hexStr s

def showFlags (f : ElementFlags) : String :=
  let s := (if f.template then "t" else "") ++ (if f.mathmlIP then "m" else "") ++
    (if f.hadDuplicateAttributes then "d" else "")
  if s.isEmpty then "-" else s

def showOp (h : Handles) : SinkOp → String
  | .parseError _ => "pe"
  | .getDocument => "doc"
  | .elemName t => "en," ++ h.show t
  | .createElement n as f => "ce," ++ Dom.qualNameStr n ++ "," ++ showFlags f ++ "," ++ Dom.attrsStr as
  | .createComment t => "cc," ++ Dom.hexStr t
  | .createPi t d => "cp," ++ Dom.hexStr t ++ "," ++ Dom.hexStr d
  | .append p c => "ap," ++ h.show p ++ "," ++ showChild h c
  | .appendBasedOnParentNode e p c => "abp," ++ h.show e ++ "," ++ h.show p ++ "," ++ showChild h c
  | .appendDoctypeToDocument n p s => "dt," ++ Dom.hexStr n ++ "," ++ Dom.hexStr p ++ "," ++ Dom.hexStr s
  | .markScriptAlreadyStarted n => "ms," ++ h.show n
  | .pop n => "pop," ++ h.show n
  | .getTemplateContents t => "tc," ++ h.show t
  | .sameNode x y => "sn," ++ h.show x ++ "," ++ h.show y
  | .setQuirksMode m => "qm," ++ (match m with | .quirks => "q" | .limitedQuirks => "l" | .noQuirks => "n")
  | .appendBeforeSibling s c => "abs," ++ h.show s ++ "," ++ showChild h c
  | .addAttrsIfMissing t as => "aa," ++ h.show t ++ "," ++ Dom.attrsStr as
  | .associateWithForm t f n p =>
      "af," ++ h.show t ++ "," ++ h.show f ++ "," ++ h.show n ++ "," ++ (match p with | some q => h.show q | none => "-")
  | .removeFromParent t => "rm," ++ h.show t
  | .reparentChildren n p => "rc," ++ h.show n ++ "," ++ h.show p
  | .isMathmlAnnotationXmlIntegrationPoint t => "ip," ++ h.show t
  | .setCurrentLine n => "ln," ++ toString n
  | .allowDeclarativeShadowRoots p => "adsr," ++ h.show p
  | .attachDeclarativeShadow l t as => "ads," ++ h.show l ++ "," ++ h.show t ++ "," ++ Dom.attrsStr as
  | .maybeCloneAnOptionIntoSelectedcontent o => "mc," ++ h.show o

/-- is the op a pure query or a parse error (dropped from the canonical trace of `txt` cases: the
number of parse errors depends on how the tokenizer cuts character runs)? -/
def isQuery : SinkOp → Bool
  | .elemName _ | .sameNode _ _ | .getTemplateContents _ | .isMathmlAnnotationXmlIntegrationPoint _
  | .setCurrentLine _ | .allowDeclarativeShadowRoots _ | .parseError _ => true
  | _ => false

/-- merge `op tA ; op tB` (same op, same place) into `op tAB` -/
def mergeText : SinkOp → SinkOp → Option SinkOp
  | .append p (.text a), .append p' (.text b) => if p == p' then some (.append p (.text (a ++ b))) else none
  | .appendBasedOnParentNode e p (.text a), .appendBasedOnParentNode e' p' (.text b) =>
      if e == e' && p == p' then some (.appendBasedOnParentNode e p (.text (a ++ b))) else none
  | .appendBeforeSibling s (.text a), .appendBeforeSibling s' (.text b) =>
      if s == s' then some (.appendBeforeSibling s (.text (a ++ b))) else none
  | _, _ => none

/-- canonical form of a trace (oldest first): queries dropped, adjacent text insertions merged.
`acc` is the output so far, newest first. -/
def canonOps : List SinkOp → List SinkOp → List SinkOp
  | [], acc => acc.reverse
  | op :: rest, acc =>
    if isQuery op then canonOps rest acc
    else match acc with
      | prev :: acc' =>
        (match mergeText prev op with
         | some m => canonOps rest (m :: acc')
         | none => canonOps rest (op :: acc))
      | [] => canonOps rest [op]

/-- replay the trace on a fresh DOM: handle table, rendered ops, indices of the ops that violate
`Contract` -/
def replay (trace : List (SinkOp × Output)) : Handles × List String × List Nat :=
  let h0 : Handles := (Handles.add { byId := #[], next := 0 } Dom.document)
  let (h, ops, viol, _, _) := trace.foldl (fun (acc : Handles × List String × List Nat × Dom × Nat) (op, out) =>
    let (h, ops, viol, d, i) := acc
    let viol := if d.contractOk op then viol else i :: viol
    let line := showOp h op
    let d' := match d.apply op with | .ok (d', _) => d' | .error _ => d
    let h := match op, out with
      | .createElement .., .node id =>
        let h := h.add id
        (match d'.templateContentsOf id with | some tc => h.add tc | none => h)
      | .createComment _, .node id => h.add id
      | .createPi _ _, .node id => h.add id
      | _, _ => h
    (h, line :: ops, viol, d', i + 1)) (h0, [], [], Dom.new, 0)
  (h, ops.reverse, viol.reverse)

def showResult (h : Handles) : SinkResult → String
  | .continue_ => "C"
  | .script n => "S" ++ h.show n
  | .plaintext => "P"
  | .rawData .rcdata => "R0"
  | .rawData .rawtext => "R1"
  | .rawData .scriptData => "R2"
  | .rawData (.scriptDataEscaped .escaped) => "R3"
  | .rawData (.scriptDataEscaped .doubleEscaped) => "R4"
  | .encodingIndicator s => "I:" ++ Dom.hexStr s

def joinOr (sep : String) (l : List String) : String := if l.isEmpty then "-" else sep.intercalate l

def countErrors (trace : List (SinkOp × Output)) : Nat :=
  (trace.filter (fun (op, _) => match op with | .parseError _ => true | _ => false)).length

/-- `PANIC <class>@<file>:<line>` from a model error string `class@file:line: text` -/
def showPanic (e : String) : String := "PANIC " ++ ((e.splitOn ": ").headD e)

def renderTok (s : State) (results : List SinkResult) : String :=
  let trace := s.traceRev.reverse
  let (h, ops, viol) := replay trace
  "T=" ++ joinOr ";" ops ++ "@V=" ++ joinOr "," (viol.map toString) ++ "@D=" ++ s.dom.dump
    ++ "@R=" ++ joinOr "," (results.reverse.map (showResult h)) ++ "@E=" ++ toString (countErrors trace)

def renderTxt (j : Joint.JState) : String :=
  let s := j.tb
  let trace := s.traceRev.reverse
  let (h, _, viol) := replay trace
  let canon := canonOps (trace.map (·.1)) []
  "T=" ++ joinOr ";" (canon.map (showOp h)) ++ "@V=" ++ toString viol.length ++ "@D=" ++ s.dom.dump
    ++ "@R=" ++ joinOr "," (j.results.reverse.map (showResult h)) ++ "@E=-"
    ++ "@K=" ++ toString j.nEof ++ "," ++ (if j.lastWasEof then "1" else "0")

/-! ### running -/

/-- `parse_fragment` / the harness's token-level set-up: create the context element (and the form
element), then `TreeBuilder::new_for_fragment`; for a document `TreeBuilder::new` -/
def setup (ctx : Option Ctx) : M Unit := do
  match ctx with
  | none => newTB
  | some c =>
    let ctxElem ← createElementWithFlags c.name c.attrs false
    let form ← if c.form then do
        let f ← createElementWithFlags (htmlQual "form".toList) [] false
        pure (some f)
      else pure none
    newForFragment ctxElem form

def runTok (cfg : Cfg) (ctx : Option Ctx) (toks : List (TokToken × Nat)) : String :=
  let prog : M (List SinkResult) := do
    setup ctx
    let rs ← processTokens toks []
    finishTB
    pure rs
  match prog.run (State.init cfg.opts) with
  | .error e => showPanic e
  | .ok (rs, s) => renderTok s rs

def runTxt (cfg : Cfg) (ctx : Option Ctx) (chunks : List Str) : String :=
  let allowsScripting := cfg.cs.getD cfg.opts.scriptingEnabled
  let prog : M H5V.Model.HtmlTok.State := do
    setup ctx
    match ctx with
    | none => pure .data
    | some _ => tokenizerStateForContextElem allowsScripting
  match prog.run (State.init cfg.opts) with
  | .error e => showPanic e
  | .ok (st, tb) =>
    let o : H5V.Model.HtmlTok.Opts := { exactErrors := cfg.tx }
    let m0 : H5V.Model.HtmlTok.Mach := { state := st }
    let r := chunks.foldlM (fun (acc : H5V.Model.HtmlTok.Mach × Str × Joint.JState) ch =>
      Joint.processChunk o 100000 acc.1 acc.2.1 ch acc.2.2) (m0, [], ({ tb := tb } : Joint.JState))
    match r with
    | .error e => showPanic e
    | .ok (m, inp, j) =>
      -- `Parser::finish`: loop_until_done, then the queue must be empty (driver.rs:132)
      match Joint.processChunk o 100000 m inp [] j with
      | .error e => showPanic e
      | .ok (m, inp, j) =>
        if !inp.isEmpty then "PANIC assert@driver.rs:132"
        else match Joint.finish o m j with
          | .error e => showPanic e
          | .ok j => renderTxt j

/-- the six namespace URLs are abbreviated in the output (`$h`, `$m`, `$s`, `$l`, `$x`, `$n`) -/
def nsAbbrevs : List (String × String) :=
  [(Dom.hexStr nsHtml, "$h"), (Dom.hexStr nsMathml, "$m"), (Dom.hexStr nsSvg, "$s"),
   (Dom.hexStr nsXlink, "$l"), (Dom.hexStr nsXml, "$x"), (Dom.hexStr nsXmlns, "$n")]

def abbrevNs (s : String) : String := nsAbbrevs.foldl (fun s (pat, r) => s.replace pat r) s

def runCase1 (fields : List String) : String :=
  match fields with
  | [mode, optsS, ctxS, payload] =>
    match parseOpts? optsS, parseCtx? ctxS with
    | some cfg, some ctx =>
      if mode == "tok" then
        match parseTokens? payload with
        | some toks => runTok cfg ctx toks
        | none => "bad-case"
      else if mode == "txt" then
        match parseChunks? payload with
        | some chunks => runTxt cfg ctx chunks
        | none => "bad-case"
      else "bad-case"
    | _, _ => "bad-case"
  | _ => "bad-case"

def runCase (fields : List String) : String := abbrevNs (runCase1 fields)

end H5V.Model.HtmlTBDriver
