import H5V.Proto
import H5V.Model.Tendril
/- engine `tendril`: case = `<format>` `<atomicity>` `<op;op;…>` over a pool of 4 slots.
   formats: bytes ascii latin1 utf8 wtf8; atomicity: N | A (ignored by the model).
   ops (indices / counts decimal, bytes / code points hex):
   `new i` `from i <hex>` `slice i <hex>` `push i <hex>` `pushs i <hex>` `pushc i <cp>` `pusht i j`
   `popf i n` `popb i n` `tpopf i n` `tpopb i n` `sub i j off len` `tsub i j off len` `clone i j`
   `clear i` `drop i` `popc i` `popr i j k` `send i` `reserve i n` `withcap i n` `setb i k <v>`
   output per op: `<result>|<alloc events>|<slot0>|<slot1>|<slot2>|<slot3>`, then
   `end|<alloc events of dropping the pool>|live=<n>` -/
namespace H5V.Model.TendrilDriver
open H5V.Proto H5V.Model.Tendril

def formatOf : String → Option Format
  | "bytes" => some Format.bytes
  | "ascii" => some Format.ascii
  | "latin1" => some Format.latin1
  | "utf8" => some Format.utf8
  | "wtf8" => some Format.wtf8
  | _ => none

def showEvents (evs : List Event) : String :=
  let parts := evs.filterMap (fun e => match e with
    | .alloc _ c => some ("A" ++ toString c)
    | .free _ c => some ("F" ++ toString c)
    | _ => none)
  if parts.isEmpty then "-" else " ".intercalate parts

/-- events emitted between two heaps, chronological -/
def newEvents (h h' : Heap) : List Event :=
  (h'.trace.take (h'.trace.length - h.trace.length)).reverse

def showSlot (st : St) (k : Nat) : String :=
  match st.pool[k]? with
  | some (some t) =>
    let bytes := showBytes (abs st.heap t)
    match t with
    | .inline _ => "i:" ++ bytes
    | .owned .. => "o:" ++ bytes
    | .shared id _ _ =>
      -- group = first slot viewing the same buffer (`is_shared_with`)
      let g := ((List.range st.pool.length).find? (fun j =>
        match (st.pool[j]? : Option (Option T)) with
        | some (some (T.shared id' _ _)) => id' == id
        | _ => false)).getD k
      "s" ++ toString g ++ ":" ++ bytes
  | _ => "-"

def showPool (st : St) : String :=
  "|".intercalate ((List.range st.pool.length).map (showSlot st))

def showOut : Out → String
  | .ok => "ok" | .err => "err" | .oob => "oob" | .inv => "inv" | .panic => "panic"
  | .badop => "bad-op"
  | .ch none => "c=-" | .ch (some c) => "c=" ++ toHex c
  | .run none => "r=-" | .run (some c) => "r=" ++ toString c
  | .ub s => "UB " ++ s

def hexArg (rest : List String) : Option (List UInt8) :=
  match parseNums? (" ".intercalate rest) with
  | some ns => if ns.all (· < 256) then some (ns.map UInt8.ofNat) else none
  | none => none

def nat? (s : String) : Option Nat := s.toNat?

inductive Parsed where
  | op (o : Op)
  | opInv (o : Op)      -- `slice` / `pushs`: `err` of the validating twin is printed as `inv`
  | bad

def parseOp (F : Format) (s : String) : Parsed :=
  let sliceFmt := F.name == "bytes" || F.name == "utf8"
  match s.trimAscii.toString.splitOn " " with
  | ["new", i] => match nat? i with | some i => .op (.new i) | _ => .bad
  | "from" :: i :: rest => match nat? i, hexArg rest with
    | some i, some bs => .op (.fromBytes i bs) | _, _ => .bad
  | "slice" :: i :: rest => match nat? i, hexArg rest with
    | some i, some bs => if sliceFmt then .opInv (.fromBytes i bs) else .bad | _, _ => .bad
  | "push" :: i :: rest => match nat? i, hexArg rest with
    | some i, some bs => .op (.pushBytes i bs) | _, _ => .bad
  | "pushs" :: i :: rest => match nat? i, hexArg rest with
    | some i, some bs => if sliceFmt then .opInv (.pushBytes i bs) else .bad | _, _ => .bad
  | ["pushc", i, c] => match nat? i, parseHex? c with
    | some i, some c => if (F.charIndices []).isSome then .op (.pushChar i c) else .bad | _, _ => .bad
  | ["pusht", i, j] => match nat? i, nat? j with
    | some i, some j => .op (.pushTendril i j) | _, _ => .bad
  | ["popf", i, n] => match nat? i, nat? n with
    | some i, some n => .op (.popFront i n) | _, _ => .bad
  | ["popb", i, n] => match nat? i, nat? n with
    | some i, some n => .op (.popBack i n) | _, _ => .bad
  | ["tpopf", i, n] => match nat? i, nat? n with
    | some i, some n => .op (.tryPopFront i n) | _, _ => .bad
  | ["tpopb", i, n] => match nat? i, nat? n with
    | some i, some n => .op (.tryPopBack i n) | _, _ => .bad
  | ["sub", i, j, o, l] => match nat? i, nat? j, nat? o, nat? l with
    | some i, some j, some o, some l => .op (.subtendril i j o l) | _, _, _, _ => .bad
  | ["tsub", i, j, o, l] => match nat? i, nat? j, nat? o, nat? l with
    | some i, some j, some o, some l => .op (.trySubtendril i j o l) | _, _, _, _ => .bad
  | ["clone", i, j] => match nat? i, nat? j with
    | some i, some j => .op (.clone i j) | _, _ => .bad
  | ["clear", i] => match nat? i with | some i => .op (.clear i) | _ => .bad
  | ["drop", i] => match nat? i with | some i => .op (.drop i) | _ => .bad
  | ["popc", i] => match nat? i with | some i => .op (.popFrontChar i) | _ => .bad
  | ["popr", i, j, k] => match nat? i, nat? j, nat? k with
    | some i, some j, some k => if k < 3 then .op (.popFrontCharRun i j k) else .bad | _, _, _ => .bad
  | ["send", i] => match nat? i with | some i => .op (.sendRoundTrip i) | _ => .bad
  | ["reserve", i, n] => match nat? i, nat? n with
    | some i, some n => .op (.reserve i n) | _, _ => .bad
  | ["withcap", i, n] => match nat? i, nat? n with
    | some i, some n => .op (.withCapacity i n) | _, _ => .bad
  | ["setb", i, k, v] => match nat? i, nat? k, parseHex? v with
    | some i, some k, some v =>
      if F.name == "bytes" && v < 256 then .op (.setByte i k (UInt8.ofNat v)) else .bad
    | _, _, _ => .bad
  | _ => .bad

def runOp (F : Format) (st : St) (s : String) : St × String :=
  let (st', out) := match parseOp F s with
    | .bad => (st, Out.badop)
    | .op o => step F st o
    | .opInv o => match step F st o with
      | (st', .err) => (st', .inv)
      | r => r
  (st', showOut out ++ "|" ++ showEvents (newEvents st.heap st'.heap) ++ "|" ++ showPool st')

def runCase (fields : List String) : String :=
  match fields with
  | [fmt, atom, ops] =>
    match formatOf fmt with
    | none => "bad-case"
    | some F =>
      if atom != "N" && atom != "A" then "bad-case" else
      let (st, outs) := (ops.splitOn ";").foldl (fun (acc : St × List String) op =>
        let (st', o) := runOp F acc.1 op
        (st', o :: acc.2)) (St.init 4, [])
      let fin := match dropAll st with
        | .ok st' => "end|" ++ showEvents (newEvents st.heap st'.heap) ++ "|live="
                      ++ toString st'.heap.liveCount
        | .error (.ub s) => "end|UB " ++ s
        | .error (.panic s) => "end|panic " ++ s
      ";".intercalate (outs.reverse ++ [fin])
  | _ => "bad-case"

end H5V.Model.TendrilDriver
