import H5V.Proto
/- engine `tendril` (stub) -/
namespace H5V.Model.TendrilDriver

def runCase (_fields : List String) : String := "unimplemented"

end H5V.Model.TendrilDriver
