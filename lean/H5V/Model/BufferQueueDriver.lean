import H5V.Proto
import H5V.Model.BufferQueue
/- engine `bq`: one case = op list `op;op;…`, ops:
   `pb <hex>` `pf <hex>` `n` `k` `x <bits-decimal>` `e <0|1> <hex>`
   `pp` (pop_front) `ie` (is_empty) `fc` (peek_front_chunk_mut)
   second queue: `apb <hex>` (push_back on it) `sw` (swap_with) `rw` (replace_with, the second queue starts afresh) -/
namespace H5V.Model.BQ
open H5V.Proto

def eqOf (ci : Bool) : Char → Char → Bool :=
  fun a b => if ci then a.toLower == b.toLower else a == b

def showQueue (q : Queue) : String :=
  "Q=" ++ "|".intercalate (q.bufs.map showChars)

def showOptChar : Option Char → String
  | none => "-"
  | some c => toHex c.toNat

def popFront (q : Queue) : Option Buf × Queue :=
  match q.bufs with
  | [] => (none, q)
  | b :: rest => (some b, ⟨rest⟩)

def runOp (q : Queue) (op : String) : Queue × String :=
  match (op.trimAscii.toString.splitOn " ") with
  | ["pp"] => match popFront q with
      | (none, q') => (q', "pp=-") | (some b, q') => (q', "pp=" ++ showChars b)
  | ["ie"] => (q, if q.bufs.isEmpty then "ie=1" else "ie=0")
  | ["fc"] => match q.bufs with
      | [] => (q, "fc=-") | b :: _ => (q, "fc=" ++ showChars b)
  | "pb" :: rest => match parseChars? (" ".intercalate rest) with
      | some b => (pushBack q b, "ok") | none => (q, "bad-op")
  | "pf" :: rest => match parseChars? (" ".intercalate rest) with
      | some b => (pushFront q b, "ok") | none => (q, "bad-op")
  | ["n"] => match next q with
      | .ok (c, q') => (q', "n=" ++ showOptChar c) | .error _ => (q, "panic")
  | ["k"] => match peek q with
      | .ok c => (q, "k=" ++ showOptChar c) | .error _ => (q, "panic")
  | ["x", bits] => match bits.toNat? with
      | some b => (match popExceptFrom ⟨b⟩ q with
        | .ok (none, q') => (q', "x=-")
        | .ok (some (.fromSet c), q') => (q', "x=S:" ++ toHex c.toNat)
        | .ok (some (.notFromSet r), q') => (q', "x=N:" ++ showChars r)
        | .error _ => (q, "panic"))
      | none => (q, "bad-op")
  | "e" :: ci :: rest => match parseChars? (" ".intercalate rest) with
      | some pat => (match eat pat (eqOf (ci == "1")) q with
        | .ok (none, q') => (q', "e=N")
        | .ok (some true, q') => (q', "e=T")
        | .ok (some false, q') => (q', "e=F")
        | .error _ => (q, "panic"))
      | none => (q, "bad-op")
  | _ => (q, "bad-op")

def runCase (fields : List String) : String :=
  match fields with
  | [ops] =>
    let isAux (op : String) : Bool := op.startsWith "apb" || op == "sw" || op == "rw"
    let (q, aux, outs) := (ops.splitOn ";").foldl (fun (acc : Queue × Queue × List String) op =>
      let (q, aux, outs) := acc
      match (op.trimAscii.toString.splitOn " ") with
      | "apb" :: rest => (match parseChars? (" ".intercalate rest) with
          | some b => (q, pushBack aux b, "ok" :: outs) | none => (q, aux, "bad-op" :: outs))
      | ["sw"] => (aux, q, "ok" :: outs)
      | ["rw"] => (aux, empty, "ok" :: outs)
      | _ =>
        let (q', o) := runOp q op
        (q', aux, o :: outs)) (empty, empty, [])
    let usedAux := (ops.splitOn ";").any isAux
    ";".intercalate (outs.reverse) ++ ";" ++ showQueue q ++
      (if usedAux then ";A=" ++ "|".intercalate (aux.bufs.map showChars) else "")
  | _ => "bad-case"

end H5V.Model.BQ
