import H5V.Proto
import H5V.Model.BufferQueue
/- engine `bq`: one case = op list `op;op;…`, ops:
   `pb <hex>` `pf <hex>` `n` `k` `x <bits-decimal>` `e <0|1> <hex>`  -/
namespace H5V.Model.BQ
open H5V.Proto

def eqOf (ci : Bool) : Char → Char → Bool :=
  fun a b => if ci then a.toLower == b.toLower else a == b

def showQueue (q : Queue) : String :=
  "Q=" ++ "|".intercalate (q.bufs.map showChars)

def showOptChar : Option Char → String
  | none => "-"
  | some c => toHex c.toNat

def runOp (q : Queue) (op : String) : Queue × String :=
  match (op.trimAscii.toString.splitOn " ") with
  | "pb" :: rest => match parseChars? (" ".intercalate rest) with
      | some b => (pushBack q b, "ok") | none => (q, "bad-op")
  | "pf" :: rest => match parseChars? (" ".intercalate rest) with
      | some b => (pushFront q b, "ok") | none => (q, "bad-op")
  | ["n"] => match next q with
      | .ok (c, q') => (q', "n=" ++ showOptChar c) | .error _ => (q, "panic")
  | ["k"] => match peek q with
      | .ok c => (q, "k=" ++ showOptChar c) | .error _ => (q, "panic")
  | ["x", bits] => match bits.toNat? with
      | some b => (match popExceptFrom ⟨b⟩ q with
        | .ok (none, q') => (q', "x=-")
        | .ok (some (.fromSet c), q') => (q', "x=S:" ++ toHex c.toNat)
        | .ok (some (.notFromSet r), q') => (q', "x=N:" ++ showChars r)
        | .error _ => (q, "panic"))
      | none => (q, "bad-op")
  | "e" :: ci :: rest => match parseChars? (" ".intercalate rest) with
      | some pat => (match eat pat (eqOf (ci == "1")) q with
        | .ok (none, q') => (q', "e=N")
        | .ok (some true, q') => (q', "e=T")
        | .ok (some false, q') => (q', "e=F")
        | .error _ => (q, "panic"))
      | none => (q, "bad-op")
  | _ => (q, "bad-op")

def runCase (fields : List String) : String :=
  match fields with
  | [ops] =>
    let (q, outs) := (ops.splitOn ";").foldl (fun (acc : Queue × List String) op =>
      let (q', o) := runOp acc.1 op
      (q', o :: acc.2)) (empty, [])
    ";".intercalate (outs.reverse) ++ ";" ++ showQueue q
  | _ => "bad-case"

end H5V.Model.BQ
