import H5V.Proto
import H5V.Model.XmlJoint
import H5V.Model.XmlTokDriver
import H5V.Model.XmlTBDriver
/- engine `xmltok`, mode `jtree <opts> <chunks>`: the joint parse `xmlParseChunks` (tokenizer model → tree-builder
   model) against the real `parse_document(RcDom)` fed the same chunks.  Output `J=err=…;tree=…` as the `xmltb` engine
   prints it, the tree builder's parse errors with adjacent repetitions collapsed (the number of "unexpected text"
   reports depends on how the tokenizer cuts a run into character tokens: `C15_tree_error_count_depends_on_cut`). -/
namespace H5V.Model.XmlJointDriver
open H5V.Proto H5V.Model

def dedupAdjS : List String → List String
  | [] => []
  | x :: l => if l.head? = some x then dedupAdjS l else x :: dedupAdjS l

def dumpJoint (s : XmlTB.State) : String :=
  let errs := dedupAdjS (s.errors.reverse.map XmlTBDriver.errCode)
  let tree := XmlTBDriver.dumpNodes s.document
  "J=err=" ++ (if errs.isEmpty then "-" else ",".intercalate errs) ++ ";tree=" ++
    (if tree.isEmpty then "-" else tree)

def runJoint (optsS chunksS : String) : String :=
  let opts := (optsS.splitOn ",").filterMap fun p =>
    match p.splitOn "=" with | [k, v] => some (k, v) | _ => none
  let o : XmlTok.Opts := { exactErrors := XmlTokDriver.getOpt opts "exact" false }
  match (chunksS.splitOn "|").mapM parseChars? with
  | some chunks =>
    match H5V.Props.C15.xmlParseChunks o XmlTB.TbCfg.current
        (H5V.Props.C15.xjFresh .data (XmlTokDriver.getOpt opts "bom" true)) chunks with
    | .ok s => dumpJoint s
    | .error e => e
  | none => "bad-case"

end H5V.Model.XmlJointDriver
