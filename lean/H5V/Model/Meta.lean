/-
Model of `html5ever/src/encoding.rs` : extract_a_character_encoding_from_a_meta_element.

`input` is the byte string of the `StrTendril`; `position` is a byte offset as in the Rust.  Every
slice index `[a..]`, the `usize` subtraction and `subtendril` are explicit `.error` branches naming
the site; `slice.get(..)?` / `.position(..)?` are the `none` ("return nothing") results.  The two
`loop`s run on fuel `input.length + 1`, running out of fuel is an error branch.

Not modelled: `subtendril` on a `StrTendril` also checks that the cut does not split a UTF-8
sequence (panic `ValidationFailed`).  All cuts made here are adjacent to an ASCII byte or an end of
the string, so for a valid `StrTendril` that check cannot fail; the model works on raw bytes and does
not carry validity (see C19.py ASSUMPTIONS).
-/
namespace H5V.Model.Meta

/-- `u8::is_ascii_whitespace`: SPACE, TAB, LF, FF, CR -/
def isAsciiWhitespace (b : UInt8) : Bool := b == 0x20 || b == 0x09 || b == 0x0A || b == 0x0C || b == 0x0D

/-- `u8::to_ascii_lowercase` -/
def toAsciiLower (b : UInt8) : UInt8 := if 0x41 ≤ b.toNat ∧ b.toNat ≤ 0x5A then b + 0x20 else b

/-- `<[u8]>::eq_ignore_ascii_case` -/
def eqIgnoreAsciiCase (a b : List UInt8) : Bool := a.map toAsciiLower == b.map toAsciiLower

/-- b"charset" -/
def charset : List UInt8 := [0x63, 0x68, 0x61, 0x72, 0x73, 0x65, 0x74]

/-- `slice.get(a..b)` -/
def getRange (input : List UInt8) (a b : Nat) : Option (List UInt8) :=
  if a ≤ b ∧ b ≤ input.length then some ((input.drop a).take (b - a)) else none

/-- `&input.as_bytes()[position..]` -/
def sliceFrom (site : String) (input : List UInt8) (position : Nat) : Except String (List UInt8) :=
  if position > input.length then .error (site ++ " slice start out of range") else .ok (input.drop position)

/-- `input.subtendril(offset, length)` (bounds part) -/
def subtendril (site : String) (input : List UInt8) (offset length : Nat) : Except String (List UInt8) :=
  if offset > input.length ∨ length > input.length - offset then .error (site ++ " subtendril out of bounds")
  else .ok ((input.drop offset).take length)

/-- the inner `loop` (step 2): position of the first match at or after `position`, `none` = `?` fired -/
def findLoop (input : List UInt8) : Nat → Nat → Except String (Option Nat)
  | 0, _ => .error "encoding.rs:21 loop does not terminate (model fuel exhausted)"
  | fuel + 1, position =>
    match getRange input position (position + 7) with
    | none => .ok none
    | some candidate =>
      if eqIgnoreAsciiCase candidate charset then .ok (some position)
      else findLoop input fuel (position + 1)

/-- the outer `loop` (steps 2–4): position of the `=`, `none` = return nothing -/
def outerLoop (input : List UInt8) : Nat → Nat → Except String (Option Nat)
  | 0, _ => .error "encoding.rs:18 loop does not terminate (model fuel exhausted)"
  | fuel + 1, position => do
    match ← findLoop input (input.length + 1) position with
    | none => .ok none
    | some p =>
      let position := p + 7
      let tail ← sliceFrom "encoding.rs:32" input position
      let position := position + (tail.takeWhile isAsciiWhitespace).length
      match input[position]? with
      | none => .ok none
      | some b => if b == 0x3D then .ok (some position) else outerLoop input fuel position

def extract (input : List UInt8) : Except String (Option (List UInt8)) := do
  match ← outerLoop input (input.length + 1) 0 with
  | none => .ok none
  | some eqPos =>
    -- Skip the "="
    let position := eqPos + 1
    let tail ← sliceFrom "encoding.rs:47" input position
    let position := position + (tail.takeWhile isAsciiWhitespace).length
    match input[position]? with
    | none => .ok none
    | some quote =>
      if quote == 0x22 || quote == 0x27 then do
        let tail ← sliceFrom "encoding.rs:57" input (position + 1)
        match tail.findIdx? (fun b => b == quote) with
        | none => .ok none
        | some length => do
          let t ← subtendril "encoding.rs:60" input (position + 1) length
          .ok (some t)
      else do
        let tail ← sliceFrom "encoding.rs:66" input position
        match tail.findIdx? (fun b => isAsciiWhitespace b || b == 0x3B) with
        | some length => do
          let t ← subtendril "encoding.rs:70" input position length
          .ok (some t)
        | none =>
          if position > input.length then .error "encoding.rs:72 usize subtraction overflow" else do
          let t ← subtendril "encoding.rs:72" input position (input.length - position)
          .ok (some t)

end H5V.Model.Meta
