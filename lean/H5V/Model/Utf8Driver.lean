import H5V.Proto
/- engine `utf8` (stub) -/
namespace H5V.Model.Utf8Driver

def runCase (_fields : List String) : String := "unimplemented"

end H5V.Model.Utf8Driver
