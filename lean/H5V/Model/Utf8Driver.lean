import H5V.Proto
import H5V.Model.Utf8
/- engine `utf8`:
   `dec <chunks>`  chunks = bytes in hex, `|`-separated → sink calls `t:<hex>` / `e`, `;`-separated
   `std <bytes>`   the modelled `str::from_utf8` → `ok` | `err <valid_up_to> <error_len|->`
   `enc …`, `encd …`, `parse …`, `front …` exercise the real library only (no model): answer `no-model`.  -/
namespace H5V.Model.Utf8Driver
open H5V.Proto H5V.Model.Utf8

def showEvent : Event → String
  | .text bs => "t:" ++ showBytes bs
  | .error => "e"

def parseByte? (n : Nat) : Option UInt8 := if n < 256 then some (UInt8.ofNat n) else none

def parseBytesStrict? (s : String) : Option (List UInt8) :=
  (parseNums? s).bind (·.mapM parseByte?)

def parseChunks? (s : String) : Option (List (List UInt8)) :=
  (s.splitOn "|").mapM parseBytesStrict?

def runCase (fields : List String) : String :=
  match fields with
  | ["dec", chunks] =>
    match parseChunks? chunks with
    | none => "bad-case"
    | some cs =>
      match run cs with
      | .error e => "PANIC " ++ e
      | .ok evs => if evs.isEmpty then "-" else ";".intercalate (evs.map showEvent)
  | ["std", bytes] =>
    match parseBytesStrict? bytes with
    | none => "bad-case"
    | some bs =>
      match fromUtf8 bs with
      | .ok => "ok"
      | .err v e => "err " ++ toString v ++ " " ++ (match e with | some n => toString n | none => "-")
  | ["enc", _, _] => "no-model"
  | ["encd", _, _, _] => "no-model"
  | ["parse", _, _] => "no-model"
  | ["front", _, _] => "no-model"
  | _ => "bad-case"

end H5V.Model.Utf8Driver
