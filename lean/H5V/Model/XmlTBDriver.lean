import H5V.Proto
/- engine `xmltb` (stub) -/
namespace H5V.Model.XmlTBDriver

def runCase (_fields : List String) : String := "unimplemented"

end H5V.Model.XmlTBDriver
