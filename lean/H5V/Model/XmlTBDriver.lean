import H5V.Proto
import H5V.Model.XmlTB
/- engine `xmltb` — see harness/src/engines/xmltb.rs for the case and output syntax.
   `tok <tokens>`               tokens (split names) into the tree-builder model
   `src <chunks> <rawtokens>`   the raw token list (`S|M|E|H,rawname(,rawattr,value)*`, other tokens as
                                in `tok`) goes through the tokenizer's attribute step (`finishTag`) and
                                then the tree-builder model; the text chunks are for the harness only -/
namespace H5V.Model.XmlTBDriver
open H5V.Proto H5V.Model.XmlTB

def validChar (n : Nat) : Bool := n < 0xd800 || (0xdfff < n && n < 0x110000)

/-- `.`-joined hex code points, `-` = empty -/
def undhex? (s : String) : Option Str :=
  if s == "-" then some [] else
  (s.splitOn ".").mapM (fun x => match parseHex? x with
    | some n => if validChar n then some (Char.ofNat n) else none
    | none => none)

def undhexOpt? (s : String) : Option (Option Str) :=
  if s == "~" then some none else (undhex? s).map some

def dhex (s : Str) : String :=
  if s.isEmpty then "-" else ".".intercalate (s.map (fun c => toHex c.toNat))

def dhexOpt : Option Str → String
  | none => "~"
  | some s => dhex s

def dumpName (n : QName) : String := dhexOpt n.pfx ++ ":" ++ dhex n.ns ++ ":" ++ dhex n.loc

def dumpAttrs (as : List Attr) : String :=
  String.join (as.map (fun a => " " ++ dumpName a.name ++ "=" ++ dhex a.value))

mutual
def dumpNode : Node → String
  | .elem n as ks => "e[" ++ dumpName n ++ dumpAttrs as ++ "](" ++ dumpNodes ks ++ ")"
  | .text s => "t[" ++ dhex s ++ "]"
  | .comment s => "c[" ++ dhex s ++ "]"
  | .pi t d => "p[" ++ dhex t ++ ":" ++ dhex d ++ "]"
  | .doctype n p s => "d[" ++ dhex n ++ ":" ++ dhex p ++ ":" ++ dhex s ++ "]"
def dumpNodes : List Node → String
  | [] => ""
  | n :: ns => dumpNode n ++ dumpNodes ns
end

def errCode : Err → String
  | .xmlnsUri => "xu" | .xmlRedecl => "xr" | .xmlnsChanged => "xc" | .alreadyDefined => "ad"
  | .invalidDecl => "iv" | .noNamespace => "nf" | .eofInStart => "es" | .unexpStart => "us"
  | .unexpMain => "um" | .unexpEnd => "ue" | .currentMismatch => "cm" | .secondDoctype => "sd"

def dumpState (s : State) : String :=
  let errs := s.errors.reverse.map errCode
  let tree := dumpNodes s.document
  "err=" ++ (if errs.isEmpty then "-" else ",".intercalate errs) ++ ";tree=" ++
    (if tree.isEmpty then "-" else tree)

def kind? : String → Option TagKind
  | "S" => some .start | "M" => some .empty | "E" => some .end_ | "H" => some .short | _ => none

def parseAttrs? : List String → Option (List RAttr)
  | [] => some []
  | p :: l :: v :: rest => do
    let p ← undhexOpt? p
    let l ← undhex? l
    let v ← undhex? v
    let as ← parseAttrs? rest
    pure (⟨⟨p, l⟩, v⟩ :: as)
  | _ => none

def parseRawAttrs? : List String → Option (List RawAttr)
  | [] => some []
  | n :: v :: rest => do
    let n ← undhex? n
    let v ← undhex? v
    let as ← parseRawAttrs? rest
    pure (⟨n, v⟩ :: as)
  | _ => none

/-- tokens other than tags -/
def parseOther? : List String → Option Token
  | ["T", t] => (undhex? t).map .chars
  | ["C", t] => (undhex? t).map .comment
  | ["P", t, d] => do pure (.pi (← undhex? t) (← undhex? d))
  | ["D", n, p, s] => do pure (.doctype (← undhexOpt? n) (← undhexOpt? p) (← undhexOpt? s))
  | ["N"] => some .nullChar
  | ["Z"] => some .eof
  | _ => none

def parseToken? (s : String) : Option Token :=
  match s.splitOn "," with
  | k :: p :: l :: rest =>
    match kind? k with
    | some kd => do
      let p ← undhexOpt? p
      let l ← undhex? l
      let as ← parseAttrs? rest
      pure (.tag ⟨kd, ⟨p, l⟩, as⟩)
    | none => parseOther? (k :: p :: l :: rest)
  | parts => parseOther? parts

def parseRawToken? (cfg : TokCfg) (s : String) : Option Token :=
  match s.splitOn "," with
  | k :: n :: rest =>
    match kind? k with
    | some kd => do
      let n ← undhex? n
      let as ← parseRawAttrs? rest
      pure (.tag (finishTag cfg ⟨kd, n, as⟩))
    | none => parseOther? (k :: n :: rest)
  | parts => parseOther? parts

def parseList? (f : String → Option Token) (s : String) : Option (List Token) :=
  if s == "-" then some [] else (s.splitOn ";").mapM f

def runTokens (cfg : TbCfg) (toks : List Token) : String :=
  match run cfg State.init toks with
  | .ok s => dumpState s
  | .error e => "PANIC " ++ e

/-- modes `tok` / `src` run the `.current` configuration (what /repo is expected to do); `tok+fixed` /
`src+fixed` run the model with every proposed fix (no harness counterpart: used to pre-validate
patches against a patched copy of the crates) -/
def runCase (fields : List String) : String :=
  match fields with
  | ["tok", toks] =>
    match parseList? parseToken? toks with
    | some ts => runTokens TbCfg.current ts
    | none => "bad-case"
  | ["src", _chunks, raw] =>
    match parseList? (parseRawToken? TokCfg.current) raw with
    | some ts => runTokens TbCfg.current ts
    | none => "bad-case"
  | ["tok+fixed", toks] =>
    match parseList? parseToken? toks with
    | some ts => runTokens TbCfg.fixed ts
    | none => "bad-case"
  | ["src+fixed", _chunks, raw] =>
    match parseList? (parseRawToken? TokCfg.fixed) raw with
    | some ts => runTokens TbCfg.fixed ts
    | none => "bad-case"
  | _ => "bad-case"

end H5V.Model.XmlTBDriver
