import H5V.Gen.Entities
import H5V.Gen.C1
/-
Model of xml5ever's tokenizer (`xml5ever/src/tokenizer/mod.rs`, `char_ref/mod.rs`, `qname.rs`).

Same architecture as `H5V.Model.HtmlTok` ("table × driver", DESIGN.md 3.2):
* `Mach` is everything the tokenizer holds *except the unread input*; the per-state transition
  functions (`transChar`, `transSet`, `transEof`) are pure functions on `Mach` mirroring the `match`
  arms of `XmlTokenizer::step` / `eof_step`.
* the *reader* (`getChar`, `peek`, `discardChar`, `popExceptFrom`, `eat`, `unconsume`, the
  character-reference sub-tokenizer) is the only code that sees the input, a flat `List Char` (the
  concatenation of the BufferQueue; C13 proves the queue is partition-blind). Bulk reads
  (`NotFromSet` runs) are modelled one character at a time; tokens are compared after merging
  adjacent character tokens.  A run is delivered *raw* (no CR/NUL folding) exactly as in the Rust —
  which is why the per-state sets must contain `\r` and `\0` (theorem `sets_cover`, C15).
* every `assert!`/`unwrap`/`expect`/`panic!` is an explicit `Sig.panic`/`R.panic`.
* XML has no sink feedback (the recording sink answers `Continue`) and no line numbers.
* names are split by `process_qname` on characters; the Rust works on UTF-8 bytes, which coincides
  because `:` is ASCII (the `len() < 3` shortcut is kept, on the UTF-8 length).
-/
namespace H5V.Model.XmlTok

abbrev Str := List Char

inductive DoctypeKind | pub | sys
deriving DecidableEq, Repr, Inhabited

inductive AttrValueKind | unquoted | singleQuoted | doubleQuoted
deriving DecidableEq, Repr, Inhabited

inductive State
  | data | tagState | endTagState | endTagName | endTagNameAfter
  | pi | piTarget | piTargetAfter | piData | piAfter
  | markupDecl | commentStart | commentStartDash | comment | commentLessThan | commentLessThanBang
  | commentLessThanBangDash | commentLessThanBangDashDash | commentEnd | commentEndDash | commentEndBang
  | cdata | cdataBracket | cdataEnd
  | tagName | tagEmpty | tagAttrNameBefore | tagAttrName | tagAttrNameAfter | tagAttrValueBefore
  | tagAttrValue (k : AttrValueKind)
  | doctype | beforeDoctypeName | doctypeName | afterDoctypeName
  | afterDoctypeKeyword (k : DoctypeKind) | beforeDoctypeIdentifier (k : DoctypeKind)
  | doctypeIdentifierDoubleQuoted (k : DoctypeKind) | doctypeIdentifierSingleQuoted (k : DoctypeKind)
  | afterDoctypeIdentifier (k : DoctypeKind) | betweenDoctypePublicAndSystemIdentifiers
  | bogusDoctype | bogusComment
deriving DecidableEq, Repr, Inhabited

def DoctypeKind.dbg : DoctypeKind → String
  | .pub => "Public" | .sys => "System"
def AttrValueKind.dbg : AttrValueKind → String
  | .unquoted => "Unquoted" | .singleQuoted => "SingleQuoted" | .doubleQuoted => "DoubleQuoted"

/-- Rust `{:?}` of `states::XmlState` (appears in parse-error messages) -/
def State.dbg : State → String
  | .data => "Data" | .tagState => "TagState" | .endTagState => "EndTagState" | .endTagName => "EndTagName"
  | .endTagNameAfter => "EndTagNameAfter" | .pi => "Pi" | .piTarget => "PiTarget"
  | .piTargetAfter => "PiTargetAfter" | .piData => "PiData" | .piAfter => "PiAfter"
  | .markupDecl => "MarkupDecl" | .commentStart => "CommentStart" | .commentStartDash => "CommentStartDash"
  | .comment => "Comment" | .commentLessThan => "CommentLessThan" | .commentLessThanBang => "CommentLessThanBang"
  | .commentLessThanBangDash => "CommentLessThanBangDash"
  | .commentLessThanBangDashDash => "CommentLessThanBangDashDash" | .commentEnd => "CommentEnd"
  | .commentEndDash => "CommentEndDash" | .commentEndBang => "CommentEndBang"
  | .cdata => "Cdata" | .cdataBracket => "CdataBracket" | .cdataEnd => "CdataEnd"
  | .tagName => "TagName" | .tagEmpty => "TagEmpty" | .tagAttrNameBefore => "TagAttrNameBefore"
  | .tagAttrName => "TagAttrName" | .tagAttrNameAfter => "TagAttrNameAfter"
  | .tagAttrValueBefore => "TagAttrValueBefore" | .tagAttrValue k => "TagAttrValue(" ++ k.dbg ++ ")"
  | .doctype => "Doctype" | .beforeDoctypeName => "BeforeDoctypeName" | .doctypeName => "DoctypeName"
  | .afterDoctypeName => "AfterDoctypeName"
  | .afterDoctypeKeyword k => "AfterDoctypeKeyword(" ++ k.dbg ++ ")"
  | .beforeDoctypeIdentifier k => "BeforeDoctypeIdentifier(" ++ k.dbg ++ ")"
  | .doctypeIdentifierDoubleQuoted k => "DoctypeIdentifierDoubleQuoted(" ++ k.dbg ++ ")"
  | .doctypeIdentifierSingleQuoted k => "DoctypeIdentifierSingleQuoted(" ++ k.dbg ++ ")"
  | .afterDoctypeIdentifier k => "AfterDoctypeIdentifier(" ++ k.dbg ++ ")"
  | .betweenDoctypePublicAndSystemIdentifiers => "BetweenDoctypePublicAndSystemIdentifiers"
  | .bogusDoctype => "BogusDoctype" | .bogusComment => "BogusComment"

/-! ### tokens -/

inductive TagKind | startTag | endTag | emptyTag | shortTag
deriving DecidableEq, Repr, Inhabited

/-- `QualName` as the tokenizer builds it: the namespace is always empty here -/
structure QName where
  pfx : Option Str
  loc : Str
deriving DecidableEq, Repr, Inhabited

structure Attr where
  name : QName
  value : Str
deriving DecidableEq, Repr, Inhabited

structure Tag where
  kind : TagKind
  name : QName
  attrs : List Attr
deriving DecidableEq, Repr, Inhabited

structure Doctype where
  name : Option Str := none
  publicId : Option Str := none
  systemId : Option Str := none
deriving DecidableEq, Repr, Inhabited

inductive Token
  | doctype (d : Doctype)
  | tag (t : Tag)
  | pi (target data : Str)
  | comment (s : Str)
  | chars (s : Str)
  | eof
  | error (msg : Str)
deriving DecidableEq, Repr, Inhabited

abbrev Out := List Token

structure Opts where
  exactErrors : Bool
deriving DecidableEq, Repr, Inhabited

/-! ### character-reference sub-tokenizer state -/

inductive CRState | begin | octothorpe | numeric (base : Nat) | numericSemicolon | named | bogusName
deriving DecidableEq, Repr, Inhabited

structure CharRefSt where
  state : CRState := .begin
  addnlAllowed : Option Char
  num : Nat := 0            -- u32, wrapping
  numTooBig : Bool := false
  seenDigit : Bool := false
  hexMarker : Option Char := none
  nameBuf : Option Str := none
  nameMatch : Option (Nat × Nat) := none
  nameLen : Nat := 0
deriving DecidableEq, Repr, Inhabited

/-! ### machine state (everything except the unread input) -/

structure Mach where
  state : State := .data
  charRef : Option CharRefSt := none
  currentChar : Char := '\x00'
  reconsume : Bool := false
  ignoreLf : Bool := false
  tagKind : TagKind := .startTag
  tagName : Str := []
  tagAttrs : List Attr := []
  attrName : Str := []
  attrValue : Str := []
  comment : Str := []
  doctype : Doctype := {}
  piTarget : Str := []
  piData : Str := []
  tempBuf : Str := []
  atEof : Bool := false
  discardBom : Bool := true
  /-- tokens delivered to the sink, newest first -/
  out : Out := []
deriving Repr, Inhabited

inductive Sig | cont | panic (msg : String)
deriving DecidableEq, Repr, Inhabited

/-! ### small helpers (the `go!` shorthands) -/

def toAsciiLower (c : Char) : Char :=
  if 'A' ≤ c ∧ c ≤ 'Z' then Char.ofNat (c.toNat + 32) else c

def isAsciiAlnum (c : Char) : Bool :=
  ('a' ≤ c ∧ c ≤ 'z') || ('A' ≤ c ∧ c ≤ 'Z') || ('0' ≤ c ∧ c ≤ '9')

/-- `'\t' | '\n' | ' '` -/
def isWs3 (c : Char) : Bool := c = '\t' || c = '\n' || c = ' '
/-- `'\t' | '\n' | '\x0C' | ' '` -/
def isWs4 (c : Char) : Bool := c = '\t' || c = '\n' || c = '\x0c' || c = ' '

def emit (m : Mach) (t : Token) : Mach := { m with out := t :: m.out }

def emitErr (m : Mach) (msg : String) : Mach := emit m (.error msg.toList)

/-- `emit_char`: `'\0'` is replaced here too -/
def emitChar (m : Mach) (c : Char) : Mach :=
  emit m (.chars [if c = '\x00' then '�' else c])

def emitChars (m : Mach) (s : Str) : Mach := emit m (.chars s)

/-- `bad_char_error` -/
def badChar (o : Opts) (m : Mach) : Mach :=
  if o.exactErrors then
    emit m (.error ("Saw ".toList ++ [m.currentChar] ++ " in state ".toList ++ m.state.dbg.toList))
  else emitErr m "Bad character"

/-- `bad_eof_error`; the exact message formats the `Cell`, not its content -/
def badEof (o : Opts) (m : Mach) : Mach :=
  if o.exactErrors then emitErr m ("Saw EOF in state Cell { value: " ++ m.state.dbg ++ " }")
  else emitErr m "Unexpected EOF"

def to (s : State) (m : Mach) : Mach := { m with state := s }
def reconsumeTo (s : State) (m : Mach) : Mach := { m with reconsume := true, state := s }

def discardTag (m : Mach) : Mach := { m with tagName := [], tagAttrs := [] }

def createTag (k : TagKind) (c : Char) (m : Mach) : Mach :=
  let m := discardTag m
  { m with tagName := m.tagName ++ [c], tagKind := k }

def createPi (c : Char) (m : Mach) : Mach := { m with piTarget := [c], piData := [] }

def pushTag (c : Char) (m : Mach) : Mach := { m with tagName := m.tagName ++ [c] }
def pushPiTarget (c : Char) (m : Mach) : Mach := { m with piTarget := m.piTarget ++ [c] }
def pushPiData (c : Char) (m : Mach) : Mach := { m with piData := m.piData ++ [c] }
def setEmptyTag (m : Mach) : Mach := { m with tagKind := .emptyTag }

/-! #### qualified names (`qname.rs`, `process_qname`) -/

inductive QNState | beforeName | inName | afterColon
deriving DecidableEq, Repr

/-- `QualNameTokenizer::run` over the characters from index `i` on; `n` = total length;
result = index of the separating colon -/
def qnameRun (n : Nat) : QNState → Nat → Option Nat → Str → Option Nat
  | _, _, valid, [] => valid
  | .beforeName, i, valid, c :: rest =>
    if c = ':' then valid
    else if i + 1 < n then qnameRun n .inName (i + 1) valid rest else valid
  | .inName, i, valid, c :: rest =>
    let hit := c = ':' ∧ i + 1 < n
    let valid := if hit then some i else valid
    let st := if hit then QNState.afterColon else .inName
    if i + 1 < n then qnameRun n st (i + 1) valid rest else valid
  | .afterColon, i, valid, c :: rest =>
    if c = ':' then none
    else if i + 1 < n then qnameRun n .afterColon (i + 1) valid rest else valid

def utf8Len (s : Str) : Nat := s.foldl (fun a c => a + c.utf8Size) 0

/-- `process_qname` -/
def processQName (name : Str) : QName :=
  let split := if utf8Len name < 3 then none else qnameRun name.length .beforeName 0 none name
  match split with
  | none => ⟨none, name⟩
  | some col => ⟨some (name.take col), name.drop (col + 1)⟩

def xmlnsName : Str := "xmlns".toList

/-- `finish_attribute`: duplicates are detected by qualified name; namespace declarations go first -/
def finishAttribute (m : Mach) : Mach :=
  if m.attrName.isEmpty then m else
  let q := processQName m.attrName
  if m.tagAttrs.any (fun a => a.name == q) then
    let m := emitErr m "Duplicate attribute"
    { m with attrName := [], attrValue := [] }
  else
    let attr : Attr := ⟨q, m.attrValue⟩
    let m := { m with attrName := [], attrValue := [] }
    if (q.pfx.isNone && q.loc == xmlnsName) || q.pfx == some xmlnsName then
      { m with tagAttrs := attr :: m.tagAttrs }
    else { m with tagAttrs := m.tagAttrs ++ [attr] }

def createAttr (c : Char) (m : Mach) : Mach :=
  let m := finishAttribute m
  { m with attrName := m.attrName ++ [c] }

def pushName (c : Char) (m : Mach) : Mach := { m with attrName := m.attrName ++ [c] }
def pushValue (c : Char) (m : Mach) : Mach := { m with attrValue := m.attrValue ++ [c] }
def appendValue (s : Str) (m : Mach) : Mach := { m with attrValue := m.attrValue ++ s }
def pushComment (c : Char) (m : Mach) : Mach := { m with comment := m.comment ++ [c] }
def appendComment (s : String) (m : Mach) : Mach := { m with comment := m.comment ++ s.toList }
def clearComment (m : Mach) : Mach := { m with comment := [] }

def emitComment (m : Mach) : Mach :=
  let c := m.comment
  emit { m with comment := [] } (.comment c)

def createDoctype (m : Mach) : Mach := { m with doctype := {} }

def optPush (o : Option Str) (c : Char) : Option Str :=
  match o with
  | some s => some (s ++ [c])
  | none => some [c]

def pushDoctypeName (c : Char) (m : Mach) : Mach :=
  { m with doctype := { m.doctype with name := optPush m.doctype.name c } }

def pushDoctypeId (k : DoctypeKind) (c : Char) (m : Mach) : Mach :=
  match k with
  | .pub => { m with doctype := { m.doctype with publicId := optPush m.doctype.publicId c } }
  | .sys => { m with doctype := { m.doctype with systemId := optPush m.doctype.systemId c } }

def clearDoctypeId (k : DoctypeKind) (m : Mach) : Mach :=
  match k with
  | .pub => { m with doctype := { m.doctype with publicId := some [] } }
  | .sys => { m with doctype := { m.doctype with systemId := some [] } }

def emitDoctype (m : Mach) : Mach :=
  let d := m.doctype
  emit { m with doctype := {} } (.doctype d)

/-- `emit_pi` -/
def emitPi (m : Mach) : Mach :=
  let t := m.piTarget
  let d := m.piData
  emit { m with piTarget := [], piData := [] } (.pi t d)

/-- `consume_char_ref` (a pending tokenizer is simply replaced) -/
def consumeCharRef (addnl : Option Char) (m : Mach) : Mach :=
  { m with charRef := some { addnlAllowed := addnl } }

/-- `emit_current_tag` -/
def emitCurrentTag (m : Mach) : Mach :=
  let m := finishAttribute m
  let q := processQName m.tagName
  let m := { m with tagName := [] }
  let m := match m.tagKind with
    | .startTag | .emptyTag => m
    | .endTag => if !m.tagAttrs.isEmpty then emitErr m "Attributes on an end tag" else m
    | .shortTag => if !m.tagAttrs.isEmpty then emitErr m "Attributes on a short tag" else m
  let tag : Tag := { kind := m.tagKind, name := q, attrs := m.tagAttrs }
  emit { m with tagAttrs := [] } (.tag tag)

def emitTag (next : State) (m : Mach) : Mach := emitCurrentTag (to next m)
def emitShortTag (next : State) (m : Mach) : Mach :=
  let m := to next m
  emitCurrentTag { m with tagKind := .shortTag, tagName := [] }
def emitEmptyTag (next : State) (m : Mach) : Mach :=
  let m := to next m
  emitCurrentTag { m with tagKind := .emptyTag }
def emitStartTag (next : State) (m : Mach) : Mach :=
  let m := to next m
  emitCurrentTag { m with tagKind := .startTag }

/-! ### transition table: states read with `get_char!` -/

/-- one iteration of the state's `loop` after `get_char!` delivered `c` -/
def transChar (o : Opts) (m : Mach) (c : Char) : Mach × Sig :=
  let ok (m : Mach) : Mach × Sig := (m, .cont)
  match m.state with
  | .tagState =>
    if c = '!' then ok (to .markupDecl m)
    else if c = '/' then ok (to .endTagState m)
    else if c = '?' then ok (to .pi m)
    else if c = '\t' || c = '\n' || c = ' ' || c = ':' || c = '<' || c = '>' then
      ok (reconsumeTo .data (emitChar (badChar o m) '<'))
    else ok (to .tagName (createTag .startTag c m))
  | .endTagState =>
    if c = '>' then ok (emitShortTag .data m)
    else if c = '\t' || c = '\n' || c = ' ' || c = '<' || c = ':' then
      ok (reconsumeTo .data (emitChar (emitChar (badChar o m) '<') '/'))
    else ok (to .endTagName (createTag .endTag c m))
  | .endTagName =>
    if isWs3 c then ok (to .endTagNameAfter m)
    else if c = '/' then ok (to .endTagNameAfter (badChar o m))
    else if c = '>' then ok (emitTag .data m)
    else ok (pushTag c m)
  | .endTagNameAfter =>
    if c = '>' then ok (emitTag .data m)
    else if isWs3 c then ok m
    else ok (emitErr m "Unexpected element in tag name")
  | .pi =>
    if isWs3 c then ok (reconsumeTo .bogusComment (badChar o m))
    else ok (to .piTarget (createPi c m))
  | .piTarget =>
    if isWs3 c then ok (to .piTargetAfter m)
    else if c = '?' then ok (to .piAfter m)
    else ok (pushPiTarget c m)
  | .piTargetAfter =>
    if isWs3 c then ok m
    else ok (reconsumeTo .piData m)
  | .piData =>
    if c = '?' then ok (to .piAfter m)
    else ok (pushPiData c m)
  | .piAfter =>
    if c = '>' then ok (emitPi (to .data m))
    else if c = '?' then ok (to .piAfter m)
    else ok (pushPiData c m)
  | .commentStart =>
    if c = '-' then ok (to .commentStartDash m)
    else if c = '>' then ok (to .data (emitComment (badChar o m)))
    else ok (reconsumeTo .comment m)
  | .commentStartDash =>
    if c = '-' then ok (to .commentEnd m)
    else if c = '>' then ok (to .data (emitComment (badChar o m)))
    else ok (reconsumeTo .comment (pushComment '-' m))
  | .comment =>
    if c = '<' then ok (to .commentLessThan (pushComment '<' m))
    else if c = '-' then ok (to .commentEndDash m)
    else ok (pushComment c m)
  | .commentLessThan =>
    if c = '!' then ok (to .commentLessThanBang (pushComment '!' m))
    else if c = '<' then ok (pushComment '<' m)
    else ok (reconsumeTo .comment m)
  | .commentLessThanBang =>
    if c = '-' then ok (to .commentLessThanBangDash m)
    else ok (reconsumeTo .comment m)
  | .commentLessThanBangDash =>
    if c = '-' then ok (to .commentLessThanBangDashDash m)
    else ok (reconsumeTo .commentEndDash m)
  | .commentLessThanBangDashDash =>
    if c = '>' then ok (reconsumeTo .commentEnd m)
    else ok (reconsumeTo .commentEnd (badChar o m))
  | .commentEndDash =>
    if c = '-' then ok (to .commentEnd m)
    else ok (reconsumeTo .comment (pushComment '-' m))
  | .commentEnd =>
    if c = '>' then ok (to .data (emitComment m))
    else if c = '!' then ok (to .commentEndBang m)
    else if c = '-' then ok (pushComment '-' m)
    else ok (reconsumeTo .comment (appendComment "--" m))
  | .commentEndBang =>
    if c = '-' then ok (to .commentEndDash (appendComment "--!" m))
    else if c = '>' then ok (to .data (emitComment (badChar o m)))
    else ok (reconsumeTo .comment (appendComment "--!" m))
  | .bogusComment =>
    if c = '>' then ok (to .data (emitComment m))
    else ok (pushComment c m)
  | .cdata =>
    if c = ']' then ok (to .cdataBracket m)
    else ok (emitChar m c)
  | .cdataBracket =>
    if c = ']' then ok (to .cdataEnd m)
    else ok (to .cdata (emitChar (emitChar m ']') c))
  | .cdataEnd =>
    if c = '>' then ok (to .data m)
    else if c = ']' then ok (emitChar m ']')
    else ok (to .cdata (emitChar (emitChar (emitChar m ']') ']') c))
  | .tagName =>
    if isWs3 c then ok (to .tagAttrNameBefore m)
    else if c = '>' then ok (emitTag .data m)
    else if c = '/' then ok (to .tagEmpty (setEmptyTag m))
    else ok (pushTag c m)
  | .tagEmpty =>
    if c = '>' then ok (emitEmptyTag .data m)
    else ok (reconsumeTo .tagAttrValueBefore m)
  | .tagAttrNameBefore =>
    if isWs3 c then ok m
    else if c = '>' then ok (emitTag .data m)
    else if c = '/' then ok (to .tagEmpty (setEmptyTag m))
    else if c = ':' then ok (badChar o m)
    else ok (to .tagAttrName (createAttr c m))
  | .tagAttrName =>
    if c = '=' then ok (to .tagAttrValueBefore m)
    else if c = '>' then ok (emitTag .data m)
    else if isWs3 c then ok (to .tagAttrNameAfter m)
    else if c = '/' then ok (to .tagEmpty (setEmptyTag m))
    else ok (pushName c m)
  | .tagAttrNameAfter =>
    if isWs3 c then ok m
    else if c = '=' then ok (to .tagAttrValueBefore m)
    else if c = '>' then ok (emitTag .data m)
    else if c = '/' then ok (to .tagEmpty (setEmptyTag m))
    else ok (to .tagAttrName (createAttr c m))
  | .tagAttrValueBefore =>
    if isWs3 c then ok m
    else if c = '"' then ok (to (.tagAttrValue .doubleQuoted) m)
    else if c = '\'' then ok (to (.tagAttrValue .singleQuoted) m)
    else if c = '&' then ok (reconsumeTo (.tagAttrValue .unquoted) m)
    else if c = '>' then ok (emitTag .data m)
    else ok (to (.tagAttrValue .unquoted) (pushValue c m))
  | .doctype =>
    if isWs4 c then ok (to .beforeDoctypeName m)
    else ok (reconsumeTo .beforeDoctypeName (badChar o m))
  | .beforeDoctypeName =>
    if isWs4 c then ok m
    else if c = '>' then ok (to .data (emitDoctype (badChar o m)))
    else ok (to .doctypeName (pushDoctypeName (toAsciiLower c) (createDoctype m)))
  | .doctypeName =>
    if isWs4 c then ok (to .afterDoctypeName m)
    else if c = '>' then ok (to .data (emitDoctype m))
    else ok (to .doctypeName (pushDoctypeName (toAsciiLower c) m))
  | .afterDoctypeName =>  -- the `else` branch after both `eat!`s failed
    if isWs4 c then ok m
    else if c = '>' then ok (to .data (emitDoctype m))
    else ok (to .bogusDoctype (badChar o m))
  | .afterDoctypeKeyword kind =>
    if isWs4 c then ok (to (.beforeDoctypeIdentifier kind) m)
    else if c = '"' then ok (to (.doctypeIdentifierDoubleQuoted kind) (clearDoctypeId kind (badChar o m)))
    else if c = '\'' then ok (to (.doctypeIdentifierSingleQuoted kind) (clearDoctypeId kind (badChar o m)))
    else if c = '>' then ok (to .data (emitDoctype (badChar o m)))
    else ok (to .bogusDoctype (badChar o m))
  | .beforeDoctypeIdentifier kind =>
    if isWs4 c then ok m
    else if c = '"' then ok (to (.doctypeIdentifierDoubleQuoted kind) (clearDoctypeId kind m))
    else if c = '\'' then ok (to (.doctypeIdentifierSingleQuoted kind) (clearDoctypeId kind m))
    else if c = '>' then ok (to .data (emitDoctype (badChar o m)))
    else ok (to .bogusDoctype (badChar o m))
  | .doctypeIdentifierDoubleQuoted kind =>
    if c = '"' then ok (to (.afterDoctypeIdentifier kind) m)
    else if c = '>' then ok (to .data (emitDoctype (badChar o m)))
    else ok (pushDoctypeId kind c m)
  | .doctypeIdentifierSingleQuoted kind =>
    if c = '\'' then ok (to (.afterDoctypeIdentifier kind) m)
    else if c = '>' then ok (to .data (emitDoctype (badChar o m)))
    else ok (pushDoctypeId kind c m)
  | .afterDoctypeIdentifier .pub =>
    if isWs4 c then ok (to .betweenDoctypePublicAndSystemIdentifiers m)
    else if c = '\'' then ok (to (.doctypeIdentifierSingleQuoted .sys) (clearDoctypeId .sys (badChar o m)))
    else if c = '"' then ok (to (.doctypeIdentifierDoubleQuoted .sys) (clearDoctypeId .sys (badChar o m)))
    else if c = '>' then ok (to .data (emitDoctype m))
    else ok (to .bogusDoctype (badChar o m))
  | .afterDoctypeIdentifier .sys =>
    if isWs4 c then ok m
    else if c = '>' then ok (to .data (emitDoctype m))
    else ok (to .bogusDoctype (badChar o m))
  | .betweenDoctypePublicAndSystemIdentifiers =>
    if isWs4 c then ok m
    else if c = '>' then ok (to .data (emitDoctype m))
    else if c = '\'' then ok (to (.doctypeIdentifierSingleQuoted .sys) m)
    else if c = '"' then ok (to (.doctypeIdentifierDoubleQuoted .sys) m)
    else ok (to .bogusDoctype (badChar o m))
  | .bogusDoctype =>
    if c = '>' then ok (to .data (emitDoctype m))
    else ok m
  -- states not read with get_char!: unreachable from `step`
  | .data | .tagAttrValue _ | .markupDecl => (m, .panic "transChar: state is not a get_char state")

/-! ### transition table: states read with `pop_except_from` -/

inductive SetRes | fromSet (c : Char) | notFromSet (run : Str)
deriving DecidableEq, Repr

def transSet (m : Mach) (r : SetRes) : Mach × Sig :=
  let ok (m : Mach) : Mach × Sig := (m, .cont)
  match m.state, r with
  | .data, .fromSet c =>
    if c = '&' then ok (consumeCharRef none m)
    else if c = '<' then ok (to .tagState m)
    else ok (emitChar m c)
  | .data, .notFromSet b => ok (emitChars m b)
  | .tagAttrValue .doubleQuoted, .fromSet c =>
    if c = '"' then ok (to .tagAttrNameBefore m)
    else if c = '&' then ok (consumeCharRef (some '"') m)
    else ok (pushValue c m)
  | .tagAttrValue .singleQuoted, .fromSet c =>
    if c = '\'' then ok (to .tagAttrNameBefore m)
    else if c = '&' then ok (consumeCharRef (some '\'') m)
    else ok (pushValue c m)
  | .tagAttrValue .unquoted, .fromSet c =>
    if c = '\t' || c = '\n' || c = ' ' then ok (to .tagAttrNameBefore m)
    else if c = '&' then ok (consumeCharRef none m)
    else if c = '>' then ok (emitTag .data m)
    else ok (pushValue c m)
  | .tagAttrValue _, .notFromSet b => ok (appendValue b m)
  | _, _ => (m, .panic "transSet: state is not a pop_except_from state")

/-- members of the `small_char_set!` of each `pop_except_from` state (checked against
`H5V.Gen.XmlTokSets`, which is regenerated from the source, by theorem `xmlTokSets_match`) -/
def setOf : State → List Char
  | .data => ['\x00', '\r', '&', '<']
  | .tagAttrValue .doubleQuoted => ['\x00', '\n', '\r', '"', '&']
  | .tagAttrValue .singleQuoted => ['\x00', '\n', '\r', '&', '\'']
  | .tagAttrValue .unquoted => ['\x00', '\t', '\n', '\r', ' ', '&', '>']
  | _ => []

/-! ### EOF table (`eof_step`) -/

inductive EofSig | cont | done | panic (msg : String)
deriving DecidableEq, Repr

def transEof (o : Opts) (m : Mach) : Mach × EofSig :=
  let ok (m : Mach) : Mach × EofSig := (m, .cont)
  match m.state with
  | .data => (emit m .eof, .done)
  | .commentStart | .commentLessThan | .commentLessThanBang => ok (reconsumeTo .comment m)
  | .commentLessThanBangDash => ok (reconsumeTo .commentEndDash m)
  | .commentLessThanBangDashDash => ok (reconsumeTo .commentEnd m)
  | .commentStartDash | .comment | .commentEndDash | .commentEnd | .commentEndBang =>
    (emit (emitComment (badEof o m)) .eof, .done)
  | .tagState => ok (to .data (emitChar (badEof o m) '<'))
  | .endTagState => ok (to .data (emitChar (emitChar (badEof o m) '<') '/'))
  | .tagEmpty => ok (to .tagAttrNameBefore (badEof o m))
  | .cdata | .cdataBracket | .cdataEnd => ok (to .data (badEof o m))
  | .pi => ok (to .bogusComment (badEof o m))
  | .piTargetAfter | .piAfter => ok (reconsumeTo .piData m)
  | .markupDecl => ok (to .bogusComment (badEof o m))
  | .tagName | .tagAttrNameBefore | .endTagName | .tagAttrNameAfter | .endTagNameAfter
  | .tagAttrValueBefore | .tagAttrValue _ => ok (emitTag .data (badEof o m))
  | .piData | .piTarget => ok (emitPi (to .data (badEof o m)))
  | .tagAttrName => ok (emitStartTag .data (badEof o m))
  | .beforeDoctypeName | .doctype | .doctypeName | .afterDoctypeName | .afterDoctypeKeyword _
  | .beforeDoctypeIdentifier _ | .afterDoctypeIdentifier _ | .doctypeIdentifierSingleQuoted _
  | .doctypeIdentifierDoubleQuoted _ | .betweenDoctypePublicAndSystemIdentifiers =>
    ok (to .data (emitDoctype (badEof o m)))
  | .bogusDoctype => ok (to .data (emitDoctype m))
  | .bogusComment => ok (to .data (emitComment m))

/-! ### the reader: the only code that sees the unread input -/

def Mach.setIgnoreLf (m : Mach) (b : Bool) : Mach := { m with ignoreLf := b }
def Mach.setReconsume (m : Mach) (b : Bool) : Mach := { m with reconsume := b }
def Mach.setTempBuf (m : Mach) (s : Str) : Mach := { m with tempBuf := s }
def Mach.setCharRef (m : Mach) (cr : Option CharRefSt) : Mach := { m with charRef := cr }
def Mach.setAtEof (m : Mach) (b : Bool) : Mach := { m with atEof := b }
def Mach.setDiscardBom (m : Mach) (b : Bool) : Mach := { m with discardBom := b }
def Mach.setCurrentChar (m : Mach) (c : Char) : Mach := { m with currentChar := c }

def badCharClass (c : Char) : Bool :=
  let n := c.toNat
  (0x01 ≤ n ∧ n ≤ 0x08) || n = 0x0B || (0x0E ≤ n ∧ n ≤ 0x1F) || (0x7F ≤ n ∧ n ≤ 0x9F)
    || (0xFDD0 ≤ n ∧ n ≤ 0xFDEF) || (n &&& 0xFFFE) = 0xFFFE

/-- the input-independent half of `get_preprocessed_char`: CR→LF (remembering to ignore a following
LF), NUL→U+FFFD, the `exact_errors` character check, `current_char` -/
def foldChar (o : Opts) (m : Mach) (c : Char) : Char × Mach :=
  let cm : Char × Mach := if c = '\r' then ('\n', m.setIgnoreLf true) else (c, m)
  let c := if cm.1 = '\x00' then '�' else cm.1
  let m := if o.exactErrors && badCharClass c then
      emit cm.2 (.error ("Bad character ".toList ++ [c])) else cm.2
  (c, m.setCurrentChar c)

/-- `get_preprocessed_char`: `c` was already taken from the input. `none` = the LF of a CRLF was
swallowed and the input ran dry. -/
def preprocess (o : Opts) (m : Mach) (c : Char) (inp : Str) : Option Char × Mach × Str :=
  if m.ignoreLf then
    if c = '\n' then
      match inp with
      | [] => (none, m.setIgnoreLf false, [])
      | c' :: rest =>
        let r := foldChar o (m.setIgnoreLf false) c'
        (some r.1, r.2, rest)
    else
      let r := foldChar o (m.setIgnoreLf false) c
      (some r.1, r.2, inp)
  else
    let r := foldChar o m c
    (some r.1, r.2, inp)

/-- `get_char` -/
def getChar (o : Opts) (m : Mach) (inp : Str) : Option Char × Mach × Str :=
  if m.reconsume then (some m.currentChar, m.setReconsume false, inp)
  else match inp with
    | [] => (none, m, [])
    | c :: rest => preprocess o m c rest

/-- `peek` (raw: no preprocessing) -/
def peek (m : Mach) (inp : Str) : Option Char :=
  if m.reconsume then some m.currentChar else inp.head?

/-- `XmlTokenizer::pop_except_from` with a one-character run (the Rust returns some non-empty prefix
of the maximal run; adjacent character tokens are merged before comparison).  A run is raw. -/
def popExceptFrom (o : Opts) (set : List Char) (m : Mach) (inp : Str) : Option SetRes × Mach × Str :=
  if o.exactErrors || m.reconsume || m.ignoreLf then
    let r := getChar o m inp
    (r.1.map .fromSet, r.2)
  else match inp with
    | [] => (none, m, [])
    | c :: rest =>
      if set.contains c then
        let r := preprocess o m c rest
        (r.1.map .fromSet, r.2)
      else (some (.notFromSet [c]), m, rest)

/-- does `pat` match a prefix of `s` under `eq`? `none` = `s` is a proper matching prefix -/
def eatCmp (eq : Char → Char → Bool) : Str → Str → Option Bool
  | _, [] => some true
  | [], _ :: _ => none
  | c :: s, p :: ps => if eq c p then eatCmp eq s ps else some false

/-- `u8::eq_ignore_ascii_case` (all patterns are ASCII) -/
def eqCi (a b : Char) : Bool := toAsciiLower a == toAsciiLower b

/-- the `ignore_lf` prologue of `XmlTokenizer::eat`: the flag is forgotten only once the character
after the CR has been seen; an LF there is dropped with `discard_char` (= `get_char`, which cannot
fail here because `peek` just saw a character; the `assert!` is modelled by keeping the input) -/
def eatSkipLf (o : Opts) (m : Mach) (inp : Str) : Mach × Str :=
  if m.ignoreLf then
    match peek m inp with
    | some c =>
      if c = '\n' then
        let r := getChar o (m.setIgnoreLf false) inp
        (r.2.1, r.2.2)
      else (m.setIgnoreLf false, inp)
    | none => (m, inp)
  else (m, inp)

/-- `XmlTokenizer::eat` (with `BufferQueue::eat`): `none` = need more input (everything available was
stashed in `temp_buf`) -/
def eat (o : Opts) (m : Mach) (inp : Str) (pat : Str) : Option Bool × Mach × Str :=
  let mi := eatSkipLf o m inp
  -- push_front(temp_buf)
  let all := mi.1.tempBuf ++ mi.2
  match eatCmp eqCi all pat with
  | some true => (some true, mi.1.setTempBuf [], all.drop pat.length)
  | some false => (some false, mi.1.setTempBuf [], all)
  | none =>
    if mi.1.atEof then (some false, mi.1.setTempBuf [], all)
    else (none, mi.1.setTempBuf all, [])

/-- `XmlTokenizer::unconsume`: text read through `get_char` is pushed back; when its last character is
a CR that was folded to LF (`ignore_lf` still set) the CR itself is handed back -/
def unconsume (m : Mach) (inp : Str) (buf : Str) : Mach × Str :=
  if m.ignoreLf && buf.getLast? == some '\n' then (m.setIgnoreLf false, buf.dropLast ++ ['\r'] ++ inp)
  else (m, buf ++ inp)

/-! ### named character references: lookup in the generated table (same table as html5ever:
`markup5ever::data::NAMED_ENTITIES`) -/

def isPrefixOf : List Nat → List Nat → Bool
  | [], _ => true
  | _ :: _, [] => false
  | a :: as, b :: bs => a == b && isPrefixOf as bs

def entityLookupN (key : List Nat) : Option (Nat × Nat) :=
  match key with
  | [] => some (0, 0)
  | c :: _ =>
    let b := Gen.Entities.bucket c
    match b.find? (fun r => r.1 == key) with
    | some r => some r.2
    | none => if b.any (fun r => isPrefixOf key r.1) then some (0, 0) else none

def entityLookup (name : Str) : Option (Nat × Nat) := entityLookupN (name.map Char.toNat)

/-! ### character-reference sub-tokenizer -/

inductive CRStatus | stuck | progress | done (chars : Str)
deriving Repr

def toDigit (c : Char) (base : Nat) : Option Nat :=
  let n := c.toNat
  let d : Option Nat :=
    if '0' ≤ c ∧ c ≤ '9' then some (n - '0'.toNat)
    else if 'a' ≤ c ∧ c ≤ 'z' then some (n - 'a'.toNat + 10)
    else if 'A' ≤ c ∧ c ≤ 'Z' then some (n - 'A'.toNat + 10)
    else none
  match d with
  | some d => if d < base then some d else none
  | none => none

def hexDigitsUpper : List Char := "0123456789ABCDEF".toList

def hexUpperAux : Nat → Nat → Str → Str
  | 0, _, acc => acc
  | fuel + 1, n, acc =>
    let acc := hexDigitsUpper[n % 16]! :: acc
    if n < 16 then acc else hexUpperAux fuel (n / 16) acc

/-- `{:06X}` -/
def hex06 (n : Nat) : Str :=
  let s := hexUpperAux 16 n []
  List.replicate (6 - s.length) '0' ++ s

def isValidScalar (n : Nat) : Bool := n < 0xD800 || (0xE000 ≤ n && n ≤ 0x10FFFF)

/-- `finish_numeric`; result: (machine with possible error, char or panic) -/
def finishNumeric (o : Opts) (m : Mach) (cr : CharRefSt) : Mach × Except String Char :=
  let n := cr.num
  let conv (n : Nat) : Except String Char :=
    if isValidScalar n then .ok (Char.ofNat n) else .error "invalid char missed by error handling cases"
  let (c, err) : Except String Char × Bool :=
    if n > 0x10FFFF || cr.numTooBig then (.ok '�', true)
    else if n = 0 || (0xD800 ≤ n && n ≤ 0xDFFF) then (.ok '�', true)
    else if 0x80 ≤ n && n ≤ 0x9F then
      match Gen.C1.table[n - 0x80]? with
      | some (some r) => (conv r, true)
      | some none => (conv n, true)
      | none => (.error "C1_REPLACEMENTS index out of bounds", true)
    else if (0x01 ≤ n && n ≤ 0x08) || n = 0x0B || (0x0D ≤ n && n ≤ 0x1F) || n = 0x7F
        || (0xFDD0 ≤ n && n ≤ 0xFDEF) then (conv n, true)
    else if (n &&& 0xFFFE) = 0xFFFE then (conv n, true)
    else (conv n, false)
  let m := if err then
      (if o.exactErrors then
        emit m (.error ("Invalid numeric character reference value 0x".toList ++ hex06 n))
       else emitErr m "Invalid numeric character reference")
    else m
  (m, c)

def nameErr (o : Opts) (m : Mach) (nameBuf : Str) : Mach :=
  if o.exactErrors then emit m (.error ("Invalid character reference &".toList ++ nameBuf))
  else emitErr m "Invalid character reference"

/-- result of one char-ref step: machine, input, sub-state, status; or a panic -/
abbrev CRRes := Except String (Mach × Str × CharRefSt × CRStatus)

/-- `discard_char` = `get_char` + `assert!(c.is_some())` -/
def discardChar (o : Opts) (m : Mach) (inp : Str) : Except String (Mach × Str) :=
  match getChar o m inp with
  | (some _, m, inp) => .ok (m, inp)
  | (none, _, _) => .error "assertion failed: c.is_some()"

def unconsumeNumeric (m : Mach) (inp : Str) (cr : CharRefSt) : CRRes :=
  let un : Str := '#' :: (match cr.hexMarker with | some c => [c] | none => [])
  let mi := unconsume m inp un
  .ok (emitErr mi.1 "Numeric character reference without digits", mi.2, cr, .done [])

def finishNumericStatus (o : Opts) (m : Mach) (inp : Str) (cr : CharRefSt) : CRRes :=
  match finishNumeric o m cr with
  | (m, .ok c) => .ok (m, inp, cr, .done [c])
  | (_, .error e) => .error e

/-- `unconsume_name` -/
def unconsumeName (m : Mach) (inp : Str) (cr : CharRefSt) : CRRes :=
  match cr.nameBuf with
  | none => .error "unconsume_name: unwrap on None"
  | some nb =>
    let mi := unconsume m inp nb
    .ok (mi.1, mi.2, { cr with nameBuf := none }, .done [])

/-- the input-independent decision of `finish_named` when there is a match:
`none` = un-consume everything; `some chars` = emit `chars`, un-consume the tail -/
def namedDecision (m : Mach) (cr : CharRefSt) (nameBuf : Str) (c1 c2 : Nat) :
    Except String (Mach × Option Str) :=
  let nameLen := cr.nameLen
  if nameLen = 0 then .error "assertion failed: name_len > 0" else
  match nameBuf[nameLen - 1]? with
  | none => .error "finish_named: slice index out of bounds"
  | some lastMatched =>
    let nextAfter : Option Char := if nameLen = nameBuf.length then none else nameBuf[nameLen]?
    let inAttr := cr.addnlAllowed.isSome
    let ua : Bool × Mach :=
      if lastMatched = ';' then (false, m)
      else if inAttr && nextAfter = some '=' then
        (true, emitErr m "Equals sign after character reference in attribute")
      else if inAttr && (match nextAfter with | some c => isAsciiAlnum c | none => false) then (true, m)
      else (false, emitErr m "Character reference does not end with semicolon")
    if ua.1 then .ok (ua.2, none)
    else if !(isValidScalar c1 && isValidScalar c2) then .error "from_u32(c).unwrap()"
    else .ok (ua.2, some (if c2 = 0 then [Char.ofNat c1] else [Char.ofNat c1, Char.ofNat c2]))

/-- `finish_named` -/
def finishNamed (o : Opts) (m : Mach) (inp : Str) (cr : CharRefSt) (endChar : Option Char) : CRRes :=
  match cr.nameBuf with
  | none => .error "name_buf missing in named character reference"
  | some nameBuf =>
  match cr.nameMatch with
  | none =>
    let continueBogus := match endChar with | some c => isAsciiAlnum c | none => false
    if continueBogus then .ok (m, inp, { cr with state := .bogusName }, .progress)
    else
      let m := match endChar with
        | some c => if c = ';' && utf8Len nameBuf > 1 then nameErr o m nameBuf else m
        | none => m
      unconsumeName m inp cr
  | some (c1, c2) =>
    match namedDecision m cr nameBuf c1 c2 with
    | .error e => .error e
    | .ok (m, none) => unconsumeName m inp cr
    | .ok (m, some chars) =>
      let mi := unconsume m inp (nameBuf.drop cr.nameLen)
      .ok (mi.1, mi.2, cr, .done chars)

/-- `CharRefTokenizer::step` -/
def crStep (o : Opts) (m : Mach) (inp : Str) (cr : CharRefSt) : CRRes :=
  match cr.state with
  | .begin =>
    match peek m inp with
    | none => .ok (m, inp, cr, .stuck)
    | some c =>
      if c = '\t' || c = '\n' || c = '\x0c' || c = ' ' || c = '<' || c = '&' then .ok (m, inp, cr, .done [])
      else if some c = cr.addnlAllowed then .ok (m, inp, cr, .done [])
      else if c = '#' then
        match discardChar o m inp with
        | .error e => .error e
        | .ok d => .ok (d.1, d.2, { cr with state := .octothorpe }, .progress)
      else .ok (m, inp, { cr with state := .named, nameBuf := some [] }, .progress)
  | .octothorpe =>
    match peek m inp with
    | none => .ok (m, inp, cr, .stuck)
    | some c =>
      if c = 'x' || c = 'X' then
        match discardChar o m inp with
        | .error e => .error e
        | .ok d => .ok (d.1, d.2, { cr with hexMarker := some c, state := .numeric 16 }, .progress)
      else .ok (m, inp, { cr with hexMarker := none, state := .numeric 10 }, .progress)
  | .numeric base =>
    match peek m inp with
    | none => .ok (m, inp, cr, .stuck)
    | some c =>
      match toDigit c base with
      | some n =>
        match discardChar o m inp with
        | .error e => .error e
        | .ok d =>
          let num := (cr.num * base) % 4294967296
          let tooBig := cr.numTooBig || num > 0x10FFFF
          let num := (num + n) % 4294967296
          .ok (d.1, d.2, { cr with num := num, numTooBig := tooBig, seenDigit := true }, .progress)
      | none =>
        if !cr.seenDigit then unconsumeNumeric m inp cr
        else .ok (m, inp, { cr with state := .numericSemicolon }, .progress)
  | .numericSemicolon =>
    match peek m inp with
    | none => .ok (m, inp, cr, .stuck)
    | some c =>
      if c = ';' then
        match discardChar o m inp with
        | .error e => .error e
        | .ok d => finishNumericStatus o d.1 d.2 cr
      else finishNumericStatus o (emitErr m "Semicolon missing after numeric character reference") inp cr
  | .named =>
    match getChar o m inp with
    | (none, m, inp) => .ok (m, inp, cr, .stuck)
    | (some c, m, inp) =>
      match cr.nameBuf with
      | none => .error "name_buf missing in named character reference"
      | some nb =>
        let nb := nb ++ [c]
        let cr := { cr with nameBuf := some nb }
        match entityLookup nb with
        | some mt =>
          if mt.1 ≠ 0 then .ok (m, inp, { cr with nameMatch := some mt, nameLen := nb.length }, .progress)
          else .ok (m, inp, cr, .progress)
        | none => finishNamed o m inp cr (some c)
  | .bogusName =>
    match getChar o m inp with
    | (none, m, inp) => .ok (m, inp, cr, .stuck)
    | (some c, m, inp) =>
      match cr.nameBuf with
      | none => .error "name_buf missing in named character reference"
      | some nb =>
        let nb := nb ++ [c]
        let cr := { cr with nameBuf := some nb }
        if isAsciiAlnum c then .ok (m, inp, cr, .progress)
        else
          let m := if c = ';' then nameErr o m nb else m
          unconsumeName m inp cr

def isAttrValueState : State → Bool
  | .tagAttrValue _ => true
  | _ => false

/-- `process_char_ref` -/
def processCharRef (m : Mach) (chars : Str) : Mach × Sig :=
  let chars := if chars.isEmpty then ['&'] else chars
  match m.state with
  | .data | .cdata => (chars.foldl emitChar m, .cont)
  | .tagAttrValue _ => (chars.foldl (fun m c => pushValue c m) m, .cont)
  | _ => (m, .panic "state should not be reachable in process_char_ref")

/-- `end_of_file` of the char-ref tokenizer (loops until a result exists; at most two rounds) -/
def crEof (o : Opts) (m : Mach) (inp : Str) (cr : CharRefSt) : Except String (Mach × Str × Str) :=
  let once (m : Mach) (inp : Str) (cr : CharRefSt) : CRRes :=
    match cr.state with
    | .begin => .ok (m, inp, cr, .done [])
    | .numeric _ =>
      if !cr.seenDigit then unconsumeNumeric m inp cr
      else finishNumericStatus o (emitErr m "EOF in numeric character reference") inp cr
    | .numericSemicolon =>
      finishNumericStatus o (emitErr m "EOF in numeric character reference") inp cr
    | .named => finishNamed o m inp cr none
    | .bogusName => unconsumeName m inp cr
    | .octothorpe =>
      let mi := unconsume m inp ['#']
      .ok (emitErr mi.1 "EOF after '#' in character reference", mi.2, cr, .done [])
  match once m inp cr with
  | .error e => .error e
  | .ok (m, inp, _, .done chars) => .ok (m, inp, chars)
  | .ok (_, _, _, .stuck) => .error "end_of_file: unexpected Stuck"
  | .ok (m, inp, cr, .progress) =>
    match once m inp cr with
    | .error e => .error e
    | .ok (m, inp, _, .done chars) => .ok (m, inp, chars)
    | .ok (_, _, _, _) => .error "end_of_file: does not terminate"

/-! ### one step of `XmlTokenizer::step` -/

inductive R
  | cont (m : Mach) (inp : Str)
  | suspend (m : Mach) (inp : Str)
  | panic (msg : String)
deriving Repr

def ofSig (ms : Mach × Sig) (inp : Str) : R :=
  match ms.2 with
  | .cont => .cont ms.1 inp
  | .panic e => .panic e

inductive ReadKind | getChar | popExcept | eatMd | eatAdn
deriving DecidableEq, Repr

def readKind : State → ReadKind
  | .data | .tagAttrValue _ => .popExcept
  | .markupDecl => .eatMd
  | .afterDoctypeName => .eatAdn
  | _ => .getChar

def stepCharRef (o : Opts) (m : Mach) (inp : Str) (cr : CharRefSt) : R :=
  match crStep o m inp cr with
  | .error e => .panic e
  | .ok (m, inp, cr, .stuck) => .suspend (m.setCharRef (some cr)) inp
  | .ok (m, inp, cr, .progress) => .cont (m.setCharRef (some cr)) inp
  | .ok (m, inp, _, .done chars) =>
    let ms := processCharRef m chars
    ofSig (ms.1.setCharRef none, ms.2) inp

/-- look-ahead keywords -/
def kwDashDash : Str := ['-', '-']
def kwCdata : Str := ['[', 'C', 'D', 'A', 'T', 'A', '[']
def kwDoctype : Str := ['D', 'O', 'C', 'T', 'Y', 'P', 'E']
def kwPublic : Str := ['p', 'u', 'b', 'l', 'i', 'c']
def kwSystem : Str := ['s', 'y', 's', 't', 'e', 'm']

def stepMd (o : Opts) (m : Mach) (inp : Str) : R :=
  match eat o m inp kwDashDash with
  | (none, m, inp) => .suspend m inp
  | (some true, m, inp) => .cont (to .commentStart (clearComment m)) inp
  | (some false, m, inp) =>
    match eat o m inp kwCdata with
    | (none, m, inp) => .suspend m inp
    | (some true, m, inp) => .cont (to .cdata m) inp
    | (some false, m, inp) =>
      match eat o m inp kwDoctype with
      | (none, m, inp) => .suspend m inp
      | (some true, m, inp) => .cont (to .doctype m) inp
      | (some false, m, inp) => .cont (to .bogusComment (badChar o m)) inp

def stepAdn (o : Opts) (m : Mach) (inp : Str) : R :=
  match eat o m inp kwPublic with
  | (none, m, inp) => .suspend m inp
  | (some true, m, inp) => .cont (to (.afterDoctypeKeyword .pub) m) inp
  | (some false, m, inp) =>
    match eat o m inp kwSystem with
    | (none, m, inp) => .suspend m inp
    | (some true, m, inp) => .cont (to (.afterDoctypeKeyword .sys) m) inp
    | (some false, m, inp) =>
      match getChar o m inp with
      | (none, m, inp) => .suspend m inp
      | (some c, m, inp) => ofSig (transChar o m c) inp

def step (o : Opts) (m : Mach) (inp : Str) : R :=
  match m.charRef with
  | some cr => stepCharRef o m inp cr
  | none =>
    match readKind m.state with
    | .getChar =>
      match getChar o m inp with
      | (none, m, inp) => .suspend m inp
      | (some c, m, inp) => ofSig (transChar o m c) inp
    | .popExcept =>
      match popExceptFrom o (setOf m.state) m inp with
      | (none, m, inp) => .suspend m inp
      | (some r, m, inp) => ofSig (transSet m r) inp
    | .eatMd => stepMd o m inp
    | .eatAdn => stepAdn o m inp

/-! ### `run`, `feed`, `end` -/

inductive RunRes
  | done (m : Mach) (inp : Str)          -- suspended: needs more input
  | panic (msg : String)
  | outOfFuel
deriving Repr

/-- `XmlTokenizer::run`: iterate `step` while it answers Continue -/
def run (o : Opts) : Nat → Mach → Str → RunRes
  | 0, _, _ => .outOfFuel
  | fuel + 1, m, inp =>
    match step o m inp with
    | .cont m inp => run o fuel m inp
    | .suspend m inp => .done m inp
    | .panic e => .panic e

/-- fuel for `run`: 17 steps per unread or stashed character plus a constant (un-consumed text is
read twice; same shape as the HTML tokenizer's bound, for which sufficiency is a theorem) -/
def fuelFor (m : Mach) (inp : Str) : Nat :=
  17 * (inp.length + m.tempBuf.length
        + (match m.charRef with | some cr => (cr.nameBuf.getD []).length + 2 | none => 0)) + 16

/-- the BOM prologue of `XmlTokenizer::feed`: the flag is consumed by the first character ever seen -/
def feedBom (m : Mach) (inp : Str) : Mach × Str :=
  match inp with
  | [] => (m, [])
  | c :: rest =>
    if m.discardBom then
      (m.setDiscardBom false, if c = '﻿' then rest else c :: rest)
    else (m, inp)

/-- `XmlTokenizer::feed` on the flat input -/
def feed (o : Opts) (m : Mach) (inp : Str) (chunk : Str) : RunRes :=
  let all := inp ++ chunk
  if all.isEmpty then .done m []
  else
    let mi := feedBom m all
    run o (fuelFor mi.1 mi.2) mi.1 mi.2

/-- the `eof_step` loop -/
def eofLoop (o : Opts) : Nat → Mach → Except String Mach
  | 0, _ => .error "eof loop out of fuel"
  | fuel + 1, m =>
    match transEof o m with
    | (m, .cont) => eofLoop o fuel m
    | (m, .done) => .ok m
    | (_, .panic e) => .error e

/-- `XmlTokenizer::end` (the caller's queue is not consulted: a fresh empty one is used) -/
def finish (o : Opts) (m : Mach) : Except String Mach :=
  let r : Except String (Mach × Str) :=
    match m.charRef with
    | none => .ok (m, [])
    | some cr =>
      match crEof o m [] cr with
      | .error e => .error e
      | .ok (m, inp, chars) =>
        match processCharRef (m.setCharRef none) chars with
        | (m, .cont) => .ok (m, inp)
        | (_, .panic e) => .error e
  match r with
  | .error e => .error e
  | .ok (m, inp) =>
    let m := m.setAtEof true
    match run o (fuelFor m inp) m inp with
    | .done m _ => eofLoop o 8 m
    | .panic e => .error e
    | .outOfFuel => .error "run out of fuel"

end H5V.Model.XmlTok
