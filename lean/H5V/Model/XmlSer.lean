import H5V.Model.XmlTB
/-
Model of `XmlSerializer` (`/repo/xml5ever/src/serialize/mod.rs`) driven by rcdom's `Serialize`
impl (`/repo/rcdom/lib.rs:615-675`, `ChildrenOnly` on the document node), plus the *assumed*
lexing of the produced text back into tokens (`lexEv`), so that "serialize, then parse again" can be
stated against the tree-builder model `H5V.Model.XmlTB`.

The serializer is modelled as a producer of output *events* (`Ev`), one per `Serializer` trait call;
`render` turns events into the exact characters written (tied to the real bytes by the `xmlser`
correspondence), `lexEv` into the token the XML tokenizer produces for that piece of text.  `lexEv`
is a specification of the tokenizer on serializer output, NOT proved here against a tokenizer model
(that is the xmltok package's subject); it is validated on every `xmlser` case against the real
re-parse.

DEFECT SWITCHES — `SerCfg.code` (all `false`) is the pinned tree; every flag is one fix (all
committed in /repo: eeda1d4, 4808426; the driver runs `SerCfg.current` = `SerCfg.fixed`)
(DESIGN 1.3 item 15 and what was found next to it):
* `attrsBeforeDecls`   start_elem registers the attribute names *before* it writes the xmlns
                       declarations (code: after — declarations for attribute prefixes never appear)
* `endElemNoInsert`    end_elem only writes the name (code: `qual_name` → `find_or_insert_ns` runs after
                       the element's own map was popped and registers the name in the PARENT's map,
                       so a following sibling with the same prefix/URI gets no declaration)
* `undeclareDefault`   an unprefixed element in no namespace under a non-empty default namespace gets
                       `xmlns=""` (code: never emitted)
* `escapeUri`          namespace URIs are written escaped like attribute values (code: raw bytes)
* `escapeCR`           U+000D is written as `&#13;` in text and attribute values (code: raw CR, which
                       the parser turns into LF)
`LexCfg.attrCRNormalised` = does the tokenizer normalise CR / CRLF inside attribute values?  On the
pinned tree it does not (DESIGN 1.3 item 12: the attribute-value fast-path sets lack `\r`).
-/
namespace H5V.Model.XmlSer
open H5V.Model.XmlTB

structure SerCfg where
  attrsBeforeDecls : Bool
  endElemNoInsert : Bool
  undeclareDefault : Bool
  escapeUri : Bool
  escapeCR : Bool
deriving Repr, DecidableEq

/-- the pinned tree -/
def SerCfg.code : SerCfg := ⟨false, false, false, false, false⟩
/-- all proposed fixes -/
def SerCfg.fixed : SerCfg := ⟨true, true, true, true, true⟩
/-- ***SWITCH***: what the driver (correspondence) runs = what /repo does now: `SerCfg.code` until
/repo commits eeda1d4 / 4808426, `SerCfg.fixed` since -/
def SerCfg.current : SerCfg := SerCfg.fixed

/-- the serializer's `NamespaceMap`: every value is `Some(ns)` there (`insert`, mod.rs:103-107) -/
abbrev SMap := List (Option Str × Str)

/-- `BTreeMap::insert`: replaces -/
def SMap.insert (m : SMap) (k : Option Str) (v : Str) : SMap := (k, v) :: m.filter (fun e => e.1 != k)

/-- lexicographic order on strings by code point (= UTF-8 byte order, the `Ord` of atoms) -/
def strLt : Str → Str → Bool
  | [], [] => false
  | [], _ :: _ => true
  | _ :: _, [] => false
  | a :: as, b :: bs => a.toNat < b.toNat || (a == b && strLt as bs)

/-- `Option<Prefix>` order of the `BTreeMap`: `None` first -/
def keyLt : Option Str → Option Str → Bool
  | none, none => false
  | none, some _ => true
  | some _, none => false
  | some a, some b => strLt a b

def insertSorted (e : Option Str × Str) : SMap → SMap
  | [] => [e]
  | x :: rest => if keyLt e.1 x.1 then e :: x :: rest else x :: insertSorted e rest

/-- `get_scope_iter`: entries in key order -/
def sortDecls (m : SMap) : SMap := m.foldr insertSorted []

/-- `find_uri` (mod.rs:121-130): the innermost map that binds the prefix decides -/
def findUri (stack : List SMap) (n : QName) : Bool :=
  match stack.findSome? (fun m => m.lookup n.pfx) with
  | some ns => ns == n.ns
  | none => false

/-- is a non-empty default namespace in scope? (used by the proposed fix only) -/
def defaultBound (stack : List SMap) : Bool :=
  match stack.findSome? (fun m => m.lookup none) with
  | some ns => ns != []
  | none => false

def insertTop (stack : List SMap) (k : Option Str) (v : Str) : List SMap :=
  match stack with
  | [] => []
  | top :: rest => top.insert k v :: rest

/-- `find_or_insert_ns` (mod.rs:132-138) -/
def findOrInsert (stack : List SMap) (n : QName) : List SMap :=
  if (n.pfx.isSome || n.ns != []) && !findUri stack n then insertTop stack n.pfx n.ns else stack

/-- output events: one per `Serializer` method call -/
inductive Ev where
  | startTag (name : QName) (decls : SMap) (attrs : List Attr)
  | endTag (name : QName)
  | text (s : Str)
  | comment (s : Str)
  | pi (target data : Str)
  | doctype (name : Str)
deriving Repr, DecidableEq

/-- `start_elem` (mod.rs:144-179) -/
def startElem (cfg : SerCfg) (stack : List SMap) (name : QName) (attrs : List Attr) : Ev × List SMap :=
  let stack := [] :: stack
  let stack := findOrInsert stack name
  let stack :=
    if cfg.undeclareDefault && name.pfx.isNone && name.ns == [] && defaultBound stack
    then insertTop stack none [] else stack
  let reg := fun (st : List SMap) => attrs.foldl (fun st a => findOrInsert st a.name) st
  let stack := if cfg.attrsBeforeDecls then reg stack else stack
  let decls := match stack with
    | top :: _ => sortDecls top
    | [] => []
  let stack := if cfg.attrsBeforeDecls then stack else reg stack
  (.startTag name decls attrs, stack)

/-- `end_elem` (mod.rs:182-187) -/
def endElem (cfg : SerCfg) (stack : List SMap) (name : QName) : Ev × List SMap :=
  let stack := stack.tail
  let stack := if cfg.endElemNoInsert then stack else findOrInsert stack name
  (.endTag name, stack)

mutual
/-- rcdom `Serialize::serialize` on one node (the explicit op queue is a depth-first traversal) -/
def serNode (cfg : SerCfg) : List SMap → Node → List Ev × List SMap
  | st, .elem n as ks =>
    let (e1, st1) := startElem cfg st n as
    let (evs, st2) := serNodes cfg st1 ks
    let (e2, st3) := endElem cfg st2 n
    (e1 :: evs ++ [e2], st3)
  | st, .text s => ([.text s], st)
  | st, .comment s => ([.comment s], st)
  | st, .pi t d => ([.pi t d], st)
  | st, .doctype n _ _ => ([.doctype n], st)
def serNodes (cfg : SerCfg) : List SMap → List Node → List Ev × List SMap
  | st, [] => ([], st)
  | st, n :: rest =>
    let (e1, st1) := serNode cfg st n
    let (e2, st2) := serNodes cfg st1 rest
    (e1 ++ e2, st2)
end

/-- `serialize(doc, ChildrenOnly)`: the serializer starts with an empty stack (mod.rs:102-107) -/
def serDoc (cfg : SerCfg) (doc : List Node) : List Ev := (serNodes cfg [] doc).1

/-! ## rendering -/

/-- `write_to_buf_escaped` (mod.rs:75-87) -/
def escapeChar (cfg : SerCfg) (attrMode : Bool) (c : Char) : Str :=
  if c = '&' then ['&', 'a', 'm', 'p', ';']
  else if c = '\'' ∧ attrMode then ['&', 'a', 'p', 'o', 's', ';']
  else if c = '"' ∧ attrMode then ['&', 'q', 'u', 'o', 't', ';']
  else if c = '<' ∧ !attrMode then ['&', 'l', 't', ';']
  else if c = '>' ∧ !attrMode then ['&', 'g', 't', ';']
  else if c = '\r' ∧ cfg.escapeCR then ['&', '#', '1', '3', ';']
  else [c]

def escape (cfg : SerCfg) (attrMode : Bool) (s : Str) : Str := (s.map (escapeChar cfg attrMode)).flatten

/-- `write_qual_name` (mod.rs:90-98) -/
def rawName (n : QName) : Str :=
  match n.pfx with
  | some p => p ++ ':' :: n.loc
  | none => n.loc

def declName (p : Option Str) : Str :=
  match p with
  | some p => sXmlns ++ ':' :: p
  | none => sXmlns

def declValue (cfg : SerCfg) (uri : Str) : Str := if cfg.escapeUri then escape cfg true uri else uri

def renderEv (cfg : SerCfg) : Ev → Str
  | .startTag n decls attrs =>
    '<' :: rawName n ++
      (decls.map (fun d => ' ' :: declName d.1 ++ '=' :: '"' :: declValue cfg d.2 ++ ['"'])).flatten ++
      (attrs.map (fun a => ' ' :: rawName a.name ++ '=' :: '"' :: escape cfg true a.value ++ ['"'])).flatten ++
      ['>']
  | .endTag n => '<' :: '/' :: rawName n ++ ['>']
  | .text s => escape cfg false s
  | .comment s => "<!--".toList ++ s ++ "-->".toList
  | .pi t d => '<' :: '?' :: t ++ ' ' :: d ++ ['?', '>']
  | .doctype n => "<!DOCTYPE ".toList ++ n ++ ['>']

def render (cfg : SerCfg) (evs : List Ev) : Str := (evs.map (renderEv cfg)).flatten

/-! ## assumed lexing of the serializer's output -/

structure LexCfg where
  tok : TokCfg
  /-- does the tokenizer normalise CR/CRLF inside attribute values? pinned tree: no (item 12) -/
  attrCRNormalised : Bool
deriving Repr, DecidableEq

def LexCfg.code : LexCfg := ⟨TokCfg.code, false⟩
def LexCfg.fixed : LexCfg := ⟨TokCfg.fixed, true⟩
/-- ***SWITCH***: follows `TokCfg.current`; `attrCRNormalised` is `true` since item 12 was fixed in
/repo (commit 17c2245) -/
def LexCfg.current : LexCfg := ⟨TokCfg.current, true⟩

/-- input-stream preprocessing: CRLF and CR become LF -/
def normalizeNewlines : Str → Str
  | [] => []
  | '\r' :: '\n' :: rest => '\n' :: normalizeNewlines rest
  | '\r' :: rest => '\n' :: normalizeNewlines rest
  | c :: rest => c :: normalizeNewlines rest

/-- decoding of the references the serializer writes -/
def unescape : Str → Str
  | [] => []
  | '&' :: 'a' :: 'm' :: 'p' :: ';' :: rest => '&' :: unescape rest
  | '&' :: 'l' :: 't' :: ';' :: rest => '<' :: unescape rest
  | '&' :: 'g' :: 't' :: ';' :: rest => '>' :: unescape rest
  | '&' :: 'a' :: 'p' :: 'o' :: 's' :: ';' :: rest => '\'' :: unescape rest
  | '&' :: 'q' :: 'u' :: 'o' :: 't' :: ';' :: rest => '"' :: unescape rest
  | '&' :: '#' :: '1' :: '3' :: ';' :: rest => '\r' :: unescape rest
  | c :: rest => c :: unescape rest

/-- character data: newline normalisation happens on the raw input, references are decoded after -/
def lexText (s : Str) : Str := unescape (normalizeNewlines s)

def lexAttrValue (cfg : LexCfg) (s : Str) : Str :=
  unescape (if cfg.attrCRNormalised then normalizeNewlines s else s)

/-- the token the tokenizer delivers for the text of one event (none for an empty text) -/
def lexEv (scfg : SerCfg) (cfg : LexCfg) : Ev → Option Token
  | .startTag n decls attrs =>
    some (.tag (finishTag cfg.tok ⟨.start, rawName n,
      decls.map (fun d => ⟨declName d.1, lexAttrValue cfg (declValue scfg d.2)⟩) ++
      attrs.map (fun a => ⟨rawName a.name, lexAttrValue cfg (escape scfg true a.value)⟩)⟩))
  | .endTag n => some (.tag ⟨.end_, splitQName (rawName n), []⟩)
  | .text s => if s = [] then none else some (.chars (lexText (escape scfg false s)))
  | .comment s => some (.comment s)
  | .pi t d => some (.pi t d)
  | .doctype n => some (.doctype (if n = [] then none else some n) none none)

def lexAll (scfg : SerCfg) (cfg : LexCfg) (evs : List Ev) : List Token :=
  evs.filterMap (lexEv scfg cfg) ++ [.eof]

/-- serialize, lex, build again: the document children of the re-parsed tree -/
def reparse (scfg : SerCfg) (lcfg : LexCfg) (tcfg : TbCfg) (doc : List Node) : Except String State :=
  run tcfg State.init (lexAll scfg lcfg (serDoc scfg doc))

end H5V.Model.XmlSer
