/-
Model of `html5ever/src/serialize/mod.rs` (HtmlSerializer) and of the traversal
`impl Serialize for SerializableHandle` in `rcdom/lib.rs`.

* Output is a byte list.  `write_escaped` is modelled at byte level with the index arithmetic of
  the Rust (`search_start`, `next_special`, the `memchr3` then `memchr2` search); every slice /
  index operation is an explicit panic branch (all of them are proved unreachable in
  `H5V.Lemmas.HtmlSerEscape`).
* `&str::as_bytes` is modelled by core Lean's `String.utf8EncodeChar` (validated by the `ser`
  correspondence, not proved against Rust).
* The `ElemInfo` stack is a list whose head is `stack.last()`.
* A panic is `Except.error ⟨site, bytes written so far⟩`.
* rcdom's traversal (a deque of Open/Close ops) is modelled twice: as the obvious recursion
  (`serNode`/`serForest`) and as the op loop (`runOps`); `H5V.Props.C07.runOps_eq_serForest` proves
  them equal.  Template contents are not visited by rcdom's `Serialize` (only `children`), so the
  tree type has no separate template-contents field.
* I/O errors of the writer are not modelled (the writer is a `Vec<u8>`).

### Switches for the defects found on the pinned tree  (FLIP HERE: `Cfg.current`)
`Cfg.current` describes the code as it is: since the `fix:` commits 423f1bc / b9175dc / f7b6360 all
three switches are on.  `Cfg.pinned` is the snapshot before them (all off).  Should a fix be
reverted, clear the corresponding field of `Cfg.current`; `H5V/Props/C07.lean` section 6 then
stops compiling, which is the alarm.
-/
namespace H5V.Model.HtmlSer

abbrev Bytes := List UInt8

/-- which of the defects are repaired in the code being modelled -/
structure Cfg where
  /-- defect 1: `write_escaped` drops a byte 0xC2 that is not followed by 0xA0 -/
  fixC2 : Bool
  /-- defect 2: `ChildrenOnly(Some(name))` uses `name.local` as HTML parent name whatever `name.ns` -/
  fixNs : Bool
  /-- finding 3: `ChildrenOnly(Some(name))` never sets `ignore_children` for a void `name` -/
  fixVoid : Bool
deriving Repr, DecidableEq

/-- the pinned snapshot (before the `fix:` commits 423f1bc, b9175dc, f7b6360): nothing fixed.
Kept so that the negative witnesses of `H5V.Props.C07` stay stated about a named configuration. -/
def Cfg.pinned : Cfg := { fixC2 := false, fixNs := false, fixVoid := false }

/-- FLIP HERE — the tree as it is today: all three serializer fixes are committed in /repo
(D1 423f1bc, D2 b9175dc, D3 f7b6360). -/
def Cfg.current : Cfg := { fixC2 := true, fixNs := true, fixVoid := true }

def Cfg.allFixed : Cfg := { fixC2 := true, fixNs := true, fixVoid := true }

/-- `str::as_bytes` -/
def utf8 (s : List Char) : Bytes := s.flatMap String.utf8EncodeChar

/-! ### names -/

inductive Ns where
  | html | mathml | svg | xml | xmlns | xlink
  | empty
  | other (uri : List Char)
deriving Repr, DecidableEq

structure QualName where
  ns : Ns
  loc : List Char
deriving Repr, DecidableEq

structure Attr where
  name : QualName
  /-- `QualName::prefix`; never read by the serializer -/
  pfx : Option (List Char)
  value : List Char
deriving Repr, DecidableEq

/-- a node as `SerializableHandle` sees it: `data` and `children` -/
inductive Node where
  | element (name : QualName) (attrs : List Attr) (children : List Node)
  | text (s : List Char)
  | comment (s : List Char)
  | doctype (name : List Char)
  | pi (target : List Char) (data : List Char)
  | document (children : List Node)
deriving Repr

def Node.children : Node → List Node
  | .element _ _ ch => ch
  | .document ch => ch
  | _ => []

def nStyle : List Char := ['s','t','y','l','e']
def nScript : List Char := ['s','c','r','i','p','t']
def nXmp : List Char := ['x','m','p']
def nIframe : List Char := ['i','f','r','a','m','e']
def nNoembed : List Char := ['n','o','e','m','b','e','d']
def nNoframes : List Char := ['n','o','f','r','a','m','e','s']
def nPlaintext : List Char := ['p','l','a','i','n','t','e','x','t']
def nNoscript : List Char := ['n','o','s','c','r','i','p','t']
def nXmlns : List Char := ['x','m','l','n','s']

/-- the first arm of the `match` in `write_text` -/
def rawTextNames : List (List Char) :=
  [nStyle, nScript, nXmp, nIframe, nNoembed, nNoframes, nPlaintext]

/-- the `matches!` list in `start_elem` -/
def voidNames : List (List Char) :=
  [['a','r','e','a'], ['b','a','s','e'], ['b','a','s','e','f','o','n','t'],
   ['b','g','s','o','u','n','d'], ['b','r'], ['c','o','l'], ['e','m','b','e','d'],
   ['f','r','a','m','e'], ['h','r'], ['i','m','g'], ['i','n','p','u','t'],
   ['k','e','y','g','e','n'], ['l','i','n','k'], ['m','e','t','a'], ['p','a','r','a','m'],
   ['s','o','u','r','c','e'], ['t','r','a','c','k'], ['w','b','r']]

def isVoidName (n : List Char) : Bool := voidNames.contains n

/-! ### serializer state -/

structure ElemInfo where
  htmlName : Option (List Char)
  ignoreChildren : Bool
deriving Repr, DecidableEq

/-- `#[derive(Default)]` -/
def ElemInfo.dflt : ElemInfo := ⟨none, false⟩

inductive Scope where
  | includeNode
  | childrenOnly (name : Option QualName)
deriving Repr, DecidableEq

/-- `SerializeOpts` minus the traversal scope -/
structure Opts where
  scripting : Bool
  createMissingParent : Bool
deriving Repr, DecidableEq

structure Ser where
  out : Bytes
  /-- head = `stack.last()` -/
  stack : List ElemInfo
deriving Repr, DecidableEq

structure Panic where
  site : String
  out : Bytes
deriving Repr, DecidableEq

abbrev R := Except Panic

/-- `HtmlSerializer::new` -/
def new (cfg : Cfg) (scope : Scope) : Ser :=
  let info : ElemInfo := match scope with
    | .includeNode => ⟨none, false⟩
    | .childrenOnly none => ⟨none, false⟩
    | .childrenOnly (some n) =>
      -- code as it is: `Some(tagname(n))`, `ignore_children: false`
      ⟨if cfg.fixNs && n.ns != .html then none else some n.loc,
       cfg.fixVoid && (n.ns == .html && isVoidName n.loc)⟩
  ⟨[], [info]⟩

/-- `fn parent(&mut self) -> &mut ElemInfo`: the info and the (possibly extended) state -/
def parent (o : Opts) (s : Ser) : R (ElemInfo × Ser) :=
  match s.stack with
  | top :: _ => .ok (top, s)
  | [] =>
    if o.createMissingParent then .ok (ElemInfo.dflt, { s with stack := [ElemInfo.dflt] })
    else .error ⟨"no parent ElemInfo", s.out⟩

/-! ### write_escaped -/

def bAmp : Bytes := [0x26, 0x61, 0x6D, 0x70, 0x3B]          -- &amp;
def bQuot : Bytes := [0x26, 0x71, 0x75, 0x6F, 0x74, 0x3B]   -- &quot;
def bLt : Bytes := [0x26, 0x6C, 0x74, 0x3B]                 -- &lt;
def bGt : Bytes := [0x26, 0x67, 0x74, 0x3B]                 -- &gt;
def bNbsp : Bytes := [0x26, 0x6E, 0x62, 0x73, 0x70, 0x3B]   -- &nbsp;

/-- `memchr::memchr2`, modelled as first-index search -/
def memchr2 (a b : UInt8) (l : Bytes) : Option Nat := l.findIdx? (fun x => x == a || x == b)
/-- `memchr::memchr3` -/
def memchr3 (a b c : UInt8) (l : Bytes) : Option Nat :=
  l.findIdx? (fun x => x == a || x == b || x == c)

/-- the closure `find_next_escaped_character` -/
def findNextEscaped (maybeQuote : UInt8) (slice : Bytes) : Nat :=
  let result := (memchr3 maybeQuote 0x3C 0x3E slice).getD slice.length
  -- `&slice[..result]`: `result ≤ slice.len()` by construction
  (memchr2 0x26 0xC2 (slice.take result)).getD result

/-- the `while search_start < text.len()` loop; `fuel` bounds the iterations
(`bytes.length + 1` suffices: `search_start` grows in every iteration) -/
def writeEscapedLoop (cfg : Cfg) (attrMode : Bool) (bytes : Bytes) :
    Nat → Nat → Bytes → R Bytes
  | 0, _, out => .error ⟨"write_escaped: model fuel exhausted", out⟩
  | fuel + 1, searchStart, out =>
    if searchStart < bytes.length then
      let maybeQuote : UInt8 := if attrMode then 0x22 else 0x3C
      -- `&bytes[search_start..]`
      if bytes.length < searchStart then .error ⟨"write_escaped: slice start out of range", out⟩ else
      let nextSpecial := findNextEscaped maybeQuote (bytes.drop searchStart) + searchStart
      -- `&bytes[search_start..next_special]`
      if nextSpecial < searchStart ∨ bytes.length < nextSpecial then
        .error ⟨"write_escaped: slice out of range", out⟩ else
      let out := out ++ (bytes.take nextSpecial).drop searchStart
      if nextSpecial == bytes.length then .ok out else
      -- `bytes[next_special]`
      match bytes[nextSpecial]? with
      | none => .error ⟨"write_escaped: index out of bounds", out⟩
      | some b =>
        let searchStart := nextSpecial + 1
        if b == 0x26 then writeEscapedLoop cfg attrMode bytes fuel searchStart (out ++ bAmp)
        else if b == 0x22 then writeEscapedLoop cfg attrMode bytes fuel searchStart (out ++ bQuot)
        else if b == 0x3C then writeEscapedLoop cfg attrMode bytes fuel searchStart (out ++ bLt)
        else if b == 0x3E then writeEscapedLoop cfg attrMode bytes fuel searchStart (out ++ bGt)
        else if b == 0xC2 && bytes[nextSpecial + 1]? == some 0xA0 then
          writeEscapedLoop cfg attrMode bytes fuel (searchStart + 1) (out ++ bNbsp)
        else
          -- `_ => continue`: 0xC2 not followed by 0xA0.  The byte itself was skipped by
          -- `search_start = next_special + 1` and is never written (defect 1);
          -- the proposed fix writes `bytes[next_special]` here.
          writeEscapedLoop cfg attrMode bytes fuel searchStart (if cfg.fixC2 then out ++ [b] else out)
    else .ok out

/-- `write_escaped(text, attr_mode)` appending to `out` -/
def writeEscaped (cfg : Cfg) (attrMode : Bool) (bytes : Bytes) (out : Bytes) : R Bytes :=
  writeEscapedLoop cfg attrMode bytes (bytes.length + 1) 0 out

/-! ### Serializer methods -/

/-- the `match name.ns` in the attribute loop -/
def attrPrefix (name : QualName) : Bytes :=
  match name.ns with
  | .empty => []
  | .xml => [0x78, 0x6D, 0x6C, 0x3A]                                     -- xml:
  | .xmlns => if name.loc != nXmlns then [0x78, 0x6D, 0x6C, 0x6E, 0x73, 0x3A] else []   -- xmlns:
  | .xlink => [0x78, 0x6C, 0x69, 0x6E, 0x6B, 0x3A]                       -- xlink:
  | _ => [0x75, 0x6E, 0x6B, 0x6E, 0x6F, 0x77, 0x6E, 0x5F, 0x6E, 0x61, 0x6D, 0x65, 0x73, 0x70,
          0x61, 0x63, 0x65, 0x3A]                                        -- unknown_namespace:

def writeAttr (cfg : Cfg) (out : Bytes) (a : Attr) : R Bytes := do
  let out := out ++ [0x20] ++ attrPrefix a.name ++ utf8 a.name.loc ++ [0x3D, 0x22]
  let out ← writeEscaped cfg true (utf8 a.value) out
  .ok (out ++ [0x22])

def writeAttrs (cfg : Cfg) : List Attr → Bytes → R Bytes
  | [], out => .ok out
  | a :: as, out => do
    let out ← writeAttr cfg out a
    writeAttrs cfg as out

def htmlNameOf (name : QualName) : Option (List Char) :=
  if name.ns == .html then some name.loc else none

def startElem (cfg : Cfg) (o : Opts) (name : QualName) (attrs : List Attr) (s : Ser) : R Ser := do
  let htmlName := htmlNameOf name
  let (p, s) ← parent o s
  if p.ignoreChildren then
    .ok { s with stack := ⟨htmlName, true⟩ :: s.stack }
  else
    let out := s.out ++ [0x3C] ++ utf8 name.loc
    let out ← writeAttrs cfg attrs out
    let out := out ++ [0x3E]
    let ignoreChildren := name.ns == .html && isVoidName name.loc
    .ok ⟨out, ⟨htmlName, ignoreChildren⟩ :: s.stack⟩

def endTagBytes (name : QualName) : Bytes := [0x3C, 0x2F] ++ utf8 name.loc ++ [0x3E]

def endElem (o : Opts) (name : QualName) (s : Ser) : R Ser :=
  let fin (info : ElemInfo) (rest : List ElemInfo) : R Ser :=
    if info.ignoreChildren then .ok ⟨s.out, rest⟩
    else .ok ⟨s.out ++ endTagBytes name, rest⟩
  match s.stack with
  | info :: rest => fin info rest
  | [] =>
    if o.createMissingParent then fin ElemInfo.dflt []
    else .error ⟨"no ElemInfo", s.out⟩

/-- the `match self.parent().html_name` of `write_text`: `true` = escape -/
def escapeDecision (o : Opts) (htmlName : Option (List Char)) : Bool :=
  match htmlName with
  | none => true
  | some n =>
    if rawTextNames.contains n then false
    else if n == nNoscript then !o.scripting
    else true

def writeText (cfg : Cfg) (o : Opts) (text : List Char) (s : Ser) : R Ser := do
  let (p, s) ← parent o s
  if escapeDecision o p.htmlName then
    let out ← writeEscaped cfg false (utf8 text) s.out
    .ok { s with out := out }
  else
    .ok { s with out := s.out ++ utf8 text }

def writeComment (text : List Char) (s : Ser) : R Ser :=
  .ok { s with out := s.out ++ [0x3C, 0x21, 0x2D, 0x2D] ++ utf8 text ++ [0x2D, 0x2D, 0x3E] }

def writeDoctype (name : List Char) (s : Ser) : R Ser :=
  .ok { s with out := s.out ++ [0x3C, 0x21, 0x44, 0x4F, 0x43, 0x54, 0x59, 0x50, 0x45, 0x20]
                        ++ utf8 name ++ [0x3E] }

def writePI (target data : List Char) (s : Ser) : R Ser :=
  .ok { s with out := s.out ++ [0x3C, 0x3F] ++ utf8 target ++ [0x20] ++ utf8 data ++ [0x3E] }

/-! ### rcdom traversal -/

mutual
def serNode (cfg : Cfg) (o : Opts) : Node → Ser → R Ser
  | .element name attrs ch, s => do
    let s ← startElem cfg o name attrs s
    let s ← serForest cfg o ch s
    endElem o name s
  | .text t, s => writeText cfg o t s
  | .comment t, s => writeComment t s
  | .doctype n, s => writeDoctype n s
  | .pi t d, s => writePI t d s
  | .document _, s => .error ⟨"Can't serialize Document node itself", s.out⟩
def serForest (cfg : Cfg) (o : Opts) : List Node → Ser → R Ser
  | [], s => .ok s
  | n :: ns, s => do
    let s ← serNode cfg o n s
    serForest cfg o ns s
end

/-- `html5ever::serialize::serialize(writer, &SerializableHandle(root), opts)` -/
def serialize (cfg : Cfg) (scope : Scope) (o : Opts) (root : Node) : R Bytes :=
  let s := new cfg scope
  let r := match scope with
    | .includeNode => serNode cfg o root s
    | .childrenOnly _ => serForest cfg o root.children s
  r.map (·.out)

/-! ### rcdom traversal as written: the `VecDeque<SerializeOp>` loop -/

inductive SerOp where
  | openNode (n : Node)
  | close (name : QualName)

mutual
def Node.size : Node → Nat
  | .element _ _ ch => 2 + forestSize ch
  | .document ch => 1 + forestSize ch
  | _ => 1
def forestSize : List Node → Nat
  | [] => 0
  | n :: ns => n.size + forestSize ns
end

def SerOp.size : SerOp → Nat
  | .openNode n => n.size
  | .close _ => 1

def opsSize : List SerOp → Nat
  | [] => 0
  | op :: ops => op.size + opsSize ops

/-- `while let Some(op) = ops.pop_front()`; fuel = number of iterations (`opsSize ops` suffices) -/
def runOps (cfg : Cfg) (o : Opts) : Nat → List SerOp → Ser → R Ser
  | 0, [], s => .ok s
  | 0, _ :: _, s => .error ⟨"rcdom serialize: model fuel exhausted", s.out⟩
  | _ + 1, [], s => .ok s
  | fuel + 1, .close name :: ops, s => do
    let s ← endElem o name s
    runOps cfg o fuel ops s
  | fuel + 1, .openNode n :: ops, s =>
    match n with
    | .element name attrs ch => do
      let s ← startElem cfg o name attrs s
      -- push_front(Close), then push_front(Open(child)) for the children in reverse
      runOps cfg o fuel (ch.map .openNode ++ .close name :: ops) s
    | .text t => do let s ← writeText cfg o t s; runOps cfg o fuel ops s
    | .comment t => do let s ← writeComment t s; runOps cfg o fuel ops s
    | .doctype t => do let s ← writeDoctype t s; runOps cfg o fuel ops s
    | .pi t d => do let s ← writePI t d s; runOps cfg o fuel ops s
    | .document _ => .error ⟨"Can't serialize Document node itself", s.out⟩

/-- `SerializableHandle::serialize` as written -/
def serializeOps (cfg : Cfg) (scope : Scope) (o : Opts) (root : Node) : R Bytes :=
  let ops : List SerOp := match scope with
    | .includeNode => [.openNode root]
    | .childrenOnly _ => root.children.map .openNode
  (runOps cfg o (opsSize ops) ops (new cfg scope)).map (·.out)

end H5V.Model.HtmlSer
