import H5V.Model.HtmlTB.TagSets
/-
The helper algorithms of `html5ever/src/tree_builder/mod.rs`, statement by statement.
Loops over an immutable snapshot are structural recursions over that list; loops that change the
state they test carry fuel (`model-fuel@model` when it runs out — never, see the `fuel` comments).
-/
namespace H5V.Model.HtmlTB
open H5V.Model.Dom (Id QualName Attr NodeOrText SinkOp Output ElementFlags QuirksMode Dom)
open H5V.Model.HtmlTok (TagKind RawKind)

/-- a Rust panic: `cls@file:line: text` -/
def panicAt {α : Type} (cls site : String) (text : String := "") : M α :=
  throw (cls ++ "@" ++ site ++ ": " ++ text)

def fuelOut {α : Type} (what : String) : M α := throw ("model-fuel@model: " ++ what)

/-! ### small accessors -/

/-- `html_elem_named` (mod.rs:1112) -/
def htmlElemNamedS (h : Id) (name : Str) : M Bool := do
  let n ← elemName h
  pure (n.ns == nsHtml && n.loc == name)

def htmlElemNamed (h : Id) (name : String) : M Bool := htmlElemNamedS h name.toList

/-- `elem_in` (mod.rs:1105) -/
def elemIn (h : Id) (set : EName → Bool) : M Bool := do
  pure (set (← elemName h))

/-- `current_node()` (mod.rs:685) -/
def currentNode : M Id := do
  match (← getS).openElems.getLast? with
  | some h => pure h
  | none => panicAt "no-current-element" "mod.rs:687" "expect(\"no current element\")"

/-- `adjusted_current_node()` (mod.rs:691) -/
def adjustedCurrentNode : M Id := do
  let s ← getS
  if s.openElems.length == 1 then
    match s.contextElem with
    | some ctx => pure ctx
    | none => currentNode
  else currentNode

/-- `current_node_in(set)` (mod.rs:702) -/
def currentNodeIn (set : EName → Bool) : M Bool := do
  let h ← currentNode
  pure (set (← elemName h))

/-- `current_node_named(name)` (mod.rs:1124) -/
def currentNodeNamedS (name : Str) : M Bool := do
  let h ← currentNode
  htmlElemNamedS h name

def currentNodeNamed (name : String) : M Bool := currentNodeNamedS name.toList

/-- `html_elem()` (mod.rs:1040) -/
def htmlElem : M Id := do
  match (← getS).openElems.head? with
  | some h => pure h
  | none => panicAt "index-oob" "mod.rs:1041" "elems[0]"

/-- the free function `html_elem(&open_elems)` (mod.rs:560) -/
def htmlElemFn : M Id := do
  match (← getS).openElems.head? with
  | some h => pure h
  | none => panicAt "index-oob" "mod.rs:561" "open_elems[0]"

/-- `is_fragment()` -/
def isFragment : M Bool := do pure (← getS).contextElem.isSome

/-- `push` (mod.rs:925) -/
def push (h : Id) : M Unit := modS fun s => { s with openElems := s.openElems ++ [h] }

/-- `pop` (mod.rs:929) -/
def pop : M Id := do
  let s ← getS
  match s.openElems.getLast? with
  | none => panicAt "no-current-element" "mod.rs:934" "expect(\"no current element\")"
  | some h =>
    set { s with openElems := s.openElems.dropLast }
    sinkUnit (.pop h)
    pure h

/-- `self.open_elems.borrow_mut().pop()` without telling the sink -/
def popSilently : M (Option Id) := do
  let s ← getS
  match s.openElems.getLast? with
  | none => pure none
  | some h =>
    set { s with openElems := s.openElems.dropLast }
    pure (some h)

def setMode (m : Mode) : M Unit := modS fun s => { s with mode := m }
def setFramesetOk (b : Bool) : M Unit := modS fun s => { s with framesetOk := b }
def pushMarker : M Unit := modS fun s => { s with activeFormatting := s.activeFormatting ++ [.marker] }

/-- `unexpected(thing)` (mod.rs:623) -/
def unexpected : M ProcessResult := do
  parseError "Unexpected token"
  pure .done

/-- `set_quirks_mode` (mod.rs:658) -/
def setQuirksMode (m : QuirksMode) : M Unit := do
  modS fun s => { s with quirksMode := m }
  sinkUnit (.setQuirksMode m)

/-- `to_raw_text_mode` (mod.rs:672) -/
def toRawTextMode (k : RawKind) : M ProcessResult := do
  modS fun s => { s with origMode := some s.mode, mode := .text }
  pure (.toRawData k)

/-! ### creating and inserting nodes -/

/-- `markup5ever::interface::tree_builder::create_element_with_flags` (tree_builder.rs:90) -/
def createElementWithFlags (name : QualName) (attrs : List Attr) (hadDup : Bool) : M Id :=
  let template := name.ns == nsHtml && isName name.loc "template"
  let mathmlIP :=
    if name.ns == nsMathml && isName name.loc "annotation-xml" then
      attrs.any (fun a => a.name.ns == [] && isName a.name.loc "encoding" &&
        (eqIgnoreAsciiCase a.value "text/html".toList ||
         eqIgnoreAsciiCase a.value "application/xhtml+xml".toList))
    else false
  sinkNode (.createElement name attrs
    { template := template, mathmlIP := mathmlIP, hadDuplicateAttributes := hadDup })

def htmlQual (loc : Str) : QualName := { pfx := none, ns := nsHtml, loc := loc }

/-- the foster-parenting loop of `appropriate_place_for_insertion` (mod.rs:439): `iter` is
`open_elems.iter().rev()`, the head of the rest is `iter.peek()` -/
def fosterLoop : List Id → M InsertionPoint
  | [] => do
    let h ← htmlElem
    pure (.lastChild h)
  | elem :: rest => do
    if ← htmlElemNamed elem "template" then
      let contents ← sinkNode (.getTemplateContents elem)
      pure (.lastChild contents)
    else if ← htmlElemNamed elem "table" then
      match rest with
      | prev :: _ => pure (.tableFosterParenting elem prev)
      | [] => panicAt "unwrap-none" "mod.rs:446" "iter.peek().unwrap()"
    else fosterLoop rest

/-- `appropriate_place_for_insertion` (mod.rs:417) -/
def appropriatePlaceForInsertion (overrideTarget : Option Id) : M InsertionPoint := do
  let target ← match overrideTarget with
    | some t => pure t
    | none => currentNode
  let foster ← if (← getS).fosterParenting then elemIn target fosterTarget else pure false
  if !foster then
    if ← htmlElemNamed target "template" then
      let contents ← sinkNode (.getTemplateContents target)
      pure (.lastChild contents)
    else pure (.lastChild target)
  else fosterLoop (← getS).openElems.reverse

/-- `insert_at` (mod.rs:454) -/
def insertAt (p : InsertionPoint) (child : NodeOrText) : M Unit :=
  match p with
  | .lastChild parent => sinkUnit (.append parent child)
  | .beforeSibling sibling => sinkUnit (.appendBeforeSibling sibling child)
  | .tableFosterParenting element prev => sinkUnit (.appendBasedOnParentNode element prev child)

/-- `insert_appropriately` (mod.rs:710) -/
def insertAppropriately (child : NodeOrText) (overrideTarget : Option Id) : M Unit := do
  let p ← appropriatePlaceForInsertion overrideTarget
  insertAt p child

/-- `in_html_elem_named` (mod.rs:1117): `open_elems.iter().any(..)` -/
def anyHtmlElemNamed (name : String) : List Id → M Bool
  | [] => pure false
  | e :: rest => do
    if ← htmlElemNamed e name then pure true else anyHtmlElemNamed name rest

def inHtmlElemNamed (name : String) : M Bool := do
  anyHtmlElemNamed name (← getS).openElems

/-- the two handles an insertion point is reported to `associate_with_form` with -/
def InsertionPoint.nodes : InsertionPoint → Id × Option Id
  | .lastChild p => (p, none)
  | .beforeSibling p => (p, none)
  | .tableFosterParenting e pe => (e, some pe)

/-- `insert_element` (mod.rs:1360) -/
def insertElement (pushIt : Bool) (ns : Str) (name : Str) (attrs : List Attr) (hadDup : Bool) : M Id := do
  let ip ← appropriatePlaceForInsertion none
  let (node1, node2) := ip.nodes
  let qname : QualName := { pfx := none, ns := ns, loc := name }
  let en : EName := ⟨ns, name⟩
  -- `a && b && !c && !(d && e)` with short-circuit evaluation: only `c` calls the sink
  let formIsAssociatable ←
    if formAssociatable en && (← getS).formElem.isSome then do
      if ← inHtmlElemNamed "template" then pure false
      else pure (!(listed en && attrs.any (fun a => a.name.ns == [] && isName a.name.loc "form")))
    else pure false
  let elem ← createElementWithFlags qname attrs hadDup
  if formIsAssociatable then
    match (← getS).formElem with
    | some form => sinkUnit (.associateWithForm elem form node1 node2)
    | none => panicAt "unwrap-none" "mod.rs:1401" "form_elem unwrap"
  insertAt ip (.node elem)
  if pushIt then push elem
  pure elem

/-- `insert_element_for` (mod.rs:1416) -/
def insertElementFor (tag : Tag) : M Id := insertElement true nsHtml tag.name tag.attrs tag.hadDup
/-- `insert_and_pop_element_for` (mod.rs:1426) -/
def insertAndPopElementFor (tag : Tag) : M Id := insertElement false nsHtml tag.name tag.attrs tag.hadDup
/-- `insert_phantom` (mod.rs:1436) -/
def insertPhantom (name : String) : M Id := insertElement true nsHtml name.toList [] false

/-- `insert_foreign_element` (mod.rs:1441) -/
def insertForeignElement (tag : Tag) (ns : Str) (onlyAddToElementStack : Bool) : M Id := do
  let loc ← appropriatePlaceForInsertion none
  let elem ← createElementWithFlags { pfx := none, ns := ns, loc := tag.name } tag.attrs tag.hadDup
  if !onlyAddToElementStack then insertAt loc (.node elem)
  push elem
  pure elem

/-- `create_root` (mod.rs:1348) -/
def createRoot (attrs : List Attr) : M Unit := do
  let elem ← createElementWithFlags (htmlQual "html".toList) attrs false
  push elem
  sinkUnit (.append (← getS).docHandle (.node elem))

/-- `append_text` (mod.rs:1322) -/
def appendText (text : Str) : M ProcessResult := do
  insertAppropriately (.text text) none
  pure .done

/-- `append_comment` (mod.rs:1327) -/
def appendComment (text : Str) : M ProcessResult := do
  let c ← sinkNode (.createComment text)
  insertAppropriately (.node c) none
  pure .done

/-- `append_comment_to_doc` (mod.rs:1333) -/
def appendCommentToDoc (text : Str) : M ProcessResult := do
  let c ← sinkNode (.createComment text)
  sinkUnit (.append (← getS).docHandle (.node c))
  pure .done

/-- `append_comment_to_html` (mod.rs:1339) -/
def appendCommentToHtml (text : Str) : M ProcessResult := do
  let target ← htmlElemFn
  let c ← sinkNode (.createComment text)
  sinkUnit (.append target (.node c))
  pure .done

/-- `parse_raw_data` (mod.rs:679) -/
def parseRawData (tag : Tag) (k : RawKind) : M ProcessResult := do
  let _ ← insertElementFor tag
  toRawTextMode k

/-! ### scope predicates, implied end tags, popping -/

/-- `in_scope` (mod.rs:1086) over `open_elems.iter().rev()` -/
def inScopeLoop (scope : EName → Bool) (pred : Id → M Bool) : List Id → M Bool
  | [] => pure false
  | node :: rest => do
    if ← pred node then pure true
    else if scope (← elemName node) then pure false
    else inScopeLoop scope pred rest

def inScope (scope : EName → Bool) (pred : Id → M Bool) : M Bool := do
  inScopeLoop scope pred (← getS).openElems.reverse

/-- `in_scope_named` (mod.rs:1128) -/
def inScopeNamedS (scope : EName → Bool) (name : Str) : M Bool :=
  inScope scope (fun h => htmlElemNamedS h name)

def inScopeNamed (scope : EName → Bool) (name : String) : M Bool := inScopeNamedS scope name.toList

/-- `generate_implied_end_tags` (mod.rs:1136); fuel: one pop per iteration -/
def generateImpliedEndTagsLoop (set : EName → Bool) : Nat → M Unit
  | 0 => fuelOut "generate_implied_end_tags"
  | fuel + 1 => do
    match (← getS).openElems.getLast? with
    | none => pure ()
    | some elem =>
      if !set (← elemName elem) then pure ()
      else
        let _ ← pop
        generateImpliedEndTagsLoop set fuel

def generateImpliedEndTags (set : EName → Bool) : M Unit := do
  generateImpliedEndTagsLoop set ((← getS).openElems.length + 1)

/-- `generate_implied_end_except` (mod.rs:1155) -/
def generateImpliedEndExcept (except : Str) : M Unit := generateImpliedEndTags (impliedExcept except)

/-- `pop_until_current` (mod.rs:1167); fuel: one pop per iteration, `current_node` panics on the
empty stack -/
def popUntilCurrentLoop (set : EName → Bool) : Nat → M Unit
  | 0 => fuelOut "pop_until_current"
  | fuel + 1 => do
    if ← currentNodeIn set then pure ()
    else
      let _ ← popSilently
      popUntilCurrentLoop set fuel

def popUntilCurrent (set : EName → Bool) : M Unit := do
  popUntilCurrentLoop set ((← getS).openElems.length + 1)

/-- `pop_until` (mod.rs:1178): returns the number of iterations -/
def popUntilLoop (pred : EName → Bool) : Nat → Nat → M Nat
  | 0, _ => fuelOut "pop_until"
  | fuel + 1, n => do
    let n := n + 1
    match ← popSilently with
    | none => pure n
    | some elem =>
      if pred (← elemName elem) then pure n
      else popUntilLoop pred fuel n

def popUntil (pred : EName → Bool) : M Nat := do
  popUntilLoop pred ((← getS).openElems.length + 1) 0

/-- `pop_until_named` (mod.rs:1198) -/
def popUntilNamedS (name : Str) : M Nat := popUntil (fun p => p.ns == nsHtml && p.loc == name)
def popUntilNamed (name : String) : M Nat := popUntilNamedS name.toList

/-- `expect_to_close` (mod.rs:1204) -/
def expectToCloseS (name : Str) : M Unit := do
  if (← popUntilNamedS name) != 1 then parseError "Unexpected open element"

def expectToClose (name : String) : M Unit := expectToCloseS name.toList

/-- `close_p_element` (mod.rs:1214) -/
def closePElement : M Unit := do
  generateImpliedEndTags impliedExceptP
  expectToClose "p"

/-- `close_p_element_in_button_scope` (mod.rs:1220) -/
def closePElementInButtonScope : M Unit := do
  if ← inScopeNamed buttonScope "p" then closePElement

/-- `is_type_hidden` (mod.rs:1227) -/
def isTypeHidden (tag : Tag) : Bool :=
  match tag.attrs.find? (fun a => a.name.ns == [] && isName a.name.loc "type") with
  | none => false
  | some a => eqIgnoreAsciiCase a.value "hidden".toList

/-- `check_body_end` (mod.rs:1060) -/
def checkBodyEndLoop : List Id → M Unit
  | [] => pure ()
  | elem :: rest => do
    if bodyEndOk (← elemName elem) then checkBodyEndLoop rest
    else parseError "Unexpected open tag at end of body"

def checkBodyEnd : M Unit := do checkBodyEndLoop (← getS).openElems

/-- `body_elem` (mod.rs:1045) -/
def bodyElem : M (Option Id) := do
  let s ← getS
  if s.openElems.length ≤ 1 then pure none
  else match s.openElems[1]? with
    | none => pure none
    | some node => do
      if ← htmlElemNamed node "body" then pure (some node) else pure none

/-- `remove_from_stack` (mod.rs:940): `rposition(|x| same_node(elem, x))` -/
def rpositionLoop (p : Id → M Bool) : List Id → Nat → M (Option Nat)
  | [], _ => pure none
  | x :: rest, len => do
    -- `x` has index `len - 1`
    if ← p x then pure (some (len - 1)) else rpositionLoop p rest (len - 1)

/-- `open_elems.iter().rposition(p)` -/
def rposition (p : Id → M Bool) : M (Option Nat) := do
  let l := (← getS).openElems
  rpositionLoop p l.reverse l.length

def removeFromStack (elem : Id) : M Unit := do
  match ← rposition (fun x => sameNode elem x) with
  | none => pure ()
  | some pos =>
    modS fun s => { s with openElems := s.openElems.eraseIdx pos }
    sinkUnit (.pop elem)

/-! ### the list of active formatting elements -/

/-- `active_formatting_end_to_marker().iter()` (mod.rs:568): from the end to the last marker -/
def afEndToMarkerAux : List (FormatEntry × Nat) → List (Nat × Id × Tag)
  | [] => []
  | (.marker, _) :: _ => []
  | (.element h t, i) :: rest => (i, h, t) :: afEndToMarkerAux rest

def afEndToMarker (af : List FormatEntry) : List (Nat × Id × Tag) :=
  afEndToMarkerAux af.zipIdx.reverse

/-- `position_in_active_formatting` (mod.rs:648) -/
def positionInAFLoop (element : Id) : List FormatEntry → Nat → M (Option Nat)
  | [], _ => pure none
  | .marker :: rest, i => positionInAFLoop element rest (i + 1)
  | .element h _ :: rest, i => do
    if ← sameNode h element then pure (some i) else positionInAFLoop element rest (i + 1)

def positionInActiveFormatting (element : Id) : M (Option Nat) := do
  positionInAFLoop element (← getS).activeFormatting 0

def setAF (af : List FormatEntry) : M Unit := modS fun s => { s with activeFormatting := af }

/-- `Vec::remove(i)` on the list of active formatting elements -/
def afRemove (i : Nat) (site : String) : M Unit := do
  let af := (← getS).activeFormatting
  if i < af.length then setAF (af.eraseIdx i)
  else panicAt "remove-oob" site "Vec::remove"

/-- `is_marker_or_open` (mod.rs:952): `open_elems.iter().rev().any(|n| same_node(n, node))` -/
def anySameNodeRev (node : Id) : List Id → M Bool
  | [] => pure false
  | n :: rest => do
    if ← sameNode n node then pure true else anySameNodeRev node rest

def isMarkerOrOpen : FormatEntry → M Bool
  | .marker => pure true
  | .element node _ => do anySameNodeRev node (← getS).openElems.reverse

/-- the rewind loop of `reconstruct_active_formatting_elements` (mod.rs:986): `entry_index` is the
argument; returns the index at which creation starts -/
def reconstructRewind : Nat → M Nat
  | 0 => pure 0
  | i + 1 => do
    -- `entry_index -= 1` gives `i`
    match (← getS).activeFormatting[i]? with
    | none => panicAt "index-oob" "mod.rs:1000" "active_formatting[entry_index]"
    | some e =>
      if ← isMarkerOrOpen e then pure (i + 1) else reconstructRewind i

/-- the create loop (mod.rs:1006); fuel: `entry_index` increases up to `len - 1` -/
def reconstructCreate : Nat → Nat → M Unit
  | 0, _ => fuelOut "reconstruct_active_formatting_elements"
  | fuel + 1, entryIndex => do
    let tag ← match (← getS).activeFormatting[entryIndex]? with
      | some (.element _ t) => pure t
      | some .marker => panicAt "marker-in-reconstruct" "mod.rs:1012" "Found marker during formatting element reconstruction"
      | none => panicAt "index-oob" "mod.rs:1009" "active_formatting[entry_index]"
    let newElement ← insertElement true nsHtml tag.name tag.attrs tag.hadDup
    let af := (← getS).activeFormatting
    if entryIndex < af.length then setAF (af.set entryIndex (.element newElement tag))
    else panicAt "index-oob" "mod.rs:1027" "active_formatting[entry_index] ="
    let len := (← getS).activeFormatting.length
    if len == 0 then panicAt "sub-overflow" "mod.rs:1032" "len() - 1"
    else if entryIndex == len - 1 then pure ()
    else reconstructCreate fuel (entryIndex + 1)

/-- `reconstruct_active_formatting_elements` (mod.rs:965) -/
def reconstructActiveFormattingElements : M Unit := do
  let af := (← getS).activeFormatting
  match af.getLast? with
  | none => pure ()
  | some last =>
    if ← isMarkerOrOpen last then pure ()
    else
      -- `len() - 1` cannot underflow: the list has a last element
      let start ← reconstructRewind (af.length - 1)
      reconstructCreate (af.length + 1) start

/-- `Tag::equiv_modulo_attr_order` (tokenizer/interface.rs:61): sorted attribute vectors are equal
iff the lists are permutations of each other -/
def Tag.equivModuloAttrOrder (a b : Tag) : Bool :=
  a.kind == b.kind && a.name == b.name && a.attrs.isPerm b.attrs

/-- `create_formatting_element_for` (mod.rs:1518), with the Noah's Ark clause -/
def createFormattingElementFor (tag : Tag) : M Id := do
  let ms := (afEndToMarker (← getS).activeFormatting).filter (fun (_, _, old) => tag.equivModuloAttrOrder old)
  -- `first_match` is overwritten on every match: it ends up as the last one visited
  if ms.length ≥ 3 then
    match ms.getLast? with
    | some (i, _, _) => afRemove i "mod.rs:1530"
    | none => panicAt "matches-no-index" "mod.rs:1532" "expect(\"matches with no index\")"
  let elem ← insertElement true nsHtml tag.name tag.attrs tag.hadDup
  modS fun s => { s with activeFormatting := s.activeFormatting ++ [.element elem tag] }
  pure elem

/-- `clear_active_formatting_to_marker` (mod.rs:1548) on the reversed list -/
def clearToMarkerRev : List FormatEntry → List FormatEntry
  | [] => []
  | .marker :: rest => rest
  | .element _ _ :: rest => clearToMarkerRev rest

def clearActiveFormattingToMarker : M Unit :=
  modS fun s => { s with activeFormatting := (clearToMarkerRev s.activeFormatting.reverse).reverse }

/-! ### "any other end tag" and the adoption agency -/

/-- the search loop of `process_end_tag_in_body` (mod.rs:1560) over `enumerate().rev()`;
`some (some i)` = match at index `i`, `some none` = no match, `none` = special tag found (error
already reported, the caller returns) -/
def endTagSearch (name : Str) : List Id → Nat → M (Option (Option Nat))
  | [], _ => pure (some none)
  | elem :: rest, len => do
    if ← htmlElemNamedS elem name then pure (some (some (len - 1)))
    else if ← elemIn elem specialTag then
      parseError "Found special tag while closing generic tag"
      pure none
    else endTagSearch name rest (len - 1)

/-- `process_end_tag_in_body` (mod.rs:1557) -/
def processEndTagInBody (tag : Tag) : M Unit := do
  let l := (← getS).openElems
  match ← endTagSearch tag.name l.reverse l.length with
  | none => pure ()
  | some none =>
    let _ ← unexpected
  | some (some matchIdx) =>
    generateImpliedEndExcept tag.name
    let len := (← getS).openElems.length
    if len == 0 then panicAt "sub-overflow" "mod.rs:1582" "open_elems.len() - 1"
    else
      if matchIdx != len - 1 then
        let _ ← unexpected
      modS fun s => { s with openElems := s.openElems.take matchIdx }

/-- `enumerate().skip(k).find(|e| elem_in(e, special_tag))` (mod.rs:772) -/
def findFurthestBlock : List Id → Nat → M (Option (Nat × Id))
  | [], _ => pure none
  | e :: rest, i => do
    if ← elemIn e specialTag then pure (some (i, e)) else findFurthestBlock rest (i + 1)

/-- `open_elems.iter().position(|n| same_node(n, x))` (mod.rs:911) -/
def positionSameNode (x : Id) : List Id → Nat → M (Option Nat)
  | [], _ => pure none
  | n :: rest, i => do
    if ← sameNode n x then pure (some i) else positionSameNode x rest (i + 1)

/-- `enum Bookmark` (mod.rs:595) -/
inductive Bookmark
  | replace (h : Id)
  | insertAfter (h : Id)
deriving Repr

/-- the inner loop of the adoption agency (mod.rs:801).  The first argument is `node_index` *before*
`node_index -= 1`; every iteration decrements it, hence structural recursion.
Returns `(last_node, bookmark)`. -/
def aaInner (fmtElem furthestBlock : Id) : Nat → Nat → Id → Bookmark → M (Id × Bookmark)
  | 0, _, _, _ => panicAt "sub-overflow" "mod.rs:806" "node_index -= 1"
  | nodeIndex + 1, innerCounter, lastNode, bookmark => do
    let innerCounter := innerCounter + 1
    let node ← match (← getS).openElems[nodeIndex]? with
      | some n => pure n
      | none => panicAt "index-oob" "mod.rs:807" "open_elems[node_index]"
    if ← sameNode node fmtElem then pure (lastNode, bookmark)
    else if innerCounter > 3 then
      match ← positionInActiveFormatting node with
      | some position => afRemove position "mod.rs:817"
      | none => pure ()
      -- `open_elems.remove(node_index)`: the index was just read, it is in bounds
      modS fun s => { s with openElems := s.openElems.eraseIdx nodeIndex }
      aaInner fmtElem furthestBlock nodeIndex innerCounter lastNode bookmark
    else
      match ← positionInActiveFormatting node with
      | none =>
        modS fun s => { s with openElems := s.openElems.eraseIdx nodeIndex }
        aaInner fmtElem furthestBlock nodeIndex innerCounter lastNode bookmark
      | some nfi =>
        let tag ← match (← getS).activeFormatting[nfi]? with
          | some (.element h t) => do
            if !(← sameNode h node) then
              panicAt "assert" "mod.rs:831" "assert!(self.sink.same_node(h, &node))"
            pure t
          | some .marker => panicAt "marker-in-aa" "mod.rs:834" "Found marker during adoption agency"
          | none => panicAt "index-oob" "mod.rs:829" "active_formatting[node_formatting_index]"
        let newElement ← createElementWithFlags (htmlQual tag.name) tag.attrs tag.hadDup
        modS fun s => { s with
          openElems := s.openElems.set nodeIndex newElement,
          activeFormatting := s.activeFormatting.set nfi (.element newElement tag) }
        let node := newElement
        let bookmark ← if ← sameNode lastNode furthestBlock then pure (Bookmark.insertAfter node) else pure bookmark
        sinkUnit (.removeFromParent lastNode)
        sinkUnit (.append node (.node lastNode))
        aaInner fmtElem furthestBlock nodeIndex innerCounter node bookmark

/-- one iteration of the outer loop (mod.rs:727–920); `true` = `return` from `adoption_agency` -/
def aaOuterStep (subject : Str) : M Bool := do
  -- 5.
  match (afEndToMarker (← getS).activeFormatting).find? (fun (_, _, t) => t.name == subject) with
  | none =>
    processEndTagInBody { kind := .endTag, name := subject, selfClosing := false, attrs := [], hadDup := false }
    pure true
  | some (fmtElemIndex, fmtElem, fmtElemTag) =>
    match ← rposition (fun n => sameNode n fmtElem) with
    | none =>
      parseError "Formatting element not open"
      afRemove fmtElemIndex "mod.rs:754"
      pure true
    | some fmtElemStackIndex =>
      -- 7.
      if !(← inScope defaultScope (fun n => sameNode n fmtElem)) then
        parseError "Formatting element not in scope"
        pure true
      else
        -- 8.
        let cur ← currentNode
        if !(← sameNode cur fmtElem) then parseError "Formatting element not current node"
        -- 9.
        match ← findFurthestBlock ((← getS).openElems.drop fmtElemStackIndex) fmtElemStackIndex with
        | none =>
          -- 10.
          modS fun s => { s with openElems := s.openElems.take fmtElemStackIndex }
          afRemove fmtElemIndex "mod.rs:784"
          pure true
        | some (furthestBlockIndex, furthestBlock) =>
          -- 11.
          if fmtElemStackIndex == 0 then panicAt "sub-overflow" "mod.rs:789" "fmt_elem_stack_index - 1"
          let commonAncestor ← match (← getS).openElems[fmtElemStackIndex - 1]? with
            | some c => pure c
            | none => panicAt "index-oob" "mod.rs:789" "open_elems[fmt_elem_stack_index - 1]"
          -- 12. 13.
          let (lastNode, bookmark) ←
            aaInner fmtElem furthestBlock furthestBlockIndex 0 furthestBlock (.replace fmtElem)
          -- 14.
          sinkUnit (.removeFromParent lastNode)
          insertAppropriately (.node lastNode) (some commonAncestor)
          -- 15.
          let newElement ← createElementWithFlags (htmlQual fmtElemTag.name) fmtElemTag.attrs fmtElemTag.hadDup
          let newEntry := FormatEntry.element newElement fmtElemTag
          -- 16. 17.
          sinkUnit (.reparentChildren furthestBlock newElement)
          sinkUnit (.append furthestBlock (.node newElement))
          -- 18.
          match bookmark with
          | .replace toReplace =>
            match ← positionInActiveFormatting toReplace with
            | none => panicAt "bookmark-missing" "mod.rs:893" "bookmark not found in active formatting elements"
            | some index => modS fun s => { s with activeFormatting := s.activeFormatting.set index newEntry }
          | .insertAfter previous =>
            match ← positionInActiveFormatting previous with
            | none => panicAt "bookmark-missing" "mod.rs:899" "bookmark not found in active formatting elements"
            | some index =>
              modS fun s => { s with activeFormatting := s.activeFormatting.insertIdx (index + 1) newEntry }
              match ← positionInActiveFormatting fmtElem with
              | none => panicAt "fmt-missing" "mod.rs:904" "formatting element not found in active formatting elements"
              | some oldIndex => afRemove oldIndex "mod.rs:905"
          -- 19.
          removeFromStack fmtElem
          match ← positionSameNode furthestBlock (← getS).openElems 0 with
          | none => panicAt "fb-missing" "mod.rs:916" "furthest block missing from open element stack"
          | some nfbi =>
            modS fun s => { s with openElems := s.openElems.insertIdx (nfbi + 1) newElement }
            pure false

/-- the outer loop `for _ in 0..8` -/
def aaOuter (subject : Str) : Nat → M Unit
  | 0 => pure ()
  | n + 1 => do
    if ← aaOuterStep subject then pure () else aaOuter subject n

/-- `adoption_agency` (mod.rs:715) -/
def adoptionAgency (subject : Str) : M Unit := do
  -- 1.
  let shortcut ← do
    if ← currentNodeNamedS subject then
      let cur ← currentNode
      pure (← positionInActiveFormatting cur).isNone
    else pure false
  if shortcut then
    let _ ← pop
  else aaOuter subject 8

/-- `handle_misnested_a_tags` (mod.rs:1589) -/
def findAInAF : List (Nat × Id × Tag) → M (Option Id)
  | [] => pure none
  | (_, n, _) :: rest => do
    if ← htmlElemNamed n "a" then pure (some n) else findAInAF rest

def handleMisnestedATags : M Unit := do
  match ← findAInAF (afEndToMarker (← getS).activeFormatting) with
  | none => pure ()
  | some node =>
    let _ ← unexpected
    adoptionAgency "a".toList
    match ← positionInActiveFormatting node with
    | some index => afRemove index "mod.rs:1602"
    | none => pure ()
    removeFromStack node

/-! ### reset the insertion mode, tables, cells -/

inductive ResetStep | ret (m : Mode) | cont
deriving Repr

/-- `reset_insertion_mode` (mod.rs:1267) over `open_elems.iter().enumerate().rev()` -/
def resetLoop : List Id → Nat → M Mode
  | [], _ => pure .inBody
  | node :: rest, len => do
    let s ← getS
    let last := len - 1 == 0
    let node := match last, s.contextElem with
      | true, some ctx => ctx
      | _, _ => node
    let n ← elemName node
    if n.ns != nsHtml then resetLoop rest (len - 1)
    else
      if isOneOf n.loc ["td", "th"] && !last then pure .inCell
      else if isName n.loc "tr" then pure .inRow
      else if isOneOf n.loc ["tbody", "thead", "tfoot"] then pure .inTableBody
      else if isName n.loc "caption" then pure .inCaption
      else if isName n.loc "colgroup" then pure .inColumnGroup
      else if isName n.loc "table" then pure .inTable
      else if isName n.loc "template" then
        match s.templateModes.getLast? with
        | some m => pure m
        | none => panicAt "unwrap-none" "mod.rs:1294" "template_modes.last().unwrap()"
      else if isName n.loc "head" then
        if !last then pure .inHead else resetLoop rest (len - 1)
      else if isName n.loc "body" then pure .inBody
      else if isName n.loc "frameset" then pure .inFrameset
      else if isName n.loc "html" then
        match s.headElem with
        | none => pure .beforeHead
        | some _ => pure .afterHead
      else resetLoop rest (len - 1)

def resetInsertionMode : M Mode := do
  let l := (← getS).openElems
  resetLoop l.reverse l.length

/-- `close_the_cell` (mod.rs:1313) -/
def closeTheCell : M Unit := do
  generateImpliedEndTags cursoryImpliedEnd
  if (← popUntil tdTh) != 1 then parseError "expected to close <td> or <th> with cell"
  clearActiveFormattingToMarker

/-! ### foreign content -/

/-- `enter_foreign` (mod.rs:1667) -/
def enterForeign (tag : Tag) (ns : Str) : M ProcessResult := do
  let tag := if ns == nsMathml then adjustMathmlAttributes tag
    else if ns == nsSvg then adjustSvgAttributes tag else tag
  let tag := adjustForeignAttributes tag
  if tag.selfClosing then
    let _ ← insertElement false ns tag.name tag.attrs tag.hadDup
    pure .doneAckSelfClosing
  else
    let _ ← insertElement true ns tag.name tag.attrs tag.hadDup
    pure .done

/-- `foreign_start_tag` (mod.rs:1839) -/
def foreignStartTag (tag : Tag) : M ProcessResult := do
  let cur ← adjustedCurrentNode
  let currentNs := (← elemName cur).ns
  let tag := if currentNs == nsMathml then adjustMathmlAttributes tag
    else if currentNs == nsSvg then adjustSvgAttributes { tag with name := adjustSvgTagName tag.name }
    else tag
  let tag := adjustForeignAttributes tag
  if tag.selfClosing then
    let _ ← insertElement false currentNs tag.name tag.attrs tag.hadDup
    pure .doneAckSelfClosing
  else
    let _ ← insertElement true currentNs tag.name tag.attrs tag.hadDup
    pure .done

/-- `is_foreign` (mod.rs:1607) -/
def isForeign (token : Token) : M Bool := do
  if token == .eof then pure false
  else if (← getS).openElems.isEmpty then pure false
  else
    let current ← adjustedCurrentNode
    let name ← elemName current
    if name.ns == nsHtml then pure false
    else
      let isStart (t : Token) : Option Tag := match t with
        | .tag tg => if tg.kind == .startTag then some tg else none
        | _ => none
      let isChars (t : Token) : Bool := match t with
        | .chars _ _ => true | .nullChar => true | _ => false
      if mathmlTextIntegrationPoint name &&
          (isChars token || (match isStart token with
            | some tg => !isOneOf tg.name ["mglyph", "malignmark"] | none => false)) then pure false
      else if svgHtmlIntegrationPoint name && (isChars token || (isStart token).isSome) then pure false
      else if name.ns == nsMathml && isName name.loc "annotation-xml" then
        match isStart token with
        | some tg =>
          if isName tg.name "svg" then pure false
          else do
            let cur ← adjustedCurrentNode
            pure (!(← sinkBool (.isMathmlAnnotationXmlIntegrationPoint cur)))
        | none =>
          if isChars token then do
            let cur ← adjustedCurrentNode
            pure (!(← sinkBool (.isMathmlAnnotationXmlIntegrationPoint cur)))
          else pure true
      else pure true

/-- the `while` loop of `unexpected_start_tag_in_foreign_content` (mod.rs:1878); fuel: one pop per
iteration, `current_node` panics on the empty stack -/
def popToIntegrationPointLoop : Nat → M Unit
  | 0 => fuelOut "unexpected_start_tag_in_foreign_content"
  | fuel + 1 => do
    -- `current_node_in(html | MathML text ip | SVG html ip) || sink.is_mathml_annotation_xml_integration_point(current_node)`
    let stop ← do
      if ← currentNodeIn (fun n => n.ns == nsHtml || mathmlTextIntegrationPoint n || svgHtmlIntegrationPoint n)
      then pure true
      else
        let cur ← currentNode
        sinkBool (.isMathmlAnnotationXmlIntegrationPoint cur)
    if stop then pure ()
    else
      let _ ← pop
      popToIntegrationPointLoop fuel

/-- `process_chars_in_table`, first half (mod.rs:1247): `none` = reprocess in InTableText -/
def pendingTableTextEmpty : M Bool := do pure (← getS).pendingTableText.isEmpty

end H5V.Model.HtmlTB
