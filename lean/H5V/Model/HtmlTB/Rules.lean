import H5V.Model.HtmlTB.Actions
import H5V.Model.Meta
/-
`html5ever/src/tree_builder/rules.rs`: `step` (one function per insertion mode, the arms in the
order of the Rust `match`) and `step_foreign`.

`self.step(OtherMode, token)` calls inside a mode are calls of the other mode's function; the call
graph is acyclic (InHead → the `<html>` arm of InBody only; InBody → InHead, the EOF arm of
InTemplate; everything else → InBody / InHead / InTable), so no recursion and no fuel is needed.
-/
namespace H5V.Model.HtmlTB
open H5V.Model.Dom (Id QualName Attr NodeOrText SinkOp Output ElementFlags QuirksMode Dom)
open H5V.Model.HtmlTok (TagKind RawKind)

/-- `Tag::get_attribute` (tokenizer/interface.rs:74) -/
def Tag.getAttribute (t : Tag) (name : String) : Option Str :=
  (t.attrs.find? (fun a => a.name.ns == [] && isName a.name.loc name)).map (·.value)

/-- UTF-8 bytes of a string (the tendril's buffer) -/
def utf8Bytes (s : Str) : List UInt8 := (String.ofList s).toUTF8.toList

/-- `extract_a_character_encoding_from_a_meta_element` (encoding.rs), through the byte-level model
`H5V.Model.Meta.extract`; the result is a sub-slice of a UTF-8 string cut at ASCII characters -/
def extractEncoding (content : Str) : M (Option Str) :=
  match H5V.Model.Meta.extract (utf8Bytes content) with
  | .error e => throw ("meta-extract@encoding.rs: " ++ e)
  | .ok none => pure none
  | .ok (some bytes) =>
    match String.fromUTF8? (ByteArray.mk bytes.toArray) with
    | some s => pure (some s.toList)
    | none => throw "subtendril-utf8@encoding.rs: subtendril is not valid UTF-8"

def isTagStart (t : Token) (l : List String) : Bool :=
  match t with | .tag tg => tg.isStart l | _ => false
def isTagEnd (t : Token) (l : List String) : Bool :=
  match t with | .tag tg => tg.isEnd l | _ => false
def isAnyEnd (t : Token) : Bool := match t with | .tag tg => tg.kind == .endTag | _ => false
def isAnyStart (t : Token) : Bool := match t with | .tag tg => tg.kind == .startTag | _ => false

/-! ### Initial, BeforeHtml -/

/-- rules.rs:101 -/
def stepInitial (token : Token) : M ProcessResult := do
  match token with
  | .chars .notSplit text => pure (.splitWhitespace text)
  | .chars .whitespace _ => pure .done
  | .comment text => appendCommentToDoc text
  | token =>
    if !(← getS).opts.iframeSrcdoc then
      let _ ← unexpected
      setQuirksMode .quirks
    pure (.reprocess .beforeHtml token)

/-- rules.rs:118 -/
def stepBeforeHtml (token : Token) : M ProcessResult := do
  let anythingElse (token : Token) : M ProcessResult := do
    createRoot []
    pure (.reprocess .beforeHead token)
  match token with
  | .comment text => appendCommentToDoc text
  | .chars .notSplit text => pure (.splitWhitespace text)
  | .chars .whitespace _ => pure .done
  | .tag tag =>
    if tag.isStart ["html"] then
      createRoot tag.attrs
      setMode .beforeHead
      pure .done
    else if tag.isEnd ["head", "body", "html", "br"] then anythingElse token
    else if tag.kind == .endTag then unexpected
    else anythingElse token
  | token => anythingElse token

/-! ### the `<html>` start tag in InBody (rules.rs:432), shared by every mode that delegates it -/

def inBodyHtml (tag : Tag) : M ProcessResult := do
  let _ ← unexpected
  if !(← inHtmlElemNamed "template") then
    let top ← htmlElemFn
    sinkUnit (.addAttrsIfMissing top tag.attrs)
  pure .done

/-! ### InHead -/

/-- `should_attach_declarative_shadow` (mod.rs:1465) -/
def shouldAttachDeclarativeShadow (tag : Tag) : M Bool := do
  let loc ← appropriatePlaceForInsertion none
  let intendedParent := loc.nodes.1
  let isShadowRootMode := tag.attrs.any (fun a =>
    isName a.name.loc "shadowrootmode" && (a.value == "open".toList || a.value == "closed".toList))
  let allow ← sinkBool (.allowDeclarativeShadowRoots intendedParent)
  let notTopmost := match (← getS).openElems with
    | [] => true
    | l => l.length > 1
  pure (isShadowRootMode && allow && notTopmost)

/-- rules.rs:177 -/
def stepInHead (token : Token) : M ProcessResult := do
  let anythingElse (token : Token) : M ProcessResult := do
    let _ ← pop
    pure (.reprocess .afterHead token)
  match token with
  | .chars .notSplit text => pure (.splitWhitespace text)
  | .chars .whitespace text => appendText text
  | .comment text => appendComment text
  | .tag tag =>
    if tag.isStart ["html"] then inBodyHtml tag
    else if tag.isStart ["base", "basefont", "bgsound", "link", "meta"] then
      let _ ← insertAndPopElementFor tag
      if !isName tag.name "meta" then pure .doneAckSelfClosing
      else
        match tag.getAttribute "charset" with
        | some charset => pure (.encodingIndicator charset)
        | none =>
          let isContentType := match tag.getAttribute "http-equiv" with
            | some v => eqIgnoreAsciiCase v "content-type".toList
            | none => false
          if isContentType then
            match tag.getAttribute "content" with
            | none => pure .doneAckSelfClosing
            | some content =>
              match ← extractEncoding content with
              | some enc => pure (.encodingIndicator enc)
              | none => pure .doneAckSelfClosing
          else pure .doneAckSelfClosing
    else if tag.isStart ["title"] then parseRawData tag .rcdata
    else if tag.isStart ["noframes", "style", "noscript"] then
      if !(← getS).opts.scriptingEnabled && isName tag.name "noscript" then
        let _ ← insertElementFor tag
        setMode .inHeadNoscript
        pure .done
      else parseRawData tag .rawtext
    else if tag.isStart ["script"] then
      let elem ← createElementWithFlags (htmlQual "script".toList) tag.attrs tag.hadDup
      if ← isFragment then sinkUnit (.markScriptAlreadyStarted elem)
      insertAppropriately (.node elem) none
      push elem
      toRawTextMode .scriptData
    else if tag.isEnd ["head"] then
      let _ ← pop
      setMode .afterHead
      pure .done
    else if tag.isEnd ["body", "html", "br"] then anythingElse token
    else if tag.isStart ["template"] then
      pushMarker
      setFramesetOk false
      setMode .inTemplate
      modS fun s => { s with templateModes := s.templateModes ++ [.inTemplate] }
      if ← shouldAttachDeclarativeShadow tag then
        let s ← getS
        let shadowHost ← match s.openElems.getLast? with
          | some h => pure h
          | none => panicAt "unwrap-none" "rules.rs:276" "open_elems.last().unwrap()"
        let shadowHost ←
          if s.contextElem.isSome && s.openElems.length == 1 then
            match s.contextElem with
            | some c => pure c
            | none => panicAt "unwrap-none" "rules.rs:278" "context_elem unwrap"
          else pure shadowHost
        let template ← insertForeignElement tag nsHtml true
        let succeeded ← sinkBool (.attachDeclarativeShadow shadowHost template tag.attrs)
        if !succeeded then
          let _ ← pop
          let _ ← insertElementFor tag
      else
        let _ ← insertElementFor tag
      pure .done
    else if tag.isEnd ["template"] then
      if !(← inHtmlElemNamed "template") then
        let _ ← unexpected
      else
        generateImpliedEndTags thoroughImpliedEnd
        expectToClose "template"
        clearActiveFormattingToMarker
        modS fun s => { s with templateModes := s.templateModes.dropLast }
        setMode (← resetInsertionMode)
      pure .done
    else if tag.isStart ["head"] || tag.kind == .endTag then unexpected
    else anythingElse token
  | token => anythingElse token

/-! ### InTemplate's EOF arm (rules.rs:1447), reached from InBody's EOF arm too -/

def inTemplateEof : M ProcessResult := do
  if !(← inHtmlElemNamed "template") then pure .done
  else
    let _ ← unexpected
    let _ ← popUntilNamed "template"
    clearActiveFormattingToMarker
    modS fun s => { s with templateModes := s.templateModes.dropLast }
    setMode (← resetInsertionMode)
    pure (.reprocess (← resetInsertionMode) .eof)

/-! ### InBody -/

/-- `<area> | <br> | <embed> | <img> | <keygen> | <wbr>` (rules.rs:813); also the target of the
re-dispatches of `</br>` and `<image>` -/
def inBodyVoid (tag : Tag) : M ProcessResult := do
  reconstructActiveFormattingElements
  let _ ← insertAndPopElementFor tag
  setFramesetOk false
  pure .doneAckSelfClosing

/-- the `<li> | <dd> | <dt>` search loop (rules.rs:576) over `open_elems.iter().rev()` -/
def listCloseSearch (list : Bool) : List Id → M (Option Str)
  | [] => pure none
  | node :: rest => do
    let name ← elemName node
    let canClose := if list then closeList name else closeDefn name
    if canClose then pure (some name.loc)
    else if extraSpecial name then pure none
    else listCloseSearch list rest

/-- `open_elems.iter().find(|e| html_elem_named(e, "option"))` (rules.rs:674) -/
def findOption : List Id → M (Option Id)
  | [] => pure none
  | e :: rest => do
    if ← htmlElemNamed e "option" then pure (some e) else findOption rest

/-- `open_elems.iter().any(|e| same_node(e, x))` (rules.rs:684) -/
def anySameNode (x : Id) : List Id → M Bool
  | [] => pure false
  | e :: rest => do
    if ← sameNode e x then pure true else anySameNode x rest

/-- `is_fragment() && html_elem_named(context_elem.unwrap(), "select")` (rules.rs:821, 901) -/
def contextIsSelect (site : String) : M Bool := do
  if ← isFragment then
    match (← getS).contextElem with
    | some c => htmlElemNamed c "select"
    | none => panicAt "unwrap-none" site "context_elem unwrap"
  else pure false

/-- rules.rs:419 -/
def stepInBody (token : Token) : M ProcessResult := do
  match token with
  | .nullChar => unexpected
  | .chars _ text =>
    reconstructActiveFormattingElements
    if anyNotWhitespace text then setFramesetOk false
    appendText text
  | .comment text => appendComment text
  | .eof =>
    if !(← getS).templateModes.isEmpty then inTemplateEof
    else
      checkBodyEnd
      pure .done
  | .tag tag =>
    if tag.isStart ["html"] then inBodyHtml tag
    else if tag.isStart ["base", "basefont", "bgsound", "link", "meta", "noframes", "script", "style",
                          "template", "title"] || tag.isEnd ["template"] then stepInHead token
    else if tag.isStart ["body"] then
      let _ ← unexpected
      match ← bodyElem with
      | some node =>
        -- guard: `open_elems.len() != 1 && !in_html_elem_named("template")`
        if (← getS).openElems.length != 1 then
          if !(← inHtmlElemNamed "template") then
            setFramesetOk false
            sinkUnit (.addAttrsIfMissing node tag.attrs)
      | none => pure ()
      pure .done
    else if tag.isStart ["frameset"] then
      let _ ← unexpected
      if !(← getS).framesetOk then pure .done
      else
        match ← bodyElem with
        | none => pure .done
        | some body =>
          sinkUnit (.removeFromParent body)
          modS fun s => { s with openElems := s.openElems.take 1 }
          let _ ← insertElementFor tag
          setMode .inFrameset
          pure .done
    else if tag.isEnd ["body"] then
      if ← inScopeNamed defaultScope "body" then
        checkBodyEnd
        setMode .afterBody
      else parseError "</body> with no <body> in scope"
      pure .done
    else if tag.isEnd ["html"] then
      if ← inScopeNamed defaultScope "body" then
        checkBodyEnd
        pure (.reprocess .afterBody token)
      else
        parseError "</html> with no <body> in scope"
        pure .done
    else if tag.isStart ["address", "article", "aside", "blockquote", "center", "details", "dialog",
                          "dir", "div", "dl", "fieldset", "figcaption", "figure", "footer", "header",
                          "hgroup", "main", "nav", "ol", "p", "search", "section", "summary", "ul"] then
      closePElementInButtonScope
      let _ ← insertElementFor tag
      pure .done
    else if tag.isStart ["menu"] then
      closePElementInButtonScope
      let _ ← insertElementFor tag
      pure .done
    else if tag.isStart ["h1", "h2", "h3", "h4", "h5", "h6"] then
      closePElementInButtonScope
      if ← currentNodeIn headingTag then
        parseError "nested heading tags"
        let _ ← pop
      let _ ← insertElementFor tag
      pure .done
    else if tag.isStart ["pre", "listing"] then
      closePElementInButtonScope
      let _ ← insertElementFor tag
      modS fun s => { s with ignoreLf := true }
      setFramesetOk false
      pure .done
    else if tag.isStart ["form"] then
      -- `form_elem.is_some() && !in_html_elem_named("template")`
      let nested ← if (← getS).formElem.isSome then (do pure (!(← inHtmlElemNamed "template"))) else pure false
      if nested then parseError "nested forms"
      else
        closePElementInButtonScope
        let elem ← insertElementFor tag
        if !(← inHtmlElemNamed "template") then
          modS fun s => { s with formElem := some elem }
      pure .done
    else if tag.isStart ["li", "dd", "dt"] then
      let list := isName tag.name "li"
      setFramesetOk false
      let toClose ← listCloseSearch list (← getS).openElems.reverse
      match toClose with
      | some name =>
        generateImpliedEndExcept name
        expectToCloseS name
      | none => pure ()
      closePElementInButtonScope
      let _ ← insertElementFor tag
      pure .done
    else if tag.isStart ["plaintext"] then
      closePElementInButtonScope
      let _ ← insertElementFor tag
      pure .toPlaintext
    else if tag.isStart ["button"] then
      if ← inScopeNamed defaultScope "button" then
        parseError "nested buttons"
        generateImpliedEndTags cursoryImpliedEnd
        let _ ← popUntilNamed "button"
      reconstructActiveFormattingElements
      let _ ← insertElementFor tag
      setFramesetOk false
      pure .done
    else if tag.isEnd ["address", "article", "aside", "blockquote", "button", "center", "details",
                        "dialog", "dir", "div", "dl", "fieldset", "figcaption", "figure", "footer",
                        "header", "hgroup", "listing", "main", "menu", "nav", "ol", "pre", "search",
                        "section", "select", "summary", "ul"] then
      if !(← inScopeNamedS defaultScope tag.name) then
        let _ ← unexpected
      else
        generateImpliedEndTags cursoryImpliedEnd
        expectToCloseS tag.name
      pure .done
    else if tag.isEnd ["form"] then
      if !(← inHtmlElemNamed "template") then
        let s ← getS
        match s.formElem with
        | none =>
          parseError "Null form element pointer on </form>"
          pure .done
        | some node =>
          set { s with formElem := none }
          if !(← inScope defaultScope (fun n => sameNode node n)) then
            parseError "Form element not in scope on </form>"
            pure .done
          else
            generateImpliedEndTags cursoryImpliedEnd
            let current ← currentNode
            removeFromStack node
            if !(← sameNode current node) then parseError "Bad open element on </form>"
            pure .done
      else
        if !(← inScopeNamed defaultScope "form") then
          parseError "Form element not in scope on </form>"
          pure .done
        else
          generateImpliedEndTags cursoryImpliedEnd
          if !(← currentNodeNamed "form") then parseError "Bad open element on </form>"
          let _ ← popUntilNamed "form"
          pure .done
    else if tag.isEnd ["option"] then
      let optionInStack ← findOption (← getS).openElems
      processEndTagInBody tag
      match optionInStack with
      | some option =>
        if !(← anySameNode option (← getS).openElems) then
          sinkUnit (.maybeCloneAnOptionIntoSelectedcontent option)
      | none => pure ()
      pure .done
    else if tag.isEnd ["p"] then
      if !(← inScopeNamed buttonScope "p") then
        parseError "No <p> tag to close"
        let _ ← insertPhantom "p"
      closePElement
      pure .done
    else if tag.isEnd ["li", "dd", "dt"] then
      let inSc ← if isName tag.name "li" then inScopeNamedS listItemScope tag.name
                 else inScopeNamedS defaultScope tag.name
      if inSc then
        generateImpliedEndExcept tag.name
        expectToCloseS tag.name
      else parseError "No matching tag to close"
      pure .done
    else if tag.isEnd ["h1", "h2", "h3", "h4", "h5", "h6"] then
      if ← inScope defaultScope (fun n => elemIn n headingTag) then
        generateImpliedEndTags cursoryImpliedEnd
        if !(← currentNodeNamedS tag.name) then parseError "Closing wrong heading tag"
        let _ ← popUntil headingTag
      else parseError "No heading tag to close"
      pure .done
    else if tag.isStart ["a"] then
      handleMisnestedATags
      reconstructActiveFormattingElements
      let _ ← createFormattingElementFor tag
      pure .done
    else if tag.isStart ["b", "big", "code", "em", "font", "i", "s", "small", "strike", "strong", "tt", "u"] then
      reconstructActiveFormattingElements
      let _ ← createFormattingElementFor tag
      pure .done
    else if tag.isStart ["nobr"] then
      reconstructActiveFormattingElements
      if ← inScopeNamed defaultScope "nobr" then
        parseError "Nested <nobr>"
        adoptionAgency "nobr".toList
        reconstructActiveFormattingElements
      let _ ← createFormattingElementFor tag
      pure .done
    else if tag.isEnd ["a", "b", "big", "code", "em", "font", "i", "nobr", "s", "small", "strike",
                        "strong", "tt", "u"] then
      adoptionAgency tag.name
      pure .done
    else if tag.isStart ["applet", "marquee", "object"] then
      reconstructActiveFormattingElements
      let _ ← insertElementFor tag
      pushMarker
      setFramesetOk false
      pure .done
    else if tag.isEnd ["applet", "marquee", "object"] then
      if !(← inScopeNamedS defaultScope tag.name) then
        let _ ← unexpected
      else
        generateImpliedEndTags cursoryImpliedEnd
        expectToCloseS tag.name
        clearActiveFormattingToMarker
      pure .done
    else if tag.isStart ["table"] then
      if (← getS).quirksMode != .quirks then closePElementInButtonScope
      let _ ← insertElementFor tag
      setFramesetOk false
      setMode .inTable
      pure .done
    else if tag.isEnd ["br"] then
      let _ ← unexpected
      -- `self.step(InBody, Tag { kind: StartTag, attrs: vec![], ..tag })`: reaches the `<br>` arm
      inBodyVoid { tag with kind := .startTag, attrs := [] }
    else if tag.isStart ["area", "br", "embed", "img", "keygen", "wbr"] then inBodyVoid tag
    else if tag.isStart ["input"] then
      if ← contextIsSelect "rules.rs:823" then
        -- fragment case with a `select` context element: parse error, ignore the token
        let _ ← unexpected
        pure .done
      else
        if ← inScopeNamed defaultScope "select" then
          let _ ← unexpected
          let _ ← popUntilNamed "select"
        let hidden := isTypeHidden tag
        reconstructActiveFormattingElements
        let _ ← insertAndPopElementFor tag
        if !hidden then setFramesetOk false
        pure .doneAckSelfClosing
    else if tag.isStart ["param", "source", "track"] then
      let _ ← insertAndPopElementFor tag
      pure .doneAckSelfClosing
    else if tag.isStart ["hr"] then
      closePElementInButtonScope
      if ← inScopeNamed defaultScope "select" then
        generateImpliedEndTags cursoryImpliedEnd
        let nested ← do
          if ← inScopeNamed defaultScope "option" then pure true
          else inScopeNamed defaultScope "optgroup"
        if nested then parseError "hr in option"
      let _ ← insertAndPopElementFor tag
      setFramesetOk false
      pure .doneAckSelfClosing
    else if tag.isStart ["image"] then
      let _ ← unexpected
      -- `self.step(InBody, Tag { name: "img", ..tag })`: reaches the `<img>` arm
      inBodyVoid { tag with name := "img".toList }
    else if tag.isStart ["textarea"] then
      modS fun s => { s with ignoreLf := true }
      setFramesetOk false
      parseRawData tag .rcdata
    else if tag.isStart ["xmp"] then
      closePElementInButtonScope
      reconstructActiveFormattingElements
      setFramesetOk false
      parseRawData tag .rawtext
    else if tag.isStart ["iframe"] then
      setFramesetOk false
      parseRawData tag .rawtext
    else if tag.isStart ["noembed"] then parseRawData tag .rawtext
    else if tag.isStart ["select"] then
      if ← contextIsSelect "rules.rs:903" then
        let _ ← unexpected
      else if ← inScopeNamed defaultScope "select" then
        let _ ← unexpected
        let _ ← popUntilNamed "select"
      else
        reconstructActiveFormattingElements
        let _ ← insertElementFor tag
        setFramesetOk false
      pure .done
    else if tag.isStart ["option"] then
      if ← inScopeNamed defaultScope "select" then
        generateImpliedEndExcept "optgroup".toList
        if ← inScopeNamed defaultScope "option" then parseError "nested options"
      else if ← currentNodeNamed "option" then
        let _ ← pop
      reconstructActiveFormattingElements
      let _ ← insertElementFor tag
      pure .done
    else if tag.isStart ["optgroup"] then
      if ← inScopeNamed defaultScope "select" then
        generateImpliedEndTags cursoryImpliedEnd
        let nested ← do
          if ← inScopeNamed defaultScope "option" then pure true
          else inScopeNamed defaultScope "optgroup"
        if nested then parseError "nested options"
      else if ← currentNodeNamed "option" then
        let _ ← pop
      reconstructActiveFormattingElements
      let _ ← insertElementFor tag
      pure .done
    else if tag.isStart ["rb", "rtc"] then
      if ← inScopeNamed defaultScope "ruby" then generateImpliedEndTags cursoryImpliedEnd
      if !(← currentNodeNamed "ruby") then
        let _ ← unexpected
      let _ ← insertElementFor tag
      pure .done
    else if tag.isStart ["rp", "rt"] then
      if ← inScopeNamed defaultScope "ruby" then generateImpliedEndExcept "rtc".toList
      let ok ← do
        if ← currentNodeNamed "rtc" then pure true else currentNodeNamed "ruby"
      if !ok then
        let _ ← unexpected
      let _ ← insertElementFor tag
      pure .done
    else if tag.isStart ["math"] then
      reconstructActiveFormattingElements
      enterForeign tag nsMathml
    else if tag.isStart ["svg"] then
      reconstructActiveFormattingElements
      enterForeign tag nsSvg
    else if tag.isStart ["caption", "col", "colgroup", "frame", "head", "tbody", "td", "tfoot", "th",
                          "thead", "tr"] then
      let _ ← unexpected
      pure .done
    else if tag.kind == .startTag then
      if (← getS).opts.scriptingEnabled && isName tag.name "noscript" then parseRawData tag .rawtext
      else
        reconstructActiveFormattingElements
        let _ ← insertElementFor tag
        pure .done
    else
      processEndTagInBody tag
      pure .done

/-! ### BeforeHead, InHeadNoscript, AfterHead -/

/-- rules.rs:147 -/
def stepBeforeHead (token : Token) : M ProcessResult := do
  let anythingElse (token : Token) : M ProcessResult := do
    let h ← insertPhantom "head"
    modS fun s => { s with headElem := some h }
    pure (.reprocess .inHead token)
  match token with
  | .chars .notSplit text => pure (.splitWhitespace text)
  | .chars .whitespace _ => pure .done
  | .comment text => appendComment text
  | .tag tag =>
    if tag.isStart ["html"] then stepInBody token
    else if tag.isStart ["head"] then
      let h ← insertElementFor tag
      modS fun s => { s with headElem := some h }
      setMode .inHead
      pure .done
    else if tag.isEnd ["head", "body", "html", "br"] then anythingElse token
    else if tag.kind == .endTag then unexpected
    else anythingElse token
  | token => anythingElse token

/-- rules.rs:323 -/
def stepInHeadNoscript (token : Token) : M ProcessResult := do
  let anythingElse (token : Token) : M ProcessResult := do
    let _ ← unexpected
    let _ ← pop
    pure (.reprocess .inHead token)
  match token with
  | .chars .notSplit text => pure (.splitWhitespace text)
  | .chars .whitespace _ => stepInHead token
  | .comment _ => stepInHead token
  | .tag tag =>
    if tag.isStart ["html"] then stepInBody token
    else if tag.isEnd ["noscript"] then
      let _ ← pop
      setMode .inHead
      pure .done
    else if tag.isStart ["basefont", "bgsound", "link", "meta", "noframes", "style"] then stepInHead token
    else if tag.isEnd ["br"] then anythingElse token
    else if tag.isStart ["head", "noscript"] || tag.kind == .endTag then unexpected
    else anythingElse token
  | token => anythingElse token

/-- rules.rs:361 -/
def stepAfterHead (token : Token) : M ProcessResult := do
  let anythingElse (token : Token) : M ProcessResult := do
    let _ ← insertPhantom "body"
    pure (.reprocess .inBody token)
  match token with
  | .chars .notSplit text => pure (.splitWhitespace text)
  | .chars .whitespace text => appendText text
  | .comment text => appendComment text
  | .tag tag =>
    if tag.isStart ["html"] then stepInBody token
    else if tag.isStart ["body"] then
      let _ ← insertElementFor tag
      setFramesetOk false
      setMode .inBody
      pure .done
    else if tag.isStart ["frameset"] then
      let _ ← insertElementFor tag
      setMode .inFrameset
      pure .done
    else if tag.isStart ["base", "basefont", "bgsound", "link", "meta", "noframes", "script", "style",
                          "template", "title"] then
      let _ ← unexpected
      match (← getS).headElem with
      | none => panicAt "no-head-element" "rules.rs:399" "expect(\"no head element\")"
      | some head =>
        push head
        let result ← stepInHead token
        removeFromStack head
        pure result
    else if tag.isEnd ["template"] then stepInHead token
    else if tag.isEnd ["body", "html", "br"] then anythingElse token
    else if tag.isStart ["head"] || tag.kind == .endTag then unexpected
    else anythingElse token
  | token => anythingElse token

/-! ### Text -/

/-- rules.rs:1012 -/
def stepText (token : Token) : M ProcessResult := do
  match token with
  | .chars _ text => appendText text
  | .eof =>
    let _ ← unexpected
    if ← currentNodeNamed "script" then
      let current ← match (← getS).openElems.getLast? with
        | some c => pure c
        | none => panicAt "no-current-element" "rules.rs:34" "expect(\"no current element\")"
      sinkUnit (.markScriptAlreadyStarted current)
    let _ ← pop
    let s ← getS
    match s.origMode with
    | none => panicAt "unwrap-none" "rules.rs:1023" "orig_mode.take().unwrap()"
    | some m =>
      set { s with origMode := none }
      pure (.reprocess m token)
  | .tag tag =>
    if tag.kind == .endTag then
      let node ← pop
      let s ← getS
      match s.origMode with
      | none => panicAt "unwrap-none" "rules.rs:1028" "orig_mode.take().unwrap()"
      | some m =>
        set { s with origMode := none, mode := m }
        if isName tag.name "script" then pure (.script node) else pure .done
    else panicAt "unreachable" "rules.rs:1037" "impossible case in Text mode"
  | _ => panicAt "unreachable" "rules.rs:1037" "impossible case in Text mode"

/-! ### tables -/

/-- `foster_parent_in_body` (mod.rs:1238) -/
def fosterParentInBody (token : Token) : M ProcessResult := do
  modS fun s => { s with fosterParenting := true }
  let res ← stepInBody token
  modS fun s => { s with fosterParenting := false }
  pure res

/-- `process_chars_in_table` (mod.rs:1247) -/
def processCharsInTable (token : Token) : M ProcessResult := do
  if ← currentNodeIn tableOuterChars then
    if !(← getS).pendingTableText.isEmpty then
      panicAt "assert" "mod.rs:1250" "assert!(self.pending_table_text.borrow().is_empty())"
    modS fun s => { s with origMode := some s.mode }
    pure (.reprocess .inTableText token)
  else
    parseError "Unexpected characters in table"
    fosterParentInBody token

/-- rules.rs:1042 -/
def stepInTable (token : Token) : M ProcessResult := do
  match token with
  | .nullChar => processCharsInTable token
  | .chars _ _ => processCharsInTable token
  | .comment text => appendComment text
  | .eof => stepInBody token
  | .tag tag =>
    if tag.isStart ["caption"] then
      popUntilCurrent tableScope
      pushMarker
      let _ ← insertElementFor tag
      setMode .inCaption
      pure .done
    else if tag.isStart ["colgroup"] then
      popUntilCurrent tableScope
      let _ ← insertElementFor tag
      setMode .inColumnGroup
      pure .done
    else if tag.isStart ["col"] then
      popUntilCurrent tableScope
      let _ ← insertPhantom "colgroup"
      pure (.reprocess .inColumnGroup token)
    else if tag.isStart ["tbody", "tfoot", "thead"] then
      popUntilCurrent tableScope
      let _ ← insertElementFor tag
      setMode .inTableBody
      pure .done
    else if tag.isStart ["td", "th", "tr"] then
      popUntilCurrent tableScope
      let _ ← insertPhantom "tbody"
      pure (.reprocess .inTableBody token)
    else if tag.isStart ["table"] then
      let _ ← unexpected
      if ← inScopeNamed tableScope "table" then
        let _ ← popUntilNamed "table"
        pure (.reprocess (← resetInsertionMode) token)
      else pure .done
    else if tag.isEnd ["table"] then
      if ← inScopeNamed tableScope "table" then
        let _ ← popUntilNamed "table"
        setMode (← resetInsertionMode)
      else
        let _ ← unexpected
      pure .done
    else if tag.isEnd ["body", "caption", "col", "colgroup", "html", "tbody", "td", "tfoot", "th",
                        "thead", "tr"] then unexpected
    else if tag.isStart ["style", "script", "template"] || tag.isEnd ["template"] then stepInHead token
    else if tag.isStart ["input"] then
      let _ ← unexpected
      if isTypeHidden tag then
        let _ ← insertAndPopElementFor tag
        pure .doneAckSelfClosing
      else fosterParentInBody token
    else if tag.isStart ["form"] then
      let _ ← unexpected
      -- `!in_html_elem_named("template") && form_elem.is_none()`
      let doIt ← do
        if ← inHtmlElemNamed "template" then pure false else pure (← getS).formElem.isNone
      if doIt then
        let e ← insertAndPopElementFor tag
        modS fun s => { s with formElem := some e }
      pure .done
    else
      let _ ← unexpected
      fosterParentInBody token

/-- the `for` loop over the pending table text with non-space (rules.rs:1160) -/
def flushPendingFoster : List (SplitStatus × Str) → M Unit
  | [] => pure ()
  | (split, text) :: rest => do
    match ← fosterParentInBody (.chars split text) with
    | .done => flushPendingFoster rest
    | _ => panicAt "not-prepared" "rules.rs:1163" "not prepared to handle this!"

def flushPendingPlain : List (SplitStatus × Str) → M Unit
  | [] => pure ()
  | (_, text) :: rest => do
    let _ ← appendText text
    flushPendingPlain rest

/-- rules.rs:1142 -/
def stepInTableText (token : Token) : M ProcessResult := do
  match token with
  | .nullChar => unexpected
  | .chars split text =>
    modS fun s => { s with pendingTableText := s.pendingTableText ++ [(split, text)] }
    pure .done
  | token =>
    let pending := (← getS).pendingTableText
    modS fun s => { s with pendingTableText := [] }
    let containsNonspace := pending.any (fun (split, text) =>
      match split with
      | .whitespace => false
      | .notWhitespace => true
      | .notSplit => anyNotWhitespace text)
    if containsNonspace then
      parseError "Non-space table text"
      flushPendingFoster pending
    else flushPendingPlain pending
    let s ← getS
    match s.origMode with
    | none => panicAt "unwrap-none" "rules.rs:1172" "orig_mode.take().unwrap()"
    | some m =>
      set { s with origMode := none }
      pure (.reprocess m token)

/-- `flush_pending_table_text` (rules.rs): the "anything else" steps of "in table text" without the
reprocessing; returns the original insertion mode (used by `process_token` for a DOCTYPE token) -/
def flushPendingTableText : M Mode := do
  let pending := (← getS).pendingTableText
  modS fun s => { s with pendingTableText := [] }
  let containsNonspace := pending.any (fun (split, text) =>
    match split with
    | .whitespace => false
    | .notWhitespace => true
    | .notSplit => anyNotWhitespace text)
  if containsNonspace then
    parseError "Non-space table text"
    flushPendingFoster pending
  else flushPendingPlain pending
  let s ← getS
  match s.origMode with
  | none => panicAt "unwrap-none" "rules.rs:1172" "orig_mode.take().unwrap()"
  | some m =>
    set { s with origMode := none }
    pure m

/-- rules.rs:1178 -/
def stepInCaption (token : Token) : M ProcessResult := do
  match token with
  | .tag tag =>
    if tag.isStart ["caption", "col", "colgroup", "tbody", "td", "tfoot", "th", "thead", "tr"]
        || tag.isEnd ["table", "caption"] then
      if ← inScopeNamed tableScope "caption" then
        generateImpliedEndTags cursoryImpliedEnd
        expectToClose "caption"
        clearActiveFormattingToMarker
        if tag.isEnd ["caption"] then
          setMode .inTable
          pure .done
        else pure (.reprocess .inTable token)
      else
        let _ ← unexpected
        pure .done
    else if tag.isEnd ["body", "col", "colgroup", "html", "tbody", "td", "tfoot", "th", "thead", "tr"] then
      unexpected
    else stepInBody token
  | token => stepInBody token

/-- rules.rs:1214 -/
def stepInColumnGroup (token : Token) : M ProcessResult := do
  let anythingElse (token : Token) : M ProcessResult := do
    if ← currentNodeNamed "colgroup" then
      let _ ← pop
      pure (.reprocess .inTable token)
    else unexpected
  match token with
  | .chars .notSplit text => pure (.splitWhitespace text)
  | .chars .whitespace text => appendText text
  | .comment text => appendComment text
  | .eof => stepInBody token
  | .tag tag =>
    if tag.isStart ["html"] then stepInBody token
    else if tag.isStart ["col"] then
      let _ ← insertAndPopElementFor tag
      pure .doneAckSelfClosing
    else if tag.isEnd ["colgroup"] then
      if ← currentNodeNamed "colgroup" then
        let _ ← pop
        setMode .inTable
      else
        let _ ← unexpected
      pure .done
    else if tag.isEnd ["col"] then unexpected
    else if tag.isStart ["template"] || tag.isEnd ["template"] then stepInHead token
    else anythingElse token
  | token => anythingElse token

/-- rules.rs:1258 -/
def stepInTableBody (token : Token) : M ProcessResult := do
  match token with
  | .tag tag =>
    if tag.isStart ["tr"] then
      popUntilCurrent tableBodyContext
      let _ ← insertElementFor tag
      setMode .inRow
      pure .done
    else if tag.isStart ["th", "td"] then
      let _ ← unexpected
      popUntilCurrent tableBodyContext
      let _ ← insertPhantom "tr"
      pure (.reprocess .inRow token)
    else if tag.isEnd ["tbody", "tfoot", "thead"] then
      if ← inScopeNamedS tableScope tag.name then
        popUntilCurrent tableBodyContext
        let _ ← pop
        setMode .inTable
      else
        let _ ← unexpected
      pure .done
    else if tag.isStart ["caption", "col", "colgroup", "tbody", "tfoot", "thead"] || tag.isEnd ["table"] then
      if ← inScope tableScope (fun e => elemIn e tableOuterBody) then
        popUntilCurrent tableBodyContext
        let _ ← pop
        pure (.reprocess .inTable token)
      else unexpected
    else if tag.isEnd ["body", "caption", "col", "colgroup", "html", "td", "th", "tr"] then unexpected
    else stepInTable token
  | token => stepInTable token

/-- `let node = self.pop(); self.assert_named(&node, "tr")` (rules.rs:1320) -/
def popTr (site : String) : M Unit := do
  let node ← pop
  if !(← htmlElemNamed node "tr") then
    panicAt "assert" site "assert!(self.html_elem_named(node, name))"

/-- rules.rs:1306 -/
def stepInRow (token : Token) : M ProcessResult := do
  match token with
  | .tag tag =>
    if tag.isStart ["th", "td"] then
      popUntilCurrent tableRowContext
      let _ ← insertElementFor tag
      setMode .inCell
      pushMarker
      pure .done
    else if tag.isEnd ["tr"] then
      if ← inScopeNamed tableScope "tr" then
        popUntilCurrent tableRowContext
        popTr "mod.rs:637"
        setMode .inTableBody
      else
        let _ ← unexpected
      pure .done
    else if tag.isStart ["caption", "col", "colgroup", "tbody", "tfoot", "thead", "tr"] || tag.isEnd ["table"] then
      if ← inScopeNamed tableScope "tr" then
        popUntilCurrent tableRowContext
        popTr "mod.rs:637"
        pure (.reprocess .inTableBody token)
      else unexpected
    else if tag.isEnd ["tbody", "tfoot", "thead"] then
      if ← inScopeNamedS tableScope tag.name then
        if ← inScopeNamed tableScope "tr" then
          popUntilCurrent tableRowContext
          popTr "mod.rs:637"
          pure (.reprocess .inTableBody token)
        else pure .done
      else unexpected
    else if tag.isEnd ["body", "caption", "col", "colgroup", "html", "td", "th"] then unexpected
    else stepInTable token
  | token => stepInTable token

/-- rules.rs:1366 -/
def stepInCell (token : Token) : M ProcessResult := do
  match token with
  | .tag tag =>
    if tag.isEnd ["td", "th"] then
      if ← inScopeNamedS tableScope tag.name then
        generateImpliedEndTags cursoryImpliedEnd
        expectToCloseS tag.name
        clearActiveFormattingToMarker
        setMode .inRow
      else
        let _ ← unexpected
      pure .done
    else if tag.isStart ["caption", "col", "colgroup", "tbody", "td", "tfoot", "th", "thead", "tr"] then
      if ← inScope tableScope (fun n => elemIn n tdTh) then
        closeTheCell
        pure (.reprocess .inRow token)
      else unexpected
    else if tag.isEnd ["body", "caption", "col", "colgroup", "html"] then unexpected
    else if tag.isEnd ["table", "tbody", "tfoot", "thead", "tr"] then
      if ← inScopeNamedS tableScope tag.name then
        closeTheCell
        pure (.reprocess .inRow token)
      else unexpected
    else stepInBody token
  | token => stepInBody token

/-! ### InTemplate, AfterBody, framesets, after-after -/

def setTemplateMode (m : Mode) : M Unit :=
  modS fun s => { s with templateModes := s.templateModes.dropLast ++ [m] }

/-- rules.rs:1408 -/
def stepInTemplate (token : Token) : M ProcessResult := do
  match token with
  | .chars _ _ => stepInBody token
  | .comment _ => stepInBody token
  | .eof => inTemplateEof
  | .tag tag =>
    if tag.isStart ["base", "basefont", "bgsound", "link", "meta", "noframes", "script", "style",
                     "template", "title"] || tag.isEnd ["template"] then stepInHead token
    else if tag.isStart ["caption", "colgroup", "tbody", "tfoot", "thead"] then
      setTemplateMode .inTable
      pure (.reprocess .inTable token)
    else if tag.isStart ["col"] then
      setTemplateMode .inColumnGroup
      pure (.reprocess .inColumnGroup token)
    else if tag.isStart ["tr"] then
      setTemplateMode .inTableBody
      pure (.reprocess .inTableBody token)
    else if tag.isStart ["td", "th"] then
      setTemplateMode .inRow
      pure (.reprocess .inRow token)
    else if tag.kind == .startTag then
      setTemplateMode .inBody
      pure (.reprocess .inBody token)
    else unexpected
  | _ => unexpected

/-- rules.rs:1471 -/
def stepAfterBody (token : Token) : M ProcessResult := do
  let anythingElse (token : Token) : M ProcessResult := do
    let _ ← unexpected
    pure (.reprocess .inBody token)
  match token with
  | .chars .notSplit text => pure (.splitWhitespace text)
  | .chars .whitespace _ => stepInBody token
  | .comment text => appendCommentToHtml text
  | .eof => pure .done
  | .tag tag =>
    if tag.isStart ["html"] then stepInBody token
    else if tag.isEnd ["html"] then
      if ← isFragment then
        let _ ← unexpected
      else setMode .afterAfterBody
      pure .done
    else anythingElse token
  | token => anythingElse token

/-- rules.rs:1501 -/
def stepInFrameset (token : Token) : M ProcessResult := do
  match token with
  | .chars .notSplit text => pure (.splitWhitespace text)
  | .chars .whitespace text => appendText text
  | .comment text => appendComment text
  | .eof =>
    if (← getS).openElems.length != 1 then
      let _ ← unexpected
    pure .done
  | .tag tag =>
    if tag.isStart ["html"] then stepInBody token
    else if tag.isStart ["frameset"] then
      let _ ← insertElementFor tag
      pure .done
    else if tag.isEnd ["frameset"] then
      if (← getS).openElems.length == 1 then
        let _ ← unexpected
      else
        let _ ← pop
        -- `!is_fragment() && !current_node_named("frameset")`
        let toAfter ← do
          if ← isFragment then pure false else pure (!(← currentNodeNamed "frameset"))
        if toAfter then setMode .afterFrameset
      pure .done
    else if tag.isStart ["frame"] then
      let _ ← insertAndPopElementFor tag
      pure .doneAckSelfClosing
    else if tag.isStart ["noframes"] then stepInHead token
    else unexpected
  | _ => unexpected

/-- rules.rs:1547 -/
def stepAfterFrameset (token : Token) : M ProcessResult := do
  match token with
  | .chars .notSplit text => pure (.splitWhitespace text)
  | .chars .whitespace text => appendText text
  | .comment text => appendComment text
  | .eof => pure .done
  | .tag tag =>
    if tag.isStart ["html"] then stepInBody token
    else if tag.isEnd ["html"] then
      setMode .afterAfterFrameset
      pure .done
    else if tag.isStart ["noframes"] then stepInHead token
    else unexpected
  | _ => unexpected

/-- rules.rs:1570 -/
def stepAfterAfterBody (token : Token) : M ProcessResult := do
  let anythingElse (token : Token) : M ProcessResult := do
    let _ ← unexpected
    pure (.reprocess .inBody token)
  match token with
  | .chars .notSplit text => pure (.splitWhitespace text)
  | .chars .whitespace _ => stepInBody token
  | .comment text => appendCommentToDoc text
  | .eof => pure .done
  | .tag tag =>
    if tag.isStart ["html"] then stepInBody token else anythingElse token
  | token => anythingElse token

/-- rules.rs:1591 -/
def stepAfterAfterFrameset (token : Token) : M ProcessResult := do
  match token with
  | .chars .notSplit text => pure (.splitWhitespace text)
  | .chars .whitespace _ => stepInBody token
  | .comment text => appendCommentToDoc text
  | .eof => pure .done
  | .tag tag =>
    if tag.isStart ["html"] then stepInBody token
    else if tag.isStart ["noframes"] then stepInHead token
    else unexpected
  | _ => unexpected

/-- `step(mode, token)` (rules.rs:95) -/
def step (mode : Mode) (token : Token) : M ProcessResult :=
  match mode with
  | .initial => stepInitial token
  | .beforeHtml => stepBeforeHtml token
  | .beforeHead => stepBeforeHead token
  | .inHead => stepInHead token
  | .inHeadNoscript => stepInHeadNoscript token
  | .afterHead => stepAfterHead token
  | .inBody => stepInBody token
  | .text => stepText token
  | .inTable => stepInTable token
  | .inTableText => stepInTableText token
  | .inCaption => stepInCaption token
  | .inColumnGroup => stepInColumnGroup token
  | .inTableBody => stepInTableBody token
  | .inRow => stepInRow token
  | .inCell => stepInCell token
  | .inTemplate => stepInTemplate token
  | .afterBody => stepAfterBody token
  | .inFrameset => stepInFrameset token
  | .afterFrameset => stepAfterFrameset token
  | .afterAfterBody => stepAfterAfterBody token
  | .afterAfterFrameset => stepAfterAfterFrameset token

/-! ### foreign content -/

/-- `unexpected_start_tag_in_foreign_content` (mod.rs:1876) -/
def unexpectedStartTagInForeignContent (tag : Tag) : M ProcessResult := do
  let _ ← unexpected
  popToIntegrationPointLoop ((← getS).openElems.length + 1)
  step (← getS).mode (.tag tag)

/-- the end-tag loop of `step_foreign` (rules.rs:1660).  First argument: `stack_idx`; it is
decremented on every iteration, hence structural recursion.  The node at `stack_idx` is examined
first ("an HTML element below the first one: hand over to the insertion mode"), the bottom-of-stack
test comes second. -/
def foreignEndTagLoop (tag : Tag) : Nat → Bool → M ProcessResult
  | 0, first => do
    let node ← match (← getS).openElems[0]? with
      | some n => pure n
      | none => panicAt "index-oob" "rules.rs:1669" "open_elems[stack_idx]"
    let nodeName ← elemName node
    let html := nodeName.ns == nsHtml
    if !first && html then
      step (← getS).mode (.tag tag)
    else pure .done
  | stackIdx + 1, first => do
    let node ← match (← getS).openElems[stackIdx + 1]? with
      | some n => pure n
      | none => panicAt "index-oob" "rules.rs:1669" "open_elems[stack_idx]"
    let nodeName ← elemName node
    let html := nodeName.ns == nsHtml
    let eq := eqIgnoreAsciiCase nodeName.loc tag.name
    if !first && html then
      step (← getS).mode (.tag tag)
    else if eq then
      modS fun s => { s with openElems := s.openElems.take (stackIdx + 1) }
      pure .done
    else
      if first then
        let _ ← unexpected
      foreignEndTagLoop tag stackIdx false

/-- `step_foreign` (rules.rs:1613) -/
def stepForeign (token : Token) : M ProcessResult := do
  match token with
  | .nullChar =>
    let _ ← unexpected
    appendText ['�']
  | .chars _ text =>
    if anyNotWhitespace text then setFramesetOk false
    appendText text
  | .comment text => appendComment text
  | .eof => panicAt "eof-foreign" "rules.rs:1692" "impossible case in foreign content"
  | .tag tag =>
    if tag.isStart foreignBreakoutStart || tag.isEnd ["br", "p"] then
      unexpectedStartTagInForeignContent tag
    else if tag.isStart ["font"] then
      let unexp := tag.attrs.any (fun a => a.name.ns == [] && isOneOf a.name.loc ["color", "face", "size"])
      if unexp then unexpectedStartTagInForeignContent tag else foreignStartTag tag
    else if tag.kind == .startTag then foreignStartTag tag
    else
      let len := (← getS).openElems.length
      if len == 0 then panicAt "sub-overflow" "rules.rs:1659" "open_elems.len() - 1"
      else foreignEndTagLoop tag (len - 1) true

end H5V.Model.HtmlTB
