import H5V.Model.Dom
import H5V.Model.HtmlTok
/-
`H5V.Model.HtmlTB` — executable model of html5ever's HTML tree builder
(`html5ever/src/tree_builder/{mod,rules,data,tag_sets,types}.rs`, `html5ever/src/driver.rs`).

This file: the data types (`types.rs`, the fields of `struct TreeBuilder`) and the monad.

* The sink is the abstract DOM `H5V.Model.Dom.Dom`.  *Every* `TreeSink` call the Rust makes —
  including the pure queries `elem_name`, `same_node`, `get_template_contents`,
  `is_mathml_annotation_xml_integration_point` — is one `sink op` in the model: `Dom.apply op` on the
  DOM **and** `(op, result)` pushed on `State.traceRev`, in the order of the Rust calls.
* A panic of the Rust (`unwrap`/`expect`/`assert!`/`panic!`/`unreachable!`/index/arith overflow in
  a debug build) is `throw "<class>@<file>:<line>: <text>"`; a panic inside the sink (RcDom) is the
  error string of `Dom.apply` re-thrown as `"<class>@sink: …"`.  Model-internal impossibilities
  (fuel of a loop exhausted, a sink answer of the wrong shape) are `"model-…@model: …"`.
* `Vec`s are `List`s in the same order as in Rust (`open_elems`: most recently pushed element
  *last*), so that the index arithmetic of the adoption agency can be followed literally.
-/
namespace H5V.Model.HtmlTB
open H5V.Model.Dom (Id QualName Attr NodeOrText SinkOp Output ElementFlags QuirksMode Dom)
open H5V.Model.HtmlTok (TagKind RawKind)

abbrev Str := List Char

/-- `types.rs: enum InsertionMode` -/
inductive Mode
  | initial | beforeHtml | beforeHead | inHead | inHeadNoscript | afterHead | inBody | text
  | inTable | inTableText | inCaption | inColumnGroup | inTableBody | inRow | inCell | inTemplate
  | afterBody | inFrameset | afterFrameset | afterAfterBody | afterAfterFrameset
deriving DecidableEq, Repr, Inhabited

/-- `types.rs: enum SplitStatus` -/
inductive SplitStatus | notSplit | whitespace | notWhitespace
deriving DecidableEq, Repr, Inhabited

/-- `tokenizer::Tag` as the tree builder sees it: attribute names are `QualName`s (the tokenizer
produces `ns = ""`, no prefix; the foreign-content adjustments rewrite them) -/
structure Tag where
  kind : TagKind
  name : Str
  selfClosing : Bool := false
  attrs : List Attr := []
  hadDup : Bool := false
deriving DecidableEq, Repr, Inhabited

/-- `tokenizer::Doctype` -/
abbrev Doctype := H5V.Model.HtmlTok.Doctype

/-- `tokenizer::Token` (the input alphabet of `process_token`) -/
inductive TokToken
  | doctype (d : Doctype)
  | tag (t : Tag)
  | comment (s : Str)
  | chars (s : Str)
  | nullChar
  | eof
  | parseError (msg : Str)
deriving DecidableEq, Repr, Inhabited

/-- `types.rs: enum Token` (the tree builder's own token type) -/
inductive Token
  | tag (t : Tag)
  | comment (s : Str)
  | chars (st : SplitStatus) (s : Str)
  | nullChar
  | eof
deriving DecidableEq, Repr, Inhabited

/-- `types.rs: enum FormatEntry` -/
inductive FormatEntry
  | element (id : Id) (tag : Tag)
  | marker
deriving DecidableEq, Repr, Inhabited

/-- `types.rs: enum InsertionPoint` -/
inductive InsertionPoint
  | lastChild (parent : Id)
  | beforeSibling (sibling : Id)
  | tableFosterParenting (element prevElement : Id)
deriving DecidableEq, Repr, Inhabited

/-- `types.rs: enum ProcessResult` -/
inductive ProcessResult
  | done
  | doneAckSelfClosing
  | splitWhitespace (s : Str)
  | reprocess (m : Mode) (t : Token)
  | reprocessForeign (t : Token)
  | script (node : Id)
  | toPlaintext
  | toRawData (k : RawKind)
  | encodingIndicator (s : Str)
deriving DecidableEq, Repr, Inhabited

/-- `tokenizer::TokenSinkResult<Handle>` -/
inductive SinkResult
  | continue_
  | script (node : Id)
  | plaintext
  | rawData (k : RawKind)
  | encodingIndicator (s : Str)
deriving DecidableEq, Repr, Inhabited

/-- `struct TreeBuilderOpts` -/
structure Opts where
  exactErrors : Bool := false
  scriptingEnabled : Bool := true
  iframeSrcdoc : Bool := false
  dropDoctype : Bool := false
  quirksMode : QuirksMode := .noQuirks
deriving DecidableEq, Repr, Inhabited

/-- `struct TreeBuilder` + the sink (`dom`) + the record of the sink calls (`traceRev`, newest first) -/
structure State where
  opts : Opts
  mode : Mode := .initial
  origMode : Option Mode := none
  templateModes : List Mode := []
  pendingTableText : List (SplitStatus × Str) := []
  quirksMode : QuirksMode := .noQuirks
  docHandle : Id := 0
  openElems : List Id := []
  activeFormatting : List FormatEntry := []
  headElem : Option Id := none
  formElem : Option Id := none
  framesetOk : Bool := true
  ignoreLf : Bool := false
  fosterParenting : Bool := false
  contextElem : Option Id := none
  currentLine : Nat := 1
  dom : Dom := Dom.new
  traceRev : List (SinkOp × Output) := []
deriving Repr

/-- the tree builder's monad: state + panic -/
abbrev M := StateT State (Except String)

/-! ### names -/

def nsHtml : Str := "http://www.w3.org/1999/xhtml".toList
def nsMathml : Str := "http://www.w3.org/1998/Math/MathML".toList
def nsSvg : Str := "http://www.w3.org/2000/svg".toList
def nsXlink : Str := "http://www.w3.org/1999/xlink".toList
def nsXml : Str := "http://www.w3.org/XML/1998/namespace".toList
def nsXmlns : Str := "http://www.w3.org/2000/xmlns/".toList

/-- `ExpandedName` -/
structure EName where
  ns : Str
  loc : Str
deriving DecidableEq, Repr, Inhabited

/-- is `n` one of the string literals (`local_name!("…")` comparisons) -/
def isOneOf (n : Str) (l : List String) : Bool := l.any (fun s => s.toList == n)

def isName (n : Str) (s : String) : Bool := s.toList == n

/-- `expanded_name!(html "…")` membership -/
def htmlIn (n : EName) (l : List String) : Bool := n.ns == nsHtml && isOneOf n.loc l

/-- `tag!(<a> | <b> …)` -/
def Tag.isStart (t : Tag) (l : List String) : Bool := t.kind == .startTag && isOneOf t.name l
/-- `tag!(</a> | </b> …)` -/
def Tag.isEnd (t : Tag) (l : List String) : Bool := t.kind == .endTag && isOneOf t.name l

def asciiLower (c : Char) : Char := if 'A' ≤ c ∧ c ≤ 'Z' then Char.ofNat (c.toNat + 32) else c
/-- `str::eq_ignore_ascii_case` -/
def eqIgnoreAsciiCase (a b : Str) : Bool := a.map asciiLower == b.map asciiLower
/-- `char::is_ascii_whitespace`: U+0020, U+0009, U+000A, U+000C, U+000D -/
def isAsciiWhitespace (c : Char) : Bool := c = ' ' || c = '\t' || c = '\n' || c = '\x0c' || c = '\r'

/-- `rules.rs: any_not_whitespace` -/
def anyNotWhitespace (s : Str) : Bool := s.any (fun c => !isAsciiWhitespace c)

/-! ### monad primitives -/

/-- the class of a `Dom` error string (`"class: text"`) -/
def errClass (e : String) : String := (e.splitOn ":").headD "?"

/-- one `TreeSink` call -/
def sink (op : SinkOp) : M Output := fun s =>
  match s.dom.apply op with
  | .error e => .error (errClass e ++ "@sink: " ++ e)
  | .ok (d, out) => .ok (out, { s with dom := d, traceRev := (op, out) :: s.traceRev })

def sinkUnit (op : SinkOp) : M Unit := do let _ ← sink op

def sinkNode (op : SinkOp) : M Id := do
  match ← sink op with
  | .node id => pure id
  | _ => throw "model-sink-output@model: node expected"

def sinkBool (op : SinkOp) : M Bool := do
  match ← sink op with
  | .bool b => pure b
  | _ => throw "model-sink-output@model: bool expected"

/-- `self.sink.parse_error(msg)` — the text is informative only (never compared) -/
def parseError (msg : String) : M Unit := sinkUnit (.parseError msg.toList)

/-- `self.sink.elem_name(h).expanded()` -/
def elemName (h : Id) : M EName := do
  match ← sink (.elemName h) with
  | .name ns loc => pure ⟨ns, loc⟩
  | _ => throw "model-sink-output@model: name expected"

/-- `self.sink.same_node(x, y)` -/
def sameNode (x y : Id) : M Bool := sinkBool (.sameNode x y)

def getS : M State := get
def modS (f : State → State) : M Unit := modify f

end H5V.Model.HtmlTB
