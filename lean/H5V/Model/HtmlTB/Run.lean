import H5V.Model.HtmlTB.Rules
/-
`process_token` / `process_to_completion` / `end` (mod.rs), the constructors `TreeBuilder::new` /
`new_for_fragment`, `tokenizer_state_for_context_elem`, and the composition with the tokenizer model
`H5V.Model.HtmlTok` (`driver.rs`: `parse_document`, `parse_fragment`, `Parser::process/finish`).
-/
namespace H5V.Model.HtmlTB
open H5V.Model.Dom (Id QualName Attr NodeOrText SinkOp Output ElementFlags QuirksMode Dom)
open H5V.Model.HtmlTok (TagKind RawKind)

/-- `Tendril::pop_front_char_run(|c| c.is_ascii_whitespace())`: the maximal run of characters at the
front with the same classification, that classification, and the rest; `none` on the empty string -/
def popFrontCharRun (s : Str) : Option (Str × Bool × Str) :=
  match s with
  | [] => none
  | c :: _ =>
    let ws := isAsciiWhitespace c
    some (s.takeWhile (fun d => isAsciiWhitespace d == ws), ws, s.dropWhile (fun d => isAsciiWhitespace d == ws))

def tokenCharLen : Token → Nat
  | .chars _ s => s.length
  | _ => 0

/-- `process_to_completion` (mod.rs:332).  `more` is `more_tokens`.
Fuel: see `ptcFuel`. -/
def processToCompletion : Nat → Token → List Token → M SinkResult
  | 0, _, _ => fuelOut "process_to_completion"
  | fuel + 1, token, more => do
    let shouldAck : Bool := match token with
      | .tag t => t.selfClosing && t.kind == .startTag
      | _ => false
    let result ← do
      if ← isForeign token then stepForeign token
      else step (← getS).mode token
    match result with
    | .done =>
      if shouldAck then parseError "Unacknowledged self-closing tag"
      match more with
      | [] => pure .continue_
      | t :: rest => processToCompletion fuel t rest
    | .doneAckSelfClosing =>
      match more with
      | [] => pure .continue_
      | t :: rest => processToCompletion fuel t rest
    | .reprocess m t =>
      setMode m
      processToCompletion fuel t more
    | .reprocessForeign t => processToCompletion fuel t more
    | .splitWhitespace buf =>
      match popFrontCharRun buf with
      | none => pure .continue_
      | some (first, isWs, rest) =>
        let status := if isWs then SplitStatus.whitespace else .notWhitespace
        let more := if rest.length > 0 then more ++ [.chars .notSplit rest] else more
        processToCompletion fuel (.chars status first) more
    | .script node =>
      if !more.isEmpty then panicAt "assert" "mod.rs:393" "assert!(more_tokens.is_empty())"
      pure (.script node)
    | .toPlaintext =>
      if !more.isEmpty then panicAt "assert" "mod.rs:397" "assert!(more_tokens.is_empty())"
      pure .plaintext
    | .toRawData k =>
      if !more.isEmpty then panicAt "assert" "mod.rs:401" "assert!(more_tokens.is_empty())"
      pure (.rawData k)
    | .encodingIndicator e => pure (.encodingIndicator e)

/-- fuel for `process_to_completion`: every iteration either consumes a token of the queue, splits
off a non-empty run of the text, or follows one of the `Reprocess` edges, whose chains are bounded
by the number of open elements / template modes plus the fixed chain
Initial → BeforeHtml → BeforeHead → InHead → AfterHead → InBody → … -/
def ptcFuel (s : State) (token : Token) : Nat :=
  16 * (tokenCharLen token + 1) + 4 * (s.openElems.length + s.templateModes.length) + 64

/-- the `CharacterTokens` arm of `process_token` (mod.rs:534): drop the line feed `ignore_lf` asks
for, drop the token when nothing is left -/
def dropIgnoredLf (ignoreLf : Bool) (x : Str) : Str :=
  if ignoreLf then (match x with | '\n' :: rest => rest | _ => x) else x

def charsToken (ignoreLf : Bool) (x : Str) : Option Token :=
  if (dropIgnoredLf ignoreLf x).isEmpty then none else some (.chars .notSplit (dropIgnoredLf ignoreLf x))

/-- `TokenSink::process_token` (mod.rs:477) -/
def processToken (token : TokToken) (line : Nat) : M SinkResult := do
  if line != (← getS).currentLine then sinkUnit (.setCurrentLine line)
  let ignoreLf := (← getS).ignoreLf
  modS fun s => { s with ignoreLf := false }
  let tbToken : Option Token ← match token with
    | .parseError e =>
      sinkUnit (.parseError e)
      -- a parse error is not a token: the taken `ignore_lf` is put back
      modS fun s => { s with ignoreLf := ignoreLf }
      pure none
    | .doctype dt =>
      if (← getS).mode == .initial then
        let (err, quirk) := doctypeErrorAndQuirks dt (← getS).opts.iframeSrcdoc
        if err then parseError "Bad DOCTYPE"
        if !(← getS).opts.dropDoctype then
          sinkUnit (.appendDoctypeToDocument (dt.name.getD []) (dt.publicId.getD []) (dt.systemId.getD []))
        setQuirksMode quirk
        setMode .beforeHtml
        pure none
      else
        -- a DOCTYPE is "anything else" in "in table text": flush the pending table text first
        if (← getS).mode == .inTableText then
          let m ← flushPendingTableText
          setMode m
        parseError "DOCTYPE in body"
        pure none
    | .tag t => pure (some (.tag t))
    | .comment s => pure (some (.comment s))
    | .nullChar => pure (some .nullChar)
    | .eof => pure (some .eof)
    | .chars x => pure (charsToken ignoreLf x)
  match tbToken with
  | none => pure .continue_
  | some t => processToCompletion (ptcFuel (← getS) t) t []

/-- `TokenSink::end` (mod.rs:548) -/
def endLoop : List Id → M Unit
  | [] => pure ()
  | e :: rest => do
    sinkUnit (.pop e)
    endLoop rest

def finishTB : M Unit := do
  let l := (← getS).openElems
  modS fun s => { s with openElems := [] }
  endLoop l.reverse

/-- `adjusted_current_node_present_but_not_in_html_namespace` (mod.rs:554) -/
def adjustedCurrentNodeForeign : M Bool := do
  if (← getS).openElems.isEmpty then pure false
  else
    let cur ← adjustedCurrentNode
    pure ((← elemName cur).ns != nsHtml)

/-! ### constructors -/

def State.init (opts : Opts) : State := { opts := opts, quirksMode := opts.quirksMode }

/-- `TreeBuilder::new` (mod.rs:152) -/
def newTB : M Unit := do
  let doc ← sinkNode .getDocument
  modS fun s => { s with docHandle := doc }

/-- `TreeBuilder::new_for_fragment` (mod.rs:179) -/
def newForFragment (contextElem : Id) (formElem : Option Id) : M Unit := do
  let doc ← sinkNode .getDocument
  let n ← elemName contextElem
  let isTemplate := n.ns == nsHtml && isName n.loc "template"
  modS fun s => { s with
    docHandle := doc,
    templateModes := if isTemplate then [.inTemplate] else [],
    formElem := formElem,
    contextElem := some contextElem }
  createRoot []
  let m ← resetInsertionMode
  setMode m

/-- `tokenizer_state_for_context_elem` (mod.rs:228) -/
def tokenizerStateForContextElem (allowsScripting : Bool) : M H5V.Model.HtmlTok.State := do
  match (← getS).contextElem with
  | none => panicAt "no-context-element" "mod.rs:233" "expect(\"no context element\")"
  | some elem =>
    let n ← elemName elem
    if n.ns != nsHtml then pure .data
    else if isOneOf n.loc ["title", "textarea"] then pure (.rawData .rcdata)
    else if isOneOf n.loc ["style", "xmp", "iframe", "noembed", "noframes"] then pure (.rawData .rawtext)
    else if isName n.loc "script" then pure (.rawData .scriptData)
    else if isName n.loc "noscript" then
      if allowsScripting then pure (.rawData .rawtext) else pure .data
    else if isName n.loc "plaintext" then pure .plaintext
    else pure .data

/-! ### token-level runs -/

/-- feed a list of tokens, collecting the non-`Continue` answers (newest first) -/
def processTokens : List (TokToken × Nat) → List SinkResult → M (List SinkResult)
  | [], acc => pure acc
  | (t, line) :: rest, acc => do
    let r ← processToken t line
    processTokens rest (if r == .continue_ then acc else r :: acc)

/-! ### composition with the tokenizer (`driver.rs`) -/

namespace Joint
open H5V.Model.HtmlTok (Mach Pol SinkRes)

abbrev TokTok := H5V.Model.HtmlTok.Token

def convTag (t : H5V.Model.HtmlTok.Tag) : Tag :=
  { kind := t.kind, name := t.name, selfClosing := t.selfClosing, hadDup := t.hadDup,
    attrs := t.attrs.map (fun a => { name := plainName a.name, value := a.value }) }

/-- tokenizer token → tree-builder input; `none` for the model's pause markers -/
def conv : TokTok → Option TokToken
  | .doctype d => some (.doctype d)
  | .tag t => some (.tag (convTag t))
  | .comment s => some (.comment s)
  | .chars s => some (.chars s)
  | .nullChar => some .nullChar
  | .eof => some .eof
  | .error m => some (.parseError m)
  | .pause _ => none

def toSinkRes : SinkResult → SinkRes
  | .continue_ => .continue_
  | .script _ => .script
  | .plaintext => .plaintext
  | .rawData k => .rawData k
  | .encodingIndicator _ => .indicator

structure JState where
  tb : State
  /-- non-`Continue` answers of `process_token`, newest first -/
  results : List SinkResult := []
  /-- number of tokens delivered / of EOF tokens delivered / was the last one EOF -/
  nTokens : Nat := 0
  nEof : Nat := 0
  lastWasEof : Bool := false

/-- deliver the tokens of `out` (oldest first) to the tree builder.  The tokenizer asserts that the
answer to anything but a tag is `Continue` (`process_token_and_continue`, tokenizer/mod.rs:256). -/
def absorb : List (TokTok × Nat) → JState → Except String JState
  | [], j => .ok j
  | (t, line) :: rest, j =>
    match conv t with
    | none => absorb rest j
    | some tt =>
      match (processToken tt line).run j.tb with
      | .error e => .error e
      | .ok (r, tb) =>
        let isTag := match tt with | .tag _ => true | _ => false
        if !isTag && r != .continue_ then
          .error "assert@tokenizer/mod.rs:257: process_token_and_continue"
        else
          let isEof := tt == .eof
          absorb rest { j with tb := tb, results := if r == .continue_ then j.results else r :: j.results,
                               nTokens := j.nTokens + 1, nEof := j.nEof + (if isEof then 1 else 0),
                               lastWasEof := isEof }

/-- the sink policy the tokenizer sees during one `step`: `out` holds (newest first) the tokens the
step has emitted so far, none of which has reached the tree builder yet -/
def polOf (j : JState) : Pol :=
  { onTag := fun out tag =>
      match absorb out.reverse j with
      | .error _ => .continue_      -- the panic resurfaces when the tokens are really delivered
      | .ok j' =>
        match (processToken (.tag (convTag tag)) 1).run j'.tb with
        | .error _ => .continue_
        | .ok (r, _) => toSinkRes r
    cdataOk := fun out =>
      match absorb out.reverse j with
      | .error _ => false
      | .ok j' =>
        match adjustedCurrentNodeForeign.run j'.tb with
        | .error _ => false
        | .ok (b, _) => b }

inductive RunRes
  | done (m : Mach) (inp : Str) (j : JState)
  | script (m : Mach) (inp : Str) (j : JState)
  | indicator (m : Mach) (inp : Str) (j : JState)
  | panic (msg : String)

/-- `Tokenizer::run` with the tree builder as the sink: after every tokenizer step the tokens it
emitted are delivered and `Mach.out` is emptied -/
def run (o : H5V.Model.HtmlTok.Opts) : Nat → Mach → Str → JState → RunRes
  | 0, _, _, _ => .panic "model-fuel@model: tokenizer run"
  | fuel + 1, m, inp, j =>
    let deliver (m : Mach) (k : Mach → JState → RunRes) : RunRes :=
      match absorb m.out.reverse j with
      | .error e => .panic e
      | .ok j' => k { m with out := [] } j'
    match H5V.Model.HtmlTok.step o (polOf j) m inp with
    | .cont m inp => deliver m (fun m j => run o fuel m inp j)
    | .suspend m inp => deliver m (fun m j => .done m inp j)
    | .script m inp => deliver m (fun m j => .script m inp j)
    | .indicator m inp => deliver m (fun m j => .indicator m inp j)
    | .panic e => .panic ("tokenizer@tokenizer: " ++ e)

/-- `Tokenizer::feed` -/
def feed (o : H5V.Model.HtmlTok.Opts) (m : Mach) (inp chunk : Str) (j : JState) : RunRes :=
  let all := inp ++ chunk
  if all.isEmpty then .done m [] j
  else
    let mi := H5V.Model.HtmlTok.feedBom m all
    run o (H5V.Model.HtmlTok.fuelFor mi.1 mi.2) mi.1 mi.2 j

/-- `Parser::process`: push the chunk, then `loop_until_done` (feed again after every pause) -/
def processChunk (o : H5V.Model.HtmlTok.Opts) : Nat → Mach → Str → Str → JState → Except String (Mach × Str × JState)
  | 0, _, _, _, _ => .error "model-fuel@model: loop_until_done"
  | fuel + 1, m, inp, chunk, j =>
    match feed o m inp chunk j with
    | .done m inp j => .ok (m, inp, j)
    | .script m inp j => processChunk o fuel m inp [] j
    | .indicator m inp j => processChunk o fuel m inp [] j
    | .panic e => .error e

/-- `Tokenizer::end` with the tree builder as sink, then `TreeBuilder::end` (tokenizer/mod.rs:1793) -/
def finish (o : H5V.Model.HtmlTok.Opts) (m : Mach) (j : JState) : Except String JState := do
  let (m, inp, j) ← match m.charRef with
    | none => pure (m, ([] : Str), j)
    | some cr =>
      match H5V.Model.HtmlTok.crEof o m [] cr with
      | .error e => throw ("tokenizer@tokenizer: " ++ e)
      | .ok (m, inp, chars) =>
        match H5V.Model.HtmlTok.processCharRef (m.setCharRef none) chars with
        | (m, .cont) =>
          let j ← absorb m.out.reverse j
          pure ({ m with out := [] }, inp, j)
        | (_, .panic e) => throw ("tokenizer@tokenizer: " ++ e)
        | (_, _) => throw "tokenizer@tokenizer: process_char_ref: unexpected signal"
  let m := m.setAtEof true
  match run o (H5V.Model.HtmlTok.fuelFor m inp) m inp j with
  | .done m inp j =>
    if !inp.isEmpty then throw "assert@tokenizer/mod.rs: assertion failed: input.is_empty()"
    match H5V.Model.HtmlTok.eofLoop o 8 m with
    | .error e => throw ("tokenizer@tokenizer: " ++ e)
    | .ok m =>
      let j ← absorb m.out.reverse j
      -- `self.sink.end()`
      match finishTB.run j.tb with
      | .error e => throw e
      | .ok (_, tb) => pure { j with tb := tb }
  | .script _ _ _ | .indicator _ _ _ =>
    throw "assert@tokenizer/mod.rs: matches!(self.run(&input), TokenizerResult::Done)"
  | .panic e => throw e

end Joint

end H5V.Model.HtmlTB
