import H5V.Model.HtmlTB.Types
/-
Tables of the tree builder, written by hand from `tag_sets.rs`, `data.rs` and the `adjust_*`
functions of `mod.rs` (a translator cross-check against the source comes with C02).
-/
namespace H5V.Model.HtmlTB
open H5V.Model.Dom (QualName Attr QuirksMode)

/-! ### `tag_sets.rs` -/

def htmlDefaultScopeNames : List String :=
  ["applet", "caption", "html", "table", "td", "th", "marquee", "object", "select", "template"]

def mathmlTextIntegrationPoint (n : EName) : Bool :=
  n.ns == nsMathml && isOneOf n.loc ["mi", "mo", "mn", "ms", "mtext"]

def svgHtmlIntegrationPoint (n : EName) : Bool :=
  n.ns == nsSvg && isOneOf n.loc ["foreignObject", "desc", "title"]

def htmlDefaultScope (n : EName) : Bool := htmlIn n htmlDefaultScopeNames

def mathmlAnnotationXml (n : EName) : Bool := n.ns == nsMathml && isName n.loc "annotation-xml"

def defaultScope (n : EName) : Bool :=
  htmlDefaultScope n || mathmlTextIntegrationPoint n || mathmlAnnotationXml n || svgHtmlIntegrationPoint n

/-- `[default_scope] + "ol" "ul"` -/
def listItemScope (n : EName) : Bool := if htmlIn n ["ol", "ul"] then true else defaultScope n
/-- `[default_scope] + "button"` -/
def buttonScope (n : EName) : Bool := if htmlIn n ["button"] then true else defaultScope n
def tableScope (n : EName) : Bool := htmlIn n ["html", "table", "template"]

def tableBodyContext (n : EName) : Bool := htmlIn n ["tbody", "tfoot", "thead", "template", "html"]
def tableRowContext (n : EName) : Bool := htmlIn n ["tr", "template", "html"]
def tdTh (n : EName) : Bool := htmlIn n ["td", "th"]

def cursoryImpliedEndNames : List String :=
  ["dd", "dt", "li", "option", "optgroup", "p", "rb", "rp", "rt", "rtc"]
def cursoryImpliedEnd (n : EName) : Bool := htmlIn n cursoryImpliedEndNames

def thoroughImpliedEnd (n : EName) : Bool :=
  if htmlIn n ["caption", "colgroup", "tbody", "td", "tfoot", "th", "thead", "tr"] then true
  else cursoryImpliedEnd n

def headingTag (n : EName) : Bool := htmlIn n ["h1", "h2", "h3", "h4", "h5", "h6"]

def htmlSpecialTagNames : List String :=
  ["address", "applet", "area", "article", "aside", "base", "basefont", "bgsound", "blockquote", "body",
   "br", "button", "caption", "center", "col", "colgroup", "dd", "details", "dir", "div", "dl", "dt", "embed",
   "fieldset", "figcaption", "figure", "footer", "form", "frame", "frameset", "h1", "h2", "h3", "h4", "h5",
   "h6", "head", "header", "hgroup", "hr", "html", "iframe", "img", "input", "keygen", "li", "link",
   "listing", "main", "marquee", "menu", "meta", "nav", "noembed", "noframes", "noscript",
   "object", "ol", "p", "param", "plaintext", "pre", "script", "search", "section", "select", "source", "style",
   "summary", "table", "tbody", "td", "template", "textarea", "tfoot", "th", "thead", "title", "tr", "track",
   "ul", "wbr", "xmp"]
def htmlSpecialTag (n : EName) : Bool := htmlIn n htmlSpecialTagNames
/-- `special_tag` (tag_sets.rs): the HTML members plus the foreign members of the special category -/
def specialTag (n : EName) : Bool :=
  htmlSpecialTag n || mathmlTextIntegrationPoint n || mathmlAnnotationXml n || svgHtmlIntegrationPoint n

/-! ### tag sets declared inside functions of `mod.rs` / `rules.rs` -/

/-- `appropriate_place_for_insertion: foster_target` -/
def fosterTarget (n : EName) : Bool := htmlIn n ["table", "tbody", "tfoot", "thead", "tr"]
/-- `check_body_end: body_end_ok` -/
def bodyEndOk (n : EName) : Bool :=
  htmlIn n ["dd", "dt", "li", "optgroup", "option", "p", "rp", "rt", "tbody", "td", "tfoot", "th",
            "thead", "tr", "body", "html"]
/-- `close_p_element: implied = [cursory_implied_end] - "p"` -/
def impliedExceptP (n : EName) : Bool := if htmlIn n ["p"] then false else cursoryImpliedEnd n
/-- `generate_implied_end_except(except)` -/
def impliedExcept (except : Str) (n : EName) : Bool :=
  if n.ns == nsHtml && n.loc == except then false else cursoryImpliedEnd n
/-- `process_chars_in_table: table_outer` -/
def tableOuterChars (n : EName) : Bool := htmlIn n ["table", "tbody", "template", "tfoot", "thead", "tr"]
/-- `insert_element: form_associatable` -/
def formAssociatable (n : EName) : Bool :=
  htmlIn n ["button", "fieldset", "input", "object", "output", "select", "textarea", "img"]
/-- `insert_element: listed = [form_associatable] - "img"` -/
def listed (n : EName) : Bool := if htmlIn n ["img"] then false else formAssociatable n
/-- `<li>/<dd>/<dt>`: `close_list`, `close_defn`, `extra_special = [special_tag] - "address" "div" "p"` -/
def closeList (n : EName) : Bool := htmlIn n ["li"]
def closeDefn (n : EName) : Bool := htmlIn n ["dd", "dt"]
def extraSpecial (n : EName) : Bool := if htmlIn n ["address", "div", "p"] then false else specialTag n
/-- `InTableBody: table_outer = "tbody" "thead" "tfoot"` -/
def tableOuterBody (n : EName) : Bool := htmlIn n ["tbody", "thead", "tfoot"]

/-! ### `data.rs` -/

def quirkyPublicPrefixes : List String := [
  "+//silmaril//dtd html pro v0r11 19970101//",
  "-//advasoft ltd//dtd html 3.0 aswedit + extensions//",
  "-//as//dtd html 3.0 aswedit + extensions//",
  "-//ietf//dtd html 2.0 level 1//",
  "-//ietf//dtd html 2.0 level 2//",
  "-//ietf//dtd html 2.0 strict level 1//",
  "-//ietf//dtd html 2.0 strict level 2//",
  "-//ietf//dtd html 2.0 strict//",
  "-//ietf//dtd html 2.0//",
  "-//ietf//dtd html 2.1e//",
  "-//ietf//dtd html 3.0//",
  "-//ietf//dtd html 3.2 final//",
  "-//ietf//dtd html 3.2//",
  "-//ietf//dtd html 3//",
  "-//ietf//dtd html level 0//",
  "-//ietf//dtd html level 1//",
  "-//ietf//dtd html level 2//",
  "-//ietf//dtd html level 3//",
  "-//ietf//dtd html strict level 0//",
  "-//ietf//dtd html strict level 1//",
  "-//ietf//dtd html strict level 2//",
  "-//ietf//dtd html strict level 3//",
  "-//ietf//dtd html strict//",
  "-//ietf//dtd html//",
  "-//metrius//dtd metrius presentational//",
  "-//microsoft//dtd internet explorer 2.0 html strict//",
  "-//microsoft//dtd internet explorer 2.0 html//",
  "-//microsoft//dtd internet explorer 2.0 tables//",
  "-//microsoft//dtd internet explorer 3.0 html strict//",
  "-//microsoft//dtd internet explorer 3.0 html//",
  "-//microsoft//dtd internet explorer 3.0 tables//",
  "-//netscape comm. corp.//dtd html//",
  "-//netscape comm. corp.//dtd strict html//",
  "-//o'reilly and associates//dtd html 2.0//",
  "-//o'reilly and associates//dtd html extended 1.0//",
  "-//o'reilly and associates//dtd html extended relaxed 1.0//",
  "-//softquad software//dtd hotmetal pro 6.0::19990601::extensions to html 4.0//",
  "-//softquad//dtd hotmetal pro 4.0::19971010::extensions to html 4.0//",
  "-//spyglass//dtd html 2.0 extended//",
  "-//sq//dtd html 2.0 hotmetal + extensions//",
  "-//sun microsystems corp.//dtd hotjava html//",
  "-//sun microsystems corp.//dtd hotjava strict html//",
  "-//w3c//dtd html 3 1995-03-24//",
  "-//w3c//dtd html 3.2 draft//",
  "-//w3c//dtd html 3.2 final//",
  "-//w3c//dtd html 3.2//",
  "-//w3c//dtd html 3.2s draft//",
  "-//w3c//dtd html 4.0 frameset//",
  "-//w3c//dtd html 4.0 transitional//",
  "-//w3c//dtd html experimental 19960712//",
  "-//w3c//dtd html experimental 970421//",
  "-//w3c//dtd w3 html//",
  "-//w3o//dtd w3 html 3.0//",
  "-//webtechs//dtd mozilla html 2.0//",
  "-//webtechs//dtd mozilla html//"]

def quirkyPublicMatches : List String :=
  ["-//w3o//dtd w3 html strict 3.0//en//", "-/w3c/dtd html 4.0 transitional/en", "html"]

def quirkySystemMatches : List String :=
  ["http://www.ibm.com/data/dtd/v11/ibmxhtml1-transitional.dtd"]

def limitedQuirkyPublicPrefixes : List String :=
  ["-//w3c//dtd xhtml 1.0 frameset//", "-//w3c//dtd xhtml 1.0 transitional//"]

def html4PublicPrefixes : List String :=
  ["-//w3c//dtd html 4.01 frameset//", "-//w3c//dtd html 4.01 transitional//"]

/-- the (name, public, system) triples that are *not* an error -/
def okDoctypes : List (String × Option String × Option String) := [
  ("html", none, none),
  ("html", none, some "about:legacy-compat"),
  ("html", some "-//W3C//DTD HTML 4.0//EN", none),
  ("html", some "-//W3C//DTD HTML 4.0//EN", some "http://www.w3.org/TR/REC-html40/strict.dtd"),
  ("html", some "-//W3C//DTD HTML 4.01//EN", none),
  ("html", some "-//W3C//DTD HTML 4.01//EN", some "http://www.w3.org/TR/html4/strict.dtd"),
  ("html", some "-//W3C//DTD XHTML 1.0 Strict//EN", some "http://www.w3.org/TR/xhtml1/DTD/xhtml1-strict.dtd"),
  ("html", some "-//W3C//DTD XHTML 1.1//EN", some "http://www.w3.org/TR/xhtml11/DTD/xhtml11.dtd")]

/-- `needle.starts_with(x)` for some `x` of the list -/
def containsPfx (haystack : List String) (needle : Str) : Bool :=
  haystack.any (fun x => x.toList.isPrefixOf needle)

def listContains (l : List String) (s : Str) : Bool := l.any (fun x => x.toList == s)

/-- `data.rs: doctype_error_and_quirks` -/
def doctypeErrorAndQuirks (d : Doctype) (iframeSrcdoc : Bool) : Bool × QuirksMode :=
  let err := !(okDoctypes.any (fun (n, p, s) =>
    d.name == some n.toList && d.publicId == p.map String.toList && d.systemId == s.map String.toList))
  let pub := d.publicId.map (·.map asciiLower)
  let sys := d.systemId.map (·.map asciiLower)
  let quirk : QuirksMode :=
    if iframeSrcdoc then .noQuirks
    else if d.forceQuirks then .quirks
    else if d.name != some "html".toList then .quirks
    else if (match pub with | some p => listContains quirkyPublicMatches p | none => false) then .quirks
    else if (match sys with | some s => listContains quirkySystemMatches s | none => false) then .quirks
    else match pub with
      | some p =>
        if containsPfx quirkyPublicPrefixes p then .quirks
        else if containsPfx limitedQuirkyPublicPrefixes p then .limitedQuirks
        else if containsPfx html4PublicPrefixes p then
          (match sys with | none => .quirks | some _ => .limitedQuirks)
        else .noQuirks
      | none => .noQuirks
  (err, quirk)

/-! ### foreign-content adjustments (`mod.rs`) -/

/-- `adjust_svg_tag_name`: lower-case name ↦ camel-case name -/
def svgTagNames : List String := [
  "altGlyph", "altGlyphDef", "altGlyphItem", "animateColor", "animateMotion", "animateTransform",
  "clipPath", "feBlend", "feColorMatrix", "feComponentTransfer", "feComposite", "feConvolveMatrix",
  "feDiffuseLighting", "feDisplacementMap", "feDistantLight", "feDropShadow", "feFlood", "feFuncA",
  "feFuncB", "feFuncG", "feFuncR", "feGaussianBlur", "feImage", "feMerge", "feMergeNode",
  "feMorphology", "feOffset", "fePointLight", "feSpecularLighting", "feSpotLight", "feTile",
  "feTurbulence", "foreignObject", "glyphRef", "linearGradient", "radialGradient", "textPath"]

def lowerStr (s : String) : Str := s.toList.map asciiLower

def adjustSvgTagName (name : Str) : Str :=
  match svgTagNames.find? (fun s => lowerStr s == name) with
  | some s => s.toList
  | none => name

/-- `adjust_svg_attributes`: lower-case local name ↦ camel-case local name -/
def svgAttrNames : List String := [
  "attributeName", "attributeType", "baseFrequency", "baseProfile", "calcMode", "clipPathUnits",
  "diffuseConstant", "edgeMode", "filterUnits", "glyphRef", "gradientTransform", "gradientUnits",
  "kernelMatrix", "kernelUnitLength", "keyPoints", "keySplines", "keyTimes", "lengthAdjust",
  "limitingConeAngle", "markerHeight", "markerUnits", "markerWidth", "maskContentUnits", "maskUnits",
  "numOctaves", "pathLength", "patternContentUnits", "patternTransform", "patternUnits", "pointsAtX",
  "pointsAtY", "pointsAtZ", "preserveAlpha", "preserveAspectRatio", "primitiveUnits", "refX", "refY",
  "repeatCount", "repeatDur", "requiredExtensions", "requiredFeatures", "specularConstant",
  "specularExponent", "spreadMethod", "startOffset", "stdDeviation", "stitchTiles", "surfaceScale",
  "systemLanguage", "tableValues", "targetX", "targetY", "textLength", "viewBox", "viewTarget",
  "xChannelSelector", "yChannelSelector", "zoomAndPan"]

/-- `qualname!("", local)` -/
def plainName (loc : Str) : QualName := { pfx := none, ns := [], loc := loc }

def svgAttrMap (k : Str) : Option QualName :=
  (svgAttrNames.find? (fun s => lowerStr s == k)).map (fun s => plainName s.toList)

def mathmlAttrMap (k : Str) : Option QualName :=
  if isName k "definitionurl" then some (plainName "definitionURL".toList) else none

/-- `adjust_foreign_attributes`: (local name of the token, prefix, namespace, local).
`qualname!("p" ns "l")` has `prefix: Some("p")`, `qualname!("" ns "l")` (the `xmlns` row) `prefix: None` -/
def foreignAttrTable : List (String × Option String × Str × String) := [
  ("xlink:actuate", some "xlink", nsXlink, "actuate"),
  ("xlink:arcrole", some "xlink", nsXlink, "arcrole"),
  ("xlink:href", some "xlink", nsXlink, "href"),
  ("xlink:role", some "xlink", nsXlink, "role"),
  ("xlink:show", some "xlink", nsXlink, "show"),
  ("xlink:title", some "xlink", nsXlink, "title"),
  ("xlink:type", some "xlink", nsXlink, "type"),
  ("xml:lang", some "xml", nsXml, "lang"),
  ("xml:space", some "xml", nsXml, "space"),
  ("xmlns", none, nsXmlns, "xmlns"),
  ("xmlns:xlink", some "xmlns", nsXmlns, "xlink")]

def foreignAttrMap (k : Str) : Option QualName :=
  (foreignAttrTable.find? (fun r => r.1.toList == k)).map
    (fun r => { pfx := r.2.1.map String.toList, ns := r.2.2.1, loc := r.2.2.2.toList })

/-- `adjust_attributes(tag, map)`: the map sees the *local* name only -/
def adjustAttributes (map : Str → Option QualName) (tag : Tag) : Tag :=
  { tag with attrs := tag.attrs.map (fun a =>
      match map a.name.loc with
      | some q => { a with name := q }
      | none => a) }

def adjustSvgAttributes : Tag → Tag := adjustAttributes svgAttrMap
def adjustMathmlAttributes : Tag → Tag := adjustAttributes mathmlAttrMap
def adjustForeignAttributes : Tag → Tag := adjustAttributes foreignAttrMap

/-- `step_foreign`: the start tags that break out of foreign content -/
def foreignBreakoutStart : List String := [
  "b", "big", "blockquote", "body", "br", "center", "code", "dd", "div", "dl", "dt", "em", "embed",
  "h1", "h2", "h3", "h4", "h5", "h6", "head", "hr", "i", "img", "li", "listing", "menu", "meta",
  "nobr", "ol", "p", "pre", "ruby", "s", "small", "span", "strong", "strike", "sub", "sup", "table",
  "tt", "u", "ul", "var"]

end H5V.Model.HtmlTB
