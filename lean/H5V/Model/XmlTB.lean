/-
Model of the xml5ever tree builder at TOKEN level
(`/repo/xml5ever/src/tree_builder/mod.rs`, `types.rs`) together with the tokenizer's per-tag
attribute step (`tokenizer/mod.rs` `finish_attribute`, `process_qname`; `tokenizer/qname.rs`).

Text is `List Char`; atoms (`Prefix`, `Namespace`, `LocalName`) are strings.  `RefCell`/`Cell`
fields become fields of `State`; every `expect` is an explicit `.error` naming the site.
The sink is an abstract DOM kept as a *zipper*: one `Frame` per open element holding the children
appended so far (most recent first); `sink.pop` has no effect on the tree.  The real code appends a
child to its parent when it is created, the zipper attaches it when it is popped (or at `finish`) —
no operation can touch the parent's child list in between, so the trees agree (validated by the
`xmltb` correspondence).

DEFECT SWITCHES (all `false` = the code as it is on the pinned tree):
* `TokCfg.dupCompareQName`   — `finish_attribute` compares the new raw name with the *local part*
  of the earlier attributes (DESIGN 1.3 item 14).  `true` = proposed fix (compare the whole
  qualified name).
* `TokCfg.frontNeedsNoPrefix` — companion of the next one on the tokenizer side.
* `TbCfg.declNeedsNoPrefix`  — `process_namespaces` treats every attribute whose *local* name is
  `xmlns` (whatever its prefix) as a namespace declaration and drops it.  `true` = proposed fix
  (`p:xmlns` is an ordinary attribute).
-/
namespace H5V.Model.XmlTB

abbrev Str := List Char

def XML_URI : Str := "http://www.w3.org/XML/1998/namespace".toList
def XMLNS_URI : Str := "http://www.w3.org/2000/xmlns/".toList
def sXml : Str := "xml".toList
def sXmlns : Str := "xmlns".toList
def sScript : Str := "script".toList

/-- a name as the tokenizer delivers it: `ns` is always `ns!()` there (tokenizer/mod.rs:69,74) -/
structure RName where
  pfx : Option Str
  loc : Str
deriving Repr, DecidableEq

/-- `QualName` after binding -/
structure QName where
  pfx : Option Str
  ns : Str
  loc : Str
deriving Repr, DecidableEq

structure RAttr where
  name : RName
  value : Str
deriving Repr, DecidableEq

structure Attr where
  name : QName
  value : Str
deriving Repr, DecidableEq

inductive TagKind where | start | end_ | empty | short
deriving Repr, DecidableEq

structure Tag where
  kind : TagKind
  name : RName
  attrs : List RAttr
deriving Repr, DecidableEq

/-- `tokenizer::Token` minus `ParseError` (forwarded to the sink, no state change) -/
inductive Token where
  | tag (t : Tag)
  | doctype (name pub sys : Option Str)
  | comment (s : Str)
  | chars (s : Str)
  | pi (target data : Str)
  | nullChar
  | eof
deriving Repr, DecidableEq

/-! ## tokenizer side: qualified-name split and the duplicate-attribute step -/

/-- `QualNameTokenizer::do_after_colon` loop: a second colon invalidates the split -/
def afterColon (valid : Nat) : List Char → Option Nat
  | [] => some valid
  | c :: rest => if c = ':' then none else afterColon valid rest

/-- `do_in_name` loop; `i` = index of the head of the list -/
def inName (i : Nat) : List Char → Option Nat
  | [] => none
  | c :: rest =>
    if c = ':' ∧ rest ≠ [] then afterColon i rest else inName (i + 1) rest

/-- `QualNameTokenizer::run` (qname.rs:33-84): index of the separating colon -/
def qnameRun : List Char → Option Nat
  | [] => none
  | c :: rest => if c = ':' then none else inName 1 rest

def utf8Len (s : Str) : Nat := (s.map Char.utf8Size).sum

/-- `process_qname` (tokenizer/mod.rs:56-78) -/
def splitQName (raw : Str) : RName :=
  match (if utf8Len raw < 3 then none else qnameRun raw) with
  | none => ⟨none, raw⟩
  | some col => ⟨some (raw.take col), raw.drop (col + 1)⟩

structure RawAttr where
  name : Str
  value : Str
deriving Repr, DecidableEq

structure TokCfg where
  /-- `false`: the code as it is (compare the raw name with `a.name.local`) -/
  dupCompareQName : Bool
  /-- `false`: the code as it is — every attribute with *local* name `xmlns` (also `q:xmlns`) is moved
  to the front of the attribute list (tokenizer/mod.rs:1302-1305).  Invisible as long as
  `process_namespaces` drops such attributes; must be fixed together with `TbCfg.declNeedsNoPrefix`
  or `q:xmlns` changes its position among the attributes. -/
  frontNeedsNoPrefix : Bool
deriving Repr, DecidableEq

/-- the pinned tree -/
def TokCfg.code : TokCfg := ⟨false, false⟩
/-- with the proposed fixes (item 14; `q:xmlns` is an ordinary attribute) -/
def TokCfg.fixed : TokCfg := ⟨true, true⟩
/-- ***SWITCH***: what the drivers (correspondence) run = what /repo does now.  `TokCfg.code` until
/repo commit 7cefeea ("tokenizer duplicate test on qualified name"), `TokCfg.fixed` since. -/
def TokCfg.current : TokCfg := TokCfg.fixed

def isDeclName (cfg : TokCfg) (n : RName) : Bool :=
  (n.loc == sXmlns && (!cfg.frontNeedsNoPrefix || n.pfx == none)) || n.pfx == some sXmlns

/-- the duplicate test of `finish_attribute` (tokenizer/mod.rs:1279-1286) -/
def isDup (cfg : TokCfg) (attrs : List RAttr) (raw : Str) : Bool :=
  if cfg.dupCompareQName then attrs.any (fun b => b.name == splitQName raw)
  else attrs.any (fun b => b.name.loc == raw)

/-- declarations go to the front, everything else to the back (tokenizer/mod.rs:1302-1308) -/
def pushAttr (cfg : TokCfg) (attrs : List RAttr) (t : RAttr) : List RAttr :=
  if isDeclName cfg t.name then t :: attrs else attrs ++ [t]

/-- `finish_attribute` (tokenizer/mod.rs:1271-1310) -/
def finishAttribute (cfg : TokCfg) (attrs : List RAttr) (a : RawAttr) : List RAttr :=
  if a.name = [] then attrs
  else if isDup cfg attrs a.name then attrs
  else pushAttr cfg attrs ⟨splitQName a.name, a.value⟩

/-- the attribute list of the emitted tag, from the attributes in source order -/
def tagAttrs (cfg : TokCfg) (raw : List RawAttr) : List RAttr :=
  raw.foldl (finishAttribute cfg) []

structure RawTag where
  kind : TagKind
  name : Str
  attrs : List RawAttr
deriving Repr, DecidableEq

/-- `emit_current_tag` (tokenizer/mod.rs:422-451); a short tag has an empty name -/
def finishTag (cfg : TokCfg) (t : RawTag) : Tag :=
  ⟨t.kind, splitQName t.name, tagAttrs cfg t.attrs⟩

/-! ## namespace maps -/

/-- `BTreeMap<Option<Prefix>, Option<Namespace>>`: association list, first entry for a key wins,
`insert` conses.  (Iteration order is only used by the serializer.) -/
abbrev NsMap := List (Option Str × Option Str)

abbrev NsMap.get (m : NsMap) (p : Option Str) : Option (Option Str) := m.lookup p
abbrev NsMap.insert (m : NsMap) (p : Option Str) (u : Option Str) : NsMap := (p, u) :: m

/-- `NamespaceMap::default()` (mod.rs:83-93) -/
def defaultMap : NsMap := [(none, none), (some sXml, some XML_URI), (some sXmlns, some XMLNS_URI)]

inductive Err where
  | xmlnsUri       -- "Can't declare XMLNS URI"
  | xmlRedecl      -- "XML namespace can't be redeclared"
  | xmlnsChanged   -- "XMLNS namespaces can't be changed"
  | alreadyDefined -- "Namespace already defined"
  | invalidDecl    -- "Invalid namespace declaration."
  | noNamespace    -- "No appropriate namespace found"
  | eofInStart     -- "Unexpected EOF in start phase"
  | unexpStart     -- "Unexpected element in start phase"
  | unexpMain      -- "Unexpected element in main phase"
  | unexpEnd       -- "Unexpected element in end phase"
  | currentMismatch -- "Current node doesn't match tag"
  | secondDoctype  -- "Unexpected second DOCTYPE in start phase"
deriving Repr, DecidableEq

def optUri (v : Str) : Option Str := if v = [] then none else some v

/-- the insertion at the end of `insert_ns` (mod.rs:148-153) -/
def insertKey (m : NsMap) (key : Option Str) (u : Option Str) : Except Err NsMap :=
  if u.isSome ∧ (m.get key).isSome then .error .alreadyDefined else .ok (m.insert key u)

/-- `NamespaceMap::insert_ns` (mod.rs:109-159) -/
def insertNs (m : NsMap) (a : RAttr) : Except Err NsMap :=
  if a.value = XMLNS_URI then .error .xmlnsUri
  else if a.name.pfx = some sXmlns ∧ a.name.loc = sXml then
    (if a.value ≠ XML_URI then .error .xmlRedecl else .ok m)
  else if a.name.pfx = some sXmlns ∧ a.name.loc = sXmlns then .error .xmlnsChanged
  else if a.name.pfx = some sXmlns ∨ (a.name.pfx = none ∧ a.name.loc = sXmlns) then
    insertKey m (if a.name.loc = sXmlns then none else some a.name.loc) (optUri a.value)
  else .error .invalidDecl

structure TbCfg where
  /-- `false`: the code as it is (any attribute with local name `xmlns` is a declaration) -/
  declNeedsNoPrefix : Bool
deriving Repr, DecidableEq

def TbCfg.code : TbCfg := ⟨false⟩
def TbCfg.fixed : TbCfg := ⟨true⟩
/-- ***SWITCH***: what the drivers (correspondence) run = what /repo does now.  `TbCfg.code` until
/repo commit c6f2538 ("tree builder filters"), `TbCfg.fixed` since. -/
def TbCfg.current : TbCfg := TbCfg.fixed

/-- the filter of `process_namespaces` (mod.rs:331-334 / 339-342) -/
def isDeclLike (cfg : TbCfg) (a : RAttr) : Bool :=
  a.name.pfx == some sXmlns ||
    (a.name.loc == sXmlns && (!cfg.declNeedsNoPrefix || a.name.pfx == none))

/-- `declare_ns` over the declaration attributes in order; errors most recent first -/
def declareAll : NsMap → List Err → List RAttr → NsMap × List Err
  | m, errs, [] => (m, errs)
  | m, errs, a :: rest =>
    match insertNs m a with
    | .ok m' => declareAll m' errs rest
    | .error e => declareAll m (e :: errs) rest

/-- `find_uri` (mod.rs:258-276): current map first, then the stack innermost first -/
def findUri (stack : List NsMap) (cur : NsMap) (p : Option Str) : Option (Option Str) :=
  (cur :: stack).findSome? (fun m => m.get p)

/-- `bind_qname` (mod.rs:278-291); an unbound prefix leaves `ns` as the tokenizer set it: empty -/
def bindQName (stack : List NsMap) (cur : NsMap) (n : RName) : QName × List Err :=
  match findUri stack cur n.pfx with
  | some (some uri) => (⟨n.pfx, uri, n.loc⟩, [])
  | some none => (⟨n.pfx, [], n.loc⟩, [])
  | none => (⟨n.pfx, [], n.loc⟩, [.noNamespace])

/-- second loop of `process_namespaces`: bind, drop duplicates among *prefixed* attributes
(`bind_attr_qname` / `check_duplicate_attr`, mod.rs:297-323) -/
def bindAttrs (stack : List NsMap) (cur : NsMap) :
    List (Str × Str) → List RAttr → List Attr × List Err
  | _, [] => ([], [])
  | present, a :: rest =>
    match a.name.pfx with
    | none =>
      let (as, es) := bindAttrs stack cur present rest
      (⟨⟨none, [], a.name.loc⟩, a.value⟩ :: as, es)
    | some _ =>
      let (q, e) := bindQName stack cur a.name
      if present.contains (q.ns, q.loc) then
        let (as, es) := bindAttrs stack cur present rest
        (as, e ++ es)
      else
        let (as, es) := bindAttrs stack cur ((q.ns, q.loc) :: present) rest
        (⟨q, a.value⟩ :: as, e ++ es)

structure Bound where
  name : QName
  attrs : List Attr
  /-- the tag's own namespace map (`x` in mod.rs:353) -/
  map : NsMap
  /-- parse errors in the order reported -/
  errs : List Err
deriving Repr, DecidableEq

/-- `process_namespaces` (mod.rs:325-365) without the final push -/
def processNamespaces (cfg : TbCfg) (stack : List NsMap) (t : Tag) : Bound :=
  let (cur, derrs) := declareAll [] [] (t.attrs.filter (isDeclLike cfg))
  let (attrs, aerrs) := bindAttrs stack cur [] (t.attrs.filter (fun a => !isDeclLike cfg a))
  let (name, nerrs) := bindQName stack cur t.name
  ⟨name, attrs, cur, derrs.reverse ++ aerrs ++ nerrs⟩

/-- is the map pushed?  (mod.rs:361-364) -/
def pushesMap (kind : TagKind) (name : QName) : Bool :=
  kind == .start || (kind == .empty && name.loc == sScript)

/-! ## the DOM (zipper) -/

inductive Node where
  | elem (name : QName) (attrs : List Attr) (kids : List Node)
  | text (s : Str)
  | comment (s : Str)
  | pi (target data : Str)
  | doctype (name pub sys : Str)
deriving Repr

/-- an open element; `kids` most recent first -/
structure Frame where
  name : QName
  attrs : List Attr
  kids : List Node
deriving Repr

def Frame.close (f : Frame) : Node := .elem f.name f.attrs f.kids.reverse

/-- RcDom `append` of text: merge into a preceding text sibling (rcdom/lib.rs:428-447) -/
def appendText (kids : List Node) (s : Str) : List Node :=
  match kids with
  | .text t :: rest => .text (t ++ s) :: rest
  | _ => .text s :: kids

inductive Phase where | start | main | end_
deriving Repr, DecidableEq

structure Created where
  name : QName
  attrs : List Attr
deriving Repr, DecidableEq

structure State where
  phase : Phase
  /-- document children appended before / after the root element, most recent first -/
  docBefore : List Node
  docAfter : List Node
  /-- the root element once it has been popped -/
  root : Option Node
  /-- `open_elems`, top first -/
  opened : List Frame
  /-- `namespace_stack`, top first -/
  nsStack : List NsMap
  /-- trace of `create_element` calls, most recent first -/
  created : List Created
  /-- parse errors, most recent first -/
  errors : List Err
  /-- `doctype_seen`: a doctype has been appended to the document (mod.rs, since /repo commit b61995b) -/
  doctypeSeen : Bool
deriving Repr

def State.init : State := ⟨.start, [], [], none, [], [defaultMap], [], [], false⟩

def State.err (s : State) (es : List Err) : State := { s with errors := es.reverse ++ s.errors }

def State.hasRoot (s : State) : Bool := s.root.isSome || !s.opened.isEmpty

/-- append a node to the document -/
def State.appendDoc (s : State) (n : Node) : State :=
  if s.hasRoot then { s with docAfter := n :: s.docAfter } else { s with docBefore := n :: s.docBefore }

/-- `pop` (mod.rs:583-592) -/
def pop (s : State) : Except String State :=
  match s.opened with
  | [] => .error "tree_builder/mod.rs:589 no current element"
  | f :: [] => .ok { s with nsStack := s.nsStack.tail, opened := [], root := some f.close }
  | f :: g :: rest =>
    .ok { s with nsStack := s.nsStack.tail, opened := { g with kids := f.close :: g.kids } :: rest }

/-- append to the current node (`insert_appropriately`, mod.rs:448-452) -/
def appendCur (s : State) (upd : List Node → List Node) : Except String State :=
  match s.opened with
  | [] => .error "tree_builder/mod.rs:434 no current element"
  | f :: rest => .ok { s with opened := { f with kids := upd f.kids } :: rest }

def sameExpanded (a : QName) (b : QName) : Bool := a.ns == b.ns && a.loc == b.loc

/-- `pop_until` (mod.rs:537-547); `fuel` ≥ number of open elements always suffices -/
def popUntil (name : QName) : Nat → State → Except String State
  | 0, s =>
    match s.opened with
    | [] => .error "tree_builder/mod.rs:444 no current element"
    | f :: _ => if sameExpanded f.name name then .ok s else .error "popUntil: out of fuel"
  | n + 1, s =>
    match s.opened with
    | [] => .error "tree_builder/mod.rs:444 no current element"
    | f :: _ => if sameExpanded f.name name then .ok s else (pop s).bind (popUntil name n)

/-- `close_tag` (mod.rs:557-577) -/
def closeTag (s : State) (name : QName) : Except String State :=
  match s.opened with
  | [] => .error "tree_builder/mod.rs:444 no current element"
  | f :: _ =>
    let s := if f.name.loc ≠ name.loc then s.err [.currentMismatch] else s
    if s.opened.any (fun g => sameExpanded g.name name) then
      (popUntil name s.opened.length s).bind pop
    else .ok s

def setEndIfEmpty (s : State) : State :=
  if s.opened.isEmpty then { s with phase := .end_ } else s

/-- `insert_tag` (mod.rs:454-458): create, append to the current node, push -/
def insertTag (s : State) (b : Bound) : Except String State :=
  match s.opened with
  | [] => .error "tree_builder/mod.rs:434 no current element"
  | _ :: _ => .ok { s with opened := ⟨b.name, b.attrs, []⟩ :: s.opened,
                           created := ⟨b.name, b.attrs⟩ :: s.created }

/-- apply `process_namespaces` to the state: errors reported, map pushed or dropped -/
def applyNs (cfg : TbCfg) (s : State) (t : Tag) : State × Bound :=
  let b := processNamespaces cfg s.nsStack t
  let s := s.err b.errs
  (if pushesMap t.kind b.name then { s with nsStack := b.map :: s.nsStack } else s, b)

def optStr (o : Option Str) : Str := o.getD []

def anyNotWhitespace (s : Str) : Bool :=
  !s.all (fun c => c == '\t' || c == '\r' || c == '\n' || c == '\x0c' || c == ' ')

/-- `step` + `process_to_completion` (mod.rs:610-773); the only `Reprocess` (EOF into the End
phase, whose EOF arm does nothing) is inlined -/
def step (cfg : TbCfg) (s : State) (tok : Token) : Except String State :=
  match s.phase with
  | .start =>
    match tok with
    | .tag ⟨.start, n, as⟩ =>
      let (s, b) := applyNs cfg s ⟨.start, n, as⟩
      .ok { s with phase := .main, opened := ⟨b.name, b.attrs, []⟩ :: s.opened,
                   created := ⟨b.name, b.attrs⟩ :: s.created }
    | .tag ⟨.empty, n, as⟩ =>
      let (s, b) := applyNs cfg s ⟨.empty, n, as⟩
      .ok { s with phase := .end_, root := some (.elem b.name b.attrs []),
                   created := ⟨b.name, b.attrs⟩ :: s.created }
    | .comment c => .ok (s.appendDoc (.comment c))
    | .pi t d => .ok (s.appendDoc (.pi t d))
    | .chars cs => if !anyNotWhitespace cs then .ok s else .ok (s.err [.unexpStart])
    | .eof => .ok { s.err [.eofInStart] with phase := .end_ }
    | .doctype n p sy =>
      if s.doctypeSeen then .ok (s.err [.secondDoctype])
      else .ok ({ s with doctypeSeen := true }.appendDoc (.doctype (optStr n) (optStr p) (optStr sy)))
    | _ => .ok (s.err [.unexpStart])
  | .main =>
    match tok with
    | .chars cs => appendCur s (fun k => appendText k cs)
    | .tag ⟨.start, n, as⟩ =>
      let (s, b) := applyNs cfg s ⟨.start, n, as⟩
      insertTag s b
    | .tag ⟨.empty, n, as⟩ =>
      let (s, b) := applyNs cfg s ⟨.empty, n, as⟩
      if b.name.loc = sScript then
        (insertTag s b).bind (fun s => closeTag s b.name)
      else
        (appendCur s (fun k => .elem b.name b.attrs [] :: k)).map
          (fun s => { s with created := ⟨b.name, b.attrs⟩ :: s.created })
    | .tag ⟨.end_, n, as⟩ =>
      let (s, b) := applyNs cfg s ⟨.end_, n, as⟩
      (closeTag s b.name).map setEndIfEmpty
    | .tag ⟨.short, _, _⟩ => (pop s).map setEndIfEmpty
    | .comment c => appendCur s (fun k => .comment c :: k)
    | .pi t d => appendCur s (fun k => .pi t d :: k)
    | .eof => .ok { s with phase := .end_ }
    | .nullChar => .ok { s with phase := .end_ }
    | .doctype _ _ _ => .ok (s.err [.unexpMain])
  | .end_ =>
    match tok with
    | .comment c => .ok (s.appendDoc (.comment c))
    | .pi t d => .ok (s.appendDoc (.pi t d))
    | .chars cs => if !anyNotWhitespace cs then .ok s else .ok (s.err [.unexpEnd])
    | .eof => .ok s
    | _ => .ok (s.err [.unexpEnd])

def run (cfg : TbCfg) : State → List Token → Except String State
  | s, [] => .ok s
  | s, t :: rest => (step cfg s t).bind (fun s' => run cfg s' rest)

/-- the element under construction, from the open frames (top first): every frame is closed into
the one below it -/
def closeAll (frames : List Frame) : Option Node :=
  frames.foldl (fun acc f =>
    some (.elem f.name f.attrs (match acc with | some n => n :: f.kids | none => f.kids).reverse)) none

/-- children of the document node at the end (`end()` only pops, no tree effect) -/
def State.document (s : State) : List Node :=
  let root := match s.root with
    | some r => [r]
    | none => (closeAll s.opened).toList
  s.docBefore.reverse ++ root ++ s.docAfter.reverse

/-- created elements in creation order -/
def State.createdList (s : State) : List Created := s.created.reverse

end H5V.Model.XmlTB
